(* Separation is an invariant of every effect of the repaired API, over all histories; objects other
   than the target keep their value. *)
From Coq Require Import List Arith Lia Bool ZArith.
Import ListNotations.
Require Import SkTT.Heap.Model.

Definition disjoint (l m : list buf) := forall b, In b l -> In b m -> False.
Definition Sep (s : state) : Prop :=
  (forall i j, i <> j -> disjoint (obj s i) (obj s j)) /\
  (forall i b, In b (obj s i) -> b < next s).

Definition safe (e : effect) : bool := match e with EShare _ => false | _ => true end.
Definition target (e : effect) : option nat :=
  match e with EInPlace t _ | EConsume t _ => Some t | _ => None end.

Lemma obj_out s i : length (objs s) <= i -> obj s i = [].
Proof. intros H. unfold obj. rewrite nth_overflow by assumption. reflexivity. Qed.

Lemma alloc_mono n ks : n <= snd (alloc n ks).
Proof. revert n. induction ks as [|k ks IH]; intros n; simpl; [lia|]. specialize (IH (n + k)). lia. Qed.
Lemma alloc_spec n ks : forall i b,
  In b (match nth i (fst (alloc n ks)) None with Some l => l | None => [] end) -> n <= b < snd (alloc n ks).
Proof.
  revert n. induction ks as [|k ks IH]; intros n i b H.
  - simpl in H. destruct i; contradiction.
  - simpl in *. destruct i as [|i].
    + apply in_seq in H. pose proof (alloc_mono (n + k) ks). lia.
    + apply IH in H. lia.
Qed.
Lemma alloc_disjoint n ks : forall i j, i <> j ->
  disjoint (match nth i (fst (alloc n ks)) None with Some l => l | None => [] end)
           (match nth j (fst (alloc n ks)) None with Some l => l | None => [] end).
Proof.
  revert n. induction ks as [|k ks IH]; intros n i j Hij b Hi Hj.
  - simpl in Hi. destruct i; contradiction.
  - simpl in *. destruct i as [|i], j as [|j]; try lia.
    + apply in_seq in Hi. apply alloc_spec in Hj. lia.
    + apply in_seq in Hj. apply alloc_spec in Hi. lia.
    + apply (IH (n + k) i j ltac:(lia) b Hi Hj).
Qed.

Lemma nth_upd_same {A} (l : list A) i x d : i < length l -> nth i (upd l i x) d = x.
Proof. revert i. induction l as [|h t IH]; intros i Hi; simpl in Hi; [lia|]. destruct i; simpl; [reflexivity|apply IH; lia]. Qed.
Lemma nth_upd_other {A} (l : list A) n i x d : n <> i -> nth i (upd l n x) d = nth i l d.
Proof.
  revert n i. induction l as [|h t IH]; intros n i Hne; simpl; [destruct n; reflexivity|].
  destruct n as [|n], i as [|i]; try lia; simpl; try reflexivity. apply IH; lia.
Qed.
Lemma upd_length {A} (l : list A) i x : length (upd l i x) = length l.
Proof. revert i. induction l as [|h t IH]; intros i; simpl; [destruct i; reflexivity|]. destruct i; simpl; [reflexivity|rewrite IH; reflexivity]. Qed.

(* object lookup in an extended object list *)
Lemma obj_app s extra v n i :
  obj (mkstate (objs s ++ extra) v n) i =
  if i <? length (objs s) then obj s i else match nth (i - length (objs s)) extra None with Some l => l | None => [] end.
Proof.
  unfold obj; cbn [objs]. destruct (Nat.ltb_spec i (length (objs s))).
  - rewrite app_nth1 by assumption. reflexivity.
  - rewrite app_nth2 by assumption. reflexivity.
Qed.

Lemma obj_app' (l extra : list (option (list buf))) v n i :
  obj (mkstate (l ++ extra) v n) i =
  if i <? length l then match nth i l None with Some x => x | None => [] end
  else match nth (i - length l) extra None with Some x => x | None => [] end.
Proof.
  unfold obj; cbn [objs]. destruct (Nat.ltb_spec i (length l)).
  - rewrite app_nth1 by assumption. reflexivity.
  - rewrite app_nth2 by assumption. reflexivity.
Qed.

Theorem step_preserves_sep s e : Sep s -> safe e = true -> Sep (step s e).
Proof.
  intros (Hd & Hb) Hs. destruct e as [ks|t k|t ks|srcs]; try discriminate; unfold step.
  - (* fresh *)
    split.
    + intros i j Hij b Hi Hj. rewrite obj_app in Hi, Hj.
      destruct (Nat.ltb_spec i (length (objs s))); destruct (Nat.ltb_spec j (length (objs s))).
      * exact (Hd i j Hij b Hi Hj).
      * apply Hb in Hi. apply alloc_spec in Hj. lia.
      * apply Hb in Hj. apply alloc_spec in Hi. lia.
      * apply (alloc_disjoint (next s) ks (i - length (objs s)) (j - length (objs s)) ltac:(lia) b Hi Hj).
    + intros i b Hi. rewrite obj_app in Hi. cbn [next].
      destruct (Nat.ltb_spec i (length (objs s))).
      * apply Hb in Hi. pose proof (alloc_mono (next s) ks). lia.
      * apply alloc_spec in Hi. lia.
  - (* in place *)
    assert (Hobj : forall i, obj (mkstate (upd (objs s) t (Some (seq (next s) k))) (bump (ver s) (obj s t)) (next s + k)) i =
                              if Nat.eqb i t then (if t <? length (objs s) then seq (next s) k else []) else obj s i).
    { intros i. unfold obj; cbn [objs]. destruct (Nat.eqb_spec i t) as [->|Hne].
      - destruct (Nat.ltb_spec t (length (objs s))).
        + rewrite nth_upd_same by assumption. reflexivity.
        + rewrite nth_overflow by (rewrite upd_length; assumption). reflexivity.
      - rewrite nth_upd_other by auto. reflexivity. }
    split.
    + intros i j Hij b Hi Hj. rewrite Hobj in Hi, Hj.
      destruct (Nat.eqb_spec i t); destruct (Nat.eqb_spec j t); try lia.
      * destruct (t <? length (objs s)); [|contradiction]. apply in_seq in Hi. apply Hb in Hj. lia.
      * destruct (t <? length (objs s)); [|contradiction]. apply in_seq in Hj. apply Hb in Hi. lia.
      * exact (Hd i j Hij b Hi Hj).
    + intros i b Hi. rewrite Hobj in Hi. cbn [next]. destruct (Nat.eqb_spec i t).
      * destruct (t <? length (objs s)); [|contradiction]. apply in_seq in Hi. lia.
      * apply Hb in Hi. lia.
  - (* consume *)
    assert (Hobj : forall i, i < length (objs s) -> obj (mkstate (upd (objs s) t None) (ver s) (next s)) i = if Nat.eqb i t then [] else obj s i).
    { intros i Hi. unfold obj; cbn [objs]. destruct (Nat.eqb_spec i t) as [->|Hne].
      - rewrite nth_upd_same by assumption. reflexivity.
      - rewrite nth_upd_other by auto. reflexivity. }
    set (s' := mkstate (upd (objs s) t None) (ver s) (next s)).
    assert (Hsub : forall i b, In b (obj s' i) -> In b (obj s i)).
    { intros i b Hi. destruct (Nat.ltb_spec i (length (objs s))).
      - unfold s' in Hi. rewrite Hobj in Hi by assumption. destruct (Nat.eqb i t); [contradiction|assumption].
      - unfold s' in Hi. rewrite obj_out in Hi by (cbn [objs]; rewrite upd_length; assumption). contradiction. }
    assert (Hlen : length (objs s') = length (objs s)) by (unfold s'; cbn [objs]; apply upd_length).
    change (Sep (mkstate (objs s' ++ fst (alloc (next s) ks)) (bump (ver s) (obj s t)) (snd (alloc (next s) ks)))).
    split.
    + intros i j Hij b Hi Hj. rewrite obj_app in Hi, Hj. rewrite Hlen in Hi, Hj.
      destruct (Nat.ltb_spec i (length (objs s))); destruct (Nat.ltb_spec j (length (objs s))).
      * apply Hsub in Hi. apply Hsub in Hj. exact (Hd i j Hij b Hi Hj).
      * apply Hsub in Hi. apply Hb in Hi. apply alloc_spec in Hj. lia.
      * apply Hsub in Hj. apply Hb in Hj. apply alloc_spec in Hi. lia.
      * apply (alloc_disjoint (next s) ks (i - length (objs s)) (j - length (objs s)) ltac:(lia) b Hi Hj).
    + intros i b Hi. rewrite obj_app in Hi. rewrite Hlen in Hi. cbn [next].
      destruct (Nat.ltb_spec i (length (objs s))).
      * apply Hsub in Hi. apply Hb in Hi. pose proof (alloc_mono (next s) ks). lia.
      * apply alloc_spec in Hi. lia.
Qed.

Lemma sep_init : Sep init.
Proof. split; intros; unfold obj, init in *; simpl in *; try (destruct i; contradiction); intros b Hb; destruct i; contradiction. Qed.

(* every reachable state of the repaired API is separated *)
Theorem reachable_sep (es : list effect) : forallb safe es = true -> Sep (fold_left step es init).
Proof.
  assert (G : forall s, Sep s -> forallb safe es = true -> Sep (fold_left step es s)).
  { induction es as [|e es IH]; intros s Hs Hsafe; [exact Hs|]. simpl in Hsafe. apply andb_prop in Hsafe. destruct Hsafe as (H1 & H2).
    simpl. apply IH; [apply step_preserves_sep; assumption|exact H2]. }
  apply G. exact sep_init.
Qed.

Lemma existsb_eqb_in b bs : existsb (Nat.eqb b) bs = true <-> In b bs.
Proof.
  rewrite existsb_exists. split.
  - intros (x & Hx & E). apply Nat.eqb_eq in E. subst. exact Hx.
  - intros H. exists b. split; [exact H|apply Nat.eqb_refl].
Qed.

(* frame: an object that is not the target keeps its buffers AND their versions (its value) *)
Theorem step_frame s e i :
  Sep s -> safe e = true -> i < length (objs s) -> target e <> Some i ->
  value (step s e) i = value s i.
Proof.
  intros (Hd & Hb) Hs Hi Ht. destruct e as [ks|t k|t ks|srcs]; try discriminate; unfold value, step; cbv zeta.
  - rewrite (obj_app s (fst (alloc (next s) ks)) (ver s) (snd (alloc (next s) ks)) i).
    destruct (Nat.ltb_spec i (length (objs s))); [reflexivity|lia].
  - assert (Hne : t <> i) by (intros ->; apply Ht; reflexivity).
    assert (E : obj (mkstate (upd (objs s) t (Some (seq (next s) k))) (bump (ver s) (obj s t)) (next s + k)) i = obj s i).
    { unfold obj; cbn [objs]. rewrite nth_upd_other by exact Hne. reflexivity. }
    rewrite E. cbn [ver]. apply map_ext_in. intros b Hbin. f_equal.
    unfold bump. destruct (existsb (Nat.eqb b) (obj s t)) eqn:Eb; [|reflexivity].
    apply existsb_eqb_in in Eb. exfalso. exact (Hd i t (fun e => Hne (eq_sym e)) b Hbin Eb).
  - assert (Hne : t <> i) by (intros ->; apply Ht; reflexivity).
    rewrite obj_app'. rewrite upd_length.
    destruct (Nat.ltb_spec i (length (objs s))); [|lia].
    rewrite nth_upd_other by exact Hne. fold (obj s i).
    cbn [ver]. apply map_ext_in. intros b Hbin. f_equal.
    unfold bump. destruct (existsb (Nat.eqb b) (obj s t)) eqn:Eb; [|reflexivity].
    apply existsb_eqb_in in Eb. exfalso. exact (Hd i t (fun e => Hne (eq_sym e)) b Hbin Eb).
Qed.
