(* Abstract heap model for C06.  An object (tensor train) owns a list of buffers (its core arrays);
   a buffer has a version that is bumped whenever anything may write it.  Every public operation is
   described by its EFFECT: which new objects it creates from fresh buffers, which object it works
   on in place (the target), which object it consumes.  The effect table of the (repaired) API is
   [effect_of]; the pinned-tree sharing behaviour is the extra effect [EShare]. *)
From Coq Require Import List Arith Lia Bool ZArith.
Import ListNotations.

Definition buf := nat.
Record state := mkstate { objs : list (option (list buf));   (* index = object id; None = consumed *)
                          ver : buf -> nat;
                          next : buf }.

Inductive effect :=
| EFresh (ks : list nat)                 (* new objects, each from fresh buffers; nothing is written *)
| EInPlace (t : nat) (k : nat)           (* target t: its buffers may be written, then it is rebound to k fresh buffers *)
| EConsume (t : nat) (ks : list nat)     (* target t is consumed (dead afterwards); new objects from fresh buffers *)
| EShare (srcs : list nat).              (* PINNED TREE ONLY: a new object referencing the buffers of srcs *)

Definition obj (s : state) (o : nat) : list buf := match nth o (objs s) None with Some l => l | None => [] end.
Definition live (s : state) (o : nat) : bool := match nth o (objs s) None with Some _ => true | None => false end.
Definition bump (v : buf -> nat) (bs : list buf) : buf -> nat :=
  fun b => if existsb (Nat.eqb b) bs then S (v b) else v b.
Fixpoint upd {A} (l : list A) (i : nat) (x : A) : list A :=
  match l, i with
  | [], _ => []
  | _ :: t, O => x :: t
  | h :: t, S i' => h :: upd t i' x
  end.
(* allocate objects with the given numbers of fresh buffers *)
Fixpoint alloc (n : buf) (ks : list nat) : list (option (list buf)) * buf :=
  match ks with
  | [] => ([], n)
  | k :: ks' => let r := alloc (n + k) ks' in (Some (seq n k) :: fst r, snd r)
  end.

Definition step (s : state) (e : effect) : state :=
  match e with
  | EFresh ks => let r := alloc (next s) ks in mkstate (objs s ++ fst r) (ver s) (snd r)
  | EInPlace t k => mkstate (upd (objs s) t (Some (seq (next s) k))) (bump (ver s) (obj s t)) (next s + k)
  | EConsume t ks => let r := alloc (next s) ks in
      mkstate (upd (objs s) t None ++ fst r) (bump (ver s) (obj s t)) (snd r)
  | EShare srcs => mkstate (objs s ++ [Some (flat_map (obj s) srcs)]) (ver s) (next s)
  end.

(* value snapshot of an object: its buffers with their versions *)
Definition value (s : state) (o : nat) : list (buf * nat) := map (fun b => (b, ver s b)) (obj s o).

Definition init : state := mkstate [] (fun _ => 0) 0.

(* ---- the effect table of the public API (codes as used by harness/props/c06.py) ---- *)
Definition in_place_code (c : Z) : bool :=
  (Z.eqb c 16 || Z.eqb c 18 || (Z.leb 30 c && Z.leb c 35))%bool.
Definition consume_code (c : Z) : bool := Z.eqb c 36.
Definition effect_of (c : Z) (args : list nat) (sizes : list nat) (k_target : nat) : effect :=
  if in_place_code c then EInPlace (hd 0 args) k_target
  else if consume_code c then EConsume (hd 0 args) sizes
  else EFresh sizes.

(* executable separation check *)
Definition disjointb (l m : list buf) : bool := forallb (fun b => negb (existsb (Nat.eqb b) m)) l.
Fixpoint pairs_ok (l : list (list buf)) : bool :=
  match l with [] => true | x :: l' => forallb (disjointb x) l' && pairs_ok l' end.
Definition sepb (s : state) : bool :=
  pairs_ok (flat_map (fun o => match o with Some l => [l] | None => [] end) (objs s)).
