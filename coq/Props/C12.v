(* C12 — Markov operators built from reactions or transitions equal their definition.
   Property theorems only.  Every order >= 2, every cell-size and bond-rank vector (equal or not),
   open (rc = 0) and cyclic chains.  The families L_i, M_i are arbitrary here; with the SVD value
   conjunct sum_p L_i[p](x1,y1) M_{i+1}[p](x2,y2) is the two-cell super-core, so [Tsum] + cyclic term is
   the sum of the elementary reaction terms. *)
From Coq Require Import ZArith List Lia Arith Bool.
Import ListNotations.
Require Import Ring Sums Matrix Core Chain Sweep Slim SlimProof ConeProof.
Open Scope cr_scope.

(* 1. the block pattern [S L I M] / [[I],[M],[S L I],[J]] / [I;M;S;L] denotes
      sum_i S_i + sum_i sum_p L_i[p] (x) M_{i+1}[p] + sum_q M_0[q] (x) L_last[q] *)
Theorem C12_slim_pattern (R : cring) rc (s0 s1 : site R) rest x y xs ys :
  length xs = S (length rest) -> length ys = S (length rest) ->
  elem (slim_pattern rc (s0 :: s1 :: rest)) (x :: xs) (y :: ys) =
  Tsum (s0 :: s1 :: rest) (x :: xs) (y :: ys) + sum rc (fun q => sM s0 q x y * cycL (s1 :: rest) q xs ys).
Proof. exact (slim_pattern_value rc s0 s1 rest x y xs ys). Qed.
Print Assumptions C12_slim_pattern.

(* 2. elementary reaction matrices are generators: every column sums to zero *)
Theorem C12_reaction_colsum (R : cring) d (rs : list (@reaction1 R)) y :
  Forall (fun q : reaction1 => let '(r, p, _) := q in (r < d)%nat /\ (p < d)%nat) rs ->
  sum d (fun x => smat rs x y) = 0.
Proof. exact (smat_colsum d rs y). Qed.
Print Assumptions C12_reaction_colsum.

(* 2b. off-diagonal entries of the elementary reaction matrices and of the two-cell super-core are sums of rates: they lie in
       every additive cone P that contains 0 and the rates -- non-negative rates give non-negative off-diagonals *)
Theorem C12_offdiag_single (R : cring) (P : R -> Prop) (P0 : P 0) (Padd : forall a b, P a -> P b -> P (a + b))
        (rs : list (@reaction1 R)) x y :
  x <> y -> Forall (fun q : reaction1 => let '(_, _, rate) := q in P rate) rs -> P (smat rs x y).
Proof. exact (smat_offdiag_cone P P0 Padd rs x y). Qed.
Print Assumptions C12_offdiag_single.

Theorem C12_offdiag_pair (R : cring) (P : R -> Prop) (P0 : P 0) (Padd : forall a b, P a -> P b -> P (a + b))
        (rs : list (@reaction2 R)) x1 y1 x2 y2 :
  (x1 <> y1 \/ x2 <> y2) -> Forall (fun q : reaction2 => let '(_, _, _, _, rate) := q in P rate) rs ->
  P (supercore rs x1 y1 x2 y2).
Proof. exact (supercore_offdiag_cone P P0 Padd rs x1 y1 x2 y2). Qed.
Print Assumptions C12_offdiag_pair.

(* 3. Ulam (2-D): entries are transition counts (the code divides by the number of simulations and
      transposes: C01_smul, C01_transpose) *)
Theorem C12_ulam_counts (R : cring) s1 s2 (ts : list trans2) uniq inv x1 x2 y1 y2 :
  length inv = length ts ->
  (forall t, (t < length ts)%nat -> (nth t inv 0%nat < length uniq)%nat /\
      nth (nth t inv 0%nat) uniq (0, 0)%nat = (let '(a, _, c, _) := nth t ts (0, 0, 0, 0)%nat in (a, c))) ->
  elem (@ulam2_cores R s1 s2 ts uniq inv) [x1; x2] [y1; y2] =
  count_if (length ts) (fun t => let '(a, b, c, d) := nth t ts (0, 0, 0, 0)%nat in
                                 Nat.eqb a x1 && Nat.eqb b x2 && Nat.eqb c y1 && Nat.eqb d y2).
Proof. exact (ulam2_counts s1 s2 ts uniq inv x1 x2 y1 y2). Qed.
Print Assumptions C12_ulam_counts.

(* 3b. Ulam (3-D): the same with the pairs of the first and of the third dimension found by numpy.unique and the middle core
       counting the transitions per (pair, x2, y2, pair) *)
Theorem C12_ulam3_counts (R : cring) s1 s2 s3 (ts : list trans3) uniq1 inv1 uniq2 inv2 x1 x2 x3 y1 y2 y3 :
  (forall t, (t < length ts)%nat ->
      (nth t inv1 0%nat < length uniq1)%nat /\ (nth t inv2 0%nat < length uniq2)%nat /\
      nth (nth t inv1 0%nat) uniq1 (0, 0)%nat = (let '(a, _, _, d, _, _) := nth t ts t3d in (a, d)) /\
      nth (nth t inv2 0%nat) uniq2 (0, 0)%nat = (let '(_, _, c, _, _, f) := nth t ts t3d in (c, f))) ->
  elem (@ulam3_cores R s1 s2 s3 ts uniq1 inv1 uniq2 inv2) [x1; x2; x3] [y1; y2; y3] =
  count_if (length ts) (fun t => let '(a, b, c, d, e, f) := nth t ts t3d in
                                 Nat.eqb a x1 && Nat.eqb b x2 && Nat.eqb c x3 && Nat.eqb d y1 && Nat.eqb e y2 && Nat.eqb f y3).
Proof. exact (ulam3_counts s1 s2 s3 ts uniq1 inv1 uniq2 inv2 x1 x2 x3 y1 y2 y3). Qed.
Print Assumptions C12_ulam3_counts.

(* non-vacuity: a cyclic 3-site pattern with unequal bond ranks evaluates as stated *)
Definition exS (k : Z) (r : nat) : site ZIring :=
  @mksite ZIring 2 (fun x y => (Z.of_nat (x + 2 * y) + k, 0)%Z) r
          (fun p x y => (Z.of_nat (p + x) - k, Z.of_nat y)%Z) (fun p x y => (Z.of_nat (p * y) + k, Z.of_nat x)%Z).
Example ex_slim :
  elem (slim_pattern 2 [exS 1 1; exS 2 3; exS 3 0]) [1; 0; 1]%nat [0; 1; 1]%nat =
  (Tsum [exS 1 1; exS 2 3; exS 3 0] [1; 0; 1]%nat [0; 1; 1]%nat +
   sum 2 (fun q => sM (exS 1 1) q 1%nat 0%nat * cycL [exS 2 3; exS 3 0] q [0; 1]%nat [1; 1]%nat)).
Proof. vm_compute. reflexivity. Qed.
