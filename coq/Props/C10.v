(* C10 — splitting integrators equal the composed local propagators, at the right order.
   Property theorems only.
   Proved: (1) a two-site update of a stage applies the local propagator K to the contracted pair of
   cores (every local dimension, rank, real/complex; SVD value conjunct); (2) the coefficient
   conditions of the four schemes, against the coefficient table and stage sequences REGENERATED
   from solvers/ode.py on every run: Lie (E, O with weight 1), Strang (E/2, O, E/2), Yoshida
   (triple jump of Strang steps with 2 w1 + w0 = 1 and 2 w1^3 + w0^3 = 0 for c = 2^(1/3)), Kahan-Li
   (palindromic 17-stage composition, sum = 1, sum gamma^3 and sum gamma^5 below 1e-25).
   (3) STAGE VALUE: one whole stage as coded (all bonds of one parity: contract, propagate, split by SVD; the unpaired last
   site propagated alone) applies the tensor product of the local propagators to the train: every entry of the new train is
   sum over input tuples of  prod K_i[(x_i x_i+1),(y_i y_i+1)] * (old entry)  -- any chain length, dimensions, ranks, parity
   (SVD value conjunct per consumed answer); a step is the composition of its stages in the regenerated order.
   (4) STEP VALUE: a step (any sequence of stages, each with its own propagators, parity and SVD answers) applies the ORDERED
   PRODUCT of the stage operators to the train (C10_step_value; the shape invariants that let the stages be chained are
   C10_stage_shape).
   (5) NORM: when every local propagator met by the stages is unitary on the index pair (resp. single site) it acts on
   (skew-Hermitian generators), every stage operator and hence the ordered product of the step is an isometry, and the
   step preserves sum |entry|^2 of the train (C10_step_norm; no truncation: SVD value conjunct).
   PARTIAL: the global orders 1, 2, 4, >= 6 (BCH / composition theory) are covered by model + oracle-tape
   correspondence + side check (dense expm products, observed orders); unitarity of expm of a skew-Hermitian matrix is
   a hypothesis on the oracle (checked numerically by the side check). *)
From Coq Require Import Reals QArith ZArith List Lia Arith.
Import ListNotations.
Require Import Ring Sums Matrix Core Chain Sweep SweepProof Splitting SplitProof StageProof StepProof UnitaryStep.
Require Import SkTT.Gen.SplittingCoeffs SkTT.Proofs.SplitCoeffProof.

Theorem C10_pair_update (R : cring) idx (a : svd_ans R) (K : M R) (c c1 : core R) al x1 x2 b :
  svd_value idx (rl c * md c) (md c1 * rr c1) (pair_matrix K c c1) a ->
  (al < rl c)%nat -> (x1 < md c)%nat -> (x2 < md c1)%nat -> (b < rr c1)%nat ->
  mmul (length idx) (cmat (fst (pair_step idx a c c1)) x1 0%nat) (cmat (snd (pair_step idx a c c1)) x2 0%nat) al b =
  applied K c c1 al (x1 * md c1 + x2)%nat b.
Proof. exact (pair_step_value idx a K c c1 al x1 x2 b). Qed.
Print Assumptions C10_pair_update.

Theorem C10_stage_value (R : cring) thr maxr (Ks : list (M R)) even fuel pos answers (cs : list (core R)) xs a b fin :
  (length cs < fuel)%nat -> stage_hyp thr maxr Ks even fuel pos answers cs ->
  linked cs fin -> below xs (rows cs) -> (a < rl_of cs fin)%nat -> (b < fin)%nat ->
  chain (stage_cores thr maxr Ks even fuel pos answers cs) xs (StageProof.zeros (length cs)) a b =
  msum (rows cs) (fun ys => (Wst Ks even fuel pos (rows cs) xs ys * chain cs ys (StageProof.zeros (length cs)) a b)%cr).
Proof. exact (stage_value thr maxr Ks even fuel pos answers cs xs a b fin). Qed.
Print Assumptions C10_stage_value.

(* a stage keeps the row dimensions, the linked ranks and the left rank (what the next stage needs) *)
Theorem C10_stage_shape (R : cring) thr maxr (Ks : list (M R)) even fuel pos answers (cs : list (core R)) fin :
  stage_hyp thr maxr Ks even fuel pos answers cs -> stage_pos thr maxr even fuel pos answers cs -> linked cs fin ->
  rows (stage_cores thr maxr Ks even fuel pos answers cs) = rows cs /\
  linked (stage_cores thr maxr Ks even fuel pos answers cs) fin /\
  rl_of (stage_cores thr maxr Ks even fuel pos answers cs) fin = rl_of cs fin.
Proof. exact (stage_shape thr maxr Ks even fuel pos answers cs fin). Qed.
Print Assumptions C10_stage_shape.

(* a whole step = the ordered product of its stage operators, applied to the train *)
Theorem C10_step_value (R : cring) thr maxr fuel (sts : list (@stage_desc R)) (cs : list (core R)) xs a b fin :
  (length cs < fuel)%nat -> step_hyp thr maxr fuel sts cs ->
  linked cs fin -> below xs (rows cs) -> (a < rl_of cs fin)%nat -> (b < fin)%nat ->
  chain (run_step thr maxr fuel sts cs) xs (StageProof.zeros (length cs)) a b =
  msum (rows cs) (fun ys => (Wstep fuel sts (rows cs) xs ys * chain cs ys (StageProof.zeros (length cs)) a b)%cr).
Proof. exact (step_value thr maxr fuel sts cs xs a b fin). Qed.
Print Assumptions C10_step_value.

(* a step with unitary local propagators preserves the 2-norm of the train *)
Theorem C10_step_norm (R : cring) thr maxr fuel (sts : list (@stage_desc R)) (cs : list (core R)) :
  (length cs < fuel)%nat -> step_hyp thr maxr fuel sts cs -> linked cs 1%nat -> rl_of cs 1%nat = 1%nat ->
  Forall (fun st : @stage_desc R => stage_unitary_hyp (fst (fst st)) (snd (fst st)) fuel 0 (rows cs)) sts ->
  msum (rows cs) (fun xs => (cconj R (chain (run_step thr maxr fuel sts cs) xs (StageProof.zeros (length cs)) 0%nat 0%nat) *
                            chain (run_step thr maxr fuel sts cs) xs (StageProof.zeros (length cs)) 0%nat 0%nat)%cr) =
  msum (rows cs) (fun ys => (cconj R (chain cs ys (StageProof.zeros (length cs)) 0%nat 0%nat) * chain cs ys (StageProof.zeros (length cs)) 0%nat 0%nat)%cr).
Proof. exact (step_norm_local thr maxr fuel sts cs). Qed.
Print Assumptions C10_step_norm.

(* non-vacuity: two sites (dimensions 1 and 2), an even stage with K = [[1,2],[3,4]] whose SVD answer is the trivial exact one
   (U = the matrix, s = 1, V = I), followed by an odd stage (last site alone, K' = [[0,1],[1,0]]); the hypotheses hold and the
   new train has the entries K' K x *)
Definition exK : M Zring := fun i j => match i, j with 0%nat, 0%nat => 1 | 0%nat, 1%nat => 2 | 1%nat, 0%nat => 3 | 1%nat, 1%nat => 4 | _, _ => 0 end%Z.
Definition exK' : M Zring := fun i j => if Nat.eqb (i + j) 1 then 1%Z else 0%Z.
Definition exc0 : core Zring := @mkcore Zring 1 1 1 1 (fun _ _ _ _ => 1%Z).
Definition exc1 : core Zring := @mkcore Zring 1 2 1 1 (fun _ x _ _ => if Nat.eqb x 0 then 5%Z else 7%Z).
Definition exA10 : svd_ans Zring := @mkans Zring 2 (pair_matrix exK exc0 exc1) (fun _ => 1%Z) (fun p q => if Nat.eqb p q then 1%Z else 0%Z).
Definition exsts : list (@stage_desc Zring) := [([exK; exK'], true, [exA10]); ([exK; exK'], false, [])].
Example ex_step_hyp : step_hyp None None 3 exsts [exc0; exc1] /\ linked [exc0; exc1] 1%nat.
Proof.
  split; [|cbn; lia].
  cbn [exsts step_hyp]. split; [|split].
  - cbn. split; [|exact I]. intros r b Hr Hb. destruct r as [|r]; [|lia]. destruct b as [|[|b]]; try lia; vm_compute; reflexivity.
  - cbn. split; [discriminate|exact I].
  - cbn. auto.
Qed.
Example ex_step_entries :
  map (fun x => chain (run_step None None 3 exsts [exc0; exc1]) [0%nat; x] [0%nat; 0%nat] 0%nat 0%nat) [0%nat; 1%nat] = [43%Z; 19%Z].
Proof. vm_compute. reflexivity. Qed.

Theorem C10_lie_coefficients : lie_stages = [(0, true); (0, false)]%nat /\
  Qeq_bool (fst (nth 0 lie_sets (0, 0)%Q)) 1 = true /\ Qeq_bool (snd (nth 0 lie_sets (0, 0)%Q)) 1 = true.
Proof. exact lie_conditions. Qed.
Print Assumptions C10_lie_coefficients.

Theorem C10_strang_coefficients :
  triples strang_stages = Some [0%nat] /\ halves_ok strang_sets = true /\
  Qeq_bool (qsum (odd_coeffs strang_sets [0%nat])) 1 = true.
Proof. exact strang_conditions. Qed.
Print Assumptions C10_strang_coefficients.

Theorem C10_kahan_li_coefficients :
  exists idx, triples kahan_li_stages = Some idx /\ palindromic idx = true /\ length idx = 17%nat /\
    halves_ok kahan_li_sets = true /\
    Qeq_bool (qsum (odd_coeffs kahan_li_sets idx)) 1 = true /\
    small (qsum (map (fun g => g * g * g) (odd_coeffs kahan_li_sets idx)))%Q = true /\
    small (qsum (map (fun g => g * g * g * g * g) (odd_coeffs kahan_li_sets idx)))%Q = true.
Proof. exact kahan_li_conditions. Qed.
Print Assumptions C10_kahan_li_coefficients.

Theorem C10_yoshida_coefficients (c : R) : (c ^ 3 = 2)%R -> (2 - c <> 0)%R ->
  triples yoshida_stages = Some [0; 1; 0]%nat /\
  match yoshida_sets c with
  | [(e1, w1); (e0, w0)] => (e1 + e1 = w1 /\ e0 + e0 = w0 /\ 2 * w1 + w0 = 1 /\ 2 * w1 ^ 3 + w0 ^ 3 = 0)%R
  | _ => False
  end.
Proof. exact (yoshida_conditions c). Qed.
Print Assumptions C10_yoshida_coefficients.
