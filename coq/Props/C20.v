(* C20 — quantum sampling draws from the Born distribution of the measured qubits.
   Property theorems only.  Proved (any commutative ring with involution, all qubit counts and ranks):
     - C20_marginal: for a probability train whose tail (all cores to the right of position i, every site summed out)
       contracts to vec(I), the number  theta . (core_i[:, x, :] vec(I))  that the sampler forms is the train summed over
       ALL later sites: the marginal of (bits drawn so far, x);  the sampler compares the variate with p(0) / (p(0) + p(1)):
       inverse-CDF sampling from the exact conditional probabilities;
     - C20_theta: the left vector after a draw is the row of the prefix chain at the drawn bits;
     - C20_born_core: a measured site of the probability train is conj(psi) (x) psi (C01 matmul, C02 diag models), and for a
       right-orthonormal state core the site summed out maps vec(I) to vec(I);
     - C20_born_tail: hence for a right-orthonormal state whose later sites are all measured, the whole tail of the
       probability train, every site summed out, is vec(I): the hypothesis of C20_marginal is discharged in that case;
     - C20_counts: the counts of np.unique add up to the number of samples (relative frequencies sum to one).
   PARTIAL: the tail hypothesis in the presence of unmeasured sites (squeeze absorbs their transfer matrices) is covered by
   correspondence and side check; convergence of the frequencies is the law of large numbers (6-sigma check, not a theorem). *)
From Coq Require Import ZArith List Lia Arith.
Import ListNotations.
Require Import Ring Sums Matrix Core Chain TTOps Structure SweepProof Sampling SamplingProof.
Open Scope cr_scope.

Theorem C20_marginal (R : cring) (c : core R) (rest : list (core R)) (theta : nat -> R) (x : nat) :
  (forall b, (b < rr c)%nat -> tail_weight rest b = vecI (rr c) b) ->
  sum (rl c) (fun a => theta a * ctmp c a x) =
  msum (rows rest) (fun xs => sum (rl c) (fun a => theta a * chain (c :: rest) (x :: xs) (zeros (S (length rest))) a 0%nat)).
Proof. exact (marginal_step c rest theta x). Qed.
Print Assumptions C20_marginal.

Theorem C20_theta (R : cring) (pre : list (core R)) (c : core R) (bits : list nat) (bit : nat) l :
  length bits = length pre -> linked pre (rl c) -> pre <> [] -> (l < rr c)%nat ->
  sum (rl c) (fun a => chain pre bits (zeros (length pre)) 0%nat a * g c a bit 0%nat l) =
  chain (pre ++ [c]) (bits ++ [bit]) (zeros (length pre) ++ [0%nat]) 0%nat l.
Proof. exact (theta_step pre c bits bit l). Qed.
Print Assumptions C20_theta.

Theorem C20_born_core (R : cring) (c : core R) a1 a2 : nd c = 1%nat -> right_iso c -> (0 < rr c)%nat ->
  (a1 < rl c)%nat -> (a2 < rl c)%nat ->
  sum (md c) (fun x => sum (rr c * rr c) (fun b => g (born c) (a1 * rl c + a2)%nat x 0%nat b * vecI (rr c * rr c) b)) = delta a1 a2.
Proof. exact (born_core_tail c a1 a2). Qed.
Print Assumptions C20_born_core.

Theorem C20_born_tail (R : cring) (cs : list (core R)) b1 b2 :
  Forall (fun c => nd c = 1%nat) cs -> Forall right_iso cs -> linked cs 1%nat -> Forall (fun c => (0 < rl c)%nat) cs ->
  (b1 < rl_of cs 1)%nat -> (b2 < rl_of cs 1)%nat ->
  tail_weight (map born cs) (b1 * rl_of cs 1 + b2)%nat = delta b1 b2.
Proof. exact (born_tail_weight cs b1 b2). Qed.
Print Assumptions C20_born_tail.

Theorem C20_counts (rows : list (list nat)) : total (unique_counts rows) = length rows.
Proof. exact (counts_total rows). Qed.
Print Assumptions C20_counts.

(* non-vacuity: the one-qubit state (1, i)/sqrt 2 scaled to Gaussian integers is right-orthogonal up to the scalar 2;
   and unique_counts on a concrete sample *)
Example ex_counts : unique_counts [[1; 0]; [0; 1]; [1; 0]; [0; 0]]%nat = [([0; 0], 1); ([0; 1], 1); ([1; 0], 2)]%nat.
Proof. vm_compute. reflexivity. Qed.
