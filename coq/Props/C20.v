(* C20 — quantum sampling draws from the Born distribution of the measured qubits.
   Property theorems only.  Proved (any commutative ring with involution, all qubit counts and ranks):
     - C20_marginal: for a probability train whose tail (all cores to the right of position i, every site summed out)
       contracts to vec(I), the number  theta . (core_i[:, x, :] vec(I))  that the sampler forms is the train summed over
       ALL later sites: the marginal of (bits drawn so far, x);  the sampler compares the variate with p(0) / (p(0) + p(1)):
       inverse-CDF sampling from the exact conditional probabilities;
     - C20_theta: the left vector after a draw is the row of the prefix chain at the drawn bits;
     - C20_born_core: a measured site of the probability train is conj(psi) (x) psi (C01 matmul, C02 diag models), and for a
       right-orthonormal state core the site summed out maps vec(I) to vec(I);
     - C20_born_tail: hence for a right-orthonormal state whose later sites are all measured, the whole tail of the
       probability train, every site summed out, is vec(I): the hypothesis of C20_marginal is discharged in that case;
     - C20_counts: the counts of np.unique add up to the number of samples (relative frequencies sum to one).
     - C20_prob_tails / C20_marginal_everywhere: for a right-orthonormal state and ANY set of measured sites, every proper tail
       of the probability train squeeze(diag(state, measured)^H @ state), all sites summed out, is vec(I) (unmeasured sites
       are traced out inside their mode-less cores, squeeze multiplies those into their neighbours and keeps the tails);
       hence at every core of the train the sampler's number is the exact marginal: the hypothesis of C20_marginal is
       discharged in general.
   PARTIAL: convergence of the frequencies is the law of large numbers (6-sigma check, not a theorem). *)
From Coq Require Import ZArith List Lia Arith.
Import ListNotations.
Require Import Ring Sums Matrix Core Chain TTOps Structure SweepProof Sampling SamplingProof SqueezeProof TailProof.
Open Scope cr_scope.

Theorem C20_marginal (R : cring) (c : core R) (rest : list (core R)) (theta : nat -> R) (x : nat) :
  (forall b, (b < rr c)%nat -> tail_weight rest b = vecI (rr c) b) ->
  sum (rl c) (fun a => theta a * ctmp c a x) =
  msum (rows rest) (fun xs => sum (rl c) (fun a => theta a * chain (c :: rest) (x :: xs) (zeros (S (length rest))) a 0%nat)).
Proof. exact (marginal_step c rest theta x). Qed.
Print Assumptions C20_marginal.

Theorem C20_theta (R : cring) (pre : list (core R)) (c : core R) (bits : list nat) (bit : nat) l :
  length bits = length pre -> linked pre (rl c) -> pre <> [] -> (l < rr c)%nat ->
  sum (rl c) (fun a => chain pre bits (zeros (length pre)) 0%nat a * g c a bit 0%nat l) =
  chain (pre ++ [c]) (bits ++ [bit]) (zeros (length pre) ++ [0%nat]) 0%nat l.
Proof. exact (theta_step pre c bits bit l). Qed.
Print Assumptions C20_theta.

Theorem C20_born_core (R : cring) (c : core R) a1 a2 : nd c = 1%nat -> right_iso c -> (0 < rr c)%nat ->
  (a1 < rl c)%nat -> (a2 < rl c)%nat ->
  sum (md c) (fun x => sum (rr c * rr c) (fun b => g (born c) (a1 * rl c + a2)%nat x 0%nat b * vecI (rr c * rr c) b)) = delta a1 a2.
Proof. exact (born_core_tail c a1 a2). Qed.
Print Assumptions C20_born_core.

Theorem C20_born_tail (R : cring) (cs : list (core R)) b1 b2 :
  Forall (fun c => nd c = 1%nat) cs -> Forall right_iso cs -> linked cs 1%nat -> Forall (fun c => (0 < rl c)%nat) cs ->
  (b1 < rl_of cs 1)%nat -> (b2 < rl_of cs 1)%nat ->
  tail_weight (map born cs) (b1 * rl_of cs 1 + b2)%nat = delta b1 b2.
Proof. exact (born_tail_weight cs b1 b2). Qed.
Print Assumptions C20_born_tail.

(* the general case: any selection of measured sites *)
Theorem C20_prob_tails (R : cring) (state : list (core R)) sel : length sel = length state ->
  Forall (fun c => nd c = 1%nat) state -> Forall right_iso state -> linked state 1%nat -> Forall (fun c => (0 < rl c)%nat) state ->
  tails_ok (prob_tt sel state).
Proof. exact (prob_tt_tails_ok state sel). Qed.
Print Assumptions C20_prob_tails.

Theorem C20_marginal_everywhere (R : cring) (state : list (core R)) sel pre c rest (theta : nat -> R) (x : nat) :
  length sel = length state ->
  Forall (fun c => nd c = 1%nat) state -> Forall right_iso state -> linked state 1%nat -> Forall (fun c => (0 < rl c)%nat) state ->
  prob_tt sel state = pre ++ c :: rest ->
  sum (rl c) (fun a => theta a * ctmp c a x) =
  msum (rows rest) (fun xs => sum (rl c) (fun a => theta a * chain (c :: rest) (x :: xs) (zeros (S (length rest))) a 0%nat)).
Proof.
  intros H1 H2 H3 H4 H5 E. apply marginal_step.
  exact (prob_tt_tails_ok state sel H1 H2 H3 H4 H5 pre c rest E).
Qed.
Print Assumptions C20_marginal_everywhere.

Theorem C20_counts (rows : list (list nat)) : total (unique_counts rows) = length rows.
Proof. exact (counts_total rows). Qed.
Print Assumptions C20_counts.

(* non-vacuity: the one-qubit state (1, i)/sqrt 2 scaled to Gaussian integers is right-orthogonal up to the scalar 2;
   and unique_counts on a concrete sample *)
Example ex_counts : unique_counts [[1; 0]; [0; 1]; [1; 0]; [0; 0]]%nat = [([0; 0], 1); ([0; 1], 1); ([1; 0], 2)]%nat.
Proof. vm_compute. reflexivity. Qed.

(* non-vacuity of the general tail theorem: the product state |0> (x) i|1> (x) |1> over the Gaussian integers (exactly
   right-orthonormal), the middle qubit unmeasured: the hypotheses hold, squeeze removes the unmeasured site, and the tail
   behind the first core is vec(I) by computation as well *)
Definition exq0 : core ZIring := @mkcore ZIring 1 2 1 1 (fun _ x _ _ => if Nat.eqb x 0 then (1, 0)%Z else (0, 0)%Z).
Definition exq1 : core ZIring := @mkcore ZIring 1 2 1 1 (fun _ x _ _ => if Nat.eqb x 1 then (0, 1)%Z else (0, 0)%Z).
Definition exq2 : core ZIring := @mkcore ZIring 1 2 1 1 (fun _ x _ _ => if Nat.eqb x 1 then (1, 0)%Z else (0, 0)%Z).
Example ex_tail_hyps :
  Forall (fun c => nd c = 1%nat) [exq0; exq1; exq2] /\ Forall (@right_iso ZIring) [exq0; exq1; exq2] /\ linked [exq0; exq1; exq2] 1%nat /\
  Forall (fun c => (0 < rl c)%nat) [exq0; exq1; exq2] /\
  length (prob_tt [true; false; true] [exq0; exq1; exq2]) = 2%nat /\
  @tail_weight ZIring (tl (prob_tt [true; false; true] [exq0; exq1; exq2])) 0%nat = @vecI ZIring 1 0%nat.
Proof.
  split; [repeat constructor|]. split.
  - repeat constructor; intros p q Hp Hq; destruct p as [|p]; destruct q as [|q]; try (cbn in *; lia); vm_compute; reflexivity.
  - split; [cbn; lia|]. split; [repeat constructor; cbn; lia|]. split; vm_compute; reflexivity.
Qed.
