(* C11 — TDVP and Krylov propagators: exact on representable dynamics, conservative, inputs untouched.
   Property theorems only.
   Proved (for every commutative ring with involution, every size):
     - norm conservation of a projector-splitting sub-step: a state x = P c in an orthonormal frame P whose
       coefficient is replaced by U c with U unitary keeps its norm (C11_norm_conserved);
     - energy conservation: with M the effective operator (c^H M c = x^H H x in an orthonormal frame) and
       U unitary commuting with M (U = exp(-i t M)), the energy is unchanged (C11_energy_conserved);
     - the effective operator of the backward (bond / carried-core) sub-step, which the code obtains as
       q~^H micro q~ with q~ the orthonormal factor padded by identities (tensordot with eye, transpose,
       reshape), is exactly the index formula of the model (C11_projected_operator_lead / _trail);
     - trajectory shape: the drivers' loop returns exactly one state per step, the k-th state being the
       state after k steps (C11_trajectory);
     - the effective operators: tdvp1site / tdvp2site build their micro matrices with the helpers of sle.py, so the
       frame identities hold verbatim: the one-site effective operator is P^H H P (C11_effective_operator_1site) and the
       two-site one likewise (C11_effective_operator_2site), for every position, order, dimension and rank.
   PARTIAL: exactness at maximal ranks (Lubich-Oseledets) and exactness of the Lanczos propagator need the
   matrix exponential, which is an oracle here (expm_multiply answered from the tape in the correspondence);
   those clauses, and "inputs unchanged", are decided by the correspondence and the float side check
   (search), not by a theorem.  The hypotheses "P orthonormal", "U unitary, commuting with M" are the
   specifications of QR/RQ/SVD and expm, not proved of LAPACK. *)
From Coq Require Import ZArith List Lia Arith.
Import ListNotations.
Require Import Ring Sums Matrix Core Chain TensordotProof Env EnvProof FrameProof FrameProof2 Tdvp TdvpProof.
Open Scope cr_scope.

Theorem C11_norm_conserved (R : cring) (N K : nat) (P U : nat -> nat -> R) (c : nat -> R) :
  (forall p q, (p < K)%nat -> (q < K)%nat -> sum N (fun i => cconj R (P i p) * P i q) = if Nat.eqb p q then 1 else 0) ->
  (forall p q, (p < K)%nat -> (q < K)%nat -> sum K (fun i => cconj R (U i p) * U i q) = if Nat.eqb p q then 1 else 0) ->
  ip N (mv K P (mv K U c)) (mv K P (mv K U c)) = ip N (mv K P c) (mv K P c).
Proof. exact (norm_preserved N K P U c). Qed.
Print Assumptions C11_norm_conserved.

Theorem C11_energy_conserved (R : cring) (K : nat) (Mo U : nat -> nat -> R) (c : nat -> R) :
  (forall p q, (p < K)%nat -> (q < K)%nat -> sum K (fun i => cconj R (U i p) * U i q) = if Nat.eqb p q then 1 else 0) ->
  (forall i j, (i < K)%nat -> (j < K)%nat -> sum K (fun k => Mo i k * U k j) = sum K (fun k => U i k * Mo k j)) ->
  ip K (mv K U c) (mv K Mo (mv K U c)) = ip K c (mv K Mo c).
Proof. exact (energy_preserved K Mo U c). Qed.
Print Assumptions C11_energy_conserved.

Theorem C11_projected_operator_lead (R : cring) (Q : M R) lead k tail (Mi : M R) row col :
  (0 < tail)%nat -> (row < k * tail)%nat -> (col < k * tail)%nat ->
  conjugate_by (lead * tail) (pad_lead Q tail) Mi row col = snd (proj_lead Q lead k tail Mi) row col.
Proof. exact (proj_lead_is_conjugation Q lead k tail Mi row col). Qed.
Print Assumptions C11_projected_operator_lead.

Theorem C11_projected_operator_trail (R : cring) (Q : M R) head trail k (Mi : M R) row col :
  (0 < k)%nat -> (0 < trail)%nat -> (row < head * k)%nat -> (col < head * k)%nat ->
  conjugate_by (head * trail) (pad_trail Q k trail) Mi row col = snd (proj_trail Q head trail k Mi) row col.
Proof. exact (proj_trail_is_conjugation Q head trail k Mi row col). Qed.
Print Assumptions C11_projected_operator_trail.

Theorem C11_trajectory (S T : Type) (out : S -> T) (x0 dflt : T) (n : nat) (f : S -> S) (s : S) :
  let sol := x0 :: fst (traj out n f s) in
  length sol = Datatypes.S n /\ nth 0 sol dflt = x0 /\
  (forall k, (k < n)%nat -> nth (Datatypes.S k) sol dflt = out (iterate (Datatypes.S k) f s)) /\
  snd (traj out n f s) = iterate n f s.
Proof.
  exact (conj (f_equal Datatypes.S (traj_length out n f s))
              (conj eq_refl (conj (fun k Hk => traj_nth out n f dflt s k Hk) (traj_final out n f s)))).
Qed.
Print Assumptions C11_trajectory.

Theorem C11_effective_operator_1site (R : cring) (Xp Ap Xs As : list (core R)) (A : core R) fx c x c' s y s' :
  length Ap = length Xp -> linked Xp fx -> linked Ap (rl A) -> rl_of Xp fx = 1%nat -> rl_of Ap (rl A) = 1%nat ->
  length As = length Xs -> linked Xs 1%nat -> linked As 1%nat -> rl_of As 1%nat = rr A ->
  (c < fx)%nat -> (s < fx)%nat -> (c' < rl_of Xs 1)%nat -> (s' < rl_of Xs 1)%nat -> (x < md A)%nat -> (y < nd A)%nat ->
  snd (micro_op_als (lstack_from one3 Xp Ap) (rstack Xs As) A fx (rl_of Xs 1%nat))
      ((c * md A + x) * rl_of Xs 1%nat + c')%nat ((s * nd A + y) * rl_of Xs 1%nat + s')%nat =
  sum (rl A) (fun r => sum (rr A) (fun r' => Kernel Xp Ap 0%nat 0%nat 0%nat s r c * g A r x y r' * RightProd Xs As s' r' c')).
Proof. exact (frame_als Xp Ap Xs As A fx c x c' s y s'). Qed.
Print Assumptions C11_effective_operator_1site.

Theorem C11_effective_operator_2site (R : cring) (Xp Ap Xs As : list (core R)) (A1 A2 : core R) fx c x1 x2 c' s y1 y2 s' :
  length Ap = length Xp -> linked Xp fx -> linked Ap (rl A1) -> rl_of Xp fx = 1%nat -> rl_of Ap (rl A1) = 1%nat ->
  length As = length Xs -> linked Xs 1%nat -> linked As 1%nat -> rl_of As 1%nat = rr A2 ->
  (c < fx)%nat -> (s < fx)%nat -> (c' < rl_of Xs 1)%nat -> (s' < rl_of Xs 1)%nat ->
  (x1 < md A1)%nat -> (y1 < nd A1)%nat -> (x2 < md A2)%nat -> (y2 < nd A2)%nat ->
  snd (micro_op_mals (lstack_from one3 Xp Ap) (rstack Xs As) A1 A2 fx (rl_of Xs 1%nat))
      (((c * md A1 + x1) * md A2 + x2) * rl_of Xs 1%nat + c')%nat (((s * nd A1 + y1) * nd A2 + y2) * rl_of Xs 1%nat + s')%nat =
  sum (rl A1) (fun r => sum (rr A1) (fun rm => sum (rr A2) (fun r' =>
    Kernel Xp Ap 0%nat 0%nat 0%nat s r c * g A1 r x1 y1 rm * g A2 rm x2 y2 r' * RightProd Xs As s' r' c'))).
Proof. exact (frame_mals Xp Ap Xs As A1 A2 fx c x1 x2 c' s y1 y2 s'). Qed.
Print Assumptions C11_effective_operator_2site.

(* non-vacuity: over the Gaussian integers, P = I_2 and U = i * swap are an orthonormal frame and a unitary;
   U commutes with M = [[2, 1], [1, 2]] *)
Definition exP : nat -> nat -> ZIring := fun i j => if Nat.eqb i j then (1, 0)%Z else (0, 0)%Z.
Definition exU : nat -> nat -> ZIring := fun i j => if Nat.eqb i j then (0, 0)%Z else (0, 1)%Z.
Definition exM : nat -> nat -> ZIring := fun i j => if Nat.eqb i j then (2, 0)%Z else (1, 0)%Z.
Example ex_frame : forall p q, (p < 2)%nat -> (q < 2)%nat ->
  sum 2 (fun i => cconj ZIring (exP i p) * exP i q) = if Nat.eqb p q then 1 else 0.
Proof. intros [|[|p]] [|[|q]] Hp Hq; try lia; vm_compute; reflexivity. Qed.
Example ex_unitary : forall p q, (p < 2)%nat -> (q < 2)%nat ->
  sum 2 (fun i => cconj ZIring (exU i p) * exU i q) = if Nat.eqb p q then 1 else 0.
Proof. intros [|[|p]] [|[|q]] Hp Hq; try lia; vm_compute; reflexivity. Qed.
Example ex_commute : forall i j, (i < 2)%nat -> (j < 2)%nat ->
  sum 2 (fun k => exM i k * exU k j) = sum 2 (fun k => exU i k * exM k j).
Proof. intros [|[|i]] [|[|j]] Hi Hj; try lia; vm_compute; reflexivity. Qed.
