(* C05 — global SVD and pseudoinverse of a tensor train match the matrix ones.
   Property theorems only.  Any order, mode sizes, ranks, split index; R any commutative ring with
   involution (the pseudoinverse statement needs the reciprocals s' of the singular values).
   C05_singular_values: the returned s_q^2 are eigenvalues of both Gram matrices of the unfolding (with the returned
   factors as eigenvectors), i.e. the s_q are singular values of the unfolding.
   The classical facts "the multiset of singular values is unique" and "the four Penrose equations determine A^+"
   are relied upon, not re-proved here. *)
From Coq Require Import ZArith List Lia Arith.
Import ListNotations.
Require Import Ring Sums Matrix Core Chain Sweep Structure SweepProof StructProof TensordotProof GlobalSVD GsvdProof SingValProof.
Open Scope cr_scope.

(* 1. the left part u (left-orthonormalised cores 0..index-2 followed by the U factor) has
      orthonormal columns: composition of isometries *)
Theorem C05_left_orthonormal (R : cring) (cs : list (core R)) fin p q :
  Forall left_iso cs -> linked cs fin -> (p < fin)%nat -> (q < fin)%nat ->
  gramL cs (rl_of cs fin) p q = delta p q.
Proof. exact (left_iso_chain cs fin p q). Qed.
Print Assumptions C05_left_orthonormal.

(* 2. the right part v has orthonormal rows *)
Theorem C05_right_orthonormal (R : cring) (cs : list (core R)) fin p q :
  Forall right_iso cs -> linked cs fin -> (p < rl_of cs fin)%nat -> (q < rl_of cs fin)%nat ->
  gramR cs fin p q = delta p q.
Proof. exact (right_iso_chain cs fin p q). Qed.
Print Assumptions C05_right_orthonormal.

(* 3. u * diag(s) * v multiplies back: the decomposed core and its right neighbour are reproduced
      (the sweeps before it preserve the tensor: C03_left_value, C03_right_value) *)
Theorem C05_reconstruct (R : cring) idx (a : svd_ans R) (c c1 : core R) x x1 y1 i j :
  svd_value idx (rl c * md c) (rr c) (mid_unfold c) a -> rl c1 = rr c ->
  (i < rl c)%nat -> (x < md c)%nat ->
  sum (length idx) (fun p =>
     U a (i * md c + x)%nat (nth p idx 0%nat) *
     (Sg a (nth p idx 0%nat) * sum (rl c1) (fun q => V a (nth p idx 0%nat) q * g c1 q x1 y1 j))) =
  mmul (rr c) (cmat c x 0%nat) (cmat c1 x1 y1) i j.
Proof. exact (gsvd_mid_value idx a c c1 x x1 y1 i j). Qed.
Print Assumptions C05_reconstruct.

(* 4. pseudoinverse: with A = U S V, U^H U = I, V V^H = I and X = U S^{-1} V (what TT.pinv builds),
      X^H satisfies the four Penrose equations, i.e. X = (A^+)^H *)
Theorem C05_penrose (R : cring) (m n k : nat) (Um Vm : M R) (s s' : nat -> R) :
  (forall p q, (p < k)%nat -> (q < k)%nat -> sum m (fun i => cconj R (Um i p) * Um i q) = delta p q) ->
  (forall p q, (p < k)%nat -> (q < k)%nat -> sum n (fun j => Vm p j * cconj R (Vm q j)) = delta p q) ->
  (forall p, (p < k)%nat -> s p * s' p = 1 /\ cconj R (s p) = s p /\ cconj R (s' p) = s' p) ->
  let A := Amat k Um Vm s in let Ap := Aplus k Um Vm s' in
  (forall i j, mmul m (mmul n A Ap) A i j = A i j) /\
  (forall j i, mmul n (mmul m Ap A) Ap j i = Ap j i) /\
  (forall i i', cconj R (mmul n A Ap i' i) = mmul n A Ap i i') /\
  (forall j j', cconj R (mmul m Ap A j' j) = mmul m Ap A j j').
Proof.
  intros HU HV Hs A Ap. repeat split; intros.
  - exact (penrose1 m n k Um Vm s s' HU HV Hs i j).
  - exact (penrose2 m n k Um Vm s s' HU HV Hs j i).
  - exact (penrose3 n k Um Vm s s' HV Hs i i').
  - exact (penrose4 m k Um Vm s s' HU Hs j j').
Qed.
Print Assumptions C05_penrose.

(* 5. the returned values are singular values of the unfolding: with A = U S V (C05_reconstruct), U^H U = I,
      V V^H = I and real s, every s_q^2 is an eigenvalue of A^H A with eigenvector conj(V[q,:]) and of A A^H with
      eigenvector U[:,q] *)
Theorem C05_singular_values (R : cring) (m n k : nat) (Um Vm : M R) (s : nat -> R) q :
  (forall p q, (p < k)%nat -> (q < k)%nat -> sum m (fun i => cconj R (Um i p) * Um i q) = delta p q) ->
  (forall p q, (p < k)%nat -> (q < k)%nat -> sum n (fun j => Vm p j * cconj R (Vm q j)) = delta p q) ->
  (forall p, (p < k)%nat -> cconj R (s p) = s p) -> (q < k)%nat ->
  let A := Amat k Um Vm s in
  (forall j', sum n (fun j => sum m (fun i => cconj R (A i j') * A i j) * cconj R (Vm q j)) = s q * s q * cconj R (Vm q j')) /\
  (forall i, sum m (fun i' => sum n (fun j => A i j * cconj R (A i' j)) * Um i' q) = s q * s q * Um i q).
Proof.
  intros HU HV Hs Hq A. split; intros.
  - exact (right_singular m n k Um Vm s HU HV Hs q j' Hq).
  - exact (left_singular m n k Um Vm s HU HV Hs q i Hq).
Qed.
Print Assumptions C05_singular_values.

(* non-vacuity: a complex unitary 1x1 factorisation meets the hypotheses of C05_penrose *)
Example ex_penrose_hyps :
  let Um : M ZIring := fun _ _ => (0, 1)%Z in let Vm : M ZIring := fun _ _ => (0, -1)%Z in
  (forall p q, (p < 1)%nat -> (q < 1)%nat -> sum 1 (fun i => cconj ZIring (Um i p) * Um i q) = delta p q) /\
  (forall p q, (p < 1)%nat -> (q < 1)%nat -> sum 1 (fun j => Vm p j * cconj ZIring (Vm q j)) = delta p q).
Proof.
  split; intros p q Hp Hq; destruct p; destruct q; try lia; vm_compute; reflexivity.
Qed.
