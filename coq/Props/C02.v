(* C02 — placeholder until the proofs are in place *)
From Coq Require Import ZArith List Lia Arith.
Require Import Ring Sums Matrix Core Chain Structure.
