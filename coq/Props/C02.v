(* C02 — contractions and structural rearrangements equal their dense definition.
   Property theorems only.  Every order, dimension vector and rank vector; R any commutative ring
   with involution.  The value of tensordot is proved for the accumulated matrix of all four modes (C02_contractM: it is the
   rank-rank matrix every structural case merges) and for the full result of all four modes when fewer axes are contracted
   than self has cores (C02_tensordot_last_first / _last_last / _first_last / _first_first; the other operand may be
   contracted completely), plus the complete contraction of both operands.
   The branch "self contracted completely, other longer" (num_axes = order of self < order of other) is proved for all four
   modes as well (C02_tensordot_*_full), so every structural case of tensordot has its value theorem.
   squeeze keeps every entry (C02_squeeze: the mode-less cores are multiplied into their neighbours, leading ones into the
   first core with a mode).
   PARTIAL: build_core and the composed tt2qtt are covered by model + correspondence + side check. *)
From Coq Require Import ZArith List Lia Arith.
Import ListNotations.
Require Import Ring Sums Matrix Core Chain Sweep Structure SweepProof StructProof TensordotProof TensordotModes SqueezeProof.
Open Scope cr_scope.

(* the accumulated matrix of tensordot = sum over the row and column indices of the contracted
   cores of the product of the two chains *)
Theorem C02_contractM (R : cring) (tpart upart : list (core R)) a bn a' b'n :
  tpart <> [] -> length upart = length tpart ->
  (bn < rr (lastc tpart))%nat -> (b'n < rr (lastc upart))%nat ->
  contractM tpart upart a bn a' b'n =
  dsum (rows tpart) (cols tpart) (fun zx zy => chain tpart zx zy a bn * chain upart zx zy a' b'n).
Proof. exact (contractM_spec tpart upart a bn a' b'n). Qed.
Print Assumptions C02_contractM.

(* mode 'last-first', num_axes < order of self *)
Theorem C02_tensordot_last_first (R : cring) (pre : list (core R)) c tpart upart post xp yp x y xq yq i j fin :
  tpart <> [] -> length upart = length tpart -> rows upart = rows tpart -> cols upart = cols tpart ->
  linked (pre ++ c :: tpart) 1%nat -> linked (upart ++ post) fin -> rl_of upart 1%nat = 1%nat ->
  length xp = length pre -> length yp = length pre -> (pre = [] -> (i < rl c)%nat) ->
  chain (tensordot LastFirst (length tpart) (pre ++ c :: tpart) (upart ++ post)) (xp ++ x :: xq) (yp ++ y :: yq) i j =
  dsum (rows tpart) (cols tpart) (fun zx zy =>
     chain (pre ++ c :: tpart) (xp ++ x :: zx) (yp ++ y :: zy) i 0%nat *
     chain (upart ++ post) (zx ++ xq) (zy ++ yq) 0%nat j).
Proof.
  intros H1 H2 H3 H4 H5 H6 H7 H8 H9 H10. rewrite tensordot_lf_unfold by exact H2.
  exact (tensordot_last_first_value pre c tpart upart post xp yp x y xq yq i j fin H1 H2 H3 H4 H5 H6 H7 H8 H9 H10).
Qed.
Print Assumptions C02_tensordot_last_first.

(* complete contraction of both operands *)
Theorem C02_tensordot_complete (R : cring) (ts us : list (core R)) :
  ts <> [] -> length us = length ts -> linked ts 1%nat -> linked us 1%nat ->
  snd (sliceM LastFirst ts us) 0%nat 0%nat =
  dsum (rows ts) (cols ts) (fun zx zy => elem ts zx zy * elem us zx zy).
Proof. exact (tensordot_complete_value ts us). Qed.
Print Assumptions C02_tensordot_complete.

(* mode 'last-last': the last k cores of self with the last k cores of other (same order); the remaining cores of other follow
   reversed and rank-transposed, i.e. their indices appear in reversed order *)
Theorem C02_tensordot_last_last (R : cring) (pre : list (core R)) c tpart upre upart xp yp x y xq yq i j :
  tpart <> [] -> length upart = length tpart -> rows upart = rows tpart -> cols upart = cols tpart ->
  linked (pre ++ c :: tpart) 1%nat -> linked (upre ++ upart) 1%nat ->
  length xp = length pre -> length yp = length pre -> length xq = length upre -> length yq = length upre ->
  (pre = [] -> (i < rl c)%nat) -> (j < rl_of (upre ++ upart) 1%nat)%nat ->
  chain (tensordot LastLast (length tpart) (pre ++ c :: tpart) (upre ++ upart)) (xp ++ x :: rev xq) (yp ++ y :: rev yq) i j =
  dsum (rows tpart) (cols tpart) (fun zx zy =>
     chain (pre ++ c :: tpart) (xp ++ x :: zx) (yp ++ y :: zy) i 0%nat *
     chain (upre ++ upart) (xq ++ zx) (yq ++ zy) j 0%nat).
Proof.
  intros H1 H2 H3 H4 H5 H6 H7 H8 H9 H10 H11 H12. rewrite tensordot_ll_unfold by exact H2.
  exact (tensordot_last_last_value pre c tpart upre upart xp yp x y xq yq i j H1 H2 H3 H4 H5 H6 H7 H8 H9 H10 H11 H12).
Qed.
Print Assumptions C02_tensordot_last_last.

(* mode 'first-last': the first k cores of self with the last k cores of other; result = rest of other, then rest of self *)
Theorem C02_tensordot_first_last (R : cring) (tpart : list (core R)) c post upre upart xq yq x y xp yp j e fin :
  tpart <> [] -> length upart = length tpart -> rows upart = rows tpart -> cols upart = cols tpart ->
  linked (tpart ++ c :: post) fin -> rl_of tpart 1%nat = 1%nat -> linked (upre ++ upart) 1%nat ->
  length xq = length upre -> length yq = length upre ->
  (j < rl_of (upre ++ upart) 1%nat)%nat ->
  chain (tensordot FirstLast (length tpart) (tpart ++ c :: post) (upre ++ upart)) (xq ++ x :: xp) (yq ++ y :: yp) j e =
  dsum (rows tpart) (cols tpart) (fun zx zy =>
     chain (upre ++ upart) (xq ++ zx) (yq ++ zy) j 0%nat *
     chain (tpart ++ c :: post) (zx ++ x :: xp) (zy ++ y :: yp) 0%nat e).
Proof.
  intros H1 H2 H3 H4 H5 H6 H7 H8 H9 H10. rewrite tensordot_fl_unfold by exact H2.
  exact (tensordot_first_last_value tpart c post upre upart xq yq x y xp yp j e fin H1 H2 H3 H4 H5 H6 H7 H8 H9 H10).
Qed.
Print Assumptions C02_tensordot_first_last.

(* mode 'first-first': the first k cores of self with the first k cores of other; the remaining cores of other come first,
   reversed and rank-transposed *)
Theorem C02_tensordot_first_first (R : cring) (tpart : list (core R)) c post upart upost xq yq x y xp yp j e fin finu :
  tpart <> [] -> length upart = length tpart -> rows upart = rows tpart -> cols upart = cols tpart ->
  linked (tpart ++ c :: post) fin -> rl_of tpart 1%nat = 1%nat ->
  linked (upart ++ upost) finu -> rl_of upart 1%nat = 1%nat ->
  length xq = length upost -> length yq = length upost -> (j < finu)%nat ->
  chain (tensordot FirstFirst (length tpart) (tpart ++ c :: post) (upart ++ upost)) (rev xq ++ x :: xp) (rev yq ++ y :: yp) j e =
  dsum (rows tpart) (cols tpart) (fun zx zy =>
     chain (upart ++ upost) (zx ++ xq) (zy ++ yq) 0%nat j *
     chain (tpart ++ c :: post) (zx ++ x :: xp) (zy ++ y :: yp) 0%nat e).
Proof.
  intros H1 H2 H3 H4 H5 H6 H7 H8 H9 H10 H11. rewrite tensordot_ff_unfold by exact H2.
  exact (tensordot_first_first_value tpart c post upart upost xq yq x y xp yp j e fin finu H1 H2 H3 H4 H5 H6 H7 H8 H9 H10 H11).
Qed.
Print Assumptions C02_tensordot_first_first.

(* ---- self contracted completely, other longer: the four modes ---- *)
Theorem C02_tensordot_last_first_full (R : cring) (tpart upart : list (core R)) d post x y xq yq i j fin :
  tpart <> [] -> length upart = length tpart -> rows upart = rows tpart -> cols upart = cols tpart ->
  linked tpart 1%nat -> linked (upart ++ d :: post) fin -> rl_of upart 1%nat = 1%nat ->
  chain (tensordot LastFirst (length tpart) tpart (upart ++ d :: post)) (x :: xq) (y :: yq) i j =
  dsum (rows tpart) (cols tpart) (fun zx zy =>
     chain tpart zx zy i 0%nat * chain (upart ++ d :: post) (zx ++ x :: xq) (zy ++ y :: yq) 0%nat j).
Proof.
  intros H1 H2 H3 H4 H5 H6 H7. rewrite tensordot_lf_full_unfold by exact H2.
  exact (tensordot_lf_full_value tpart upart d post x y xq yq i j fin H1 H2 H3 H4 H5 H6 H7).
Qed.
Print Assumptions C02_tensordot_last_first_full.

Theorem C02_tensordot_first_last_full (R : cring) (tpart : list (core R)) upre d upart xq yq x y j b fint :
  tpart <> [] -> length upart = length tpart -> rows upart = rows tpart -> cols upart = cols tpart ->
  linked tpart fint -> rl_of tpart 1%nat = 1%nat -> linked (upre ++ d :: upart) 1%nat ->
  length xq = length upre -> length yq = length upre ->
  (upre = [] -> (j < rl d)%nat) -> (b < fint)%nat ->
  chain (tensordot FirstLast (length tpart) tpart (upre ++ d :: upart)) (xq ++ [x]) (yq ++ [y]) j b =
  dsum (rows tpart) (cols tpart) (fun zx zy =>
     chain (upre ++ d :: upart) (xq ++ x :: zx) (yq ++ y :: zy) j 0%nat * chain tpart zx zy 0%nat b).
Proof.
  intros H1 H2 H3 H4 H5 H6 H7 H8 H9 H10 H11. rewrite tensordot_fl_full_unfold by exact H2.
  exact (tensordot_fl_full_value tpart upre d upart xq yq x y j b fint H1 H2 H3 H4 H5 H6 H7 H8 H9 H10 H11).
Qed.
Print Assumptions C02_tensordot_first_last_full.

Theorem C02_tensordot_last_last_full (R : cring) (tpart : list (core R)) upre d upart xq yq x y i j :
  tpart <> [] -> length upart = length tpart -> rows upart = rows tpart -> cols upart = cols tpart ->
  linked tpart 1%nat -> linked (upre ++ d :: upart) 1%nat ->
  length xq = length upre -> length yq = length upre ->
  (j < rl_of (upre ++ [d]) 1%nat)%nat -> (i < rl (headc tpart))%nat ->
  chain (tensordot LastLast (length tpart) tpart (upre ++ d :: upart)) (rev (xq ++ [x])) (rev (yq ++ [y])) i j =
  dsum (rows tpart) (cols tpart) (fun zx zy =>
     chain tpart zx zy i 0%nat * chain (upre ++ d :: upart) (xq ++ x :: zx) (yq ++ y :: zy) j 0%nat).
Proof.
  intros H1 H2 H3 H4 H5 H6 H7 H8 H9 H10. rewrite tensordot_ll_full_unfold by exact H2.
  exact (tensordot_ll_full_value tpart upre d upart xq yq x y i j H1 H2 H3 H4 H5 H6 H7 H8 H9 H10).
Qed.
Print Assumptions C02_tensordot_last_last_full.

Theorem C02_tensordot_first_first_full (R : cring) (tpart upart : list (core R)) d upost x y xq yq b j finu fint :
  tpart <> [] -> length upart = length tpart -> rows upart = rows tpart -> cols upart = cols tpart ->
  linked tpart fint -> rl_of tpart 1%nat = 1%nat -> linked (upart ++ d :: upost) finu -> rl_of upart 1%nat = 1%nat ->
  length xq = length upost -> length yq = length upost -> (b < fint)%nat -> (j < finu)%nat ->
  chain (tensordot FirstFirst (length tpart) tpart (upart ++ d :: upost)) (rev (x :: xq)) (rev (y :: yq)) j b =
  dsum (rows tpart) (cols tpart) (fun zx zy =>
     chain tpart zx zy 0%nat b * chain (upart ++ d :: upost) (zx ++ x :: xq) (zy ++ y :: yq) 0%nat j).
Proof.
  intros H1 H2 H3 H4 H5 H6 H7 H8 H9 H10 H11 H12. rewrite tensordot_ff_full_unfold by exact H2.
  exact (tensordot_ff_full_value tpart upart d upost x y xq yq b j finu fint H1 H2 H3 H4 H5 H6 H7 H8 H9 H10 H11 H12).
Qed.
Print Assumptions C02_tensordot_first_first_full.

(* rank_transpose: reversed index order, transposed boundary ranks *)
Theorem C02_rank_transpose (R : cring) (cs : list (core R)) xs ys i j fin :
  length xs = length cs -> length ys = length cs -> linked cs fin ->
  (i < rl_of cs fin)%nat -> (j < fin)%nat ->
  chain (rank_transpose cs) (rev xs) (rev ys) j i = chain cs xs ys i j.
Proof. exact (chain_rank_transpose cs xs ys i j fin). Qed.
Print Assumptions C02_rank_transpose.

(* concatenate *)
Theorem C02_concatenate (R : cring) (cs ds : list (core R)) xs1 ys1 xs2 ys2 fin i j :
  cs <> [] -> length xs1 = length cs -> length ys1 = length cs -> linked cs fin -> fin = rl_of ds fin ->
  chain (concatenate cs ds) (xs1 ++ xs2) (ys1 ++ ys2) i j =
  mmul fin (chain cs xs1 ys1) (chain ds xs2 ys2) i j.
Proof. exact (chain_concatenate cs ds xs1 ys1 xs2 ys2 fin i j). Qed.
Print Assumptions C02_concatenate.

(* rank_tensordot(mode='last') *)
Theorem C02_rank_tensordot (R : cring) (cs : list (core R)) c n Mat xs ys x y i j :
  length xs = length cs -> length ys = length cs -> linked (cs ++ [c]) (rr c) -> (j < n)%nat -> (0 < n)%nat ->
  chain (rank_tensordot_last (cs ++ [c]) n Mat) (xs ++ [x]) (ys ++ [y]) i j =
  sum (rr c) (fun q => chain (cs ++ [c]) (xs ++ [x]) (ys ++ [y]) i q * Mat q j).
Proof. exact (chain_rank_tensordot_last cs c n Mat xs ys x y i j). Qed.
Print Assumptions C02_rank_tensordot.

(* squeeze: the entry at the indices of the remaining modes is the entry of the original train (indices 0 at the removed,
   mode-less positions); [keep] selects the indices of the cores that have a mode *)
Theorem C02_squeeze (R : cring) (cs : list (core R)) xs ys j fin :
  zero_at cs xs ys -> linked cs fin -> squeeze cs <> [] ->
  chain (squeeze cs) (keep cs xs) (keep cs ys) 0%nat j = chain cs xs ys 0%nat j.
Proof. exact (squeeze_value cs xs ys j fin). Qed.
Print Assumptions C02_squeeze.

(* diag: delta on the chosen modes, unchanged elsewhere *)
Theorem C02_diag (R : cring) (cs : list (core R)) sel xs ys i j :
  length sel = length cs -> length xs = length cs -> length ys = length cs ->
  chain (tdiag sel cs) xs ys i j =
  if diag_ok sel xs ys then chain cs xs (diag_cols sel ys) i j else 0.
Proof. exact (chain_tdiag cs sel xs ys i j). Qed.
Print Assumptions C02_diag.

(* qtt2tt: a merged core is indexed row-major by the pair of merged indices *)
Theorem C02_merge (R : cring) (c d : core R) x1 x2 y1 y2 i j :
  (x2 < md d)%nat -> (y2 < nd d)%nat ->
  cmat (mergecore c d) (x1 * md d + x2) (y1 * nd d + y2) i j =
  mmul (rr c) (cmat c x1 y1) (cmat d x2 y2) i j.
Proof. exact (cmat_mergecore c d x1 x2 y1 y2 i j). Qed.
Print Assumptions C02_merge.

(* tt2qtt then qtt2tt: splitting a mode and merging it back is the identity (per split step;
   needs only the value conjunct of the SVD specification) *)
Theorem C02_split_merge (R : cring) idx (a : svd_ans R) (c : core R) mj nj X Y i j :
  let rd := (md c / mj)%nat in let cd := (nd c / nj)%nat in
  svd_value idx (rl c * mj * nj) (rd * cd * rr c) (split_unfold c mj nj) a ->
  (0 < rd)%nat -> (0 < cd)%nat -> (X < mj * rd)%nat -> (Y < nj * cd)%nat -> (i < rl c)%nat -> (j < rr c)%nat ->
  cmat (mergecore (fst (split_step idx a c mj nj)) (snd (split_step idx a c mj nj))) X Y i j = g c i X Y j.
Proof. exact (split_merge_value idx a c mj nj X Y i j). Qed.
Print Assumptions C02_split_merge.

(* ---- non-vacuity: a concrete complex contraction ---- *)
Definition exT1 : core ZIring := @mkcore ZIring 1 2 1 2 (fun _ x _ b => (Z.of_nat (x + b), 1%Z)).
Definition exT2 : core ZIring := @mkcore ZIring 2 2 1 1 (fun a x _ _ => (Z.of_nat (2 * a + x), (-1)%Z)).
Definition exU1 : core ZIring := @mkcore ZIring 1 2 1 2 (fun _ x _ b => (Z.of_nat (3 * x + b), 2%Z)).
Definition exU2 : core ZIring := @mkcore ZIring 2 3 1 1 (fun a x _ _ => (Z.of_nat (a + x), 0%Z)).
Example ex_hyps : linked ([] ++ exT1 :: [exT2]) 1%nat /\ linked ([exU1] ++ [exU2]) 1%nat /\ rows [exU1] = rows [exT2].
Proof. repeat split; simpl; lia. Qed.
Example ex_tensordot_concrete :
  elem (tensordot LastFirst 1 [exT1; exT2] [exU1; exU2]) [1%nat; 2%nat] [0%nat; 0%nat] =
  dsum [2%nat] [1%nat] (fun zx zy => (elem [exT1; exT2] (1%nat :: zx) (0%nat :: zy) * elem [exU1; exU2] (zx ++ [2%nat]) (zy ++ [0%nat]))).
Proof. vm_compute. reflexivity. Qed.
(* the other three modes on the same kind of data: self = [exT1; exT2], other = [exV1; exV2] (mode sizes 3, 2) resp.
   [exU1; exU2'] (2, 2); both sides evaluated *)
Definition exV1 : core ZIring := @mkcore ZIring 1 3 1 2 (fun _ x _ b => (Z.of_nat (x + 2 * b), 1%Z)).
Definition exV2 : core ZIring := @mkcore ZIring 2 2 1 1 (fun a x _ _ => (Z.of_nat (a + 3 * x), (-2)%Z)).
Example ex_last_last_concrete :
  map (fun xq => elem (tensordot LastLast 1 [exT1; exT2] [exV1; exV2]) [1%nat; xq] [0%nat; 0%nat]) [0%nat; 1%nat; 2%nat] =
  map (fun xq => dsum [2%nat] [1%nat] (fun zx zy => (elem [exT1; exT2] (1%nat :: zx) (0%nat :: zy) * elem [exV1; exV2] (xq :: zx) (0%nat :: zy))))
      [0%nat; 1%nat; 2%nat].
Proof. vm_compute. reflexivity. Qed.
Example ex_first_last_concrete :
  map (fun xq => elem (tensordot FirstLast 1 [exT1; exT2] [exV1; exV2]) [xq; 1%nat] [0%nat; 0%nat]) [0%nat; 1%nat; 2%nat] =
  map (fun xq => dsum [2%nat] [1%nat] (fun zx zy => (elem [exV1; exV2] (xq :: zx) (0%nat :: zy) * elem [exT1; exT2] (zx ++ [1%nat]) (zy ++ [0%nat]))))
      [0%nat; 1%nat; 2%nat].
Proof. vm_compute. reflexivity. Qed.
Example ex_first_first_concrete :
  map (fun xq => elem (tensordot FirstFirst 1 [exT1; exT2] [exU1; exU2]) [xq; 1%nat] [0%nat; 0%nat]) [0%nat; 1%nat; 2%nat] =
  map (fun xq => dsum [2%nat] [1%nat] (fun zx zy => (elem [exU1; exU2] (zx ++ [xq]) (zy ++ [0%nat]) * elem [exT1; exT2] (zx ++ [1%nat]) (zy ++ [0%nat]))))
      [0%nat; 1%nat; 2%nat].
Proof. vm_compute. reflexivity. Qed.
(* self contracted completely: self = [exT2'] (one core, mode 2), other = [exU1; exU2] resp. [exV1; exV2] *)
Definition exS1 : core ZIring := @mkcore ZIring 1 2 1 1 (fun _ x _ _ => (Z.of_nat (x + 1), 1%Z)).
Example ex_full_modes :
  (map (fun xq => elem (tensordot LastFirst 1 [exS1] [exU1; exU2]) [xq] [0%nat]) [0%nat; 1%nat; 2%nat] =
   map (fun xq => dsum [2%nat] [1%nat] (fun zx zy => (elem [exS1] zx zy * elem [exU1; exU2] (zx ++ [xq]) (zy ++ [0%nat])))) [0%nat; 1%nat; 2%nat]) /\
  (map (fun xq => elem (tensordot FirstLast 1 [exS1] [exV1; exV2]) [xq] [0%nat]) [0%nat; 1%nat; 2%nat] =
   map (fun xq => dsum [2%nat] [1%nat] (fun zx zy => (elem [exV1; exV2] (xq :: zx) (0%nat :: zy) * elem [exS1] zx zy))) [0%nat; 1%nat; 2%nat]) /\
  (map (fun xq => elem (tensordot LastLast 1 [exS1] [exV1; exV2]) [xq] [0%nat]) [0%nat; 1%nat; 2%nat] =
   map (fun xq => dsum [2%nat] [1%nat] (fun zx zy => (elem [exS1] zx zy * elem [exV1; exV2] (xq :: zx) (0%nat :: zy)))) [0%nat; 1%nat; 2%nat]) /\
  (map (fun xq => elem (tensordot FirstFirst 1 [exS1] [exU1; exU2]) [xq] [0%nat]) [0%nat; 1%nat; 2%nat] =
   map (fun xq => dsum [2%nat] [1%nat] (fun zx zy => (elem [exS1] zx zy * elem [exU1; exU2] (zx ++ [xq]) (zy ++ [0%nat])))) [0%nat; 1%nat; 2%nat]).
Proof. vm_compute. repeat split. Qed.
(* squeeze on a concrete train with a leading, an inner and a trailing mode-less core *)
Definition exQ0 : core ZIring := @mkcore ZIring 1 1 1 2 (fun _ _ _ b => (Z.of_nat (b + 1), 1%Z)).
Definition exQ1 : core ZIring := @mkcore ZIring 2 2 1 2 (fun a x _ b => (Z.of_nat (a + 2 * x + b), (-1)%Z)).
Definition exQ2 : core ZIring := @mkcore ZIring 2 1 1 2 (fun a _ _ b => (Z.of_nat (3 * a + b), 0%Z)).
Definition exQ3 : core ZIring := @mkcore ZIring 2 2 1 2 (fun a x _ b => (Z.of_nat (a * x + b), 2%Z)).
Definition exQ4 : core ZIring := @mkcore ZIring 2 1 1 1 (fun a _ _ _ => (Z.of_nat a, 1%Z)).
Example ex_squeeze :
  zero_at [exQ0; exQ1; exQ2; exQ3; exQ4] [0; 1; 0; 1; 0]%nat [0; 0; 0; 0; 0]%nat /\
  linked [exQ0; exQ1; exQ2; exQ3; exQ4] 1%nat /\ length (squeeze [exQ0; exQ1; exQ2; exQ3; exQ4]) = 2%nat /\
  keep [exQ0; exQ1; exQ2; exQ3; exQ4] [0; 1; 0; 1; 0]%nat = [1; 1]%nat /\
  elem (squeeze [exQ0; exQ1; exQ2; exQ3; exQ4]) [1; 1]%nat [0; 0]%nat = elem [exQ0; exQ1; exQ2; exQ3; exQ4] [0; 1; 0; 1; 0]%nat [0; 0; 0; 0; 0]%nat.
Proof. repeat split; try (cbn; lia); try (intros; discriminate); vm_compute; reflexivity. Qed.
