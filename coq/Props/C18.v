(* C18 — tensor-based EDMD matches matrix EDMD and treats index sets independently.
   Property theorems only.  With Psi = Q C (Q: orthonormal left part built by the sequential SVDs, C: last core),
   C_x = U S V the thin SVD of the selected columns, A := Q U S^-1 and B := V C_y^T Q^T:
     - A B = (Psi_x^T)^+ Psi_y^T is the matrix EDMD operator with the same relative cut (C05_penrose for the
       pseudoinverse; Q orthonormal: C03_left_iso / C05_left_orthonormal);
     - C18_reduced_is_BA: the k x k matrix handed to the eigen-solver, V C_y^T U S^-1, equals B A;
     - C18_eig_AB_BA: every eigenpair (lambda, w) of B A yields the eigenpair (lambda, A w) of A B -- A w = Q U S^-1 w
       is exactly the returned eigentensor; so every returned eigenvalue is an eigenvalue of matrix EDMD and the
       returned eigentensor satisfies its eigen-equation (real spectra; the code takes real parts);
     - C18_nonzero_spectrum_found: conversely every eigenpair (lambda, v) of A B gives the eigenpair (lambda, B v) of the
       reduced matrix B A, and B v = 0 forces lambda v = 0: no non-zero eigenvalue of matrix EDMD is missed by the
       reduced problem (as a set; multiplicities are not treated);
     - C18_list_independent: a call with a list of index-set pairs is the map of the single-pair routine.
   Outside the proof: eig/SVD are oracles; the multiplicity of non-zero eigenvalues of AB and BA, the ordering by |lambda - 1| on complex numbers and the HOCUR variant (its cross approximation is not
   modelled) are decided by correspondence + side check. *)
From Coq Require Import ZArith List Lia Arith.
Import ListNotations.
Require Import Ring Sums Matrix TedmdProof.
Open Scope cr_scope.

Theorem C18_eig_AB_BA (R : cring) (N k : nat) (A B : M R) (w : nat -> R) (lam : R) :
  (forall i, (i < k)%nat -> sum k (fun j => mmul N B A i j * w j) = lam * w i) ->
  forall x, sum N (fun y => mmul k A B x y * sum k (fun j => A y j * w j)) = lam * sum k (fun j => A x j * w j).
Proof. exact (eig_AB_BA N k A B w lam). Qed.
Print Assumptions C18_eig_AB_BA.

Theorem C18_nonzero_spectrum_found (R : cring) (N k : nat) (A B : M R) (v : nat -> R) (lam : R) :
  (forall x, (x < N)%nat -> sum N (fun y => mmul k A B x y * v y) = lam * v x) ->
  (forall i, sum k (fun j => mmul N B A i j * sum N (fun y => B j y * v y)) = lam * sum N (fun y => B i y * v y)) /\
  ((forall j, (j < k)%nat -> sum N (fun y => B j y * v y) = 0) -> forall x, (x < N)%nat -> lam * v x = 0).
Proof. exact (eig_back N k A B v lam). Qed.
Print Assumptions C18_nonzero_spectrum_found.

Theorem C18_reduced_is_BA (R : cring) (N r k nx : nat) (Q Um Vm Cy : M R) (sinv : nat -> R) p q :
  (forall a b, (a < r)%nat -> (b < r)%nat -> sum N (fun x => Q x a * Q x b) = delta a b) ->
  (q < k)%nat ->
  let A : M R := fun x j => sum r (fun a => Q x a * Um a j) * sinv j in
  let B : M R := fun i x => sum nx (fun t => Vm i t * sum r (fun a => Cy a t * Q x a)) in
  mmul N B A p q = sum nx (fun t => sum r (fun a => Vm p t * Cy a t * Um a q)) * sinv q.
Proof. exact (reduced_is_BA N r k nx Q Um Vm Cy sinv p q). Qed.
Print Assumptions C18_reduced_is_BA.

Theorem C18_list_independent (P T : Type) (single : P -> T) (pairs : list P) (k : nat) (dp : P) :
  (k < length pairs)%nat -> nth k (map single pairs) (single dp) = single (nth k pairs dp).
Proof. exact (list_call_independent single pairs k dp). Qed.
Print Assumptions C18_list_independent.

(* non-vacuity: a 2x2 instance over Z: A = [[1,0],[1,1]], B = [[2,1],[0,1]]; w = (1,0) is an eigenvector of B A = [[3,1],[1,1]]?  no:
   take A = B = diag(2,3), w = e_0, lambda = 4 *)
Definition exD : M Zring := fun i j => if Nat.eqb i j then (if Nat.eqb i 0 then 2%Z else 3%Z) else 0%Z.
Example ex_eig : forall i, (i < 2)%nat -> sum 2 (fun j => mmul 2 exD exD i j * (if Nat.eqb j 0 then 1%Z else 0%Z : Zring)) = (4%Z : Zring) * (if Nat.eqb i 0 then 1%Z else 0%Z : Zring).
Proof. intros [|[|i]] Hi; try lia; vm_compute; reflexivity. Qed.
