(* C14 — basis functions: the derivatives are the derivatives of the function.
   Property theorems only.  The function bodies are REGENERATED from transform.py on every run
   (Gen/BasisFunctions.v, by harness/translators/c14_gen.py); every parameter value and every point.
   Outside: Bspline (scipy's BSpline.derivative is an oracle), IndicatorFunction (not differentiable),
   the coefficients scipy.special.legendre returns (the polynomial p is arbitrary here: the
   property is derivative consistency), NumPy ufunc element-wise semantics for array arguments. *)
From Coq Require Import Reals List.
From Coquelicot Require Import Coquelicot.
Require Import SkTT.Alg.Poly SkTT.Gen.BasisFunctions SkTT.Proofs.C14Proof.
Open Scope R_scope.

Theorem C14_constant_d1 x : is_derive ConstantFunction_call x (ConstantFunction_partial x).
Proof. exact (Constant_d1 x). Qed.
Print Assumptions C14_constant_d1.
Theorem C14_constant_d2 x : is_derive ConstantFunction_partial x (ConstantFunction_partial2 x).
Proof. exact (Constant_d2 x). Qed.
Print Assumptions C14_constant_d2.
Theorem C14_identity_d1 x : is_derive Identity_call x (Identity_partial x).
Proof. exact (Identity_d1 x). Qed.
Print Assumptions C14_identity_d1.
Theorem C14_identity_d2 x : is_derive Identity_partial x (Identity_partial2 x).
Proof. exact (Identity_d2 x). Qed.
Print Assumptions C14_identity_d2.
Theorem C14_monomial_d1 n pre x : is_derive (Monomial_call n pre) x (Monomial_partial n pre x).
Proof. exact (Monomial_d1 n pre x). Qed.
Print Assumptions C14_monomial_d1.
Theorem C14_monomial_d2 n pre x : is_derive (Monomial_partial n pre) x (Monomial_partial2 n pre x).
Proof. exact (Monomial_d2 n pre x). Qed.
Print Assumptions C14_monomial_d2.
Theorem C14_legendre_d1 D p x : D <> 0 -> is_derive (Legendre_call D p) x (Legendre_partial D p x).
Proof. exact (Legendre_d1 D p x). Qed.
Print Assumptions C14_legendre_d1.
Theorem C14_legendre_d2 D p x : D <> 0 -> is_derive (Legendre_partial D p) x (Legendre_partial2 D p x).
Proof. exact (Legendre_d2 D p x). Qed.
Print Assumptions C14_legendre_d2.
Theorem C14_sin_d1 a x : is_derive (Sin_call a) x (Sin_partial a x).
Proof. exact (Sin_d1 a x). Qed.
Print Assumptions C14_sin_d1.
Theorem C14_sin_d2 a x : is_derive (Sin_partial a) x (Sin_partial2 a x).
Proof. exact (Sin_d2 a x). Qed.
Print Assumptions C14_sin_d2.
Theorem C14_cos_d1 a x : is_derive (Cos_call a) x (Cos_partial a x).
Proof. exact (Cos_d1 a x). Qed.
Print Assumptions C14_cos_d1.
Theorem C14_cos_d2 a x : is_derive (Cos_partial a) x (Cos_partial2 a x).
Proof. exact (Cos_d2 a x). Qed.
Print Assumptions C14_cos_d2.
Theorem C14_gauss_d1 m v x : v <> 0 -> is_derive (GaussFunction_call m v) x (GaussFunction_partial m v x).
Proof. exact (Gauss_d1 m v x). Qed.
Print Assumptions C14_gauss_d1.
Theorem C14_gauss_d2 m v x : v <> 0 -> is_derive (GaussFunction_partial m v) x (GaussFunction_partial2 m v x).
Proof. exact (Gauss_d2 m v x). Qed.
Print Assumptions C14_gauss_d2.
Theorem C14_periodic_gauss_d1 m v x : v <> 0 ->
  is_derive (PeriodicGaussFunction_call m v) x (PeriodicGaussFunction_partial m v x).
Proof. exact (PeriodicGauss_d1 m v x). Qed.
Print Assumptions C14_periodic_gauss_d1.

(* zero in the coordinates the function does not depend on: the value the code returns there *)
Theorem C14_off_coordinate_zero :
  (forall x, ConstantFunction_partial_off x = 0) /\ (forall x, Identity_partial_off x = 0) /\
  (forall n c x, Monomial_partial_off n c x = 0) /\ (forall n c x, Monomial_partial2_off n c x = 0) /\
  (forall D p x, Legendre_partial_off D p x = 0) /\ (forall D p x, Legendre_partial2_off D p x = 0) /\
  (forall a x, Sin_partial_off a x = 0) /\ (forall a x, Sin_partial2_off a x = 0) /\
  (forall a x, Cos_partial_off a x = 0) /\ (forall a x, Cos_partial2_off a x = 0) /\
  (forall m v x, GaussFunction_partial_off m v x = 0) /\ (forall m v x, GaussFunction_partial2_off m v x = 0) /\
  (forall m v x, PeriodicGaussFunction_partial_off m v x = 0) /\
  (forall x, ConstantFunction_partial2_off x = 0) /\ (forall x, Identity_partial2_off x = 0).
Proof. repeat split; intros; reflexivity. Qed.
Print Assumptions C14_off_coordinate_zero.

(* gradient / Hessian assembly for a function of t in R^n that reads coordinate idx only *)
Theorem C14_gradient (call partial : R -> R) (off : R) (idx : nat) (t : nat -> R) (i : nat) :
  (forall x, is_derive call x (partial x)) -> off = 0 ->
  is_derive (fun s => call (upd t i s idx)) (t i) (if Nat.eqb i idx then partial (t idx) else off).
Proof. exact (coordinate_derivative call partial off idx t i). Qed.
Print Assumptions C14_gradient.
Theorem C14_hessian (partial partial2 : R -> R) (off off2 : R) (idx : nat) (t : nat -> R) (i j : nat) :
  (forall x, is_derive partial x (partial2 x)) -> off = 0 -> off2 = 0 ->
  is_derive (fun s => if Nat.eqb i idx then partial (upd t j s idx) else off) (t j)
            (if andb (Nat.eqb i idx) (Nat.eqb j idx) then partial2 (t idx) else off2).
Proof. exact (coordinate_derivative2 partial partial2 off off2 idx t i j). Qed.
Print Assumptions C14_hessian.
