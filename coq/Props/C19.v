(* C19 — generator EDMD: product-rule evaluation and reduced matrix match the dense ones.
   Property theorems only.  Proved (any commutative ring, any number of modes, any state dimension d and any
   diffusion shape d x d2):
     - C19_frob_sigma: a : (g_v g_j^T) = (sigma^T g_v) . (sigma^T g_j) with a = sigma sigma^T (the cross terms of the
       explicit sums are the inner products the contraction uses);
     - C19_product_rule: the explicit sums of generator_on_product over the selected basis functions equal the middle
       component of the recursion  (P, LP, GP) -> (P f, P Lf + LP f + GP . sigma^T grad f, P sigma^T grad f + GP f)
       started at (1, 0, 0) -- the Leibniz rule for the second-order operator L = b.grad + 1/2 a : grad^2 applied mode by
       mode; the first component is the product of the values and the third is sigma^T grad of the product;
     - C19_reversible: generator_on_product_reversible(.., i) is the i-th entry of that third component.
   The recursion is the one the tensor-network contraction (_contraction_step_LPsi_u / _dPsi_u) carries out per rank index;
   the contraction with arbitrary integer cores, both branches of _reduced_matrix_tgedmd incl. reweighting, and the two
   public product-rule functions are tied to /repo by exact correspondence.
   Hypothesis (classical, not proved here): multiplying 2-jets by the Leibniz rule is the calculus product rule; for the
   bundled one-coordinate families the derivative facts are C14's.
     - C19_contraction: the tensor-network contraction as coded (_contraction_step_LPsi_u: head step, any number of middle
       steps, the L-component read off at the end) with ARBITRARY cores U^1..U^p equals
           sum over all index tuples s of  generator_on_product(s) * (U^1[:, s_1, :] ... U^p[:, s_p, :])[0, r]
       i.e. Algorithm 3 evaluates the generator image  L Psi(x)^T U  that the explicit sums define, for every number of modes,
       mode sizes, ranks, state dimension and diffusion shape.
     - C19_contraction_reversible: the same for the reversible contraction (_contraction_step_dPsi_u): component 1 + x of the
       carried vector is  sum over index tuples of (grad of the product)_x * core entries.
     - C19_reduced_is_BA: the matrix assembled by _reduced_matrix_tgedmd from these vectors, V, S^-1 and the weights is
       B A with A = U S^-1, where A B is the dense projected generator: (Psi~^T)^+ (L Psi~)^T (non-reversible, B = V^T W^1/2
       (L Psi)^T) resp. C_00^+ E with E = -1/2 sum_l w_l grad Psi a_l grad Psi^T (reversible, B = S^-1 U^T E);
     - C19_spectrum: hence every eigenpair (lambda, w) of the reduced matrix gives the eigenpair (lambda, A w) of the dense
       projected generator, and every eigenpair of the dense matrix gives one of the reduced matrix (with B v = 0 only if
       lambda v = 0): equal non-zero spectra, with the same singular-value cut (U, S, V are the kept triplets).
   PARTIAL: multiplicities and the eigen-solver are outside the proof (eig oracle; side check against dense gEDMD); the
   HOSVD part is C18's. *)
From Coq Require Import ZArith List Lia Arith.
Import ListNotations.
Require Import Ring Sums Matrix Core Chain Gedmd GedmdProof GedmdRevProof GedmdReduced TedmdProof.
Open Scope cr_scope.

Theorem C19_frob_sigma (R : cring) (d d2 : nat) (sg : nat -> nat -> R) (gv gj : nat -> R) :
  frob d (amat d2 sg) (fun x y => gv x * gj y) =
  sum d2 (fun k => sum d (fun x => gv x * sg x k) * sum d (fun y => gj y * sg y k)).
Proof. exact (frob_sigma d d2 sg gv gj). Qed.
Print Assumptions C19_frob_sigma.

Theorem C19_product_rule (R : cring) (hlf : R -> R) (d d2 : nat) (b : nat -> R) (sg : nat -> nat -> R) (js : list (@fjet R)) :
  let '(P, LP, GP) := tfold hlf d d2 b sg js in
  P = pall js /\ LP = gen_on_product hlf d d2 b sg js /\ forall k, GP k = GPsum d sg js k.
Proof. exact (tfold_closed hlf d d2 b sg js). Qed.
Print Assumptions C19_product_rule.

Theorem C19_reversible (R : cring) (d : nat) (sg : nat -> nat -> R) (js : list (@fjet R)) i :
  gen_on_product_rev d sg js i = GPsum d sg js i.
Proof. exact (rev_closed d sg js i). Qed.
Print Assumptions C19_reversible.

Theorem C19_first_step (R : cring) (hlf : R -> R) (d d2 : nat) (b : nat -> R) (sg : nat -> nat -> R) (jets : list (@fjet R)) (u : core R) c r' :
  rl u = 1%nat -> lstep_first hlf d d2 b sg jets u c r' = lstep_mid hlf d d2 b sg (fun c0 _ => svec tunit c0) jets u c r'.
Proof. exact (lstep_first_unit hlf d d2 b sg jets u c r'). Qed.
Print Assumptions C19_first_step.

Theorem C19_contraction (R : cring) (hlf : R -> R) (d d2 : nat) (b : nat -> R) (sg : nat -> nat -> R) (modes : list (@cmode R)) fin r' :
  linked (ucores modes) fin -> rl_of (ucores modes) fin = 1%nat -> (r' < fin)%nat ->
  lcontract hlf d d2 b sg vunit modes 1%nat r' =
  msum (nks modes) (fun ss => gen_on_product hlf d d2 b sg (select modes ss) * chain (ucores modes) ss (zeros (length modes)) 0%nat r').
Proof. exact (contraction_is_sum hlf d d2 b sg modes fin r'). Qed.
Print Assumptions C19_contraction.

Theorem C19_contraction_reversible (R : cring) (d : nat) (modes : list (@cmode R)) fin x r' :
  linked (ucores modes) fin -> rl_of (ucores modes) fin = 1%nat -> (x < d)%nat -> (r' < fin)%nat ->
  dcontract dvunit modes (1 + x)%nat r' =
  msum (nks modes) (fun ss => grad_prod (select modes ss) x * chain (ucores modes) ss (zeros (length modes)) 0%nat r').
Proof. exact (dcontraction_is_sum d modes fin x r'). Qed.
Print Assumptions C19_contraction_reversible.

Theorem C19_first_step_reversible (R : cring) (jets : list (@fjet R)) (u : core R) c r' : rl u = 1%nat ->
  dstep_first jets u c r' = dstep_mid (fun c0 _ => dvec dunit c0) jets u c r'.
Proof. exact (dstep_first_unit jets u c r'). Qed.
Print Assumptions C19_first_step_reversible.

(* non-vacuity: three modes in dimension 2 with a 2 x 3 diffusion over Z *)
Definition exj (s : Z) : @fjet Zring := @mkjet Zring (s + 1)%Z (fun x => (Z.of_nat x + s)%Z) (fun x y => (Z.of_nat (x + 2 * y) - s)%Z).
Example ex_product_rule :
  snd (fst (tfold (fun z : Zring => Z.div z 2) 2 3 (fun x => Z.of_nat (x + 1) : Zring) (fun x k => (2 * Z.of_nat (x + k) - 2)%Z : Zring) [exj 1; exj 2; exj (-1)]))
  = gen_on_product (fun z : Zring => Z.div z 2) 2 3 (fun x => Z.of_nat (x + 1) : Zring) (fun x k => (2 * Z.of_nat (x + k) - 2)%Z : Zring) [exj 1; exj 2; exj (-1)].
Proof. vm_compute. reflexivity. Qed.

(* the reduced matrices are B A with A = U S^-1 *)
Theorem C19_reduced_is_BA (R : cring) (N r m d : nat) (U : M R) (sinv : nat -> R) (V : M R) (sw : nat -> R) (LPsi : M R)
        (w : nat -> R) (mhalf : R) (dPsi al : nat -> nat -> nat -> R) a b :
  M_nr N m U sinv V sw LPsi a b = mmul N (B_nr m V sw LPsi) (Ared U sinv) a b /\
  M_rev N m d U sinv w mhalf dPsi al a b = mmul N (B_rev N m d U sinv w mhalf dPsi al) (Ared U sinv) a b.
Proof. exact (conj (reduced_nr_is_BA N m U sinv V sw LPsi a b) (reduced_rev_is_BA N m d U sinv w mhalf dPsi al a b)). Qed.
Print Assumptions C19_reduced_is_BA.

(* spectra of B A (reduced) and A B (dense projected generator) *)
Theorem C19_spectrum (R : cring) (N k : nat) (A B : M R) (lam : R) :
  (forall w, (forall i, (i < k)%nat -> sum k (fun j => mmul N B A i j * w j) = lam * w i) ->
     forall x, sum N (fun y => mmul k A B x y * sum k (fun j => A y j * w j)) = lam * sum k (fun j => A x j * w j)) /\
  (forall v, (forall x, (x < N)%nat -> sum N (fun y => mmul k A B x y * v y) = lam * v x) ->
     (forall i, sum k (fun j => mmul N B A i j * sum N (fun y => B j y * v y)) = lam * sum N (fun y => B i y * v y)) /\
     ((forall j, (j < k)%nat -> sum N (fun y => B j y * v y) = 0) -> forall x, (x < N)%nat -> lam * v x = 0)).
Proof. exact (conj (fun w => eig_AB_BA N k A B w lam) (fun v => eig_back N k A B v lam)). Qed.
Print Assumptions C19_spectrum.

(* non-vacuity: a 2-function, 1-snapshot, rank-1 instance evaluates both sides of the non-reversible identity *)
Definition exU19 : M Zring := fun idx _ => if Nat.eqb idx 0 then 1%Z else 2%Z.
Definition exL19 : M Zring := fun idx _ => if Nat.eqb idx 0 then 11%Z else 13%Z.
Example ex_reduced_nr :
  @M_nr Zring 2 1 exU19 (fun _ => 3%Z) (fun _ _ => 5%Z) (fun _ => 7%Z) exL19 0%nat 0%nat = (7 * (5 * ((11 * 1 + 13 * 2) * 3)))%Z.
Proof. vm_compute. reflexivity. Qed.
