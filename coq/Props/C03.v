(* C03 — orthonormalisation preserves the tensor and yields orthonormal cores.
   Property theorems only.  The SVD is an oracle: [answers] is an arbitrary list of records
   (rank, U, s, V); each theorem names the conjunct of the SVD specification it relies on, stated
   relative to the matrix the model hands to the oracle at that step ([sweepL_hyp P] / [sweepR_hyp P]
   say "P holds of every (kept indices, rows, cols, unfolded core, answer) met along the sweep").
   Without truncation (thr = None, caps = None) the kept indices are 0..rk-1
   ([svd_value_seq], [svd_isoU_seq]).  Orders, dimensions, ranks, start/end: unbounded. *)
From Coq Require Import ZArith List Lia Arith.
Import ListNotations.
Require Import Ring Sums Matrix Core Chain Sweep SweepProof.
Open Scope cr_scope.

(* 1. ortho_left(start, end) leaves the represented tensor unchanged *)
Theorem C03_left_value (R : cring) thr maxr start answers (cs : list (core R)) xs ys :
  sweepL_hyp svd_value thr maxr (S start) answers (skipn start cs) ->
  sweepL_hyp nonempty_idx thr maxr (S start) answers (skipn start cs) ->
  wf cs -> below xs (rows cs) -> below ys (cols cs) ->
  elem (ortho_left thr maxr start answers cs) xs ys = elem cs xs ys.
Proof. exact (ortho_left_value thr maxr start answers cs xs ys). Qed.
Print Assumptions C03_left_value.

(* 2. every processed core is an isometry (left-orthonormal) *)
Theorem C03_left_iso (R : cring) thr maxr answers bond (cs : list (core R)) :
  sweepL_hyp isoU_hyp thr maxr bond answers cs -> (length answers < length cs)%nat ->
  Forall left_iso (firstn (length answers) (sweepL thr maxr bond answers cs)).
Proof. exact (sweepL_iso thr maxr answers bond cs). Qed.
Print Assumptions C03_left_iso.

(* 3. no rank increases (thin factorisation) *)
Theorem C03_left_ranks (R : cring) thr maxr answers bond (cs : list (core R)) :
  sweepL_hyp thin_hyp thr maxr bond answers cs ->
  Forall2 (fun c' c => (rr c' <= rr c)%nat) (sweepL thr maxr bond answers cs) cs.
Proof. exact (sweepL_ranks thr maxr answers bond cs). Qed.
Print Assumptions C03_left_ranks.

(* 4. frame: cores to the right of the processed range are untouched (those to the left are
      [firstn start cs] by definition of [ortho_left]) *)
Theorem C03_left_frame (R : cring) thr maxr answers bond (cs : list (core R)) :
  skipn (S (length answers)) (sweepL thr maxr bond answers cs) = skipn (S (length answers)) cs.
Proof. exact (sweepL_frame thr maxr answers bond cs). Qed.
Print Assumptions C03_left_frame.

(* 5. consistency: the result is a well-formed train with the same mode sizes *)
Theorem C03_left_wf (R : cring) thr maxr start answers (cs : list (core R)) :
  sweepL_hyp nonempty_idx thr maxr (S start) answers (skipn start cs) -> wf cs ->
  wf (ortho_left thr maxr start answers cs) /\
  rows (ortho_left thr maxr start answers cs) = rows cs /\ cols (ortho_left thr maxr start answers cs) = cols cs.
Proof. exact (ortho_left_wf thr maxr start answers cs). Qed.
Print Assumptions C03_left_wf.

(* 6.-8. the same for ortho_right(start, end) *)
Theorem C03_right_value (R : cring) thr maxr start answers (cs : list (core R)) xs ys :
  sweepR_hyp svd_value thr maxr 0 answers (firstn (S start) cs) ->
  sweepR_hyp nonempty_idx thr maxr 0 answers (firstn (S start) cs) ->
  wf cs -> below xs (rows cs) -> below ys (cols cs) ->
  elem (ortho_right thr maxr start answers cs) xs ys = elem cs xs ys.
Proof. exact (ortho_right_value thr maxr start answers cs xs ys). Qed.
Print Assumptions C03_right_value.

Theorem C03_right_iso (R : cring) thr maxr (c : core R) rest pos answers a as' ci more :
  sweepR_hyp isoV_hyp thr maxr pos answers (c :: rest) ->
  snd (sweepR thr maxr (S pos) answers rest) = a :: as' ->
  fst (sweepR thr maxr (S pos) answers rest) = ci :: more ->
  right_iso (fst (stepR (select thr (maxr (S pos)) a) a ci c)).
Proof. exact (sweepR_iso_step thr maxr c rest pos answers a as' ci more). Qed.
Print Assumptions C03_right_iso.

Theorem C03_right_wf (R : cring) thr maxr start answers (cs : list (core R)) :
  sweepR_hyp nonempty_idx thr maxr 0 answers (firstn (S start) cs) -> wf cs ->
  wf (ortho_right thr maxr start answers cs) /\
  rows (ortho_right thr maxr start answers cs) = rows cs /\ cols (ortho_right thr maxr start answers cs) = cols cs.
Proof. exact (ortho_right_wf thr maxr start answers cs). Qed.
Print Assumptions C03_right_wf.

(* 9. two-sided orthonormalisation t.ortho() *)
Theorem C03_ortho_value (R : cring) thr maxr ansL ansR (cs : list (core R)) xs ys :
  let n := (length cs - 1)%nat in
  let cs1 := ortho_left thr (fun _ => None) 0 ansL cs in
  sweepL_hyp svd_value thr (fun _ => None) 1 ansL cs ->
  sweepL_hyp nonempty_idx thr (fun _ => None) 1 ansL cs ->
  sweepR_hyp svd_value thr maxr 0 ansR (firstn (S n) cs1) ->
  sweepR_hyp nonempty_idx thr maxr 0 ansR (firstn (S n) cs1) ->
  wf cs -> below xs (rows cs) -> below ys (cols cs) ->
  elem (ortho_right thr maxr n ansR cs1) xs ys = elem cs xs ys.
Proof. exact (ortho_value thr maxr ansL ansR cs xs ys). Qed.
Print Assumptions C03_ortho_value.

(* ---- non-vacuity: a complex order-2 train and an exact SVD answer (U = i·I, s = 1, V = -i·A)
        meeting the value AND the isometry hypotheses ---- *)
Definition exA : core ZIring := @mkcore ZIring 1 2 1 2 (fun _ x _ b => if Nat.eqb x b then (0, 2)%Z else (0, 0)%Z).
Definition exB : core ZIring := @mkcore ZIring 2 2 1 1 (fun a x _ _ => (Z.of_nat (a + 2 * x), 1%Z)).
Definition exAns : svd_ans ZIring :=
  @mkans ZIring 2 (fun r p => if Nat.eqb r p then (0, 1)%Z else (0, 0)%Z)
                  (fun _ => (2, 0)%Z)
                  (fun p b => if Nat.eqb p b then (1, 0)%Z else (0, 0)%Z).
Example ex_hyp_value : sweepL_hyp svd_value None (fun _ => None) 1 [exAns] [exA; exB].
Proof.
  split; [|exact I]. intros r b Hr Hb.
  destruct r as [|[|r]]; destruct b as [|[|b]]; try (simpl in *; lia); vm_compute; reflexivity.
Qed.
Example ex_hyp_iso : sweepL_hyp isoU_hyp None (fun _ => None) 1 [exAns] [exA; exB].
Proof.
  split; [|exact I]. intros p q Hp Hq.
  destruct p as [|[|p]]; destruct q as [|[|q]]; try (simpl in *; lia); vm_compute; reflexivity.
Qed.
Example ex_hyp_nonempty : sweepL_hyp nonempty_idx None (fun _ => None) 1 [exAns] [exA; exB].
Proof. split; [|exact I]. unfold nonempty_idx. simpl. discriminate. Qed.
Example ex_wf : wf [exA; exB].
Proof. repeat split; simpl; lia. Qed.
Example ex_value_concrete :
  elem (ortho_left None (fun _ => None) 0 [exAns] [exA; exB]) [1%nat; 1%nat] [0%nat; 0%nat] =
  elem [exA; exB] [1%nat; 1%nat] [0%nat; 0%nat].
Proof. vm_compute. reflexivity. Qed.
