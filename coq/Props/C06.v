(* C06 — operands keep their value: no hidden mutation or aliasing across calls.
   Property theorems only, about the abstract heap model Heap/Model.v: objects own buffers (core
   arrays); every public operation of the repaired API has one of the effects
     EFresh   (results are built from fresh buffers, nothing is written),
     EInPlace (only the target's buffers may be written; it is rebound to fresh buffers),
     EConsume (the target is consumed, e.g. svd/pinv with overwrite=True),
   see [effect_of].  The statements hold for EVERY finite history of such effects (induction over
   the history), every number of live objects and cores.  What ties the table to the code is the
   history fuzzer of harness/props/c06.py (observed sharing graph, value/metadata snapshots). *)
From Coq Require Import List Arith Lia Bool ZArith.
Import ListNotations.
Require Import SkTT.Heap.Model SkTT.Heap.Proofs.

(* 1. separation is invariant: distinct live objects never share a buffer, in any reachable state *)
Theorem C06_step_sep s e : Sep s -> safe e = true -> Sep (step s e).
Proof. exact (step_preserves_sep s e). Qed.
Print Assumptions C06_step_sep.
Theorem C06_reachable_sep (es : list effect) : forallb safe es = true -> Sep (fold_left step es init).
Proof. exact (reachable_sep es). Qed.
Print Assumptions C06_reachable_sep.

(* 2. frame: whatever operation is performed, every object other than its target keeps its value
      (same buffers, same versions) -- hence no earlier operand and no other live result ever changes,
      whichever in-place operations follow *)
Theorem C06_frame s e i :
  Sep s -> safe e = true -> (i < length (objs s))%nat -> target e <> Some i ->
  value (step s e) i = value s i.
Proof. exact (step_frame s e i). Qed.
Print Assumptions C06_frame.

(* 3. every effect the table assigns to an API code is safe *)
Theorem C06_table_safe c args sizes k : safe (effect_of c args sizes k) = true.
Proof. unfold effect_of. destruct (in_place_code c); [reflexivity|]. destruct (consume_code c); reflexivity. Qed.
Print Assumptions C06_table_safe.

(* non-vacuity: a concrete 4-step history with an in-place sweep on a result *)
Example ex_history_sep : Sep (fold_left step [EFresh [2; 2]; EFresh [3]; EInPlace 2 3; EConsume 0 [1; 1]] init).
Proof. apply reachable_sep. reflexivity. Qed.
