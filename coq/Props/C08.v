(* C08 — ALS eigen-solver returns consistent Ritz pairs and keeps exact eigenpairs.
   Property theorems only.
   PARTIAL.  Proved:
     - Ritz consistency (every order, dims, ranks, real and complex scalars, standard and generalised
       problems): if the micro eigen-solver's answer y satisfies M y = lambda Mg y at the last micro
       step (position 0, where the left environment is trivial), then the returned tensor x (first
       core from y, remaining cores as they are) satisfies  x^H A x = lambda x^H G x,  i.e. the
       returned eigenvalue is the (generalised) Rayleigh quotient of the returned eigentensor.
       The proof goes through the closed form of the right environments (C07_right_stack).
     - best-so-far bookkeeping: appending a sweep never moves the reported value away from the target.
     - deflation = explicit shift: for any frame P, operator A, tensor p and shift s,
       P^H (A + s p p^H) P = P^H A P + s (P^H p)(P^H p)^H; with the frame identities of C07 (micro_op = P^H A P, and the
       projected deflation tensor the code builds from its `previous` stacks is P^H p) the micro matrix with deflation is
       the micro matrix of the explicitly shifted operator, at every position and for every number of deflation tensors
       (the statement is additive in p).
     - EXACTNESS AT MAXIMAL RANKS (C08_full_rank_eigenpair): when the frame is unitary on the whole space (P P^H = I), an
       eigenpair (lambda, y) of the micro matrix P^H A P gives the eigenpair (lambda, P y) of A.
     - UPPER BOUND (C08_rayleigh_gap, C08_below_bound_Z): if lambda G - A = B^H B (lambda is an upper bound of the pencil:
       lambda G - A positive semi-definite, Cholesky), then for every x  lambda x^H G x - x^H A x = |B x|^2; with Ritz
       consistency the returned value mu satisfies (lambda - mu) x^H G x = |B x|^2 >= 0 (instance over Z).
     - FIXED POINT (C08_fixed_point): if the current iterate x = P y0 is an eigenvector, A x = lambda x, and the frame is an
       isometry, y0 is an eigenvector of the micro matrix P^H A P with the same eigenvalue.
   NOT proved (model + oracle-tape correspondence + side check): that a positive semi-definite matrix is a Gram matrix
   (classical), that the extremal micro eigenvalue is selected (so that the fixed point is the one returned), convergence of the inverse power iteration. *)
From Coq Require Import ZArith List Lia Arith.
Import ListNotations.
Require Import Ring Sums Matrix Core Chain Sweep SweepProof TensordotProof Env EnvProof EvpProof DeflationProof FullRankProof RayleighBound FixedPoint.
Open Scope cr_scope.

Theorem C08_ritz_consistent (R : cring) (A0 G0 : core R) (Xs As Gs : list (core R)) m (yv : nat -> R) (lam : R) :
  let r1 := rl_of Xs 1%nat in
  let M := snd (micro_op_als one3 (rstack Xs As) A0 1 r1) in
  let Mg := snd (micro_op_als one3 (rstack Xs Gs) G0 1 r1) in
  md A0 = m -> nd A0 = m -> md G0 = m -> nd G0 = m ->
  length As = length Xs -> length Gs = length Xs ->
  linked (ycore m r1 yv :: Xs) 1%nat -> linked (A0 :: As) 1%nat -> linked (G0 :: Gs) 1%nat ->
  rl A0 = 1%nat -> rl G0 = 1%nat ->
  (forall row, (row < 1 * m * r1)%nat ->
     sum (1 * m * r1) (fun col => M row col * yv col) = lam * sum (1 * m * r1) (fun col => Mg row col * yv col)) ->
  sandwich (ycore m r1 yv :: Xs) (A0 :: As) = lam * sandwich (ycore m r1 yv :: Xs) (G0 :: Gs).
Proof. exact (ritz_consistent A0 G0 Xs As Gs m yv lam). Qed.
Print Assumptions C08_ritz_consistent.

Theorem C08_best_so_far (T : Type) (dist : T -> Z) (vals : list T) (v : T) b :
  best_of T dist vals = Some b -> exists b', best_of T dist (vals ++ [v]) = Some b' /\ (dist b' <= dist b)%Z.
Proof. exact (best_so_far_monotone T dist vals v b). Qed.
Print Assumptions C08_best_so_far.

(* non-vacuity: order 1 (no cores to the right): the micro matrix is the operator itself and
   an exact integer eigenpair meets the eigen-equation hypothesis *)
Definition exA8 : core ZIring := @mkcore ZIring 1 2 2 1 (fun _ x y _ => match x, y with 0%nat, 0%nat => (2, 0)%Z | 1%nat, 1%nat => (2, 0)%Z | 0%nat, 1%nat => (0, 1)%Z | _, _ => (0, -1)%Z end).
Definition exI8 : core ZIring := @mkcore ZIring 1 2 2 1 (fun _ x y _ => if Nat.eqb x y then (1, 0)%Z else (0, 0)%Z).
Definition exY8 : nat -> ZIring := fun k => match k with 0%nat => (1, 0)%Z | _ => (0, -1)%Z end.
Example ex_ritz_hyp : forall row, (row < 1 * 2 * 1)%nat ->
  sum (1 * 2 * 1) (fun col => snd (micro_op_als (@one3 ZIring) (rstack [] []) exA8 1 1) row col * exY8 col) =
  ((3, 0)%Z : ZIring) * sum (1 * 2 * 1) (fun col => snd (micro_op_als (@one3 ZIring) (rstack [] []) exI8 1 1) row col * exY8 col).
Proof. intros row H. destruct row as [|[|row]]; try (simpl in H; lia); vm_compute; reflexivity. Qed.

Theorem C08_deflation_is_shift (R : cring) (N K : nat) (A P : M R) (p : nat -> R) (s : R) i j :
  let t := fun k => sum N (fun x => cconj R (P x k) * p x) in
  sum N (fun x => sum N (fun y => cconj R (P x i) * (A x y + s * (p x * cconj R (p y))) * P y j)) =
  sum N (fun x => sum N (fun y => cconj R (P x i) * A x y * P y j)) + s * (t i * cconj R (t j)).
Proof. exact (deflation_is_shift N K A P p s i j). Qed.
Print Assumptions C08_deflation_is_shift.

(* exactness at maximal ranks: with a unitary frame a micro eigenpair is an eigenpair of the operator *)
Theorem C08_full_rank_eigenpair (R : cring) (n r : nat) (P A : M R) (lam : R) (y : nat -> R) :
  (forall i j, (i < n)%nat -> (j < n)%nat -> sum r (fun k => P i k * cconj R (P j k)) = delta i j) ->
  (forall k, (k < r)%nat -> sum r (fun l => microM n P A k l * y l) = lam * y k) ->
  forall i, (i < n)%nat -> sum n (fun j => A i j * lift r P y j) = lam * lift r P y i.
Proof. intros H. exact (full_rank_eigen n r P A H lam y). Qed.
Print Assumptions C08_full_rank_eigenpair.

(* upper bound: with a positive-semidefiniteness certificate lambda G - A = B^H B, every Rayleigh quotient is <= lambda *)
Theorem C08_rayleigh_gap (R : cring) (N K : nat) (A G B : M R) (lam : R) (x : nat -> R) :
  (forall i j, (i < N)%nat -> (j < N)%nat -> lam * G i j - A i j = sum K (fun k => cconj R (B k i) * B k j)) ->
  lam * quad N x G - quad N x A = sum K (fun k => cconj R (Bx N B x k) * Bx N B x k).
Proof. exact (rayleigh_gap N K A G B lam x). Qed.
Print Assumptions C08_rayleigh_gap.

Theorem C08_below_bound_Z (N K : nat) (A G B : M Zring) (lam : Z) (x : nat -> Z) :
  (forall i j, (i < N)%nat -> (j < N)%nat -> (lam * G i j - A i j)%Z = @sum Zring K (fun k => (B k i * B k j)%Z)) ->
  (@quad Zring N x A <= lam * @quad Zring N x G)%Z.
Proof. exact (below_bound_Z N K A G B lam x). Qed.
Print Assumptions C08_below_bound_Z.

(* non-vacuity: A = [[1,1],[1,1]] (eigenvalues 0, 2), G = I, lambda = 2: 2 I - A = [[1,-1],[-1,1]] = B^T B with B = (1, -1) *)
Definition exA8c : M Zring := fun _ _ => 1%Z.
Definition exG8c : M Zring := fun i j => if Nat.eqb i j then 1%Z else 0%Z.
Definition exB8c : M Zring := fun _ j => if Nat.eqb j 0 then 1%Z else (-1)%Z.
Example ex_certificate : forall i j, (i < 2)%nat -> (j < 2)%nat ->
  (2 * exG8c i j - exA8c i j)%Z = @sum Zring 1 (fun k => (exB8c k i * exB8c k j)%Z).
Proof. intros [|[|i]] [|[|j]] Hi Hj; try lia; vm_compute; reflexivity. Qed.

(* fixed point: an iterate x = P y0 with A x = lambda x and an isometric frame P gives the micro eigenpair (lambda, y0) *)
Theorem C08_fixed_point (R : cring) (n r : nat) (P A : M R) (y0 : nat -> R) (lam : R) :
  (forall k l, (k < r)%nat -> (l < r)%nat -> sum n (fun i => cconj R (P i k) * P i l) = delta k l) ->
  (forall i, (i < n)%nat -> sum n (fun j => A i j * lift r P y0 j) = lam * lift r P y0 i) ->
  forall k, (k < r)%nat -> sum r (fun l => microM n P A k l * y0 l) = lam * y0 k.
Proof. intros HP Hx. exact (fixed_point_eigen n r P A y0 HP lam Hx). Qed.
Print Assumptions C08_fixed_point.
