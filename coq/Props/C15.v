(* C15 — transformed data tensors equal the tensor of basis-function products.
   Property theorems only.  Any number of modes p >= 1, any numbers of functions per mode, any
   snapshot count m >= 1; R any commutative ring with involution.  A mode is (n, Phi) with
   Phi k j = value of its k-th function on snapshot j (coordinate_major / function_major are the
   instances Phi_i k j = phi_k(x[i,j]) resp. phi_i(x[k,j]) with the optional leading 1; the tables are
   computed by the harness from the real Function objects).
   For the cross approximation (hocur) the matrix SKELETON IDENTITY is proved (C15_skeleton): a matrix of rank at most r is
   reproduced exactly by the cross through r rows and columns whose restrictions are invertible, A = A[:,J] W A[I,:] with W
   the inverse of the intersection -- the step hocur applies at every bond.
   PARTIAL: the choice of the rows and columns (maximum-volume search, linear-independence tests) and the composition over
   the bonds are outside the proof (side check only; known finding F26). *)
From Coq Require Import ZArith List Lia Arith.
Import ListNotations.
Require Import Ring Sums Matrix Core Chain DataTensor DataProof SkeletonProof.
Open Scope cr_scope.

(* entry (k_1, .., k_p, j) of the transformed data tensor = product of the selected functions at snapshot j *)
Theorem C15_entries (R : cring) m (md : @mode R) rest k ks j :
  (j < m)%nat -> length ks = length rest ->
  elem (basis_decomposition m (md :: rest)) (k :: ks ++ [j]) (repeat 0%nat (S (S (length rest)))) =
  pvals (md :: rest) (k :: ks) j.
Proof. exact (elem_basis_decomposition m md rest k ks j). Qed.
Print Assumptions C15_entries.

(* single_core = i returns exactly the i-th core of the full construction *)
Theorem C15_single_core (R : cring) m (modes : list (@mode R)) i :
  (i < length modes)%nat ->
  single_core m modes i = nth i (basis_decomposition m modes) (eye_last m).
Proof.
  intros Hi. destruct modes as [|md rest]; [simpl in Hi; lia|].
  destruct i as [|i]; [reflexivity|]. simpl in Hi.
  unfold single_core, basis_decomposition. cbn [nth].
  rewrite app_nth1 by (rewrite map_length; lia).
  rewrite (nth_indep _ (eye_last m) (dcore_mid m (0%nat, fun _ _ => 0))) by (rewrite map_length; lia).
  rewrite map_nth. reflexivity.
Qed.
Print Assumptions C15_single_core.

(* Gram matrix = inner products of the transformed snapshots *)
Theorem C15_gram (R : cring) (modes1 modes2 : list (@mode R)) j1 j2 :
  dimsof modes2 = dimsof modes1 ->
  gram modes1 modes2 j1 j2 = msum (dimsof modes1) (fun ks => pvals modes1 ks j1 * pvals modes2 ks j2).
Proof. exact (gram_correct modes1 modes2 j1 j2). Qed.
Print Assumptions C15_gram.

(* non-vacuity *)
Definition exM1 : @mode ZIring := (2%nat, fun k j => (Z.of_nat (k + j + 1), 0%Z)).
Definition exM2 : @mode ZIring := (3%nat, fun k j => (Z.of_nat (2 * k + j), 1%Z)).
Example ex_entries : elem (basis_decomposition 2 [exM1; exM2]) [1%nat; 2%nat; 1%nat] [0%nat; 0%nat; 0%nat] =
  pvals [exM1; exM2] [1%nat; 2%nat] 1%nat.
Proof. vm_compute. reflexivity. Qed.

(* the skeleton (CUR) identity: A = X Y of rank <= r, L a left inverse of X on the selected rows, Rg a right inverse of Y on the
   selected columns, W = Rg L (= the inverse of the intersection A[I, J]) *)
Theorem C15_skeleton (R : cring) (r : nat) (X Y : M R) (rowsel colsel : nat -> nat) (L Rg : M R) :
  (forall p q, (p < r)%nat -> (q < r)%nat -> sum r (fun k => L p k * X (rowsel k) q) = delta p q) ->
  (forall p q, (p < r)%nat -> (q < r)%nat -> sum r (fun k => Y p (colsel k) * Rg k q) = delta p q) ->
  forall i j,
  mmul r (mmul r (fun i0 a => Amat r X Y i0 (colsel a)) (Wmat r L Rg)) (fun b j0 => Amat r X Y (rowsel b) j0) i j = Amat r X Y i j.
Proof. exact (skeleton r X Y rowsel colsel L Rg). Qed.
Print Assumptions C15_skeleton.

(* non-vacuity over Z: X = [[1,0],[0,1],[1,1]], Y = [[1,2,0],[0,1,1]], rows {0,1}, columns {0,1}; Y_J = [[1,2],[0,1]] has the
   inverse [[1,-2],[0,1]] *)
Example ex_skeleton :
  let X : M Zring := fun i k => match i, k with 0%nat, 0%nat => 1 | 1%nat, 1%nat => 1 | 2%nat, _ => 1 | _, _ => 0 end%Z in
  let Y : M Zring := fun k j => match k, j with 0%nat, 0%nat => 1 | 0%nat, 1%nat => 2 | 1%nat, 1%nat => 1 | 1%nat, 2%nat => 1 | _, _ => 0 end%Z in
  let L : M Zring := fun p q => if Nat.eqb p q then 1%Z else 0%Z in
  let Rg : M Zring := fun p q => match p, q with 0%nat, 0%nat => 1 | 0%nat, 1%nat => (-2) | 1%nat, 1%nat => 1 | _, _ => 0 end%Z in
  (forall p q, (p < 2)%nat -> (q < 2)%nat -> @sum Zring 2 (fun k => (L p k * X k q)%Z) = @delta Zring p q) /\
  (forall p q, (p < 2)%nat -> (q < 2)%nat -> @sum Zring 2 (fun k => (Y p k * Rg k q)%Z) = @delta Zring p q) /\
  @Amat Zring 2 X Y 2%nat 2%nat = 1%Z.
Proof.
  repeat split; try (intros p q Hp Hq; destruct p as [|[|p]]; destruct q as [|[|q]]; try lia; vm_compute; reflexivity).
Qed.
