(* C09 — one-step ODE schemes reproduce their defining recurrences.
   Property theorems only.
   Proved: the operator I + c A the schemes build is entrywise delta + c A (implicit Euler uses c = -h,
   the trapezoidal rule c = -h/2 and the right-hand side (I + h/2 A) x_k: C01_matmul); one explicit
   Euler step equals the dense recurrence x_{k+1} = (I + h A) x_k when the orthonormalisation does not
   truncate (SVD value conjunct); the step-size controller's accepted time points increase strictly
   and never pass time_end (over Q, for every sequence of positive step sizes).
   C09_implicit_euler / C09_trapezoidal: the operator handed to the inner solver, applied to any train, is the dense
   I + c A applied to its tensor; so whenever the inner solve is exact (what the error estimators measure; C07 for
   when ALS/MALS achieve it) the new state satisfies (I - h A) x1 = x0 resp. (I - h/2 A) x1 = (I + h/2 A) x0.
   PARTIAL: the hypothesis "inner solve exact" is not discharged here (C07_full_rank_exact gives it at maximal ranks); one HOD step before re-orthonormalisation is the dense recurrence
   x_{k+1} = x_{k-1} + op_hod x_k (C09_hod_step; the series operator op_hod, the error estimators and normalisation
   (sqrt) are covered by model + correspondence + side check). *)
From Coq Require Import ZArith List Lia Arith QArith.
Import ListNotations.
Require Import Ring Sums Matrix Core Chain TTOps Sweep AddProof OpsProof SweepProof Ode OdeProof HodProof ImplicitProof.
Open Scope cr_scope.

Theorem C09_eye_plus (R : cring) (c : R) (A : list (core R)) xs ys :
  A <> [] -> wf A -> length xs = length A -> length ys = length A ->
  elem (eye_plus c A) xs ys = idelta xs ys + c * elem A xs ys.
Proof. exact (elem_eye_plus c A xs ys). Qed.
Print Assumptions C09_eye_plus.

Theorem C09_explicit_euler (R : cring) thr maxr ansL ansR (h : R) (A x : list (core R)) xs zs :
  let y := tmul (eye_plus h A) x in
  let n := (length y - 1)%nat in
  let cp : caps := match maxr with
                   | None => fun _ => None
                   | Some m => fun bond => if Nat.eqb bond 0 || Nat.eqb bond (length y) then Some 1%nat else Some m
                   end in
  let y1 := ortho_left thr (fun _ => None) 0 ansL y in
  A <> [] -> wf A -> length x = length A -> linked x 1%nat -> rl_pos x ->
  length xs = length A -> length zs = length A ->
  sweepL_hyp svd_value thr (fun _ => None) 1 ansL y ->
  sweepL_hyp nonempty_idx thr (fun _ => None) 1 ansL y ->
  sweepR_hyp svd_value thr cp 0 ansR (firstn (S n) y1) ->
  sweepR_hyp nonempty_idx thr cp 0 ansR (firstn (S n) y1) ->
  wf y -> below xs (rows y) -> below zs (cols y) ->
  elem (explicit_euler_step thr maxr ansL ansR h A x) xs zs =
  msum (cols (eye_plus h A)) (fun ys => (idelta xs ys + h * elem A xs ys) * elem x ys zs).
Proof. exact (explicit_euler_dense thr maxr ansL ansR h A x xs zs). Qed.
Print Assumptions C09_explicit_euler.

Theorem C09_implicit_euler (R : cring) (h : R) (A x0 x1 : list (core R)) xs zs :
  A <> [] -> wf A -> length x1 = length A -> linked x1 1%nat -> rl_pos x1 ->
  length xs = length A -> length zs = length A ->
  elem (tmul (eye_plus (- h) A) x1) xs zs = elem x0 xs zs ->
  msum (cols (eye_plus (- h) A)) (fun ys => (idelta xs ys - h * elem A xs ys) * elem x1 ys zs) = elem x0 xs zs.
Proof. exact (implicit_euler_exact h A x0 x1 xs zs). Qed.
Print Assumptions C09_implicit_euler.

Theorem C09_trapezoidal (R : cring) (h2 : R) (A x0 x1 : list (core R)) xs zs :
  A <> [] -> wf A -> length x1 = length A -> linked x1 1%nat -> rl_pos x1 ->
  length x0 = length A -> linked x0 1%nat -> rl_pos x0 ->
  length xs = length A -> length zs = length A ->
  elem (tmul (eye_plus (- h2) A) x1) xs zs = elem (tmul (eye_plus h2 A) x0) xs zs ->
  msum (cols (eye_plus (- h2) A)) (fun ys => (idelta xs ys - h2 * elem A xs ys) * elem x1 ys zs) =
  msum (cols (eye_plus h2 A)) (fun ys => (idelta xs ys + h2 * elem A xs ys) * elem x0 ys zs).
Proof. exact (trapezoidal_exact h2 A x0 x1 xs zs). Qed.
Print Assumptions C09_trapezoidal.

Theorem C09_hod_step (R : cring) (op xprev x : list (core R)) xs zs :
  xprev <> [] -> op <> [] -> length op = length xprev -> length x = length xprev ->
  length xs = length xprev -> length zs = length xprev ->
  wf xprev -> wf op -> wf x ->
  elem (hod_step_raw op xprev x) xs zs = elem xprev xs zs + msum (cols op) (fun ys => elem op xs ys * elem x ys zs).
Proof. exact (hod_step_dense op xprev x xs zs). Qed.
Print Assumptions C09_hod_step.

Theorem C09_adaptive_times (time tend : Q) (steps : list Q) :
  guarded time tend steps -> increasing_from time (run_accepts time tend steps) tend.
Proof. exact (adaptive_times_increase time tend steps). Qed.
Print Assumptions C09_adaptive_times.

(* non-vacuity *)
Example ex_guarded : guarded 0 1 [(1 # 2)%Q; (1 # 4)%Q; 1%Q].
Proof. simpl. unfold accept. repeat split; vm_compute; reflexivity. Qed.

(* non-vacuity of C09_implicit_euler: a one-site instance over Z: A = [[2]], h = 1, so I - h A = [[-1]]; x1 = (3), x0 = (-3) *)
Definition exA1 : list (core Zring) := [@mkcore Zring 1 1 1 1 (fun _ _ _ _ => 2%Z)].
Definition exx1 : list (core Zring) := [@mkcore Zring 1 1 1 1 (fun _ _ _ _ => 3%Z)].
Definition exx0 : list (core Zring) := [@mkcore Zring 1 1 1 1 (fun _ _ _ _ => (-3)%Z)].
Example ex_implicit_hyp : elem (tmul (eye_plus (- (1%Z : Zring)) exA1) exx1) [0%nat] [0%nat] = elem exx0 [0%nat] [0%nat].
Proof. vm_compute. reflexivity. Qed.
