(* C17 — tensor-based DMD equals matrix DMD of the unfolded snapshots.
   Property theorems only.  Proved (any commutative ring with involution, every order >= 2, all spatial
   dimensions and TT ranks of x and y):
     - C17_reduced_matrix: the matrix handed to the eigen-solver is
         reduced[a, a'] = sum_b <X_left[:, a], Y_left[:, b]> * (x_last y_last^T)[a', b]
       where X_left / Y_left are the unfolded spatial parts (all cores but the last) of pinv(x) and y and the
       bracket sums over all spatial multi-indices.  With pinv(x) = U S^-1 V (C05_penrose: U orthonormal, last core
       S^-1 V) this is U^T . Y_unfolded . V^T S^-1, the projected DMD matrix of the unfolded snapshot matrices with the
       same relative cut (real data; the code uses transposes, not conjugates); equal matrices have equal eigenvalues.
     - C17_modes: a train whose last core is replaced has entries (left part) x (new last core): for tdmd_exact the
       new last core is y_last x_last^T W L^-1, so the unfolded modes are Y V^T S^-1 W L^-1 (exact DMD modes); for
       tdmd_standard it is W on top of the left part U of pinv(x), i.e. U W (projected DMD modes).
     - C17_exact_mode_eigen / C17_standard_mode_eigen: with U the unfolded spatial part of pinv(x), Bm = Y V^T S^-1 and
       the reduced matrix Mred = U^T Bm, every eigenpair (lam, w) of Mred gives the exact mode c * Bm w (the code's
       c = 1/lam) with (Y X^+) phi = lam phi, and - when U^T U = I - the projected mode U w with
       (U U^T Y X^+)(U w) = lam (U w): the returned modes are the exact resp. projected DMD modes.
     - C17_nonzero_spectrum_found: conversely every eigenpair of Y X^+ gives one of the reduced matrix (U^T v = 0 only if
       lam v = 0): the non-zero spectra coincide as sets.
   Outside the proof: eig is an oracle (tape); the ordering (numpy argsort of complex numbers) and "inputs unchanged"
   are decided by correspondence and side check. *)
From Coq Require Import ZArith List Lia Arith.
Import ListNotations.
Require Import Ring Sums Matrix Core Chain Tdmd TdmdProof DmdModes TedmdProof.
Open Scope cr_scope.

Theorem C17_reduced_matrix (R : cring) (xs ys : list (core R)) (xl yl : core R) a a' :
  length xs = length ys -> linked ys (rl yl) -> (0 < rl_of ys (rl yl))%nat ->
  Forall2 (fun cx cy => md cx = md cy) xs ys ->
  reduced_matrix xs ys xl yl a a' =
  sum (rl yl) (fun b => sgram xs ys 0%nat 0%nat a b * sum (md xl) (fun k => g xl a' k 0%nat 0%nat * g yl b k 0%nat 0%nat)).
Proof. exact (reduced_matrix_dense xs ys xl yl a a'). Qed.
Print Assumptions C17_reduced_matrix.

Theorem C17_modes (R : cring) (pre : list (core R)) (c : core R) ks q a0 :
  length ks = length pre -> pre <> [] -> linked pre (rl c) -> rr c = 1%nat ->
  chain (pre ++ [c]) (ks ++ [q]) (zeros (length pre) ++ [0%nat]) a0 0%nat =
  sum (rl c) (fun b => chain pre ks (zeros (length pre)) a0 b * g c b q 0%nat 0%nat).
Proof. exact (elem_last pre c ks q a0). Qed.
Print Assumptions C17_modes.

Theorem C17_exact_mode_eigen (R : cring) (N r : nat) (U Bm : M R) (w : nat -> R) (lam c : R) x :
  (forall a, (a < r)%nat -> sum r (fun b => Mred N U Bm a b * w b) = lam * w a) ->
  sum N (fun y => Aop r U Bm x y * (c * sum r (fun b => Bm y b * w b))) = lam * (c * sum r (fun b => Bm x b * w b)).
Proof. intros Hw. exact (exact_mode_eigen N r U Bm w lam Hw c x). Qed.
Print Assumptions C17_exact_mode_eigen.

Theorem C17_standard_mode_eigen (R : cring) (N r : nat) (U Bm : M R) (w : nat -> R) (lam : R) x :
  (forall a, (a < r)%nat -> sum r (fun b => Mred N U Bm a b * w b) = lam * w a) ->
  (forall a b, (a < r)%nat -> (b < r)%nat -> sum N (fun x => U x a * U x b) = delta a b) ->
  sum N (fun y => PAop N r U Bm x y * sum r (fun c => U y c * w c)) = lam * sum r (fun c => U x c * w c).
Proof. intros Hw HU. exact (standard_mode_eigen N r U Bm w lam Hw HU x). Qed.
Print Assumptions C17_standard_mode_eigen.

(* conversely: every eigenpair (lam, v) of the DMD operator Y X^+ = Bm U^T gives the eigenpair (lam, U^T v) of the reduced matrix,
   and U^T v = 0 forces lam v = 0: no non-zero DMD eigenvalue is missed by the reduced problem *)
Theorem C17_nonzero_spectrum_found (R : cring) (N r : nat) (U Bm : M R) (v : nat -> R) (lam : R) :
  (forall x, (x < N)%nat -> sum N (fun y => Aop r U Bm x y * v y) = lam * v x) ->
  (forall a, sum r (fun b => Mred N U Bm a b * sum N (fun y => U y b * v y)) = lam * sum N (fun y => U y a * v y)) /\
  ((forall b, (b < r)%nat -> sum N (fun y => U y b * v y) = 0) -> forall x, (x < N)%nat -> lam * v x = 0).
Proof. exact (eig_back N r Bm (fun a y => U y a) v lam). Qed.
Print Assumptions C17_nonzero_spectrum_found.

(* non-vacuity: a concrete order-3 instance evaluates both sides *)
Definition exc (r1 n r2 : nat) (s : Z) : core ZIring :=
  @mkcore ZIring r1 n 1 r2 (fun a k _ b => (Z.of_nat (a + 2 * k + 3 * b) + s, Z.of_nat (a * b))%Z).
Example ex_reduced :
  reduced_matrix [exc 1 2 2 0; exc 2 3 2 1] [exc 1 2 3 2; exc 3 3 2 0] (exc 2 4 1 1) (exc 2 4 1 0) 1%nat 0%nat =
  sum 2 (fun b => sgram [exc 1 2 2 0; exc 2 3 2 1] [exc 1 2 3 2; exc 3 3 2 0] 0%nat 0%nat 1%nat b *
                  sum 4 (fun k => g (exc 2 4 1 1) 0%nat k 0%nat 0%nat * g (exc 2 4 1 0) b k 0%nat 0%nat)).
Proof. vm_compute. reflexivity. Qed.

(* non-vacuity of the mode theorems: N = 3, r = 2, U = first two unit vectors, Bm = [[2,0],[0,3],[5,7]]: Mred = diag(2,3),
   w = e_1 with lam = 3 *)
Definition exU : M Zring := fun x a => if Nat.eqb x a then 1%Z else 0%Z.
Definition exBm : M Zring := fun x a => match x, a with 0%nat, 0%nat => 2%Z | 1%nat, 1%nat => 3%Z | 2%nat, 0%nat => 5%Z | 2%nat, 1%nat => 7%Z | _, _ => 0%Z end.
Definition exw : nat -> Zring := fun b => if Nat.eqb b 1 then 1%Z else 0%Z.
Example ex_modes_hyp :
  (forall a, (a < 2)%nat -> sum 2 (fun b => Mred 3 exU exBm a b * exw b) = (3%Z : Zring) * exw a) /\
  (forall a b, (a < 2)%nat -> (b < 2)%nat -> sum 3 (fun x => exU x a * exU x b) = delta a b).
Proof. split; [intros [|[|a]] Ha; try lia; vm_compute; reflexivity | intros [|[|a]] [|[|b]] Ha Hb; try lia; vm_compute; reflexivity]. Qed.
