(* C17 — tensor-based DMD equals matrix DMD of the unfolded snapshots.
   Property theorems only.  Proved (any commutative ring with involution, every order >= 2, all spatial
   dimensions and TT ranks of x and y):
     - C17_reduced_matrix: the matrix handed to the eigen-solver is
         reduced[a, a'] = sum_b <X_left[:, a], Y_left[:, b]> * (x_last y_last^T)[a', b]
       where X_left / Y_left are the unfolded spatial parts (all cores but the last) of pinv(x) and y and the
       bracket sums over all spatial multi-indices.  With pinv(x) = U S^-1 V (C05_penrose: U orthonormal, last core
       S^-1 V) this is U^T . Y_unfolded . V^T S^-1, the projected DMD matrix of the unfolded snapshot matrices with the
       same relative cut (real data; the code uses transposes, not conjugates); equal matrices have equal eigenvalues.
     - C17_modes: a train whose last core is replaced has entries (left part) x (new last core): for tdmd_exact the
       new last core is y_last x_last^T W L^-1, so the unfolded modes are Y V^T S^-1 W L^-1 (exact DMD modes); for
       tdmd_standard it is W on top of the left part U of pinv(x), i.e. U W (projected DMD modes).
   Outside the proof: eig is an oracle (tape); the ordering (numpy argsort of complex numbers) and "inputs unchanged"
   are decided by correspondence and side check. *)
From Coq Require Import ZArith List Lia Arith.
Import ListNotations.
Require Import Ring Sums Matrix Core Chain Tdmd TdmdProof.
Open Scope cr_scope.

Theorem C17_reduced_matrix (R : cring) (xs ys : list (core R)) (xl yl : core R) a a' :
  length xs = length ys -> linked ys (rl yl) -> (0 < rl_of ys (rl yl))%nat ->
  Forall2 (fun cx cy => md cx = md cy) xs ys ->
  reduced_matrix xs ys xl yl a a' =
  sum (rl yl) (fun b => sgram xs ys 0%nat 0%nat a b * sum (md xl) (fun k => g xl a' k 0%nat 0%nat * g yl b k 0%nat 0%nat)).
Proof. exact (reduced_matrix_dense xs ys xl yl a a'). Qed.
Print Assumptions C17_reduced_matrix.

Theorem C17_modes (R : cring) (pre : list (core R)) (c : core R) ks q a0 :
  length ks = length pre -> pre <> [] -> linked pre (rl c) -> rr c = 1%nat ->
  chain (pre ++ [c]) (ks ++ [q]) (zeros (length pre) ++ [0%nat]) a0 0%nat =
  sum (rl c) (fun b => chain pre ks (zeros (length pre)) a0 b * g c b q 0%nat 0%nat).
Proof. exact (elem_last pre c ks q a0). Qed.
Print Assumptions C17_modes.

(* non-vacuity: a concrete order-3 instance evaluates both sides *)
Definition exc (r1 n r2 : nat) (s : Z) : core ZIring :=
  @mkcore ZIring r1 n 1 r2 (fun a k _ b => (Z.of_nat (a + 2 * k + 3 * b) + s, Z.of_nat (a * b))%Z).
Example ex_reduced :
  reduced_matrix [exc 1 2 2 0; exc 2 3 2 1] [exc 1 2 3 2; exc 3 3 2 0] (exc 2 4 1 1) (exc 2 4 1 0) 1%nat 0%nat =
  sum 2 (fun b => sgram [exc 1 2 2 0; exc 2 3 2 1] [exc 1 2 3 2; exc 3 3 2 0] 0%nat 0%nat 1%nat b *
                  sum 4 (fun k => g (exc 2 4 1 1) 0%nat k 0%nat 0%nat * g (exc 2 4 1 0) b k 0%nat 0%nat)).
Proof. vm_compute. reflexivity. Qed.
