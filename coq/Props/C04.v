(* C04 — rank truncation is bounded in rank and in error.
   Property theorems only.  Every order, dimension vector, threshold and max_rank; R any commutative
   ring with involution (z * conj z plays the role of |z|^2; no order is needed for the identity).
   PARTIAL: proved are the rank caps, exactness without truncation, and the ERROR IDENTITY
     ||x - TT(x)||^2 = sum over all steps of the squares of the discarded singular values
   for genuine SVD answers and prefix truncation, and the SELECTION RULE: with a relative threshold an index is kept exactly
   when s_j / s_0 > threshold, so every discarded singular value fails that test -- with the identity,
   error^2 = sum of discarded s_j^2 <= (#discarded) (threshold s_0)^2, and the THRESHOLD BOUND
     Td * ||x - TT(x)||^2 <= (#discarded) * Tn * ||x||^2     (threshold^2 = Tn / Td)
   for every order relation with the usual laws (section 5; instantiated over Z).  NOT formalised (tested numerically by the
   side check): the quasi-optimality bound for max_rank w.r.t. the ORIGINAL unfoldings. *)
From Coq Require Import ZArith List Lia Arith.
Import ListNotations.
Require Import Ring Sums Matrix Core Chain Sweep OfFull SweepProof TensordotProof TruncProof ErrorProof SelectProof BoundProof.
Open Scope cr_scope.

(* 1a. construction from a full array: every inner rank is at most max_rank *)
Theorem C04_init_caps (R : cring) thr cap ms ns answers r (res : nat -> list nat -> list nat -> R) :
  caps_ok cap r (fst (of_full_aux thr (Some cap) answers r res ms ns)).
Proof. exact (of_full_caps thr cap ms ns answers r res). Qed.
Print Assumptions C04_init_caps.

(* 1b. orthonormalisation with max_rank (int or per-bond list [maxr]): every processed bond respects its cap *)
Theorem C04_sweep_caps (R : cring) thr maxr (answers : list (svd_ans R)) bond (cs : list (core R)) :
  (length answers < length cs)%nat ->
  capped_from maxr bond (firstn (length answers) (sweepL thr maxr bond answers cs)).
Proof. exact (sweepL_caps thr maxr answers bond cs). Qed.
Print Assumptions C04_sweep_caps.

(* 2. threshold 0 with unbounded rank is exact (SVD value conjunct only) *)
Theorem C04_exact (R : cring) thr maxr answers (X : list nat -> list nat -> R) ms ns xs ys :
  length ns = length ms -> ms <> [] ->
  of_full_hyp svd_value thr maxr answers 1 (fun _ xs ys => X xs ys) ms ns ->
  below xs ms -> below ys ns ->
  elem (fst (of_full thr maxr answers X ms ns)) xs ys = X xs ys.
Proof. exact (of_full_exact thr maxr answers X ms ns xs ys). Qed.
Print Assumptions C04_exact.

(* 3. error identity *)
Theorem C04_error_identity (R : cring) thr maxr ms ns answers r (res : nat -> list nat -> list nat -> R) :
  length ns = length ms -> ms <> [] ->
  err_hyp thr maxr answers r res ms ns ->
  err2 r ms ns res (fst (of_full_aux thr maxr answers r res ms ns)) = discarded thr maxr answers ms ns.
Proof. exact (of_full_error_identity thr maxr ms ns answers r res). Qed.
Print Assumptions C04_error_identity.

(* max_rank-only truncation keeps a prefix of the singular triplets (hypothesis of 3) *)
Theorem C04_maxrank_prefix (R : cring) (a : svd_ans R) m :
  exists k', (k' <= rk a)%nat /\ select None (Some m) a = seq 0 k'.
Proof. exact (select_maxrank_prefix a m). Qed.
Print Assumptions C04_maxrank_prefix.

(* NOT PROVED, stated for the record (over an ordered field, s_j >= 0 sorted decreasingly):
   quasi_optimal_full : err2 <= sum_k (best rank-r_k error of the k-th unfolding of the ORIGINAL tensor)^2
       -- from 3, each step's discarded energy is the best rank-r error of the CURRENT residual
          (Eckart-Young); relating it to the original unfolding needs singular-value interlacing.
   (threshold_bound_full : err2 <= threshold^2 * ||x||^2 * #discarded  is now C04_threshold_bound below.) *)

(* ---- non-vacuity: a genuine SVD over Z, truncated to rank 1, meets err_hyp; the identity gives 1 ---- *)
Definition exX : list nat -> list nat -> Zring := fun xs _ =>
  match xs with [0%nat; 0%nat] => 2%Z | [1%nat; 1%nat] => 1%Z | _ => 0%Z end.
Definition exAns4 : svd_ans Zring :=
  @mkans Zring 2 (fun r p => if Nat.eqb r p then 1%Z else 0%Z) (fun p => if Nat.eqb p 0 then 2%Z else 1%Z)
                 (fun p q => if Nat.eqb p q then 1%Z else 0%Z).
Example ex_err_hyp : @err_hyp Zring None (Some 1%nat) [exAns4] 1 (fun _ xs ys => exX xs ys) [2; 2]%nat [1; 1]%nat.
Proof.
  split; [exists 1%nat; split; [simpl; lia|reflexivity]|]. split; [|exact I].
  repeat split.
  - intros r b Hr Hb. destruct r as [|[|r]]; destruct b as [|[|b]]; try (simpl in *; lia); vm_compute; reflexivity.
  - intros p q Hp Hq. destruct p as [|[|p]]; destruct q as [|[|q]]; try (simpl in *; lia); vm_compute; reflexivity.
  - intros p q Hp Hq. destruct p as [|[|p]]; destruct q as [|[|q]]; try (simpl in *; lia); vm_compute; reflexivity.
Qed.
Example ex_err_value :
  @err2 Zring 1 [2; 2]%nat [1; 1]%nat (fun _ xs ys => exX xs ys)
       (fst (@of_full_aux Zring None (Some 1%nat) [exAns4] 1 (fun _ xs ys => exX xs ys) [2; 2]%nat [1; 1]%nat)) = 1%Z.
Proof. vm_compute. reflexivity. Qed.

(* 4. the selection rule of every rank reduction in the code base (model: Sweep.select) *)
Theorem C04_threshold_rule (R : cring) (gt : R -> R -> bool) (a : svd_ans R) j :
  In j (select (Some gt) None a) <-> ((j < rk a)%nat /\ gt (Sg a j) (Sg a 0%nat) = true).
Proof. exact (select_threshold_spec gt a j). Qed.
Print Assumptions C04_threshold_rule.

Theorem C04_discarded_fails_test (R : cring) (gt : R -> R -> bool) (a : svd_ans R) j :
  (j < rk a)%nat -> ~ In j (select (Some gt) None a) -> gt (Sg a j) (Sg a 0%nat) = false.
Proof. exact (discarded_fails_test gt a j). Qed.
Print Assumptions C04_discarded_fails_test.

Theorem C04_kept_indices (R : cring) (thr : option (R -> R -> bool)) (maxr : option nat) (a : svd_ans R) :
  NoDup (select thr maxr a) /\ (forall j, In j (select thr maxr a) -> (j < rk a)%nat).
Proof. exact (select_sorted thr maxr a). Qed.
Print Assumptions C04_kept_indices.

(* 5. the threshold bound, for any order relation on the scalars with the laws listed (reflexive, transitive, compatible with
   +, |z|^2 >= 0, multiplication by Tn monotone) and any boolean test gt whose failure on a non-negative singular value means
   Td s_j^2 <= Tn s_0^2  (for the code's test  s_j / s_0 > threshold :  Tn / Td = threshold^2) *)
Theorem C04_threshold_bound (R : cring) (le : R -> R -> Prop) (Tn Td : R) (gt : R -> R -> bool) :
  (forall a : R, le a a) -> (forall a b c : R, le a b -> le b c -> le a c) ->
  (forall a b c d : R, le a b -> le c d -> le (a + c) (b + d)) ->
  (forall z : R, le 0 (z * cconj R z)) ->
  (forall a b : R, le a b -> le (Tn * a) (Tn * b)) ->
  (forall a b : R, le 0 a -> gt a b = false -> le (Td * (a * a)) (Tn * (b * b))) ->
  forall ms ns answers r (res : nat -> list nat -> list nat -> R),
  length ns = length ms -> ms <> [] ->
  err_hyp (Some gt) None answers r res ms ns -> sv_nonneg le answers ->
  le (Td * err2 r ms ns res (fst (of_full_aux (Some gt) None answers r res ms ns)))
     (nmul (ndisc gt answers ms ns) (Tn * norm2 r ms ns res)).
Proof.
  intros H1 H2 H3 H4 H5 H6 ms ns answers r res.
  exact (threshold_bound le H1 H2 H3 H4 Tn Td H5 gt H6 ms ns answers r res).
Qed.
Print Assumptions C04_threshold_bound.

(* instance: integers, threshold 1/2 (keep s_j iff s_0 < 2 s_j):  4 * error^2 <= #discarded * ||x||^2 *)
Definition gtZ : Zring -> Zring -> bool := fun a b => (b <? 2 * a)%Z.
Theorem C04_threshold_bound_Z ms ns (answers : list (svd_ans Zring)) r (res : nat -> list nat -> list nat -> Zring) :
  length ns = length ms -> ms <> [] ->
  err_hyp (Some gtZ) None answers r res ms ns -> @sv_nonneg Zring Z.le answers ->
  (4 * @err2 Zring r ms ns res (fst (of_full_aux (Some gtZ) None answers r res ms ns)) <=
   @nmul Zring (@ndisc Zring gtZ answers ms ns) (1 * @norm2 Zring r ms ns res))%Z.
Proof.
  apply (C04_threshold_bound Zring Z.le 1%Z 4%Z gtZ).
  - intros a. apply Z.le_refl.
  - intros a b c. apply Z.le_trans.
  - intros a b c d H1 H2. change (a + c <= b + d)%Z. lia.
  - intros z. change (0 <= z * z)%Z. nia.
  - intros a b H. change (1 * a <= 1 * b)%Z. lia.
  - intros a b H0 H. change (0 <= a)%Z in H0. change (4 * (a * a) <= 1 * (b * b))%Z.
    unfold gtZ in H. apply Z.ltb_ge in H. nia.
Qed.
Print Assumptions C04_threshold_bound_Z.

(* non-vacuity: the example above with the threshold test instead of the rank cap: s = (2, 1), s_1 fails the test *)
Example ex_err_hyp_thr : @err_hyp Zring (Some gtZ) None [exAns4] 1 (fun _ xs ys => exX xs ys) [2; 2]%nat [1; 1]%nat
                         /\ @sv_nonneg Zring Z.le [exAns4] /\ @ndisc Zring gtZ [exAns4] [2; 2]%nat [1; 1]%nat = 1%nat.
Proof.
  split; [|split; [|reflexivity]].
  - split; [exists 1%nat; split; [simpl; lia|reflexivity]|]. split; [|exact I].
    repeat split.
    + intros r b Hr Hb. destruct r as [|[|r]]; destruct b as [|[|b]]; try (simpl in *; lia); vm_compute; reflexivity.
    + intros p q Hp Hq. destruct p as [|[|p]]; destruct q as [|[|q]]; try (simpl in *; lia); vm_compute; reflexivity.
    + intros p q Hp Hq. destruct p as [|[|p]]; destruct q as [|[|q]]; try (simpl in *; lia); vm_compute; reflexivity.
  - constructor; [|constructor]. intros p Hp. destruct p as [|[|p]]; try (simpl in Hp; lia); vm_compute; discriminate.
Qed.
