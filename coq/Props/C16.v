(* C16 — MANDy and ARR return (descend to) the least-squares coefficient tensor.
   Property theorems only.  Proved (any commutative ring with involution, all sizes):
     - C16_mandy_last: the MANDy post-processing (last core times y^T) contracts the snapshot index of the
       pseudoinverse train with y; with C05_penrose (the train built by TT.pinv is the conjugate-transposed
       Moore-Penrose pseudoinverse under the SVD hypotheses) the matricised result is (y Psi^+)^T;
     - C16_lsq_pythagoras: if c solves the normal equations of min |A c - y|, then for every c0
       |A c0 - y|^2 = |A c - y|^2 + |A (c0 - c)|^2  -- the least-squares step never increases the residual;
     - C16_arr_left_stack / C16_arr_right_stack: the snapshot-indexed environments of ARR in closed form;
     - C16_arr_frame: the fitted value on every snapshot is linear in the core being updated, with coefficient
       left stack x basis evaluation x right stack -- column j of the micro matrix handed to lstsq.  Hence the
       current iterate is a feasible point of every micro problem, and by C16_lsq_pythagoras an exact micro
       solve cannot increase the residual.
     - C16_kernel_fitted: for the kernel-based variant (coefficients z, coefficient tensor Psi z^T) the fitted values
       are z G with G = Psi^T Psi (the Gram matrix of C15_gram); when z solves z G = y they equal y, and
       y Psi^+ Psi = y for every Psi^+ with Psi Psi^+ Psi = Psi: the same fitted values as the other variants.
       (The lstsq branch - singular G - needs definiteness of the scalars and is decided by the side check.)
   PARTIAL: the composed statement "residual(repeats k+1) <= residual(repeats k)" also needs "the QR/RQ
   re-orthonormalisation keeps the old function representable" (the dropped R factor is absorbed by the next
   least-squares solve) and an order on the scalars; it is decided by the side check together with rank
   preservation and "guess unchanged".  lstsq/SVD/QR are oracles (hypothesis: normal equations / orthonormality). *)
From Coq Require Import ZArith List Lia Arith.
Import ListNotations.
Require Import Ring Sums Matrix Core Chain Sweep Regression RegressionProof KernelProof.
Open Scope cr_scope.

Theorem C16_mandy_last (R : cring) (c : core R) dout m (y : M R) i a : rr c = 1%nat ->
  chain [mandy_last c dout m y] [i] [0%nat] a 0%nat = sum m (fun j => chain [c] [j] [0%nat] a 0%nat * y i j).
Proof. exact (mandy_last_value c dout m y i a). Qed.
Print Assumptions C16_mandy_last.

Theorem C16_lsq_pythagoras (R : cring) (m n : nat) (A : M R) (c c0 y : nat -> R) :
  (forall r, (r < n)%nat -> sum m (fun j => cconj R (A j r) * resid m n A c y j) = 0) ->
  nrm2 m (resid m n A c0 y) =
  nrm2 m (resid m n A c y) + nrm2 m (fun j => sum n (fun r => A j r * (c0 r - c r))).
Proof. exact (lsq_pythagoras m n A c c0 y). Qed.
Print Assumptions C16_lsq_pythagoras.

Theorem C16_arr_left_stack (R : cring) j (pre : list (M R * core R)) (L0 : M R) fin l :
  linked (cores_of pre) fin -> (l < fin)%nat ->
  lstack_from L0 pre l j = sum (rl_of (cores_of pre) fin) (fun a => L0 a j * fit_chain pre j a l).
Proof. exact (lstack_closed j pre L0 fin l). Qed.
Print Assumptions C16_arr_left_stack.

Theorem C16_arr_right_stack (R : cring) j (suf : list (M R * core R)) (R0 : M R) fin i :
  linked (cores_of suf) fin -> (i < rl_of (cores_of suf) fin)%nat ->
  rstack_from R0 suf i j = sum fin (fun l => fit_chain suf j i l * R0 l j).
Proof. exact (rstack_closed j suf R0 fin i). Qed.
Print Assumptions C16_arr_right_stack.

Theorem C16_arr_frame (R : cring) j (pre suf : list (M R * core R)) (Th : M R) (c : core R) :
  let ps := pre ++ (Th, c) :: suf in
  linked (cores_of ps) 1%nat -> rl_of (cores_of ps) 1%nat = 1%nat ->
  fitted ps j =
  sum (rl c) (fun a => sum (md c) (fun k => sum (rr c) (fun b =>
     lstack_from ones2 pre a j * Th k j * rstack_from ones2 suf b j * g c a k 0%nat b))).
Proof. exact (arr_frame j pre suf Th c). Qed.
Print Assumptions C16_arr_frame.

Theorem C16_kernel_fitted (R : cring) (N m : nat) (Psi z y Pp : M R) i j :
  (forall i j, (j < m)%nat -> mmul m z (Gk N Psi) i j = y i j) ->
  (forall x j, mmul N (mmul m Psi Pp) Psi x j = Psi x j) -> (j < m)%nat ->
  kfitted N m Psi z i j = mmul m z (Gk N Psi) i j /\
  kfitted N m Psi z i j = y i j /\ mmul N (mmul m y Pp) Psi i j = y i j.
Proof.
  intros Hs Hp Hj. split; [exact (kb_fitted N m Psi z i j)|exact (kb_exact N m Psi z y Pp Hs Hp i j Hj)].
Qed.
Print Assumptions C16_kernel_fitted.

(* non-vacuity: the normal equations have solutions; a 2x1 instance over Z[i]: A = (1, i)^T, y = (2, 2i)^T, c = 2 *)
Definition exA : M ZIring := fun j _ => if Nat.eqb j 0 then (1, 0)%Z else (0, 1)%Z.
Definition exc : nat -> ZIring := fun _ => (2, 0)%Z.
Definition exy : nat -> ZIring := fun j => if Nat.eqb j 0 then (2, 0)%Z else (0, 2)%Z.
Example ex_normal_equations :
  forall r, (r < 1)%nat -> sum 2 (fun j => cconj ZIring (exA j r) * resid 2 1 exA exc exy j) = c0 ZIring.
Proof. intros [|r] Hr; [vm_compute; reflexivity | lia]. Qed.

(* non-vacuity of C16_kernel_fitted: Psi = [[1,2],[0,1]] (invertible, Psi^+ = Psi^-1 = [[1,-2],[0,1]]), z = [1,1] *)
Definition exPsi : M Zring := fun x j => match x, j with 0%nat, 0%nat => 1%Z | 0%nat, 1%nat => 2%Z | 1%nat, 1%nat => 1%Z | _, _ => 0%Z end.
Definition exPp : M Zring := fun j x => match j, x with 0%nat, 0%nat => 1%Z | 0%nat, 1%nat => (-2)%Z | 1%nat, 1%nat => 1%Z | _, _ => 0%Z end.
Definition exz : M Zring := fun _ _ => 1%Z.
Example ex_kernel_hyps :
  (forall x j, (x < 2)%nat -> (j < 2)%nat -> mmul 2 (mmul 2 exPsi exPp) exPsi x j = exPsi x j) /\
  mmul 2 exz (Gk 2 exPsi) 0%nat 1%nat = 7%Z.
Proof. split; [intros [|[|x]] [|[|j]] Hx Hj; try lia; vm_compute; reflexivity | vm_compute; reflexivity]. Qed.
