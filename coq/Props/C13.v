(* C13 — bundled models are generators, unitaries or Hermitian for all parameters.
   Property theorems only.  Proved, for every commutative ring with involution:
     - C13_pattern_generator: a SLIM pattern (open or cyclic, any order, any cell sizes and bond ranks) whose
       single-site blocks and left-coupling blocks have vanishing column sums has vanishing column sums;
     - C13_cascade_generator: signaling_cascade(d) has vanishing column sums for every d >= 2, every cell size n
       (64 in the code), every pair of rates and every propensity table, including the boundary corrections
       s_mat_0[-1,-1] and m_mat[-1,-1];
     - C13_two_step_generator: two_step_destruction has vanishing column sums for all rates k1, k2, k3 and all
       cell sizes (2^m, 2^(m+1), 2^m, 2^m in the code), including the absorbing corner entries;
     - C13_ising_value: ising(d, J, h) equals -J sum s_i s_{i+1} - h sum s_i for every d >= 2;
     - C13_exciton_value: exciton_chain(n, alpha, beta) is the cyclic nearest-neighbour sum of C12 with blocks
       alpha n, beta a+, beta a / a, a+ for every n >= 2.
     - C13_pattern_offdiag / C13_cascade_offdiag: SIGN CONDITION.  If the off-diagonal entries of the single-site blocks and
       of the nearest-neighbour couplings lie in an additive cone P (0 in P, closed under +), every off-diagonal entry of the
       open-chain pattern operator lies in P; signaling_cascade(d) meets this for every d, cell size, rates and propensity
       table in a cone closed under products (P = "non-negative": off-diagonals >= 0; instance over Z below).
     - C13_two_step_offdiag: the same sign condition for two_step_destruction (given core by core, ranks 3, 5, 3): its
       entries are an explicit sum of five Kronecker terms (two_step_value) and every off-diagonal entry lies in every
       cone containing 0, 1 and the rates and closed under + and *, for all cell sizes.
   PARTIAL / outside the proof: non-negativity of the off-diagonals of the
   SLIM-built models co_oxidation and toll_station beyond C12's pattern theorem (their super-core SVD is an oracle),
   unitarity of qfa/qfan/shor/qft/iqft, "QFT groups multiply to the bit-reversed DFT" (roots of unity),
   FPU/Kuramoto right-hand sides and the fractals: decided by the side check (search) in harness/props/c13.py. *)
From Coq Require Import ZArith List Lia Arith.
Import ListNotations.
Require Import Ring Sums Matrix Core Chain Sweep Slim SlimProof GeneratorProof Models ModelsProof OffdiagProof TwoStepOffdiag.
Open Scope cr_scope.

Theorem C13_pattern_generator (R : cring) rc (s0 s1 : site R) rest ys :
  let ss := s0 :: s1 :: rest in
  below ys (dimsof ss) -> Szero ss -> Mzero ss ->
  (forall q y, (q < rc)%nat -> (y < sdim s0)%nat -> csum (sdim s0) (sM s0 q) y = 0) ->
  msum (dimsof ss) (fun xs => elem (slim_pattern rc ss) xs ys) = 0.
Proof. exact (slim_pattern_colsum rc s0 s1 rest ys). Qed.
Print Assumptions C13_pattern_generator.

Theorem C13_cascade_generator (R : cring) (n : nat) (a c : R) (l : nat -> R) d ys :
  below ys (dimsof (cascade_sites n a c l d)) ->
  msum (dimsof (cascade_sites n a c l d)) (fun xs => elem (signaling_cascade n a c l d) xs ys) = 0.
Proof. exact (cascade_generator n a c l d ys). Qed.
Print Assumptions C13_cascade_generator.

Theorem C13_two_step_generator (R : cring) (k1 k2 k3 : R) n0 n1 n2 n3 y0 y1 y2 y3 :
  (y0 < n0)%nat -> (y1 < n1)%nat -> (y2 < n2)%nat -> (y3 < n3)%nat ->
  msum [n0; n1; n2; n3] (fun xs => elem (two_step_destruction k1 k2 k3 n0 n1 n2 n3) xs [y0; y1; y2; y3]) = 0.
Proof. exact (two_step_generator k1 k2 k3 n0 n1 n2 n3 y0 y1 y2 y3). Qed.
Print Assumptions C13_two_step_generator.

Theorem C13_ising_value (R : cring) (J h : R) k x xs : length xs = S k ->
  elem (ising (S (S k)) J h) (x :: xs) (repeat 0%nat (S (S k))) = ising_energy J h (x :: xs).
Proof. exact (ising_value J h k x xs). Qed.
Print Assumptions C13_ising_value.

Theorem C13_exciton_value (R : cring) (alpha beta : R) k x y xs ys :
  length xs = S k -> length ys = S k ->
  elem (exciton_chain alpha beta (S (S k))) (x :: xs) (y :: ys) =
  Tsum (repeat (exc_site alpha beta) (S (S k))) (x :: xs) (y :: ys) +
  sum 2 (fun q => sM (exc_site alpha beta) q x y * cycL (repeat (exc_site alpha beta) (S k)) q xs ys).
Proof. exact (exciton_value alpha beta k x y xs ys). Qed.
Print Assumptions C13_exciton_value.

Theorem C13_pattern_offdiag (R : cring) (P : R -> Prop) (P0 : P 0) (Padd : forall a b, P a -> P b -> P (a + b))
        (ss : list (site R)) xs ys :
  length xs = length ss -> length ys = length ss -> xs <> ys -> S_ok P ss -> pair_ok P ss -> P (Tsum ss xs ys).
Proof. exact (Tsum_offdiag_cone P P0 Padd ss xs ys). Qed.
Print Assumptions C13_pattern_offdiag.

Theorem C13_cascade_offdiag (R : cring) (P : R -> Prop) (P0 : P 0) (Padd : forall a b, P a -> P b -> P (a + b))
        (P1 : P 1) (Pmul : forall a b, P a -> P b -> P (a * b)) (n : nat) (a c : R) (l : nat -> R) d xs ys :
  P a -> P c -> (forall y, P (l y)) ->
  length xs = length (cascade_sites n a c l d) -> length ys = length (cascade_sites n a c l d) -> xs <> ys ->
  P (elem (signaling_cascade n a c l d) xs ys).
Proof. intros Pa Pc Pl. exact (cascade_offdiag P P0 Padd P1 Pmul n a c l Pa Pc Pl d xs ys). Qed.
Print Assumptions C13_cascade_offdiag.

Theorem C13_two_step_offdiag (R : cring) (P : R -> Prop) (P0 : P 0) (Padd : forall a b, P a -> P b -> P (a + b))
        (P1 : P 1) (Pmul : forall a b, P a -> P b -> P (a * b)) (k1 k2 k3 : R) (n0 n1 n2 n3 : nat) x0 x1 x2 x3 y0 y1 y2 y3 :
  P k1 -> P k2 -> P k3 -> [x0; x1; x2; x3] <> [y0; y1; y2; y3] ->
  P (elem (two_step_destruction k1 k2 k3 n0 n1 n2 n3) [x0; x1; x2; x3] [y0; y1; y2; y3]).
Proof. intros Pk1 Pk2 Pk3. exact (two_step_offdiag k1 k2 k3 n0 n1 n2 n3 P P0 Padd P1 Pmul Pk1 Pk2 Pk3 x0 x1 x2 x3 y0 y1 y2 y3). Qed.
Print Assumptions C13_two_step_offdiag.

Theorem C13_two_step_offdiag_Z (k1 k2 k3 : Z) (n0 n1 n2 n3 : nat) x0 x1 x2 x3 y0 y1 y2 y3 :
  (0 <= k1)%Z -> (0 <= k2)%Z -> (0 <= k3)%Z -> [x0; x1; x2; x3] <> [y0; y1; y2; y3] ->
  (0 <= elem (@two_step_destruction Zring k1 k2 k3 n0 n1 n2 n3) [x0; x1; x2; x3] [y0; y1; y2; y3])%Z.
Proof.
  intros H1 H2 H3.
  apply (C13_two_step_offdiag Zring (fun z => (0 <= z)%Z)); try assumption.
  - apply Z.le_refl.
  - intros u v Hu Hv. change (0 <= u + v)%Z. lia.
  - change (0 <= 1)%Z. lia.
  - intros u v Hu Hv. change (0 <= u * v)%Z. nia.
Qed.
Print Assumptions C13_two_step_offdiag_Z.

(* instance over the integers: non-negative rates give non-negative off-diagonal entries *)
Theorem C13_cascade_offdiag_Z (n : nat) (a c : Z) (l : nat -> Z) d xs ys :
  (0 <= a)%Z -> (0 <= c)%Z -> (forall y, 0 <= l y)%Z ->
  length xs = length (@cascade_sites Zring n a c l d) -> length ys = length (@cascade_sites Zring n a c l d) -> xs <> ys ->
  (0 <= elem (@signaling_cascade Zring n a c l d) xs ys)%Z.
Proof.
  intros Ha Hc Hl.
  apply (C13_cascade_offdiag Zring (fun z => (0 <= z)%Z)); try assumption.
  - apply Z.le_refl.
  - intros u v Hu Hv. change (0 <= u + v)%Z. lia.
  - change (0 <= 1)%Z. lia.
  - intros u v Hu Hv. change (0 <= u * v)%Z. nia.
Qed.
Print Assumptions C13_cascade_offdiag_Z.

(* non-vacuity: a 3-species cascade with 3 cell states over the integers; all 27 column sums vanish, and the
   operator is not zero *)
Example ex_cascade_nonzero :
  elem (@signaling_cascade ZIring 3 (7, 0)%Z (2, 0)%Z (fun y => (Z.of_nat y, 0)%Z) 3) [1; 0; 0]%nat [0; 0; 0]%nat = (7, 0)%Z.
Proof. vm_compute. reflexivity. Qed.
Example ex_cascade_below : below [2; 1; 0]%nat (dimsof (@cascade_sites ZIring 3 (7, 0)%Z (2, 0)%Z (fun y => (Z.of_nat y, 0)%Z) 3)).
Proof. cbn. lia. Qed.
Example ex_ising : elem (@ising ZIring 3 (2, 0)%Z (5, 0)%Z) [0; 1; 1]%nat [0; 0; 0]%nat = (5, 0)%Z.
Proof. vm_compute. reflexivity. Qed.

(* non-vacuity: an off-diagonal entry of two_step_destruction(k1=2, k2=3, k3=5) with cell sizes 2, 4, 2, 2 is positive *)
Example ex_two_step_off : elem (@two_step_destruction Zring 2%Z 3%Z 5%Z 2 4 2 2) [0; 0; 0; 0]%nat [0; 0; 0; 1]%nat = 5%Z.
Proof. vm_compute. reflexivity. Qed.
