(* C07 — ALS/MALS linear solvers: energy descent, fixed point, exactness at full rank.
   Property theorems only.
   PARTIAL.  Proved (every system size, frame and scalar ring with involution):
     - Galerkin descent: a solution y of the projected micro system P^H A P y = P^H b minimises the
       energy-norm error over the range of the frame P, with the exact excess (P(z-y))^H A (P(z-y));
       in particular the error never exceeds that of any other element of the range (descent,
       fixed point: if x* = P z then e(P y) = 0 ... see corollaries);
     - the right environment built core by core by sle.__construct_stack_right_op equals, for every
       order, dimension and rank vector, the sum over all indices of the cores to its right of
       X(ys)[s,0] * A(xs,ys)[r,0] * conj X(xs)[c,0]  -- i.e. the stacks are the contractions the
       projection P^H A P consists of, with the conjugate on the operator's ROW index.
     - the LEFT environment, started from any environment L0 and pushed through a block of cores, is L0 contracted with
       the transfer kernel of that block (sum over all indices of X(ys)[s,s'] A(xs,ys)[r,r'] conj X(xs)[c,c']);
     - FRAME IDENTITY: the entry ((c,x,c'),(s,y,s')) of the micro matrix that sle.__construct_micro_matrix_als hands to the
       solver equals  sum_{r,r'} Kernel_left[s,r,c] * A_i[r,x,y,r'] * RightProd[s',r',c'],  i.e. micro_op = P^H A P with
       P the frame spanned by the solution cores left and right of position i (every order, position, dimension, rank).
     - the same frame identity for the two-site micro matrix of MALS (and of two-site TDVP): sum over r, rm, r' of
       Kernel_left * A_i[r,x1,y1,rm] * A_{i+1}[rm,x2,y2,r'] * RightProd.
     - the right-hand-side environments in closed form and the frame identity  micro_rhs = P^H b  (the projected deflation
       tensors of evp.als have the same form).  Together with the Galerkin identity: every micro step solves the Galerkin
       system of the current frame, so it cannot increase the energy-norm error.
   NOT proved here (model + oracle-tape correspondence + side check only): the bookkeeping that composes these facts over
   whole sweeps (flattening of the multi-indices, QR/RQ gauge changes keep the iterate).
     - EXACTNESS AT MAXIMAL RANKS (C07_full_rank_exact): when the frame is unitary on the whole space (P P^H = I, the situation
       at maximal TT ranks), a solution of the micro system P^H A P y = P^H b gives A (P y) = b.
     - FIXED POINT (C07_fixed_point): if the current iterate x = P y0 solves A x = b, its coefficients y0 solve the micro
       system P^H A P y = P^H b at every position (any frame), so a non-singular micro solve returns the core unchanged.
   Known findings F16/F16b: MALS with an active max_rank is not monotone. *)
From Coq Require Import ZArith List Lia Arith.
Import ListNotations.
Require Import Ring Sums Matrix Core Chain TensordotProof Env EnvProof Galerkin FrameProof FrameProof2 RhsFrameProof FullRankProof FixedPoint.
Open Scope cr_scope.

Theorem C07_galerkin_descent (R : cring) (N : nat) (A : nat -> nat -> R)
  (A_herm : forall i j, A i j = cconj R (A j i)) (K : nat) (P : nat -> nat -> R) (b xs y : nat -> R)
  (A_xs : forall i, (i < N)%nat -> sum N (fun j => A i j * xs j) = b i)
  (galerkin : forall k, (k < K)%nat ->
     sum N (fun i => cconj R (P i k) * sum N (fun j => A i j * app K P y j)) = sum N (fun i => cconj R (P i k) * b i))
  (z : nat -> R) :
  err N A xs (app K P z) =
  err N A xs (app K P y) + bil N A (vsub (app K P z) (app K P y)) (vsub (app K P z) (app K P y)).
Proof. exact (galerkin_descent N A A_herm K P b xs A_xs y galerkin z). Qed.
Print Assumptions C07_galerkin_descent.

Theorem C07_galerkin_le (R : cring) (N : nat) (A : nat -> nat -> R)
  (A_herm : forall i j, A i j = cconj R (A j i)) (K : nat) (P : nat -> nat -> R) (b xs y : nat -> R)
  (A_xs : forall i, (i < N)%nat -> sum N (fun j => A i j * xs j) = b i)
  (galerkin : forall k, (k < K)%nat ->
     sum N (fun i => cconj R (P i k) * sum N (fun j => A i j * app K P y j)) = sum N (fun i => cconj R (P i k) * b i))
  (nonneg : R -> Prop) (A_psd : forall v, nonneg (bil N A v v)) (z : nat -> R) :
  nonneg (err N A xs (app K P z) - err N A xs (app K P y)).
Proof. exact (galerkin_le N A A_herm K P b xs A_xs y galerkin nonneg A_psd z). Qed.
Print Assumptions C07_galerkin_le.

Theorem C07_right_stack (R : cring) (Xs As : list (core R)) s r c :
  length As = length Xs -> linked Xs 1%nat -> linked As 1%nat ->
  (s < rl_of Xs 1)%nat -> (r < rl_of As 1)%nat -> (c < rl_of Xs 1)%nat ->
  f3 (rstack Xs As) s r c = RightProd Xs As s r c.
Proof. exact (rstack_closed Xs As s r c). Qed.
Print Assumptions C07_right_stack.

(* non-vacuity: a 2x2 Hermitian system over Z[i], frame = first unit vector, Galerkin solution y = (1) *)
Example ex_galerkin_instance :
  let A : nat -> nat -> ZIring := fun i j => match i, j with 0%nat, 0%nat => (2, 0)%Z | 1%nat, 1%nat => (3, 0)%Z | 0%nat, 1%nat => (0, 1)%Z | 1%nat, 0%nat => (0, -1)%Z | _, _ => (0, 0)%Z end in
  (forall i j, (i < 2)%nat -> (j < 2)%nat -> A i j = cconj ZIring (A j i)).
Proof. intros A i j Hi Hj. destruct i as [|[|i]]; destruct j as [|[|j]]; try lia; reflexivity. Qed.

Theorem C07_left_stack (R : cring) (Xs As : list (core R)) (L0 : st3 R) fx fa s' r' c' :
  length As = length Xs -> linked Xs fx -> linked As fa ->
  a1 L0 = rl_of Xs fx -> a2 L0 = rl_of As fa -> a3 L0 = rl_of Xs fx ->
  (s' < fx)%nat -> (r' < fa)%nat -> (c' < fx)%nat ->
  f3 (lstack_from L0 Xs As) s' r' c' =
  sum (a3 L0) (fun c => sum (a2 L0) (fun r => sum (a1 L0) (fun s => f3 L0 s r c * Kernel Xs As s r c s' r' c'))).
Proof. exact (lstack_from_closed Xs As L0 fx fa s' r' c'). Qed.
Print Assumptions C07_left_stack.

Theorem C07_frame (R : cring) (Xp Ap Xs As : list (core R)) (A : core R) fx c x c' s y s' :
  length Ap = length Xp -> linked Xp fx -> linked Ap (rl A) -> rl_of Xp fx = 1%nat -> rl_of Ap (rl A) = 1%nat ->
  length As = length Xs -> linked Xs 1%nat -> linked As 1%nat -> rl_of As 1%nat = rr A ->
  (c < fx)%nat -> (s < fx)%nat -> (c' < rl_of Xs 1)%nat -> (s' < rl_of Xs 1)%nat -> (x < md A)%nat -> (y < nd A)%nat ->
  snd (micro_op_als (lstack_from one3 Xp Ap) (rstack Xs As) A fx (rl_of Xs 1%nat))
      ((c * md A + x) * rl_of Xs 1%nat + c')%nat ((s * nd A + y) * rl_of Xs 1%nat + s')%nat =
  sum (rl A) (fun r => sum (rr A) (fun r' => Kernel Xp Ap 0%nat 0%nat 0%nat s r c * g A r x y r' * RightProd Xs As s' r' c')).
Proof. exact (frame_als Xp Ap Xs As A fx c x c' s y s'). Qed.
Print Assumptions C07_frame.

Theorem C07_frame_mals (R : cring) (Xp Ap Xs As : list (core R)) (A1 A2 : core R) fx c x1 x2 c' s y1 y2 s' :
  length Ap = length Xp -> linked Xp fx -> linked Ap (rl A1) -> rl_of Xp fx = 1%nat -> rl_of Ap (rl A1) = 1%nat ->
  length As = length Xs -> linked Xs 1%nat -> linked As 1%nat -> rl_of As 1%nat = rr A2 ->
  (c < fx)%nat -> (s < fx)%nat -> (c' < rl_of Xs 1)%nat -> (s' < rl_of Xs 1)%nat ->
  (x1 < md A1)%nat -> (y1 < nd A1)%nat -> (x2 < md A2)%nat -> (y2 < nd A2)%nat ->
  snd (micro_op_mals (lstack_from one3 Xp Ap) (rstack Xs As) A1 A2 fx (rl_of Xs 1%nat))
      (((c * md A1 + x1) * md A2 + x2) * rl_of Xs 1%nat + c')%nat (((s * nd A1 + y1) * nd A2 + y2) * rl_of Xs 1%nat + s')%nat =
  sum (rl A1) (fun r => sum (rr A1) (fun rm => sum (rr A2) (fun r' =>
    Kernel Xp Ap 0%nat 0%nat 0%nat s r c * g A1 r x1 y1 rm * g A2 rm x2 y2 r' * RightProd Xs As s' r' c'))).
Proof. exact (frame_mals Xp Ap Xs As A1 A2 fx c x1 x2 c' s y1 y2 s'). Qed.
Print Assumptions C07_frame_mals.

Theorem C07_frame_rhs (R : cring) (Xp Bp Xs Bs : list (core R)) (B : core R) fx c x c' :
  length Bp = length Xp -> linked Xp fx -> linked Bp (rl B) -> rl_of Xp fx = 1%nat -> rl_of Bp (rl B) = 1%nat ->
  length Bs = length Xs -> linked Xs 1%nat -> linked Bs 1%nat -> rl_of Bs 1%nat = rr B ->
  (c < fx)%nat -> (c' < rl_of Xs 1)%nat -> (x < md B)%nat ->
  snd (micro_rhs_als (lstack2_from one2 Xp Bp) (rstack2 Xs Bs) B fx (rl_of Xs 1%nat)) ((c * md B + x) * rl_of Xs 1%nat + c')%nat 0%nat =
  sum (rl B) (fun be => sum (rr B) (fun be' => Kernel2 Xp Bp 0%nat 0%nat be c * g B be x 0%nat be' * RightProd2 Xs Bs be' c')).
Proof. exact (frame_rhs_als Xp Bp Xs Bs B fx c x c'). Qed.
Print Assumptions C07_frame_rhs.

(* exactness at maximal ranks: a unitary frame turns the micro solution into the solution of the full system *)
Theorem C07_full_rank_exact (R : cring) (n r : nat) (P A : M R) (b y : nat -> R) :
  (forall i j, (i < n)%nat -> (j < n)%nat -> sum r (fun k => P i k * cconj R (P j k)) = delta i j) ->
  (forall k, (k < r)%nat -> sum r (fun l => microM n P A k l * y l) = sum n (fun i => cconj R (P i k) * b i)) ->
  forall i, (i < n)%nat -> sum n (fun j => A i j * lift r P y j) = b i.
Proof. intros H. exact (full_rank_solve n r P A H b y). Qed.
Print Assumptions C07_full_rank_exact.

(* non-vacuity: the 2 x 2 permutation frame over Z is unitary; the micro solution of a concrete system solves it *)
Example ex_full_rank :
  let P : M Zring := fun i k => if Nat.eqb (i + k) 1 then 1%Z else 0%Z in
  let A : M Zring := fun i j => match i, j with 0%nat, 0%nat => 2 | 0%nat, 1%nat => 1 | 1%nat, 0%nat => 1 | 1%nat, 1%nat => 1 | _, _ => 0 end%Z in
  (forall i j, (i < 2)%nat -> (j < 2)%nat -> @sum Zring 2 (fun k => (P i k * P j k)%Z) = @delta Zring i j) /\
  map (fun i => @sum Zring 2 (fun j => (A i j * @lift Zring 2 P (fun l => if Nat.eqb l 0 then 1%Z else 2%Z) j)%Z)) [0%nat; 1%nat] = [5%Z; 3%Z].
Proof.
  split.
  - intros i j Hi Hj. destruct i as [|[|i]]; destruct j as [|[|j]]; try lia; vm_compute; reflexivity.
  - vm_compute. reflexivity.
Qed.

(* fixed point: an iterate x = P y0 that solves A x = b satisfies every micro system (P^H A P) y = P^H b it meets (any frame P) *)
Theorem C07_fixed_point (R : cring) (n r : nat) (P A : M R) (y0 b : nat -> R) :
  (forall i, (i < n)%nat -> sum n (fun j => A i j * lift r P y0 j) = b i) ->
  forall k, sum r (fun l => microM n P A k l * y0 l) = sum n (fun i => cconj R (P i k) * b i).
Proof. exact (fixed_point_solve n r P A y0 b). Qed.
Print Assumptions C07_fixed_point.
