(* C01 — property theorems only.  Each is closed by [exact] of a lemma from Proofs/ or TT/. *)
From Coq Require Import ZArith List Lia Arith.
Import ListNotations.
Require Import Ring Sums Matrix Core Chain.

Theorem C01_matmul (R : cring) (cs ds : list (core R)) xs zs :
  length ds = length cs -> length xs = length cs -> length zs = length cs ->
  linked ds 1%nat -> rl_pos ds ->
  elem (tmul cs ds) xs zs = msum (cols cs) (fun ys => (elem cs xs ys * elem ds ys zs)%cr).
Proof. exact (elem_tmul cs ds xs zs). Qed.
Print Assumptions C01_matmul.
