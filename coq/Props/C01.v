(* C01 — TT arithmetic equals dense linear algebra.  Property theorems only: each is closed by
   [exact] of a lemma from TT/ or Proofs/, followed by Print Assumptions.
   R ranges over every commutative ring with involution (instances: Z, Z[i]; the reals and
   complex numbers satisfy the same laws); orders, mode sizes and ranks are unbounded.
   [elem cs xs ys] IS the dense tensor entry: the (0,0) entry of the product of the rank
   matrices selected by the indices (first sentence of the property). *)
From Coq Require Import ZArith List Lia Arith.
Import ListNotations.
Require Import Ring Sums Matrix Core Chain TTOps AddProof OpsProof Sweep SweepProof TensordotProof NormProof HodProof FullProof.
Open Scope cr_scope.

(* t + u *)
Theorem C01_add (R : cring) (cs es : list (core R)) xs ys :
  cs <> [] -> length es = length cs -> length xs = length cs -> length ys = length cs ->
  wf cs -> wf es ->
  elem (tadd cs es) xs ys = elem cs xs ys + elem es xs ys.
Proof. exact (elem_tadd cs es xs ys). Qed.
Print Assumptions C01_add.

Theorem C01_add_wf (R : cring) (cs es : list (core R)) :
  cs <> [] -> length es = length cs -> wf cs -> wf es -> wf (tadd cs es).
Proof. exact (wf_tadd cs es). Qed.
Print Assumptions C01_add_wf.

(* t - u *)
Theorem C01_sub (R : cring) (cs es : list (core R)) xs ys :
  cs <> [] -> length es = length cs -> length xs = length cs -> length ys = length cs ->
  wf cs -> wf es ->
  elem (tsub cs es) xs ys = elem cs xs ys - elem es xs ys.
Proof. exact (elem_tsub cs es xs ys). Qed.
Print Assumptions C01_sub.

(* s * t, t * s *)
Theorem C01_smul (R : cring) (s : R) (cs : list (core R)) xs ys :
  cs <> [] -> length xs = length cs -> length ys = length cs ->
  elem (smul s cs) xs ys = s * elem cs xs ys.
Proof. exact (elem_smul s cs xs ys). Qed.
Print Assumptions C01_smul.

(* t @ u : sum over the shared indices *)
Theorem C01_matmul (R : cring) (cs ds : list (core R)) xs zs :
  length ds = length cs -> length xs = length cs -> length zs = length cs ->
  linked ds 1%nat -> rl_pos ds ->
  elem (tmul cs ds) xs zs = msum (cols cs) (fun ys => elem cs xs ys * elem ds ys zs).
Proof. exact (elem_tmul cs ds xs zs). Qed.
Print Assumptions C01_matmul.

Theorem C01_matmul_linked (R : cring) (cs ds : list (core R)) f1 f2 :
  length ds = length cs -> linked cs f1 -> linked ds f2 -> linked (tmul cs ds) (f1 * f2).
Proof. exact (linked_tmul cs ds f1 f2). Qed.
Print Assumptions C01_matmul_linked.

(* full() / matricize(): the flattened dense array is row-major in the row multi-index (outer) and the column multi-index
   (inner); its entries are the elem values *)
Theorem C01_full_index (R : cring) (cs : list (core R)) xs ys :
  below xs (rows cs) -> below ys (cols cs) ->
  nth (ravel (rows cs) xs * prodn (cols cs) + ravel (cols cs) ys) (full_flat cs) 0 = elem cs xs ys.
Proof. exact (full_flat_nth cs xs ys). Qed.
Print Assumptions C01_full_index.

Theorem C01_full_size (R : cring) (cs : list (core R)) : length (full_flat cs) = (prodn (rows cs) * prodn (cols cs))%nat.
Proof. exact (full_flat_length cs). Qed.
Print Assumptions C01_full_size.

(* residual_error: the tensor whose norm is taken, (A @ x) - b, entry by entry *)
Theorem C01_residual (R : cring) (A x b : list (core R)) xs zs :
  A <> [] -> length x = length A -> length b = length A -> length xs = length A -> length zs = length A ->
  wf A -> wf x -> wf b ->
  elem (tsub (tmul A x) b) xs zs = msum (cols A) (fun ys => elem A xs ys * elem x ys zs) - elem b xs zs.
Proof. exact (residual_dense A x b xs zs). Qed.
Print Assumptions C01_residual.

(* transpose of all cores, with or without conjugation *)
Theorem C01_transpose (R : cring) cj (cs : list (core R)) xs ys : length xs = length ys ->
  elem (ttranspose cj (repeat true (length cs)) cs) xs ys =
  if cj then cconj R (elem cs ys xs) else elem cs ys xs.
Proof. exact (elem_transpose_all cj cs xs ys). Qed.
Print Assumptions C01_transpose.

(* transpose of a subset of the cores exchanges exactly the selected index pairs *)
Theorem C01_transpose_subset (R : cring) (cs : list (core R)) sel xs ys i j :
  length sel = length cs -> length xs = length cs -> length ys = length cs ->
  chain (ttranspose false sel cs) xs ys i j = chain cs (pick sel ys xs) (pick sel xs ys) i j.
Proof. exact (chain_ttranspose cs sel xs ys i j). Qed.
Print Assumptions C01_transpose_subset.

(* conj *)
Theorem C01_conj (R : cring) (cs : list (core R)) xs ys :
  elem (tconj cs) xs ys = cconj R (elem cs xs ys).
Proof. exact (elem_tconj cs xs ys). Qed.
Print Assumptions C01_conj.

(* norm(p=1): the core-wise row sums denote the column sums of the tensor *)
Theorem C01_colsums (R : cring) (cs : list (core R)) ys i j : length ys = length cs ->
  chain (map sumrows_core cs) (repeat 0%nat (length cs)) ys i j =
  msum (rows cs) (fun xs => chain cs xs ys i j).
Proof. exact (chain_sumrows cs ys i j). Qed.
Print Assumptions C01_colsums.

(* eye, unit, zeros *)
Theorem C01_eye (R : cring) dims xs ys : length xs = length dims -> length ys = length dims ->
  elem (@teye R dims) xs ys = rprod (map (fun p => dlt (fst p) (snd p)) (combine xs ys)).
Proof. exact (elem_teye dims xs ys). Qed.
Print Assumptions C01_eye.

Theorem C01_unit (R : cring) dims inds xs : length inds = length dims -> length xs = length dims ->
  elem (@tunit R dims inds) xs (repeat 0%nat (length dims)) =
  rprod (map (fun p => dlt (fst p) (snd p)) (combine xs inds)).
Proof. exact (elem_tunit dims inds xs). Qed.
Print Assumptions C01_unit.

Theorem C01_zeros (R : cring) rs ms ns xs ys :
  @tzeros R rs ms ns <> [] -> length xs = length (@tzeros R rs ms ns) -> length ys = length (@tzeros R rs ms ns) ->
  elem (@tzeros R rs ms ns) xs ys = 0.
Proof. exact (elem_tzeros rs ms ns xs ys). Qed.
Print Assumptions C01_zeros.

(* ---- non-vacuity: concrete order-1, order-2 and complex instances meet the hypotheses ---- *)
Definition ex_c1 : core ZIring := @mkcore ZIring 1 2 1 2 (fun _ x _ b => (Z.of_nat (x + 2 * b + 1), 1%Z)).
Definition ex_c2 : core ZIring := @mkcore ZIring 2 2 1 1 (fun a x _ _ => (Z.of_nat (3 * a + x), (-2)%Z)).
Definition ex_v1 : core ZIring := @mkcore ZIring 1 3 1 1 (fun _ x _ _ => (Z.of_nat x, 5%Z)).
Example ex_wf2 : wf [ex_c1; ex_c2] /\ wf [ex_v1].
Proof. repeat split; simpl; lia. Qed.
Example ex_add_order1 :
  elem (tadd [ex_v1] [ex_v1]) [2%nat] [0%nat] = (4, 10)%Z.
Proof. vm_compute. reflexivity. Qed.
Example ex_add_order2 :
  elem (tadd [ex_c1; ex_c2] [ex_c1; ex_c2]) [1%nat; 1%nat] [0%nat; 0%nat] =
  (elem [ex_c1; ex_c2] [1%nat; 1%nat] [0%nat; 0%nat] + elem [ex_c1; ex_c2] [1%nat; 1%nat] [0%nat; 0%nat]).
Proof. vm_compute. reflexivity. Qed.

(* norm(p=2): the code right-orthonormalises a copy (C03: the tensor is unchanged, the cores to the right of the first one
   become right isometries) and returns numpy's norm of the first core.  For such a train the sum of |entry|^2 over ALL
   entries equals the sum of |.|^2 over the first core: the radicand is the squared Euclidean norm of the tensor. *)
Theorem C01_norm2_first_core (R : cring) (c : core R) (rest : list (core R)) :
  Forall right_iso rest -> linked (c :: rest) 1%nat ->
  dsum (rows (c :: rest)) (cols (c :: rest))
       (fun xs ys => chain (c :: rest) xs ys 0%nat 0%nat * cconj R (chain (c :: rest) xs ys 0%nat 0%nat)) =
  sum (md c) (fun x => sum (nd c) (fun y => sum (rr c) (fun b => g c 0%nat x y b * cconj R (g c 0%nat x y b)))).
Proof. exact (norm2_from_first_core c rest). Qed.
Print Assumptions C01_norm2_first_core.
