(* Matrices as functions nat -> nat -> R; products, Kronecker products. *)
From Coq Require Import ZArith List Lia Ring Arith.
Import ListNotations.
Require Import Ring Sums.

Section Matrix.
Context {R : cring}.
Add Ring Rr2 : (cring_th R).
Open Scope cr_scope.

Definition M := nat -> nat -> R.
Definition mmul (n : nat) (A B : M) : M := fun i j => sum n (fun k => A i k * B k j).
Definition delta : M := fun i j => if Nat.eqb i j then 1 else 0.
Definition mtr (A : M) : M := fun i j => A j i.
Definition mconj (A : M) : M := fun i j => cconj R (A i j).
Definition kron (s1 s2 : nat) (A B : M) : M :=
  fun i j => A (i / s1)%nat (j / s2)%nat * B (i mod s1)%nat (j mod s2)%nat.

Lemma mmul_ext n A A' B B' i j :
  (forall k, (k < n)%nat -> A i k = A' i k) -> (forall k, (k < n)%nat -> B k j = B' k j) ->
  mmul n A B i j = mmul n A' B' i j.
Proof. intros HA HB. unfold mmul. apply sum_ext; intros k Hk. rewrite HA, HB by assumption. reflexivity. Qed.

Lemma mmul_assoc n p A B C i j :
  mmul p (mmul n A B) C i j = mmul n A (mmul p B C) i j.
Proof.
  unfold mmul.
  erewrite sum_ext by (intros; rewrite <- sum_scal_r; reflexivity).
  rewrite sum_swap. apply sum_ext; intros k _.
  rewrite <- sum_scal_l. apply sum_ext; intros; ring.
Qed.

Lemma mmul_delta_l n A i j : (i < n)%nat -> mmul n delta A i j = A i j.
Proof.
  intros H. unfold mmul, delta.
  rewrite (sum_ext n _ (fun k => if Nat.eqb k i then A k j else 0)).
  - apply (sum_single n i (fun k => A k j)); assumption.
  - intros k _. rewrite Nat.eqb_sym. destruct (Nat.eqb k i) eqn:E; [|ring].
    apply Nat.eqb_eq in E; subst; ring.
Qed.
Lemma mmul_delta_r n A i j : (j < n)%nat -> mmul n A delta i j = A i j.
Proof.
  intros H. unfold mmul, delta.
  rewrite (sum_ext n _ (fun k => if Nat.eqb k j then A i k else 0)).
  - apply (sum_single n j (fun k => A i k)); assumption.
  - intros k _. destruct (Nat.eqb k j) eqn:E; [|ring].
    apply Nat.eqb_eq in E; subst; ring.
Qed.

Lemma div_mod_unique_l b s e : (e < s)%nat -> ((b * s + e) / s = b)%nat.
Proof. intros H. rewrite Nat.add_comm, Nat.div_add by lia. rewrite Nat.div_small by lia. lia. Qed.
Lemma div_mod_unique_r b s e : (e < s)%nat -> ((b * s + e) mod s = e)%nat.
Proof. intros H. rewrite Nat.add_comm, Nat.mod_add by lia. apply Nat.mod_small; lia. Qed.

Lemma kron_mixed r2 s1 s2 s3 (A B C D : M) i j : (0 < s2)%nat ->
  mmul (r2 * s2) (kron s1 s2 A B) (kron s2 s3 C D) i j =
  kron s1 s3 (mmul r2 A C) (mmul s2 B D) i j.
Proof.
  intros Hs. unfold mmul, kron. rewrite sum_prod.
  rewrite <- sum_scal_r.
  apply sum_ext; intros b Hb.
  rewrite <- sum_scal_l. apply sum_ext; intros e He.
  rewrite div_mod_unique_l, div_mod_unique_r by assumption.
  ring.
Qed.

Lemma delta_kron s i j : (0 < s)%nat -> delta i j = kron s s delta delta i j.
Proof.
  intros Hs. unfold kron, delta.
  destruct (Nat.eqb i j) eqn:E.
  - apply Nat.eqb_eq in E; subst j. rewrite !Nat.eqb_refl. ring.
  - apply Nat.eqb_neq in E.
    destruct (Nat.eqb (i / s) (j / s)) eqn:E1; destruct (Nat.eqb (i mod s) (j mod s)) eqn:E2; try ring.
    apply Nat.eqb_eq in E1, E2. exfalso; apply E.
    rewrite (Nat.div_mod i s), (Nat.div_mod j s) by lia. congruence.
Qed.

Lemma kron00 s1 s2 (A B : M) : (0 < s1)%nat -> (0 < s2)%nat ->
  kron s1 s2 A B 0%nat 0%nat = A 0%nat 0%nat * B 0%nat 0%nat.
Proof. intros; unfold kron. rewrite !Nat.div_0_l, !Nat.mod_0_l by lia. reflexivity. Qed.

Lemma delta_conj i j : cconj R (delta i j) = delta i j.
Proof. unfold delta. destruct (Nat.eqb i j); [apply conj_1|apply conj_0]. Qed.
Lemma delta_sym i j : delta i j = delta j i.
Proof. unfold delta. rewrite Nat.eqb_sym. reflexivity. Qed.
End Matrix.
Arguments M : clear implicits.
