(* Real polynomials as coefficient lists (lowest degree first); evaluation and derivative. *)
From Coq Require Import Reals Lra Lia List.
From Coquelicot Require Import Coquelicot.
Import ListNotations.
Open Scope R_scope.

Fixpoint peval (p : list R) (x : R) : R := match p with [] => 0 | a :: q => a + x * peval q x end.
Fixpoint pderiv_aux (p : list R) (k : nat) : list R :=
  match p with [] => [] | a :: q => INR k * a :: pderiv_aux q (S k) end.
Definition pderiv (p : list R) := match p with [] => [] | _ :: q => pderiv_aux q 1 end.

Lemma pderiv_aux_eval q : forall k x, (0 < k)%nat ->
  is_derive (fun x => x ^ k * peval q x) x (x ^ (k - 1) * peval (pderiv_aux q k) x).
Proof.
  induction q as [|a q IH]; intros k x Hk; simpl.
  - auto_derive; [exact I|ring].
  - apply (is_derive_ext (fun x => a * x ^ k + x ^ (S k) * peval q x)); [intros t; simpl; ring|].
    replace (x ^ (k - 1) * (INR k * a + x * peval (pderiv_aux q (S k)) x))
      with (a * (INR k * x ^ (k - 1)) + x ^ (S k - 1) * peval (pderiv_aux q (S k)) x).
    + apply (is_derive_plus (fun x => a * x ^ k) (fun x => x ^ S k * peval q x)).
      * auto_derive; [exact I|]. rewrite Nat.sub_1_r. ring.
      * apply IH; lia.
    + replace (S k - 1)%nat with (S (k - 1)) by lia. simpl. ring.
Qed.

Lemma peval_derive p x : is_derive (peval p) x (peval (pderiv p) x).
Proof.
  destruct p as [|a q]; simpl.
  - auto_derive; [exact I|ring].
  - apply (is_derive_ext (fun x => a + x ^ 1 * peval q x)); [intros t; simpl; ring|].
    replace (peval (pderiv_aux q 1) x) with (0 + x ^ (1 - 1) * peval (pderiv_aux q 1) x) by (simpl; ring).
    apply (is_derive_plus (fun _ => a) (fun x => x ^ 1 * peval q x)).
    + auto_derive; [exact I|ring].
    + apply pderiv_aux_eval; lia.
Qed.

(* p(x / D) : chain rule with the scaling the Legendre family uses *)
Lemma peval_scaled_derive (p : list R) (D x : R) : D <> 0 ->
  is_derive (fun x => peval p (x / D)) x (1 / D * peval (pderiv p) (x / D)).
Proof.
  intros HD.
  apply (is_derive_ext (fun x => peval p ((/ D) * x))); [intros t; f_equal; field; exact HD|].
  replace (1 / D * peval (pderiv p) (x / D)) with ((/ D) * peval (pderiv p) (/ D * x))
    by (replace (/ D * x) with (x / D) by (field; exact HD); field; exact HD).
  apply (is_derive_comp (peval p) (fun x => / D * x)).
  - apply peval_derive.
  - auto_derive; [exact I|ring].
Qed.
