(* Commutative rings with an involution (conjugation); the scalar structure every model is
   parametric in.  Instances: Z (conj = id) and the Gaussian integers Z[i] = Z*Z. *)
From Coq Require Import ZArith List Lia Ring Arith.

Record cring := mkCR {
  car :> Type;
  c0 : car; c1 : car;
  cadd : car -> car -> car; cmul : car -> car -> car;
  csub : car -> car -> car; copp : car -> car;
  cconj : car -> car;
  cring_th : ring_theory c0 c1 cadd cmul csub copp (@eq car);
  conj_add : forall a b, cconj (cadd a b) = cadd (cconj a) (cconj b);
  conj_mul : forall a b, cconj (cmul a b) = cmul (cconj a) (cconj b);
  conj_inv : forall a, cconj (cconj a) = a;
  conj_0 : cconj c0 = c0;
  conj_1 : cconj c1 = c1 }.

Declare Scope cr_scope.
Delimit Scope cr_scope with cr.
Notation "0" := (c0 _) : cr_scope.
Notation "1" := (c1 _) : cr_scope.
Infix "+" := (cadd _) : cr_scope.
Infix "*" := (cmul _) : cr_scope.
Infix "-" := (csub _) : cr_scope.
Notation "- x" := (copp _ x) : cr_scope.

Section Basics.
Variable R : cring.
Add Ring Rr0 : (cring_th R).
Open Scope cr_scope.
Lemma conj_opp (a : R) : cconj R (- a) = - cconj R a.
Proof.
  assert (H : cconj R (- a) + cconj R a = 0).
  { rewrite <- conj_add. replace (- a + a) with (c0 R) by ring. apply conj_0. }
  replace (cconj R (- a)) with (cconj R (- a) + cconj R a - cconj R a) by ring.
  rewrite H. ring.
Qed.
Lemma conj_sub (a b : R) : cconj R (a - b) = cconj R a - cconj R b.
Proof. replace (a - b) with (a + - b) by ring. rewrite conj_add, conj_opp. ring. Qed.
End Basics.

(* ---- instance Z ---- *)
Definition Zring : cring.
Proof.
  refine (mkCR Z 0%Z 1%Z Z.add Z.mul Z.sub Z.opp (fun z => z) Zth _ _ _ _ _); reflexivity.
Defined.

(* ---- instance Z[i] ---- *)
Definition ZI := (Z * Z)%type.
Definition zi0 : ZI := (0, 0)%Z.
Definition zi1 : ZI := (1, 0)%Z.
Definition ziadd (a b : ZI) : ZI := (fst a + fst b, snd a + snd b)%Z.
Definition zimul (a b : ZI) : ZI := (fst a * fst b - snd a * snd b, fst a * snd b + snd a * fst b)%Z.
Definition ziopp (a : ZI) : ZI := (- fst a, - snd a)%Z.
Definition zisub (a b : ZI) : ZI := (fst a - fst b, snd a - snd b)%Z.
Definition ziconj (a : ZI) : ZI := (fst a, - snd a)%Z.

Lemma ZIth : ring_theory zi0 zi1 ziadd zimul zisub ziopp (@eq ZI).
Proof.
  constructor; intros; repeat match goal with x : ZI |- _ => destruct x end;
    unfold ziadd, zimul, zisub, ziopp, zi0, zi1; cbn [fst snd]; apply f_equal2; ring.
Qed.

Definition ZIring : cring.
Proof.
  refine (mkCR ZI zi0 zi1 ziadd zimul zisub ziopp ziconj ZIth _ _ _ _ _);
    intros; repeat match goal with x : ZI |- _ => destruct x end;
    unfold ziadd, zimul, ziconj, zi0, zi1; cbn [fst snd]; try apply f_equal2; try ring; reflexivity.
Defined.
