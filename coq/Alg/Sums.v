(* Finite sums over an initial segment of nat and over multi-indices. *)
From Coq Require Import ZArith List Lia Ring Arith.
Import ListNotations.
Require Import Ring.

Section Sums.
Context {R : cring}.
Add Ring Rr1 : (cring_th R).
Open Scope cr_scope.

Fixpoint sum (n : nat) (f : nat -> R) : R :=
  match n with O => 0 | S k => sum k f + f k end.

Lemma sum_ext n f g : (forall i, (i < n)%nat -> f i = g i) -> sum n f = sum n g.
Proof.
  induction n as [|n IH]; intros H; simpl; [reflexivity|].
  rewrite IH, H by (intros; try apply H; lia). reflexivity.
Qed.
Lemma sum_add n f g : sum n (fun i => f i + g i) = sum n f + sum n g.
Proof. induction n as [|n IH]; simpl; [ring|]. rewrite IH; ring. Qed.
Lemma sum_scal_l n c f : sum n (fun i => c * f i) = c * sum n f.
Proof. induction n as [|n IH]; simpl; [ring|]. rewrite IH; ring. Qed.
Lemma sum_scal_r n c f : sum n (fun i => f i * c) = sum n f * c.
Proof. induction n as [|n IH]; simpl; [ring|]. rewrite IH; ring. Qed.
Lemma sum_zero n : sum n (fun _ => 0) = (0 : R).
Proof. induction n as [|n IH]; simpl; [ring|]. rewrite IH; ring. Qed.
Lemma sum_zero' n f : (forall i, (i < n)%nat -> f i = 0) -> sum n f = 0.
Proof. intros H. rewrite (sum_ext n f (fun _ => 0)) by assumption. apply sum_zero. Qed.
Lemma sum_opp n f : sum n (fun i => - f i) = - sum n f.
Proof. induction n as [|n IH]; simpl; [ring|]. rewrite IH; ring. Qed.
Lemma sum_conj n f : cconj R (sum n f) = sum n (fun i => cconj R (f i)).
Proof. induction n as [|n IH]; simpl; [apply conj_0|]. rewrite conj_add, IH; reflexivity. Qed.

Lemma sum_swap m n (f : nat -> nat -> R) :
  sum m (fun i => sum n (fun j => f i j)) = sum n (fun j => sum m (fun i => f i j)).
Proof.
  induction m as [|m IH]; simpl.
  - symmetry; apply sum_zero.
  - rewrite IH, <- sum_add. reflexivity.
Qed.

Lemma sum_plus m n f : sum (m + n) f = sum m f + sum n (fun i => f (m + i)%nat).
Proof.
  induction n as [|n IH]; simpl.
  - rewrite Nat.add_0_r. ring.
  - rewrite Nat.add_succ_r. simpl. rewrite IH. ring.
Qed.

Lemma sum_prod r s (f : nat -> R) :
  sum (r * s) f = sum r (fun b => sum s (fun e => f (b * s + e)%nat)).
Proof.
  induction r as [|r IH]; simpl; [reflexivity|].
  rewrite Nat.add_comm, sum_plus, IH. reflexivity.
Qed.

(* Kronecker delta selects one term *)
Lemma sum_single n k f : (k < n)%nat ->
  sum n (fun i => if Nat.eqb i k then f i else 0) = f k.
Proof.
  induction n as [|n IH]; intros H; [lia|]. simpl.
  destruct (Nat.eqb n k) eqn:E.
  - apply Nat.eqb_eq in E; subst n.
    rewrite sum_zero'; [ring|]. intros i Hi.
    destruct (Nat.eqb i k) eqn:E2; [apply Nat.eqb_eq in E2; lia|reflexivity].
  - apply Nat.eqb_neq in E. rewrite IH by lia. ring.
Qed.
Lemma sum_single_none n k f : (n <= k)%nat ->
  sum n (fun i => if Nat.eqb i k then f i else 0) = 0.
Proof.
  intros H. apply sum_zero'. intros i Hi.
  destruct (Nat.eqb i k) eqn:E; [apply Nat.eqb_eq in E; lia|reflexivity].
Qed.

(* restriction to an initial segment *)
Lemma sum_lt_restrict n m f : (m <= n)%nat ->
  sum n (fun i => if Nat.ltb i m then f i else 0) = sum m f.
Proof.
  intros H. replace n with (m + (n - m))%nat by lia. rewrite sum_plus.
  rewrite (sum_ext m _ f).
  - rewrite (sum_zero' (n - m)); [ring|]. intros i _.
    destruct (Nat.ltb_spec (m + i) m); [lia|reflexivity].
  - intros i Hi. destruct (Nat.ltb_spec i m); [reflexivity|lia].
Qed.

(* ---- multi-index sums ---- *)
Fixpoint msum (dims : list nat) (f : list nat -> R) : R :=
  match dims with
  | [] => f []
  | n :: ns => sum n (fun y => msum ns (fun ys => f (y :: ys)))
  end.

(* index lists below dims *)
Fixpoint below (ys dims : list nat) : Prop :=
  match ys, dims with
  | [], [] => True
  | y :: ys', n :: ns => (y < n)%nat /\ below ys' ns
  | _, _ => False
  end.
Lemma below_length ys : forall dims, below ys dims -> length ys = length dims.
Proof. induction ys as [|y ys IH]; intros [|n ns] H; simpl in *; try tauto. f_equal. apply IH, H. Qed.

Lemma msum_ext dims : forall f h, (forall ys, below ys dims -> f ys = h ys) -> msum dims f = msum dims h.
Proof.
  induction dims as [|n ns IH]; intros f h H; simpl; [apply H; exact I|].
  apply sum_ext; intros y Hy. apply IH; intros ys Hys. apply H. split; assumption.
Qed.
Lemma msum_scal_l dims c : forall f, msum dims (fun ys => c * f ys) = c * msum dims f.
Proof.
  induction dims as [|n ns IH]; intros f; simpl; [reflexivity|].
  rewrite <- sum_scal_l. apply sum_ext; intros; apply IH.
Qed.
Lemma msum_scal_r dims c : forall f, msum dims (fun ys => f ys * c) = msum dims f * c.
Proof.
  induction dims as [|n ns IH]; intros f; simpl; [reflexivity|].
  rewrite <- sum_scal_r. apply sum_ext; intros; apply IH.
Qed.
Lemma msum_add dims : forall f h, msum dims (fun ys => f ys + h ys) = msum dims f + msum dims h.
Proof.
  induction dims as [|n ns IH]; intros f h; simpl; [reflexivity|].
  rewrite <- sum_add. apply sum_ext; intros; apply IH.
Qed.
Lemma msum_zero dims : msum dims (fun _ => 0) = (0 : R).
Proof. induction dims as [|n ns IH]; simpl; [reflexivity|]. rewrite sum_zero'; auto. Qed.
Lemma msum_sum dims n : forall (f : nat -> list nat -> R),
  sum n (fun k => msum dims (f k)) = msum dims (fun ys => sum n (fun k => f k ys)).
Proof.
  induction dims as [|m ns IH]; intros f; simpl; [reflexivity|].
  rewrite sum_swap. apply sum_ext; intros y _. apply IH.
Qed.
Lemma msum_conj dims : forall f, cconj R (msum dims f) = msum dims (fun ys => cconj R (f ys)).
Proof.
  induction dims as [|n ns IH]; intros f; simpl; [reflexivity|].
  rewrite sum_conj. apply sum_ext; intros; apply IH.
Qed.
Lemma msum_swap d1 : forall d2 (f : list nat -> list nat -> R),
  msum d1 (fun xs => msum d2 (fun ys => f xs ys)) = msum d2 (fun ys => msum d1 (fun xs => f xs ys)).
Proof.
  induction d1 as [|n ns IH]; intros d2 f; simpl; [reflexivity|].
  rewrite <- msum_sum. apply sum_ext; intros x _. apply IH.
Qed.
Lemma msum_ones k : forall f, msum (repeat 1%nat k) f = f (repeat 0%nat k).
Proof. induction k as [|k IH]; intros f; simpl; [reflexivity|]. rewrite IH. ring. Qed.
Lemma msum_app d1 : forall d2 f,
  msum (d1 ++ d2) f = msum d1 (fun xs => msum d2 (fun ys => f (xs ++ ys))).
Proof.
  induction d1 as [|n ns IH]; intros d2 f; simpl; [reflexivity|].
  apply sum_ext; intros x _. apply IH.
Qed.
End Sums.
