(* Cores, chains (products of selected rank matrices) and the denotation of a tensor train. *)
From Coq Require Import ZArith List Lia Ring Arith.
Import ListNotations.
Require Import Ring Sums Matrix.

Section Core.
Context {R : cring}.
Add Ring Rr3 : (cring_th R).
Open Scope cr_scope.

(* cores[i][a, x, y, b] *)
Record core := mkcore { rl : nat; md : nat; nd : nat; rr : nat; g : nat -> nat -> nat -> nat -> R }.
Definition cmat (c : core) (x y : nat) : M R := fun a b => g c a x y b.

(* product of the rank matrices selected by the index lists *)
Fixpoint chain (cs : list core) (xs ys : list nat) : M R :=
  match cs, xs, ys with
  | c :: cs', x :: xs', y :: ys' => mmul (rr c) (cmat c x y) (chain cs' xs' ys')
  | _, _, _ => delta
  end.

(* the tensor a core list denotes (boundary ranks 1): first sentence of C01 *)
Definition elem (cs : list core) (xs ys : list nat) : R := chain cs xs ys 0%nat 0%nat.

Definition rl_of (ds : list core) (fin : nat) := match ds with d :: _ => rl d | [] => fin end.

(* ranks chain up and are positive; fin is the right rank of the last core *)
Fixpoint linked (ds : list core) (fin : nat) : Prop :=
  match ds with
  | [] => True
  | d :: ds' => (0 < rr d)%nat /\ rr d = rl_of ds' fin /\ linked ds' fin
  end.
Definition rl_pos (ds : list core) := match ds with d :: _ => (0 < rl d)%nat | [] => True end.

(* a well-formed TT: ranks linked, boundary ranks 1 *)
Definition wf (cs : list core) : Prop := linked cs 1%nat /\ rl_of cs 1%nat = 1%nat.

Definition rows (cs : list core) := map md cs.
Definition cols (cs : list core) := map nd cs.
End Core.
Arguments core : clear implicits.
