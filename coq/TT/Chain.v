(* General lemmas about chains: extensionality, Kronecker-product cores (operator product),
   conjugate transposition, scaling, concatenation. *)
From Coq Require Import ZArith List Lia Ring Arith.
Import ListNotations.
Require Import Ring Sums Matrix Core.

Section Chain.
Context {R : cring}.
Add Ring Rr4 : (cring_th R).
Open Scope cr_scope.
Notation core := (core R).

(* a chain only reads its cores inside their declared ranks when the ranks are linked *)
Definition core_eq_in (c d : core) : Prop :=
  rl c = rl d /\ md c = md d /\ nd c = nd d /\ rr c = rr d /\
  forall a x y b, (a < rl c)%nat -> (b < rr c)%nat -> g c a x y b = g d a x y b.

Lemma chain_ext (cs : list core) : forall ds xs ys fin i j,
  Forall2 core_eq_in cs ds -> linked cs fin -> (i < rl_of cs fin)%nat -> (j < fin)%nat ->
  chain cs xs ys i j = chain ds xs ys i j.
Proof.
  induction cs as [|c cs IH]; intros ds xs ys fin i j HF HL Hi Hj.
  - inversion HF; subst. reflexivity.
  - inversion HF as [|c' d cs' ds' Hcd HF']; subst.
    destruct xs as [|x xs]; [reflexivity|]. destruct ys as [|y ys]; [reflexivity|].
    destruct HL as (Hp & Hlink & HL). destruct Hcd as (E1 & E2 & E3 & E4 & Hg).
    cbn [chain]. rewrite <- E4. apply mmul_ext.
    + intros k Hk. unfold cmat. apply Hg; [exact Hi|exact Hk].
    + intros k Hk. apply (IH ds' xs ys fin); try assumption. rewrite <- Hlink. exact Hk.
Qed.

Lemma chain_nil_l xs ys i j : chain (@nil core) xs ys i j = delta i j.
Proof. reflexivity. Qed.

(* ---------- operator product: cores multiplied mode-wise, ranks Kronecker ---------- *)
Definition mulcore (c d : core) : core :=
  mkcore (rl c * rl d) (md c) (nd d) (rr c * rr d)
    (fun a x z b => sum (nd c) (fun y => kron (rl d) (rr d) (cmat c x y) (cmat d y z) a b)).
Definition tmul (cs ds : list core) : list core :=
  map (fun p => mulcore (fst p) (snd p)) (combine cs ds).

Lemma chain_mul (cs : list core) : forall ds xs zs fin i j,
  length ds = length cs -> length xs = length cs -> length zs = length cs ->
  linked ds fin -> (0 < fin)%nat ->
  chain (tmul cs ds) xs zs i j =
  msum (cols cs) (fun ys => kron (rl_of ds fin) fin (chain cs xs ys) (chain ds ys zs) i j).
Proof.
  unfold tmul, cols.
  induction cs as [|c cs IH]; intros ds xs zs fin i j Hd Hx Hz Hl Hf.
  - destruct ds; [|discriminate]. simpl. apply delta_kron; assumption.
  - destruct ds as [|d ds]; [discriminate|].
    destruct xs as [|x xs]; [discriminate|]. destruct zs as [|z zs]; [discriminate|].
    simpl in Hd, Hx, Hz. destruct Hl as (Hrr & Hlink & Hl).
    cbn [map combine chain fst snd msum rl_of].
    cbn [rr mulcore].
    unfold mmul at 1.
    erewrite sum_ext; cycle 1.
    { intros k _. rewrite (IH ds xs zs fin k j) by (auto; lia).
      unfold cmat at 1; cbn [g mulcore]. rewrite <- sum_scal_r.
      erewrite sum_ext; [|intros y _; rewrite <- msum_scal_l; reflexivity]. reflexivity. }
    rewrite sum_swap. apply sum_ext; intros y _.
    rewrite msum_sum. apply msum_ext; intros ys _.
    rewrite <- Hlink.
    change (sum (rr c * rr d) (fun k => kron (rl d) (rr d) (cmat c x y) (cmat d y z) i k *
                                         kron (rr d) fin (chain cs xs ys) (chain ds ys zs) k j))
      with (mmul (rr c * rr d) (kron (rl d) (rr d) (cmat c x y) (cmat d y z))
                               (kron (rr d) fin (chain cs xs ys) (chain ds ys zs)) i j).
    rewrite kron_mixed by assumption. reflexivity.
Qed.

Theorem elem_tmul cs ds xs zs :
  length ds = length cs -> length xs = length cs -> length zs = length cs ->
  linked ds 1%nat -> rl_pos ds ->
  elem (tmul cs ds) xs zs = msum (cols cs) (fun ys => elem cs xs ys * elem ds ys zs).
Proof.
  intros Hd Hx Hz Hl Hp. unfold elem. rewrite (chain_mul cs ds xs zs 1%nat) by (auto; lia).
  apply msum_ext; intros ys _. apply kron00; [|lia].
  destruct ds; simpl in *; [lia|assumption].
Qed.

Lemma linked_tmul (cs : list core) : forall ds f1 f2, length ds = length cs -> linked cs f1 -> linked ds f2 ->
  linked (tmul cs ds) (f1 * f2).
Proof.
  unfold tmul.
  induction cs as [|c cs IH]; intros ds f1 f2 Hlen H1 H2; destruct ds as [|d ds]; try discriminate; simpl; [exact I|].
  simpl in Hlen. destruct H1 as (P1 & L1 & H1), H2 as (P2 & L2 & H2).
  repeat split.
  - nia.
  - rewrite L1, L2. destruct cs, ds; simpl in *; try discriminate; reflexivity.
  - apply IH; auto.
Qed.

(* ---------- (conjugate) transposition of the mode indices ---------- *)
Definition trcore (cj : bool) (c : core) : core :=
  mkcore (rl c) (nd c) (md c) (rr c)
    (fun a x y b => if cj then cconj R (g c a y x b) else g c a y x b).
Definition conjcore (c : core) : core :=
  mkcore (rl c) (md c) (nd c) (rr c) (fun a x y b => cconj R (g c a x y b)).

Lemma chain_conj (cs : list core) : forall xs ys i j,
  chain (map conjcore cs) xs ys i j = cconj R (chain cs xs ys i j).
Proof.
  induction cs as [|c cs IH]; intros xs ys i j.
  - simpl. symmetry. apply delta_conj.
  - destruct xs as [|x xs]; [symmetry; apply delta_conj|].
    destruct ys as [|y ys]; [symmetry; apply delta_conj|].
    cbn [map chain]. unfold mmul. rewrite sum_conj. cbn [rr conjcore].
    apply sum_ext; intros k _. rewrite conj_mul, IH. reflexivity.
Qed.

Lemma chain_tr_all cj (cs : list core) : forall xs ys i j, length xs = length ys ->
  chain (map (trcore cj) cs) xs ys i j =
  if cj then cconj R (chain cs ys xs i j) else chain cs ys xs i j.
Proof.
  induction cs as [|c cs IH]; intros xs ys i j Hlen.
  - simpl. destruct cj; [symmetry; apply delta_conj|reflexivity].
  - destruct xs as [|x xs]; destruct ys as [|y ys]; try discriminate.
    + simpl. destruct cj; [symmetry; apply delta_conj|reflexivity].
    + simpl in Hlen. cbn [map chain]. unfold mmul. cbn [rr trcore].
      destruct cj.
      * rewrite sum_conj. apply sum_ext; intros k _. rewrite conj_mul.
        rewrite (IH xs ys) by lia. reflexivity.
      * apply sum_ext; intros k _. rewrite (IH xs ys) by lia. reflexivity.
Qed.

(* ---------- scaling the first core ---------- *)
Definition scalecore (s : R) (c : core) : core :=
  mkcore (rl c) (md c) (nd c) (rr c) (fun a x y b => s * g c a x y b).
Definition smul (s : R) (cs : list core) : list core :=
  match cs with [] => [] | c :: cs' => scalecore s c :: cs' end.

Lemma chain_smul s cs xs ys i j : length xs = length cs -> length ys = length cs -> cs <> [] ->
  chain (smul s cs) xs ys i j = s * chain cs xs ys i j.
Proof.
  destruct cs as [|c cs]; intros Hx Hy Hne; [congruence|].
  destruct xs as [|x xs]; [discriminate|]. destruct ys as [|y ys]; [discriminate|].
  cbn [smul chain]. unfold mmul. cbn [rr scalecore]. rewrite <- sum_scal_l.
  apply sum_ext; intros k _. unfold cmat; cbn [g scalecore]. ring.
Qed.

(* ---------- concatenation of core lists ---------- *)
Lemma chain_app (cs : list core) : forall ds xs1 ys1 xs2 ys2 fin i j,
  length xs1 = length cs -> length ys1 = length cs -> linked cs fin -> fin = rl_of ds fin ->
  chain (cs ++ ds) (xs1 ++ xs2) (ys1 ++ ys2) i j =
  match cs with
  | [] => chain ds xs2 ys2 i j
  | _ => mmul fin (chain cs xs1 ys1) (chain ds xs2 ys2) i j
  end.
Proof.
  induction cs as [|c cs IH]; intros ds xs1 ys1 xs2 ys2 fin i j Hx Hy HL Hf.
  - destruct xs1; [|discriminate]. destruct ys1; [|discriminate]. reflexivity.
  - destruct xs1 as [|x xs1]; [discriminate|]. destruct ys1 as [|y ys1]; [discriminate|].
    simpl in Hx, Hy. destruct HL as (Hp & Hlink & HL).
    cbn [app chain].
    destruct cs as [|c2 cs].
    + destruct xs1; [|discriminate]. destruct ys1; [|discriminate].
      cbn [app chain]. simpl in Hlink. subst fin.
      unfold mmul at 1 2. apply sum_ext; intros k Hk. f_equal.
      symmetry. apply (mmul_delta_r (rr c) (cmat c x y)). exact Hk.
    + unfold mmul at 1. erewrite sum_ext; cycle 1.
      { intros k _. rewrite (IH ds xs1 ys1 xs2 ys2 fin k j) by (auto; lia). reflexivity. }
      symmetry.
      change (mmul fin (mmul (rr c) (cmat c x y) (chain (c2 :: cs) xs1 ys1)) (chain ds xs2 ys2) i j =
              mmul (rr c) (cmat c x y) (mmul fin (chain (c2 :: cs) xs1 ys1) (chain ds xs2 ys2)) i j).
      apply mmul_assoc.
Qed.
End Chain.
