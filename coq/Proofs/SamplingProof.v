(* C20: the numbers the sampler compares with the uniform variate are the marginals of the probability train
   (everything to the right summed out), provided the tails contract to vec(I) (right-orthonormal state);
   np.unique bookkeeping: the counts add up to the number of samples. *)
From Coq Require Import ZArith List Lia Ring Arith Bool.
Import ListNotations.
Require Import Ring Sums Matrix Core Chain TTOps Structure Sampling.

Section SP.
Context {R : cring}.
Add Ring Rr29 : (cring_th R).
Open Scope cr_scope.
Notation core := (core R).

Definition zeros (n : nat) := repeat 0%nat n.
(* everything in a tail summed out *)
Definition tail_weight (cs : list core) (b : nat) : R := msum (rows cs) (fun xs => chain cs xs (zeros (length cs)) b 0%nat).

Theorem marginal_step (c : core) (rest : list core) (theta : nat -> R) (x : nat) :
  (forall b, (b < rr c)%nat -> tail_weight rest b = vecI (rr c) b) ->
  sum (rl c) (fun a => theta a * ctmp c a x) =
  msum (rows rest) (fun xs => sum (rl c) (fun a => theta a * chain (c :: rest) (x :: xs) (zeros (S (length rest))) a 0%nat)).
Proof.
  intros HT.
  transitivity (sum (rl c) (fun a => theta a * sum (rr c) (fun b => g c a x 0%nat b * tail_weight rest b))).
  - apply sum_ext; intros a _. f_equal. unfold ctmp. apply sum_ext; intros b Hb. rewrite (HT b Hb). reflexivity.
  - unfold tail_weight.
    rewrite <- (msum_sum (rows rest) (rl c) (fun a xs => theta a * chain (c :: rest) (x :: xs) (zeros (S (length rest))) a 0%nat)).
    apply sum_ext; intros a _. rewrite msum_scal_l. f_equal.
    change (zeros (S (length rest))) with (0%nat :: zeros (length rest)). cbn [chain]. unfold mmul, cmat.
    rewrite <- (msum_sum (rows rest) (rr c) (fun b xs => g c a x 0%nat b * chain rest xs (zeros (length rest)) b 0%nat)).
    apply sum_ext; intros b _. rewrite msum_scal_l. reflexivity.
Qed.

(* the left vector is the row of the prefix chain at the bits drawn so far *)
Theorem theta_step (pre : list core) (c : core) (bits : list nat) (bit : nat) l :
  length bits = length pre -> linked pre (rl c) -> pre <> [] -> (l < rr c)%nat ->
  sum (rl c) (fun a => chain pre bits (zeros (length pre)) 0%nat a * g c a bit 0%nat l) =
  chain (pre ++ [c]) (bits ++ [bit]) (zeros (length pre) ++ [0%nat]) 0%nat l.
Proof.
  intros Hb HL Hne Hl.
  rewrite (chain_app pre [c] bits (zeros (length pre)) [bit] [0%nat] (rl c)); try assumption; try reflexivity.
  2: unfold zeros; apply repeat_length.
  destruct pre as [|p0 pre]; [congruence|]. unfold mmul. apply sum_ext; intros a _.
  cbn [chain]. unfold mmul, cmat, delta. f_equal.
  rewrite (sum_ext (rr c) _ (fun b => if Nat.eqb b l then g c a bit 0%nat b else 0)).
  - symmetry. apply (sum_single (rr c) l (fun b => g c a bit 0%nat b)). exact Hl.
  - intros b _. destruct (Nat.eqb b l); ring.
Qed.

(* np.unique bookkeeping *)
Definition total (l : list (list nat * nat)) : nat := fold_right (fun p acc => (snd p + acc)%nat) 0%nat l.
Lemma total_uinsert r : forall l, total (uinsert r l) = S (total l).
Proof.
  induction l as [|[q k] l IH]; cbn [uinsert total fold_right snd]; [reflexivity|].
  destruct (row_eqb r q); cbn [total fold_right snd]; [lia|].
  destruct (row_ltb r q); cbn [total fold_right snd]; [lia|]. fold (total (uinsert r l)). rewrite IH. fold (total l). lia.
Qed.
Theorem counts_total (rows : list (list nat)) : total (unique_counts rows) = length rows.
Proof.
  unfold unique_counts.
  assert (H : forall acc, total (fold_left (fun acc r => uinsert r acc) rows acc) = (length rows + total acc)%nat).
  { induction rows as [|r rows IH]; intros acc; cbn [fold_left length]; [reflexivity|].
    rewrite IH, total_uinsert. lia. }
  rewrite H. cbn. lia.
Qed.
End SP.

(* measured site of the probability train: core = conj(psi) (x) psi, and for a right-orthonormal state core the
   site summed out maps vec(I) to vec(I) *)
Require Import SweepProof.
Section Born.
Context {R : cring}.
Add Ring Rr30 : (cring_th R).
Open Scope cr_scope.
Notation core := (core R).
Definition born (c : core) : core := mulcore (trcore true (diagcore c)) c.

Lemma born_entry (c : core) a x b : (x < md c)%nat ->
  g (born c) a x 0%nat b = cconj R (g c (a / rl c)%nat x 0%nat (b / rr c)%nat) * g c (a mod rl c)%nat x 0%nat (b mod rr c)%nat.
Proof.
  intros Hx. unfold born, mulcore. cbn [g nd trcore diagcore md]. unfold kron, cmat. cbn [g trcore diagcore].
  rewrite (sum_ext (md c) _ (fun y => if Nat.eqb y x then cconj R (g c (a / rl c)%nat x 0%nat (b / rr c)%nat) * g c (a mod rl c)%nat x 0%nat (b mod rr c)%nat else 0)).
  - apply (sum_single (md c) x (fun _ => cconj R (g c (a / rl c)%nat x 0%nat (b / rr c)%nat) * g c (a mod rl c)%nat x 0%nat (b mod rr c)%nat)). exact Hx.
  - intros y _. destruct (Nat.eqb_spec y x) as [E|E].
    + subst y. reflexivity.
    + rewrite conj_0. ring.
Qed.

Theorem born_core_tail (c : core) a1 a2 : nd c = 1%nat -> right_iso c -> (0 < rr c)%nat ->
  (a1 < rl c)%nat -> (a2 < rl c)%nat ->
  sum (md c) (fun x => sum (rr c * rr c) (fun b => g (born c) (a1 * rl c + a2)%nat x 0%nat b * vecI (rr c * rr c) b)) = delta a1 a2.
Proof.
  intros Hnd HR Hpos H1 H2.
  transitivity (sum (md c) (fun x => sum (rr c) (fun e => cconj R (g c a1 x 0%nat e) * g c a2 x 0%nat e))).
  - apply sum_ext; intros x Hx. rewrite sum_prod.
    apply sum_ext; intros b1 Hb1.
    rewrite (sum_ext (rr c) _ (fun b2 => if Nat.eqb b2 b1 then cconj R (g c a1 x 0%nat b1) * g c a2 x 0%nat b2 else 0)).
    + apply (sum_single (rr c) b1 (fun b2 => cconj R (g c a1 x 0%nat b1) * g c a2 x 0%nat b2)). exact Hb1.
    + intros b2 Hb2. rewrite (born_entry c _ x _ Hx).
      rewrite !div_mod_unique_l, !div_mod_unique_r by assumption.
      unfold vecI. rewrite Nat.sqrt_square. rewrite div_mod_unique_l, div_mod_unique_r by assumption.
      rewrite (Nat.eqb_sym b1 b2). destruct (Nat.eqb b2 b1); ring.
  - specialize (HR a2 a1 H2 H1). rewrite Hnd in HR.
    rewrite (sum_ext (md c) _ (fun x => sum 1 (fun y => sum (rr c) (fun e => g c a2 x y e * cconj R (g c a1 x y e))))).
    + rewrite HR. unfold delta. rewrite Nat.eqb_sym. reflexivity.
    + intros x _. cbn [sum]. rewrite (sum_ext (rr c) (fun e => g c a2 x 0%nat e * cconj R (g c a1 x 0%nat e)) (fun e => cconj R (g c a1 x 0%nat e) * g c a2 x 0%nat e)) by (intros; ring). ring.
Qed.
End Born.

(* all later sites measured: the tail of Born cores of a right-orthonormal state contracts to vec(I) *)
Section BornTail.
Context {R : cring}.
Add Ring Rr33 : (cring_th R).
Open Scope cr_scope.
Notation core := (core R).

Lemma vecI_square r a1 a2 : (0 < r)%nat -> (a2 < r)%nat -> @vecI R (r * r) (a1 * r + a2) = delta a1 a2.
Proof.
  intros Hr H2. unfold vecI, delta. rewrite Nat.sqrt_square.
  rewrite div_mod_unique_l, div_mod_unique_r by exact H2. reflexivity.
Qed.

Definition rr_last (cs : list core) (fin : nat) : nat := fin.
Theorem born_tail_weight : forall (cs : list core) b1 b2,
  Forall (fun c => nd c = 1%nat) cs -> Forall right_iso cs -> linked cs 1%nat -> Forall (fun c => (0 < rl c)%nat) cs ->
  (b1 < rl_of cs 1)%nat -> (b2 < rl_of cs 1)%nat ->
  tail_weight (map born cs) (b1 * rl_of cs 1 + b2)%nat = delta b1 b2.
Proof.
  induction cs as [|c cs IH]; intros b1 b2 Hnd HR HL Hpos H1 H2.
  - cbn [rl_of] in *. assert (b1 = 0%nat) by lia. assert (b2 = 0%nat) by lia. subst.
    unfold tail_weight. cbn [map rows msum chain length zeros repeat]. reflexivity.
  - inversion Hnd as [|? ? Hnd0 Hnd']; subst. inversion HR as [|? ? HR0 HR']; subst.
    inversion Hpos as [|? ? Hp0 Hp']; subst.
    cbn [linked] in HL. destruct HL as (Hrr & Hlk & HL). cbn [rl_of] in H1, H2.
    unfold tail_weight. cbn [map rows length]. fold (rows (map born cs)).
    change (zeros (S (length (map born cs)))) with (0%nat :: zeros (length (map born cs))).
    cbn [msum]. change (md (born c)) with (md c).
    rewrite <- (born_core_tail c b1 b2 Hnd0 HR0 Hrr H1 H2).
    apply sum_ext; intros x Hx.
    cbn [chain]. unfold mmul. change (rr (born c)) with (rr c * rr c)%nat. cbn [rl_of].
    rewrite <- (msum_sum (rows (map born cs)) (rr c * rr c)
                 (fun e xs => cmat (born c) x 0%nat (b1 * rl c + b2)%nat e * chain (map born cs) xs (zeros (length (map born cs))) e 0%nat)).
    apply sum_ext; intros e He. rewrite msum_scal_l. unfold cmat. f_equal.
    (* e = e1 * rr c + e2 with rr c = rl_of cs 1 *)
    assert (Hdiv : (e = (e / rr c) * rr c + e mod rr c)%nat) by (rewrite Nat.mul_comm; apply Nat.div_mod; lia).
    assert (He1 : (e / rr c < rr c)%nat) by (apply Nat.div_lt_upper_bound; lia).
    assert (He2 : (e mod rr c < rr c)%nat) by (apply Nat.mod_upper_bound; lia).
    pose proof (@vecI_square (rr c) (e / rr c)%nat (e mod rr c)%nat Hrr He2) as HV. rewrite <- Hdiv in HV. rewrite HV.
    rewrite Hlk in He1, He2 |- *.
    specialize (IH (e / rl_of cs 1)%nat (e mod rl_of cs 1)%nat Hnd' HR' HL Hp' He1 He2).
    unfold tail_weight in IH. rewrite Hlk in Hdiv. rewrite <- Hdiv in IH. exact IH.
Qed.
End BornTail.
