(* C08: deflating a tensor p with a shift s inside the projected eigenproblem is the projection of the explicitly shifted
   operator:  P^H (A + s p p^H) P = P^H A P + s (P^H p)(P^H p)^H. *)
From Coq Require Import ZArith List Lia Ring Arith Bool.
Import ListNotations.
Require Import Ring Sums Matrix.

Section Deflation.
Context {R : cring}.
Add Ring Rr38 : (cring_th R).
Open Scope cr_scope.
Notation cj := (cconj R).

Theorem deflation_is_shift (N K : nat) (A P : M R) (p : nat -> R) (s : R) i j :
  let t := fun k => sum N (fun x => cj (P x k) * p x) in
  sum N (fun x => sum N (fun y => cj (P x i) * (A x y + s * (p x * cj (p y))) * P y j)) =
  sum N (fun x => sum N (fun y => cj (P x i) * A x y * P y j)) + s * (t i * cj (t j)).
Proof.
  intros t. unfold t.
  rewrite (sum_ext N _ (fun x => sum N (fun y => cj (P x i) * A x y * P y j) + sum N (fun y => s * ((cj (P x i) * p x) * (cj (p y) * P y j))))).
  - rewrite sum_add. f_equal.
    rewrite sum_conj.
    rewrite (sum_ext N (fun x => cj (cj (P x j) * p x)) (fun y => cj (p y) * P y j)) by (intros y _; rewrite conj_mul, conj_inv; ring).
    transitivity (sum N (fun x => sum N (fun y => s * ((cj (P x i) * p x) * (cj (p y) * P y j))))); [reflexivity|].
    symmetry. rewrite <- sum_scal_r, <- sum_scal_l. apply sum_ext; intros x _.
    rewrite <- sum_scal_l, <- sum_scal_l. apply sum_ext; intros y _. ring.
  - intros x _. rewrite <- sum_add. apply sum_ext; intros y _. ring.
Qed.
End Deflation.
