(* C17: the matrix handed to the eigen-solver by tdmd_exact / tdmd_standard is U^T Y V^T S^-1 of the unfolded
   snapshot tensors: the running product of pairwise core contractions is the Gram matrix of the two spatial parts. *)
From Coq Require Import ZArith List Lia Ring Arith Bool.
Import ListNotations.
Require Import Ring Sums Matrix Core Chain Tdmd.

Section TP.
Context {R : cring}.
Add Ring Rr26 : (cring_th R).
Open Scope cr_scope.
Notation core := (core R).

Definition zeros (n : nat) := repeat 0%nat n.
(* Gram matrix of two vector-type part-trains over all spatial indices *)
Definition sgram (xs ys : list core) (a0 b0 a b : nat) : R :=
  msum (rows xs) (fun ks => chain xs ks (zeros (length xs)) a0 a * chain ys ks (zeros (length ys)) b0 b).

Lemma delta_flat n a0 b0 a b : (b0 < n)%nat -> (b < n)%nat ->
  @delta R (a0 * n + b0)%nat (a * n + b)%nat = delta a0 a * delta b0 b.
Proof.
  intros H0 H. unfold delta.
  destruct (Nat.eqb_spec (a0 * n + b0) (a * n + b)) as [E|E], (Nat.eqb_spec a0 a) as [Ea|Ea], (Nat.eqb_spec b0 b) as [Eb|Eb]; try ring.
  - exfalso. subst a0. lia.
  - exfalso. apply Ea. assert (Hd := f_equal (fun v => (v / n)%nat) E). cbn beta in Hd.
    rewrite !div_mod_unique_l in Hd by assumption. exact Hd.
  - exfalso. apply Ea. assert (Hd := f_equal (fun v => (v / n)%nat) E). cbn beta in Hd.
    rewrite !div_mod_unique_l in Hd by assumption. exact Hd.
  - exfalso. apply E. subst. reflexivity.
Qed.

Lemma running_gram : forall (xs ys : list core) finy a0 b0 a b,
  length xs = length ys -> linked ys finy -> Forall2 (fun cx cy => md cx = md cy) xs ys ->
  (b0 < rl_of ys finy)%nat -> (b < finy)%nat ->
  running xs ys (a0 * rl_of ys finy + b0)%nat (a * finy + b)%nat = sgram xs ys a0 b0 a b.
Proof.
  induction xs as [|cx xs IH]; intros ys finy a0 b0 a b Hlen HLy HF Hb0 Hb.
  - destruct ys; [|discriminate]. cbn [running rl_of] in *. unfold sgram. cbn [rows map msum chain].
    apply delta_flat; assumption.
  - destruct ys as [|cy ys]; [discriminate|]. cbn [length] in Hlen.
    inversion HF as [|? ? ? ? Hmd HF']; subst. cbn [linked] in HLy. destruct HLy as (Hpos & Hlk & HLy).
    cbn [rl_of] in Hb0. cbn [running rl_of]. unfold mmul. rewrite sum_prod.
    unfold sgram. cbn [rows map length msum]. change (zeros (S (length xs))) with (0%nat :: zeros (length xs)).
    change (zeros (S (length ys))) with (0%nat :: zeros (length ys)).
    transitivity (sum (rr cx) (fun a1 => sum (rr cy) (fun b1 => sum (md cx) (fun k =>
                    msum (rows xs) (fun ks => (g cx a0 k 0%nat a1 * g cy b0 k 0%nat b1) *
                         (chain xs ks (zeros (length xs)) a1 a * chain ys ks (zeros (length ys)) b1 b)))))).
    + apply sum_ext; intros a1 _. apply sum_ext; intros b1 Hb1.
      unfold pair_contraction. rewrite !div_mod_unique_l, !div_mod_unique_r by assumption.
      rewrite Hlk in Hb1 |- *. rewrite (IH ys finy a1 b1 a b) by (try assumption; lia).
      unfold sgram. rewrite <- sum_scal_r. apply sum_ext; intros k _. rewrite <- msum_scal_l. reflexivity.
    + symmetry.
      transitivity (sum (md cx) (fun k => sum (rr cx) (fun a1 => sum (rr cy) (fun b1 =>
                      msum (rows xs) (fun ks => (g cx a0 k 0%nat a1 * g cy b0 k 0%nat b1) *
                         (chain xs ks (zeros (length xs)) a1 a * chain ys ks (zeros (length ys)) b1 b)))))).
      * apply sum_ext; intros k _.
        set (F := fun a1 b1 ks => (g cx a0 k 0%nat a1 * g cy b0 k 0%nat b1) *
                         (chain xs ks (zeros (length xs)) a1 a * chain ys ks (zeros (length ys)) b1 b)).
        transitivity (msum (rows xs) (fun ks => sum (rr cx) (fun a1 => sum (rr cy) (fun b1 => F a1 b1 ks)))).
        { apply msum_ext; intros ks _. cbn [chain]. unfold mmul, cmat, F.
          rewrite <- sum_scal_r. apply sum_ext; intros a1 _.
          rewrite <- sum_scal_l. apply sum_ext; intros b1 _. ring. }
        rewrite <- (msum_sum (rows xs) (rr cx) (fun a1 ks => sum (rr cy) (fun b1 => F a1 b1 ks))).
        apply sum_ext; intros a1 _.
        rewrite <- (msum_sum (rows xs) (rr cy) (fun b1 ks => F a1 b1 ks)). reflexivity.
      * rewrite sum_swap. apply sum_ext; intros a1 _. rewrite sum_swap. reflexivity.
Qed.

Theorem reduced_matrix_dense (xs ys : list core) (xl yl : core) a a' :
  length xs = length ys -> linked ys (rl yl) -> (0 < rl_of ys (rl yl))%nat ->
  Forall2 (fun cx cy => md cx = md cy) xs ys ->
  reduced_matrix xs ys xl yl a a' =
  sum (rl yl) (fun b => sgram xs ys 0%nat 0%nat a b * sum (md xl) (fun k => g xl a' k 0%nat 0%nat * g yl b k 0%nat 0%nat)).
Proof.
  intros Hlen HL Hpos HF. unfold reduced_matrix. apply sum_ext; intros b Hb.
  change (running xs ys 0%nat (a * rl yl + b)%nat) with (running xs ys (0 * rl_of ys (rl yl) + 0)%nat (a * rl yl + b)%nat).
  rewrite (running_gram xs ys (rl yl) 0%nat 0%nat a b Hlen HL HF Hpos Hb). reflexivity.
Qed.

(* a train whose last core has been replaced: its entries are the left part times the new last core *)
Lemma elem_last (pre : list core) (c : core) ks q a0 : length ks = length pre -> pre <> [] ->
  linked pre (rl c) -> rr c = 1%nat ->
  chain (pre ++ [c]) (ks ++ [q]) (zeros (length pre) ++ [0%nat]) a0 0%nat =
  sum (rl c) (fun b => chain pre ks (zeros (length pre)) a0 b * g c b q 0%nat 0%nat).
Proof.
  intros Hk Hne HL Hr.
  rewrite (chain_app pre [c] ks (zeros (length pre)) [q] [0%nat] (rl c)); try assumption; try reflexivity.
  2: unfold zeros; apply repeat_length.
  destruct pre as [|p pre]; [congruence|].
  unfold mmul. apply sum_ext; intros b _. cbn [chain]. unfold mmul, cmat, delta. rewrite Hr. cbn [sum Nat.eqb]. ring.
Qed.
End TP.
