(* C05: the values returned by the global SVD are singular values of the unfolding.
   With A = U S V (C05_reconstruct), U^H U = I, V V^H = I and real s:
     A^H A = V^H S^2 V  and  A A^H = U S^2 U^H,
   hence (A^H A) conj(V[q,:]) = s_q^2 conj(V[q,:]) and (A A^H) U[:,q] = s_q^2 U[:,q]: every returned s_q^2 is an
   eigenvalue of both Gram matrices of the unfolding, with the returned factors as eigenvectors. *)
From Coq Require Import ZArith List Lia Ring Arith Bool.
Import ListNotations.
Require Import Ring Sums Matrix GsvdProof.

Section SingVals.
Context {R : cring}.
Add Ring Rr52 : (cring_th R).
Open Scope cr_scope.

Variables (m n k : nat) (Um Vm : M R) (s : nat -> R).
Hypothesis HU : forall p q, (p < k)%nat -> (q < k)%nat -> sum m (fun i => cconj R (Um i p) * Um i q) = delta p q.
Hypothesis HV : forall p q, (p < k)%nat -> (q < k)%nat -> sum n (fun j => Vm p j * cconj R (Vm q j)) = delta p q.
Hypothesis Hs : forall p, (p < k)%nat -> cconj R (s p) = s p.

Notation A := (Amat k Um Vm s).
Definition gramAhA : M R := fun j' j => sum m (fun i => cconj R (A i j') * A i j).
Definition gramAAh : M R := fun i i' => sum n (fun j => A i j * cconj R (A i' j)).

Lemma gramAhA_form j' j : gramAhA j' j = sum k (fun p => s p * s p * (cconj R (Vm p j') * Vm p j)).
Proof.
  unfold gramAhA, Amat.
  transitivity (sum k (fun p => sum k (fun q => (s p * cconj R (Vm p j')) * (s q * Vm q j) * sum m (fun i => cconj R (Um i p) * Um i q)))).
  - transitivity (sum m (fun i => sum k (fun p => sum k (fun q => (s p * cconj R (Vm p j')) * (s q * Vm q j) * (cconj R (Um i p) * Um i q))))).
    + apply sum_ext; intros i _. rewrite sum_conj. rewrite <- sum_scal_r. apply sum_ext; intros p Hp.
      rewrite <- sum_scal_l. apply sum_ext; intros q Hq. rewrite !conj_mul. rewrite (Hs p Hp). ring.
    + rewrite sum_swap. apply sum_ext; intros p _. rewrite sum_swap. apply sum_ext; intros q _.
      rewrite <- sum_scal_l. reflexivity.
  - apply sum_ext; intros p Hp.
    rewrite (sum_ext k _ (fun q => delta p q * ((s p * cconj R (Vm p j')) * (s q * Vm q j)))).
    + rewrite (sum_delta_l k (fun p q => (s p * cconj R (Vm p j')) * (s q * Vm q j))) by exact Hp. ring.
    + intros q Hq. rewrite (HU p q Hp Hq). ring.
Qed.

Lemma gramAAh_form i i' : gramAAh i i' = sum k (fun p => s p * s p * (Um i p * cconj R (Um i' p))).
Proof.
  unfold gramAAh, Amat.
  transitivity (sum k (fun p => sum k (fun q => (Um i p * s p) * (cconj R (Um i' q) * s q) * sum n (fun j => Vm p j * cconj R (Vm q j))))).
  - transitivity (sum n (fun j => sum k (fun p => sum k (fun q => (Um i p * s p) * (cconj R (Um i' q) * s q) * (Vm p j * cconj R (Vm q j)))))).
    + apply sum_ext; intros j _. rewrite sum_conj. rewrite <- sum_scal_r. apply sum_ext; intros p Hp.
      rewrite <- sum_scal_l. apply sum_ext; intros q Hq. rewrite !conj_mul. rewrite (Hs q Hq). ring.
    + rewrite sum_swap. apply sum_ext; intros p _. rewrite sum_swap. apply sum_ext; intros q _.
      rewrite <- sum_scal_l. reflexivity.
  - apply sum_ext; intros p Hp.
    rewrite (sum_ext k _ (fun q => delta p q * ((Um i p * s p) * (cconj R (Um i' q) * s q)))).
    + rewrite (sum_delta_l k (fun p q => (Um i p * s p) * (cconj R (Um i' q) * s q))) by exact Hp. ring.
    + intros q Hq. rewrite (HV p q Hp Hq). ring.
Qed.

(* (A^H A) conj(V[q,:]) = s_q^2 conj(V[q,:]) *)
Theorem right_singular q j' : (q < k)%nat ->
  sum n (fun j => gramAhA j' j * cconj R (Vm q j)) = s q * s q * cconj R (Vm q j').
Proof.
  intros Hq.
  transitivity (sum k (fun p => s p * s p * cconj R (Vm p j') * sum n (fun j => Vm p j * cconj R (Vm q j)))).
  - transitivity (sum n (fun j => sum k (fun p => s p * s p * cconj R (Vm p j') * (Vm p j * cconj R (Vm q j))))).
    + apply sum_ext; intros j _. rewrite gramAhA_form. rewrite <- sum_scal_r. apply sum_ext; intros p _. ring.
    + rewrite sum_swap. apply sum_ext; intros p _. rewrite <- sum_scal_l. reflexivity.
  - transitivity (sum k (fun p => if Nat.eqb p q then s p * s p * cconj R (Vm p j') else 0)).
    + apply sum_ext; intros p Hp. rewrite (HV p q Hp Hq). unfold delta. destruct (Nat.eqb p q); ring.
    + apply (sum_single k q (fun p => s p * s p * cconj R (Vm p j')) Hq).
Qed.

(* (A A^H) U[:,q] = s_q^2 U[:,q] *)
Theorem left_singular q i : (q < k)%nat ->
  sum m (fun i' => gramAAh i i' * Um i' q) = s q * s q * Um i q.
Proof.
  intros Hq.
  transitivity (sum k (fun p => s p * s p * Um i p * sum m (fun i' => cconj R (Um i' p) * Um i' q))).
  - transitivity (sum m (fun i' => sum k (fun p => s p * s p * Um i p * (cconj R (Um i' p) * Um i' q)))).
    + apply sum_ext; intros i' _. rewrite gramAAh_form. rewrite <- sum_scal_r. apply sum_ext; intros p _. ring.
    + rewrite sum_swap. apply sum_ext; intros p _. rewrite <- sum_scal_l. reflexivity.
  - transitivity (sum k (fun p => if Nat.eqb p q then s p * s p * Um i p else 0)).
    + apply sum_ext; intros p Hp. rewrite (HU p q Hp Hq). unfold delta. destruct (Nat.eqb p q); ring.
    + apply (sum_single k q (fun p => s p * s p * Um i p) Hq).
Qed.

End SingVals.
