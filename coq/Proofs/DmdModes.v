(* C17: the returned modes satisfy the DMD eigen-equations.
   N = product of the spatial dimensions, r = kept rank.  U (N x r): unfolded spatial part of pinv(x) (orthonormal
   columns), Bm (N x r) = Y V^T S^-1: unfolded spatial part of y times (y_last x_last^T).  The reduced matrix is
   Mred = U^T Bm (C17_reduced_matrix), the DMD operator of the unfolded snapshot matrices is Aop = Bm U^T = Y X^+.
     - exact modes: for an eigenpair (lam, w) of Mred, every multiple c * Bm w (the code takes c = 1/lam) satisfies
       Aop phi = lam phi;
     - standard (projected) modes: U w satisfies (U U^T Aop)(U w) = lam (U w); this one needs U^T U = I. *)
From Coq Require Import ZArith List Lia Ring Arith Bool.
Import ListNotations.
Require Import Ring Sums Matrix TedmdProof.

Section DmdModes.
Context {R : cring}.
Add Ring Rr51 : (cring_th R).
Open Scope cr_scope.

Variables (N r : nat) (U Bm : M R) (w : nat -> R) (lam : R).
Definition Mred : M R := fun a b => sum N (fun x => U x a * Bm x b).
Definition Aop : M R := fun x y => sum r (fun a => Bm x a * U y a).
Definition PAop : M R := fun x y => sum r (fun a => U x a * sum N (fun z => U z a * Aop z y)).
Hypothesis Hw : forall a, (a < r)%nat -> sum r (fun b => Mred a b * w b) = lam * w a.

Theorem exact_mode_eigen (c : R) x :
  sum N (fun y => Aop x y * (c * sum r (fun b => Bm y b * w b))) = lam * (c * sum r (fun b => Bm x b * w b)).
Proof.
  pose proof (eig_AB_BA N r Bm (fun a y => U y a) w lam) as E.
  assert (E' : forall i, (i < r)%nat -> sum r (fun j => mmul N (fun a y => U y a) Bm i j * w j) = lam * w i).
  { intros i Hi. exact (Hw i Hi). }
  specialize (E E' x). unfold mmul in E. unfold Aop.
  transitivity (c * sum N (fun y => sum r (fun k => Bm x k * U y k) * sum r (fun j => Bm y j * w j))).
  - rewrite <- sum_scal_l. apply sum_ext; intros y _. ring.
  - rewrite E. ring.
Qed.

Hypothesis HU : forall a b, (a < r)%nat -> (b < r)%nat -> sum N (fun x => U x a * U x b) = delta a b.

Lemma Ut_Aop_U a c : (a < r)%nat -> (c < r)%nat ->
  sum N (fun y => sum N (fun z => U z a * Aop z y) * U y c) = Mred a c.
Proof.
  intros Ha Hc. unfold Aop, Mred.
  transitivity (sum N (fun z => sum r (fun b => U z a * Bm z b * sum N (fun y => U y b * U y c)))).
  - transitivity (sum N (fun y => sum N (fun z => sum r (fun b => U z a * Bm z b * (U y b * U y c))))).
    + apply sum_ext; intros y _. rewrite <- sum_scal_r. apply sum_ext; intros z _.
      rewrite <- sum_scal_l, <- sum_scal_r. apply sum_ext; intros b _. ring.
    + rewrite sum_swap. apply sum_ext; intros z _. rewrite sum_swap. apply sum_ext; intros b _.
      rewrite <- sum_scal_l. reflexivity.
  - apply sum_ext; intros z _.
    transitivity (sum r (fun b => if Nat.eqb b c then U z a * Bm z b else 0)).
    + apply sum_ext; intros b Hb. rewrite (HU b c Hb Hc). unfold delta. destruct (Nat.eqb b c); ring.
    + apply (sum_single r c (fun b => U z a * Bm z b) Hc).
Qed.

Theorem standard_mode_eigen x :
  sum N (fun y => PAop x y * sum r (fun c => U y c * w c)) = lam * sum r (fun c => U x c * w c).
Proof.
  unfold PAop.
  transitivity (sum r (fun a => U x a * sum r (fun c => sum N (fun y => sum N (fun z => U z a * Aop z y) * U y c) * w c))).
  - transitivity (sum N (fun y => sum r (fun a => sum r (fun c => U x a * (sum N (fun z => U z a * Aop z y) * U y c * w c))))).
    + apply sum_ext; intros y _. rewrite <- sum_scal_r. apply sum_ext; intros a _.
      rewrite <- sum_scal_l. apply sum_ext; intros c _. ring.
    + rewrite sum_swap. apply sum_ext; intros a _. rewrite <- sum_scal_l. rewrite sum_swap.
      apply sum_ext; intros c _. rewrite <- sum_scal_r, <- sum_scal_l. apply sum_ext; intros y _. ring.
  - rewrite <- sum_scal_l. apply sum_ext; intros a Ha.
    transitivity (U x a * sum r (fun c => Mred a c * w c)).
    + f_equal. apply sum_ext; intros c Hc. rewrite (Ut_Aop_U a c Ha Hc). reflexivity.
    + rewrite (Hw a Ha). ring.
Qed.

End DmdModes.
