(* Galerkin descent (C07.2), abstract: A Hermitian with non-negative quadratic form, P any frame,
   y a solution of the projected system P^H A P y = P^H b, A xs = b.  Then for every z
       e(P z) = e(P y) + (P(z-y))^H A (P(z-y)),      e(x) := (x - xs)^H A (x - xs),
   so the micro solve yields the smallest energy-norm error over the range of the frame. *)
From Coq Require Import ZArith List Lia Ring Arith.
Require Import Ring Sums.

Section Galerkin.
Context {R : cring}.
Add Ring Rr15 : (cring_th R).
Open Scope cr_scope.
Notation cj := (cconj R).

Lemma sum_sub n (f h : nat -> R) : sum n f - sum n h = sum n (fun i => f i - h i).
Proof. induction n as [|n IH]; simpl; [ring|]. rewrite <- IH. ring. Qed.

Variable N : nat.
Variable A : nat -> nat -> R.
Hypothesis A_herm : forall i j, A i j = cj (A j i).
Definition bil (u v : nat -> R) : R := sum N (fun i => sum N (fun j => cj (u i) * A i j * v j)).
Definition vadd (u v : nat -> R) i := u i + v i.
Definition vsub (u v : nat -> R) i := u i - v i.

Lemma bil_add_l u u' v : bil (vadd u u') v = bil u v + bil u' v.
Proof. unfold bil, vadd. rewrite <- sum_add. apply sum_ext; intros i _.
  rewrite <- sum_add. apply sum_ext; intros j _. rewrite conj_add; ring. Qed.
Lemma bil_add_r u v v' : bil u (vadd v v') = bil u v + bil u v'.
Proof. unfold bil, vadd. rewrite <- sum_add. apply sum_ext; intros i _.
  rewrite <- sum_add. apply sum_ext; intros j _. ring. Qed.
Lemma bil_herm u v : bil u v = cj (bil v u).
Proof.
  unfold bil. rewrite sum_conj.
  erewrite (sum_ext N (fun i => cj (sum N _))); [|intros i _; rewrite sum_conj; reflexivity].
  rewrite (sum_swap N N (fun i j => cj (cj (v i) * A i j * u j))).
  apply sum_ext; intros i _. apply sum_ext; intros j _.
  rewrite !conj_mul, conj_inv, (A_herm i j). ring.
Qed.

Variable K : nat.
Variable P : nat -> nat -> R.
Definition app (z : nat -> R) : nat -> R := fun i => sum K (fun k => P i k * z k).
Variables (b xs : nat -> R).
Hypothesis A_xs : forall i, (i < N)%nat -> sum N (fun j => A i j * xs j) = b i.
Variable y : nat -> R.
Hypothesis galerkin : forall k, (k < K)%nat ->
  sum N (fun i => cj (P i k) * sum N (fun j => A i j * app y j)) = sum N (fun i => cj (P i k) * b i).

Definition err (x : nat -> R) := bil (vsub x xs) (vsub x xs).

Lemma cross_zero z : bil (app z) (vsub (app y) xs) = 0.
Proof.
  unfold bil, vsub.
  transitivity (sum N (fun i => cj (app z i) * (sum N (fun j => A i j * app y j) - b i))).
  { apply sum_ext; intros i Hi. rewrite <- (A_xs i Hi).
    transitivity (cj (app z i) * sum N (fun j => A i j * app y j - A i j * xs j)).
    - rewrite <- sum_scal_l. apply sum_ext; intros; ring.
    - f_equal. rewrite sum_sub. reflexivity. }
  transitivity (sum K (fun k => cj (z k) * (sum N (fun i => cj (P i k) * sum N (fun j => A i j * app y j))
                                            - sum N (fun i => cj (P i k) * b i)))).
  - transitivity (sum N (fun i => sum K (fun k => cj (z k) * (cj (P i k) * (sum N (fun j => A i j * app y j) - b i))))).
    + apply sum_ext; intros i _. unfold app at 1. rewrite sum_conj, <- sum_scal_r.
      apply sum_ext; intros k _. rewrite conj_mul. ring.
    + rewrite sum_swap. apply sum_ext; intros k _. rewrite sum_sub, <- sum_scal_l.
      apply sum_ext; intros i _. ring.
  - apply sum_zero'. intros k Hk. rewrite (galerkin k Hk). ring.
Qed.

Theorem galerkin_descent z :
  err (app z) = err (app y) + bil (vsub (app z) (app y)) (vsub (app z) (app y)).
Proof.
  set (w := vsub (app z) (app y)). set (r := vsub (app y) xs).
  assert (Hw : forall i, vsub (app z) xs i = vadd w r i) by (intros; unfold w, r, vadd, vsub; ring).
  unfold err.
  assert (E : bil (vsub (app z) xs) (vsub (app z) xs) = bil (vadd w r) (vadd w r)).
  { unfold bil. apply sum_ext; intros i _. apply sum_ext; intros j _. rewrite !Hw. reflexivity. }
  rewrite E, bil_add_l, !bil_add_r.
  assert (Hwapp : forall u, bil w u = bil (app (vsub z y)) u).
  { intros u. unfold bil. apply sum_ext; intros i _. apply sum_ext; intros j _.
    f_equal. f_equal. f_equal. unfold w, vsub, app. rewrite sum_sub. apply sum_ext; intros; ring. }
  assert (C1 : bil w r = 0) by (rewrite Hwapp; apply cross_zero).
  assert (C2 : bil r w = 0) by (rewrite bil_herm, C1; apply conj_0).
  rewrite C1, C2. fold r. ring.
Qed.

(* with a positivity cone: the micro solve never increases the energy-norm error *)
Variable nonneg : R -> Prop.
Hypothesis A_psd : forall v, nonneg (bil v v).
Corollary galerkin_le z : nonneg (err (app z) - err (app y)).
Proof.
  rewrite galerkin_descent.
  match goal with |- nonneg (?a + ?q - ?a) => replace (a + q - a) with q by ring end.
  apply A_psd.
Qed.
End Galerkin.
