(* C12: the SLIM block pattern denotes the sum of the single-site terms, the nearest-neighbour
   terms sum_p L_i[p] (x) M_{i+1}[p] and the cyclic term; Ulam entries are transition counts. *)
From Coq Require Import ZArith List Lia Ring Arith Bool.
Import ListNotations.
Require Import Ring Sums Matrix Core Chain Sweep Slim.

Section SlimProof.
Context {R : cring}.
Add Ring Rr11 : (cring_th R).
Open Scope cr_scope.
Notation core := (core R).
Notation site := (site R).

Lemma sum_blocks4 r c (f : nat -> R) :
  sum (2 + r + c) f = f 0%nat + sum r (fun p => f (1 + p)%nat) + f (1 + r)%nat + sum c (fun q => f (2 + r + q)%nat).
Proof.
  replace (2 + r + c)%nat with ((1 + r + 1) + c)%nat by lia.
  rewrite sum_plus. replace (1 + r + 1)%nat with (1 + (r + 1))%nat by lia.
  rewrite (sum_plus 1 (r + 1)). rewrite (sum_plus r 1). simpl.
  replace (r + 0)%nat with r by lia.
  replace (S (r + 0))%nat with (S r) by lia.
  assert (E : sum c (fun i => f (S (r + 1 + i))) = sum c (fun q => f (S (S (r + q))))).
  { apply sum_ext; intros q _. f_equal. lia. }
  rewrite E. ring.
Qed.

(* delta on all remaining positions *)
Fixpoint idp (xs ys : list nat) : R :=
  match xs, ys with x :: xs', y :: ys' => ind (Nat.eqb x y) * idp xs' ys' | _, _ => 1 end.

(* sum of all terms supported on the given (suffix of) sites: single-site and nearest-neighbour *)
Fixpoint Tsum (ss : list site) (xs ys : list nat) : R :=
  match ss, xs, ys with
  | s :: rest, x :: xs', y :: ys' =>
      sS s x y * idp xs' ys'
      + match rest with
        | s' :: _ => sum (lr s) (fun p => sL s p x y * sM s' p (hd 0%nat xs') (hd 0%nat ys')) * idp (tl xs') (tl ys')
        | [] => 0
        end
      + ind (Nat.eqb x y) * Tsum rest xs' ys'
  | _, _, _ => 0
  end.
(* identity on all but the last site, the cyclic L-family member q on the last *)
Fixpoint cycL (ss : list site) (q : nat) (xs ys : list nat) : R :=
  match ss, xs, ys with
  | [s], [x], [y] => sL s q x y
  | s :: rest, x :: xs', y :: ys' => ind (Nat.eqb x y) * cycL rest q xs' ys'
  | _, _, _ => 0
  end.

(* the column vector a suffix of the pattern denotes *)
Definition colvec (rc rprev : nat) (ss : list site) (xs ys : list nat) (a : nat) : R :=
  if Nat.eqb a 0 then idp xs ys
  else if Nat.ltb a (1 + rprev) then
    match ss with s :: _ => sM s (a - 1)%nat (hd 0%nat xs) (hd 0%nat ys) * idp (tl xs) (tl ys) | [] => 0 end
  else if Nat.eqb a (1 + rprev) then Tsum ss xs ys
  else cycL ss (a - 2 - rprev)%nat xs ys.

Ltac nat_cases :=
  repeat match goal with
         | |- context [Nat.eqb ?a ?b] => destruct (Nat.eqb_spec a b)
         | |- context [Nat.ltb ?a ?b] => destruct (Nat.ltb_spec a b)
         | |- context [Nat.leb ?a ?b] => destruct (Nat.leb_spec a b)
         end; cbn [andb]; try lia.

Lemma slim_tail_value rc : forall (ss : list site) rprev xs ys a,
  ss <> [] -> length xs = length ss -> length ys = length ss -> (a < 2 + rprev + rc)%nat ->
  chain (slim_tail rc rprev ss) xs ys a 0%nat = colvec rc rprev ss xs ys a.
Proof.
  induction ss as [|s ss IH]; intros rprev xs ys a Hne Hx Hy Ha; [congruence|].
  destruct xs as [|x xs]; [discriminate|]. destruct ys as [|y ys]; [discriminate|]. simpl in Hx, Hy.
  destruct ss as [|s' ss].
  - (* last core *)
    destruct xs; [|discriminate]. destruct ys; [|discriminate].
    cbn [slim_tail chain]. unfold mmul. cbn [rr slim_last]. simpl sum.
    unfold cmat, delta. cbn [g slim_last]. unfold colvec. cbn [idp Tsum cycL hd tl]. unfold idm.
    nat_cases; try ring.
  - (* middle core *)
    change (slim_tail rc rprev (s :: s' :: ss)) with (slim_mid rc rprev s :: slim_tail rc (lr s) (s' :: ss)).
    set (tl_ := slim_tail rc (lr s) (s' :: ss)).
    cbn [chain]. unfold mmul. cbn [rr slim_mid slim_mid_gen].
    rewrite (sum_ext _ _ (fun b => cmat (slim_mid rc rprev s) x y a b * colvec rc (lr s) (s' :: ss) xs ys b)).
    2:{ intros b Hb. unfold tl_. rewrite IH; try assumption; try discriminate; try lia. reflexivity. }
    rewrite sum_blocks4.
    destruct xs as [|x1 xs]; [discriminate|]. destruct ys as [|y1 ys]; [discriminate|].
    unfold colvec at 1 3. cbn [Nat.eqb].
    replace (Nat.eqb (1 + lr s) 0) with false by reflexivity.
    replace (Nat.ltb (1 + lr s) (1 + lr s)) with false by (symmetry; apply Nat.ltb_irrefl).
    rewrite Nat.eqb_refl.
    (* the four row blocks *)
    unfold colvec at 3. unfold cmat. cbn [g slim_mid slim_mid_gen].
    destruct (Nat.eqb_spec a 0) as [Ea|Ea].
    + (* a = 0 : identity *)
      subst a. cbn [Nat.eqb].
      rewrite sum_zero' by (intros; nat_cases; ring).
      rewrite sum_zero' by (intros; nat_cases; ring).
      replace (Nat.eqb (1 + lr s) 0) with false by reflexivity.
      cbn [idp]. unfold idm. ring.
    + destruct (Nat.ltb_spec a (1 + rprev)) as [La|La].
      * (* M rows *)
        rewrite sum_zero' by (intros; nat_cases; ring).
        rewrite sum_zero' by (intros; nat_cases; ring).
        replace (Nat.eqb (1 + lr s) 0) with false by reflexivity.
        cbn [Nat.eqb idp hd tl]. ring.
      * destruct (Nat.eqb_spec a (1 + rprev)) as [Es|Es].
        -- (* the S / L / I row *)
           rewrite (sum_zero' rc) by (intros; nat_cases; ring).
           cbn [Nat.eqb].
           rewrite (sum_ext (lr s) _ (fun p => sL s p x y * (sM s' p x1 y1 * idp xs ys))).
           2:{ intros p Hp. unfold colvec. nat_cases. replace (1 + p - 1)%nat with p by lia. cbn [hd tl]. reflexivity. }
           replace (Nat.eqb (1 + lr s) 0) with false by reflexivity.
           replace (Nat.ltb (1 + lr s) (1 + lr s)) with false by (symmetry; apply Nat.ltb_irrefl).
           rewrite Nat.eqb_refl.
           cbn [Tsum idp hd tl]. unfold idm.
           rewrite <- sum_scal_r.
           rewrite (sum_ext (lr s) (fun i => sL s i x y * sM s' i x1 y1 * idp xs ys) (fun p => sL s p x y * (sM s' p x1 y1 * idp xs ys))) by (intros; ring).
           ring.
        -- (* cyclic pass-through rows: a = 2 + rprev + q *)
           cbn [Nat.eqb].
           rewrite (sum_zero' (lr s)) by (intros; nat_cases; ring).
           set (q := (a - 2 - rprev)%nat).
           rewrite (sum_ext rc _ (fun q' => if Nat.eqb q' q then idm x y * cycL (s' :: ss) q (x1 :: xs) (y1 :: ys) else 0)).
           2:{ intros q' Hq'. unfold colvec, q. nat_cases; try ring.
               replace (2 + lr s + q' - 2 - lr s)%nat with (a - 2 - rprev)%nat by lia. ring. }
           rewrite (sum_single rc q (fun _ => idm x y * cycL (s' :: ss) q (x1 :: xs) (y1 :: ys))) by (unfold q; lia).
           nat_cases; unfold idm; cbn [cycL]; destruct ss; ring.
Qed.

(* C12.1: the operator the pattern denotes *)
Theorem slim_pattern_value rc (s0 s1 : site) rest x y xs ys :
  length xs = S (length rest) -> length ys = S (length rest) ->
  elem (slim_pattern rc (s0 :: s1 :: rest)) (x :: xs) (y :: ys) =
  Tsum (s0 :: s1 :: rest) (x :: xs) (y :: ys) + sum rc (fun q => sM s0 q x y * cycL (s1 :: rest) q xs ys).
Proof.
  intros Hx Hy. unfold elem. cbn [slim_pattern chain]. unfold mmul. cbn [rr slim_first].
  rewrite (sum_ext _ _ (fun b => cmat (slim_first rc s0) x y 0%nat b * colvec rc (lr s0) (s1 :: rest) xs ys b)).
  2:{ intros b Hb. rewrite slim_tail_value; try assumption; try discriminate; reflexivity. }
  rewrite sum_blocks4.
  destruct xs as [|x1 xs]; [discriminate|]. destruct ys as [|y1 ys]; [discriminate|].
  unfold cmat. cbn [g slim_first]. unfold colvec at 1 3. cbn [Nat.eqb].
  replace (Nat.eqb (1 + lr s0) 0) with false by reflexivity.
  replace (Nat.ltb (1 + lr s0) (1 + lr s0)) with false by (symmetry; apply Nat.ltb_irrefl).
  rewrite Nat.eqb_refl.
  rewrite (sum_ext (lr s0) _ (fun p => sL s0 p x y * (sM s1 p x1 y1 * idp xs ys))).
  2:{ intros p Hp. unfold colvec. nat_cases. replace (1 + p - 1)%nat with p by lia. cbn [hd tl]. reflexivity. }
  rewrite (sum_ext rc _ (fun q => sM s0 q x y * cycL (s1 :: rest) q (x1 :: xs) (y1 :: ys))).
  2:{ intros q Hq. unfold colvec. nat_cases. replace (2 + lr s0 + q - 2 - lr s0)%nat with q by lia. reflexivity. }
  cbn [Tsum hd tl]. unfold idm.
  rewrite <- sum_scal_r.
  rewrite (sum_ext (lr s0) (fun i => sL s0 i x y * sM s1 i x1 y1 * idp xs ys) (fun p => sL s0 p x y * (sM s1 p x1 y1 * idp xs ys))) by (intros; ring).
  ring.
Qed.

(* C12.2: reaction matrices are generators: every column sums to zero when the product state lies
   inside the state space *)
Lemma smat_cons r p rate (rs : list (@reaction1 R)) x y :
  smat ((r, p, rate) :: rs) x y = smat rs x y + rate * (ind (Nat.eqb y r && Nat.eqb x p) - ind (Nat.eqb y r && Nat.eqb x r)).
Proof. reflexivity. Qed.
Lemma smat_colsum d (rs : list (@reaction1 R)) y :
  Forall (fun q : reaction1 => let '(r, p, _) := q in (r < d)%nat /\ (p < d)%nat) rs ->
  sum d (fun x => smat rs x y) = 0.
Proof.
  induction rs as [|[[r p] rate] rs IH]; intros HF.
  - simpl. apply sum_zero.
  - inversion HF as [|? ? H1 HF']; subst. simpl in H1. destruct H1 as (Hr & Hp).
    rewrite (sum_ext d _ (fun x => smat rs x y + rate * (ind (Nat.eqb y r && Nat.eqb x p) - ind (Nat.eqb y r && Nat.eqb x r))))
      by (intros; apply smat_cons).
    rewrite sum_add. rewrite IH by assumption. rewrite sum_scal_l.
    assert (E : sum d (fun x => @ind R (Nat.eqb y r && Nat.eqb x p) - ind (Nat.eqb y r && Nat.eqb x r)) = c0 R).
    { destruct (Nat.eqb y r) eqn:Ey; cbn [andb].
      - transitivity (sum d (fun x => (if Nat.eqb x p then c1 R else 0) + - (if Nat.eqb x r then c1 R else 0))).
        + apply sum_ext; intros x _. unfold ind. destruct (Nat.eqb x p), (Nat.eqb x r); ring.
        + rewrite sum_add, sum_opp.
          rewrite (sum_single d p (fun _ => 1)) by assumption. rewrite (sum_single d r (fun _ => 1)) by assumption. ring.
      - apply sum_zero'. intros; unfold ind; ring. }
    rewrite E. ring.
Qed.

(* C12.3: Ulam 2-D: the entry at ((x1,x2),(y1,y2)) (before transposition and 1/N scaling) is the number
   of recorded transitions (x1,x2) -> (y1,y2) *)
Theorem ulam2_counts s1 s2 (ts : list trans2) uniq inv x1 x2 y1 y2 :
  length inv = length ts ->
  (forall t, (t < length ts)%nat -> (nth t inv 0%nat < length uniq)%nat /\
      nth (nth t inv 0%nat) uniq (0, 0)%nat = (let '(a, _, c, _) := nth t ts (0, 0, 0, 0)%nat in (a, c))) ->
  elem (@ulam2_cores R s1 s2 ts uniq inv) [x1; x2] [y1; y2] =
  count_if (length ts) (fun t => let '(a, b, c, d) := nth t ts (0, 0, 0, 0)%nat in
                                 Nat.eqb a x1 && Nat.eqb b x2 && Nat.eqb c y1 && Nat.eqb d y2).
Proof.
  intros Hl Hu. unfold elem, ulam2_cores. cbn [chain]. unfold mmul at 1. cbn [rr].
  rewrite (sum_ext _ _ (fun i => ind (Nat.eqb x1 (fst (nth i uniq (0, 0)%nat)) && Nat.eqb y1 (snd (nth i uniq (0, 0)%nat))) *
      count_if (length ts) (fun t => let '(_, b, _, d) := nth t ts (0, 0, 0, 0)%nat in
                                     Nat.eqb (nth t inv 0%nat) i && Nat.eqb b x2 && Nat.eqb d y2))).
  2:{ intros i Hi. unfold mmul. simpl sum. unfold cmat, delta. cbn [g]. simpl. ring. }
  unfold count_if.
  erewrite sum_ext; [|intros i _; rewrite <- sum_scal_l; reflexivity].
  rewrite sum_swap. apply sum_ext; intros t Ht.
  destruct (Hu t Ht) as (Hlt & Hnth).
  destruct (nth t ts (0, 0, 0, 0)%nat) as [[[a b] c] d] eqn:Et.
  rewrite (sum_ext _ _ (fun i => if Nat.eqb i (nth t inv 0%nat) then
       ind (Nat.eqb x1 a && Nat.eqb y1 c) * ind (Nat.eqb b x2 && Nat.eqb d y2) else 0)).
  - rewrite (sum_single (length uniq) (nth t inv 0%nat) (fun _ => ind (Nat.eqb x1 a && Nat.eqb y1 c) * ind (Nat.eqb b x2 && Nat.eqb d y2))) by assumption.
    unfold ind. rewrite (Nat.eqb_sym x1 a), (Nat.eqb_sym y1 c).
    destruct (Nat.eqb a x1), (Nat.eqb b x2), (Nat.eqb c y1), (Nat.eqb d y2); cbn [andb]; ring.
  - intros i Hi. rewrite (Nat.eqb_sym i). destruct (Nat.eqb_spec (nth t inv 0%nat) i) as [E|E].
    + subst i. rewrite Hnth. cbn [fst snd andb]. reflexivity.
    + cbn [andb]. unfold ind. ring.
Qed.
(* C12.3b: Ulam 3-D: the entry at ((x1,x2,x3),(y1,y2,y3)) (before transposition and 1/N scaling) is the number of recorded
   transitions (x1,x2,x3) -> (y1,y2,y3) *)
Theorem ulam3_counts s1 s2 s3 (ts : list trans3) uniq1 inv1 uniq2 inv2 x1 x2 x3 y1 y2 y3 :
  (forall t, (t < length ts)%nat ->
      (nth t inv1 0%nat < length uniq1)%nat /\ (nth t inv2 0%nat < length uniq2)%nat /\
      nth (nth t inv1 0%nat) uniq1 (0, 0)%nat = (let '(a, _, _, d, _, _) := nth t ts t3d in (a, d)) /\
      nth (nth t inv2 0%nat) uniq2 (0, 0)%nat = (let '(_, _, c, _, _, f) := nth t ts t3d in (c, f))) ->
  elem (@ulam3_cores R s1 s2 s3 ts uniq1 inv1 uniq2 inv2) [x1; x2; x3] [y1; y2; y3] =
  count_if (length ts) (fun t => let '(a, b, c, d, e, f) := nth t ts t3d in
                                 Nat.eqb a x1 && Nat.eqb b x2 && Nat.eqb c x3 && Nat.eqb d y1 && Nat.eqb e y2 && Nat.eqb f y3).
Proof.
  intros Hu. unfold elem, ulam3_cores. cbn [chain]. unfold mmul at 1. cbn [rr].
  set (r1 := length uniq1). set (r2 := length uniq2).
  rewrite (sum_ext r1 _ (fun i => sum r2 (fun j =>
      @ind R (Nat.eqb x1 (fst (nth i uniq1 (0, 0)%nat)) && Nat.eqb y1 (snd (nth i uniq1 (0, 0)%nat))) *
      (count_if (length ts) (fun t => let '(_, b, _, _, e, _) := nth t ts t3d in
                                     Nat.eqb (nth t inv1 0%nat) i && Nat.eqb b x2 && Nat.eqb e y2 && Nat.eqb (nth t inv2 0%nat) j) *
       @ind R (Nat.eqb x3 (fst (nth j uniq2 (0, 0)%nat)) && Nat.eqb y3 (snd (nth j uniq2 (0, 0)%nat))))))).
  2:{ intros i Hi. unfold cmat at 1. cbn [g]. unfold mmul at 1. rewrite <- (sum_scal_l r2).
      apply sum_ext; intros j Hj. f_equal. f_equal. unfold mmul. simpl sum. unfold cmat, delta. cbn [g]. simpl. ring. }
  unfold count_if.
  transitivity (sum (length ts) (fun t => sum r1 (fun i => sum r2 (fun j =>
      @ind R (Nat.eqb x1 (fst (nth i uniq1 (0, 0)%nat)) && Nat.eqb y1 (snd (nth i uniq1 (0, 0)%nat))) *
      (@ind R (let '(_, b, _, _, e, _) := nth t ts t3d in
            Nat.eqb (nth t inv1 0%nat) i && Nat.eqb b x2 && Nat.eqb e y2 && Nat.eqb (nth t inv2 0%nat) j) *
       @ind R (Nat.eqb x3 (fst (nth j uniq2 (0, 0)%nat)) && Nat.eqb y3 (snd (nth j uniq2 (0, 0)%nat)))))))).
  { erewrite (sum_ext r1); cycle 1.
    { intros i _. erewrite (sum_ext r2); cycle 1.
      { intros j _. rewrite <- (sum_scal_r (length ts)), <- (sum_scal_l (length ts)). reflexivity. }
      rewrite (sum_swap r2 (length ts)). reflexivity. }
    rewrite (sum_swap r1 (length ts)). reflexivity. }
  apply sum_ext; intros t Ht.
  destruct (Hu t Ht) as (Hl1 & Hl2 & Hn1 & Hn2).
  destruct (nth t ts t3d) as [[[[[a b] c] d] e] f] eqn:Et.
  rewrite (sum_ext r1 _ (fun i => if Nat.eqb i (nth t inv1 0%nat) then
       @ind R (Nat.eqb x1 a && Nat.eqb y1 d) * (@ind R (Nat.eqb b x2 && Nat.eqb e y2) * @ind R (Nat.eqb x3 c && Nat.eqb y3 f)) else 0)).
  - rewrite (sum_single r1 (nth t inv1 0%nat) (fun _ => @ind R (Nat.eqb x1 a && Nat.eqb y1 d) * (@ind R (Nat.eqb b x2 && Nat.eqb e y2) * @ind R (Nat.eqb x3 c && Nat.eqb y3 f)))) by exact Hl1.
    unfold ind. rewrite (Nat.eqb_sym x1 a), (Nat.eqb_sym y1 d), (Nat.eqb_sym x3 c), (Nat.eqb_sym y3 f).
    destruct (Nat.eqb a x1), (Nat.eqb b x2), (Nat.eqb c x3), (Nat.eqb d y1), (Nat.eqb e y2), (Nat.eqb f y3); cbn [andb]; ring.
  - intros i Hi. rewrite (Nat.eqb_sym i). destruct (Nat.eqb_spec (nth t inv1 0%nat) i) as [E|E].
    + subst i. rewrite Hn1. cbn [fst snd].
      rewrite (sum_ext r2 _ (fun j => if Nat.eqb j (nth t inv2 0%nat) then
          @ind R (Nat.eqb x1 a && Nat.eqb y1 d) * (@ind R (Nat.eqb b x2 && Nat.eqb e y2) * @ind R (Nat.eqb x3 c && Nat.eqb y3 f)) else 0)).
      * apply (sum_single r2 (nth t inv2 0%nat) (fun _ => @ind R (Nat.eqb x1 a && Nat.eqb y1 d) * (@ind R (Nat.eqb b x2 && Nat.eqb e y2) * @ind R (Nat.eqb x3 c && Nat.eqb y3 f)))). exact Hl2.
      * intros j Hj. rewrite (Nat.eqb_sym j). destruct (Nat.eqb_spec (nth t inv2 0%nat) j) as [E2|E2].
        -- subst j. rewrite Hn2. cbn [fst snd]. cbn [andb].
           unfold ind. destruct (Nat.eqb b x2), (Nat.eqb e y2); cbn [andb]; ring.
        -- unfold ind. destruct (Nat.eqb b x2), (Nat.eqb e y2); cbn [andb]; ring.
    + apply sum_zero'. intros j _. unfold ind. cbn [andb]. ring.
Qed.
End SlimProof.
