(* C07 / C08: exactness at maximal ranks.  When the frame P (n x r) of a micro step is not only an isometry but square and
   unitary (P P^H = I on the whole space -- the situation at maximal TT ranks), the solution of the micro system
   (P^H A P) y = P^H b gives the solution of the full system, A (P y) = b, and an eigenpair of the micro matrix gives an
   eigenpair of the full operator.  Together with the frame identities (micro matrix = P^H A P, micro right-hand side =
   P^H b) this is the clause "a guess of maximal ranks gives the exact solution / eigenpair". *)
From Coq Require Import ZArith List Lia Ring Arith Bool.
Import ListNotations.
Require Import Ring Sums Matrix.

Section FullRank.
Context {R : cring}.
Add Ring Rr49 : (cring_th R).
Open Scope cr_scope.

Variables (n r : nat).
Variable P : M R.                       (* n x r *)
Variable A : M R.                       (* n x n *)
Hypothesis PPh : forall i j, (i < n)%nat -> (j < n)%nat -> sum r (fun k => P i k * cconj R (P j k)) = delta i j.

Definition microM : M R := fun k l => sum n (fun i => sum n (fun j => cconj R (P i k) * (A i j * P j l))).
Definition lift (y : nat -> R) : nat -> R := fun j => sum r (fun l => P j l * y l).

(* P (P^H v) = v *)
Lemma project_back (v : nat -> R) i : (i < n)%nat ->
  sum r (fun k => P i k * sum n (fun j => cconj R (P j k) * v j)) = v i.
Proof.
  intros Hi.
  transitivity (sum n (fun j => sum r (fun k => P i k * cconj R (P j k)) * v j)).
  - erewrite sum_ext; [|intros k _; rewrite <- sum_scal_l; reflexivity].
    rewrite sum_swap. apply sum_ext; intros j _. rewrite <- sum_scal_r. apply sum_ext; intros k _. ring.
  - rewrite (sum_ext n _ (fun j => if Nat.eqb j i then v j else 0)).
    + apply (sum_single n i v). exact Hi.
    + intros j Hj. rewrite (PPh i j Hi Hj). unfold delta. rewrite (Nat.eqb_sym i j). destruct (Nat.eqb j i); ring.
Qed.

Lemma micro_apply (y : nat -> R) k :
  sum r (fun l => microM k l * y l) = sum n (fun i => cconj R (P i k) * sum n (fun j => A i j * lift y j)).
Proof.
  unfold microM, lift.
  transitivity (sum n (fun i => sum n (fun j => sum r (fun l => cconj R (P i k) * (A i j * P j l) * y l)))).
  - erewrite sum_ext; [|intros l _; rewrite <- sum_scal_r; erewrite sum_ext; [|intros i _; rewrite <- sum_scal_r; reflexivity]; reflexivity].
    rewrite sum_swap. apply sum_ext; intros i _. rewrite sum_swap. reflexivity.
  - apply sum_ext; intros i _. rewrite <- sum_scal_l. apply sum_ext; intros j _.
    rewrite <- sum_scal_l, <- sum_scal_l. apply sum_ext; intros l _. ring.
Qed.

(* linear systems *)
Theorem full_rank_solve (b : nat -> R) (y : nat -> R) :
  (forall k, (k < r)%nat -> sum r (fun l => microM k l * y l) = sum n (fun i => cconj R (P i k) * b i)) ->
  forall i, (i < n)%nat -> sum n (fun j => A i j * lift y j) = b i.
Proof.
  intros Hm i Hi.
  rewrite <- (project_back (fun i0 => sum n (fun j => A i0 j * lift y j)) i Hi).
  rewrite <- (project_back b i Hi).
  apply sum_ext; intros k Hk. f_equal. rewrite <- micro_apply. apply Hm. exact Hk.
Qed.

(* eigenvalue problems: a micro eigenpair is an eigenpair of the operator *)
Theorem full_rank_eigen (lam : R) (y : nat -> R) :
  (forall k, (k < r)%nat -> sum r (fun l => microM k l * y l) = lam * y k) ->
  forall i, (i < n)%nat -> sum n (fun j => A i j * lift y j) = lam * lift y i.
Proof.
  intros Hm i Hi.
  rewrite <- (project_back (fun i0 => sum n (fun j => A i0 j * lift y j)) i Hi).
  unfold lift at 2. rewrite <- sum_scal_l. apply sum_ext; intros k Hk.
  rewrite <- micro_apply. rewrite (Hm k Hk). ring.
Qed.

End FullRank.
