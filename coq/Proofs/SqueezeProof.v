(* C02: squeeze.  Cores without a mode (row and column dimension 1) are multiplied into a neighbour; the represented
   tensor is unchanged: the entry of the squeezed train at the indices of the remaining modes equals the entry of the
   original train (whose indices at the removed positions are 0). *)
From Coq Require Import ZArith List Lia Ring Arith Bool.
Import ListNotations.
Require Import Ring Sums Matrix Core Chain Sweep Structure.

Section SqueezeProof.
Context {R : cring}.
Add Ring Rr47 : (cring_th R).
Open Scope cr_scope.
Notation core := (core R).

(* the indices of the cores that keep a mode *)
Fixpoint keep (cs : list core) (xs : list nat) : list nat :=
  match cs, xs with
  | c :: cs', x :: xs' => if nomode c then keep cs' xs' else x :: keep cs' xs'
  | _, _ => []
  end.
(* index lists of the right length that are 0 at the mode-less positions *)
Fixpoint zero_at (cs : list core) (xs ys : list nat) : Prop :=
  match cs, xs, ys with
  | [], [], [] => True
  | c :: cs', x :: xs', y :: ys' => (nomode c = true -> x = 0%nat /\ y = 0%nat) /\ zero_at cs' xs' ys'
  | _, _, _ => False
  end.

Lemma cmat_absorb (cur c : core) x y a b :
  cmat (absorb_r cur c) x y a b = mmul (rr cur) (cmat cur x y) (cmat c 0%nat 0%nat) a b.
Proof. reflexivity. Qed.

Lemma squeeze_tail_value : forall (cs : list core) (cur : core) xs ys x y i j,
  zero_at cs xs ys ->
  chain (squeeze_tail cur cs) (x :: keep cs xs) (y :: keep cs ys) i j = chain (cur :: cs) (x :: xs) (y :: ys) i j.
Proof.
  induction cs as [|c cs IH]; intros cur xs ys x y i j Hz.
  - destruct xs; [|cbn in Hz; tauto]. destruct ys; [|cbn in Hz; tauto]. reflexivity.
  - destruct xs as [|x1 xs]; [cbn in Hz; tauto|]. destruct ys as [|y1 ys]; [cbn in Hz; tauto|].
    cbn [zero_at] in Hz. destruct Hz as [H0 Hz]. cbn [squeeze_tail keep].
    destruct (nomode c) eqn:En.
    + destruct (H0 eq_refl) as [-> ->].
      rewrite (IH (absorb_r cur c) xs ys x y i j Hz).
      cbn [chain]. cbn [rr absorb_r].
      rewrite <- (mmul_assoc (rr cur) (rr c)). apply mmul_ext; intros k Hk; [|reflexivity].
      apply cmat_absorb.
    + cbn [chain]. apply mmul_ext; intros k Hk; [reflexivity|].
      apply (IH c xs ys x1 y1 k j Hz).
Qed.

(* a carried row vector in front of a chain *)
Definition pre (v : option (nat * (nat -> R))) (M : nat -> nat -> R) (j : nat) : R :=
  match v with None => M 0%nat j | Some (n, w) => sum n (fun q => w q * M q j) end.
Definition vdim_ok (v : option (nat * (nat -> R))) (r : nat) : Prop :=
  match v with None => True | Some (n, _) => n = r end.

Lemma pre_ext v (M M' : nat -> nat -> R) j : (forall i, M i j = M' i j) -> pre v M j = pre v M' j.
Proof. intros H. destruct v as [[n w]|]; cbn [pre]; [apply sum_ext; intros q _; rewrite H; reflexivity|apply H]. Qed.

Lemma squeeze_lead_value : forall (cs : list core) v xs ys j fin,
  zero_at cs xs ys -> linked cs fin -> vdim_ok v (rl_of cs fin) ->
  match squeeze_lead v cs with
  | (v', c :: cs') =>
      exists x y xs' ys', keep cs xs = x :: keep cs' xs' /\ keep cs ys = y :: keep cs' ys' /\ zero_at cs' xs' ys' /\
        pre v (chain cs xs ys) j = pre v' (chain (c :: cs') (x :: xs') (y :: ys')) j /\ vdim_ok v' (rl c)
  | (_, []) => True
  end.
Proof.
  induction cs as [|c cs IH]; intros v xs ys j fin Hz HL Hv; [exact I|].
  destruct xs as [|x1 xs]; [cbn in Hz; tauto|]. destruct ys as [|y1 ys]; [cbn in Hz; tauto|].
  cbn [zero_at] in Hz. destruct Hz as [H0 Hz]. cbn [linked] in HL. destruct HL as (Pc & Ec & HL).
  cbn [squeeze_lead keep]. cbn [rl_of] in Hv.
  destruct (nomode c) eqn:En.
  - destruct (H0 eq_refl) as [-> ->].
    set (v2 := match v with
               | None => Some (rr c, fun b => g c 0%nat 0%nat 0%nat b)
               | Some (n, w) => Some (rr c, fun b => sum n (fun q => w q * g c q 0%nat 0%nat b))
               end).
    assert (Hv2 : vdim_ok v2 (rl_of cs fin)) by (unfold v2; destruct v as [[n w]|]; cbn [vdim_ok]; exact Ec).
    assert (Hstep : pre v (chain (c :: cs) (0%nat :: xs) (0%nat :: ys)) j = pre v2 (chain cs xs ys) j).
    { unfold v2. destruct v as [[n w]|]; cbn [pre chain]; unfold mmul, cmat.
      - erewrite sum_ext; [|intros q _; rewrite <- sum_scal_l; reflexivity].
        rewrite sum_swap. apply sum_ext; intros e _. rewrite <- sum_scal_r. apply sum_ext; intros q _. ring.
      - reflexivity. }
    replace (match v with
             | Some (n, w) => squeeze_lead (Some (rr c, fun b => sum n (fun q => w q * g c q 0%nat 0%nat b))) cs
             | None => squeeze_lead (Some (rr c, fun b => g c 0%nat 0%nat 0%nat b)) cs
             end) with (squeeze_lead v2 cs) by (unfold v2; destruct v as [[n w]|]; reflexivity).
    specialize (IH v2 xs ys j fin Hz HL Hv2).
    destruct (squeeze_lead v2 cs) as [v' [|c' cs']]; [exact I|].
    destruct IH as (x & y & xs' & ys' & K1 & K2 & Hz' & IH1 & IH2).
    exists x, y, xs', ys'. repeat split; try assumption. rewrite Hstep. exact IH1.
  - exists x1, y1, xs, ys. repeat split; try assumption; reflexivity.
Qed.

(* squeeze preserves the entries: the indices of the removed (mode-less) positions are 0 *)
Theorem squeeze_value (cs : list core) xs ys j fin :
  zero_at cs xs ys -> linked cs fin -> squeeze cs <> [] ->
  chain (squeeze cs) (keep cs xs) (keep cs ys) 0%nat j = chain cs xs ys 0%nat j.
Proof.
  intros Hz HL Hne. unfold squeeze in *.
  pose proof (squeeze_lead_value cs None xs ys j fin Hz HL I) as H.
  destruct (squeeze_lead None cs) as [v' [|c cs']]; [exfalso; apply Hne; destruct v' as [[? ?]|]; reflexivity|].
  destruct H as (x & y & xs' & ys' & K1 & K2 & Hz' & H1 & H2). cbn [pre] in H1. rewrite H1, K1, K2.
  destruct v' as [[n w]|]; cbn [pre].
  - cbn [vdim_ok] in H2. subst n.
    rewrite (squeeze_tail_value cs' _ xs' ys' x y 0%nat j Hz').
    cbn [chain rr]. unfold mmul, cmat. cbn [g].
    erewrite (sum_ext (rl c)); [|intros q _; rewrite <- sum_scal_l; reflexivity].
    rewrite sum_swap. apply sum_ext; intros e _. rewrite <- sum_scal_r. apply sum_ext; intros q _. ring.
  - apply (squeeze_tail_value cs' c xs' ys' x y 0%nat j Hz').
Qed.

End SqueezeProof.
