(* C19: the explicit product-rule sums of generator_on_product equal the recursion that the tensor-network
   contraction carries out ([psi, L psi, sigma^T grad psi] multiplied mode by mode). *)
From Coq Require Import ZArith List Lia Ring Arith Bool.
Import ListNotations.
Require Import Ring Sums Matrix Gedmd.

Section GP.
Context {R : cring}.
Add Ring Rr28 : (cring_th R).
Open Scope cr_scope.
Variables (hlf : R -> R) (d d2 : nat) (b : nat -> R) (sg : nat -> nat -> R).
Notation fjet := (@fjet R).
Notation gen1 := (gen1 hlf d d2 b sg).
Notation sgrad := (sgrad d sg).
Notation amat := (amat d2 sg).
Notation frob := (frob d).

(* a : (g_v g_j^T) = (sigma^T g_v) . (sigma^T g_j) *)
Lemma frob_sigma (gv gj : nat -> R) :
  frob amat (fun x y => gv x * gj y) = sum d2 (fun k => sum d (fun x => gv x * sg x k) * sum d (fun y => gj y * sg y k)).
Proof.
  unfold Gedmd.frob, Gedmd.amat.
  transitivity (sum d (fun x => sum d (fun y => sum d2 (fun k => (gv x * sg x k) * (gj y * sg y k))))).
  - apply sum_ext; intros x _. apply sum_ext; intros y _. rewrite <- sum_scal_r. apply sum_ext; intros k _. ring.
  - transitivity (sum d (fun x => sum d2 (fun k => sum d (fun y => (gv x * sg x k) * (gj y * sg y k))))).
    + apply sum_ext; intros x _. apply sum_swap.
    + rewrite sum_swap. apply sum_ext; intros k _. rewrite <- sum_scal_r. apply sum_ext; intros x _.
      rewrite <- sum_scal_l. reflexivity.
Qed.

Lemma pex_ext (e1 e2 : nat -> bool) : forall (js : list fjet) pos,
  (forall l, (pos <= l < pos + length js)%nat -> e1 l = e2 l) -> pex e1 pos js = pex e2 pos js.
Proof.
  induction js as [|f js IH]; intros pos H; [reflexivity|]. cbn [pex].
  rewrite (H pos) by (cbn [length]; lia). rewrite (IH (S pos)); [reflexivity|]. intros l Hl. apply H. cbn [length]. lia.
Qed.
Lemma pex_app (e : nat -> bool) : forall (a c : list fjet) pos, pex e pos (a ++ c) = pex e pos a * pex e (pos + length a) c.
Proof.
  induction a as [|f a IH]; intros c pos; cbn [app pex length].
  - replace (pos + 0)%nat with pos by lia. ring.
  - rewrite IH. replace (S pos + length a)%nat with (pos + S (length a))%nat by lia. ring.
Qed.
Definition pall (js : list fjet) : R := pex (fun _ => false) 0 js.

Lemma pex_snoc_lt (js : list fjet) (f : fjet) j : (j < length js)%nat ->
  pex (Nat.eqb j) 0 (js ++ [f]) = pex (Nat.eqb j) 0 js * fv f.
Proof.
  intros Hj. rewrite pex_app. cbn [pex]. destruct (Nat.eqb_spec j (0 + length js)); [lia|]. ring.
Qed.
Lemma pex_snoc_eq (js : list fjet) (f : fjet) : pex (Nat.eqb (length js)) 0 (js ++ [f]) = pall js.
Proof.
  rewrite pex_app. cbn [pex]. rewrite Nat.eqb_refl. unfold pall.
  rewrite (pex_ext (Nat.eqb (length js)) (fun _ => false) js 0); [ring|].
  intros l Hl. destruct (Nat.eqb_spec (length js) l); [lia|reflexivity].
Qed.
Lemma pex2_snoc_lt (js : list fjet) (f : fjet) j v : (j < length js)%nat -> (v < length js)%nat ->
  pex (fun l => Nat.eqb l j || Nat.eqb l v) 0 (js ++ [f]) = pex (fun l => Nat.eqb l j || Nat.eqb l v) 0 js * fv f.
Proof.
  intros Hj Hv. rewrite pex_app. cbn [pex].
  destruct (Nat.eqb_spec (0 + length js) j); [lia|]. destruct (Nat.eqb_spec (0 + length js) v); [lia|]. cbn [orb]. ring.
Qed.
Lemma pex2_snoc_last (js : list fjet) (f : fjet) j : (j < length js)%nat ->
  pex (fun l => Nat.eqb l j || Nat.eqb l (length js)) 0 (js ++ [f]) = pex (Nat.eqb j) 0 js.
Proof.
  intros Hj. rewrite pex_app. cbn [pex]. cbn [Nat.add]. rewrite Nat.eqb_refl, orb_true_r.
  rewrite (pex_ext (fun l => Nat.eqb l j || Nat.eqb l (length js)) (Nat.eqb j) js 0); [ring|].
  intros l Hl. destruct (Nat.eqb_spec l (length js)); [lia|]. rewrite orb_false_r. apply Nat.eqb_sym.
Qed.

(* closed forms of the carried vector *)
Definition GPsum (js : list fjet) (k : nat) : R := sum (length js) (fun j => sgrad (nth j js dj) k * pex (Nat.eqb j) 0 js).

Lemma nth_snoc_lt (js : list fjet) f j : (j < length js)%nat -> nth j (js ++ [f]) dj = nth j js dj.
Proof. intros H. apply app_nth1. exact H. Qed.
Lemma nth_snoc_eq (js : list fjet) f : nth (length js) (js ++ [f]) dj = f.
Proof. rewrite app_nth2 by lia. rewrite Nat.sub_diag. reflexivity. Qed.

Lemma pall_snoc (js : list fjet) f : pall (js ++ [f]) = pall js * fv f.
Proof. unfold pall. rewrite pex_app. cbn [pex]. ring. Qed.

Lemma GPsum_snoc (js : list fjet) f k : GPsum (js ++ [f]) k = pall js * sgrad f k + GPsum js k * fv f.
Proof.
  unfold GPsum. rewrite app_length. cbn [length]. rewrite Nat.add_1_r. cbn [sum].
  rewrite nth_snoc_eq, pex_snoc_eq.
  rewrite (sum_ext (length js) _ (fun j => sgrad (nth j js dj) k * pex (Nat.eqb j) 0 js * fv f)).
  - rewrite sum_scal_r. ring.
  - intros j Hj. rewrite nth_snoc_lt, pex_snoc_lt by exact Hj. ring.
Qed.

Lemma gop_snoc (js : list fjet) f :
  gen_on_product hlf d d2 b sg (js ++ [f]) =
  pall js * gen1 f + gen_on_product hlf d d2 b sg js * fv f + sum d2 (fun k => GPsum js k * sgrad f k).
Proof.
  unfold gen_on_product. rewrite app_length. cbn [length]. rewrite Nat.add_1_r.
  cbn [sum].
  (* the term j = (length js) *)
  rewrite nth_snoc_eq, pex_snoc_eq.
  rewrite (sum_ext (length js) (fun v => if Nat.ltb (length js) v then _ else 0) (fun _ => 0)) by (intros v Hv; destruct (Nat.ltb_spec (length js) v); [lia|reflexivity]).
  rewrite sum_zero. rewrite Nat.ltb_irrefl.
  (* the terms j < (length js) *)
  rewrite (sum_ext (length js) _ (fun j =>
     (pex (Nat.eqb j) 0 js * gen1 (nth j js dj)
      + sum (length js) (fun v => if Nat.ltb j v
                        then pex (fun l => Nat.eqb l j || Nat.eqb l v) 0 js * frob amat (fun x y => fg (nth v js dj) x * fg (nth j js dj) y)
                        else 0)) * fv f
     + pex (Nat.eqb j) 0 js * sum d2 (fun k => sgrad f k * sgrad (nth j js dj) k))).
  - rewrite sum_add, sum_scal_r.
    assert (E : sum (length js) (fun j => pex (Nat.eqb j) 0 js * sum d2 (fun k => sgrad f k * sgrad (nth j js dj) k)) =
                sum d2 (fun k => GPsum js k * sgrad f k)).
    { unfold GPsum.
      erewrite sum_ext; [|intros j _; rewrite <- sum_scal_l; reflexivity].
      rewrite sum_swap. apply sum_ext; intros k _. rewrite <- sum_scal_r. apply sum_ext; intros j _. ring. }
    rewrite E. ring.
  - intros j Hj. rewrite nth_snoc_lt, pex_snoc_lt by exact Hj.
    destruct (Nat.ltb_spec j (length js)) as [_|]; [|lia].
    rewrite (pex2_snoc_last js f j Hj).
    rewrite (frob_sigma (fg f) (fg (nth j js dj))).
    rewrite (sum_ext (length js) (fun v => if Nat.ltb j v then pex (fun l => Nat.eqb l j || Nat.eqb l v) 0 (js ++ [f]) * _ else 0)
                       (fun v => (if Nat.ltb j v then pex (fun l => Nat.eqb l j || Nat.eqb l v) 0 js *
                                       frob amat (fun x y => fg (nth v js dj) x * fg (nth j js dj) y) else 0) * fv f)).
    + rewrite sum_scal_r. unfold Gedmd.sgrad. ring.
    + intros v Hv. rewrite (nth_snoc_lt js f v Hv). destruct (Nat.ltb j v); [|ring].
      rewrite (pex2_snoc_lt js f j v Hj Hv). ring.
Qed.

(* the recursion carried by the contraction, in closed form: its middle component is generator_on_product *)
Theorem tfold_closed (js : list fjet) :
  let '(P, LP, GP) := tfold hlf d d2 b sg js in
  P = pall js /\ LP = gen_on_product hlf d d2 b sg js /\ forall k, GP k = GPsum js k.
Proof.
  induction js as [|f js IH] using rev_ind.
  - cbn. unfold pall, gen_on_product, GPsum. cbn. repeat split; reflexivity.
  - unfold tfold in *. rewrite fold_left_app. cbn [fold_left].
    destruct (fold_left (tstep hlf d d2 b sg) js tunit) as [[P LP] GP]. destruct IH as (HP & HL & HG).
    cbn [tstep]. repeat split.
    + rewrite pall_snoc, HP. reflexivity.
    + rewrite gop_snoc, HP, HL. f_equal. apply sum_ext; intros k _. rewrite HG. reflexivity.
    + intros k. rewrite GPsum_snoc, HP, HG. reflexivity.
Qed.

(* reversible variant: sigma[:, i] . grad (prod psi) is the i-th entry of the carried sigma^T grad psi *)
Theorem rev_closed (js : list fjet) i : gen_on_product_rev d sg js i = GPsum js i.
Proof.
  unfold gen_on_product_rev, GPsum. apply sum_ext; intros j _. unfold Gedmd.sgrad.
  f_equal. apply sum_ext; intros x _. ring.
Qed.
End GP.

(* ---- the contraction with the orthonormal cores evaluates  sum over index tuples of (product rule) x (core entries) ---- *)
Require Import Core Chain.
Section Contraction.
Context {R : cring}.
Add Ring Rr32 : (cring_th R).
Open Scope cr_scope.
Variables (hlf : R -> R) (d d2 : nat) (b : nat -> R) (sg : nat -> nat -> R).
Notation fjet := (@fjet R).
Notation gen1 := (gen1 hlf d d2 b sg).
Notation sgrad := (sgrad d sg).
Notation tstep := (tstep hlf d d2 b sg).
Notation comp := (comp hlf d d2 b sg).
Notation lstep_mid := (lstep_mid hlf d d2 b sg).
Notation NC := (2 + d2)%nat.

(* the carried triple as a vector, and the matrix of one multiplication step *)
Definition svec (s : tstate) (c : nat) : R := let '(P, LP, GP) := s in if Nat.eqb c 0 then P else if Nat.eqb c 1 then LP else GP (c - 2)%nat.
Definition Tmat (f : fjet) (c0 c : nat) : R :=
  if Nat.eqb c0 0 then comp f c
  else if Nat.eqb c0 1 then (if Nat.eqb c 1 then fv f else 0)
  else (if Nat.eqb c 1 then sgrad f (c0 - 2) else if Nat.eqb c c0 then fv f else 0).

Lemma sum_NC (h : nat -> R) : sum NC h = h 0%nat + h 1%nat + sum d2 (fun k => h (2 + k)%nat).
Proof. rewrite sum_plus. cbn [sum]. ring. Qed.

Lemma Tmat_step (s : tstate) (f : fjet) c' : (c' < NC)%nat ->
  sum NC (fun c => svec s c * Tmat f c c') = svec (tstep s f) c'.
Proof.
  intros Hc'. destruct s as [[P LP] GP]. rewrite sum_NC. unfold svec, Tmat, Gedmd.tstep, Gedmd.comp. cbn [Nat.eqb].
  destruct c' as [|[|k]].
  - cbn [Nat.eqb]. rewrite sum_zero'; [ring|]. intros j _. cbn [Nat.add Nat.eqb]. ring.
  - cbn [Nat.eqb]. rewrite (sum_ext d2 _ (fun j => GP j * sgrad f j)); [ring|].
    intros j _. cbn [Nat.add Nat.eqb Nat.sub]. rewrite Nat.sub_0_r. ring.
  - cbn [Nat.eqb Nat.sub]. rewrite Nat.sub_0_r.
    rewrite (sum_ext d2 _ (fun j => if Nat.eqb j k then GP j * fv f else 0)).
    + rewrite (sum_single d2 k (fun j => GP j * fv f)) by lia. ring.
    + intros j _. cbn [Nat.add Nat.eqb Nat.sub]. rewrite Nat.sub_0_r. rewrite (Nat.eqb_sym k j). destruct (Nat.eqb j k); ring.
Qed.

(* product of the step matrices along a selection of basis functions *)
Fixpoint Tprod (js : list fjet) : nat -> nat -> R :=
  match js with [] => delta | f :: js' => mmul NC (Tmat f) (Tprod js') end.
Lemma Tprod_fold : forall (js : list fjet) (s : tstate) c', (c' < NC)%nat ->
  sum NC (fun c => svec s c * Tprod js c c') = svec (fold_left tstep js s) c'.
Proof.
  induction js as [|f js IH]; intros s c' Hc'.
  - cbn [Tprod fold_left]. unfold delta.
    rewrite (sum_ext NC _ (fun c => if Nat.eqb c c' then svec s c else 0)) by (intros c _; destruct (Nat.eqb c c'); ring).
    apply (sum_single NC c' (svec s)). exact Hc'.
  - cbn [Tprod fold_left]. rewrite <- (IH (tstep s f) c' Hc'). unfold mmul.
    transitivity (sum NC (fun c1 => sum NC (fun c => svec s c * Tmat f c c1) * Tprod js c1 c')).
    + erewrite sum_ext; [|intros c _; rewrite <- sum_scal_l; reflexivity].
      rewrite sum_swap. apply sum_ext; intros c1 _. rewrite <- sum_scal_r. apply sum_ext; intros c _. ring.
    + apply sum_ext; intros c1 Hc1. rewrite (Tmat_step s f c1 Hc1). reflexivity.
Qed.

(* one coded contraction step in matrix form *)
Lemma lstep_mid_T (v : cvec) (jets : list fjet) (u : core R) c' r' : (c' < NC)%nat ->
  lstep_mid v jets u c' r' =
  sum (md u) (fun ii => sum (rl u) (fun r => sum NC (fun c => v c r * Tmat (nth ii jets dj) c c') * g u r ii 0%nat r')).
Proof.
  intros Hc'. unfold Gedmd.lstep_mid. apply sum_ext; intros ii _. cbn zeta. apply sum_ext; intros r _. f_equal.
  set (f := nth ii jets dj).
  set (sr := (v 0%nat r, v 1%nat r, fun k => v (k + 2)%nat r) : tstate).
  transitivity (svec (tstep sr f) c').
  - unfold svec, sr, Gedmd.tstep. destruct c' as [|[|k]]; cbn [Nat.eqb Nat.sub]; try reflexivity.
    rewrite Nat.sub_0_r. replace (k + 2)%nat with (S (S k)) by lia. reflexivity.
  - rewrite <- (Tmat_step sr f c' Hc'). apply sum_ext; intros c _. f_equal.
    unfold svec, sr. destruct c as [|[|k]]; cbn [Nat.eqb Nat.sub]; try reflexivity.
    rewrite Nat.sub_0_r. replace (k + 2)%nat with (S (S k)) by lia. reflexivity.
Qed.

Definition cmode := (list fjet * core R)%type.
Fixpoint lcontract (v : cvec) (modes : list cmode) : cvec :=
  match modes with [] => v | m :: rest => lcontract (lstep_mid v (fst m) (snd m)) rest end.
Definition nks (modes : list cmode) : list nat := map (fun m => md (snd m)) modes.
Fixpoint select (modes : list cmode) (ss : list nat) : list fjet :=
  match modes, ss with m :: rest, s :: ss' => nth s (fst m) dj :: select rest ss' | _, _ => [] end.
Definition ucores (modes : list cmode) : list (core R) := map snd modes.
Definition zeros (n : nat) := repeat 0%nat n.

Lemma block_swap_2_3 n1 n2 m1 m2 m3 (F : nat -> nat -> nat -> nat -> nat -> R) :
  sum n1 (fun i1 => sum n2 (fun i2 => sum m1 (fun j1 => sum m2 (fun j2 => sum m3 (fun j3 => F i1 i2 j1 j2 j3))))) =
  sum m1 (fun j1 => sum m2 (fun j2 => sum m3 (fun j3 => sum n1 (fun i1 => sum n2 (fun i2 => F i1 i2 j1 j2 j3))))).
Proof.
  exact (msum_swap [n1; n2] [m1; m2; m3]
           (fun l1 l2 => match l1, l2 with [i1; i2], [j1; j2; j3] => F i1 i2 j1 j2 j3 | _, _ => 0 end)).
Qed.

Theorem contraction_general : forall (modes : list cmode) (v : cvec) fin c' r',
  linked (ucores modes) fin -> (c' < NC)%nat -> (r' < fin)%nat ->
  lcontract v modes c' r' =
  msum (nks modes) (fun ss => sum NC (fun c => sum (rl_of (ucores modes) fin) (fun r =>
     v c r * Tprod (select modes ss) c c' * chain (ucores modes) ss (zeros (length modes)) r r'))).
Proof.
  induction modes as [|[jets u] rest IH]; intros v fin c' r' HL Hc' Hr'.
  - cbn [lcontract nks map msum select ucores rl_of Tprod chain length zeros repeat]. unfold delta.
    rewrite (sum_ext NC _ (fun c => if Nat.eqb c c' then v c r' else 0)).
    + symmetry. apply (sum_single NC c' (fun c => v c r')). exact Hc'.
    + intros c _. destruct (Nat.eqb c c').
      * rewrite (sum_ext fin _ (fun r => if Nat.eqb r r' then v c r else 0)) by (intros r _; destruct (Nat.eqb r r'); ring).
        apply (sum_single fin r' (fun r => v c r)). exact Hr'.
      * apply sum_zero'; intros r _. ring.
  - cbn [ucores map linked snd] in HL. destruct HL as (Hpos & Hlk & HL). fold (ucores rest) in Hlk, HL.
    cbn [lcontract fst snd]. rewrite (IH _ fin c' r' HL Hc' Hr').
    cbn [nks map msum snd ucores rl_of length]. fold (nks rest) (ucores rest).
    change (zeros (S (length rest))) with (0%nat :: zeros (length rest)).
    rewrite <- Hlk.
    set (G := fun ii ss c r c1 r1 => v c r * Tmat (nth ii jets dj) c c1 * g u r ii 0%nat r1 *
                                     (Tprod (select rest ss) c1 c' * chain (ucores rest) ss (zeros (length rest)) r1 r')).
    transitivity (msum (nks rest) (fun ss => sum (md u) (fun ii => sum NC (fun c => sum (rl u) (fun r =>
                    sum NC (fun c1 => sum (rr u) (fun r1 => G ii ss c r c1 r1))))))).
    + apply msum_ext; intros ss _.
      transitivity (sum NC (fun c1 => sum (rr u) (fun r1 => sum (md u) (fun ii => sum (rl u) (fun r => sum NC (fun c => G ii ss c r c1 r1)))))).
      * apply sum_ext; intros c1 Hc1. apply sum_ext; intros r1 _.
        rewrite (lstep_mid_T v jets u c1 r1 Hc1).
        rewrite <- sum_scal_r, <- sum_scal_r. apply sum_ext; intros ii _.
        rewrite <- sum_scal_r, <- sum_scal_r. apply sum_ext; intros r _.
        rewrite <- sum_scal_r, <- sum_scal_r, <- sum_scal_r. apply sum_ext; intros c _. unfold G. ring.
      * rewrite block_swap_2_3. apply sum_ext; intros ii _. rewrite sum_swap. reflexivity.
    + rewrite <- (msum_sum (nks rest) (md u) (fun ii ss => sum NC (fun c => sum (rl u) (fun r =>
                    sum NC (fun c1 => sum (rr u) (fun r1 => G ii ss c r c1 r1)))))).
      apply sum_ext; intros ii _. apply msum_ext; intros ss _.
      apply sum_ext; intros c _. apply sum_ext; intros r _.
      cbn [select fst Tprod chain]. unfold mmul, cmat.
      transitivity (v c r * (sum NC (fun c1 => Tmat (nth ii jets dj) c c1 * Tprod (select rest ss) c1 c') *
                             sum (rr u) (fun r1 => g u r ii 0%nat r1 * chain (ucores rest) ss (zeros (length rest)) r1 r'))); [|ring].
      rewrite <- sum_scal_r, <- sum_scal_l. apply sum_ext; intros c1 _.
      rewrite <- sum_scal_l, <- sum_scal_l. apply sum_ext; intros r1 _. unfold G. ring.
Qed.

(* the coded head-of-chain step is the general step applied to the unit state *)
Lemma lstep_first_unit (jets : list fjet) (u : core R) c r' : rl u = 1%nat ->
  lstep_first hlf d d2 b sg jets u c r' = lstep_mid (fun c0 _ => svec tunit c0) jets u c r'.
Proof.
  intros H1. unfold Gedmd.lstep_first, Gedmd.lstep_mid. apply sum_ext; intros ii _. cbn zeta. rewrite H1. cbn [sum].
  unfold svec, tunit, Gedmd.comp. cbn [Nat.eqb].
  destruct c as [|[|k]]; cbn [Nat.eqb Nat.sub].
  - ring.
  - rewrite sum_zero'; [ring|]. intros jj _. replace (jj + 2)%nat with (S (S jj)) by lia. cbn [Nat.eqb]. ring.
  - ring.
Qed.

(* the contraction started from the unit state: sum over index tuples of (Leibniz recursion at the tuple) x (core chain) *)
Definition vunit : cvec := fun c _ => svec tunit c.
Theorem contraction_is_sum (modes : list cmode) fin r' :
  linked (ucores modes) fin -> rl_of (ucores modes) fin = 1%nat -> (r' < fin)%nat ->
  lcontract vunit modes 1%nat r' =
  msum (nks modes) (fun ss => gen_on_product hlf d d2 b sg (select modes ss) * chain (ucores modes) ss (zeros (length modes)) 0%nat r').
Proof.
  intros HL H1 Hr'. rewrite (contraction_general modes vunit fin 1%nat r' HL) by (try assumption; lia).
  apply msum_ext; intros ss _. rewrite H1.
  rewrite (sum_ext NC _ (fun c => svec tunit c * Tprod (select modes ss) c 1%nat * chain (ucores modes) ss (zeros (length modes)) 0%nat r')).
  - rewrite sum_scal_r. rewrite (Tprod_fold (select modes ss) tunit 1%nat) by lia.
    pose proof (tfold_closed hlf d d2 b sg (select modes ss)) as HT. unfold tfold in HT.
    destruct (fold_left tstep (select modes ss) tunit) as [[P LP] GP]. destruct HT as (_ & HLP & _).
    unfold svec. cbn [Nat.eqb]. rewrite HLP. reflexivity.
  - intros c _. cbn [sum]. unfold vunit. ring.
Qed.
End Contraction.
