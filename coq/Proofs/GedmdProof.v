(* C19: the explicit product-rule sums of generator_on_product equal the recursion that the tensor-network
   contraction carries out ([psi, L psi, sigma^T grad psi] multiplied mode by mode). *)
From Coq Require Import ZArith List Lia Ring Arith Bool.
Import ListNotations.
Require Import Ring Sums Matrix Gedmd.

Section GP.
Context {R : cring}.
Add Ring Rr28 : (cring_th R).
Open Scope cr_scope.
Variables (hlf : R -> R) (d d2 : nat) (b : nat -> R) (sg : nat -> nat -> R).
Notation fjet := (@fjet R).
Notation gen1 := (gen1 hlf d d2 b sg).
Notation sgrad := (sgrad d sg).
Notation amat := (amat d2 sg).
Notation frob := (frob d).

(* a : (g_v g_j^T) = (sigma^T g_v) . (sigma^T g_j) *)
Lemma frob_sigma (gv gj : nat -> R) :
  frob amat (fun x y => gv x * gj y) = sum d2 (fun k => sum d (fun x => gv x * sg x k) * sum d (fun y => gj y * sg y k)).
Proof.
  unfold Gedmd.frob, Gedmd.amat.
  transitivity (sum d (fun x => sum d (fun y => sum d2 (fun k => (gv x * sg x k) * (gj y * sg y k))))).
  - apply sum_ext; intros x _. apply sum_ext; intros y _. rewrite <- sum_scal_r. apply sum_ext; intros k _. ring.
  - transitivity (sum d (fun x => sum d2 (fun k => sum d (fun y => (gv x * sg x k) * (gj y * sg y k))))).
    + apply sum_ext; intros x _. apply sum_swap.
    + rewrite sum_swap. apply sum_ext; intros k _. rewrite <- sum_scal_r. apply sum_ext; intros x _.
      rewrite <- sum_scal_l. reflexivity.
Qed.

Lemma pex_ext (e1 e2 : nat -> bool) : forall (js : list fjet) pos,
  (forall l, (pos <= l < pos + length js)%nat -> e1 l = e2 l) -> pex e1 pos js = pex e2 pos js.
Proof.
  induction js as [|f js IH]; intros pos H; [reflexivity|]. cbn [pex].
  rewrite (H pos) by (cbn [length]; lia). rewrite (IH (S pos)); [reflexivity|]. intros l Hl. apply H. cbn [length]. lia.
Qed.
Lemma pex_app (e : nat -> bool) : forall (a c : list fjet) pos, pex e pos (a ++ c) = pex e pos a * pex e (pos + length a) c.
Proof.
  induction a as [|f a IH]; intros c pos; cbn [app pex length].
  - replace (pos + 0)%nat with pos by lia. ring.
  - rewrite IH. replace (S pos + length a)%nat with (pos + S (length a))%nat by lia. ring.
Qed.
Definition pall (js : list fjet) : R := pex (fun _ => false) 0 js.

Lemma pex_snoc_lt (js : list fjet) (f : fjet) j : (j < length js)%nat ->
  pex (Nat.eqb j) 0 (js ++ [f]) = pex (Nat.eqb j) 0 js * fv f.
Proof.
  intros Hj. rewrite pex_app. cbn [pex]. destruct (Nat.eqb_spec j (0 + length js)); [lia|]. ring.
Qed.
Lemma pex_snoc_eq (js : list fjet) (f : fjet) : pex (Nat.eqb (length js)) 0 (js ++ [f]) = pall js.
Proof.
  rewrite pex_app. cbn [pex]. rewrite Nat.eqb_refl. unfold pall.
  rewrite (pex_ext (Nat.eqb (length js)) (fun _ => false) js 0); [ring|].
  intros l Hl. destruct (Nat.eqb_spec (length js) l); [lia|reflexivity].
Qed.
Lemma pex2_snoc_lt (js : list fjet) (f : fjet) j v : (j < length js)%nat -> (v < length js)%nat ->
  pex (fun l => Nat.eqb l j || Nat.eqb l v) 0 (js ++ [f]) = pex (fun l => Nat.eqb l j || Nat.eqb l v) 0 js * fv f.
Proof.
  intros Hj Hv. rewrite pex_app. cbn [pex].
  destruct (Nat.eqb_spec (0 + length js) j); [lia|]. destruct (Nat.eqb_spec (0 + length js) v); [lia|]. cbn [orb]. ring.
Qed.
Lemma pex2_snoc_last (js : list fjet) (f : fjet) j : (j < length js)%nat ->
  pex (fun l => Nat.eqb l j || Nat.eqb l (length js)) 0 (js ++ [f]) = pex (Nat.eqb j) 0 js.
Proof.
  intros Hj. rewrite pex_app. cbn [pex]. cbn [Nat.add]. rewrite Nat.eqb_refl, orb_true_r.
  rewrite (pex_ext (fun l => Nat.eqb l j || Nat.eqb l (length js)) (Nat.eqb j) js 0); [ring|].
  intros l Hl. destruct (Nat.eqb_spec l (length js)); [lia|]. rewrite orb_false_r. apply Nat.eqb_sym.
Qed.

(* closed forms of the carried vector *)
Definition GPsum (js : list fjet) (k : nat) : R := sum (length js) (fun j => sgrad (nth j js dj) k * pex (Nat.eqb j) 0 js).

Lemma nth_snoc_lt (js : list fjet) f j : (j < length js)%nat -> nth j (js ++ [f]) dj = nth j js dj.
Proof. intros H. apply app_nth1. exact H. Qed.
Lemma nth_snoc_eq (js : list fjet) f : nth (length js) (js ++ [f]) dj = f.
Proof. rewrite app_nth2 by lia. rewrite Nat.sub_diag. reflexivity. Qed.

Lemma pall_snoc (js : list fjet) f : pall (js ++ [f]) = pall js * fv f.
Proof. unfold pall. rewrite pex_app. cbn [pex]. ring. Qed.

Lemma GPsum_snoc (js : list fjet) f k : GPsum (js ++ [f]) k = pall js * sgrad f k + GPsum js k * fv f.
Proof.
  unfold GPsum. rewrite app_length. cbn [length]. rewrite Nat.add_1_r. cbn [sum].
  rewrite nth_snoc_eq, pex_snoc_eq.
  rewrite (sum_ext (length js) _ (fun j => sgrad (nth j js dj) k * pex (Nat.eqb j) 0 js * fv f)).
  - rewrite sum_scal_r. ring.
  - intros j Hj. rewrite nth_snoc_lt, pex_snoc_lt by exact Hj. ring.
Qed.

Lemma gop_snoc (js : list fjet) f :
  gen_on_product hlf d d2 b sg (js ++ [f]) =
  pall js * gen1 f + gen_on_product hlf d d2 b sg js * fv f + sum d2 (fun k => GPsum js k * sgrad f k).
Proof.
  unfold gen_on_product. rewrite app_length. cbn [length]. rewrite Nat.add_1_r.
  cbn [sum].
  (* the term j = (length js) *)
  rewrite nth_snoc_eq, pex_snoc_eq.
  rewrite (sum_ext (length js) (fun v => if Nat.ltb (length js) v then _ else 0) (fun _ => 0)) by (intros v Hv; destruct (Nat.ltb_spec (length js) v); [lia|reflexivity]).
  rewrite sum_zero. rewrite Nat.ltb_irrefl.
  (* the terms j < (length js) *)
  rewrite (sum_ext (length js) _ (fun j =>
     (pex (Nat.eqb j) 0 js * gen1 (nth j js dj)
      + sum (length js) (fun v => if Nat.ltb j v
                        then pex (fun l => Nat.eqb l j || Nat.eqb l v) 0 js * frob amat (fun x y => fg (nth v js dj) x * fg (nth j js dj) y)
                        else 0)) * fv f
     + pex (Nat.eqb j) 0 js * sum d2 (fun k => sgrad f k * sgrad (nth j js dj) k))).
  - rewrite sum_add, sum_scal_r.
    assert (E : sum (length js) (fun j => pex (Nat.eqb j) 0 js * sum d2 (fun k => sgrad f k * sgrad (nth j js dj) k)) =
                sum d2 (fun k => GPsum js k * sgrad f k)).
    { unfold GPsum.
      erewrite sum_ext; [|intros j _; rewrite <- sum_scal_l; reflexivity].
      rewrite sum_swap. apply sum_ext; intros k _. rewrite <- sum_scal_r. apply sum_ext; intros j _. ring. }
    rewrite E. ring.
  - intros j Hj. rewrite nth_snoc_lt, pex_snoc_lt by exact Hj.
    destruct (Nat.ltb_spec j (length js)) as [_|]; [|lia].
    rewrite (pex2_snoc_last js f j Hj).
    rewrite (frob_sigma (fg f) (fg (nth j js dj))).
    rewrite (sum_ext (length js) (fun v => if Nat.ltb j v then pex (fun l => Nat.eqb l j || Nat.eqb l v) 0 (js ++ [f]) * _ else 0)
                       (fun v => (if Nat.ltb j v then pex (fun l => Nat.eqb l j || Nat.eqb l v) 0 js *
                                       frob amat (fun x y => fg (nth v js dj) x * fg (nth j js dj) y) else 0) * fv f)).
    + rewrite sum_scal_r. unfold Gedmd.sgrad. ring.
    + intros v Hv. rewrite (nth_snoc_lt js f v Hv). destruct (Nat.ltb j v); [|ring].
      rewrite (pex2_snoc_lt js f j v Hj Hv). ring.
Qed.

(* the recursion carried by the contraction, in closed form: its middle component is generator_on_product *)
Theorem tfold_closed (js : list fjet) :
  let '(P, LP, GP) := tfold hlf d d2 b sg js in
  P = pall js /\ LP = gen_on_product hlf d d2 b sg js /\ forall k, GP k = GPsum js k.
Proof.
  induction js as [|f js IH] using rev_ind.
  - cbn. unfold pall, gen_on_product, GPsum. cbn. repeat split; reflexivity.
  - unfold tfold in *. rewrite fold_left_app. cbn [fold_left].
    destruct (fold_left (tstep hlf d d2 b sg) js tunit) as [[P LP] GP]. destruct IH as (HP & HL & HG).
    cbn [tstep]. repeat split.
    + rewrite pall_snoc, HP. reflexivity.
    + rewrite gop_snoc, HP, HL. f_equal. apply sum_ext; intros k _. rewrite HG. reflexivity.
    + intros k. rewrite GPsum_snoc, HP, HG. reflexivity.
Qed.

(* reversible variant: sigma[:, i] . grad (prod psi) is the i-th entry of the carried sigma^T grad psi *)
Theorem rev_closed (js : list fjet) i : gen_on_product_rev d sg js i = GPsum js i.
Proof.
  unfold gen_on_product_rev, GPsum. apply sum_ext; intros j _. unfold Gedmd.sgrad.
  f_equal. apply sum_ext; intros x _. ring.
Qed.
End GP.
