(* C07 / C08: fixed-point clauses.  For ANY frame P (n x r) and current coefficients y0 (the iterate is x = P y0):
     - if x solves A x = b then y0 solves the micro system (P^H A P) y = P^H b the sweep meets at this position, so a
       (non-singular) micro solve returns the current core unchanged;
     - if x is an eigenvector, A x = lambda x, and P is an isometry (P^H P = I), then y0 is an eigenvector of the micro
       matrix with the same eigenvalue. *)
From Coq Require Import ZArith List Lia Ring Arith Bool.
Import ListNotations.
Require Import Ring Sums Matrix FullRankProof.

Section FixedPoint.
Context {R : cring}.
Add Ring Rr60 : (cring_th R).
Open Scope cr_scope.

Variables (n r : nat) (P A : M R) (y0 : nat -> R).

Theorem fixed_point_solve (b : nat -> R) :
  (forall i, (i < n)%nat -> sum n (fun j => A i j * lift r P y0 j) = b i) ->
  forall k, sum r (fun l => microM n P A k l * y0 l) = sum n (fun i => cconj R (P i k) * b i).
Proof.
  intros Hx k. rewrite (micro_apply n r P A y0 k). apply sum_ext; intros i Hi. rewrite (Hx i Hi). reflexivity.
Qed.

Hypothesis PhP : forall k l, (k < r)%nat -> (l < r)%nat -> sum n (fun i => cconj R (P i k) * P i l) = delta k l.

Theorem fixed_point_eigen (lam : R) :
  (forall i, (i < n)%nat -> sum n (fun j => A i j * lift r P y0 j) = lam * lift r P y0 i) ->
  forall k, (k < r)%nat -> sum r (fun l => microM n P A k l * y0 l) = lam * y0 k.
Proof.
  intros Hx k Hk. rewrite (micro_apply n r P A y0 k).
  transitivity (lam * sum r (fun l => sum n (fun i => cconj R (P i k) * P i l) * y0 l)).
  - transitivity (sum n (fun i => sum r (fun l => lam * (cconj R (P i k) * P i l * y0 l)))).
    + apply sum_ext; intros i Hi. rewrite (Hx i Hi). unfold lift.
      transitivity (lam * cconj R (P i k) * sum r (fun l => P i l * y0 l)); [ring|].
      rewrite <- sum_scal_l. apply sum_ext; intros l _. ring.
    + rewrite sum_swap. rewrite <- sum_scal_l. apply sum_ext; intros l _.
      rewrite sum_scal_l. f_equal. rewrite <- sum_scal_r. reflexivity.
  - f_equal.
    transitivity (sum r (fun l => if Nat.eqb l k then y0 l else 0)).
    + apply sum_ext; intros l Hl. rewrite (PhP k l Hk Hl). unfold delta. rewrite (Nat.eqb_sym k l). destruct (Nat.eqb l k); ring.
    + apply (sum_single r k y0 Hk).
Qed.

End FixedPoint.
