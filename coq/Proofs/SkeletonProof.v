(* C15 (HOCUR): the matrix skeleton (CUR) identity behind the cross approximation.  If A = X Y has rank at most r
   (X : n x r, Y : r x m) and the selected rows I and columns J are such that X restricted to I has a left inverse L and Y
   restricted to J has a right inverse Rg, then with W = Rg L (the inverse of the intersection A[I, J] = X_I Y_J)
        A = A[:, J] W A[I, :],
   i.e. the cross through r well-chosen rows and columns reproduces the matrix exactly.  hocur applies this at every bond
   (cores = C W, see transform.hocur); the choice of the rows and columns (maximum-volume search) is not modelled. *)
From Coq Require Import ZArith List Lia Ring Arith Bool.
Import ListNotations.
Require Import Ring Sums Matrix.

Section Skeleton.
Context {R : cring}.
Add Ring Rr50 : (cring_th R).
Open Scope cr_scope.

Variable r : nat.
Variables (X : M R) (Y : M R).                 (* n x r, r x m *)
Variables (rowsel colsel : nat -> nat).        (* r selected rows / columns *)
Variables (L Rg : M R).                        (* r x r *)
Hypothesis HL : forall p q, (p < r)%nat -> (q < r)%nat -> sum r (fun k => L p k * X (rowsel k) q) = delta p q.
Hypothesis HR : forall p q, (p < r)%nat -> (q < r)%nat -> sum r (fun k => Y p (colsel k) * Rg k q) = delta p q.

Definition Amat : M R := fun i j => sum r (fun k => X i k * Y k j).
Definition Wmat : M R := fun a b => sum r (fun k => Rg a k * L k b).

Definition YJ : M R := fun p a => Y p (colsel a).
Definition XI : M R := fun b q => X (rowsel b) q.

Theorem skeleton i j :
  mmul r (mmul r (fun i0 a => Amat i0 (colsel a)) Wmat) (fun b j0 => Amat (rowsel b) j0) i j = Amat i j.
Proof.
  (* C = X YJ,  R = XI Y,  W = Rg L *)
  change (fun i0 a => Amat i0 (colsel a)) with (mmul r X YJ).
  change (fun b j0 => Amat (rowsel b) j0) with (mmul r XI Y).
  change Wmat with (mmul r Rg L). change (Amat i j) with (mmul r X Y i j).
  (* (X YJ)(Rg L) = X ((YJ Rg) L) = X L *)
  transitivity (mmul r (mmul r X L) (mmul r XI Y) i j).
  - apply mmul_ext; intros k Hk; [|reflexivity].
    rewrite mmul_assoc. apply mmul_ext; intros q Hq; [reflexivity|].
    rewrite <- mmul_assoc.
    rewrite (mmul_ext r (mmul r YJ Rg) delta L L q k); [apply mmul_delta_l; exact Hq| |reflexivity].
    intros c Hc. unfold mmul, YJ. apply HR; assumption.
  - (* (X L)(XI Y) = X ((L XI) Y) = X Y *)
    rewrite mmul_assoc. apply mmul_ext; intros q Hq; [reflexivity|].
    rewrite <- mmul_assoc.
    rewrite (mmul_ext r (mmul r L XI) delta Y Y q j); [apply mmul_delta_l; exact Hq| |reflexivity].
    intros c Hc. unfold mmul, XI. apply HL; assumption.
Qed.

End Skeleton.
