(* C08: Ritz consistency at the first core, and best-so-far bookkeeping. *)
From Coq Require Import ZArith List Lia Ring Arith Bool.
Import ListNotations.
Require Import Ring Sums Matrix Core Chain Sweep SweepProof TensordotProof Env EnvProof.

Section EvpProof.
Context {R : cring}.
Add Ring Rr17 : (cring_th R).
Open Scope cr_scope.
Notation core := (core R).
Notation cj := (cconj R).

(* the first core built from the eigenvector y of the micro problem at position 0 *)
Definition ycore (m r1 : nat) (yv : nat -> R) : core := mkcore 1 m 1 r1 (fun _ x _ b => yv (x * r1 + b)%nat).

(* y^H M y for the micro matrix at position 0 (left stack = 1) is the (0,0,0) entry of one more
   right-stack step with the new first core *)
Lemma micro_quadratic (Rk : st3 R) (A0 : core) m r1 (yv : nat -> R) :
  md A0 = m -> nd A0 = m -> a1 Rk = r1 -> a3 Rk = r1 -> (0 < r1)%nat ->
  let M := snd (micro_op_als one3 Rk A0 1 r1) in
  sum (1 * m * r1) (fun row => sum (1 * m * r1) (fun col => cj (yv row) * M row col * yv col)) =
  f3 (right_op Rk (ycore m r1 yv) A0) 0%nat 0%nat 0%nat.
Proof.
  intros Hm Hn H1 H3 Hr M. unfold M, micro_op_als. cbn [snd]. rewrite Hm, Hn.
  cbn [right_op f3 ycore g rl]. rewrite Hm, Hn, H1, H3.
  replace (1 * m * r1)%nat with (m * r1)%nat by lia.
  (* rows -> (x, c'), columns -> (y, s') *)
  rewrite sum_prod.
  transitivity (sum m (fun x => sum r1 (fun c' => sum m (fun y => sum r1 (fun s' =>
     cj (yv (x * r1 + c')%nat) *
     sum 1 (fun r => sum (a2 Rk) (fun r' => f3 one3 0%nat r 0%nat * g A0 r x y r' * f3 Rk s' r' c')) *
     yv (y * r1 + s')%nat))))).
  { apply sum_ext; intros x Hx. apply sum_ext; intros c' Hc'. rewrite sum_prod.
    apply sum_ext; intros y Hy. apply sum_ext; intros s' Hs'.
    assert (E1 : ((x * r1 + c') / (m * r1) = 0)%nat) by (apply Nat.div_small; apply lt_mul_add; assumption).
    assert (E2 : ((y * r1 + s') / (m * r1) = 0)%nat) by (apply Nat.div_small; apply lt_mul_add; assumption).
    rewrite E1, E2. rewrite !div_mod_unique_l, !div_mod_unique_r by assumption.
    rewrite (Nat.mod_small x m), (Nat.mod_small y m) by assumption. cbn [a2 one3]. reflexivity. }
  (* reorder to the nesting of right_op *)
  transitivity (sum m (fun y => sum r1 (fun s' => sum m (fun x => sum r1 (fun c' =>
     cj (yv (x * r1 + c')%nat) *
     sum 1 (fun r => sum (a2 Rk) (fun r' => f3 one3 0%nat r 0%nat * g A0 r x y r' * f3 Rk s' r' c')) *
     yv (y * r1 + s')%nat))))).
  { apply (sum4_swap m r1 m r1 (fun x c' y s' => cj (yv (x * r1 + c')%nat) *
       sum 1 (fun r => sum (a2 Rk) (fun r' => f3 one3 0%nat r 0%nat * g A0 r x y r' * f3 Rk s' r' c')) * yv (y * r1 + s')%nat)). }
  apply sum_ext; intros y _. apply sum_ext; intros s' _.
  rewrite <- sum_scal_l. apply sum_ext; intros x _.
  simpl sum. cbn [f3 one3].
  transitivity (sum (a2 Rk) (fun r' => sum r1 (fun c' => yv (y * r1 + s')%nat * (g A0 0%nat x y r' * (cj (yv (x * r1 + c')%nat) * f3 Rk s' r' c'))))).
  - rewrite sum_swap. apply sum_ext; intros c' _.
    transitivity (cj (yv (x * r1 + c')%nat) * sum (a2 Rk) (fun r' => g A0 0%nat x y r' * f3 Rk s' r' c') * yv (y * r1 + s')%nat).
    + f_equal. f_equal. transitivity (0 + sum (a2 Rk) (fun r' => 1 * g A0 0%nat x y r' * f3 Rk s' r' c')); [reflexivity|].
      transitivity (sum (a2 Rk) (fun r' => 1 * g A0 0%nat x y r' * f3 Rk s' r' c')); [ring|].
      apply sum_ext; intros; ring.
    + rewrite <- sum_scal_l, <- sum_scal_r. apply sum_ext; intros r' _. ring.
  - rewrite <- sum_scal_l. apply sum_ext; intros r' _. rewrite <- sum_scal_l, <- sum_scal_l.
    apply sum_ext; intros c' _. ring.
Qed.

(* x^H A x, for x the train with first core from y and the (right-orthonormalised) cores Xs *)
Definition sandwich (Xs As : list core) : R := RightProd Xs As 0%nat 0%nat 0%nat.

(* C08.1 Ritz consistency: if y solves the micro eigenproblem  M y = lambda Mg y  at position 0,
   then the returned tensor x satisfies  x^H A x = lambda x^H G x  *)
Theorem ritz_consistent (A0 G0 : core) (Xs As Gs : list core) m (yv : nat -> R) (lam : R) :
  let r1 := rl_of Xs 1%nat in
  let M := snd (micro_op_als one3 (rstack Xs As) A0 1 r1) in
  let Mg := snd (micro_op_als one3 (rstack Xs Gs) G0 1 r1) in
  md A0 = m -> nd A0 = m -> md G0 = m -> nd G0 = m ->
  length As = length Xs -> length Gs = length Xs ->
  linked (ycore m r1 yv :: Xs) 1%nat -> linked (A0 :: As) 1%nat -> linked (G0 :: Gs) 1%nat ->
  rl A0 = 1%nat -> rl G0 = 1%nat ->
  (forall row, (row < 1 * m * r1)%nat ->
     sum (1 * m * r1) (fun col => M row col * yv col) = lam * sum (1 * m * r1) (fun col => Mg row col * yv col)) ->
  sandwich (ycore m r1 yv :: Xs) (A0 :: As) = lam * sandwich (ycore m r1 yv :: Xs) (G0 :: Gs).
Proof.
  intros r1 M Mg HmA HnA HmG HnG HlA HlG LX LA LG RA RG Heig.
  assert (Hr1 : (0 < r1)%nat) by (destruct LX as (P & E & _); cbn [rr ycore] in P; exact P).
  assert (Dims : forall Bs, length Bs = length Xs -> linked Bs (1%nat) -> a1 (rstack Xs Bs) = r1 /\ a3 (rstack Xs Bs) = r1).
  { intros Bs Hl _. destruct (rstack_dims Xs Bs) as (D1 & _ & D3). rewrite D1, D3. unfold r1.
    destruct Xs as [|X2 Xs2]; destruct Bs as [|B2 Bs2]; simpl in *; try lia; auto. }
  unfold sandwich.
  rewrite <- (rstack_closed (ycore m r1 yv :: Xs) (A0 :: As)); try assumption; try (simpl; lia).
  rewrite <- (rstack_closed (ycore m r1 yv :: Xs) (G0 :: Gs)); try assumption; try (simpl; lia).
  cbn [rstack].
  destruct (Dims As HlA (proj2 (proj2 LA))) as (DA1 & DA3). destruct (Dims Gs HlG (proj2 (proj2 LG))) as (DG1 & DG3).
  rewrite <- (micro_quadratic (rstack Xs As) A0 m r1 yv HmA HnA DA1 DA3 Hr1).
  rewrite <- (micro_quadratic (rstack Xs Gs) G0 m r1 yv HmG HnG DG1 DG3 Hr1).
  fold M Mg. rewrite <- sum_scal_l. apply sum_ext; intros row Hrow.
  transitivity (cj (yv row) * sum (1 * m * r1) (fun col => M row col * yv col)).
  - rewrite <- sum_scal_l. apply sum_ext; intros; ring.
  - rewrite (Heig row Hrow). rewrite <- sum_scal_l, <- sum_scal_l, <- sum_scal_l. apply sum_ext; intros; ring.
Qed.
End EvpProof.

(* ---- best-so-far bookkeeping (C08.3), over any value type with an integer-valued distance ---- *)
Section BestSoFar.
Variable T : Type.
Variable dist : T -> Z.
Definition upd_best (best : option T) (v : T) : option T :=
  match best with None => Some v | Some b => if Z.ltb (dist v) (dist b) then Some v else Some b end.
Definition best_of (vals : list T) : option T := fold_left upd_best vals None.
Definition odist (o : option T) (d : Z) : Prop := match o with Some b => (dist b <= d)%Z | None => True end.

Theorem best_so_far_monotone (vals : list T) (v : T) b :
  best_of vals = Some b -> exists b', best_of (vals ++ [v]) = Some b' /\ (dist b' <= dist b)%Z.
Proof.
  intros H. unfold best_of in *. rewrite fold_left_app. rewrite H. simpl.
  destruct (Z.ltb_spec (dist v) (dist b)); eexists; split; try reflexivity; lia.
Qed.
End BestSoFar.
