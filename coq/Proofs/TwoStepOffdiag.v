(* C13: sign condition for two_step_destruction.  The operator is given core by core (ranks 3, 5, 3); its entries are
     k2 I(x)up(x)up(x)down + k3 I(x)I(x)I(x)(up - diag) - k2 I(x)diag(x)diag(x)I - k1 diag(x)diag(x)I(x)I + k1 up(x)up(x)down(x)I
   (up = eye(k=1) diag(arange), diag = diag(arange), down = eye(k=-1) with the absorbing corner), so every off-diagonal
   entry lies in every cone that contains 0, 1, the rates and is closed under + and *: for non-negative rates the
   off-diagonal entries are non-negative, for all cell sizes. *)
From Coq Require Import ZArith List Lia Ring Arith Bool.
Import ListNotations.
Require Import Ring Sums Matrix Core Chain Sweep Slim Models.

Section TwoStepOffdiag.
Context {R : cring}.
Add Ring Rr54 : (cring_th R).
Open Scope cr_scope.
Variables (k1 k2 k3 : R) (n0 n1 n2 n3 : nat).

Theorem two_step_value x0 x1 x2 x3 y0 y1 y2 y3 :
  elem (two_step_destruction k1 k2 k3 n0 n1 n2 n3) [x0; x1; x2; x3] [y0; y1; y2; y3] =
  k2 * (idm x0 y0 * up_arange x1 y1 * up_arange x2 y2 * down_abs n3 x3 y3)
  + k3 * (idm x0 y0 * idm x1 y1 * idm x2 y2 * (up_arange x3 y3 - diag_arange x3 y3))
  - k2 * (idm x0 y0 * diag_arange x1 y1 * diag_arange x2 y2 * idm x3 y3)
  - k1 * (diag_arange x0 y0 * diag_arange x1 y1 * idm x2 y2 * idm x3 y3)
  + k1 * (up_arange x0 y0 * up_arange x1 y1 * down_abs n2 x2 y2 * idm x3 y3).
Proof.
  unfold elem, two_step_destruction. cbn [chain]. unfold mmul, cmat, delta.
  cbn [rr ts_core0 ts_core1 ts_core2 ts_core3 blk sum g md Nat.eqb]. unfold zeroM. ring.
Qed.

Variable P : R -> Prop.
Hypothesis P0 : P 0.
Hypothesis Padd : forall a b, P a -> P b -> P (a + b).
Hypothesis P1 : P 1.
Hypothesis Pmul : forall a b, P a -> P b -> P (a * b).
Hypothesis Pk1 : P k1.
Hypothesis Pk2 : P k2.
Hypothesis Pk3 : P k3.

Lemma Pnr k : P (nr k).
Proof. induction k as [|k IH]; cbn [nr]; [exact P0|apply Padd; [exact IH|exact P1]]. Qed.
Lemma Pind b : P (ind b).
Proof. destruct b; [exact P1|exact P0]. Qed.
Lemma Pidm x y : P (idm x y).
Proof. apply Pind. Qed.
Lemma Pup x y : P (up_arange x y).
Proof. unfold up_arange. apply Pmul; [apply Pind|apply Pnr]. Qed.
Lemma Pdown n x y : P (down_abs n x y).
Proof. unfold down_abs. destruct (Nat.eqb x (n - 1) && Nat.eqb y (n - 1)); [exact P1|apply Pind]. Qed.
Lemma idm_off x y : x <> y -> @idm R x y = 0.
Proof. intros E. unfold idm, ind. destruct (Nat.eqb_spec x y); [congruence|reflexivity]. Qed.

Theorem two_step_offdiag x0 x1 x2 x3 y0 y1 y2 y3 :
  [x0; x1; x2; x3] <> [y0; y1; y2; y3] ->
  P (elem (two_step_destruction k1 k2 k3 n0 n1 n2 n3) [x0; x1; x2; x3] [y0; y1; y2; y3]).
Proof.
  intros Hne. rewrite two_step_value.
  assert (HD : idm x0 y0 * idm x1 y1 * idm x2 y2 * idm x3 y3 = c0 R).
  { destruct (Nat.eq_dec x0 y0) as [E0|E0]; [|rewrite (idm_off _ _ E0); ring].
    destruct (Nat.eq_dec x1 y1) as [E1|E1]; [|rewrite (idm_off _ _ E1); ring].
    destruct (Nat.eq_dec x2 y2) as [E2|E2]; [|rewrite (idm_off _ _ E2); ring].
    destruct (Nat.eq_dec x3 y3) as [E3|E3]; [|rewrite (idm_off _ _ E3); ring].
    exfalso. apply Hne. congruence. }
  unfold diag_arange.
  match goal with |- P ?t =>
    replace t with (k2 * (idm x0 y0 * up_arange x1 y1 * up_arange x2 y2 * down_abs n3 x3 y3)
                    + k3 * (idm x0 y0 * idm x1 y1 * idm x2 y2 * up_arange x3 y3)
                    + k1 * (up_arange x0 y0 * up_arange x1 y1 * down_abs n2 x2 y2 * idm x3 y3)
                    - (idm x0 y0 * idm x1 y1 * idm x2 y2 * idm x3 y3) * (k3 * nr y3 + k2 * (nr y1 * nr y2) + k1 * (nr y0 * nr y1)))
      by ring
  end.
  rewrite HD.
  match goal with |- P (?t - 0 * ?u) => replace (t - 0 * u) with t by ring end.
  apply Padd; [apply Padd|]; apply Pmul; try assumption;
    repeat (apply Pmul); try apply Pidm; try apply Pup; try apply Pdown; try apply Pnr; try apply Pind.
Qed.

End TwoStepOffdiag.
