(* C20: the tail hypothesis of the marginal theorem in the presence of UNMEASURED sites.
   The probability train is  squeeze( diag(state, measured)^H @ state ):  a measured site carries conj(psi) (x) psi with the
   physical index kept (born), an unmeasured site the same contracted over the physical index (a core without mode), and
   squeeze multiplies the mode-less cores into their left neighbours.  For a right-orthonormal state every suffix of the
   squeezed train, all sites summed out, is vec(I) -- exactly what C20_marginal assumes at each measured site. *)
From Coq Require Import ZArith List Lia Ring Arith Bool.
Import ListNotations.
Require Import Ring Sums Matrix Core Chain TTOps Structure SweepProof Sampling SamplingProof SqueezeProof.

Section TailProof.
Context {R : cring}.
Add Ring Rr48 : (cring_th R).
Open Scope cr_scope.
Notation core := (core R).

(* the unsqueezed probability train, core by core *)
Definition tcore (c : core) : core := mulcore (trcore true c) c.
Definition pcore (s : bool) (c : core) : core := if s then born c else tcore c.
Fixpoint ptrain (sel : list bool) (cs : list core) : list core :=
  match cs, sel with
  | c :: cs', s :: sel' => pcore s c :: ptrain sel' cs'
  | _, _ => []
  end.

Lemma ptrain_is_product : forall (cs : list core) sel, length sel = length cs ->
  tmul (ttranspose true (repeat true (length cs)) (tdiag sel cs)) cs = ptrain sel cs.
Proof.
  unfold tmul. induction cs as [|c cs IH]; intros sel Hl; destruct sel as [|s sel]; try discriminate; [reflexivity|].
  cbn [length repeat tdiag ttranspose combine map fst snd ptrain]. simpl in Hl.
  rewrite (IH sel) by lia. f_equal. destruct s; reflexivity.
Qed.

(* an unmeasured site summed out (it has no index to sum over) maps vec(I) to vec(I) *)
Lemma tcore_tail (c : core) a1 a2 : nd c = 1%nat -> right_iso c -> (0 < rr c)%nat ->
  (a1 < rl c)%nat -> (a2 < rl c)%nat ->
  sum (rr c * rr c) (fun b => g (tcore c) (a1 * rl c + a2)%nat 0%nat 0%nat b * vecI (rr c * rr c) b) = delta a1 a2.
Proof.
  intros Hnd HR Hpos H1 H2.
  transitivity (sum (md c) (fun x => sum (rr c) (fun e => cconj R (g c a1 x 0%nat e) * g c a2 x 0%nat e))).
  - rewrite sum_prod.
    transitivity (sum (rr c) (fun b1 => sum (md c) (fun x => cconj R (g c a1 x 0%nat b1) * g c a2 x 0%nat b1))).
    + apply sum_ext; intros b1 Hb1.
      rewrite (sum_ext (rr c) _ (fun b2 => if Nat.eqb b2 b1 then sum (md c) (fun x => cconj R (g c a1 x 0%nat b1) * g c a2 x 0%nat b2) else 0)).
      * apply (sum_single (rr c) b1 (fun b2 => sum (md c) (fun x => cconj R (g c a1 x 0%nat b1) * g c a2 x 0%nat b2))). exact Hb1.
      * intros b2 Hb2. unfold tcore, mulcore. cbn [g nd trcore md]. unfold kron, cmat. cbn [g trcore].
        rewrite !div_mod_unique_l, !div_mod_unique_r by assumption.
        unfold vecI. rewrite Nat.sqrt_square. rewrite div_mod_unique_l, div_mod_unique_r by assumption.
        rewrite (Nat.eqb_sym b1 b2). destruct (Nat.eqb b2 b1); [ring|].
        rewrite <- sum_scal_r. apply sum_zero'. intros; ring.
    + apply sum_swap.
  - specialize (HR a2 a1 H2 H1). rewrite Hnd in HR.
    rewrite (sum_ext (md c) _ (fun x => sum 1 (fun y => sum (rr c) (fun e => g c a2 x y e * cconj R (g c a1 x y e))))).
    + rewrite HR. unfold delta. rewrite Nat.eqb_sym. reflexivity.
    + intros x _. cbn [sum]. rewrite (sum_ext (rr c) (fun e => g c a2 x 0%nat e * cconj R (g c a1 x 0%nat e)) (fun e => cconj R (g c a1 x 0%nat e) * g c a2 x 0%nat e)) by (intros; ring). ring.
Qed.

Lemma tail_weight_cons (c : core) (rest : list core) b :
  tail_weight (c :: rest) b = sum (md c) (fun x => sum (rr c) (fun e => g c b x 0%nat e * tail_weight rest e)).
Proof.
  unfold tail_weight. cbn [rows map length msum]. fold (rows rest).
  change (zeros (S (length rest))) with (0%nat :: zeros (length rest)).
  apply sum_ext; intros x _. cbn [chain]. unfold mmul.
  rewrite <- (msum_sum (rows rest) (rr c) (fun e xs => cmat c x 0%nat b e * chain rest xs (zeros (length rest)) e 0%nat)).
  apply sum_ext; intros e _. rewrite msum_scal_l. reflexivity.
Qed.

(* the whole tail of the unsqueezed probability train of a right-orthonormal state is vec(I), whatever is measured *)
Theorem ptrain_tail_weight : forall (cs : list core) sel b1 b2,
  length sel = length cs ->
  Forall (fun c => nd c = 1%nat) cs -> Forall right_iso cs -> linked cs 1%nat -> Forall (fun c => (0 < rl c)%nat) cs ->
  (b1 < rl_of cs 1)%nat -> (b2 < rl_of cs 1)%nat ->
  tail_weight (ptrain sel cs) (b1 * rl_of cs 1 + b2)%nat = delta b1 b2.
Proof.
  induction cs as [|c cs IH]; intros sel b1 b2 Hsel Hnd HR HL Hpos H1 H2.
  - cbn [rl_of] in *. assert (b1 = 0%nat) by lia. assert (b2 = 0%nat) by lia. subst.
    destruct sel; [|discriminate]. unfold tail_weight. cbn [ptrain rows map msum chain length zeros repeat]. reflexivity.
  - destruct sel as [|s sel]; [discriminate|]. simpl in Hsel.
    inversion Hnd as [|? ? Hnd0 Hnd']; subst. inversion HR as [|? ? HR0 HR']; subst.
    inversion Hpos as [|? ? Hp0 Hp']; subst.
    cbn [linked] in HL. destruct HL as (Hrr & Hlk & HL). cbn [rl_of] in H1, H2.
    cbn [ptrain]. rewrite tail_weight_cons. cbn [rl_of].
    assert (Hinner : forall e, (e < rr c * rr c)%nat -> tail_weight (ptrain sel cs) e = vecI (rr c * rr c) e).
    { intros e He.
      assert (Hdiv : (e = (e / rr c) * rr c + e mod rr c)%nat) by (rewrite Nat.mul_comm; apply Nat.div_mod; lia).
      assert (He1 : (e / rr c < rr c)%nat) by (apply Nat.div_lt_upper_bound; lia).
      assert (He2 : (e mod rr c < rr c)%nat) by (apply Nat.mod_upper_bound; lia).
      pose proof (@vecI_square R (rr c) (e / rr c)%nat (e mod rr c)%nat Hrr He2) as HV. rewrite <- Hdiv in HV. rewrite HV.
      rewrite Hlk in He1, He2 |- *.
      specialize (IH sel (e / rl_of cs 1)%nat (e mod rl_of cs 1)%nat ltac:(lia) Hnd' HR' HL Hp' He1 He2).
      rewrite Hlk in Hdiv. rewrite <- Hdiv in IH. exact IH. }
    destruct s; cbn [pcore].
    + change (md (born c)) with (md c). change (rr (born c)) with (rr c * rr c)%nat.
      rewrite <- (born_core_tail c b1 b2 Hnd0 HR0 Hrr H1 H2).
      apply sum_ext; intros x _. apply sum_ext; intros e He. rewrite (Hinner e He). reflexivity.
    + change (md (tcore c)) with (nd c). rewrite Hnd0. cbn [sum]. change (rr (tcore c)) with (rr c * rr c)%nat.
      rewrite <- (tcore_tail c b1 b2 Hnd0 HR0 Hrr H1 H2).
      match goal with |- 0 + ?t = _ => replace (0 + t) with t by ring end.
      apply sum_ext; intros e He. rewrite (Hinner e He). reflexivity.
Qed.

(* ---- squeeze keeps the tails ---- *)
Lemma nomode_dims (c : core) : nomode c = true -> md c = 1%nat /\ nd c = 1%nat.
Proof. unfold nomode. intros H. apply andb_prop in H. destruct H as [H1 H2]. apply Nat.eqb_eq in H1, H2. tauto. Qed.

Lemma tail_weight_absorb (c c1 : core) (cs : list core) b : nomode c1 = true ->
  tail_weight (absorb_r c c1 :: cs) b = tail_weight (c :: c1 :: cs) b.
Proof.
  intros Hn. destruct (nomode_dims c1 Hn) as [Hm _].
  rewrite !tail_weight_cons. cbn [md rr absorb_r]. apply sum_ext; intros x _.
  transitivity (sum (rr c) (fun q => g c b x 0%nat q * sum (rr c1) (fun e => g c1 q 0%nat 0%nat e * tail_weight cs e))).
  - cbn [g absorb_r].
    erewrite sum_ext; [|intros e _; rewrite <- sum_scal_r; reflexivity].
    rewrite sum_swap. apply sum_ext; intros q _. rewrite <- sum_scal_l. apply sum_ext; intros e _. ring.
  - apply sum_ext; intros q _. f_equal. rewrite tail_weight_cons. rewrite Hm. cbn [sum]. ring.
Qed.

Lemma tail_weight_squeeze_tail : forall (cs : list core) (c : core) b,
  tail_weight (squeeze_tail c cs) b = tail_weight (c :: cs) b.
Proof.
  induction cs as [|c1 cs IH]; intros c b; [reflexivity|].
  cbn [squeeze_tail]. destruct (nomode c1) eqn:En.
  - rewrite IH. apply tail_weight_absorb. exact En.
  - rewrite !(tail_weight_cons c). apply sum_ext; intros x _. apply sum_ext; intros e _. rewrite IH. reflexivity.
Qed.

(* every proper tail of the train, all sites summed out, is vec(I) of the rank it is attached to *)
Definition tails_ok (cs : list core) : Prop :=
  forall pre c rest, cs = pre ++ c :: rest -> forall b, (b < rr c)%nat -> tail_weight rest b = vecI (rr c) b.

Lemma tails_ok_tl (c : core) (cs : list core) : tails_ok (c :: cs) -> tails_ok cs.
Proof. intros H pre c' rest E b Hb. apply (H (c :: pre) c' rest); [rewrite E; reflexivity|exact Hb]. Qed.
Lemma tails_ok_suffix (a b : list core) : tails_ok (a ++ b) -> tails_ok b.
Proof. induction a as [|x a IH]; intros H; [exact H|]. apply IH. apply (tails_ok_tl x). exact H. Qed.
Lemma tails_ok_head (c1 c2 : core) (l : list core) : rr c1 = rr c2 -> tails_ok (c1 :: l) -> tails_ok (c2 :: l).
Proof.
  intros Hr H pre c' rest E b Hb. destruct pre as [|p pre].
  - cbn [app] in E. injection E as E1 E2. subst c' rest. rewrite <- Hr in *. apply (H [] c1 l eq_refl b Hb).
  - cbn [app] in E. injection E as E1 E2. subst p. apply (H (c1 :: pre) c' rest); [rewrite E2; reflexivity|exact Hb].
Qed.

Lemma squeeze_tail_tails_ok : forall (cs : list core) (c : core), tails_ok (c :: cs) -> tails_ok (squeeze_tail c cs).
Proof.
  induction cs as [|c1 cs IH]; intros c H; [exact H|].
  cbn [squeeze_tail]. destruct (nomode c1) eqn:En.
  - apply IH. intros pre c' rest E b Hb. destruct pre as [|p pre].
    + cbn [app] in E. injection E as E1 E2. subst c' rest. cbn [rr absorb_r] in Hb |- *.
      apply (H [c] c1 cs eq_refl b Hb).
    + cbn [app] in E. injection E as E1 E2. apply (H (c :: c1 :: pre) c' rest); [rewrite E2; reflexivity|exact Hb].
  - intros pre c' rest E b Hb. destruct pre as [|p pre].
    + cbn [app] in E. injection E as E1 E2. subst c' rest. rewrite tail_weight_squeeze_tail.
      apply (H [] c (c1 :: cs) eq_refl b Hb).
    + cbn [app] in E. injection E as E1 E2.
      apply (IH c1 (tails_ok_tl c (c1 :: cs) H) pre c' rest E2 b Hb).
Qed.

Lemma squeeze_lead_suffix : forall (cs : list core) v, exists lead, cs = lead ++ snd (squeeze_lead v cs).
Proof.
  induction cs as [|c cs IH]; intros v; [exists []; reflexivity|].
  cbn [squeeze_lead]. destruct (nomode c).
  - destruct v as [[n w]|].
    + destruct (IH (Some (rr c, fun b => sum n (fun q => w q * g c q 0%nat 0%nat b)))) as [lead E]. exists (c :: lead). cbn [app]. f_equal. exact E.
    + destruct (IH (Some (rr c, fun b => g c 0%nat 0%nat 0%nat b))) as [lead E]. exists (c :: lead). cbn [app]. f_equal. exact E.
  - exists []. reflexivity.
Qed.

Theorem squeeze_tails_ok (cs : list core) : tails_ok cs -> tails_ok (squeeze cs).
Proof.
  intros H. unfold squeeze. destruct (squeeze_lead_suffix cs None) as [lead E].
  destruct (squeeze_lead None cs) as [v' [|c cs']]; cbn [snd] in E.
  - destruct v' as [[? ?]|]; intros pre c0 rest E2; destruct pre; discriminate.
  - rewrite E in H. apply tails_ok_suffix in H.
    destruct v' as [[n w]|].
    + apply squeeze_tail_tails_ok. apply (tails_ok_head c); [reflexivity|exact H].
    + apply squeeze_tail_tails_ok. exact H.
Qed.

(* the unsqueezed probability train has good tails *)
Lemma ptrain_tails_ok : forall (cs : list core) sel, length sel = length cs ->
  Forall (fun c => nd c = 1%nat) cs -> Forall right_iso cs -> linked cs 1%nat -> Forall (fun c => (0 < rl c)%nat) cs ->
  tails_ok (ptrain sel cs).
Proof.
  induction cs as [|c cs IH]; intros sel Hsel Hnd HR HL Hpos.
  - destruct sel; [|discriminate]. intros pre c rest E. destruct pre; discriminate.
  - destruct sel as [|s sel]; [discriminate|]. simpl in Hsel. cbn [ptrain].
    inversion Hnd as [|? ? Hnd0 Hnd']; subst. inversion HR as [|? ? HR0 HR']; subst.
    inversion Hpos as [|? ? Hp0 Hp']; subst.
    assert (HL0 := HL). cbn [linked] in HL. destruct HL as (Hrr & Hlk & HL).
    intros pre c' rest E b Hb. destruct pre as [|p pre].
    + cbn [app] in E. injection E as E1 E2. subst c' rest.
      assert (Hrrp : rr (pcore s c) = (rr c * rr c)%nat) by (destruct s; reflexivity). rewrite Hrrp in Hb |- *.
      assert (Hdiv : (b = (b / rr c) * rr c + b mod rr c)%nat) by (rewrite Nat.mul_comm; apply Nat.div_mod; lia).
      assert (He1 : (b / rr c < rr c)%nat) by (apply Nat.div_lt_upper_bound; lia).
      assert (He2 : (b mod rr c < rr c)%nat) by (apply Nat.mod_upper_bound; lia).
      pose proof (@vecI_square R (rr c) (b / rr c)%nat (b mod rr c)%nat Hrr He2) as HV. rewrite <- Hdiv in HV. rewrite HV.
      rewrite Hlk in He1, He2 |- *.
      pose proof (ptrain_tail_weight cs sel (b / rl_of cs 1)%nat (b mod rl_of cs 1)%nat ltac:(lia) Hnd' HR' HL Hp' He1 He2) as HT.
      rewrite Hlk in Hdiv. rewrite <- Hdiv in HT. exact HT.
    + cbn [app] in E. injection E as E1 E2.
      apply (IH sel ltac:(lia) Hnd' HR' HL Hp' pre c' rest E2 b Hb).
Qed.

(* the probability train the sampler works on: every tail is vec(I), measured or not *)
Theorem prob_tt_tails_ok (state : list core) sel : length sel = length state ->
  Forall (fun c => nd c = 1%nat) state -> Forall right_iso state -> linked state 1%nat -> Forall (fun c => (0 < rl c)%nat) state ->
  tails_ok (prob_tt sel state).
Proof.
  intros Hsel Hnd HR HL Hpos. unfold prob_tt. rewrite (ptrain_is_product state sel Hsel).
  apply squeeze_tails_ok. apply ptrain_tails_ok; assumption.
Qed.

End TailProof.
