(* C02: TT.tensordot — the accumulated rank-rank matrix is the sum, over all row and column
   indices of the contracted cores, of the products of the two chains; value of the default
   mode 'last-first' in the structural cases "partial" and "complete in both". *)
From Coq Require Import ZArith List Lia Ring Arith Bool.
Import ListNotations.
Require Import Ring Sums Matrix Core Chain Sweep Structure SweepProof StructProof.

Section TensordotProof.
Context {R : cring}.
Add Ring Rr9 : (cring_th R).
Open Scope cr_scope.
Notation core := (core R).

(* sum over pairs (row index, column index), core by core *)
Fixpoint dsum (ms ns : list nat) (F : list nat -> list nat -> R) : R :=
  match ms, ns with
  | m :: ms', n :: ns' => sum m (fun x => sum n (fun y => dsum ms' ns' (fun zx zy => F (x :: zx) (y :: zy))))
  | _, _ => F [] []
  end.

Lemma dsum_ext ms : forall ns F G, (forall zx zy, F zx zy = G zx zy) -> dsum ms ns F = dsum ms ns G.
Proof.
  induction ms as [|m ms IH]; intros ns F G H; simpl; [apply H|].
  destruct ns as [|n ns]; [apply H|]. apply sum_ext; intros x _. apply sum_ext; intros y _. apply IH. intros; apply H.
Qed.
Lemma dsum_scal_l ms : forall ns c F, dsum ms ns (fun zx zy => c * F zx zy) = c * dsum ms ns F.
Proof.
  induction ms as [|m ms IH]; intros ns c F; simpl; [reflexivity|].
  destruct ns as [|n ns]; [reflexivity|]. rewrite <- sum_scal_l. apply sum_ext; intros x _.
  rewrite <- sum_scal_l. apply sum_ext; intros y _. apply IH.
Qed.
Lemma dsum_scal_r ms : forall ns c F, dsum ms ns (fun zx zy => F zx zy * c) = dsum ms ns F * c.
Proof.
  induction ms as [|m ms IH]; intros ns c F; simpl; [reflexivity|].
  destruct ns as [|n ns]; [reflexivity|]. rewrite <- sum_scal_r. apply sum_ext; intros x _.
  rewrite <- sum_scal_r. apply sum_ext; intros y _. apply IH.
Qed.
Lemma dsum_sum ms : forall ns k (F : nat -> list nat -> list nat -> R),
  sum k (fun q => dsum ms ns (F q)) = dsum ms ns (fun zx zy => sum k (fun q => F q zx zy)).
Proof.
  induction ms as [|m ms IH]; intros ns k F; simpl; [reflexivity|].
  destruct ns as [|n ns]; [reflexivity|].
  rewrite sum_swap. apply sum_ext; intros x _. rewrite sum_swap. apply sum_ext; intros y _. apply IH.
Qed.

(* the quantity tensordot accumulates *)
Definition Prod (cs ds : list core) (b bn b' b'n : nat) : R :=
  dsum (rows cs) (cols cs) (fun zx zy => chain cs zx zy b bn * chain ds zx zy b' b'n).

Lemma sum4_swap m n p q (f : nat -> nat -> nat -> nat -> R) :
  sum m (fun x => sum n (fun y => sum p (fun u => sum q (fun v => f x y u v)))) =
  sum p (fun u => sum q (fun v => sum m (fun x => sum n (fun y => f x y u v)))).
Proof.
  transitivity (sum m (fun x => sum p (fun u => sum n (fun y => sum q (fun v => f x y u v))))).
  { apply sum_ext; intros x _. apply sum_swap. }
  rewrite sum_swap. apply sum_ext; intros u _.
  transitivity (sum m (fun x => sum q (fun v => sum n (fun y => f x y u v)))).
  { apply sum_ext; intros x _. apply sum_swap. }
  apply sum_swap.
Qed.

Lemma Prod_cons (c d : core) cs ds b bn b' b'n :
  Prod (c :: cs) (d :: ds) b bn b' b'n =
  sum (rr c) (fun b2 => sum (rr d) (fun b2' => pairM c d b b2 b' b2' * Prod cs ds b2 bn b2' b'n)).
Proof.
  unfold Prod. cbn [rows cols map dsum]. fold (rows cs) (cols cs).
  set (P := fun b2 b2' => dsum (rows cs) (cols cs) (fun zx zy => chain cs zx zy b2 bn * chain ds zx zy b2' b'n)).
  transitivity (sum (md c) (fun x => sum (nd c) (fun y => sum (rr c) (fun b2 => sum (rr d) (fun b2' =>
                  (g c b x y b2 * g d b' x y b2') * P b2 b2'))))).
  - apply sum_ext; intros x _. apply sum_ext; intros y _.
    transitivity (dsum (rows cs) (cols cs) (fun zx zy => sum (rr c) (fun b2 => sum (rr d) (fun b2' =>
                    (g c b x y b2 * g d b' x y b2') * (chain cs zx zy b2 bn * chain ds zx zy b2' b'n))))).
    + apply dsum_ext; intros zx zy. cbn [chain]. unfold mmul, cmat.
      rewrite <- sum_scal_r. apply sum_ext; intros b2 _. rewrite <- sum_scal_l. apply sum_ext; intros b2' _. ring.
    + rewrite <- dsum_sum. apply sum_ext; intros b2 _. rewrite <- dsum_sum. apply sum_ext; intros b2' _.
      unfold P. rewrite <- dsum_scal_l. reflexivity.
  - rewrite sum4_swap. apply sum_ext; intros b2 _. apply sum_ext; intros b2' _.
    unfold pairM. rewrite <- sum_scal_r. apply sum_ext; intros x _. rewrite <- sum_scal_r. reflexivity.
Qed.

Lemma last_default {A} (l : list A) d d' : l <> [] -> last l d = last l d'.
Proof. induction l as [|x l IH]; intros H; [congruence|]. destruct l; [reflexivity|]. simpl in *. apply IH. discriminate. Qed.
Lemma last_cons {A} (x : A) l d : last (x :: l) d = last l x.
Proof. destruct l as [|a l]; [reflexivity|]. change (last (x :: a :: l) d) with (last (a :: l) d). apply last_default. discriminate. Qed.

Lemma accM_spec (cs : list core) : forall ds (M : M4) pc pd a bn a' b'n,
  length ds = length cs ->
  (bn < rr (last cs pc))%nat -> (b'n < rr (last ds pd))%nat ->
  accM M pc pd cs ds a bn a' b'n =
  sum (rr pc) (fun b => sum (rr pd) (fun b' => M a b a' b' * Prod cs ds b bn b' b'n)).
Proof.
  induction cs as [|c cs IH]; intros ds M pc pd a bn a' b'n Hl H1 H2.
  - destruct ds; [|discriminate]. simpl in H1, H2. cbn [accM]. unfold Prod. cbn [rows cols map dsum chain].
    rewrite (sum_ext (rr pc) _ (fun b => if Nat.eqb b bn then M a b a' b'n else 0)).
    + rewrite (sum_single (rr pc) bn (fun b => M a b a' b'n)) by assumption. reflexivity.
    + intros b _.
      rewrite (sum_ext (rr pd) _ (fun b' => if Nat.eqb b' b'n then M a b a' b' * delta b bn else 0)).
      * rewrite (sum_single (rr pd) b'n (fun b' => M a b a' b' * delta b bn)) by assumption.
        unfold delta. destruct (Nat.eqb b bn) eqn:E; [apply Nat.eqb_eq in E; subst|]; ring.
      * intros b' _. unfold delta. destruct (Nat.eqb b' b'n) eqn:E; [|ring]. ring.
  - destruct ds as [|d ds]; [discriminate|]. simpl in Hl.
    cbn [accM]. rewrite IH; [|lia| |].
    + transitivity (sum (rr c) (fun b2 => sum (rr d) (fun b2' => sum (rr pc) (fun b => sum (rr pd) (fun b' =>
                      M a b a' b' * (pairM c d b b2 b' b2' * Prod cs ds b2 bn b2' b'n)))))).
      { apply sum_ext; intros b2 _. apply sum_ext; intros b2' _. unfold stepM.
        rewrite <- sum_scal_r. apply sum_ext; intros b _. rewrite <- sum_scal_r. apply sum_ext; intros b' _. ring. }
      rewrite sum4_swap. apply sum_ext; intros b _. apply sum_ext; intros b' _.
      rewrite Prod_cons. rewrite <- sum_scal_l. apply sum_ext; intros b2 _.
      rewrite <- sum_scal_l. reflexivity.
    + rewrite <- last_cons with (d := pc). exact H1.
    + rewrite <- last_cons with (d := pd). exact H2.
Qed.

Theorem contractM_spec (tpart upart : list core) a bn a' b'n :
  tpart <> [] -> length upart = length tpart ->
  (bn < rr (lastc tpart))%nat -> (b'n < rr (lastc upart))%nat ->
  contractM tpart upart a bn a' b'n = Prod tpart upart a bn a' b'n.
Proof.
  intros Hne Hl H1 H2. destruct tpart as [|c cs]; [congruence|]. destruct upart as [|d ds]; [discriminate|].
  simpl in Hl. unfold contractM. unfold lastc in *. rewrite last_cons in H1, H2.
  rewrite accM_spec by (try lia; assumption). symmetry. apply Prod_cons.
Qed.

Lemma dsum_ext_len ms : forall ns F G, length ns = length ms ->
  (forall zx zy, length zx = length ms -> length zy = length ms -> F zx zy = G zx zy) -> dsum ms ns F = dsum ms ns G.
Proof.
  induction ms as [|m ms IH]; intros ns F G Hl H; destruct ns as [|n ns]; try discriminate; simpl; [apply H; reflexivity|].
  simpl in Hl. apply sum_ext; intros x _. apply sum_ext; intros y _. apply IH; [lia|].
  intros zx zy Hx Hy. apply H; simpl; lia.
Qed.

Lemma chain_app_mm (cs ds : list core) xs1 ys1 xs2 ys2 fin i j :
  length xs1 = length cs -> length ys1 = length cs -> linked cs fin -> fin = rl_of ds fin ->
  (cs = [] -> (i < fin)%nat) ->
  chain (cs ++ ds) (xs1 ++ xs2) (ys1 ++ ys2) i j = mmul fin (chain cs xs1 ys1) (chain ds xs2 ys2) i j.
Proof.
  intros Hx Hy HL Hf Hi. rewrite (chain_app cs ds xs1 ys1 xs2 ys2 fin) by assumption.
  destruct cs; [|reflexivity]. destruct xs1; [|discriminate]. destruct ys1; [|discriminate].
  cbn [chain]. symmetry. apply mmul_delta_l. apply Hi. reflexivity.
Qed.

(* mode 'last-first', fewer contracted axes than cores of self:
   self = pre ++ [c] ++ tpart, other = upart ++ post, the last |tpart| cores of self are
   contracted with the first |upart| cores of other over their row AND column indices *)
Theorem tensordot_last_first_value (pre : list core) (c : core) tpart upart post xp yp x y xq yq i j fin :
  let Mat := snd (sliceM LastFirst tpart upart) in
  let mc := rr (lastc upart) in
  tpart <> [] -> length upart = length tpart -> rows upart = rows tpart -> cols upart = cols tpart ->
  linked (pre ++ c :: tpart) 1%nat -> linked (upart ++ post) fin -> rl_of upart 1%nat = 1%nat ->
  length xp = length pre -> length yp = length pre -> (pre = [] -> (i < rl c)%nat) ->
  chain (pre ++ core_mat c mc Mat :: post) (xp ++ x :: xq) (yp ++ y :: yq) i j =
  dsum (rows tpart) (cols tpart) (fun zx zy =>
     chain (pre ++ c :: tpart) (xp ++ x :: zx) (yp ++ y :: zy) i 0%nat *
     chain (upart ++ post) (zx ++ xq) (zy ++ yq) 0%nat j).
Proof.
  intros Mat mc Hne Hl Hrw Hcl HLt HLu Hu0 Hxp Hyp Hi.
  apply linked_app in HLt. destruct HLt as (Lpre & Lct). cbn [rl_of] in Lpre.
  destruct Lct as (Pc & Ec & Lt).
  apply linked_app in HLu. destruct HLu as (Lup & Lpost).
  assert (Hlast_t : rr (lastc tpart) = 1%nat).
  { destruct (exists_last Hne) as (l' & cl & ->). unfold lastc. rewrite last_last.
    apply linked_last in Lt. tauto. }
  assert (Hune : upart <> []) by (intros ->; destruct tpart; [congruence|discriminate]).
  assert (Hlast_u : rr (lastc upart) = rl_of post fin /\ (0 < rl_of post fin)%nat).
  { destruct (exists_last Hune) as (l' & cl & ->). unfold lastc. rewrite last_last.
    apply linked_last in Lup. exact Lup. }
  destruct Hlast_u as (Hlast_u & Ppost).
  (* left-hand side *)
  transitivity (mmul (rl c) (chain pre xp yp)
                 (mmul mc (mmul (rr c) (cmat c x y) Mat) (chain post xq yq)) i j).
  { rewrite (chain_app_mm pre (core_mat c mc Mat :: post) xp yp (x :: xq) (y :: yq) (rl c)); try assumption; [|reflexivity].
    apply mmul_ext; intros k Hk; [reflexivity|]. cbn [chain rr core_mat]. apply mmul_ext; intros l Hl'; reflexivity. }
  (* right-hand side, pointwise in the contracted indices *)
  transitivity (dsum (rows tpart) (cols tpart) (fun zx zy =>
     mmul (rl c) (chain pre xp yp) (mmul (rr c) (cmat c x y) (chain tpart zx zy)) i 0%nat *
     mmul mc (chain upart zx zy) (chain post xq yq) 0%nat j)).
  2:{ apply dsum_ext_len; [unfold rows, cols; rewrite !map_length; reflexivity|].
      intros zx zy Hzx Hzy. unfold rows in Hzx, Hzy. rewrite map_length in Hzx, Hzy. f_equal.
      - rewrite (chain_app_mm pre (c :: tpart) xp yp (x :: zx) (y :: zy) (rl c)); try assumption; reflexivity.
      - unfold mc. rewrite Hlast_u.
        rewrite (chain_app_mm upart post zx zy xq yq (rl_of post fin)); try assumption; try lia; try reflexivity.
        all: try (destruct post; reflexivity). all: try (intros; congruence). }
  (* algebra *)
  set (P := chain pre xp yp). set (C := cmat c x y). set (Q := chain post xq yq).
  transitivity (sum (rl c) (fun a => sum mc (fun b' => sum (rr c) (fun q => (P i a * C a q * Q b' j) * Mat q b')))).
  { unfold mmul. apply sum_ext; intros a _. rewrite <- sum_scal_l. apply sum_ext; intros b' _.
    rewrite <- sum_scal_r, <- sum_scal_l. apply sum_ext; intros q _. ring. }
  transitivity (sum (rl c) (fun a => sum mc (fun b' => sum (rr c) (fun q =>
       dsum (rows tpart) (cols tpart) (fun zx zy => (P i a * C a q * Q b' j) * (chain tpart zx zy q 0%nat * chain upart zx zy 0%nat b')))))).
  { apply sum_ext; intros a _. apply sum_ext; intros b' Hb'. apply sum_ext; intros q _.
    rewrite dsum_scal_l. f_equal. unfold Mat, sliceM. cbn [snd].
    apply contractM_spec; try assumption; lia. }
  erewrite sum_ext; cycle 1.
  { intros a _. erewrite sum_ext; cycle 1.
    { intros b' _. rewrite dsum_sum. reflexivity. }
    rewrite dsum_sum. reflexivity. }
  rewrite dsum_sum. apply dsum_ext; intros zx zy.
  unfold mmul. fold P C Q.
  rewrite <- sum_scal_r. apply sum_ext; intros a _.
  rewrite <- sum_scal_l. apply sum_ext; intros b' _.
  transitivity (P i a * sum (rr c) (fun q => C a q * chain tpart zx zy q 0%nat) * (chain upart zx zy 0%nat b' * Q b' j)); [|ring].
  rewrite <- sum_scal_l, <- sum_scal_r. apply sum_ext; intros q _. ring.
Qed.

(* complete contraction in both operands: the result is the single 1x1-mode core holding
   sum_{zx,zy} elem self zx zy * elem other zx zy *)
Theorem tensordot_complete_value (ts us : list core) :
  ts <> [] -> length us = length ts -> linked ts 1%nat -> linked us 1%nat ->
  snd (sliceM LastFirst ts us) 0%nat 0%nat =
  dsum (rows ts) (cols ts) (fun zx zy => elem ts zx zy * elem us zx zy).
Proof.
  intros Hne Hl Lt Lu. unfold sliceM. cbn [snd].
  assert (Hune : us <> []) by (intros ->; destruct ts; [congruence|discriminate]).
  rewrite contractM_spec; try assumption.
  - reflexivity.
  - destruct (exists_last Hne) as (l' & cl & ->). unfold lastc. rewrite last_last. apply linked_last in Lt. lia.
  - destruct (exists_last Hune) as (l' & cl & ->). unfold lastc. rewrite last_last. apply linked_last in Lu. lia.
Qed.

(* the model function [tensordot LastFirst] on operands given by their segments *)
Lemma tensordot_lf_unfold (pre : list core) (c : core) tpart upart post :
  length upart = length tpart ->
  tensordot LastFirst (length tpart) (pre ++ c :: tpart) (upart ++ post) =
  pre ++ core_mat c (rr (lastc upart)) (snd (sliceM LastFirst tpart upart)) :: post.
Proof.
  intros Hl. unfold tensordot.
  rewrite !app_length. cbn [length].
  replace (length pre + S (length tpart) - length tpart)%nat with (S (length pre)) by lia.
  assert (E1 : skipn (S (length pre)) (pre ++ c :: tpart) = tpart).
  { replace (S (length pre)) with (length (pre ++ [c])) by (rewrite app_length; simpl; lia).
    replace (pre ++ c :: tpart) with ((pre ++ [c]) ++ tpart) by (rewrite <- app_assoc; reflexivity).
    rewrite skipn_app, skipn_all, Nat.sub_diag. reflexivity. }
  assert (E2 : firstn (length tpart) (upart ++ post) = upart).
  { rewrite <- Hl. rewrite firstn_app, firstn_all, Nat.sub_diag. simpl. apply app_nil_r. }
  rewrite E1, E2.
  destruct (sliceM LastFirst tpart upart) as ((mr & mc) & Mat) eqn:Es.
  assert (Emc : mc = rr (lastc upart)) by (unfold sliceM in Es; inversion Es; reflexivity).
  replace (length tpart =? length pre + S (length tpart))%nat with false by (symmetry; apply Nat.eqb_neq; lia).
  cbn [andb]. cbn [snd].
  replace (S (length pre) - 1)%nat with (length pre) by lia.
  rewrite firstn_app, firstn_all, Nat.sub_diag. cbn [firstn]. rewrite app_nil_r.
  rewrite app_nth2 by lia. rewrite Nat.sub_diag. cbn [nth].
  rewrite <- Hl. rewrite skipn_app, skipn_all, Nat.sub_diag. cbn [skipn app].
  subst mc. reflexivity.
Qed.
End TensordotProof.

