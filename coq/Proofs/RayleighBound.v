(* C08: "never exceeds the largest eigenvalue of the pencil".  lambda is an upper bound of the pencil (A, G) exactly when
   lambda G - A is positive semi-definite, i.e. a Gram matrix B^H B (Cholesky; classical).  With such a certificate, for EVERY
   vector x:   lambda x^H G x - x^H A x = |B x|^2   (a sum of conj(z) z).  Together with C08_ritz_consistent (the returned
   value mu satisfies x^H A x = mu x^H G x for the returned tensor): (lambda - mu) x^H G x = |B x|^2 >= 0. *)
From Coq Require Import ZArith List Lia Ring Arith Bool.
Import ListNotations.
Require Import Ring Sums Matrix.

Section RayleighBound.
Context {R : cring}.
Add Ring Rr59 : (cring_th R).
Open Scope cr_scope.

Variables (N K : nat) (A G B : M R) (lam : R) (x : nat -> R).
Hypothesis Hc : forall i j, (i < N)%nat -> (j < N)%nat -> lam * G i j - A i j = sum K (fun k => cconj R (B k i) * B k j).

Definition quad (Mx : M R) : R := sum N (fun i => cconj R (x i) * sum N (fun j => Mx i j * x j)).
Definition Bx (k : nat) : R := sum N (fun j => B k j * x j).

Theorem rayleigh_gap : lam * quad G - quad A = sum K (fun k => cconj R (Bx k) * Bx k).
Proof.
  unfold quad, Bx.
  transitivity (sum N (fun i => sum N (fun j => sum K (fun k => (cconj R (B k i) * cconj R (x i)) * (B k j * x j))))).
  - transitivity (sum N (fun i => sum N (fun j => cconj R (x i) * ((lam * G i j - A i j) * x j)))).
    + transitivity (sum N (fun i => lam * (cconj R (x i) * sum N (fun j => G i j * x j)) + - (cconj R (x i) * sum N (fun j => A i j * x j)))).
      * rewrite sum_add, sum_opp, sum_scal_l. ring.
      * apply sum_ext; intros i _.
        transitivity (cconj R (x i) * (lam * sum N (fun j => G i j * x j) + - sum N (fun j => A i j * x j))); [ring|].
        rewrite (sum_scal_l N (cconj R (x i))). f_equal.
        rewrite <- (sum_scal_l N lam), <- sum_opp, <- sum_add. apply sum_ext; intros j _. ring.
    + apply sum_ext; intros i Hi. apply sum_ext; intros j Hj. rewrite (Hc i j Hi Hj).
      transitivity (cconj R (x i) * x j * sum K (fun k => cconj R (B k i) * B k j)); [ring|].
      rewrite <- sum_scal_l. apply sum_ext; intros k _. ring.
  - transitivity (sum K (fun k => sum N (fun i => sum N (fun j => (cconj R (B k i) * cconj R (x i)) * (B k j * x j))))).
    + transitivity (sum N (fun i => sum K (fun k => sum N (fun j => (cconj R (B k i) * cconj R (x i)) * (B k j * x j))))).
      * apply sum_ext; intros i _. apply sum_swap.
      * apply sum_swap.
    + apply sum_ext; intros k _. rewrite sum_conj. rewrite <- sum_scal_r. apply sum_ext; intros i _.
      rewrite conj_mul. rewrite <- sum_scal_l. reflexivity.
Qed.

End RayleighBound.

(* over Z a sum of squares is non-negative *)
Lemma sum_sq_nonneg_Z (n : nat) (f : nat -> Z) : (0 <= @sum Zring n (fun k => cconj Zring (f k) * f k)%cr)%Z.
Proof.
  induction n as [|n IH]; [apply Z.le_refl|].
  change (0 <= @sum Zring n (fun k => cconj Zring (f k) * f k)%cr + f n * f n)%Z. nia.
Qed.

Theorem below_bound_Z (N K : nat) (A G B : M Zring) (lam : Z) (x : nat -> Z) :
  (forall i j, (i < N)%nat -> (j < N)%nat -> (lam * G i j - A i j)%Z = @sum Zring K (fun k => (B k i * B k j)%Z)) ->
  (@quad Zring N x A <= lam * @quad Zring N x G)%Z.
Proof.
  intros Hc. pose proof (@rayleigh_gap Zring N K A G B lam x Hc) as E.
  pose proof (sum_sq_nonneg_Z K (fun k => @Bx Zring N B x k)) as Hpos.
  change (lam * @quad Zring N x G - @quad Zring N x A = @sum Zring K (fun k => cconj Zring (@Bx Zring N B x k) * @Bx Zring N B x k)%cr)%Z in E.
  lia.
Qed.
