(* C19: the reduced matrices of tgEDMD have the form B A with A = U S^-1 (N x r; N = number of product basis functions),
   and A B is the dense projected generator:
     non-reversible:  M = sum_l sqrt(w_l) V[l,:]^T (v_l S^-1),  v_l = (L Psi)(x_l) contracted with U (C19_contraction)
                      B = V^T W^(1/2) (L Psi)^T,  A B = U S^-1 V^T W^(1/2) (L Psi)^T = (Psi~^T)^+ (L Psi~)^T
     reversible:      M = -1/2 sum_l w_l (G_l S^-1)^T a_l (G_l S^-1),  G_l = grad Psi(x_l) contracted with U
                      B = S^-1 U^T E,  E = -1/2 sum_l w_l grad Psi a_l grad Psi^T,  A B = U S^-2 U^T E = C_00^+ E.
   With TedmdProof.eig_AB_BA / eig_back: eigenpairs of M are eigenpairs (lambda, A w) of the dense matrix and every
   non-zero eigenvalue of the dense matrix is one of M. *)
From Coq Require Import ZArith List Lia Ring Arith Bool.
Import ListNotations.
Require Import Ring Sums Matrix.

Section GedmdReduced.
Context {R : cring}.
Add Ring Rr58 : (cring_th R).
Open Scope cr_scope.

Variables (N r m d : nat) (U : M R) (sinv : nat -> R).
Definition Ared : M R := fun idx b => U idx b * sinv b.

(* ---- non-reversible ---- *)
Variables (V : M R) (sw : nat -> R) (LPsi : M R).        (* V: m x r, LPsi: N x m *)
Definition v_nr (l b : nat) : R := sum N (fun idx => LPsi idx l * U idx b).
Definition M_nr : M R := fun a b => sum m (fun l => sw l * (V l a * (v_nr l b * sinv b))).
Definition B_nr : M R := fun a idx => sum m (fun l => sw l * V l a * LPsi idx l).

Theorem reduced_nr_is_BA a b : M_nr a b = mmul N B_nr Ared a b.
Proof.
  unfold M_nr, mmul, B_nr, Ared, v_nr.
  transitivity (sum m (fun l => sum N (fun idx => sw l * V l a * LPsi idx l * (U idx b * sinv b)))).
  - apply sum_ext; intros l _.
    transitivity (sw l * V l a * sinv b * sum N (fun idx => LPsi idx l * U idx b)); [ring|].
    rewrite <- sum_scal_l. apply sum_ext; intros idx _. ring.
  - rewrite sum_swap. apply sum_ext; intros idx _. rewrite <- sum_scal_r. reflexivity.
Qed.

(* ---- reversible ---- *)
Variables (w : nat -> R) (mhalf : R) (dPsi : nat -> nat -> nat -> R) (al : nat -> nat -> nat -> R).   (* dPsi idx l i, al l i j *)
Definition G_rev (l i b : nat) : R := sum N (fun idx => dPsi idx l i * U idx b).
Definition M_rev : M R := fun a b =>
  sum m (fun l => mhalf * w l * sum d (fun i => sum d (fun j => (G_rev l i a * sinv a) * al l i j * (G_rev l j b * sinv b)))).
Definition E_rev : M R := fun idx idx' =>
  sum m (fun l => mhalf * w l * sum d (fun i => sum d (fun j => dPsi idx l i * al l i j * dPsi idx' l j))).
Definition B_rev : M R := fun a idx' => sinv a * sum N (fun idx => U idx a * E_rev idx idx').

Theorem reduced_rev_is_BA a b : M_rev a b = mmul N B_rev Ared a b.
Proof.
  unfold M_rev, mmul, B_rev, Ared, E_rev, G_rev.
  transitivity (sum m (fun l => sum d (fun i => sum d (fun j => sum N (fun idx => sum N (fun idx' =>
                  mhalf * w l * sinv a * sinv b * al l i j * (dPsi idx l i * U idx a) * (dPsi idx' l j * U idx' b))))))).
  - apply sum_ext; intros l _. rewrite <- sum_scal_l. apply sum_ext; intros i _. rewrite <- sum_scal_l. apply sum_ext; intros j _.
    transitivity (mhalf * w l * sinv a * sinv b * al l i j * (sum N (fun idx => dPsi idx l i * U idx a) * sum N (fun idx' => dPsi idx' l j * U idx' b))); [ring|].
    rewrite <- sum_scal_r, <- sum_scal_l. apply sum_ext; intros idx _.
    rewrite <- sum_scal_l, <- sum_scal_l. apply sum_ext; intros idx' _. ring.
  - transitivity (sum N (fun idx' => sum N (fun idx => sum m (fun l => sum d (fun i => sum d (fun j =>
                  mhalf * w l * sinv a * sinv b * al l i j * (dPsi idx l i * U idx a) * (dPsi idx' l j * U idx' b))))))).
    + (* reorder the five sums *)
      transitivity (sum m (fun l => sum N (fun idx' => sum N (fun idx => sum d (fun i => sum d (fun j =>
                  mhalf * w l * sinv a * sinv b * al l i j * (dPsi idx l i * U idx a) * (dPsi idx' l j * U idx' b))))))).
      * apply sum_ext; intros l _.
        transitivity (sum d (fun i => sum N (fun idx' => sum N (fun idx => sum d (fun j =>
                  mhalf * w l * sinv a * sinv b * al l i j * (dPsi idx l i * U idx a) * (dPsi idx' l j * U idx' b)))))).
        -- apply sum_ext; intros i _.
           transitivity (sum d (fun j => sum N (fun idx' => sum N (fun idx =>
                  mhalf * w l * sinv a * sinv b * al l i j * (dPsi idx l i * U idx a) * (dPsi idx' l j * U idx' b))))).
           ++ apply sum_ext; intros j _. apply sum_swap.
           ++ rewrite sum_swap. apply sum_ext; intros idx' _. apply sum_swap.
        -- rewrite sum_swap. apply sum_ext; intros idx' _. apply sum_swap.
      * rewrite sum_swap. apply sum_ext; intros idx' _. apply sum_swap.
    + apply sum_ext; intros idx' _.
      transitivity (sinv a * sinv b * U idx' b * sum N (fun idx => U idx a *
                      sum m (fun l => mhalf * w l * sum d (fun i => sum d (fun j => dPsi idx l i * al l i j * dPsi idx' l j))))); [|ring].
      rewrite <- sum_scal_l. apply sum_ext; intros idx _.
      transitivity (sinv a * sinv b * U idx' b * U idx a *
                      sum m (fun l => mhalf * w l * sum d (fun i => sum d (fun j => dPsi idx l i * al l i j * dPsi idx' l j)))); [|ring].
      rewrite <- sum_scal_l. apply sum_ext; intros l _.
      transitivity (sinv a * sinv b * U idx' b * U idx a * mhalf * w l * sum d (fun i => sum d (fun j => dPsi idx l i * al l i j * dPsi idx' l j))); [|ring].
      rewrite <- sum_scal_l. apply sum_ext; intros i _. rewrite <- sum_scal_l. apply sum_ext; intros j _. ring.
Qed.

End GedmdReduced.
