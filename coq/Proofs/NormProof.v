(* C01 norm(p=2): after right-orthonormalisation the squared Euclidean norm of the whole tensor is the squared Frobenius
   norm of the first core (the code then takes numpy's norm of that core). *)
From Coq Require Import ZArith List Lia Ring Arith Bool.
Import ListNotations.
Require Import Ring Sums Matrix Core Chain Sweep SweepProof TensordotProof GlobalSVD GsvdProof.

Section NormProof.
Context {R : cring}.
Add Ring Rr36 : (cring_th R).
Open Scope cr_scope.
Notation core := (core R).
Notation cj := (cconj R).

Theorem norm2_from_first_core (c : core) (rest : list core) :
  Forall right_iso rest -> linked (c :: rest) 1%nat ->
  dsum (rows (c :: rest)) (cols (c :: rest)) (fun xs ys => chain (c :: rest) xs ys 0%nat 0%nat * cj (chain (c :: rest) xs ys 0%nat 0%nat)) =
  sum (md c) (fun x => sum (nd c) (fun y => sum (rr c) (fun b => g c 0%nat x y b * cj (g c 0%nat x y b)))).
Proof.
  intros HR HL. cbn [linked] in HL. destruct HL as (Hp & Hlk & HL).
  cbn [rows cols map dsum]. fold (rows rest) (cols rest).
  apply sum_ext; intros x _. apply sum_ext; intros y _.
  transitivity (sum (rr c) (fun b => sum (rr c) (fun b' => g c 0%nat x y b * cj (g c 0%nat x y b') * gramR rest 1%nat b b'))).
  - unfold gramR. cbn [sum].
    transitivity (dsum (rows rest) (cols rest) (fun xs ys => sum (rr c) (fun b => sum (rr c) (fun b' =>
                    g c 0%nat x y b * cj (g c 0%nat x y b') * (chain rest xs ys b 0%nat * cj (chain rest xs ys b' 0%nat)))))).
    + apply dsum_ext; intros xs ys. cbn [chain]. unfold mmul, cmat. rewrite sum_conj.
      rewrite <- sum_scal_r. apply sum_ext; intros b _. rewrite <- sum_scal_l. apply sum_ext; intros b' _.
      rewrite conj_mul. ring.
    + rewrite <- dsum_sum. apply sum_ext; intros b _. rewrite <- dsum_sum. apply sum_ext; intros b' _.
      rewrite dsum_scal_l. ring.
  - apply sum_ext; intros b Hb.
    rewrite (sum_ext (rr c) _ (fun b' => if Nat.eqb b' b then g c 0%nat x y b * cj (g c 0%nat x y b') else 0)).
    + apply (sum_single (rr c) b (fun b' => g c 0%nat x y b * cj (g c 0%nat x y b'))). exact Hb.
    + intros b' Hb'. rewrite (right_iso_chain rest 1%nat b b' HR HL) by (rewrite <- Hlk; assumption).
      unfold delta. rewrite (Nat.eqb_sym b b'). destruct (Nat.eqb b' b); ring.
Qed.
End NormProof.
