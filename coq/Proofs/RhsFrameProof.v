(* Right-hand-side environments of the alternating linear solver in closed form, and the frame identity for the micro
   right-hand side:  micro_rhs = P^H b  (also the projected deflation tensors of evp.als are of this form). *)
From Coq Require Import ZArith List Lia Ring Arith Bool.
Import ListNotations.
Require Import Ring Sums Matrix Core Chain SweepProof TensordotProof Env EnvProof FrameProof.

Section RhsFrame.
Context {R : cring}.
Add Ring Rr37 : (cring_th R).
Open Scope cr_scope.
Notation core := (core R).
Notation cj := (cconj R).
Definition zs (n : nat) := repeat 0%nat n.

Fixpoint rstack2 (Xs Bs : list core) : st2 R :=
  match Xs, Bs with X :: Xs', B :: Bs' => right_rhs (rstack2 Xs' Bs') X B | _, _ => one2 end.
Fixpoint lstack2_from (L0 : st2 R) (Xs Bs : list core) : st2 R :=
  match Xs, Bs with X :: Xs', B :: Bs' => lstack2_from (left_rhs L0 X B) Xs' Bs' | _, _ => L0 end.
(* transfer kernel of a block: (be, c) on the left -> (be', c') on the right *)
Definition Kernel2 (Xs Bs : list core) (be c be' c' : nat) : R :=
  msum (rows Bs) (fun xs => chain Bs xs (zs (length Bs)) be be' * cj (chain Xs xs (zs (length Xs)) c c')).

Lemma Kernel2_nil be c be' c' : Kernel2 [] [] be c be' c' = delta be be' * cj (delta c c').
Proof. reflexivity. Qed.
Lemma Kernel2_cons (X B : core) (Xs Bs : list core) be c be' c' :
  Kernel2 (X :: Xs) (B :: Bs) be c be' c' =
  sum (md B) (fun x => sum (rr B) (fun bq => sum (rr X) (fun cq =>
    (g B be x 0%nat bq * cj (g X c x 0%nat cq)) * Kernel2 Xs Bs bq cq be' c'))).
Proof.
  unfold Kernel2. cbn [rows map msum length]. fold (rows Bs).
  change (zs (S (length Bs))) with (0%nat :: zs (length Bs)). change (zs (S (length Xs))) with (0%nat :: zs (length Xs)).
  apply sum_ext; intros x _.
  transitivity (msum (rows Bs) (fun xs => sum (rr B) (fun bq => sum (rr X) (fun cq =>
                  (g B be x 0%nat bq * cj (g X c x 0%nat cq)) *
                  (chain Bs xs (zs (length Bs)) bq be' * cj (chain Xs xs (zs (length Xs)) cq c')))))).
  - apply msum_ext; intros xs _. cbn [chain]. unfold mmul, cmat. rewrite sum_conj.
    rewrite <- sum_scal_r. apply sum_ext; intros bq _. rewrite <- sum_scal_l. apply sum_ext; intros cq _.
    rewrite conj_mul. ring.
  - rewrite <- (msum_sum (rows Bs) (rr B)). apply sum_ext; intros bq _.
    rewrite <- (msum_sum (rows Bs) (rr X)). apply sum_ext; intros cq _. rewrite msum_scal_l. reflexivity.
Qed.

Lemma lstack2_dims (L0 : st2 R) : forall (Xs Bs : list core) fx fb,
  length Bs = length Xs -> linked Xs fx -> linked Bs fb -> b1 L0 = rl_of Bs fb -> b2 L0 = rl_of Xs fx ->
  b1 (lstack2_from L0 Xs Bs) = fb /\ b2 (lstack2_from L0 Xs Bs) = fx.
Proof.
  intros Xs. revert L0. induction Xs as [|X Xs IH]; intros L0 Bs fx fb Hl LX LB H1 H2.
  - destruct Bs; [|discriminate]. cbn in *. auto.
  - destruct Bs as [|B Bs]; [discriminate|]. cbn [lstack2_from]. cbn in Hl.
    destruct LX as (PX & LkX & LX). destruct LB as (PB & LkB & LB).
    apply IH; try assumption; try lia; cbn [left_rhs b1 b2]; assumption.
Qed.

Lemma bs_2_3 n1 n2 m1 m2 m3 (F : nat -> nat -> nat -> nat -> nat -> R) :
  sum n1 (fun i1 => sum n2 (fun i2 => sum m1 (fun j1 => sum m2 (fun j2 => sum m3 (fun j3 => F i1 i2 j1 j2 j3))))) =
  sum m1 (fun j1 => sum m2 (fun j2 => sum m3 (fun j3 => sum n1 (fun i1 => sum n2 (fun i2 => F i1 i2 j1 j2 j3))))).
Proof.
  exact (msum_swap [n1; n2] [m1; m2; m3]
           (fun l1 l2 => match l1, l2 with [i1; i2], [j1; j2; j3] => F i1 i2 j1 j2 j3 | _, _ => 0 end)).
Qed.

Theorem lstack2_from_closed : forall (Xs Bs : list core) (L0 : st2 R) fx fb be' c',
  length Bs = length Xs -> linked Xs fx -> linked Bs fb -> b1 L0 = rl_of Bs fb -> b2 L0 = rl_of Xs fx ->
  (be' < fb)%nat -> (c' < fx)%nat ->
  f2 (lstack2_from L0 Xs Bs) be' c' =
  sum (b1 L0) (fun be => sum (b2 L0) (fun c => f2 L0 be c * Kernel2 Xs Bs be c be' c')).
Proof.
  induction Xs as [|X Xs IH]; intros Bs L0 fx fb be' c' Hl LX LB H1 H2 Hb Hc.
  - destruct Bs; [|discriminate]. cbn [lstack2_from]. cbn [rl_of] in H1, H2. rewrite H1, H2.
    rewrite (sum_ext fb _ (fun be => if Nat.eqb be be' then sum fx (fun c => f2 L0 be c * cj (delta c c')) else 0)).
    + rewrite (sum_single fb be' (fun be => sum fx (fun c => f2 L0 be c * cj (delta c c')))) by exact Hb.
      rewrite (sum_ext fx _ (fun c => if Nat.eqb c c' then f2 L0 be' c else 0)).
      * symmetry. apply (sum_single fx c' (fun c => f2 L0 be' c)). exact Hc.
      * intros c _. unfold delta. destruct (Nat.eqb c c'); [rewrite conj_1|rewrite conj_0]; ring.
    + intros be _. destruct (Nat.eqb_spec be be') as [E|E].
      * subst be. apply sum_ext; intros c _. rewrite Kernel2_nil. unfold delta at 1. rewrite Nat.eqb_refl. ring.
      * apply sum_zero'; intros c _. rewrite Kernel2_nil. unfold delta at 1.
        destruct (Nat.eqb_spec be be'); [contradiction|]. ring.
  - destruct Bs as [|B Bs]; [discriminate|]. cbn in Hl.
    destruct LX as (PX & LkX & LX). destruct LB as (PB & LkB & LB). cbn [rl_of] in H1, H2.
    cbn [lstack2_from].
    rewrite (IH Bs (left_rhs L0 X B) fx fb be' c'); try assumption; try lia; try (cbn [left_rhs b1 b2]; assumption).
    cbn [left_rhs b1 b2 f2].
    set (K := Kernel2 Xs Bs).
    set (F := fun bq cq be c x => f2 L0 be c * (g B be x 0%nat bq * cj (g X c x 0%nat cq)) * K bq cq be' c').
    transitivity (sum (rr B) (fun bq => sum (rr X) (fun cq => sum (b1 L0) (fun be => sum (b2 L0) (fun c => sum (md B) (fun x => F bq cq be c x)))))).
    { apply sum_ext; intros bq _. apply sum_ext; intros cq _.
      rewrite <- sum_scal_r. apply sum_ext; intros be _. rewrite <- sum_scal_r. apply sum_ext; intros c _.
      rewrite <- sum_scal_r. apply sum_ext; intros x _. unfold F. ring. }
    rewrite bs_2_3. apply sum_ext; intros be _. apply sum_ext; intros c _.
    rewrite Kernel2_cons. fold K. rewrite <- sum_scal_l. apply sum_ext; intros x _.
    rewrite <- sum_scal_l. apply sum_ext; intros bq _. rewrite <- sum_scal_l. apply sum_ext; intros cq _. unfold F. ring.
Qed.

(* right stack *)
Definition RightProd2 (Xs Bs : list core) (be c : nat) : R :=
  msum (rows Bs) (fun xs => chain Bs xs (zs (length Bs)) be 0%nat * cj (chain Xs xs (zs (length Xs)) c 0%nat)).
Theorem rstack2_closed : forall (Xs Bs : list core) be c,
  length Bs = length Xs -> linked Xs 1%nat -> linked Bs 1%nat ->
  (be < rl_of Bs 1)%nat -> (c < rl_of Xs 1)%nat ->
  f2 (rstack2 Xs Bs) be c = RightProd2 Xs Bs be c.
Proof.
  induction Xs as [|X Xs IH]; intros Bs be c Hl LX LB Hb Hc.
  - destruct Bs; [|discriminate]. cbn in Hb, Hc. assert (be = 0%nat) by lia. assert (c = 0%nat) by lia. subst.
    unfold RightProd2. cbn [rstack2 one2 f2 rows map msum chain length zs repeat]. unfold delta. cbn. rewrite conj_1. ring.
  - destruct Bs as [|B Bs]; [discriminate|]. cbn in Hl.
    destruct LX as (PX & LkX & LX). destruct LB as (PB & LkB & LB). cbn [rl_of] in Hb, Hc.
    cbn [rstack2 right_rhs f2].
    assert (D : b1 (rstack2 Xs Bs) = rr B /\ b2 (rstack2 Xs Bs) = rr X).
    { rewrite LkX, LkB. clear - Hl. destruct Xs as [|X2 Xs2]; destruct Bs as [|B2 Bs2]; cbn in *; try lia; auto. }
    destruct D as (D1 & D2). rewrite D1, D2.
    change (RightProd2 (X :: Xs) (B :: Bs) be c) with (Kernel2 (X :: Xs) (B :: Bs) be c 0%nat 0%nat).
    rewrite Kernel2_cons. apply sum_ext; intros x _. apply sum_ext; intros bq Hbq.
    rewrite <- sum_scal_l. apply sum_ext; intros cq Hcq.
    rewrite (IH Bs bq cq) by (try assumption; try lia; try (rewrite <- LkB; assumption); rewrite <- LkX; assumption).
    unfold RightProd2, Kernel2. ring.
Qed.

(* frame identity for the micro right-hand side of ALS: micro_rhs[(c, x, c')] = sum over the other indices of
   conj(X_left(xs)[c] X_right(xs')[c']) * b[(xs, x, xs')]  =  (P^H b)[(c, x, c')] *)
Theorem frame_rhs_als (Xp Bp Xs Bs : list core) (B : core) fx c x c' :
  length Bp = length Xp -> linked Xp fx -> linked Bp (rl B) -> rl_of Xp fx = 1%nat -> rl_of Bp (rl B) = 1%nat ->
  length Bs = length Xs -> linked Xs 1%nat -> linked Bs 1%nat -> rl_of Bs 1%nat = rr B ->
  (c < fx)%nat -> (c' < rl_of Xs 1)%nat -> (x < md B)%nat ->
  snd (micro_rhs_als (lstack2_from one2 Xp Bp) (rstack2 Xs Bs) B fx (rl_of Xs 1%nat)) ((c * md B + x) * rl_of Xs 1%nat + c')%nat 0%nat =
  sum (rl B) (fun be => sum (rr B) (fun be' => Kernel2 Xp Bp 0%nat 0%nat be c * g B be x 0%nat be' * RightProd2 Xs Bs be' c')).
Proof.
  intros HlP LXp LBp H1X H1B HlS LXs LBs HrB Hc Hc' Hx.
  unfold micro_rhs_als. cbn [snd].
  destruct (decode3 (md B) (rl_of Xs 1%nat) c x c' Hx Hc') as (D1 & D2 & D3).
  rewrite D1, D2, D3.
  destruct (lstack2_dims one2 Xp Bp fx (rl B) HlP LXp LBp) as (DL & _); try (cbn [one2 b1 b2]; congruence).
  rewrite DL.
  assert (DR : b1 (rstack2 Xs Bs) = rr B).
  { rewrite <- HrB. clear - HlS. destruct Xs as [|X0 Xs0]; destruct Bs as [|B0 Bs0]; cbn in *; try lia; try reflexivity; discriminate. }
  rewrite DR.
  apply sum_ext; intros be Hbe. apply sum_ext; intros be' Hbe'.
  rewrite (lstack2_from_closed Xp Bp one2 fx (rl B) be c HlP LXp LBp); try (cbn [one2 b1 b2]; congruence); try assumption.
  rewrite (rstack2_closed Xs Bs be' c' HlS LXs LBs); try assumption; [|rewrite HrB; exact Hbe'].
  cbn [one2 b1 b2 f2 sum]. ring.
Qed.
End RhsFrame.
