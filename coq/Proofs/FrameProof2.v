(* Frame identity for the two-site (MALS / two-site TDVP) micro matrix. *)
From Coq Require Import ZArith List Lia Ring Arith Bool.
Import ListNotations.
Require Import Ring Sums Matrix Core Chain SweepProof TensordotProof Env EnvProof FrameProof.

Section Frame2.
Context {R : cring}.
Add Ring Rr35 : (cring_th R).
Open Scope cr_scope.
Notation core := (core R).

Lemma decode4 m1 m2 r2 c x1 x2 c' : (x1 < m1)%nat -> (x2 < m2)%nat -> (c' < r2)%nat ->
  let row := (((c * m1 + x1) * m2 + x2) * r2 + c')%nat in
  (row / (m1 * m2 * r2) = c /\ (row / (m2 * r2)) mod m1 = x1 /\ (row / r2) mod m2 = x2 /\ row mod r2 = c')%nat.
Proof.
  intros H1 H2 Hc' row. unfold row. repeat split.
  - replace (((c * m1 + x1) * m2 + x2) * r2 + c')%nat with (c * (m1 * m2 * r2) + ((x1 * m2 + x2) * r2 + c'))%nat by ring.
    apply div_mod_unique_l. apply lt_mul_add; [apply lt_mul_add; assumption | assumption].
  - replace (((c * m1 + x1) * m2 + x2) * r2 + c')%nat with ((c * m1 + x1) * (m2 * r2) + (x2 * r2 + c'))%nat by ring.
    rewrite div_mod_unique_l by (apply lt_mul_add; assumption). apply div_mod_unique_r. exact H1.
  - rewrite div_mod_unique_l by exact Hc'. apply div_mod_unique_r. exact H2.
  - apply div_mod_unique_r. exact Hc'.
Qed.

Theorem frame_mals (Xp Ap Xs As : list core) (A1 A2 : core) fx c x1 x2 c' s y1 y2 s' :
  length Ap = length Xp -> linked Xp fx -> linked Ap (rl A1) -> rl_of Xp fx = 1%nat -> rl_of Ap (rl A1) = 1%nat ->
  length As = length Xs -> linked Xs 1%nat -> linked As 1%nat -> rl_of As 1%nat = rr A2 ->
  (c < fx)%nat -> (s < fx)%nat -> (c' < rl_of Xs 1)%nat -> (s' < rl_of Xs 1)%nat ->
  (x1 < md A1)%nat -> (y1 < nd A1)%nat -> (x2 < md A2)%nat -> (y2 < nd A2)%nat ->
  snd (micro_op_mals (lstack_from one3 Xp Ap) (rstack Xs As) A1 A2 fx (rl_of Xs 1%nat))
      (((c * md A1 + x1) * md A2 + x2) * rl_of Xs 1%nat + c')%nat (((s * nd A1 + y1) * nd A2 + y2) * rl_of Xs 1%nat + s')%nat =
  sum (rl A1) (fun r => sum (rr A1) (fun rm => sum (rr A2) (fun r' =>
    Kernel Xp Ap 0%nat 0%nat 0%nat s r c * g A1 r x1 y1 rm * g A2 rm x2 y2 r' * RightProd Xs As s' r' c'))).
Proof.
  intros HlP LXp LAp H1X H1A HlS LXs LAs HrA Hc Hs Hc' Hs' Hx1 Hy1 Hx2 Hy2.
  unfold micro_op_mals. cbn [snd].
  destruct (decode4 (md A1) (md A2) (rl_of Xs 1%nat) c x1 x2 c' Hx1 Hx2 Hc') as (D1 & D2 & D3 & D4).
  destruct (decode4 (nd A1) (nd A2) (rl_of Xs 1%nat) s y1 y2 s' Hy1 Hy2 Hs') as (E1 & E2 & E3 & E4).
  rewrite D1, D2, D3, D4, E1, E2, E3, E4.
  destruct (lstack_dims one3 Xp Ap fx (rl A1) HlP LXp LAp) as (_ & DL & _); try (cbn [one3 a1 a2 a3]; congruence).
  rewrite DL.
  destruct (rstack_dims Xs As) as (_ & DR & _).
  assert (DR' : a2 (rstack Xs As) = rr A2).
  { rewrite DR, <- HrA. destruct Xs as [|X0 Xs0]; destruct As as [|A0 As0]; cbn in *; try lia; try reflexivity; discriminate. }
  rewrite DR'.
  apply sum_ext; intros r Hr. apply sum_ext; intros rm _. apply sum_ext; intros r' Hr'.
  rewrite (lstack_from_closed Xp Ap one3 fx (rl A1) s r c HlP LXp LAp); try (cbn [one3 a1 a2 a3]; congruence); try assumption.
  rewrite (rstack_closed Xs As s' r' c' HlS LXs LAs Hs'); try assumption; [|rewrite HrA; exact Hr'].
  cbn [one3 a1 a2 a3 f3 sum]. ring.
Qed.
End Frame2.
