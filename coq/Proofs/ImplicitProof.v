(* C09: implicit Euler and the trapezoidal rule.  Both schemes hand the operator I + c A (c = -h resp. -h/2) and a right-hand
   side to the inner ALS/MALS solver.  The operator applied to ANY train is the dense (I + c A) applied to its tensor
   (scheme_operator_dense).  Hence: whenever the inner solve is exact - the returned train x1 satisfies
   (I + c A) x1 = rhs entry by entry, which is what the error estimators measure - x1 satisfies the defining equation of
   the scheme:  (I - h A) x1 = x0  (implicit Euler),  (I - h/2 A) x1 = (I + h/2 A) x0  (trapezoidal rule). *)
From Coq Require Import ZArith List Lia Ring Arith Bool.
Import ListNotations.
Require Import Ring Sums Matrix Core Chain TTOps Sweep AddProof OpsProof Ode OdeProof.

Section ImplicitProof.
Context {R : cring}.
Add Ring Rr57 : (cring_th R).
Open Scope cr_scope.
Notation core := (core R).

Lemma length_eye_plus (c : R) (A : list core) : length (eye_plus c A) = length A.
Proof.
  unfold eye_plus. destruct (tadd_aux_shapes (teye (rows A)) (smul c A) true) as (_ & _ & E).
  - rewrite length_smul. destruct (@teye_shapes R (rows A)) as (_ & _ & E). rewrite E. unfold rows. rewrite map_length. reflexivity.
  - unfold tadd. rewrite E. destruct (@teye_shapes R (rows A)) as (_ & _ & E'). rewrite E'. unfold rows. apply map_length.
Qed.

Theorem scheme_operator_dense (c : R) (A x : list core) xs zs :
  A <> [] -> wf A -> length x = length A -> linked x 1%nat -> rl_pos x ->
  length xs = length A -> length zs = length A ->
  elem (tmul (eye_plus c A) x) xs zs =
  msum (cols (eye_plus c A)) (fun ys => (idelta xs ys + c * elem A xs ys) * elem x ys zs).
Proof.
  intros Hne HW Hlx Lx Px Hxs Hzs.
  pose proof (length_eye_plus c A) as Hle.
  rewrite elem_tmul; try assumption; try (rewrite Hle; assumption).
  apply msum_ext. intros ys Hys.
  assert (Hys' : length ys = length A).
  { apply below_length in Hys. unfold cols in Hys. rewrite map_length, Hle in Hys. exact Hys. }
  rewrite elem_eye_plus by assumption. reflexivity.
Qed.

(* implicit Euler: an exact inner solve returns a solution of (I - h A) x1 = x0 *)
Theorem implicit_euler_exact (h : R) (A x0 x1 : list core) xs zs :
  A <> [] -> wf A -> length x1 = length A -> linked x1 1%nat -> rl_pos x1 ->
  length xs = length A -> length zs = length A ->
  elem (tmul (eye_plus (- h) A) x1) xs zs = elem x0 xs zs ->
  msum (cols (eye_plus (- h) A)) (fun ys => (idelta xs ys - h * elem A xs ys) * elem x1 ys zs) = elem x0 xs zs.
Proof.
  intros Hne HW Hl L P Hxs Hzs E. rewrite <- E.
  rewrite (scheme_operator_dense (- h) A x1 xs zs Hne HW Hl L P Hxs Hzs).
  apply msum_ext; intros ys _. ring.
Qed.

(* trapezoidal rule (h2 stands for h/2): an exact inner solve returns a solution of (I - h2 A) x1 = (I + h2 A) x0 *)
Theorem trapezoidal_exact (h2 : R) (A x0 x1 : list core) xs zs :
  A <> [] -> wf A -> length x1 = length A -> linked x1 1%nat -> rl_pos x1 ->
  length x0 = length A -> linked x0 1%nat -> rl_pos x0 ->
  length xs = length A -> length zs = length A ->
  elem (tmul (eye_plus (- h2) A) x1) xs zs = elem (tmul (eye_plus h2 A) x0) xs zs ->
  msum (cols (eye_plus (- h2) A)) (fun ys => (idelta xs ys - h2 * elem A xs ys) * elem x1 ys zs) =
  msum (cols (eye_plus h2 A)) (fun ys => (idelta xs ys + h2 * elem A xs ys) * elem x0 ys zs).
Proof.
  intros Hne HW Hl1 L1 P1 Hl0 L0 P0 Hxs Hzs E.
  rewrite <- (scheme_operator_dense h2 A x0 xs zs Hne HW Hl0 L0 P0 Hxs Hzs). rewrite <- E.
  rewrite (scheme_operator_dense (- h2) A x1 xs zs Hne HW Hl1 L1 P1 Hxs Hzs).
  apply msum_ext; intros ys _. ring.
Qed.

End ImplicitProof.
