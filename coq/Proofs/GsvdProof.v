(* C05: global SVD of a tensor train: orthonormality of the factors (composition of isometries),
   reconstruction, and the Penrose equations for the pseudoinverse. *)
From Coq Require Import ZArith List Lia Ring Arith Bool.
Import ListNotations.
Require Import Ring Sums Matrix Core Chain Sweep Structure SweepProof StructProof TensordotProof GlobalSVD.

Section GsvdProof.
Context {R : cring}.
Add Ring Rr12 : (cring_th R).
Open Scope cr_scope.
Notation core := (core R).

Lemma sum_delta_l n (f : nat -> nat -> R) : forall k, (k < n)%nat ->
  sum n (fun k' => delta k k' * f k k') = f k k.
Proof.
  intros k Hk. rewrite (sum_ext n _ (fun k' => if Nat.eqb k' k then f k k' else 0)).
  - apply (sum_single n k (fun k' => f k k')). exact Hk.
  - intros k' _. unfold delta. rewrite Nat.eqb_sym. destruct (Nat.eqb k' k); ring.
Qed.

(* ---------- a chain of left-orthonormal cores has orthonormal columns ---------- *)
Definition gramL (cs : list core) (r0 : nat) (p q : nat) : R :=
  sum r0 (fun a => dsum (rows cs) (cols cs) (fun xs ys => cconj R (chain cs xs ys a p) * chain cs xs ys a q)).

Theorem left_iso_chain (cs : list core) : forall fin p q,
  Forall left_iso cs -> linked cs fin -> (p < fin)%nat -> (q < fin)%nat ->
  gramL cs (rl_of cs fin) p q = delta p q.
Proof.
  induction cs as [|c cs IH]; intros fin p q HF HL Hp Hq.
  - unfold gramL. cbn [rows cols map dsum chain rl_of].
    rewrite (sum_ext fin _ (fun a => if Nat.eqb a p then delta a q else 0)).
    + rewrite (sum_single fin p (fun a => delta a q)) by assumption. reflexivity.
    + intros a _. rewrite delta_conj. unfold delta at 1.
      destruct (Nat.eqb a p); ring.
  - inversion HF as [|? ? Hc HF']; subst. destruct HL as (Pc & Lk & HL).
    unfold gramL. cbn [rows cols map dsum rl_of]. fold (rows cs) (cols cs).
    set (W := fun k k' => dsum (rows cs) (cols cs) (fun xs ys => cconj R (chain cs xs ys k p) * chain cs xs ys k' q)).
    transitivity (sum (rl c) (fun a => sum (md c) (fun x => sum (nd c) (fun y =>
                    sum (rr c) (fun k => sum (rr c) (fun k' => (cconj R (g c a x y k) * g c a x y k') * W k k')))))).
    { apply sum_ext; intros a _. apply sum_ext; intros x _. apply sum_ext; intros y _.
      transitivity (dsum (rows cs) (cols cs) (fun xs ys => sum (rr c) (fun k => sum (rr c) (fun k' =>
                      (cconj R (g c a x y k) * g c a x y k') * (cconj R (chain cs xs ys k p) * chain cs xs ys k' q))))).
      - apply dsum_ext; intros xs ys. cbn [chain]. unfold mmul, cmat.
        rewrite sum_conj. rewrite <- sum_scal_r. apply sum_ext; intros k _.
        rewrite <- sum_scal_l. apply sum_ext; intros k' _. rewrite conj_mul. ring.
      - rewrite <- dsum_sum. apply sum_ext; intros k _. rewrite <- dsum_sum. apply sum_ext; intros k' _.
        unfold W. rewrite <- dsum_scal_l. reflexivity. }
    (* move k, k' outside *)
    transitivity (sum (rr c) (fun k => sum (rr c) (fun k' =>
                    sum (rl c) (fun a => sum (md c) (fun x => sum (nd c) (fun y => cconj R (g c a x y k) * g c a x y k'))) * W k k'))).
    { transitivity (sum (rl c) (fun a => sum (rr c) (fun k => sum (rr c) (fun k' => sum (md c) (fun x => sum (nd c) (fun y =>
                      (cconj R (g c a x y k) * g c a x y k') * W k k')))))).
      { apply sum_ext; intros a _. apply sum4_swap. }
      rewrite sum_swap. apply sum_ext; intros k _. rewrite sum_swap. apply sum_ext; intros k' _.
      rewrite <- sum_scal_r. apply sum_ext; intros a _. rewrite <- sum_scal_r. apply sum_ext; intros x _.
      rewrite <- sum_scal_r. reflexivity. }
    transitivity (sum (rr c) (fun k => W k k)).
    { apply sum_ext; intros k Hk.
      rewrite (sum_ext (rr c) _ (fun k' => delta k k' * W k k')).
      - apply (sum_delta_l (rr c) W). exact Hk.
      - intros k' Hk'. rewrite (Hc k k') by assumption. reflexivity. }
    specialize (IH fin p q HF' HL Hp Hq). unfold gramL in IH. rewrite <- Lk in IH. exact IH.
Qed.

(* ---------- a chain of right-orthonormal cores has orthonormal rows ---------- *)
Definition gramR (cs : list core) (fin : nat) (p q : nat) : R :=
  sum fin (fun b => dsum (rows cs) (cols cs) (fun xs ys => chain cs xs ys p b * cconj R (chain cs xs ys q b))).

Theorem right_iso_chain (cs : list core) : forall fin p q,
  Forall right_iso cs -> linked cs fin -> (p < rl_of cs fin)%nat -> (q < rl_of cs fin)%nat ->
  gramR cs fin p q = delta p q.
Proof.
  induction cs as [|c cs IH]; intros fin p q HF HL Hp Hq.
  - unfold gramR. cbn [rows cols map dsum chain rl_of] in *.
    rewrite (sum_ext fin _ (fun b => if Nat.eqb b p then delta q b else 0)).
    + rewrite (sum_single fin p (fun b => delta q b)) by assumption. apply delta_sym.
    + intros b _. rewrite delta_conj. unfold delta at 1. rewrite Nat.eqb_sym. destruct (Nat.eqb b p); ring.
  - inversion HF as [|? ? Hc HF']; subst. destruct HL as (Pc & Lk & HL). cbn [rl_of] in Hp, Hq.
    unfold gramR. cbn [rows cols map dsum]. fold (rows cs) (cols cs).
    set (W := fun k k' => sum fin (fun b => dsum (rows cs) (cols cs) (fun xs ys => chain cs xs ys k b * cconj R (chain cs xs ys k' b)))).
    transitivity (sum (md c) (fun x => sum (nd c) (fun y => sum (rr c) (fun k => sum (rr c) (fun k' =>
                    (g c p x y k * cconj R (g c q x y k')) * W k k'))))).
    { transitivity (sum fin (fun b => sum (md c) (fun x => sum (nd c) (fun y => sum (rr c) (fun k => sum (rr c) (fun k' =>
                      (g c p x y k * cconj R (g c q x y k')) *
                      dsum (rows cs) (cols cs) (fun xs ys => chain cs xs ys k b * cconj R (chain cs xs ys k' b)))))))).
      { apply sum_ext; intros b _. apply sum_ext; intros x _. apply sum_ext; intros y _.
        transitivity (dsum (rows cs) (cols cs) (fun xs ys => sum (rr c) (fun k => sum (rr c) (fun k' =>
                        (g c p x y k * cconj R (g c q x y k')) * (chain cs xs ys k b * cconj R (chain cs xs ys k' b)))))).
        - apply dsum_ext; intros xs ys. cbn [chain]. unfold mmul, cmat.
          rewrite sum_conj. rewrite <- sum_scal_r. apply sum_ext; intros k _.
          rewrite <- sum_scal_l. apply sum_ext; intros k' _. rewrite conj_mul. ring.
        - rewrite <- dsum_sum. apply sum_ext; intros k _. rewrite <- dsum_sum. apply sum_ext; intros k' _.
          rewrite <- dsum_scal_l. reflexivity. }
      rewrite sum_swap. apply sum_ext; intros x _. rewrite sum_swap. apply sum_ext; intros y _.
      rewrite sum_swap. apply sum_ext; intros k _. rewrite sum_swap. apply sum_ext; intros k' _.
      unfold W. rewrite <- sum_scal_l. reflexivity. }
    transitivity (sum (md c) (fun x => sum (nd c) (fun y => sum (rr c) (fun k => g c p x y k * cconj R (g c q x y k))))).
    { apply sum_ext; intros x _. apply sum_ext; intros y _. apply sum_ext; intros k Hk.
      rewrite (sum_ext (rr c) _ (fun k' => delta k k' * (g c p x y k * cconj R (g c q x y k')))).
      - apply (sum_delta_l (rr c) (fun k k' => g c p x y k * cconj R (g c q x y k'))). exact Hk.
      - intros k' Hk'. unfold W. fold (gramR cs fin k k').
        rewrite (IH fin k k' HF' HL) by (rewrite <- Lk; assumption). ring. }
    apply Hc; assumption.
Qed.

(* ---------- the middle step: u * diag(s) * v reproduces the two middle cores ---------- *)
Theorem gsvd_mid_value idx (a : svd_ans R) (c c1 : core) x x1 y1 i j :
  svd_value idx (rl c * md c) (rr c) (mid_unfold c) a -> rl c1 = rr c ->
  (i < rl c)%nat -> (x < md c)%nat ->
  sum (length idx) (fun p =>
     U a (i * md c + x)%nat (nth p idx 0%nat) *
     (Sg a (nth p idx 0%nat) * sum (rl c1) (fun q => V a (nth p idx 0%nat) q * g c1 q x1 y1 j))) =
  mmul (rr c) (cmat c x 0%nat) (cmat c1 x1 y1) i j.
Proof.
  intros Hv Hlk Hi Hx. unfold mmul, cmat. rewrite Hlk.
  erewrite sum_ext; [|intros p _; rewrite <- sum_scal_l, <- sum_scal_l; reflexivity].
  rewrite sum_swap. apply sum_ext; intros q Hq.
  transitivity (sum (length idx) (fun p => U a (i * md c + x)%nat (nth p idx 0%nat) *
                  (Sg a (nth p idx 0%nat) * V a (nth p idx 0%nat) q)) * g c1 q x1 y1 j).
  - rewrite <- sum_scal_r. apply sum_ext; intros; ring.
  - rewrite Hv; [| |assumption].
    + unfold mid_unfold. rewrite div_mod_unique_l, div_mod_unique_r by assumption. reflexivity.
    + apply lt_mul_add; assumption.
Qed.

(* ---------- Penrose equations for X^H with X = U S' V, A = U S V ---------- *)
Section Penrose.
Variables (m n k : nat) (Um Vm : M R) (s s' : nat -> R).
Hypothesis HU : forall p q, (p < k)%nat -> (q < k)%nat -> sum m (fun i => cconj R (Um i p) * Um i q) = delta p q.
Hypothesis HV : forall p q, (p < k)%nat -> (q < k)%nat -> sum n (fun j => Vm p j * cconj R (Vm q j)) = delta p q.
Hypothesis Hs : forall p, (p < k)%nat -> s p * s' p = 1 /\ cconj R (s p) = s p /\ cconj R (s' p) = s' p.

Definition Amat : M R := fun i j => sum k (fun p => Um i p * (s p * Vm p j)).
Definition Xmat : M R := fun i j => sum k (fun p => Um i p * (s' p * Vm p j)).
(* A^+ := X^H  (n x m) *)
Definition Aplus : M R := fun j i => cconj R (Xmat i j).

Lemma AAplus i i' : mmul n Amat Aplus i i' = sum k (fun p => Um i p * cconj R (Um i' p)).
Proof.
  unfold mmul, Amat, Aplus, Xmat.
  transitivity (sum k (fun p => sum k (fun q => (Um i p * s p) * (cconj R (Um i' q) * s' q) * sum n (fun j => Vm p j * cconj R (Vm q j))))).
  - transitivity (sum n (fun j => sum k (fun p => sum k (fun q => (Um i p * s p) * (cconj R (Um i' q) * s' q) * (Vm p j * cconj R (Vm q j)))))).
    + apply sum_ext; intros j _. rewrite sum_conj. rewrite <- sum_scal_r. apply sum_ext; intros p Hp.
      rewrite <- sum_scal_l. apply sum_ext; intros q Hq. rewrite !conj_mul.
      destruct (Hs q Hq) as (_ & _ & E). rewrite E. ring.
    + rewrite sum_swap. apply sum_ext; intros p _. rewrite sum_swap. apply sum_ext; intros q _.
      rewrite <- sum_scal_l. reflexivity.
  - apply sum_ext; intros p Hp.
    rewrite (sum_ext k _ (fun q => delta p q * ((Um i p * s p) * (cconj R (Um i' q) * s' q)))).
    + rewrite (sum_delta_l k (fun p q => (Um i p * s p) * (cconj R (Um i' q) * s' q))) by exact Hp.
      destruct (Hs p Hp) as (E & _ & _).
      transitivity (Um i p * cconj R (Um i' p) * (s p * s' p)); [ring|]. rewrite E. ring.
    + intros q Hq. rewrite (HV p q Hp Hq). ring.
Qed.

Lemma AplusA j j' : mmul m Aplus Amat j j' = sum k (fun p => cconj R (Vm p j) * Vm p j').
Proof.
  unfold mmul, Amat, Aplus, Xmat.
  transitivity (sum k (fun p => sum k (fun q => (cconj R (Vm p j) * s' p) * (s q * Vm q j') * sum m (fun i => cconj R (Um i p) * Um i q)))).
  - transitivity (sum m (fun i => sum k (fun p => sum k (fun q => (cconj R (Vm p j) * s' p) * (s q * Vm q j') * (cconj R (Um i p) * Um i q))))).
    + apply sum_ext; intros i _. rewrite sum_conj. rewrite <- sum_scal_r. apply sum_ext; intros p Hp.
      rewrite <- sum_scal_l. apply sum_ext; intros q Hq. rewrite !conj_mul.
      destruct (Hs p Hp) as (_ & _ & E). rewrite E. ring.
    + rewrite sum_swap. apply sum_ext; intros p _. rewrite sum_swap. apply sum_ext; intros q _.
      rewrite <- sum_scal_l. reflexivity.
  - apply sum_ext; intros p Hp.
    rewrite (sum_ext k _ (fun q => delta p q * ((cconj R (Vm p j) * s' p) * (s q * Vm q j')))).
    + rewrite (sum_delta_l k (fun p q => (cconj R (Vm p j) * s' p) * (s q * Vm q j'))) by exact Hp.
      destruct (Hs p Hp) as (E & _ & _).
      transitivity (cconj R (Vm p j) * Vm p j' * (s p * s' p)); [ring|]. rewrite E. ring.
    + intros q Hq. rewrite (HU p q Hp Hq). ring.
Qed.

(* (A A^+)^H = A A^+ ,  (A^+ A)^H = A^+ A *)
Theorem penrose3 i i' : cconj R (mmul n Amat Aplus i' i) = mmul n Amat Aplus i i'.
Proof.
  rewrite !AAplus. rewrite sum_conj. apply sum_ext; intros p _. rewrite conj_mul, conj_inv. ring.
Qed.
Theorem penrose4 j j' : cconj R (mmul m Aplus Amat j' j) = mmul m Aplus Amat j j'.
Proof.
  rewrite !AplusA. rewrite sum_conj. apply sum_ext; intros p _. rewrite conj_mul, conj_inv. ring.
Qed.
(* A A^+ A = A *)
Theorem penrose1 i j : mmul m (mmul n Amat Aplus) Amat i j = Amat i j.
Proof.
  unfold mmul at 1.
  transitivity (sum k (fun p => sum k (fun q => Um i p * (s q * Vm q j) * sum m (fun i' => cconj R (Um i' p) * Um i' q)))).
  - transitivity (sum m (fun i' => sum k (fun p => sum k (fun q => Um i p * (s q * Vm q j) * (cconj R (Um i' p) * Um i' q))))).
    + apply sum_ext; intros i' _. rewrite AAplus. unfold Amat. rewrite <- sum_scal_r. apply sum_ext; intros p _.
      rewrite <- sum_scal_l. apply sum_ext; intros q _. ring.
    + rewrite sum_swap. apply sum_ext; intros p _. rewrite sum_swap. apply sum_ext; intros q _.
      rewrite <- sum_scal_l. reflexivity.
  - unfold Amat. apply sum_ext; intros p Hp.
    rewrite (sum_ext k _ (fun q => delta p q * (Um i p * (s q * Vm q j)))).
    + apply (sum_delta_l k (fun p q => Um i p * (s q * Vm q j))). exact Hp.
    + intros q Hq. rewrite (HU p q Hp Hq). ring.
Qed.
(* A^+ A A^+ = A^+ *)
Theorem penrose2 j i : mmul n (mmul m Aplus Amat) Aplus j i = Aplus j i.
Proof.
  unfold mmul at 1.
  transitivity (sum k (fun p => sum k (fun q => cconj R (Vm p j) * (cconj R (Um i q) * s' q) * sum n (fun j' => Vm p j' * cconj R (Vm q j'))))).
  - transitivity (sum n (fun j' => sum k (fun p => sum k (fun q => cconj R (Vm p j) * (cconj R (Um i q) * s' q) * (Vm p j' * cconj R (Vm q j')))))).
    + apply sum_ext; intros j' _. rewrite AplusA. unfold Aplus, Xmat. rewrite sum_conj. rewrite <- sum_scal_r. apply sum_ext; intros p _.
      rewrite <- sum_scal_l. apply sum_ext; intros q Hq. rewrite !conj_mul.
      destruct (Hs q Hq) as (_ & _ & E). rewrite E. ring.
    + rewrite sum_swap. apply sum_ext; intros p _. rewrite sum_swap. apply sum_ext; intros q _.
      rewrite <- sum_scal_l. reflexivity.
  - unfold Aplus, Xmat. rewrite sum_conj. apply sum_ext; intros p Hp.
    rewrite (sum_ext k _ (fun q => delta p q * (cconj R (Vm p j) * (cconj R (Um i q) * s' q)))).
    + rewrite (sum_delta_l k (fun p q => cconj R (Vm p j) * (cconj R (Um i q) * s' q))) by exact Hp.
      rewrite !conj_mul. destruct (Hs p Hp) as (_ & _ & E). rewrite E. ring.
    + intros q Hq. rewrite (HV p q Hp Hq). ring.
Qed.
End Penrose.
End GsvdProof.
