(* C10: norm preservation.  A dense operator W on index tuples is an isometry (Uni) when its columns are orthonormal,
   sum_xs conj(W xs a) W xs b = delta a b.  Products of isometries are isometries, so the ordered product Wstep of the stage
   operators of a step is one as soon as every stage operator is; an isometry preserves sum |entry|^2.  With
   StepProof.step_value: a splitting step whose stage operators are unitary (skew-Hermitian generators) preserves the
   2-norm of the train, when no truncation is active. *)
From Coq Require Import ZArith List Lia Ring Arith Bool.
Import ListNotations.
Require Import Ring Sums Matrix Core Chain Sweep Splitting StageProof StepProof.

Section UnitaryStep.
Context {R : cring}.
Add Ring Rr55 : (cring_th R).
Open Scope cr_scope.
Notation core := (core R).

Definition Uni (dims : list nat) (W : list nat -> list nat -> R) : Prop :=
  forall a b, below a dims -> below b dims -> msum dims (fun xs => cconj R (W xs a) * W xs b) = mdelta a b.

Lemma conj_delta x y : cconj R (delta x y) = delta x y.
Proof. unfold delta. destruct (Nat.eqb x y); [apply conj_1|apply conj_0]. Qed.
Lemma conj_mdelta : forall xs ys, cconj R (mdelta xs ys) = mdelta xs ys.
Proof.
  induction xs as [|x xs IH]; intros [|y ys]; cbn [mdelta]; try apply conj_0; try apply conj_1.
  rewrite conj_mul, conj_delta, IH. reflexivity.
Qed.
Lemma mdelta_sym : forall xs ys, @mdelta R xs ys = mdelta ys xs.
Proof.
  induction xs as [|x xs IH]; intros [|y ys]; cbn [mdelta]; try reflexivity.
  rewrite IH. unfold delta. rewrite (Nat.eqb_sym x y). reflexivity.
Qed.

(* <W F, W G> = <F, G> for an isometry W *)
Lemma gram_comp dims W (F G : list nat -> R) : Uni dims W ->
  msum dims (fun xs => cconj R (msum dims (fun z => W xs z * F z)) * msum dims (fun z => W xs z * G z)) =
  msum dims (fun z => cconj R (F z) * G z).
Proof.
  intros HW.
  transitivity (msum dims (fun z => msum dims (fun z' => (cconj R (F z) * G z') * msum dims (fun xs => cconj R (W xs z) * W xs z')))).
  - transitivity (msum dims (fun xs => msum dims (fun z => msum dims (fun z' => (cconj R (F z) * G z') * (cconj R (W xs z) * W xs z'))))).
    + apply msum_ext; intros xs _. rewrite msum_conj. rewrite <- msum_scal_r. apply msum_ext; intros z _.
      rewrite <- msum_scal_l. apply msum_ext; intros z' _. rewrite conj_mul. ring.
    + rewrite msum_swap. apply msum_ext; intros z _. rewrite msum_swap. apply msum_ext; intros z' _.
      rewrite <- msum_scal_l. reflexivity.
  - apply msum_ext; intros z Hz.
    transitivity (msum dims (fun z' => mdelta z z' * (cconj R (F z) * G z'))).
    + apply msum_ext; intros z' Hz'. rewrite (HW z z' Hz Hz'). ring.
    + apply (msum_mdelta dims z (fun z' => cconj R (F z) * G z') Hz).
Qed.

Lemma uni_mdelta dims : Uni dims (@mdelta R).
Proof.
  intros a b Ha Hb.
  transitivity (msum dims (fun xs => @mdelta R a xs * mdelta xs b)).
  - apply msum_ext; intros xs _. rewrite conj_mdelta, (mdelta_sym xs a). reflexivity.
  - apply (msum_mdelta dims a (fun xs => @mdelta R xs b) Ha).
Qed.

Lemma uni_comp dims W1 W2 : Uni dims W1 -> Uni dims W2 ->
  Uni dims (fun xs ys => msum dims (fun zs => W1 xs zs * W2 zs ys)).
Proof.
  intros H1 H2 a b Ha Hb.
  rewrite (gram_comp dims W1 (fun z => W2 z a) (fun z => W2 z b) H1). apply H2; assumption.
Qed.

Definition stages_unitary (fuel : nat) (dims : list nat) (sts : list (@stage_desc R)) : Prop :=
  Forall (fun st : @stage_desc R => Uni dims (Wst (fst (fst st)) (snd (fst st)) fuel 0 dims)) sts.

Theorem Wstep_unitary fuel dims : forall sts, stages_unitary fuel dims sts -> Uni dims (Wstep fuel sts dims).
Proof.
  induction sts as [|[[Ks ev] ans] rest IH]; intros H; cbn [Wstep].
  - apply uni_mdelta.
  - inversion H as [|? ? H1 H2]; subst. cbn [fst snd] in H1.
    apply (uni_comp dims (Wstep fuel rest dims) (Wst Ks ev fuel 0 dims)); [apply IH; exact H2|exact H1].
Qed.

(* the step preserves sum |entry|^2 of the train *)
Theorem step_norm thr maxr fuel (sts : list (@stage_desc R)) (cs : list core) :
  (length cs < fuel)%nat -> step_hyp thr maxr fuel sts cs -> linked cs 1%nat -> rl_of cs 1%nat = 1%nat ->
  stages_unitary fuel (rows cs) sts ->
  msum (rows cs) (fun xs => cconj R (chain (run_step thr maxr fuel sts cs) xs (zeros (length cs)) 0%nat 0%nat) *
                            chain (run_step thr maxr fuel sts cs) xs (zeros (length cs)) 0%nat 0%nat) =
  msum (rows cs) (fun ys => cconj R (chain cs ys (zeros (length cs)) 0%nat 0%nat) * chain cs ys (zeros (length cs)) 0%nat 0%nat).
Proof.
  intros Hf Hh HL Hrl HU.
  pose proof (Wstep_unitary fuel (rows cs) sts HU) as HW.
  rewrite <- (gram_comp (rows cs) (Wstep fuel sts (rows cs))
               (fun ys => chain cs ys (zeros (length cs)) 0%nat 0%nat) (fun ys => chain cs ys (zeros (length cs)) 0%nat 0%nat) HW).
  apply msum_ext; intros xs Hx.
  rewrite (step_value thr maxr fuel sts cs xs 0%nat 0%nat 1%nat Hf Hh HL Hx) by lia. reflexivity.
Qed.

End UnitaryStep.

(* ---- a stage operator is an isometry when its local propagators are ---- *)
Section StageUnitary.
Context {R : cring}.
Add Ring Rr56 : (cring_th R).
Open Scope cr_scope.

Definition Kuni (n : nat) (K : M R) : Prop :=
  forall a b, (a < n)%nat -> (b < n)%nat -> sum n (fun x => cconj R (K x a) * K x b) = delta a b.

(* the local propagators met by the stage, each at the size it acts on *)
Fixpoint stage_unitary_hyp (Ks : list (M R)) (even : bool) (fuel pos : nat) (dims : list nat) : Prop :=
  match fuel with
  | O => True
  | S fuel' =>
      match dims with
      | [] => True
      | [n] => if parity_ok even pos then Kuni n (Kat Ks pos) else True
      | n :: ((n1 :: rest) as tl) =>
          if parity_ok even pos then Kuni (n * n1) (Kat Ks pos) /\ stage_unitary_hyp Ks even fuel' (S (S pos)) rest
          else stage_unitary_hyp Ks even fuel' (S pos) tl
      end
  end.

Lemma kuni_delta n : Kuni n (@delta R).
Proof.
  intros a b Ha Hb.
  rewrite (sum_ext n _ (fun x => if Nat.eqb x a then @delta R x b else 0)).
  - apply (sum_single n a (fun x => @delta R x b) Ha).
  - intros x _. rewrite conj_delta. unfold delta at 1. destruct (Nat.eqb x a); ring.
Qed.

Lemma delta_flat n1 a a1 b b1 : (a1 < n1)%nat -> (b1 < n1)%nat ->
  @delta R (a * n1 + a1)%nat (b * n1 + b1)%nat = delta a b * delta a1 b1.
Proof.
  intros Ha Hb. unfold delta.
  destruct (Nat.eqb_spec a b) as [E|E]; destruct (Nat.eqb_spec a1 b1) as [E1|E1];
    destruct (Nat.eqb_spec (a * n1 + a1) (b * n1 + b1)) as [E2|E2]; try ring; exfalso.
  - subst. lia.
  - subst. lia.
  - apply E. nia.
  - apply E. nia.
Qed.

Theorem Wst_unitary Ks even : forall fuel pos dims,
  (length dims < fuel)%nat -> stage_unitary_hyp Ks even fuel pos dims -> Uni dims (Wst Ks even fuel pos dims).
Proof.
  induction fuel as [|fuel IH]; intros pos dims Hf Hh; [lia|].
  destruct dims as [|n [|n1 rest]].
  - intros a b Ha Hb. destruct a; [|cbn in Ha; tauto]. destruct b; [|cbn in Hb; tauto].
    cbn [msum Wst mdelta]. rewrite conj_1. ring.
  - intros a b Ha Hb. destruct a as [|a [|? ?]]; try (cbn in Ha; tauto). destruct b as [|b [|? ?]]; try (cbn in Hb; tauto).
    cbn [below] in Ha, Hb. cbn [msum Wst mdelta stage_unitary_hyp] in *.
    replace (delta a b * 1) with (@delta R a b) by ring.
    destruct (parity_ok even pos).
    + apply Hh; tauto.
    + apply kuni_delta; tauto.
  - intros a b Ha Hb.
    destruct a as [|a [|a1 a']]; try (cbn in Ha; tauto). destruct b as [|b [|b1 b']]; try (cbn in Hb; tauto).
    cbn [below] in Ha, Hb. destruct Ha as (Ha & Ha1 & Ha'). destruct Hb as (Hb & Hb1 & Hb').
    cbn [stage_unitary_hyp] in Hh. cbn [length] in Hf.
    destruct (parity_ok even pos) eqn:Ep.
    + destruct Hh as [HK Hh].
      assert (HU := IH (S (S pos)) rest ltac:(lia) Hh a' b' Ha' Hb').
      cbn [msum mdelta].
      transitivity (sum n (fun x => sum n1 (fun x1 =>
                      cconj R (Kat Ks pos (x * n1 + x1)%nat (a * n1 + a1)%nat) * Kat Ks pos (x * n1 + x1)%nat (b * n1 + b1)%nat)) * mdelta a' b').
      * rewrite <- sum_scal_r. apply sum_ext; intros x _. rewrite <- sum_scal_r. apply sum_ext; intros x1 _.
        rewrite <- HU. rewrite <- msum_scal_l. apply msum_ext; intros xs' _.
        cbn [Wst]. rewrite Ep. rewrite conj_mul. ring.
      * rewrite <- (sum_prod n n1 (fun i => cconj R (Kat Ks pos i (a * n1 + a1)%nat) * Kat Ks pos i (b * n1 + b1)%nat)).
        rewrite HK by nia. rewrite (delta_flat n1 a a1 b b1 Ha1 Hb1). ring.
    + assert (HU := IH (S pos) (n1 :: rest) ltac:(cbn [length]; lia) Hh (a1 :: a') (b1 :: b')
                       ltac:(cbn [below]; tauto) ltac:(cbn [below]; tauto)).
      change (msum (n :: n1 :: rest) ?f) with (sum n (fun x => msum (n1 :: rest) (fun xs => f (x :: xs)))).
      change (mdelta (a :: a1 :: a') (b :: b1 :: b')) with (@delta R a b * mdelta (a1 :: a') (b1 :: b')).
      transitivity (sum n (fun x => cconj R (delta x a) * delta x b) * mdelta (a1 :: a') (b1 :: b')).
      * rewrite <- sum_scal_r. apply sum_ext; intros x _. rewrite <- HU. rewrite <- msum_scal_l.
        apply msum_ext; intros xs Hxs. destruct xs as [|x1 xs']; [cbn in Hxs; tauto|].
        cbn [Wst]. rewrite Ep. rewrite conj_mul. ring.
      * rewrite (kuni_delta n a b Ha Hb). reflexivity.
Qed.

End StageUnitary.

Section StepNorm.
Context {R : cring}.
Open Scope cr_scope.

(* a step of a splitting scheme with unitary local propagators preserves the 2-norm of the train *)
Theorem step_norm_local thr maxr fuel (sts : list (@stage_desc R)) (cs : list (core R)) :
  (length cs < fuel)%nat -> step_hyp thr maxr fuel sts cs -> linked cs 1%nat -> rl_of cs 1%nat = 1%nat ->
  Forall (fun st : @stage_desc R => stage_unitary_hyp (fst (fst st)) (snd (fst st)) fuel 0 (rows cs)) sts ->
  msum (rows cs) (fun xs => cconj R (chain (run_step thr maxr fuel sts cs) xs (zeros (length cs)) 0%nat 0%nat) *
                            chain (run_step thr maxr fuel sts cs) xs (zeros (length cs)) 0%nat 0%nat) =
  msum (rows cs) (fun ys => cconj R (chain cs ys (zeros (length cs)) 0%nat 0%nat) * chain cs ys (zeros (length cs)) 0%nat 0%nat).
Proof.
  intros Hf Hh HL Hrl HU. apply (step_norm thr maxr fuel sts cs Hf Hh HL Hrl).
  unfold stages_unitary. apply Forall_forall. intros st Hst.
  rewrite Forall_forall in HU. apply Wst_unitary; [unfold rows; rewrite map_length; exact Hf|apply HU; exact Hst].
Qed.
End StepNorm.
