(* TT.__add__ : the chain of block-structured cores is the sum of the chains. *)
From Coq Require Import ZArith List Lia Ring Arith Bool.
Import ListNotations.
Require Import Ring Sums Matrix Core Chain TTOps.

Section AddProof.
Context {R : cring}.
Add Ring Rr5 : (cring_th R).
Open Scope cr_scope.
Notation core := (core R).

Ltac bsimp :=
  unfold in_blk;
  repeat (match goal with
          | |- context [Nat.ltb ?a ?b] => destruct (Nat.ltb_spec a b)
          | |- context [Nat.leb ?a ?b] => destruct (Nat.leb_spec a b)
          end; cbn [andb]; try lia).

Lemma sum_two_blocks r s (F f1 f2 : nat -> R) :
  (forall k, (k < r)%nat -> F k = f1 k) -> (forall k, (k < s)%nat -> F (r + k)%nat = f2 k) ->
  sum (r + s) F = sum r f1 + sum s f2.
Proof.
  intros H1 H2. rewrite sum_plus. f_equal; apply sum_ext; assumption.
Qed.

Lemma chain_single (c : core) x y a : rr c = 1%nat ->
  chain [c] [x] [y] a 0%nat = g c a x y 0%nat.
Proof.
  intros H. cbn [chain]. unfold mmul. rewrite H. simpl. unfold cmat, delta. simpl. ring.
Qed.

(* suffix (positions >= 1) *)
Lemma tadd_suffix (cs : list core) : forall es xs ys a,
  cs <> [] -> length es = length cs -> length xs = length cs -> length ys = length cs ->
  linked cs 1%nat -> linked es 1%nat ->
  chain (tadd_aux false cs es) xs ys a 0%nat =
  (if (a <? rl_of cs 1)%nat then chain cs xs ys a 0%nat else 0) +
  (if (rl_of cs 1 <=? a)%nat && (a <? rl_of cs 1 + rl_of es 1)%nat
   then chain es xs ys (a - rl_of cs 1)%nat 0%nat else 0).
Proof.
  induction cs as [|c cs IH]; intros es xs ys a Hne He Hx Hy Lc Le; [congruence|].
  destruct es as [|e es]; [discriminate|].
  destruct xs as [|x xs]; [discriminate|]. destruct ys as [|y ys]; [discriminate|].
  simpl in He, Hx, Hy. destruct Lc as (Pc & Lkc & Lc). destruct Le as (Pe & Lke & Le).
  destruct cs as [|c2 cs].
  - (* last core *)
    destruct es; [|discriminate]. destruct xs; [|discriminate]. destruct ys; [|discriminate].
    simpl in Lkc, Lke. cbn [tadd_aux is_nil rl_of].
    rewrite !chain_single by (try assumption; reflexivity).
    cbn [addcore g]. rewrite Lkc, Lke.
    rewrite ?Nat.add_sub, ?Nat.sub_diag, ?Nat.sub_0_r. bsimp; rewrite ?Nat.sub_0_r; try ring.
  - (* inner core *)
    destruct es as [|e2 es]; [discriminate|].
    change (tadd_aux false (c :: c2 :: cs) (e :: e2 :: es))
      with (addcore false false c e :: tadd_aux false (c2 :: cs) (e2 :: es)).
    set (tl := tadd_aux false (c2 :: cs) (e2 :: es)).
    cbn [rl_of]. cbn [chain].
    unfold mmul at 1. cbn [rr addcore].
    rewrite (sum_two_blocks (rr c) (rr e) _
               (fun k => (if (a <? rl c)%nat then g c a x y k else 0) * chain (c2 :: cs) xs ys k 0%nat)
               (fun k => (if (rl c <=? a)%nat && (a <? rl c + rl e)%nat then g e (a - rl c)%nat x y k else 0)
                         * chain (e2 :: es) xs ys k 0%nat)).
    + cbn [rl_of]. f_equal.
      * destruct (a <? rl c)%nat; [reflexivity|]. apply sum_zero'; intros; ring.
      * destruct ((rl c <=? a)%nat && (a <? rl c + rl e)%nat); [reflexivity|]. apply sum_zero'; intros; ring.
    + intros k Hk. cbv beta. unfold tl. rewrite (IH (e2 :: es) xs ys k) by (simpl in *; try congruence; try lia; assumption).
      cbn [rl_of] in *. unfold cmat. cbn [g addcore]. rewrite <- Lkc, <- Lke.
      bsimp; try ring.
    + intros k Hk. cbv beta. unfold tl. rewrite (IH (e2 :: es) xs ys (rr c + k)%nat) by (simpl in *; try congruence; try lia; assumption).
      cbn [rl_of] in *. unfold cmat. cbn [g addcore]. rewrite <- Lkc, <- Lke.
      bsimp; try ring;
        try (replace (rr c + rr e - rr e)%nat with (rr c) by lia);
        try (replace (rl c + rl e - rl e)%nat with (rl c) by lia);
        try (replace (rr c + k - rr c)%nat with k by lia); try ring.
Qed.

Theorem elem_tadd (cs es : list core) xs ys :
  cs <> [] -> length es = length cs -> length xs = length cs -> length ys = length cs ->
  wf cs -> wf es ->
  elem (tadd cs es) xs ys = elem cs xs ys + elem es xs ys.
Proof.
  intros Hne He Hx Hy (Lc & Bc) (Le & Be). unfold elem, tadd.
  destruct cs as [|c cs]; [congruence|]. destruct es as [|e es]; [discriminate|].
  destruct xs as [|x xs]; [discriminate|]. destruct ys as [|y ys]; [discriminate|].
  simpl in He, Hx, Hy, Bc, Be. destruct Lc as (Pc & Lkc & Lc). destruct Le as (Pe & Lke & Le).
  destruct cs as [|c2 cs].
  - destruct es; [|discriminate]. destruct xs; [|discriminate]. destruct ys; [|discriminate].
    simpl in Lkc, Lke. cbn [tadd_aux is_nil].
    rewrite !chain_single by (try assumption; reflexivity).
    cbn [addcore g]. rewrite Lkc, Lke, Bc, Be. simpl. ring.
  - destruct es as [|e2 es]; [discriminate|].
    change (tadd_aux true (c :: c2 :: cs) (e :: e2 :: es))
      with (addcore true false c e :: tadd_aux false (c2 :: cs) (e2 :: es)).
    set (tl := tadd_aux false (c2 :: cs) (e2 :: es)).
    cbn [chain]. unfold mmul at 1. cbn [rr addcore].
    rewrite (sum_two_blocks (rr c) (rr e) _
               (fun k => g c 0%nat x y k * chain (c2 :: cs) xs ys k 0%nat)
               (fun k => g e 0%nat x y k * chain (e2 :: es) xs ys k 0%nat)).
    + reflexivity.
    + intros k Hk. cbv beta. unfold tl.
      rewrite (tadd_suffix (c2 :: cs) (e2 :: es) xs ys k) by (simpl in *; try congruence; try lia; assumption).
      cbn [rl_of] in *. unfold cmat. cbn [g addcore]. rewrite <- Lkc, <- Lke, Bc, Be.
      bsimp; try ring.
    + intros k Hk. cbv beta. unfold tl.
      rewrite (tadd_suffix (c2 :: cs) (e2 :: es) xs ys (rr c + k)%nat) by (simpl in *; try congruence; try lia; assumption).
      cbn [rl_of] in *. unfold cmat. cbn [g addcore]. rewrite <- Lkc, <- Lke, Bc, Be.
      bsimp; try ring;
        try (replace (rr c + rr e - rr e)%nat with (rr c) by lia);
        try (replace (rr c + k - rr c)%nat with k by lia); rewrite ?Nat.sub_diag, ?Nat.sub_0_r; try ring.
Qed.

(* shapes of the result: TT.__add__ keeps the modes and adds the inner ranks *)
Lemma tadd_aux_shapes (cs : list core) : forall es f, length es = length cs ->
  rows (tadd_aux f cs es) = rows cs /\ cols (tadd_aux f cs es) = cols cs /\ length (tadd_aux f cs es) = length cs.
Proof.
  induction cs as [|c cs IH]; intros es f He; destruct es as [|e es]; try discriminate; simpl; auto.
  simpl in He. destruct (IH es false) as (A & B & C); [lia|]. unfold rows, cols in *. rewrite A, B, C. auto.
Qed.

Lemma linked_tadd_aux (cs : list core) : forall es f,
  cs <> [] -> length es = length cs -> linked cs 1%nat -> linked es 1%nat ->
  linked (tadd_aux f cs es) 1%nat /\
  rl_of (tadd_aux f cs es) 1%nat = if f then 1%nat else (rl_of cs 1 + rl_of es 1)%nat.
Proof.
  induction cs as [|c cs IH]; intros es f Hne He Lc Le; [congruence|].
  destruct es as [|e es]; [discriminate|]. simpl in He.
  destruct Lc as (Pc & Lkc & Lc). destruct Le as (Pe & Lke & Le).
  destruct cs as [|c2 cs].
  - destruct es; [|discriminate]. simpl. repeat split; auto.
  - destruct es as [|e2 es]; [discriminate|].
    destruct (IH (e2 :: es) false) as (L & B); try assumption; try congruence; try (simpl in *; lia).
    change (tadd_aux f (c :: c2 :: cs) (e :: e2 :: es))
      with (addcore f false c e :: tadd_aux false (c2 :: cs) (e2 :: es)).
    split; [|reflexivity].
    set (tl := tadd_aux false (c2 :: cs) (e2 :: es)) in *.
    cbn [linked]. split; [|split].
    + cbn [rr addcore]. lia.
    + cbn [rr addcore]. rewrite B. simpl in Lkc, Lke. simpl. lia.
    + exact L.
Qed.
Theorem wf_tadd (cs es : list core) :
  cs <> [] -> length es = length cs -> wf cs -> wf es -> wf (tadd cs es).
Proof.
  intros Hne He (Lc & _) (Le & _). destruct (linked_tadd_aux cs es true) as (L & B); try assumption.
  split; assumption.
Qed.
End AddProof.
