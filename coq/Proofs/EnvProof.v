(* Environments of the alternating solvers in closed form: the right stack built by
   sle.__construct_stack_right_op is the sum, over all row and column indices of the cores to the
   right, of   X(ys)[s,0] * A(xs,ys)[r,0] * conj X(xs)[c,0]   (X the solution, A the operator). *)
From Coq Require Import ZArith List Lia Ring Arith Bool.
Import ListNotations.
Require Import Ring Sums Matrix Core Chain TensordotProof Env.

Section EnvProof.
Context {R : cring}.
Add Ring Rr16 : (cring_th R).
Open Scope cr_scope.
Notation core := (core R).
Notation cj := (cconj R).

Lemma sum3_prod n1 n2 n3 (f1 f2 f3 : nat -> R) :
  sum n1 f1 * (sum n2 f2 * sum n3 f3) =
  sum n1 (fun i => sum n2 (fun j => sum n3 (fun k => f1 i * (f2 j * f3 k)))).
Proof.
  rewrite <- sum_scal_r. apply sum_ext; intros i _.
  rewrite <- (sum_scal_r n2 (sum n3 f3) f2). rewrite <- sum_scal_l. apply sum_ext; intros j _.
  rewrite <- (sum_scal_l n3 (f2 j) f3). rewrite <- sum_scal_l. apply sum_ext; intros k _. ring.
Qed.

Definition zeros (l : list nat) : list nat := map (fun _ => 0%nat) l.

(* the stack recursion over the cores to the right of a position *)
Fixpoint rstack (Xs As : list core) : st3 R :=
  match Xs, As with
  | X :: Xs', A :: As' => right_op (rstack Xs' As') X A
  | _, _ => one3
  end.
Definition RightProd (Xs As : list core) (s r c : nat) : R :=
  dsum (rows As) (cols As) (fun xs ys =>
    chain Xs ys (zeros ys) s 0%nat * chain As xs ys r 0%nat * cj (chain Xs xs (zeros xs) c 0%nat)).

Lemma rstack_dims (Xs As : list core) :
  a1 (rstack Xs As) = match Xs, As with X :: _, _ :: _ => rl X | _, _ => 1%nat end /\
  a2 (rstack Xs As) = match Xs, As with _ :: _, A :: _ => rl A | _, _ => 1%nat end /\
  a3 (rstack Xs As) = match Xs, As with X :: _, _ :: _ => rl X | _, _ => 1%nat end.
Proof. destruct Xs as [|X Xs]; destruct As as [|A As]; simpl; auto. Qed.

Theorem rstack_closed (Xs : list core) : forall As s r c,
  length As = length Xs -> linked Xs 1%nat -> linked As 1%nat ->
  (s < rl_of Xs 1)%nat -> (r < rl_of As 1)%nat -> (c < rl_of Xs 1)%nat ->
  f3 (rstack Xs As) s r c = RightProd Xs As s r c.
Proof.
  induction Xs as [|X Xs IH]; intros As s r c Hl LX LA Hs Hr Hc.
  - destruct As; [|discriminate]. simpl in Hs, Hr, Hc.
    assert (s = 0%nat) by lia. assert (r = 0%nat) by lia. assert (c = 0%nat) by lia. subst.
    unfold RightProd. cbn [rstack one3 f3 rows cols map dsum chain zeros]. unfold delta. simpl. rewrite conj_1. ring.
  - destruct As as [|A As]; [discriminate|]. simpl in Hl.
    destruct LX as (PX & LkX & LX). destruct LA as (PA & LkA & LA).
    cbn [rstack right_op f3]. unfold RightProd. cbn [rows cols map dsum]. fold (rows As) (cols As).
    destruct (rstack_dims Xs As) as (D1 & D2 & D3).
    assert (E1 : a1 (rstack Xs As) = rr X /\ a2 (rstack Xs As) = rr A /\ a3 (rstack Xs As) = rr X).
    { rewrite D1, D2, D3, LkX, LkA. clear - Hl. destruct Xs as [|X2 Xs2]; destruct As as [|A2 As2]; simpl in *; try lia; auto. }
    destruct E1 as (E1 & E2 & E3).
    rewrite E1, E2, E3.
    (* rewrite the stack entries with the induction hypothesis *)
    transitivity (sum (nd A) (fun y => sum (rr X) (fun s' => g X s y 0%nat s' *
                    sum (md A) (fun x => sum (rr A) (fun r' => g A r x y r' *
                      sum (rr X) (fun c' => cj (g X c x 0%nat c') * RightProd Xs As s' r' c')))))).
    { apply sum_ext; intros y _. apply sum_ext; intros s' Hs'. f_equal.
      apply sum_ext; intros x _. apply sum_ext; intros r' Hr'. f_equal.
      apply sum_ext; intros c' Hc'. f_equal.
      apply IH; try assumption; try lia; try (rewrite <- LkX; assumption); rewrite <- LkA; assumption. }
    (* normal form: all five sums outside *)
    set (F := fun x y s' r' c' => (g X s y 0%nat s' * g A r x y r' * cj (g X c x 0%nat c')) * RightProd Xs As s' r' c').
    transitivity (sum (md A) (fun x => sum (nd A) (fun y => sum (rr X) (fun s' => sum (rr A) (fun r' => sum (rr X) (fun c' => F x y s' r' c')))))).
    { transitivity (sum (nd A) (fun y => sum (rr X) (fun s' => sum (md A) (fun x => sum (rr A) (fun r' => sum (rr X) (fun c' => F x y s' r' c')))))).
      - apply sum_ext; intros y _. apply sum_ext; intros s' _. rewrite <- sum_scal_l. apply sum_ext; intros x _.
        rewrite <- sum_scal_l. apply sum_ext; intros r' _. rewrite <- sum_scal_l, <- sum_scal_l.
        apply sum_ext; intros c' _. unfold F. ring.
      - transitivity (sum (nd A) (fun y => sum (md A) (fun x => sum (rr X) (fun s' => sum (rr A) (fun r' => sum (rr X) (fun c' => F x y s' r' c')))))).
        + apply sum_ext; intros y _. apply sum_swap.
        + apply sum_swap. }
    apply sum_ext; intros x _. apply sum_ext; intros y _.
    transitivity (dsum (rows As) (cols As) (fun xs ys => sum (rr X) (fun s' => sum (rr A) (fun r' => sum (rr X) (fun c' =>
                    (g X s y 0%nat s' * g A r x y r' * cj (g X c x 0%nat c')) *
                    (chain Xs ys (zeros ys) s' 0%nat * chain As xs ys r' 0%nat * cj (chain Xs xs (zeros xs) c' 0%nat))))))).
    + unfold F, RightProd.
      rewrite <- dsum_sum. apply sum_ext; intros s' _. rewrite <- dsum_sum. apply sum_ext; intros r' _.
      rewrite <- dsum_sum. apply sum_ext; intros c' _. rewrite <- dsum_scal_l. reflexivity.
    + apply dsum_ext; intros xs ys. cbn [zeros map chain]. fold (zeros ys) (zeros xs). unfold mmul, cmat.
      rewrite sum_conj.
      transitivity (sum (rr X) (fun s' => g X s y 0%nat s' * chain Xs ys (zeros ys) s' 0%nat) *
                    (sum (rr A) (fun r' => g A r x y r' * chain As xs ys r' 0%nat) *
                     sum (rr X) (fun c' => cj (g X c x 0%nat c' * chain Xs xs (zeros xs) c' 0%nat)))); [|ring].
      rewrite sum3_prod. apply sum_ext; intros s' _. apply sum_ext; intros r' _.
      apply sum_ext; intros c' _. rewrite conj_mul. ring.
Qed.
End EnvProof.
