(* C04: the THRESHOLD BOUND as an inequality.  The scalar structure of the development has no order; here an order is a
   section parameter (a relation with the few laws used: reflexive, transitive, compatible with +, squares |z|^2 >= 0,
   multiplication by the two threshold constants monotone).  With the test of the code modelled by a boolean gt whose
   failure means  Td * s_j^2 <= Tn * s_0^2  (threshold^2 = Tn / Td), the error of the TT-SVD with a relative threshold obeys
        Td * ||x - TT(x)||^2  <=  (#discarded singular values) * Tn * ||x||^2 ,
   i.e.  error <= threshold * ||x|| * sqrt(#discarded).  Ingredients: the error identity (ErrorProof), the selection rule
   (SelectProof), Parseval for a genuine SVD, and "the next residual is not longer than the current one". *)
From Coq Require Import ZArith List Lia Ring Arith Bool.
Import ListNotations.
Require Import Ring Sums Matrix Core Chain Sweep OfFull SweepProof TensordotProof TruncProof ErrorProof SelectProof.

Section Bound.
Context {R : cring}.
Add Ring Rr43 : (cring_th R).
Open Scope cr_scope.
Notation sq := (@sq R).

Variable le : R -> R -> Prop.
Hypothesis le_refl : forall a, le a a.
Hypothesis le_trans : forall a b c, le a b -> le b c -> le a c.
Hypothesis le_add : forall a b c d, le a b -> le c d -> le (a + c) (b + d).
Hypothesis sq_nonneg : forall z : R, le 0 (z * cconj R z).
Variables Tn Td : R.
Hypothesis Tn_mono : forall a b, le a b -> le (Tn * a) (Tn * b).
Hypothesis Td_mono : forall a b, le a b -> le (Td * a) (Td * b).
Variable gt : R -> R -> bool.
Hypothesis gt_spec : forall a b, le 0 a -> gt a b = false -> le (Td * (a * a)) (Tn * (b * b)).

(* ---- order lemmas for finite sums ---- *)
Lemma sum_le n : forall f g, (forall i, (i < n)%nat -> le (f i) (g i)) -> le (sum n f) (sum n g).
Proof.
  induction n as [|n IH]; intros f g H; cbn [sum]; [apply le_refl|].
  apply le_add; [apply IH; intros i Hi; apply H; lia | apply H; lia].
Qed.
Lemma sum_nonneg n f : (forall i, (i < n)%nat -> le 0 (f i)) -> le 0 (sum n f).
Proof. intros H. rewrite <- (sum_zero n). apply sum_le. exact H. Qed.
Lemma sum_prefix_le k n f : (k <= n)%nat -> (forall i, (i < n)%nat -> le 0 (f i)) -> le (sum k f) (sum n f).
Proof.
  intros Hk H. replace n with (k + (n - k))%nat by lia. rewrite sum_plus.
  replace (sum k f) with (sum k f + 0) at 1 by ring.
  apply le_add; [apply le_refl|]. apply sum_nonneg. intros i Hi. apply H. lia.
Qed.
Lemma term_le_sum n f i : (i < n)%nat -> (forall j, (j < n)%nat -> le 0 (f j)) -> le (f i) (sum n f).
Proof.
  intros Hi H. apply le_trans with (sum (S i) f).
  - cbn [sum]. replace (f i) with (0 + f i) at 1 by ring. apply le_add; [|apply le_refl].
    apply sum_nonneg. intros j Hj. apply H. lia.
  - apply sum_prefix_le; [lia|exact H].
Qed.

Definition nmul (n : nat) (z : R) : R := sum n (fun _ => z).
Lemma nmul_add a b z : nmul (a + b) z = nmul a z + nmul b z.
Proof. unfold nmul. rewrite sum_plus. reflexivity. Qed.
Lemma nmul_mono n y z : le y z -> le (nmul n y) (nmul n z).
Proof. intros H. apply sum_le. intros _ _. exact H. Qed.

Lemma dsum_nonneg ms : forall ns F, (forall xs ys, le 0 (F xs ys)) -> le 0 (dsum ms ns F).
Proof.
  induction ms as [|m ms IH]; intros ns F H; cbn [dsum]; [apply H|]. destruct ns as [|n ns]; [apply H|].
  apply sum_nonneg; intros x _. apply sum_nonneg; intros y _. apply IH. intros; apply H.
Qed.

(* ---- squared Frobenius norm of a residual ---- *)
Definition norm2 (r : nat) (ms ns : list nat) (res : nat -> list nat -> list nat -> R) : R :=
  sum r (fun a => dsum ms ns (fun xs ys => sq (res a xs ys))).

(* Parseval: for a genuine SVD the squared Frobenius norm is the sum of the squared singular values *)
Lemma svd_norm rows cols (A : M R) (a : svd_ans R) : svd_full rows cols A a ->
  sum rows (fun r => sum cols (fun b => sq (A r b))) = sum (rk a) (fun p => Sg a p * Sg a p).
Proof.
  intros (Hval & HU & HV & Hs). rewrite sum_swap.
  transitivity (sum cols (fun b => sum (rk a) (fun p => Sg a p * Sg a p * (V a p b * cconj R (V a p b))))).
  - apply sum_ext; intros b Hb.
    rewrite (sum_ext rows _ (fun r => sq (sum (rk a) (fun p => U a r p * (Sg a p * V a p b))))).
    + rewrite (step_pythagoras rows (rk a) (U a) (fun p => Sg a p * V a p b) HU).
      apply sum_ext; intros p Hp. unfold ErrorProof.sq. rewrite conj_mul, (Hs p Hp). ring.
    + intros r Hr. rewrite (Hval r b Hr Hb). reflexivity.
  - rewrite sum_swap. apply sum_ext; intros p Hp. rewrite sum_scal_l.
    rewrite (HV p p Hp Hp). unfold delta. rewrite Nat.eqb_refl. ring.
Qed.

Lemma norm2_matrix r m n ms' ns' res : length ns' = length ms' ->
  norm2 r (m :: ms') (n :: ns') res =
  sum (r * m * n) (fun rho => sum (size_il ms' ns') (fun q => sq (res_matrix m n ms' ns' res rho q))).
Proof.
  intros Hl. rewrite sum_flat3. unfold norm2. apply sum_ext; intros a Ha. cbn [dsum].
  apply sum_ext; intros x Hx. apply sum_ext; intros y Hy.
  rewrite (sum_size_il ms' ns' (fun q => sq (res_matrix m n ms' ns' res (flat m n a x y) q)) Hl).
  apply dsum_ext_below; [exact Hl|]. intros xs ys Hxs Hys. f_equal.
  unfold res_matrix. rewrite unravel_ravel_il by assumption. cbn [fst snd].
  destruct (unflat m n a x y Hx Hy) as (F1 & F2 & F3). rewrite F1, F2, F3. reflexivity.
Qed.

Lemma kept_norm (a : svd_ans R) ms' ns' k' :
  length ns' = length ms' -> (k' <= rk a)%nat ->
  (forall p q, (p < rk a)%nat -> (q < rk a)%nat -> sum (size_il ms' ns') (fun b => V a p b * cconj R (V a q b)) = delta p q) ->
  (forall p, (p < rk a)%nat -> cconj R (Sg a p) = Sg a p) ->
  norm2 k' ms' ns' (fun p xs ys => Sg a (nth p (seq 0 k') 0%nat) * V a (nth p (seq 0 k') 0%nat) (ravel_il ms' ns' xs ys)) =
  sum k' (fun p => Sg a p * Sg a p).
Proof.
  intros Hl Hk HV Hs. unfold norm2. apply sum_ext; intros p Hp. rewrite seq_nth by exact Hp. cbn [Nat.add].
  assert (Hp' : (p < rk a)%nat) by lia.
  transitivity (Sg a p * Sg a p * dsum ms' ns' (fun xs ys => V a p (ravel_il ms' ns' xs ys) * cconj R (V a p (ravel_il ms' ns' xs ys)))).
  - rewrite <- dsum_scal_l. apply dsum_ext; intros xs ys. unfold ErrorProof.sq. rewrite conj_mul, (Hs p Hp'). ring.
  - rewrite <- (sum_size_il ms' ns' (fun q => V a p q * cconj R (V a p q)) Hl).
    rewrite (HV p p Hp' Hp'). unfold delta. rewrite Nat.eqb_refl. ring.
Qed.

(* number of discarded singular values along the recursion *)
Fixpoint ndisc (answers : list (svd_ans R)) (ms ns : list nat) {struct ms} : nat :=
  match ms, ns with
  | [m], [n] => 0%nat
  | m :: ms', n :: ns' =>
      match answers with
      | a :: as' => ((rk a - length (select (Some gt) None a)) + ndisc as' ms' ns')%nat
      | [] => 0%nat
      end
  | _, _ => 0%nat
  end.

Definition sv_nonneg (answers : list (svd_ans R)) : Prop :=
  Forall (fun a : svd_ans R => forall p, (p < rk a)%nat -> le 0 (Sg a p)) answers.

Lemma sgsq_nonneg (a : svd_ans R) p : cconj R (Sg a p) = Sg a p -> le 0 (Sg a p * Sg a p).
Proof. intros H. rewrite <- H at 2. apply sq_nonneg. Qed.

Theorem discarded_bound : forall ms ns answers r res,
  length ns = length ms -> ms <> [] ->
  err_hyp (Some gt) None answers r res ms ns -> sv_nonneg answers ->
  le (Td * discarded (Some gt) None answers ms ns) (nmul (ndisc answers ms ns) (Tn * norm2 r ms ns res)).
Proof.
  induction ms as [|m ms IH]; intros ns answers r res Hl Hne HP Hnn; [congruence|].
  destruct ns as [|n ns]; [discriminate|]. simpl in Hl.
  destruct ms as [|m2 ms].
  - destruct ns; [|discriminate]. cbn [discarded ndisc]. unfold nmul. cbn [sum].
    replace (Td * 0) with (c0 R) by ring. apply le_refl.
  - destruct ns as [|n2 ns]; [discriminate|].
    destruct answers as [|an answers]; [simpl in HP; tauto|].
    set (ms' := m2 :: ms) in *. set (ns' := n2 :: ns) in *.
    assert (Hl' : length ns' = length ms') by (unfold ms', ns'; simpl in *; lia).
    change (err_hyp (Some gt) None (an :: answers) r res (m :: ms') (n :: ns')) with
      (let idx := select (Some gt) None an in
       (exists k', (k' <= rk an)%nat /\ idx = seq 0 k') /\
       svd_full (r * m * n)%nat (size_il ms' ns') (res_matrix m n ms' ns' res) an /\
       err_hyp (Some gt) None answers (length idx)
         (fun p xs ys => Sg an (nth p idx 0%nat) * V an (nth p idx 0%nat) (ravel_il ms' ns' xs ys)) ms' ns') in HP.
    cbv zeta in HP. destruct HP as ((k' & Hk' & Hidx) & Hsvd & HP).
    pose proof Hsvd as (Hval & HU & HV & Hs).
    inversion Hnn as [|? ? Hnn1 Hnn2]; subst.
    change (discarded (Some gt) None (an :: answers) (m :: ms') (n :: ns')) with
      (sum (rk an - length (select (Some gt) None an)) (fun j => Sg an (length (select (Some gt) None an) + j)%nat * Sg an (length (select (Some gt) None an) + j)%nat)
       + discarded (Some gt) None answers ms' ns').
    change (ndisc (an :: answers) (m :: ms') (n :: ns')) with
      ((rk an - length (select (Some gt) None an)) + ndisc answers ms' ns')%nat.
    assert (Elen : length (select (Some gt) None an) = k') by (rewrite Hidx, seq_length; reflexivity).
    specialize (IH ns' answers (length (select (Some gt) None an)) _ Hl' ltac:(discriminate) HP Hnn2).
    rewrite Hidx, seq_length in IH. rewrite Elen.
    rewrite (kept_norm an ms' ns' k' Hl' Hk' HV Hs) in IH.
    (* N = ||res||^2 = sum of all squared singular values *)
    set (N := norm2 r (m :: ms') (n :: ns') res).
    assert (EN : N = sum (rk an) (fun p => Sg an p * Sg an p)).
    { unfold N. rewrite (norm2_matrix r m n ms' ns' res Hl'). apply svd_norm. exact Hsvd. }
    assert (Hsq : forall p, (p < rk an)%nat -> le 0 (Sg an p * Sg an p)) by (intros p Hp; apply sgsq_nonneg, Hs, Hp).
    rewrite nmul_add.
    replace (Td * (sum (rk an - k') (fun j => Sg an (k' + j)%nat * Sg an (k' + j)%nat) + discarded (Some gt) None answers ms' ns'))
      with (Td * sum (rk an - k') (fun j => Sg an (k' + j)%nat * Sg an (k' + j)%nat) + Td * discarded (Some gt) None answers ms' ns') by ring.
    apply le_add.
    + rewrite <- sum_scal_l. unfold nmul. apply sum_le. intros j Hj.
      assert (Hp : (k' + j < rk an)%nat) by lia.
      apply le_trans with (Tn * (Sg an 0%nat * Sg an 0%nat)).
      * apply gt_spec; [apply Hnn1; exact Hp|]. apply discarded_fails_test; [exact Hp|].
        rewrite Hidx. rewrite in_seq. lia.
      * apply Tn_mono. rewrite EN. apply (term_le_sum (rk an) (fun p => Sg an p * Sg an p) 0%nat); [lia|exact Hsq].
    + eapply le_trans; [exact IH|]. apply nmul_mono. apply Tn_mono. rewrite EN.
      apply sum_prefix_le; [exact Hk'|exact Hsq].
Qed.

(* the threshold bound of the property:  Td * ||x - TT(x)||^2 <= #discarded * Tn * ||x||^2 *)
Theorem threshold_bound ms ns answers r res :
  length ns = length ms -> ms <> [] ->
  err_hyp (Some gt) None answers r res ms ns -> sv_nonneg answers ->
  le (Td * err2 r ms ns res (fst (of_full_aux (Some gt) None answers r res ms ns)))
     (nmul (ndisc answers ms ns) (Tn * norm2 r ms ns res)).
Proof.
  intros Hl Hne HP Hnn. rewrite (of_full_error_identity (Some gt) None ms ns answers r res Hl Hne HP).
  apply discarded_bound; assumption.
Qed.

End Bound.
