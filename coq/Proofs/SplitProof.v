(* C10: one two-site update of a splitting stage applies the local propagator to the contracted pair. *)
From Coq Require Import ZArith List Lia Ring Arith Bool.
Import ListNotations.
Require Import Ring Sums Matrix Core Chain Sweep SweepProof Splitting.

Section SplitProof.
Context {R : cring}.
Add Ring Rr19 : (cring_th R).
Open Scope cr_scope.
Notation core := (core R).

Theorem pair_step_value idx (a : svd_ans R) (K : M R) (c c1 : core) al x1 x2 b :
  svd_value idx (rl c * md c) (md c1 * rr c1) (pair_matrix K c c1) a ->
  (al < rl c)%nat -> (x1 < md c)%nat -> (x2 < md c1)%nat -> (b < rr c1)%nat ->
  mmul (length idx) (cmat (fst (pair_step idx a c c1)) x1 0%nat) (cmat (snd (pair_step idx a c c1)) x2 0%nat) al b =
  applied K c c1 al (x1 * md c1 + x2)%nat b.
Proof.
  intros Hv Ha Hx1 Hx2 Hb. unfold mmul, cmat. cbn [pair_step fst snd g].
  rewrite Hv.
  - unfold pair_matrix. rewrite !div_mod_unique_l, !div_mod_unique_r by assumption. reflexivity.
  - apply lt_mul_add; assumption.
  - apply lt_mul_add; assumption.
Qed.

(* the contracted pair, entry by entry: applied K c c1 = sum over the incoming pair of local indices *)
Lemma applied_entries (K : M R) (c c1 : core) al l b : (0 < md c1)%nat ->
  applied K c c1 al l b =
  sum (md c) (fun y1 => sum (md c1) (fun y2 =>
    K l (y1 * md c1 + y2)%nat * sum (rr c) (fun q => g c al y1 0%nat q * g c1 q y2 0%nat b))).
Proof.
  intros Hm. unfold applied, merged. rewrite sum_prod.
  apply sum_ext; intros y1 _. apply sum_ext; intros y2 Hy2.
  rewrite div_mod_unique_l, div_mod_unique_r by assumption. ring.
Qed.
End SplitProof.
