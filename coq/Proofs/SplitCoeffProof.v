(* C10: the coefficient conditions of the splitting schemes, re-proved against the table regenerated
   from solvers/ode.py (Gen/SplittingCoeffs.v). *)
From Coq Require Import Reals QArith Qabs List Bool Arith Lia Lra.
Import ListNotations.
Require Import SkTT.Gen.SplittingCoeffs.

(* a step is a sequence of symmetric triples  even(k) odd(k) even(k) ; returns the list of set indices *)
Fixpoint triples (st : list (nat * bool)) : option (list nat) :=
  match st with
  | [] => Some []
  | (a, true) :: (b, false) :: (c, true) :: rest =>
      if Nat.eqb a b && Nat.eqb b c then match triples rest with Some l => Some (a :: l) | None => None end else None
  | _ => None
  end.
Definition qsum (l : list Q) : Q := fold_right Qplus 0%Q l.
Definition odd_coeffs (sets : list (Q * Q)) (idx : list nat) : list Q := map (fun k => snd (nth k sets (0%Q, 0%Q))) idx.
Definition halves_ok (sets : list (Q * Q)) : bool := forallb (fun p => Qeq_bool (fst p + fst p) (snd p)) sets.
Definition palindromic (l : list nat) : bool := if list_eq_dec Nat.eq_dec l (rev l) then true else false.
Definition small (q : Q) : bool := Qle_bool (Qabs q) (1 # 10000000000000000000000000)%Q.      (* 1e-25 *)

(* Lie: one full even stage, one full odd stage, coefficient 1 each *)
Lemma lie_conditions : lie_stages = [(0, true); (0, false)]%nat /\
  Qeq_bool (fst (nth 0 lie_sets (0, 0)%Q)) 1 = true /\ Qeq_bool (snd (nth 0 lie_sets (0, 0)%Q)) 1 = true.
Proof. repeat split; vm_compute; reflexivity. Qed.

(* Strang: symmetric even/2 - odd - even/2 with total weight 1 *)
Lemma strang_conditions :
  triples strang_stages = Some [0%nat] /\ halves_ok strang_sets = true /\
  Qeq_bool (qsum (odd_coeffs strang_sets [0%nat])) 1 = true.
Proof. repeat split; vm_compute; reflexivity. Qed.

(* Kahan-Li: palindromic composition of symmetric (Strang) steps with weights gamma_k:
   sum gamma = 1 exactly, sum gamma^3 and sum gamma^5 vanish to 1e-25 (order conditions) *)
Lemma kahan_li_conditions :
  exists idx, triples kahan_li_stages = Some idx /\ palindromic idx = true /\ length idx = 17%nat /\
    halves_ok kahan_li_sets = true /\
    Qeq_bool (qsum (odd_coeffs kahan_li_sets idx)) 1 = true /\
    small (qsum (map (fun g => g * g * g) (odd_coeffs kahan_li_sets idx))) = true /\
    small (qsum (map (fun g => g * g * g * g * g) (odd_coeffs kahan_li_sets idx))) = true.
Proof. eexists. repeat split; vm_compute; reflexivity. Qed.

(* Yoshida: with c = 2^(1/3) (any real c with c^3 = 2): triple-jump weights w1, w0, w1 with
   2 w1 + w0 = 1 and 2 w1^3 + w0^3 = 0, each applied as a symmetric Strang step *)
Open Scope R_scope.
Lemma yoshida_conditions (c : R) : c ^ 3 = 2 -> 2 - c <> 0 ->
  triples yoshida_stages = Some [0; 1; 0]%nat /\
  match yoshida_sets c with
  | [(e1, w1); (e0, w0)] => e1 + e1 = w1 /\ e0 + e0 = w0 /\ 2 * w1 + w0 = 1 /\ 2 * w1 ^ 3 + w0 ^ 3 = 0
  | _ => False
  end.
Proof.
  intros Hc Hn. split; [vm_compute; reflexivity|]. unfold yoshida_sets.
  repeat split; try (field; exact Hn).
  replace (2 * (1 / (2 - c)) ^ 3 + (- c / (2 - c)) ^ 3) with ((2 - c ^ 3) / (2 - c) ^ 3) by (field; exact Hn).
  rewrite Hc. field. exact Hn.
Qed.
