(* C15: entries of the transformed data tensor; Gram matrix. *)
From Coq Require Import ZArith List Lia Ring Arith Bool.
Import ListNotations.
Require Import Ring Sums Matrix Core Chain DataTensor.

Section DataProof.
Context {R : cring}.
Add Ring Rr10 : (cring_th R).
Open Scope cr_scope.
Notation core := (core R).
Notation mode := (@mode R).

(* product of the selected basis functions on snapshot j *)
Fixpoint pvals (modes : list mode) (ks : list nat) (j : nat) : R :=
  match modes, ks with
  | md :: rest, k :: ks' => snd md k j * pvals rest ks' j
  | _, _ => 1
  end.

Lemma chain_tail m (modes : list mode) : forall ks j a, (a < m)%nat -> (j < m)%nat -> length ks = length modes ->
  chain (map (dcore_mid m) modes ++ [eye_last m]) (ks ++ [j]) (repeat 0%nat (S (length modes))) a 0%nat =
  if Nat.eqb a j then pvals modes ks j else 0.
Proof.
  induction modes as [|md rest IH]; intros ks j a Ha Hj Hl.
  - destruct ks; [|discriminate]. cbn [map app chain repeat length pvals]. unfold mmul. cbn [rr eye_last]. simpl.
    unfold cmat, delta. cbn [g eye_last]. simpl. destruct (Nat.eqb a j); ring.
  - destruct ks as [|k ks]; [discriminate|]. simpl in Hl.
    cbn [map app length repeat chain pvals]. unfold mmul. cbn [rr dcore_mid].
    rewrite (sum_ext m _ (fun b => if Nat.eqb b j then (if Nat.eqb a j then snd md k j * pvals rest ks j else 0) else 0)).
    + rewrite (sum_single m j (fun _ => if Nat.eqb a j then snd md k j * pvals rest ks j else 0)) by assumption. reflexivity.
    + intros b Hb. change (repeat 0%nat (length rest) ++ [0%nat]) with (repeat 0%nat (length rest) ++ [0%nat]).
      replace (0%nat :: repeat 0%nat (length rest)) with (repeat 0%nat (S (length rest))) by reflexivity.
      rewrite (IH ks j b Hb Hj) by lia.
      unfold cmat. cbn [g dcore_mid].
      destruct (Nat.eqb b j) eqn:E1.
      * apply Nat.eqb_eq in E1. subst b. destruct (Nat.eqb a j); ring.
      * destruct (Nat.eqb a b) eqn:E2; [|ring]. ring.
Qed.

Theorem elem_basis_decomposition m (md : mode) rest k ks j :
  (j < m)%nat -> length ks = length rest ->
  elem (basis_decomposition m (md :: rest)) (k :: ks ++ [j]) (repeat 0%nat (S (S (length rest)))) =
  pvals (md :: rest) (k :: ks) j.
Proof.
  intros Hj Hl. unfold elem, basis_decomposition.
  cbn [repeat chain pvals]. unfold mmul. cbn [rr dcore_first].
  rewrite (sum_ext m _ (fun b => if Nat.eqb b j then snd md k j * pvals rest ks j else 0)).
  - rewrite (sum_single m j (fun _ => snd md k j * pvals rest ks j)) by assumption. reflexivity.
  - intros b Hb.
    replace (0%nat :: repeat 0%nat (length rest)) with (repeat 0%nat (S (length rest))) by reflexivity.
    rewrite (chain_tail m rest ks j b Hb Hj Hl). unfold cmat. cbn [g dcore_first].
    destruct (Nat.eqb b j) eqn:E; [apply Nat.eqb_eq in E; subst b|]; ring.
Qed.

(* ---- gram: product over the modes of inner sums = sum over all multi-indices of the products ---- *)
Definition dimsof (modes : list mode) : list nat := map fst modes.

Lemma gram_correct (modes1 : list mode) : forall modes2 j1 j2,
  dimsof modes2 = dimsof modes1 ->
  gram modes1 modes2 j1 j2 = msum (dimsof modes1) (fun ks => pvals modes1 ks j1 * pvals modes2 ks j2).
Proof.
  unfold dimsof.
  induction modes1 as [|md1 r1 IH]; intros modes2 j1 j2 Hd.
  - destruct modes2; [|discriminate]. simpl. ring.
  - destruct modes2 as [|md2 r2]; [discriminate|]. simpl in Hd. injection Hd as Hn Hr.
    cbn [gram map msum pvals]. rewrite IH by exact Hr.
    rewrite <- sum_scal_r. apply sum_ext; intros k _.
    rewrite <- msum_scal_l. apply msum_ext; intros ks _. ring.
Qed.
End DataProof.
