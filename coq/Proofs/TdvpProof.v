(* C11: the algebra behind "the one-site scheme conserves norm and energy at every rank":
   a state x = P c with an orthonormal frame P (P^H P = I); a sub-step replaces the coefficient c by
   U c with U unitary.  Then the norm of x is unchanged; and if M = P^H H P is the effective operator
   and U commutes with M (U = exp(-i t M)), the energy x^H H x = c^H M c is unchanged. *)
From Coq Require Import ZArith List Lia Ring Arith.
Require Import Ring Sums.

Section Tdvp.
Context {R : cring}.
Add Ring Rr20 : (cring_th R).
Open Scope cr_scope.
Notation cj := (cconj R).

Variables (N K : nat).
Definition mv (n : nat) (A : nat -> nat -> R) (v : nat -> R) : nat -> R := fun i => sum n (fun k => A i k * v k).
Definition ip (n : nat) (u v : nat -> R) : R := sum n (fun i => cj (u i) * v i).

(* <A u, A v> = <u, v> when A^H A = I on K columns *)
Lemma isometry_ip (rows : nat) (A : nat -> nat -> R) (u v : nat -> R) :
  (forall p q, (p < K)%nat -> (q < K)%nat -> sum rows (fun i => cj (A i p) * A i q) = if Nat.eqb p q then 1 else 0) ->
  ip rows (mv K A u) (mv K A v) = ip K u v.
Proof.
  intros HA. unfold ip, mv.
  transitivity (sum K (fun p => sum K (fun q => (cj (u p) * v q) * sum rows (fun i => cj (A i p) * A i q)))).
  - transitivity (sum rows (fun i => sum K (fun p => sum K (fun q => (cj (u p) * v q) * (cj (A i p) * A i q))))).
    + apply sum_ext; intros i _. rewrite sum_conj. rewrite <- sum_scal_r. apply sum_ext; intros p _.
      rewrite <- sum_scal_l. apply sum_ext; intros q _. rewrite conj_mul. ring.
    + rewrite sum_swap. apply sum_ext; intros p _. rewrite sum_swap. apply sum_ext; intros q _.
      rewrite <- sum_scal_l. reflexivity.
  - apply sum_ext; intros p Hp.
    rewrite (sum_ext K _ (fun q => if Nat.eqb q p then cj (u p) * v q else 0)).
    + rewrite (sum_single K p (fun q => cj (u p) * v q)) by exact Hp. reflexivity.
    + intros q Hq. rewrite (HA p q Hp Hq). rewrite Nat.eqb_sym. destruct (Nat.eqb q p); ring.
Qed.

(* norm: x' = P (U c) has the norm of x = P c *)
Theorem norm_preserved (P U : nat -> nat -> R) (c : nat -> R) :
  (forall p q, (p < K)%nat -> (q < K)%nat -> sum N (fun i => cj (P i p) * P i q) = if Nat.eqb p q then 1 else 0) ->
  (forall p q, (p < K)%nat -> (q < K)%nat -> sum K (fun i => cj (U i p) * U i q) = if Nat.eqb p q then 1 else 0) ->
  ip N (mv K P (mv K U c)) (mv K P (mv K U c)) = ip N (mv K P c) (mv K P c).
Proof.
  intros HP HU. rewrite !(isometry_ip N P) by exact HP. apply (isometry_ip K U). exact HU.
Qed.

(* energy: c^H M c is invariant when U is unitary and commutes with M *)
Theorem energy_preserved (M U : nat -> nat -> R) (c : nat -> R) :
  (forall p q, (p < K)%nat -> (q < K)%nat -> sum K (fun i => cj (U i p) * U i q) = if Nat.eqb p q then 1 else 0) ->
  (forall i j, (i < K)%nat -> (j < K)%nat -> sum K (fun k => M i k * U k j) = sum K (fun k => U i k * M k j)) ->
  ip K (mv K U c) (mv K M (mv K U c)) = ip K c (mv K M c).
Proof.
  intros HU Hcomm.
  assert (E : forall i, (i < K)%nat -> mv K M (mv K U c) i = mv K U (mv K M c) i).
  { intros i Hi. unfold mv.
    transitivity (sum K (fun j => sum K (fun k => M i k * U k j) * c j)).
    - erewrite sum_ext; [|intros k _; rewrite <- sum_scal_l; reflexivity].
      rewrite sum_swap. apply sum_ext; intros j _. rewrite <- sum_scal_r. apply sum_ext; intros k _. ring.
    - erewrite sum_ext; [|intros j Hj; rewrite (Hcomm i j Hi Hj); reflexivity].
      symmetry. erewrite sum_ext; [|intros k _; rewrite <- sum_scal_l; reflexivity].
      rewrite sum_swap. apply sum_ext; intros j _. rewrite <- sum_scal_r. apply sum_ext; intros k _. ring. }
  transitivity (ip K (mv K U c) (mv K U (mv K M c))).
  - unfold ip. apply sum_ext; intros i Hi. rewrite (E i Hi). reflexivity.
  - apply (isometry_ip K U). exact HU.
Qed.
End Tdvp.

(* The padded-factor conjugation of the code, q~^H micro q~ with q~ = q (x) I, is the index formula of the model. *)
Require Import Matrix Tdvp.
Section Proj.
Context {R : cring}.
Add Ring Rr21 : (cring_th R).
Open Scope cr_scope.
Notation cj := (cconj R).

Lemma divmod_flat tail l t : (t < tail)%nat -> ((l * tail + t) / tail = l /\ (l * tail + t) mod tail = t)%nat.
Proof.
  intros Ht. split.
  - rewrite Nat.div_add_l by lia. rewrite Nat.div_small by exact Ht. lia.
  - rewrite Nat.add_comm, Nat.mod_add by lia. apply Nat.mod_small; exact Ht.
Qed.

Theorem proj_lead_is_conjugation (Q : M R) lead k tail (Mi : M R) row col :
  (0 < tail)%nat -> (row < k * tail)%nat -> (col < k * tail)%nat ->
  conjugate_by (lead * tail) (pad_lead Q tail) Mi row col = snd (proj_lead Q lead k tail Mi) row col.
Proof.
  intros Ht Hr Hc. unfold conjugate_by, proj_lead, pad_lead. cbn [snd].
  rewrite sum_prod. apply sum_ext; intros l Hl.
  rewrite (sum_ext tail _ (fun t => if Nat.eqb t (row mod tail) then
            sum lead (fun l' => cj (Q l (row / tail)%nat) * Mi (l * tail + t)%nat (l' * tail + col mod tail)%nat * Q l' (col / tail)%nat) else 0)).
  - rewrite (sum_single tail (row mod tail)) by (apply Nat.mod_upper_bound; lia). reflexivity.
  - intros t Htt. destruct (divmod_flat tail l t Htt) as [E1 E2].
    rewrite sum_prod.
    destruct (Nat.eqb t (row mod tail)) eqn:Eq.
    + apply sum_ext; intros l' Hl'.
      rewrite (sum_ext tail _ (fun t' => if Nat.eqb t' (col mod tail) then
                cj (Q l (row / tail)%nat) * Mi (l * tail + t)%nat (l' * tail + t')%nat * Q l' (col / tail)%nat else 0)).
      * rewrite (sum_single tail (col mod tail)) by (apply Nat.mod_upper_bound; lia). reflexivity.
      * intros t' Ht'. destruct (divmod_flat tail l' t' Ht') as [E3 E4].
        rewrite E1, E2, E3, E4, Eq.
        destruct (Nat.eqb t' (col mod tail)); [reflexivity | ring].
    + apply sum_zero'; intros l' _. apply sum_zero'; intros t' Ht'.
      rewrite E2, Eq. rewrite conj_0. ring.
Qed.

Theorem proj_trail_is_conjugation (Q : M R) head trail k (Mi : M R) row col :
  (0 < k)%nat -> (0 < trail)%nat -> (row < head * k)%nat -> (col < head * k)%nat ->
  conjugate_by (head * trail) (pad_trail Q k trail) Mi row col = snd (proj_trail Q head trail k Mi) row col.
Proof.
  intros Hk Ht Hr Hc. unfold conjugate_by, proj_trail, pad_trail. cbn [snd].
  assert (Hrh : (row / k < head)%nat) by (apply Nat.div_lt_upper_bound; lia).
  assert (Hch : (col / k < head)%nat) by (apply Nat.div_lt_upper_bound; lia).
  rewrite sum_prod.
  rewrite (sum_ext head _ (fun h => if Nat.eqb h (row / k) then
     sum trail (fun t => sum trail (fun t' => cj (Q (row mod k)%nat t) * Mi (h * trail + t)%nat (col / k * trail + t')%nat * Q (col mod k)%nat t')) else 0)).
  - rewrite (sum_single head (row / k)) by exact Hrh. reflexivity.
  - intros h Hh. destruct (Nat.eqb h (row / k)) eqn:Eq.
    + apply sum_ext; intros t Htt. destruct (divmod_flat trail h t Htt) as [E1 E2].
      rewrite sum_prod.
      rewrite (sum_ext head _ (fun h' => if Nat.eqb h' (col / k) then
          sum trail (fun t' => cj (Q (row mod k)%nat t) * Mi (h * trail + t)%nat (h' * trail + t')%nat * Q (col mod k)%nat t') else 0)).
      * rewrite (sum_single head (col / k)) by exact Hch. reflexivity.
      * intros h' Hh'. destruct (Nat.eqb h' (col / k)) eqn:Eq'.
        -- apply sum_ext; intros t' Ht'. destruct (divmod_flat trail h' t' Ht') as [E3 E4].
           rewrite E1, E2, E3, E4, Eq, Eq'. reflexivity.
        -- apply sum_zero'; intros t' Ht'. destruct (divmod_flat trail h' t' Ht') as [E3 E4].
           rewrite E3, Eq'. ring.
    + apply sum_zero'; intros t Htt. destruct (divmod_flat trail h t Htt) as [E1 E2].
      apply sum_zero'; intros b _. rewrite E1, Eq. rewrite conj_0. ring.
Qed.
End Proj.

(* trajectory shape: the initial state followed by exactly one state per step, the k-th being the state after k steps *)
Lemma traj_length {S T} (out : S -> T) n f : forall s, length (fst (traj out n f s)) = n.
Proof. induction n as [|n IH]; intros s; cbn [traj]; [reflexivity|]. specialize (IH (f s)). destruct (traj out n f (f s)) as [l s2]. cbn in *. lia. Qed.
Lemma traj_nth {S T} (out : S -> T) n f dflt : forall s k, (k < n)%nat -> nth k (fst (traj out n f s)) dflt = out (iterate (Datatypes.S k) f s).
Proof.
  induction n as [|n IH]; intros s k Hk; [lia|]. cbn [traj].
  specialize (IH (f s)). destruct (traj out n f (f s)) as [l s2]. cbn [fst] in *.
  destruct k as [|k]; [reflexivity|]. cbn [nth]. rewrite IH by lia. reflexivity.
Qed.
Lemma traj_final {S T} (out : S -> T) n f : forall s, snd (traj out n f s) = iterate n f s.
Proof. induction n as [|n IH]; intros s; cbn [traj iterate]; [reflexivity|]. specialize (IH (f s)). destruct (traj out n f (f s)) as [l s2]. exact IH. Qed.
