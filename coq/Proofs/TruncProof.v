(* C04: TT-SVD of a full tensor: rank caps, exactness without truncation. *)
From Coq Require Import ZArith List Lia Ring Arith Bool.
Import ListNotations.
Require Import Ring Sums Matrix Core Chain Sweep OfFull SweepProof.

Section TruncProof.
Context {R : cring}.
Add Ring Rr13 : (cring_th R).
Open Scope cr_scope.
Notation core := (core R).

(* ---------- interleaved ravel / unravel ---------- *)
Lemma ravel_il_lt ms : forall ns xs ys, below xs ms -> below ys ns -> length ns = length ms ->
  (ravel_il ms ns xs ys < size_il ms ns)%nat.
Proof.
  induction ms as [|m ms IH]; intros ns xs ys Hx Hy Hl.
  - destruct xs; simpl in *; try tauto. lia.
  - destruct ns as [|n ns]; [discriminate|]. destruct xs as [|x xs]; [simpl in Hx; tauto|].
    destruct ys as [|y ys]; [simpl in Hy; tauto|]. destruct Hx as (Hx & Hxs). destruct Hy as (Hy & Hys).
    simpl in Hl. cbn [ravel_il size_il].
    specialize (IH ns xs ys Hxs Hys ltac:(lia)).
    assert (x * n + y < m * n)%nat by (apply lt_mul_add; assumption).
    apply lt_mul_add; assumption.
Qed.

Lemma unravel_ravel_il ms : forall ns xs ys, below xs ms -> below ys ns -> length ns = length ms ->
  unravel_il ms ns (ravel_il ms ns xs ys) = (xs, ys).
Proof.
  induction ms as [|m ms IH]; intros ns xs ys Hx Hy Hl.
  - destruct ns; [|discriminate]. destruct xs; [|simpl in Hx; tauto]. destruct ys; [|simpl in Hy; tauto]. reflexivity.
  - destruct ns as [|n ns]; [discriminate|]. destruct xs as [|x xs]; [simpl in Hx; tauto|].
    destruct ys as [|y ys]; [simpl in Hy; tauto|]. destruct Hx as (Hx & Hxs). destruct Hy as (Hy & Hys).
    simpl in Hl. cbn [ravel_il unravel_il].
    pose proof (ravel_il_lt ms ns xs ys Hxs Hys ltac:(lia)) as Hlt.
    rewrite div_mod_unique_l, div_mod_unique_r by assumption.
    rewrite IH by (try assumption; lia). cbn [fst snd].
    rewrite div_mod_unique_l, div_mod_unique_r by assumption. reflexivity.
Qed.

(* ---------- hypotheses along the decomposition ---------- *)
Fixpoint of_full_hyp (P : list nat -> nat -> nat -> M R -> svd_ans R -> Prop)
         thr maxr (answers : list (svd_ans R)) (r : nat) (res : nat -> list nat -> list nat -> R) (ms ns : list nat) {struct ms} : Prop :=
  match ms, ns with
  | [m], [n] => True
  | m :: ms', n :: ns' =>
      match answers with
      | a :: as' =>
          let idx := select thr maxr a in
          P idx (r * m * n)%nat (size_il ms' ns') (res_matrix m n ms' ns' res) a /\
          of_full_hyp P thr maxr as' (length idx)
            (fun p xs ys => Sg a (nth p idx 0%nat) * V a (nth p idx 0%nat) (ravel_il ms' ns' xs ys)) ms' ns'
      | [] => False
      end
  | _, _ => True
  end.

(* ---------- exactness: the decomposition reproduces the residual it was given ---------- *)
Theorem of_full_aux_value thr maxr : forall ms ns answers r res xs ys a,
  length ns = length ms -> ms <> [] ->
  of_full_hyp svd_value thr maxr answers r res ms ns ->
  below xs ms -> below ys ns -> (a < r)%nat ->
  chain (fst (of_full_aux thr maxr answers r res ms ns)) xs ys a 0%nat = res a xs ys.
Proof.
  induction ms as [|m ms IH]; intros ns answers r res xs ys a Hl Hne HP Hx Hy Ha; [congruence|].
  destruct ns as [|n ns]; [discriminate|]. simpl in Hl.
  destruct xs as [|x xs]; [simpl in Hx; tauto|]. destruct ys as [|y ys]; [simpl in Hy; tauto|].
  destruct Hx as (Hx & Hxs). destruct Hy as (Hy & Hys).
  destruct ms as [|m2 ms].
  - destruct ns; [|discriminate]. destruct xs; [|simpl in Hxs; tauto]. destruct ys; [|simpl in Hys; tauto].
    change (of_full_aux thr maxr answers r res [m] [n]) with ([mkcore r m n 1 (fun al x y _ => res al [x] [y])], @nil (nat * nat * M R)).
    cbn [fst chain]. unfold mmul. cbn [rr]. simpl sum. unfold cmat, delta. cbn [g]. simpl. ring.
  - destruct ns as [|n2 ns]; [discriminate|].
    destruct answers as [|an answers]; [simpl in HP; tauto|].
    change (of_full_hyp svd_value thr maxr (an :: answers) r res (m :: m2 :: ms) (n :: n2 :: ns)) with
      (let idx := select thr maxr an in
       svd_value idx (r * m * n)%nat (size_il (m2 :: ms) (n2 :: ns)) (res_matrix m n (m2 :: ms) (n2 :: ns) res) an /\
       of_full_hyp svd_value thr maxr answers (length idx)
         (fun p xs ys => Sg an (nth p idx 0%nat) * V an (nth p idx 0%nat) (ravel_il (m2 :: ms) (n2 :: ns) xs ys)) (m2 :: ms) (n2 :: ns)) in HP.
    cbv zeta in HP. destruct HP as (Hv & HP).
    set (idx := select thr maxr an) in *.
    change (fst (of_full_aux thr maxr (an :: answers) r res (m :: m2 :: ms) (n :: n2 :: ns))) with
      (mkcore r m n (length idx) (fun al x y p => U an (flat m n al x y) (nth p idx 0%nat)) ::
       fst (of_full_aux thr maxr answers (length idx)
              (fun p xs ys => Sg an (nth p idx 0%nat) * V an (nth p idx 0%nat) (ravel_il (m2 :: ms) (n2 :: ns) xs ys)) (m2 :: ms) (n2 :: ns))).
    cbn [chain]. unfold mmul. cbn [rr].
    rewrite (sum_ext (length idx) _ (fun p => U an (flat m n a x y) (nth p idx 0%nat) *
               (Sg an (nth p idx 0%nat) * V an (nth p idx 0%nat) (ravel_il (m2 :: ms) (n2 :: ns) xs ys)))).
    + rewrite Hv.
      * unfold res_matrix. rewrite unravel_ravel_il by (try assumption; simpl in *; lia). cbn [fst snd].
        destruct (unflat m n a x y Hx Hy) as (E1 & E2 & E3). rewrite E1, E2, E3. reflexivity.
      * apply flat_lt; assumption.
      * apply ravel_il_lt; try assumption. simpl in *; lia.
    + intros p Hp. rewrite (IH (n2 :: ns) answers (length idx) _ xs ys p); try assumption; try discriminate; try (simpl in *; lia).
      unfold cmat. cbn [g]. reflexivity.
Qed.

Theorem of_full_exact thr maxr answers (X : list nat -> list nat -> R) ms ns xs ys :
  length ns = length ms -> ms <> [] ->
  of_full_hyp svd_value thr maxr answers 1 (fun _ xs ys => X xs ys) ms ns ->
  below xs ms -> below ys ns ->
  elem (fst (of_full thr maxr answers X ms ns)) xs ys = X xs ys.
Proof.
  intros Hl Hne HP Hx Hy. unfold elem, of_full.
  apply (of_full_aux_value thr maxr ms ns answers 1 (fun _ xs ys => X xs ys) xs ys 0%nat); try assumption. lia.
Qed.

(* ---------- rank caps: no bond exceeds max_rank ---------- *)
Definition caps_ok (cap r : nat) (cs : list core) : Prop :=
  match cs with [] => True | c :: cs' => rl c = r /\ Forall (fun c' : core => (rl c' <= cap)%nat) cs' end.

Theorem of_full_caps thr cap : forall ms ns answers r res,
  caps_ok cap r (fst (of_full_aux thr (Some cap) answers r res ms ns)).
Proof.
  induction ms as [|m ms IH]; intros ns answers r res; [exact I|].
  destruct ns as [|n ns]; [destruct ms; exact I|].
  destruct ms as [|m2 ms]; destruct ns as [|n2 ns].
  - simpl. split; [reflexivity|constructor].
  - destruct answers; simpl; [exact I|]. split; [reflexivity|constructor].
  - destruct answers; simpl; [exact I|]. split; [reflexivity|]. destruct ms; constructor.
  - destruct answers as [|an answers]; [exact I|].
    set (idx := select thr (Some cap) an).
    change (fst (of_full_aux thr (Some cap) (an :: answers) r res (m :: m2 :: ms) (n :: n2 :: ns))) with
      (mkcore r m n (length idx) (fun al x y p => U an (flat m n al x y) (nth p idx 0%nat)) ::
       fst (of_full_aux thr (Some cap) answers (length idx)
              (fun p xs ys => Sg an (nth p idx 0%nat) * V an (nth p idx 0%nat) (ravel_il (m2 :: ms) (n2 :: ns) xs ys)) (m2 :: ms) (n2 :: ns))).
    pose proof (IH (n2 :: ns) answers (length idx)
                   (fun p xs ys => Sg an (nth p idx 0%nat) * V an (nth p idx 0%nat) (ravel_il (m2 :: ms) (n2 :: ns) xs ys))) as F.
    pose proof (select_cap thr cap an) as Hc. fold idx in Hc.
    split; [reflexivity|].
    destruct (fst (of_full_aux thr (Some cap) answers (length idx) _ (m2 :: ms) (n2 :: ns))) as [|c' cs']; [constructor|].
    destruct F as (E & F). constructor; [lia|exact F].
Qed.
End TruncProof.
