(* C04: the rank-reduction rule.  With a relative threshold and no rank cap, an index is kept exactly when its singular value
   passes the test  s_j / s_0 > threshold ; hence every DISCARDED singular value fails it (s_j <= threshold * s_0), which with
   the error identity gives  error^2 = sum of discarded s_j^2 <= (#discarded) * (threshold * s_0)^2. *)
From Coq Require Import ZArith List Lia Arith Bool.
Import ListNotations.
Require Import Ring Sums Matrix Core Sweep.

Section SelectProof.
Context {R : cring}.
Notation svd_ans := (svd_ans R).

Lemma In_firstn_in {A} (m : nat) : forall (l : list A) x, In x (firstn m l) -> In x l.
Proof. induction m as [|m IH]; intros [|y l] x H; cbn in *; try tauto. destruct H as [H|H]; [left; exact H|right; apply IH; exact H]. Qed.
Lemma NoDup_firstn {A} (m : nat) : forall (l : list A), NoDup l -> NoDup (firstn m l).
Proof.
  induction m as [|m IH]; intros [|y l] H; cbn; try constructor.
  - inversion H as [|? ? Hn Hd]; subst. intro Hin. apply Hn. apply (In_firstn_in m). exact Hin.
  - inversion H; subst. apply IH. assumption.
Qed.

Theorem select_threshold_spec (gt : R -> R -> bool) (a : svd_ans) j :
  In j (select (Some gt) None a) <-> ((j < rk a)%nat /\ gt (Sg a j) (Sg a 0%nat) = true).
Proof.
  unfold select. rewrite filter_In, in_seq. split; intros [H1 H2]; split; try assumption; lia.
Qed.

Corollary discarded_fails_test (gt : R -> R -> bool) (a : svd_ans) j :
  (j < rk a)%nat -> ~ In j (select (Some gt) None a) -> gt (Sg a j) (Sg a 0%nat) = false.
Proof.
  intros Hj Hn. destruct (gt (Sg a j) (Sg a 0%nat)) eqn:E; [|reflexivity].
  exfalso. apply Hn. apply select_threshold_spec. split; assumption.
Qed.

(* the kept indices are increasing and without repetition (a subsequence of 0, 1, .., rk-1), with or without a cap *)
Theorem select_sorted (thr : option (R -> R -> bool)) (maxr : option nat) (a : svd_ans) :
  NoDup (select thr maxr a) /\ (forall j, In j (select thr maxr a) -> (j < rk a)%nat).
Proof.
  assert (H0 : NoDup (match thr with None => seq 0 (rk a) | Some gt => filter (fun j => gt (Sg a j) (Sg a 0%nat)) (seq 0 (rk a)) end)
               /\ (forall j, In j (match thr with None => seq 0 (rk a) | Some gt => filter (fun j => gt (Sg a j) (Sg a 0%nat)) (seq 0 (rk a)) end) -> (j < rk a)%nat)).
  { destruct thr as [gt|].
    - split; [apply NoDup_filter, seq_NoDup|]. intros j Hj. apply filter_In in Hj. destruct Hj as [Hj _]. apply in_seq in Hj. lia.
    - split; [apply seq_NoDup|]. intros j Hj. apply in_seq in Hj. lia. }
  destruct H0 as [Hnd Hlt]. unfold select. destruct maxr as [m|]; [|split; assumption].
  split.
  - apply NoDup_firstn. exact Hnd.
  - intros j Hj. apply Hlt. apply (In_firstn_in m). exact Hj.
Qed.
End SelectProof.
