(* C09: the operators the one-step schemes build, and the explicit Euler step, in dense form. *)
From Coq Require Import ZArith List Lia Ring Arith Bool.
Import ListNotations.
Require Import Ring Sums Matrix Core Chain TTOps Sweep AddProof OpsProof SweepProof Ode.

Section OdeProof.
Context {R : cring}.
Add Ring Rr18 : (cring_th R).
Open Scope cr_scope.
Notation core := (core R).

Lemma wf_teye dims : dims <> [] -> wf (@teye R dims).
Proof.
  intros Hne. unfold wf, teye. split.
  - clear Hne. induction dims as [|d dims IH]; simpl; [exact I|]. repeat split; auto. destruct dims; reflexivity.
  - destruct dims; [congruence|reflexivity].
Qed.
Lemma teye_shapes dims : rows (@teye R dims) = dims /\ cols (@teye R dims) = dims /\ length (@teye R dims) = length dims.
Proof. unfold rows, cols, teye. rewrite !map_map, map_length. simpl. rewrite !map_id. auto. Qed.
Lemma rows_smul (c : R) (A : list core) : rows (smul c A) = rows A /\ cols (smul c A) = cols A.
Proof. destruct A; simpl; auto. Qed.

Definition idelta (xs ys : list nat) : R := rprod (map (fun p => dlt (fst p) (snd p)) (combine xs ys)).

(* I + c A, entrywise *)
Theorem elem_eye_plus (c : R) (A : list core) xs ys :
  A <> [] -> wf A -> length xs = length A -> length ys = length A ->
  elem (eye_plus c A) xs ys = idelta xs ys + c * elem A xs ys.
Proof.
  intros Hne HW Hx Hy. unfold eye_plus.
  destruct (teye_shapes (rows A)) as (_ & _ & Hl). unfold rows in Hl. rewrite map_length in Hl.
  assert (Hne' : @teye R (rows A) <> []).
  { intros E. apply (f_equal (@length _)) in E. unfold rows in E. rewrite Hl in E. destruct A; [congruence|discriminate]. }
  rewrite elem_tadd; try assumption.
  - rewrite elem_teye by (unfold rows; rewrite map_length; assumption).
    rewrite elem_smul by assumption. reflexivity.
  - rewrite length_smul. unfold rows. rewrite Hl. reflexivity.
  - unfold rows. rewrite Hl. exact Hx.
  - unfold rows. rewrite Hl. exact Hy.
  - apply wf_teye. intros E. destruct A; [congruence|discriminate].
  - apply wf_smul. exact HW.
Qed.

(* the explicit Euler step reproduces the dense recurrence  x_{k+1} = (I + h A) x_k  when the
   orthonormalisation does not truncate (SVD value conjunct) *)
Theorem explicit_euler_dense thr maxr ansL ansR (h : R) (A x : list core) xs zs :
  let y := tmul (eye_plus h A) x in
  let n := (length y - 1)%nat in
  let cp : caps := match maxr with
                   | None => fun _ => None
                   | Some m => fun bond => if Nat.eqb bond 0 || Nat.eqb bond (length y) then Some 1%nat else Some m
                   end in
  let y1 := ortho_left thr (fun _ => None) 0 ansL y in
  A <> [] -> wf A -> length x = length A -> linked x 1%nat -> rl_pos x ->
  length xs = length A -> length zs = length A ->
  sweepL_hyp svd_value thr (fun _ => None) 1 ansL y ->
  sweepL_hyp nonempty_idx thr (fun _ => None) 1 ansL y ->
  sweepR_hyp svd_value thr cp 0 ansR (firstn (S n) y1) ->
  sweepR_hyp nonempty_idx thr cp 0 ansR (firstn (S n) y1) ->
  wf y -> below xs (rows y) -> below zs (cols y) ->
  elem (explicit_euler_step thr maxr ansL ansR h A x) xs zs =
  msum (cols (eye_plus h A)) (fun ys => (idelta xs ys + h * elem A xs ys) * elem x ys zs).
Proof.
  intros y n cp y1 Hne HW Hlx Lx Px Hxs Hzs H1 H2 H3 H4 Wy Bx Bz.
  transitivity (elem y xs zs).
  { exact (ortho_value thr cp ansL ansR y xs zs H1 H2 H3 H4 Wy Bx Bz). }
  unfold y.
  assert (Hle : length (eye_plus h A) = length A).
  { unfold eye_plus. destruct (tadd_aux_shapes (teye (rows A)) (smul h A) true) as (_ & _ & E).
    - rewrite length_smul. destruct (teye_shapes (rows A)) as (_ & _ & E). rewrite E. unfold rows. rewrite map_length. reflexivity.
    - unfold tadd. rewrite E. destruct (teye_shapes (rows A)) as (_ & _ & E'). rewrite E'. unfold rows. apply map_length. }
  rewrite elem_tmul; try assumption; try (rewrite Hle; assumption).
  apply msum_ext. intros ys Hys.
  assert (Hys' : length ys = length A).
  { apply below_length in Hys. unfold cols in Hys. rewrite map_length, Hle in Hys. exact Hys. }
  rewrite elem_eye_plus by assumption. reflexivity.
Qed.
End OdeProof.

(* ---- adaptive step-size controller: accepted time points increase strictly and never pass the end ---- *)
From Coq Require Import QArith Qminmax Lqa.
Section Controller.
Open Scope Q_scope.
(* one accepted step: time := min(time + step, time_end) *)
Definition accept (time step tend : Q) : Q := Qmin (time + step) tend.
Theorem accept_increases time step tend : time < tend -> 0 < step ->
  time < accept time step tend /\ accept time step tend <= tend.
Proof.
  intros Ht Hs. unfold accept. split.
  - apply Q.min_glb_lt; lra.
  - apply Q.le_min_r.
Qed.
(* any sequence of accepted steps (positive step sizes, taken while time < time_end) *)
Fixpoint run_accepts (time tend : Q) (steps : list Q) : list Q :=
  match steps with
  | [] => []
  | h :: hs => let t' := accept time h tend in t' :: run_accepts t' tend hs
  end.
Fixpoint increasing_from (t : Q) (l : list Q) (tend : Q) : Prop :=
  match l with [] => True | a :: l' => t < a /\ a <= tend /\ increasing_from a l' tend end.
(* the controller only takes a step while time < time_end: [guarded] records that *)
Fixpoint guarded (time tend : Q) (steps : list Q) : Prop :=
  match steps with
  | [] => True
  | h :: hs => time < tend /\ 0 < h /\ guarded (accept time h tend) tend hs
  end.
Theorem adaptive_times_increase time tend steps :
  guarded time tend steps -> increasing_from time (run_accepts time tend steps) tend.
Proof.
  revert time. induction steps as [|h hs IH]; intros time G; simpl; [exact I|].
  destruct G as (Ht & Hh & G). destruct (accept_increases time h tend Ht Hh) as (A1 & A2).
  repeat split; try assumption. apply IH. exact G.
Qed.
End Controller.
