(* C12/C13: off-diagonal entries of the elementary reaction matrices and of the two-cell super-core are sums of rates:
   they lie in every additive cone that contains the rates (in particular they are non-negative for non-negative rates). *)
From Coq Require Import ZArith List Lia Ring Arith Bool.
Import ListNotations.
Require Import Ring Sums Matrix Core Chain Sweep Slim.

Section Cone.
Context {R : cring}.
Add Ring Rr42 : (cring_th R).
Open Scope cr_scope.
Variable P : R -> Prop.
Hypothesis P0 : P 0.
Hypothesis Padd : forall a b, P a -> P b -> P (a + b).

Theorem smat_offdiag_cone (rs : list (@reaction1 R)) x y :
  x <> y -> Forall (fun q : reaction1 => let '(_, _, rate) := q in P rate) rs -> P (smat rs x y).
Proof.
  intros Hxy HF. induction rs as [|[[r p] rate] rs IH]; [exact P0|].
  inversion HF as [|? ? Hr HF']; subst. cbn [smat fold_right].
  change (fold_right _ 0 rs) with (smat rs x y).
  apply Padd; [apply IH; exact HF'|].
  unfold ind. destruct (Nat.eqb_spec y r) as [E|E]; cbn [andb].
  - destruct (Nat.eqb_spec x p) as [E2|E2]; destruct (Nat.eqb_spec x r) as [E3|E3]; try (exfalso; congruence).
    + replace (rate * (1 - 0)) with (rate + 0) by ring. apply Padd; [exact Hr|exact P0].
    + replace (rate * (0 - 0)) with (c0 R) by ring. exact P0.
  - replace (rate * (0 - 0)) with (c0 R) by ring. exact P0.
Qed.

Theorem supercore_offdiag_cone (rs : list (@reaction2 R)) x1 y1 x2 y2 :
  (x1 <> y1 \/ x2 <> y2) -> Forall (fun q : reaction2 => let '(_, _, _, _, rate) := q in P rate) rs ->
  P (supercore rs x1 y1 x2 y2).
Proof.
  intros Hxy HF. induction rs as [|[[[[r1 p1] r2] p2] rate] rs IH]; [exact P0|].
  inversion HF as [|? ? Hr HF']; subst. cbn [supercore fold_right].
  change (fold_right _ 0 rs) with (supercore rs x1 y1 x2 y2).
  apply Padd; [apply IH; exact HF'|].
  unfold ind.
  destruct (Nat.eqb_spec y1 r1) as [E1|E1]; destruct (Nat.eqb_spec y2 r2) as [E2|E2]; cbn [andb];
    try (replace (rate * (0 * _ - 0 * _)) with (c0 R) by ring; exact P0);
    try (replace (rate * (_ * 0 - _ * 0)) with (c0 R) by ring; exact P0).
  (* the reaction fires from (y1, y2): the outflow term sits on the diagonal, which is excluded *)
  destruct (Nat.eqb_spec x1 r1) as [F1|F1]; destruct (Nat.eqb_spec x2 r2) as [F2|F2].
  - exfalso. destruct Hxy as [H|H]; apply H; congruence.
  - destruct (Nat.eqb x1 p1), (Nat.eqb x2 p2);
      first [replace (rate * (1 * 1 - 1 * 0)) with (rate + 0) by ring; apply Padd; [exact Hr|exact P0]
            | match goal with |- P ?t => replace t with (c0 R) by ring; exact P0 end].
  - destruct (Nat.eqb x1 p1), (Nat.eqb x2 p2);
      first [replace (rate * (1 * 1 - 0 * 1)) with (rate + 0) by ring; apply Padd; [exact Hr|exact P0]
            | match goal with |- P ?t => replace t with (c0 R) by ring; exact P0 end].
  - destruct (Nat.eqb x1 p1), (Nat.eqb x2 p2);
      first [replace (rate * (1 * 1 - 0 * 0)) with (rate + 0) by ring; apply Padd; [exact Hr|exact P0]
            | match goal with |- P ?t => replace t with (c0 R) by ring; exact P0 end].
Qed.
End Cone.
