(* C16: the kernel-based MANDy variant.  Psi (N x m): transformed data matrix (rows: product basis functions, columns:
   snapshots), G = Psi^T Psi its Gram matrix (C15_gram: the Hadamard product of the per-mode Gram matrices that
   tdt.gram computes), z (d x m) the returned kernel coefficients, Xi = Psi z^T the coefficient tensor they stand for.
     - kb_fitted: the kfitted values Xi^T Psi are z G;
     - kb_exact: if z solves z G = y (the Cholesky / solve branch) the kfitted values are y, and y Psi^+ Psi = y for
       every Psi^+ with Psi Psi^+ Psi = Psi: the least-squares kfitted values of the other MANDy variants are the same. *)
From Coq Require Import ZArith List Lia Ring Arith Bool.
Import ListNotations.
Require Import Ring Sums Matrix.

Section Kernel.
Context {R : cring}.
Add Ring Rr53 : (cring_th R).
Open Scope cr_scope.

Variables (N m : nat) (Psi z : M R).
Definition Gk : M R := fun k j => sum N (fun x => Psi x k * Psi x j).
Definition XiT : M R := fun i x => sum m (fun k => z i k * Psi x k).
Definition kfitted : M R := mmul N XiT Psi.

Theorem kb_fitted i j : kfitted i j = mmul m z Gk i j.
Proof.
  unfold kfitted, mmul, XiT, Gk.
  transitivity (sum N (fun x => sum m (fun k => z i k * (Psi x k * Psi x j)))).
  - apply sum_ext; intros x _. rewrite <- sum_scal_r. apply sum_ext; intros k _. ring.
  - rewrite sum_swap. apply sum_ext; intros k _. rewrite <- sum_scal_l. reflexivity.
Qed.

Variables (y Pp : M R).
Hypothesis Hsolve : forall i j, (j < m)%nat -> mmul m z Gk i j = y i j.
Hypothesis Hpen : forall x j, mmul N (mmul m Psi Pp) Psi x j = Psi x j.

Theorem kb_exact i j : (j < m)%nat ->
  kfitted i j = y i j /\ mmul N (mmul m y Pp) Psi i j = y i j.
Proof.
  intros Hj. split; [rewrite kb_fitted; apply Hsolve; exact Hj|].
  transitivity (mmul N (mmul m kfitted Pp) Psi i j).
  - apply mmul_ext; intros x _; [|reflexivity].
    apply mmul_ext; intros k Hk; [|reflexivity]. rewrite kb_fitted. symmetry. apply Hsolve; exact Hk.
  - transitivity (mmul N (mmul N XiT (mmul m Psi Pp)) Psi i j).
    { apply mmul_ext; intros x _; [|reflexivity]. unfold kfitted. apply mmul_assoc. }
    rewrite (mmul_assoc N N XiT (mmul m Psi Pp) Psi).
    transitivity (mmul N XiT Psi i j).
    + apply mmul_ext; intros x _; [reflexivity|apply Hpen].
    + fold kfitted. rewrite kb_fitted. apply Hsolve; exact Hj.
Qed.

End Kernel.
