(* Value semantics of the remaining C01 operations. *)
From Coq Require Import ZArith List Lia Ring Arith Bool.
Import ListNotations.
Require Import Ring Sums Matrix Core Chain TTOps AddProof.

Section OpsProof.
Context {R : cring}.
Add Ring Rr6 : (cring_th R).
Open Scope cr_scope.
Notation core := (core R).

(* ---- scalar multiple, difference ---- *)
Lemma elem_smul (s : R) (cs : list core) xs ys :
  cs <> [] -> length xs = length cs -> length ys = length cs ->
  elem (smul s cs) xs ys = s * elem cs xs ys.
Proof. intros; unfold elem; apply chain_smul; assumption. Qed.

Lemma wf_smul (s : R) (cs : list core) : wf cs -> wf (smul s cs).
Proof. destruct cs as [|c cs]; [auto|]. intros (L & B). split; simpl in *; tauto. Qed.
Lemma length_smul (s : R) (cs : list core) : length (smul s cs) = length cs.
Proof. destruct cs; reflexivity. Qed.

Theorem elem_tsub (cs es : list core) xs ys :
  cs <> [] -> length es = length cs -> length xs = length cs -> length ys = length cs ->
  wf cs -> wf es ->
  elem (tsub cs es) xs ys = elem cs xs ys - elem es xs ys.
Proof.
  intros Hne He Hx Hy Wc We. unfold tsub.
  rewrite elem_tadd; try assumption; try (rewrite length_smul; assumption); [|apply wf_smul; assumption].
  rewrite elem_smul; try congruence.
  - ring.
  - intros ->. destruct cs; [congruence|discriminate].
Qed.

(* ---- transposition ---- *)
Fixpoint pick (sel : list bool) (a b : list nat) : list nat :=
  match sel, a, b with
  | s :: sel', x :: a', y :: b' => (if s then x else y) :: pick sel' a' b'
  | _, _, _ => b
  end.

(* transposing the selected cores (no conjugation) exchanges the selected row/column indices *)
Lemma chain_ttranspose (cs : list core) : forall sel xs ys i j,
  length sel = length cs -> length xs = length cs -> length ys = length cs ->
  chain (ttranspose false sel cs) xs ys i j = chain cs (pick sel ys xs) (pick sel xs ys) i j.
Proof.
  induction cs as [|c cs IH]; intros sel xs ys i j Hs Hx Hy.
  - destruct sel; reflexivity.
  - destruct sel as [|s sel]; [discriminate|]. destruct xs as [|x xs]; [discriminate|].
    destruct ys as [|y ys]; [discriminate|]. simpl in Hs, Hx, Hy.
    cbn [ttranspose pick chain]. destruct s.
    + cbn [rr trcore]. apply mmul_ext; intros k Hk; [reflexivity|]. apply IH; lia.
    + apply mmul_ext; intros k Hk; [reflexivity|]. apply IH; lia.
Qed.

Lemma ttranspose_all cj (cs : list core) :
  ttranspose cj (repeat true (length cs)) cs = map (trcore cj) cs.
Proof. induction cs as [|c cs IH]; simpl; [reflexivity|]. rewrite IH. reflexivity. Qed.

Theorem elem_transpose_all cj (cs : list core) xs ys : length xs = length ys ->
  elem (ttranspose cj (repeat true (length cs)) cs) xs ys =
  if cj then cconj R (elem cs ys xs) else elem cs ys xs.
Proof. intros H. rewrite ttranspose_all. unfold elem. apply chain_tr_all. exact H. Qed.

Theorem elem_tconj (cs : list core) xs ys : elem (tconj cs) xs ys = cconj R (elem cs xs ys).
Proof. unfold elem, tconj. apply chain_conj. Qed.

(* ---- norm(p=1): summing every core over its row index sums the tensor over all row indices ---- *)
Lemma chain_sumrows (cs : list core) : forall ys i j, length ys = length cs ->
  chain (map sumrows_core cs) (repeat 0%nat (length cs)) ys i j =
  msum (rows cs) (fun xs => chain cs xs ys i j).
Proof.
  unfold rows.
  induction cs as [|c cs IH]; intros ys i j Hy.
  - reflexivity.
  - destruct ys as [|y ys]; [discriminate|]. simpl in Hy.
    cbn [map length repeat chain msum]. unfold mmul. cbn [rr sumrows_core].
    erewrite sum_ext; cycle 1.
    { intros k _. rewrite IH by lia. unfold cmat at 1. cbn [g sumrows_core].
      rewrite <- sum_scal_r. reflexivity. }
    rewrite sum_swap. apply sum_ext; intros x _.
    erewrite sum_ext; cycle 1.
    { intros k _. rewrite <- msum_scal_l. reflexivity. }
    rewrite msum_sum. apply msum_ext; intros xs _. reflexivity.
Qed.

(* ---- rank-one trains: eye, unit ---- *)
Fixpoint rprod (l : list R) : R := match l with [] => 1 | a :: l' => a * rprod l' end.
Fixpoint entries (cs : list core) (xs ys : list nat) : list R :=
  match cs, xs, ys with
  | c :: cs', x :: xs', y :: ys' => g c 0%nat x y 0%nat :: entries cs' xs' ys'
  | _, _, _ => []
  end.
Lemma elem_rank_one (cs : list core) : forall xs ys,
  Forall (fun c => rr c = 1%nat) cs -> length xs = length cs -> length ys = length cs ->
  elem cs xs ys = rprod (entries cs xs ys).
Proof.
  unfold elem.
  induction cs as [|c cs IH]; intros xs ys HF Hx Hy.
  - simpl. unfold delta. simpl. reflexivity.
  - destruct xs as [|x xs]; [discriminate|]. destruct ys as [|y ys]; [discriminate|].
    inversion HF as [|? ? Hc HF']; subst. simpl in Hx, Hy.
    cbn [chain entries rprod]. unfold mmul. rewrite Hc. simpl.
    rewrite IH by (try assumption; lia). unfold cmat. ring.
Qed.

Definition dlt (a b : nat) : R := if Nat.eqb a b then 1 else 0.
Theorem elem_teye dims : forall xs ys, length xs = length dims -> length ys = length dims ->
  elem (teye dims) xs ys = rprod (map (fun p => dlt (fst p) (snd p)) (combine xs ys)).
Proof.
  intros xs ys Hx Hy. rewrite elem_rank_one.
  - f_equal. unfold teye. revert xs ys Hx Hy.
    induction dims as [|d dims IH]; intros [|x xs] [|y ys] Hx Hy; try discriminate; [reflexivity|].
    simpl in *. rewrite IH by lia. reflexivity.
  - unfold teye. apply Forall_forall. intros c Hc. apply in_map_iff in Hc. destruct Hc as (d & <- & _). reflexivity.
  - unfold teye. rewrite map_length. assumption.
  - unfold teye. rewrite map_length. assumption.
Qed.

Theorem elem_tunit dims inds : forall xs, length inds = length dims -> length xs = length dims ->
  elem (tunit dims inds) xs (repeat 0%nat (length dims)) =
  rprod (map (fun p => dlt (fst p) (snd p)) (combine xs inds)).
Proof.
  intros xs Hi Hx. rewrite elem_rank_one.
  - f_equal. unfold tunit. revert inds xs Hi Hx.
    induction dims as [|d dims IH]; intros [|k inds] [|x xs] Hi Hx; try discriminate; [reflexivity|].
    simpl in *. rewrite IH by lia. reflexivity.
  - unfold tunit. apply Forall_forall. intros c Hc. apply in_map_iff in Hc. destruct Hc as (d & <- & _). reflexivity.
  - unfold tunit. rewrite map_length, combine_length. lia.
  - unfold tunit. rewrite map_length, combine_length, repeat_length. lia.
Qed.

(* ---- zeros ---- *)
Lemma chain_zero_head (c : core) cs xs ys i j :
  (forall a x y b, g c a x y b = 0) -> length xs = S (length cs) -> length ys = S (length cs) ->
  chain (c :: cs) xs ys i j = 0.
Proof.
  intros Hz Hx Hy. destruct xs as [|x xs]; [discriminate|]. destruct ys as [|y ys]; [discriminate|].
  cbn [chain]. unfold mmul. apply sum_zero'. intros k _. unfold cmat. rewrite Hz. ring.
Qed.
Theorem elem_tzeros rs ms ns xs ys :
  @tzeros R rs ms ns <> [] -> length xs = length (@tzeros R rs ms ns) -> length ys = length (@tzeros R rs ms ns) ->
  elem (@tzeros R rs ms ns) xs ys = 0.
Proof.
  intros Hne Hx Hy. unfold elem. destruct (@tzeros R rs ms ns) as [|c cs] eqn:E; [congruence|].
  apply chain_zero_head; try assumption.
  unfold tzeros in E. destruct rs as [|r1 [|r2 rs]]; try discriminate.
  destruct ms as [|m ms]; try discriminate. destruct ns as [|n ns]; try discriminate.
  simpl in E. inversion E; subst. reflexivity.
Qed.
End OpsProof.
