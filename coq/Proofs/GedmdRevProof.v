(* C19, reversible branch: the contraction _contraction_step_dPsi_u with arbitrary cores evaluates
   sum over index tuples of  grad(prod psi_s)_x  times the core entries. *)
From Coq Require Import ZArith List Lia Ring Arith Bool.
Import ListNotations.
Require Import Ring Sums Matrix Core Chain Gedmd GedmdProof.

Section RevContraction.
Context {R : cring}.
Add Ring Rr39 : (cring_th R).
Open Scope cr_scope.
Variable d : nat.
Notation fjet := (@fjet R).
Notation ND := (1 + d)%nat.

(* state: value and gradient of the partial product *)
Definition dstate := (R * (nat -> R))%type.
Definition dstepS (s : dstate) (f : fjet) : dstate := let '(P, DP) := s in (P * fv f, fun x => P * fg f x + DP x * fv f).
Definition dunit : dstate := (1, fun _ => 0).
Definition dvec (s : dstate) (c : nat) : R := let '(P, DP) := s in if Nat.eqb c 0 then P else DP (c - 1)%nat.
Definition Dmat (f : fjet) (c0 c : nat) : R :=
  if Nat.eqb c0 0 then dcomp f c else (if Nat.eqb c c0 then fv f else 0).

Lemma sum_ND (h : nat -> R) : sum ND h = h 0%nat + sum d (fun k => h (1 + k)%nat).
Proof. rewrite sum_plus. cbn [sum]. ring. Qed.

Lemma Dmat_step (s : dstate) (f : fjet) c' : (c' < ND)%nat -> sum ND (fun c => dvec s c * Dmat f c c') = dvec (dstepS s f) c'.
Proof.
  intros Hc'. destruct s as [P DP]. rewrite sum_ND. unfold dvec, Dmat, dstepS, dcomp. cbn [Nat.eqb].
  destruct c' as [|k].
  - cbn [Nat.eqb]. rewrite sum_zero'; [ring|]. intros j _. cbn [Nat.add Nat.eqb]. ring.
  - cbn [Nat.eqb Nat.sub]. rewrite Nat.sub_0_r.
    rewrite (sum_ext d _ (fun j => if Nat.eqb j k then DP j * fv f else 0)).
    + rewrite (sum_single d k (fun j => DP j * fv f)) by lia. ring.
    + intros j _. cbn [Nat.add Nat.eqb Nat.sub]. rewrite Nat.sub_0_r. rewrite (Nat.eqb_sym k j). destruct (Nat.eqb j k); ring.
Qed.

Fixpoint Dprod (js : list fjet) : nat -> nat -> R :=
  match js with [] => delta | f :: js' => mmul ND (Dmat f) (Dprod js') end.
Lemma Dprod_fold : forall (js : list fjet) (s : dstate) c', (c' < ND)%nat ->
  sum ND (fun c => dvec s c * Dprod js c c') = dvec (fold_left dstepS js s) c'.
Proof.
  induction js as [|f js IH]; intros s c' Hc'.
  - cbn [Dprod fold_left]. unfold delta.
    rewrite (sum_ext ND _ (fun c => if Nat.eqb c c' then dvec s c else 0)) by (intros c _; destruct (Nat.eqb c c'); ring).
    apply (sum_single ND c' (dvec s)). exact Hc'.
  - cbn [Dprod fold_left]. rewrite <- (IH (dstepS s f) c' Hc'). unfold mmul.
    transitivity (sum ND (fun c1 => sum ND (fun c => dvec s c * Dmat f c c1) * Dprod js c1 c')).
    + erewrite sum_ext; [|intros c _; rewrite <- sum_scal_l; reflexivity].
      rewrite sum_swap. apply sum_ext; intros c1 _. rewrite <- sum_scal_r. apply sum_ext; intros c _. ring.
    + apply sum_ext; intros c1 Hc1. rewrite (Dmat_step s f c1 Hc1). reflexivity.
Qed.

Lemma dstep_mid_D (v : cvec) (jets : list fjet) (u : core R) c' r' : (c' < ND)%nat ->
  dstep_mid v jets u c' r' =
  sum (md u) (fun ii => sum (rl u) (fun r => sum ND (fun c => v c r * Dmat (nth ii jets dj) c c') * g u r ii 0%nat r')).
Proof.
  intros Hc'. unfold dstep_mid. apply sum_ext; intros ii _. cbn zeta. apply sum_ext; intros r _. f_equal.
  set (f := nth ii jets dj).
  set (sr := (v 0%nat r, fun x => v (x + 1)%nat r) : dstate).
  transitivity (dvec (dstepS sr f) c').
  - unfold dvec, sr, dstepS. destruct c' as [|k]; cbn [Nat.eqb Nat.sub]; try reflexivity.
    rewrite Nat.sub_0_r. replace (k + 1)%nat with (S k) by lia. reflexivity.
  - rewrite <- (Dmat_step sr f c' Hc'). apply sum_ext; intros c _. f_equal.
    unfold dvec, sr. destruct c as [|k]; cbn [Nat.eqb Nat.sub]; try reflexivity.
    rewrite Nat.sub_0_r. replace (k + 1)%nat with (S k) by lia. reflexivity.
Qed.

Fixpoint dcontract (v : cvec) (modes : list (@cmode R)) : cvec :=
  match modes with [] => v | m :: rest => dcontract (dstep_mid v (fst m) (snd m)) rest end.

Lemma bsw_2_3 n1 n2 m1 m2 m3 (F : nat -> nat -> nat -> nat -> nat -> R) :
  sum n1 (fun i1 => sum n2 (fun i2 => sum m1 (fun j1 => sum m2 (fun j2 => sum m3 (fun j3 => F i1 i2 j1 j2 j3))))) =
  sum m1 (fun j1 => sum m2 (fun j2 => sum m3 (fun j3 => sum n1 (fun i1 => sum n2 (fun i2 => F i1 i2 j1 j2 j3))))).
Proof.
  exact (msum_swap [n1; n2] [m1; m2; m3]
           (fun l1 l2 => match l1, l2 with [i1; i2], [j1; j2; j3] => F i1 i2 j1 j2 j3 | _, _ => 0 end)).
Qed.

Theorem dcontraction_general : forall (modes : list (@cmode R)) (v : cvec) fin c' r',
  linked (ucores modes) fin -> (c' < ND)%nat -> (r' < fin)%nat ->
  dcontract v modes c' r' =
  msum (nks modes) (fun ss => sum ND (fun c => sum (rl_of (ucores modes) fin) (fun r =>
     v c r * Dprod (select modes ss) c c' * chain (ucores modes) ss (zeros (length modes)) r r'))).
Proof.
  induction modes as [|[jets u] rest IH]; intros v fin c' r' HL Hc' Hr'.
  - cbn [dcontract nks map msum select ucores rl_of Dprod chain length zeros repeat]. unfold delta.
    rewrite (sum_ext ND _ (fun c => if Nat.eqb c c' then v c r' else 0)).
    + symmetry. apply (sum_single ND c' (fun c => v c r')). exact Hc'.
    + intros c _. destruct (Nat.eqb c c').
      * rewrite (sum_ext fin _ (fun r => if Nat.eqb r r' then v c r else 0)) by (intros r _; destruct (Nat.eqb r r'); ring).
        apply (sum_single fin r' (fun r => v c r)). exact Hr'.
      * apply sum_zero'; intros r _. ring.
  - cbn [ucores map linked snd] in HL. destruct HL as (Hpos & Hlk & HL). fold (ucores rest) in Hlk, HL.
    cbn [dcontract fst snd]. rewrite (IH _ fin c' r' HL Hc' Hr').
    cbn [nks map msum snd ucores rl_of length]. fold (nks rest) (ucores rest).
    change (zeros (S (length rest))) with (0%nat :: zeros (length rest)).
    rewrite <- Hlk.
    set (G := fun ii ss c r c1 r1 => v c r * Dmat (nth ii jets dj) c c1 * g u r ii 0%nat r1 *
                                     (Dprod (select rest ss) c1 c' * chain (ucores rest) ss (zeros (length rest)) r1 r')).
    transitivity (msum (nks rest) (fun ss => sum (md u) (fun ii => sum ND (fun c => sum (rl u) (fun r =>
                    sum ND (fun c1 => sum (rr u) (fun r1 => G ii ss c r c1 r1))))))).
    + apply msum_ext; intros ss _.
      transitivity (sum ND (fun c1 => sum (rr u) (fun r1 => sum (md u) (fun ii => sum (rl u) (fun r => sum ND (fun c => G ii ss c r c1 r1)))))).
      * apply sum_ext; intros c1 Hc1. apply sum_ext; intros r1 _.
        rewrite (dstep_mid_D v jets u c1 r1 Hc1).
        rewrite <- sum_scal_r, <- sum_scal_r. apply sum_ext; intros ii _.
        rewrite <- sum_scal_r, <- sum_scal_r. apply sum_ext; intros r _.
        rewrite <- sum_scal_r, <- sum_scal_r, <- sum_scal_r. apply sum_ext; intros c _. unfold G. ring.
      * rewrite bsw_2_3. apply sum_ext; intros ii _. rewrite sum_swap. reflexivity.
    + rewrite <- (msum_sum (nks rest) (md u) (fun ii ss => sum ND (fun c => sum (rl u) (fun r =>
                    sum ND (fun c1 => sum (rr u) (fun r1 => G ii ss c r c1 r1)))))).
      apply sum_ext; intros ii _. apply msum_ext; intros ss _.
      apply sum_ext; intros c _. apply sum_ext; intros r _.
      cbn [select fst Dprod chain]. unfold mmul, cmat.
      transitivity (v c r * (sum ND (fun c1 => Dmat (nth ii jets dj) c c1 * Dprod (select rest ss) c1 c') *
                             sum (rr u) (fun r1 => g u r ii 0%nat r1 * chain (ucores rest) ss (zeros (length rest)) r1 r'))); [|ring].
      rewrite <- sum_scal_r, <- sum_scal_l. apply sum_ext; intros c1 _.
      rewrite <- sum_scal_l, <- sum_scal_l. apply sum_ext; intros r1 _. unfold G. ring.
Qed.

(* gradient of a product: (grad prod psi)_x = sum_j (grad psi_j)_x prod_{l <> j} psi_l *)
Definition grad_prod (js : list fjet) (x : nat) : R := sum (length js) (fun j => fg (nth j js dj) x * pex (Nat.eqb j) 0 js).
Lemma grad_prod_snoc (js : list fjet) f x : grad_prod (js ++ [f]) x = pall js * fg f x + grad_prod js x * fv f.
Proof.
  unfold grad_prod. rewrite app_length. cbn [length]. rewrite Nat.add_1_r. cbn [sum].
  rewrite nth_snoc_eq, pex_snoc_eq.
  rewrite (sum_ext (length js) _ (fun j => fg (nth j js dj) x * pex (Nat.eqb j) 0 js * fv f)).
  - rewrite sum_scal_r. ring.
  - intros j Hj. rewrite nth_snoc_lt, pex_snoc_lt by exact Hj. ring.
Qed.
Lemma dfold_closed (js : list fjet) :
  let '(P, DP) := fold_left dstepS js dunit in P = pall js /\ forall x, DP x = grad_prod js x.
Proof.
  induction js as [|f js IH] using rev_ind.
  - cbn. unfold pall, grad_prod. cbn. split; reflexivity.
  - rewrite fold_left_app. cbn [fold_left].
    destruct (fold_left dstepS js dunit) as [P DP]. destruct IH as (HP & HD). cbn [dstepS]. split.
    + rewrite pall_snoc, HP. reflexivity.
    + intros x. rewrite grad_prod_snoc, HP, HD. reflexivity.
Qed.

Definition dvunit : cvec := fun c _ => dvec dunit c.
Theorem dcontraction_is_sum (modes : list (@cmode R)) fin x r' :
  linked (ucores modes) fin -> rl_of (ucores modes) fin = 1%nat -> (x < d)%nat -> (r' < fin)%nat ->
  dcontract dvunit modes (1 + x)%nat r' =
  msum (nks modes) (fun ss => grad_prod (select modes ss) x * chain (ucores modes) ss (zeros (length modes)) 0%nat r').
Proof.
  intros HL H1 Hx Hr'. rewrite (dcontraction_general modes dvunit fin (1 + x)%nat r' HL) by (try assumption; lia).
  apply msum_ext; intros ss _. rewrite H1.
  rewrite (sum_ext ND _ (fun c => dvec dunit c * Dprod (select modes ss) c (1 + x)%nat * chain (ucores modes) ss (zeros (length modes)) 0%nat r')).
  - rewrite sum_scal_r. rewrite (Dprod_fold (select modes ss) dunit (1 + x)%nat) by lia.
    pose proof (dfold_closed (select modes ss)) as HT.
    destruct (fold_left dstepS (select modes ss) dunit) as [P DP]. destruct HT as (_ & HD).
    unfold dvec. cbn [Nat.add Nat.eqb Nat.sub]. rewrite Nat.sub_0_r, HD. reflexivity.
  - intros c _. cbn [sum]. unfold dvunit. ring.
Qed.
End RevContraction.

Section RevFirst.
Context {R : cring}.
Add Ring Rr40 : (cring_th R).
Open Scope cr_scope.
Lemma dstep_first_unit (jets : list (@fjet R)) (u : core R) c r' : rl u = 1%nat ->
  dstep_first jets u c r' = dstep_mid (fun c0 _ => dvec dunit c0) jets u c r'.
Proof.
  intros H1. unfold dstep_first, dstep_mid. apply sum_ext; intros ii _. cbn zeta. rewrite H1. cbn [sum].
  unfold dvec, dunit, dcomp. cbn [Nat.eqb].
  destruct c as [|k]; cbn [Nat.eqb Nat.sub]; ring.
Qed.
End RevFirst.
