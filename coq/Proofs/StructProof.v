(* C02: value semantics of the structural operations. *)
From Coq Require Import ZArith List Lia Ring Arith Bool.
Import ListNotations.
Require Import Ring Sums Matrix Core Chain Sweep Structure SweepProof.

Section StructProof.
Context {R : cring}.
Add Ring Rr8 : (cring_th R).
Open Scope cr_scope.
Notation core := (core R).

(* ---------- chains and snoc ---------- *)
Lemma chain_snoc (cs : list core) : forall (c : core) xs ys x y i j fin,
  length xs = length cs -> length ys = length cs -> linked (cs ++ [c]) fin -> (j < fin)%nat ->
  chain (cs ++ [c]) (xs ++ [x]) (ys ++ [y]) i j =
  match cs with [] => g c i x y j | _ => sum (rl c) (fun k => chain cs xs ys i k * g c k x y j) end.
Proof.
  induction cs as [|c0 cs IH]; intros c xs ys x y i j fin Hx Hy HL Hj.
  - destruct xs; [|discriminate]. destruct ys; [|discriminate]. simpl in HL. destruct HL as (P & E & _).
    cbn [app chain]. simpl in E. rewrite E. apply (mmul_delta_r fin (cmat c x y)). exact Hj.
  - destruct xs as [|x0 xs]; [discriminate|]. destruct ys as [|y0 ys]; [discriminate|].
    simpl in Hx, Hy. destruct HL as (P0 & E0 & HL).
    cbn [app chain]. unfold mmul at 1.
    erewrite sum_ext; cycle 1.
    { intros k Hk. rewrite (IH c xs ys x y k j fin) by (auto; lia). reflexivity. }
    destruct cs as [|c1 cs].
    + destruct xs; [|discriminate]. destruct ys; [|discriminate].
      simpl in E0. rewrite <- E0. cbn [chain]. apply sum_ext; intros k Hk. f_equal.
      symmetry. apply (mmul_delta_r (rr c0) (cmat c0 x0 y0)). exact Hk.
    + cbn [chain]. unfold mmul.
      erewrite sum_ext; [|intros k _; rewrite <- sum_scal_l; reflexivity].
      rewrite sum_swap. apply sum_ext; intros q _. rewrite <- sum_scal_r.
      apply sum_ext; intros k _. ring.
Qed.

Lemma chain_snoc_ne (cs : list core) (c : core) xs ys x y i j fin :
  cs <> [] -> length xs = length cs -> length ys = length cs -> linked (cs ++ [c]) fin -> (j < fin)%nat ->
  chain (cs ++ [c]) (xs ++ [x]) (ys ++ [y]) i j = sum (rl c) (fun k => chain cs xs ys i k * g c k x y j).
Proof. intros Hne Hx Hy HL Hj. rewrite (chain_snoc cs c xs ys x y i j fin) by assumption. destruct cs; [congruence|reflexivity]. Qed.

Lemma linked_last (cs : list core) : forall c fin, linked (cs ++ [c]) fin -> rr c = fin /\ (0 < fin)%nat.
Proof.
  induction cs as [|c0 cs IH]; intros c fin HL.
  - simpl in HL. destruct HL as (P & E & _). simpl in E. lia.
  - simpl in HL. destruct HL as (_ & _ & HL). apply IH. exact HL.
Qed.

(* ---------- rank_transpose ---------- *)
Lemma linked_rev_rt (cs : list core) : forall fin ini,
  linked cs fin -> rl_of cs fin = ini -> (0 < ini)%nat ->
  linked (rev (map rtcore cs)) ini /\ rl_of (rev (map rtcore cs)) ini = fin.
Proof.
  induction cs as [|c cs IH]; intros fin ini HL Hini Hp.
  - simpl in *. subst. split; [exact I|reflexivity].
  - destruct HL as (P & E & HL). simpl in Hini. subst ini.
    destruct (IH fin (rr c) HL (eq_sym E) P) as (L & B).
    cbn [map rev]. split.
    + apply linked_app. cbn [rl_of rtcore rl]. split; [exact L|].
      cbn [linked rtcore rr rl_of]. repeat split; auto.
    + destruct (rev (map rtcore cs)) eqn:Er; simpl in *; assumption.
Qed.

Theorem chain_rank_transpose (cs : list core) : forall xs ys i j fin,
  length xs = length cs -> length ys = length cs -> linked cs fin ->
  (i < rl_of cs fin)%nat -> (j < fin)%nat ->
  chain (rank_transpose cs) (rev xs) (rev ys) j i = chain cs xs ys i j.
Proof.
  unfold rank_transpose.
  induction cs as [|c cs IH]; intros xs ys i j fin Hx Hy HL Hi Hj.
  - destruct xs; [|discriminate]. destruct ys; [|discriminate]. simpl. apply delta_sym.
  - destruct xs as [|x xs]; [discriminate|]. destruct ys as [|y ys]; [discriminate|].
    simpl in Hx, Hy. pose proof HL as HL0. destruct HL as (P & E & HL).
    cbn [map rev]. simpl in Hi.
    destruct (linked_rev_rt cs fin (rr c) HL (eq_sym E) P) as (L & B).
    destruct cs as [|c1 cs].
    + destruct xs; [|discriminate]. destruct ys; [|discriminate]. simpl in E.
      cbn [map rev app chain]. rewrite <- E in Hj.
      rewrite (mmul_delta_r (rl c) (cmat (rtcore c) x y)) by exact Hi.
      rewrite (mmul_delta_r (rr c) (cmat c x y)) by exact Hj. reflexivity.
    + assert (Hne : rev (map rtcore (c1 :: cs)) <> []).
      { simpl. intros H0. apply app_eq_nil in H0. destruct H0; discriminate. }
      rewrite (chain_snoc_ne (rev (map rtcore (c1 :: cs))) (rtcore c) (rev xs) (rev ys) x y j i (rl c)); try assumption.
      * cbn [rl rtcore g].
        change (chain (c :: c1 :: cs) (x :: xs) (y :: ys) i j)
          with (mmul (rr c) (cmat c x y) (chain (c1 :: cs) xs ys) i j).
        unfold mmul. apply sum_ext; intros k Hk.
        rewrite (IH xs ys k j fin) by (try assumption; try lia; rewrite <- E; exact Hk).
        unfold cmat; ring.
      * rewrite !rev_length, map_length. simpl in *; lia.
      * rewrite !rev_length, map_length. simpl in *; lia.
      * apply linked_app. cbn [rl_of rtcore rl linked rr]. split; [exact L|]. repeat split; auto. lia.
Qed.

(* ---------- concatenate ---------- *)
Theorem chain_concatenate (cs ds : list core) xs1 ys1 xs2 ys2 fin i j :
  cs <> [] -> length xs1 = length cs -> length ys1 = length cs -> linked cs fin -> fin = rl_of ds fin ->
  chain (concatenate cs ds) (xs1 ++ xs2) (ys1 ++ ys2) i j =
  mmul fin (chain cs xs1 ys1) (chain ds xs2 ys2) i j.
Proof.
  intros Hne Hx Hy HL Hf. unfold concatenate.
  rewrite (chain_app cs ds xs1 ys1 xs2 ys2 fin) by assumption.
  destruct cs; [congruence|reflexivity].
Qed.

(* ---------- rank_tensordot ---------- *)
Lemma cmat_core_mat (c : core) n Mat x y i j :
  cmat (core_mat c n Mat) x y i j = mmul (rr c) (cmat c x y) Mat i j.
Proof. reflexivity. Qed.

Theorem chain_rank_tensordot_last (cs : list core) (c : core) n Mat xs ys x y i j :
  length xs = length cs -> length ys = length cs -> linked (cs ++ [c]) (rr c) -> (j < n)%nat -> (0 < n)%nat ->
  chain (rank_tensordot_last (cs ++ [c]) n Mat) (xs ++ [x]) (ys ++ [y]) i j =
  sum (rr c) (fun q => chain (cs ++ [c]) (xs ++ [x]) (ys ++ [y]) i q * Mat q j).
Proof.
  intros Hx Hy HL Hj Hn. unfold rank_tensordot_last. rewrite rev_app_distr. cbn [rev app]. rewrite rev_involutive.
  assert (HL' : linked (cs ++ [core_mat c n Mat]) n).
  { apply linked_app in HL. destruct HL as (L1 & L2). apply linked_app. cbn [rl_of core_mat rl]. split; [exact L1|].
    cbn [linked core_mat rr rl_of]. auto. }
  rewrite (chain_snoc cs (core_mat c n Mat) xs ys x y i j n) by assumption.
  rewrite (sum_ext (rr c) _ (fun q => match cs with [] => g c i x y q
                                     | _ => sum (rl c) (fun k => chain cs xs ys i k * g c k x y q) end * Mat q j)).
  2:{ intros q Hq. rewrite (chain_snoc cs c xs ys x y i q (rr c)); auto. }
  destruct cs as [|c0 cs].
  - cbn [g core_mat]. reflexivity.
  - cbn [rl core_mat g].
    erewrite sum_ext; [|intros k _; rewrite <- sum_scal_l; reflexivity].
    rewrite sum_swap. apply sum_ext; intros q _. rewrite <- sum_scal_r. apply sum_ext; intros k _. ring.
Qed.

(* ---------- diag ---------- *)
Fixpoint diag_ok (sel : list bool) (xs ys : list nat) : bool :=
  match sel, xs, ys with
  | s :: sel', x :: xs', y :: ys' => (if s then Nat.eqb x y else true) && diag_ok sel' xs' ys'
  | _, _, _ => true
  end.
Fixpoint diag_cols (sel : list bool) (ys : list nat) : list nat :=
  match sel, ys with
  | s :: sel', y :: ys' => (if s then 0%nat else y) :: diag_cols sel' ys'
  | _, _ => ys
  end.
Theorem chain_tdiag (cs : list core) : forall sel xs ys i j,
  length sel = length cs -> length xs = length cs -> length ys = length cs ->
  chain (tdiag sel cs) xs ys i j =
  if diag_ok sel xs ys then chain cs xs (diag_cols sel ys) i j else 0.
Proof.
  induction cs as [|c cs IH]; intros sel xs ys i j Hs Hx Hy.
  - destruct sel; [|discriminate]. reflexivity.
  - destruct sel as [|s sel]; [discriminate|]. destruct xs as [|x xs]; [discriminate|].
    destruct ys as [|y ys]; [discriminate|]. simpl in Hs, Hx, Hy.
    cbn [tdiag diag_ok diag_cols chain]. destruct s.
    + cbn [rr diagcore]. unfold mmul. destruct (Nat.eqb x y) eqn:E; cbn [andb].
      * destruct (diag_ok sel xs ys) eqn:D.
        -- apply sum_ext; intros k _. rewrite IH by lia. rewrite D. unfold cmat; cbn [g diagcore]. rewrite E. reflexivity.
        -- apply sum_zero'. intros k _. rewrite IH by lia. rewrite D. ring.
      * apply sum_zero'. intros k _. unfold cmat; cbn [g diagcore]. rewrite E. ring.
    + cbn [andb]. unfold mmul. destruct (diag_ok sel xs ys) eqn:D.
      * apply sum_ext; intros k _. rewrite IH by lia. rewrite D. reflexivity.
      * apply sum_zero'. intros k _. rewrite IH by lia. rewrite D. ring.
Qed.

(* ---------- qtt2tt: merging two neighbouring cores ---------- *)
Theorem cmat_mergecore (c d : core) x1 x2 y1 y2 i j :
  (x2 < md d)%nat -> (y2 < nd d)%nat ->
  cmat (mergecore c d) (x1 * md d + x2) (y1 * nd d + y2) i j =
  mmul (rr c) (cmat c x1 y1) (cmat d x2 y2) i j.
Proof.
  intros Hx Hy. unfold cmat, mmul. cbn [g mergecore].
  rewrite !div_mod_unique_l, !div_mod_unique_r by assumption. reflexivity.
Qed.

(* ---------- tt2qtt: one split step followed by the merge of qtt2tt is the identity ---------- *)
Theorem split_merge_value idx (a : svd_ans R) (c : core) mj nj X Y i j :
  let rd := (md c / mj)%nat in let cd := (nd c / nj)%nat in
  svd_value idx (rl c * mj * nj) (rd * cd * rr c) (split_unfold c mj nj) a ->
  (0 < rd)%nat -> (0 < cd)%nat -> (X < mj * rd)%nat -> (Y < nj * cd)%nat -> (i < rl c)%nat -> (j < rr c)%nat ->
  cmat (mergecore (fst (split_step idx a c mj nj)) (snd (split_step idx a c mj nj))) X Y i j = g c i X Y j.
Proof.
  intros rd cd Hv Hrd Hcd HX HY Hi Hj.
  unfold cmat. cbn [mergecore split_step fst snd g md nd rr]. fold rd cd.
  assert (Hxj : (X / rd < mj)%nat) by (apply Nat.div_lt_upper_bound; lia).
  assert (Hyj : (Y / cd < nj)%nat) by (apply Nat.div_lt_upper_bound; lia).
  assert (Hxr : (X mod rd < rd)%nat) by (apply Nat.mod_upper_bound; lia).
  assert (Hyr : (Y mod cd < cd)%nat) by (apply Nat.mod_upper_bound; lia).
  transitivity (split_unfold c mj nj (flat mj nj i (X / rd) (Y / cd)) (flat cd (rr c) (X mod rd) (Y mod cd) j)).
  - rewrite <- Hv.
    + apply sum_ext; intros p _. ring.
    + apply flat_lt; assumption.
    + apply flat_lt; assumption.
  - unfold split_unfold. fold rd cd.
    destruct (unflat mj nj i (X / rd) (Y / cd) Hxj Hyj) as (E1 & E2 & E3).
    destruct (unflat cd (rr c) (X mod rd) (Y mod cd) j Hyr Hj) as (F1 & F2 & F3).
    rewrite E1, E2, E3, F1, F2, F3.
    replace (X / rd * rd + X mod rd)%nat with X by (rewrite (Nat.div_mod X rd) at 1 by lia; lia).
    replace (Y / cd * cd + Y mod cd)%nat with Y by (rewrite (Nat.div_mod Y cd) at 1 by lia; lia).
    reflexivity.
Qed.
End StructProof.
