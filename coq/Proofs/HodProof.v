(* C09: one higher-order-differencing step before re-orthonormalisation is the dense recurrence
   x_{k+1} = x_{k-1} + op_hod x_k, entry by entry. *)
From Coq Require Import ZArith List Lia Ring Arith Bool.
Import ListNotations.
Require Import Ring Sums Matrix Core Chain TTOps AddProof OpsProof Sweep Ode OdeProof.

Section Hod.
Context {R : cring}.
Add Ring Rr41 : (cring_th R).
Open Scope cr_scope.
Notation core := (core R).

Lemma wf_tmul (cs ds : list core) : length ds = length cs -> cs <> [] -> wf cs -> wf ds -> wf (tmul cs ds).
Proof.
  intros Hl Hne (L1 & B1) (L2 & B2). split.
  - replace 1%nat with (1 * 1)%nat by reflexivity. apply linked_tmul; assumption.
  - destruct cs as [|c cs]; [congruence|]. destruct ds as [|dd ds]; [discriminate|].
    cbn in *. rewrite B1, B2. reflexivity.
Qed.

Theorem hod_step_dense (op xprev x : list core) xs zs :
  xprev <> [] -> op <> [] -> length op = length xprev -> length x = length xprev ->
  length xs = length xprev -> length zs = length xprev ->
  wf xprev -> wf op -> wf x ->
  elem (hod_step_raw op xprev x) xs zs = elem xprev xs zs + msum (cols op) (fun ys => elem op xs ys * elem x ys zs).
Proof.
  intros Hne Hno Ho Hx Hxs Hzs Wp Wo Wx. unfold hod_step_raw.
  assert (Hlen : length (tmul op x) = length xprev).
  { unfold tmul. rewrite map_length, combine_length. lia. }
  rewrite elem_tadd; try assumption.
  - f_equal. apply elem_tmul; try lia. + apply Wx. + destruct Wx as (_ & B). destruct x; cbn in *; lia.
  - apply wf_tmul; try assumption. lia.
Qed.

(* C01: the tensor inside residual_error, (A @ x) - b, entry by entry (the code then takes norm(p=2) of it and of b) *)
Theorem residual_dense (A x b : list core) xs zs :
  A <> [] -> length x = length A -> length b = length A -> length xs = length A -> length zs = length A ->
  wf A -> wf x -> wf b ->
  elem (tsub (tmul A x) b) xs zs = msum (cols A) (fun ys => elem A xs ys * elem x ys zs) - elem b xs zs.
Proof.
  intros Hne Hx Hb Hxs Hzs WA Wx Wb.
  assert (Hlen : length (tmul A x) = length A).
  { unfold tmul. rewrite map_length, combine_length. lia. }
  rewrite elem_tsub; try (rewrite ?Hlen; assumption).
  - f_equal. apply elem_tmul; try lia. + apply Wx. + destruct Wx as (_ & B). destruct x; cbn in *; lia.
  - intros E. apply Hne. destruct A; [reflexivity|]. rewrite E in Hlen. discriminate.
  - apply wf_tmul; assumption.
Qed.

End Hod.
