(* C10: a whole step.  A step of a splitting scheme is a sequence of stages (each with its own propagators Ks, parity and
   SVD answers); by StageProof.stage_value every stage applies the tensor product of its local propagators to the train, so
   the step applies the ORDERED PRODUCT of the stage operators (first stage rightmost).  The shape invariants needed to
   chain the stages (row dimensions, linked ranks, left rank) are proved here as well. *)
From Coq Require Import ZArith List Lia Ring Arith Bool.
Import ListNotations.
Require Import Ring Sums Matrix Core Chain Sweep Splitting StageProof.

Section StepProof.
Context {R : cring}.
Add Ring Rr44 : (cring_th R).
Open Scope cr_scope.
Notation core := (core R).
Notation svd_ans := (svd_ans R).

(* every SVD answer consumed by the stage keeps at least one singular triplet (ranks stay positive) *)
Fixpoint stage_pos (thr : option (R -> R -> bool)) (maxr : option nat) (even : bool)
         (fuel pos : nat) (answers : list svd_ans) (cs : list core) : Prop :=
  match fuel with
  | O => True
  | S fuel' =>
      match cs with
      | c :: ((c1 :: rest) as tl) =>
          if parity_ok even pos then
            match answers with
            | a :: as' => select thr maxr a <> [] /\ stage_pos thr maxr even fuel' (S (S pos)) as' rest
            | [] => False
            end
          else stage_pos thr maxr even fuel' (S pos) answers tl
      | _ => True
      end
  end.

Lemma stage_shape thr maxr Ks even : forall fuel pos answers (cs : list core) fin,
  stage_hyp thr maxr Ks even fuel pos answers cs -> stage_pos thr maxr even fuel pos answers cs -> linked cs fin ->
  rows (stage_cores thr maxr Ks even fuel pos answers cs) = rows cs /\
  linked (stage_cores thr maxr Ks even fuel pos answers cs) fin /\
  rl_of (stage_cores thr maxr Ks even fuel pos answers cs) fin = rl_of cs fin.
Proof.
  unfold stage_cores. induction fuel as [|fuel IH]; intros pos answers cs fin Hh Hp HL; [cbn [stage fst]; auto|].
  cbn [stage]. destruct cs as [|c [|c1 rest]].
  - cbn [fst]. auto.
  - destruct (parity_ok even pos); cbn [fst]; [|auto].
    cbn [linked rl_of] in HL. destruct HL as (H1 & H2 & _).
    cbn [rows map linked rl_of last_step md rr rl]. auto.
  - cbn [stage_hyp stage_pos] in Hh, Hp. cbn [linked] in HL. destruct HL as (Hp0 & Hlk & Hp1 & Hlk1 & HL). cbn [rl_of] in Hlk.
    destruct (parity_ok even pos).
    + destruct answers as [|a as']; [contradiction|]. destruct Hh as [_ Hh]. destruct Hp as [Hne Hp].
      specialize (IH (S (S pos)) as' rest fin Hh Hp HL).
      destruct (stage thr maxr Ks even fuel (S (S pos)) as' rest) as [[out rem] log]. cbn [fst] in *.
      destruct IH as (IH1 & IH2 & IH3).
      cbn [rows map linked rl_of pair_step fst snd md rr rl]. fold (rows out). fold (rows rest).
      assert (Hlen : (0 < length (select thr maxr a))%nat) by (destruct (select thr maxr a); [congruence|cbn; lia]).
      repeat split; try assumption; try reflexivity.
      * rewrite IH1. reflexivity.
      * rewrite IH3. exact Hlk1.
    + specialize (IH (S pos) answers (c1 :: rest) fin Hh Hp (conj Hp1 (conj Hlk1 HL))).
      destruct (stage thr maxr Ks even fuel (S pos) answers (c1 :: rest)) as [[out rem] log]. cbn [fst] in *.
      destruct IH as (IH1 & IH2 & IH3).
      cbn [rows map linked rl_of]. fold (rows out). repeat split; try assumption.
      * rewrite IH1. reflexivity.
      * rewrite IH3. exact Hlk.
Qed.

(* multi-index Kronecker delta *)
Fixpoint mdelta (xs ys : list nat) : R :=
  match xs, ys with
  | [], [] => 1
  | x :: xs', y :: ys' => delta x y * mdelta xs' ys'
  | _, _ => 0
  end.
Lemma msum_mdelta dims : forall xs (f : list nat -> R), below xs dims -> msum dims (fun ys => mdelta xs ys * f ys) = f xs.
Proof.
  induction dims as [|n ns IH]; intros xs f Hx.
  - destruct xs; [|cbn in Hx; tauto]. cbn [msum mdelta]. ring.
  - destruct xs as [|x xs]; [cbn in Hx; tauto|]. cbn [below] in Hx. destruct Hx as [Hx Hxs]. cbn [msum mdelta].
    rewrite (sum_ext n _ (fun y => if Nat.eqb y x then f (x :: xs) else 0)).
    + apply (sum_single n x (fun _ => f (x :: xs))). exact Hx.
    + intros y _. unfold delta. rewrite (Nat.eqb_sym x y). destruct (Nat.eqb y x) eqn:E.
      * apply Nat.eqb_eq in E. subst y.
        rewrite (msum_ext ns _ (fun ys => mdelta xs ys * f (x :: ys))) by (intros; ring).
        apply (IH xs (fun ys => f (x :: ys)) Hxs).
      * rewrite (msum_ext ns _ (fun _ => 0)) by (intros; ring). clear. induction ns as [|m ms IHm]; cbn [msum]; [reflexivity|].
        apply sum_zero'. intros _ _. exact IHm.
Qed.

(* a step: stages applied one after the other, each starting at position 0 with the same fuel *)
Definition stage_desc := (list (M R) * bool * list svd_ans)%type.
Fixpoint run_step thr maxr (fuel : nat) (sts : list stage_desc) (cs : list core) : list core :=
  match sts with
  | [] => cs
  | (Ks, ev, ans) :: rest => run_step thr maxr fuel rest (stage_cores thr maxr Ks ev fuel 0 ans cs)
  end.
Fixpoint step_hyp thr maxr (fuel : nat) (sts : list stage_desc) (cs : list core) : Prop :=
  match sts with
  | [] => True
  | (Ks, ev, ans) :: rest =>
      stage_hyp thr maxr Ks ev fuel 0 ans cs /\ stage_pos thr maxr ev fuel 0 ans cs /\
      step_hyp thr maxr fuel rest (stage_cores thr maxr Ks ev fuel 0 ans cs)
  end.
(* the dense operator of the step: later stages multiply from the left *)
Fixpoint Wstep (fuel : nat) (sts : list stage_desc) (dims xs ys : list nat) : R :=
  match sts with
  | [] => mdelta xs ys
  | (Ks, ev, _) :: rest => msum dims (fun zs => Wstep fuel rest dims xs zs * Wst Ks ev fuel 0 dims zs ys)
  end.

Theorem step_value thr maxr fuel : forall (sts : list stage_desc) (cs : list core) xs a b fin,
  (length cs < fuel)%nat -> step_hyp thr maxr fuel sts cs ->
  linked cs fin -> below xs (rows cs) -> (a < rl_of cs fin)%nat -> (b < fin)%nat ->
  chain (run_step thr maxr fuel sts cs) xs (zeros (length cs)) a b =
  msum (rows cs) (fun ys => Wstep fuel sts (rows cs) xs ys * chain cs ys (zeros (length cs)) a b).
Proof.
  induction sts as [|[[Ks ev] ans] rest IH]; intros cs xs a b fin Hf Hh HL Hx Ha Hb.
  - cbn [run_step Wstep]. symmetry. apply (msum_mdelta (rows cs) xs (fun ys => chain cs ys (zeros (length cs)) a b) Hx).
  - cbn [run_step Wstep step_hyp] in *. destruct Hh as (Hh1 & Hp1 & Hh).
    destruct (stage_shape thr maxr Ks ev fuel 0 ans cs fin Hh1 Hp1 HL) as (Hrows & HL1 & Hrl).
    pose proof (stage_len thr maxr Ks ev fuel 0 ans cs Hh1) as Hlen.
    set (cs1 := stage_cores thr maxr Ks ev fuel 0 ans cs) in *.
    rewrite <- Hlen at 1.
    rewrite (IH cs1 xs a b fin) by (try assumption; rewrite ?Hlen, ?Hrows, ?Hrl; assumption).
    rewrite Hrows, Hlen.
    transitivity (msum (rows cs) (fun zs => msum (rows cs) (fun ys =>
                   (Wstep fuel rest (rows cs) xs zs * Wst Ks ev fuel 0 (rows cs) zs ys) * chain cs ys (zeros (length cs)) a b))).
    + apply msum_ext; intros zs Hzs.
      unfold cs1. rewrite (stage_value thr maxr Ks ev fuel 0 ans cs zs a b fin Hf Hh1 HL Hzs Ha Hb).
      rewrite <- msum_scal_l. apply msum_ext; intros ys _. ring.
    + rewrite msum_swap. apply msum_ext; intros ys _. rewrite <- msum_scal_r. reflexivity.
Qed.

End StepProof.
