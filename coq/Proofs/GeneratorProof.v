(* Column sums of the SLIM pattern: if every single-site block S_i and every left-coupling block M_i[p]
   has vanishing column sums, the operator the pattern denotes has vanishing column sums
   (Markov generator, first half), for every order, cell sizes, bond ranks, open or cyclic. *)
From Coq Require Import ZArith List Lia Ring Arith Bool.
Import ListNotations.
Require Import Ring Sums Matrix Core Chain Sweep Slim SlimProof.

Section Gen.
Context {R : cring}.
Add Ring Rr22 : (cring_th R).
Open Scope cr_scope.
Notation site := (site R).

Definition csum (d : nat) (A : M R) (y : nat) : R := sum d (fun x => A x y).
Definition dimsof (ss : list site) : list nat := map (@sdim R) ss.

Lemma msum_idp : forall dims ys, below ys dims -> msum dims (fun xs => idp xs ys) = (1 : R).
Proof.
  induction dims as [|n ns IH]; intros [|y ys] H; cbn in H; try tauto; try reflexivity.
  - destruct H as [Hy Hb]. cbn [msum].
    rewrite (sum_ext n _ (fun x => if Nat.eqb x y then 1 else 0)).
    + apply (sum_single n y (fun _ => 1)). exact Hy.
    + intros x _. cbn [idp]. rewrite msum_scal_l, (IH ys Hb). unfold ind. destruct (Nat.eqb x y); ring.
Qed.

Lemma msum_hd_idp n ns (A : M R) y ys : below ys ns ->
  msum (n :: ns) (fun xs => A (hd 0%nat xs) y * idp (tl xs) ys) = csum n A y.
Proof.
  intros Hb. cbn [msum]. unfold csum. apply sum_ext; intros x _. cbn [hd tl].
  rewrite msum_scal_l, (msum_idp ns ys Hb). ring.
Qed.

Definition Szero (ss : list site) : Prop := Forall (fun s => forall y, (y < sdim s)%nat -> csum (sdim s) (sS s) y = 0) ss.
Fixpoint Mzero (ss : list site) : Prop :=
  match ss with
  | s :: ((s' :: _) as rest) => (forall p y, (p < lr s)%nat -> (y < sdim s')%nat -> csum (sdim s') (sM s' p) y = 0) /\ Mzero rest
  | _ => True
  end.

Lemma Tsum_colsum : forall (ss : list site) ys, below ys (dimsof ss) -> Szero ss -> Mzero ss ->
  msum (dimsof ss) (fun xs => Tsum ss xs ys) = 0.
Proof.
  induction ss as [|s rest IH]; intros ys Hb HS HM.
  - destruct ys; cbn in *; try tauto; reflexivity.
  - destruct ys as [|y ys]; cbn [dimsof map below] in Hb; [tauto|]. destruct Hb as [Hy Hb]. change (below ys (dimsof rest)) in Hb.
    inversion HS as [|? ? HS0 HSr]; subst.
    change (dimsof (s :: rest)) with (sdim s :: dimsof rest). cbn [msum].
    assert (Hrest : msum (dimsof rest) (fun xs' => Tsum rest xs' ys) = 0).
    { apply IH; try assumption. destruct rest as [|s' r']; [exact I|]. cbn [Mzero] in HM. destruct r'; [exact I|]. apply HM. }
    assert (Hmid : forall x, msum (dimsof rest) (fun xs' =>
              match rest with
              | s' :: _ => sum (lr s) (fun p => sL s p x y * sM s' p (hd 0%nat xs') (hd 0%nat ys)) * idp (tl xs') (tl ys)
              | [] => 0
              end) = 0).
    { intros x. destruct rest as [|s' r'].
      - cbn [dimsof map msum]. reflexivity.
      - destruct ys as [|y1 ys1]; [cbn in Hb; tauto|]. cbn [dimsof map below] in Hb. destruct Hb as [Hy1 Hb1].
        cbn [hd tl]. change (dimsof (s' :: r')) with (sdim s' :: dimsof r').
        rewrite (msum_ext (sdim s' :: dimsof r') _
                  (fun xs' => sum (lr s) (fun p => sL s p x y * (sM s' p (hd 0%nat xs') y1 * idp (tl xs') ys1)))).
        2:{ intros xs' _. rewrite <- sum_scal_r. apply sum_ext; intros p _. ring. }
        rewrite <- (msum_sum _ (lr s) (fun p xs' => sL s p x y * (sM s' p (hd 0%nat xs') y1 * idp (tl xs') ys1))). apply sum_zero'; intros p Hp.
        rewrite msum_scal_l. rewrite (msum_hd_idp (sdim s') (dimsof r') (sM s' p) y1 ys1 Hb1).
        cbn [Mzero] in HM. destruct HM as [HM0 _]. rewrite (HM0 p y1 Hp Hy1). ring. }
    rewrite (sum_ext (sdim s) _ (fun x => sS s x y)).
    + apply (HS0 y Hy).
    + intros x _. cbn [Tsum].
      rewrite msum_add, msum_add, msum_scal_l, msum_scal_l, (msum_idp _ ys Hb), Hrest, (Hmid x). ring.
Qed.

(* the whole operator: Tsum plus the cyclic coupling *)
Theorem slim_pattern_colsum rc (s0 s1 : site) rest ys :
  let ss := s0 :: s1 :: rest in
  below ys (dimsof ss) -> Szero ss -> Mzero ss ->
  (forall q y, (q < rc)%nat -> (y < sdim s0)%nat -> csum (sdim s0) (sM s0 q) y = 0) ->
  msum (dimsof ss) (fun xs => elem (slim_pattern rc ss) xs ys) = 0.
Proof.
  intros ss Hb HS HM Hc.
  destruct ys as [|y ys]; [cbn in Hb; tauto|].
  assert (Hlen : length ys = S (length rest)).
  { cbn [dimsof map below] in Hb. destruct Hb as [_ Hb]. apply below_length in Hb. unfold dimsof in Hb. rewrite map_length in Hb. cbn [length] in Hb. exact Hb. }
  rewrite (msum_ext (dimsof ss) _ (fun xs => Tsum ss xs (y :: ys) +
             sum rc (fun q => sM s0 q (hd 0%nat xs) y * cycL (s1 :: rest) q (tl xs) ys))).
  - rewrite msum_add. rewrite (Tsum_colsum ss (y :: ys) Hb HS HM).
    rewrite <- (msum_sum _ rc (fun q xs => sM s0 q (hd 0%nat xs) y * cycL (s1 :: rest) q (tl xs) ys)). rewrite sum_zero'; [ring|]. intros q Hq.
    unfold ss. change (dimsof (s0 :: s1 :: rest)) with (sdim s0 :: dimsof (s1 :: rest)). cbn [msum].
    cbn [dimsof map below] in Hb. destruct Hb as [Hy _].
    rewrite (sum_ext (sdim s0) _ (fun x => sM s0 q x y * msum (dimsof (s1 :: rest)) (fun xs' => cycL (s1 :: rest) q xs' ys))).
    + rewrite sum_scal_r. change (sum (sdim s0) (fun i => sM s0 q i y)) with (csum (sdim s0) (sM s0 q) y).
      rewrite (Hc q y Hq Hy). ring.
    + intros x _. cbn [hd tl]. rewrite msum_scal_l. reflexivity.
  - intros xs Hxs. destruct xs as [|x xs]; [cbn in Hxs; tauto|].
    cbn [hd tl]. apply slim_pattern_value.
    + apply below_length in Hxs. unfold ss, dimsof in Hxs. rewrite map_length in Hxs. cbn [length] in Hxs. lia.
    + exact Hlen.
Qed.
End Gen.
