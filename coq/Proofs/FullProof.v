(* C01: full() / matricize().  The flattened dense array lists the entries in row-major order of the row multi-index
   (outer) and the column multi-index (inner): the entry at position  ravel(xs) * prod(cols) + ravel(ys)  is elem cs xs ys. *)
From Coq Require Import ZArith List Lia Ring Arith Bool.
Import ListNotations.
Require Import Ring Sums Matrix Core Chain TTOps.

Section FullProof.
Context {R : cring}.
Open Scope cr_scope.
Notation core := (core R).

Fixpoint prodn (dims : list nat) : nat := match dims with [] => 1%nat | n :: ns => (n * prodn ns)%nat end.
(* row-major (C order) position of a multi-index *)
Fixpoint ravel (dims xs : list nat) : nat :=
  match dims, xs with
  | n :: ns, x :: xs' => (x * prodn ns + ravel ns xs')%nat
  | _, _ => 0%nat
  end.

Lemma ravel_lt : forall dims xs, below xs dims -> (ravel dims xs < prodn dims)%nat.
Proof.
  induction dims as [|n ns IH]; intros xs H; destruct xs as [|x xs]; cbn in *; try tauto; try lia.
  destruct H as [Hx Hxs]. specialize (IH xs Hxs). nia.
Qed.

Lemma nth_flat_map_uniform {A B} (f : A -> list B) (L : nat) (da : A) (d : B) :
  (forall a, length (f a) = L) ->
  forall (l : list A) i j, (i < length l)%nat -> (j < L)%nat ->
  nth (i * L + j) (flat_map f l) d = nth j (f (nth i l da)) d.
Proof.
  intros HL. induction l as [|a l IH]; intros i j Hi Hj; [cbn in Hi; lia|].
  cbn [flat_map]. destruct i as [|i].
  - cbn [Nat.mul Nat.add nth]. rewrite app_nth1 by (rewrite HL; exact Hj). reflexivity.
  - cbn [length] in Hi. rewrite app_nth2 by (rewrite HL; nia).
    rewrite HL. replace (S i * L + j - L)%nat with (i * L + j)%nat by nia.
    cbn [nth]. apply IH; lia.
Qed.

Lemma length_all_idx : forall dims, length (all_idx dims) = prodn dims.
Proof.
  induction dims as [|n ns IH]; [reflexivity|]. cbn [all_idx prodn].
  assert (H : forall l : list nat, length (flat_map (fun x => map (cons x) (all_idx ns)) l) = (length l * prodn ns)%nat).
  { induction l as [|a l IHl]; [reflexivity|]. cbn [flat_map length]. rewrite app_length, map_length, IH, IHl. lia. }
  rewrite H, seq_length. reflexivity.
Qed.

Lemma nth_all_idx : forall dims xs, below xs dims -> nth (ravel dims xs) (all_idx dims) [] = xs.
Proof.
  induction dims as [|n ns IH]; intros xs H; destruct xs as [|x xs]; cbn [below] in H; try tauto.
  destruct H as [Hx Hxs]. cbn [all_idx ravel].
  rewrite (nth_flat_map_uniform (fun x0 => map (cons x0) (all_idx ns)) (prodn ns) 0%nat []).
  - rewrite seq_nth by exact Hx. cbn [Nat.add].
    rewrite (nth_indep _ [] (x :: [])) by (rewrite map_length, length_all_idx; apply ravel_lt; exact Hxs).
    change (x :: []) with ((cons x) []). rewrite map_nth. rewrite IH by exact Hxs. reflexivity.
  - intros a. rewrite map_length. apply length_all_idx.
  - rewrite seq_length. exact Hx.
  - apply ravel_lt. exact Hxs.
Qed.

Theorem full_flat_nth (cs : list core) xs ys :
  below xs (rows cs) -> below ys (cols cs) ->
  nth (ravel (rows cs) xs * prodn (cols cs) + ravel (cols cs) ys) (full_flat cs) 0 = elem cs xs ys.
Proof.
  intros Hx Hy. unfold full_flat.
  rewrite (nth_flat_map_uniform (fun xs0 => map (fun ys0 => elem cs xs0 ys0) (all_idx (cols cs))) (prodn (cols cs)) [] 0).
  - rewrite nth_all_idx by exact Hx.
    rewrite (nth_indep _ 0 (elem cs xs [])) by (rewrite map_length, length_all_idx; apply ravel_lt; exact Hy).
    change (elem cs xs []) with ((fun ys0 => elem cs xs ys0) []). rewrite map_nth. rewrite nth_all_idx by exact Hy. reflexivity.
  - intros a. rewrite map_length. apply length_all_idx.
  - rewrite length_all_idx. apply ravel_lt. exact Hx.
  - apply ravel_lt. exact Hy.
Qed.

Theorem full_flat_length (cs : list core) : length (full_flat cs) = (prodn (rows cs) * prodn (cols cs))%nat.
Proof.
  unfold full_flat.
  assert (H : forall l : list (list nat), length (flat_map (fun xs => map (fun ys => elem cs xs ys) (all_idx (cols cs))) l) = (length l * prodn (cols cs))%nat).
  { induction l as [|a l IHl]; [reflexivity|]. cbn [flat_map length]. rewrite app_length, map_length, length_all_idx, IHl. lia. }
  rewrite H, length_all_idx. reflexivity.
Qed.

End FullProof.
