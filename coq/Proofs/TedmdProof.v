(* C18: algebra of AMUSEt.  With Psi = Q C (Q the orthonormal left part, C the last core), C_x = U S V,
   A := Q U S^-1 and B := V C_y^T Q^T:  A B = (Psi_x^T)^+ Psi_y^T (matrix EDMD), the reduced matrix is B A,
   and eigenpairs of B A give eigenpairs A w of A B. *)
From Coq Require Import ZArith List Lia Ring Arith Bool.
Import ListNotations.
Require Import Ring Sums Matrix.

Section TE.
Context {R : cring}.
Add Ring Rr27 : (cring_th R).
Open Scope cr_scope.

(* eigenpairs of B A are eigenpairs of A B *)
Theorem eig_AB_BA (N k : nat) (A B : M R) (w : nat -> R) (lam : R) :
  (forall i, (i < k)%nat -> sum k (fun j => mmul N B A i j * w j) = lam * w i) ->
  forall x, sum N (fun y => mmul k A B x y * sum k (fun j => A y j * w j)) = lam * sum k (fun j => A x j * w j).
Proof.
  intros H x. unfold mmul in *.
  transitivity (sum k (fun i => A x i * sum k (fun j => sum N (fun y => B i y * A y j) * w j))).
  - transitivity (sum N (fun y => sum k (fun i => sum k (fun j => A x i * (B i y * A y j * w j))))).
    + apply sum_ext; intros y _. rewrite <- sum_scal_r. apply sum_ext; intros i _.
      rewrite <- sum_scal_l. apply sum_ext; intros j _. ring.
    + rewrite sum_swap. apply sum_ext; intros i _. rewrite <- sum_scal_l. rewrite sum_swap.
      apply sum_ext; intros j _. rewrite <- sum_scal_r, <- sum_scal_l. apply sum_ext; intros y _. ring.
  - rewrite <- sum_scal_l. apply sum_ext; intros i Hi. rewrite (H i Hi). ring.
Qed.

(* conversely: an eigenpair (lam, v) of A B gives the eigenpair (lam, B v) of B A, and B v = 0 forces lam v = 0:
   every non-zero eigenvalue of A B is an eigenvalue of the reduced matrix B A *)
Theorem eig_back (N k : nat) (A B : M R) (v : nat -> R) (lam : R) :
  (forall x, (x < N)%nat -> sum N (fun y => mmul k A B x y * v y) = lam * v x) ->
  (forall i, sum k (fun j => mmul N B A i j * sum N (fun y => B j y * v y)) = lam * sum N (fun y => B i y * v y)) /\
  ((forall j, (j < k)%nat -> sum N (fun y => B j y * v y) = 0) -> forall x, (x < N)%nat -> lam * v x = 0).
Proof.
  intros H. split.
  - exact (eig_AB_BA k N B A v lam H).
  - intros HB x Hx. rewrite <- (H x Hx). unfold mmul.
    transitivity (sum k (fun j => A x j * sum N (fun y => B j y * v y))).
    + transitivity (sum N (fun y => sum k (fun j => A x j * (B j y * v y)))).
      * apply sum_ext; intros y _. rewrite <- sum_scal_r. apply sum_ext; intros j _. ring.
      * rewrite sum_swap. apply sum_ext; intros j _. rewrite <- sum_scal_l. reflexivity.
    + apply sum_zero'. intros j Hj. rewrite (HB j Hj). ring.
Qed.

(* reduced matrix = B A when Q has orthonormal columns (real data: transposes) *)
Theorem reduced_is_BA (N r k nx : nat) (Q Um Vm Cy : M R) (sinv : nat -> R) p q :
  (forall a b, (a < r)%nat -> (b < r)%nat -> sum N (fun x => Q x a * Q x b) = delta a b) ->
  (q < k)%nat ->
  let A : M R := fun x j => sum r (fun a => Q x a * Um a j) * sinv j in
  let B : M R := fun i x => sum nx (fun t => Vm i t * sum r (fun a => Cy a t * Q x a)) in
  mmul N B A p q = sum nx (fun t => sum r (fun a => Vm p t * Cy a t * Um a q)) * sinv q.
Proof.
  intros HQ Hq A B. unfold mmul, A, B.
  transitivity (sum nx (fun t => sum r (fun a => sum r (fun b => Vm p t * Cy a t * Um b q * sinv q * sum N (fun x => Q x a * Q x b))))).
  - transitivity (sum N (fun x => sum nx (fun t => sum r (fun a => sum r (fun b => Vm p t * Cy a t * Um b q * sinv q * (Q x a * Q x b)))))).
    + apply sum_ext; intros x _. rewrite <- sum_scal_r. apply sum_ext; intros t _.
      rewrite <- sum_scal_l, <- sum_scal_r. apply sum_ext; intros a _.
      rewrite <- sum_scal_r, <- sum_scal_l. apply sum_ext; intros b _. ring.
    + rewrite sum_swap. apply sum_ext; intros t _. rewrite sum_swap. apply sum_ext; intros a _.
      rewrite sum_swap. apply sum_ext; intros b _. rewrite <- sum_scal_l. reflexivity.
  - rewrite <- sum_scal_r. apply sum_ext; intros t _. rewrite <- sum_scal_r. apply sum_ext; intros a Ha.
    rewrite (sum_ext r _ (fun b => if Nat.eqb b a then Vm p t * Cy a t * Um b q * sinv q else 0)).
    + rewrite (sum_single r a (fun b => Vm p t * Cy a t * Um b q * sinv q)) by exact Ha. ring.
    + intros b Hb. rewrite (HQ a b Ha Hb). unfold delta. rewrite Nat.eqb_sym. destruct (Nat.eqb b a); ring.
Qed.

(* index-set pairs are treated independently: the k-th result of the list call is the single call on the k-th pair *)
Theorem list_call_independent {P T : Type} (single : P -> T) (pairs : list P) (k : nat) (dp : P) :
  (k < length pairs)%nat -> nth k (map single pairs) (single dp) = single (nth k pairs dp).
Proof. intros _. apply map_nth. Qed.
End TE.
