(* C04: the error identity of the TT-SVD.  If every SVD answer is a genuine SVD (value, orthonormal
   columns of U, orthonormal rows of V, real singular values) and truncation keeps a prefix of the
   singular triplets, then the squared Frobenius error equals the sum of the squares of all
   discarded singular values. *)
From Coq Require Import ZArith List Lia Ring Arith Bool.
Import ListNotations.
Require Import Ring Sums Matrix Core Chain Sweep OfFull SweepProof TensordotProof TruncProof.

Section ErrorProof.
Context {R : cring}.
Add Ring Rr14 : (cring_th R).
Open Scope cr_scope.
Notation core := (core R).

Definition sq (z : R) : R := z * cconj R z.

(* sum over the columns of the residual matrix = sum over the remaining index pairs *)
Lemma sum_size_il ms : forall ns (f : nat -> R), length ns = length ms ->
  sum (size_il ms ns) f = dsum ms ns (fun xs ys => f (ravel_il ms ns xs ys)).
Proof.
  induction ms as [|m ms IH]; intros ns f Hl; destruct ns as [|n ns]; try discriminate.
  - simpl. ring.
  - simpl in Hl. cbn [size_il dsum ravel_il].
    rewrite sum_prod. rewrite sum_prod.
    apply sum_ext; intros x _. apply sum_ext; intros y _.
    rewrite IH by lia. reflexivity.
Qed.

(* squared error of an approximation of a residual of rank r *)
Definition err2 (r : nat) (ms ns : list nat) (res : nat -> list nat -> list nat -> R) (cs : list core) : R :=
  sum r (fun a => dsum ms ns (fun xs ys => sq (res a xs ys - chain cs xs ys a 0%nat))).

(* full SVD specification of an answer for a matrix, with k' kept triplets *)
Definition svd_full (rows cols : nat) (A : M R) (a : svd_ans R) : Prop :=
  (forall r b, (r < rows)%nat -> (b < cols)%nat -> sum (rk a) (fun p => U a r p * (Sg a p * V a p b)) = A r b) /\
  (forall p q, (p < rk a)%nat -> (q < rk a)%nat -> sum rows (fun r => cconj R (U a r p) * U a r q) = delta p q) /\
  (forall p q, (p < rk a)%nat -> (q < rk a)%nat -> sum cols (fun b => V a p b * cconj R (V a q b)) = delta p q) /\
  (forall p, (p < rk a)%nat -> cconj R (Sg a p) = Sg a p).

(* hypotheses and discarded energy along the recursion *)
Fixpoint err_hyp thr maxr (answers : list (svd_ans R)) (r : nat) (res : nat -> list nat -> list nat -> R) (ms ns : list nat) {struct ms} : Prop :=
  match ms, ns with
  | [m], [n] => True
  | m :: ms', n :: ns' =>
      match answers with
      | a :: as' =>
          let idx := select thr maxr a in
          (exists k', (k' <= rk a)%nat /\ idx = seq 0 k') /\
          svd_full (r * m * n)%nat (size_il ms' ns') (res_matrix m n ms' ns' res) a /\
          err_hyp thr maxr as' (length idx)
            (fun p xs ys => Sg a (nth p idx 0%nat) * V a (nth p idx 0%nat) (ravel_il ms' ns' xs ys)) ms' ns'
      | [] => False
      end
  | _, _ => True
  end.
Fixpoint discarded thr maxr (answers : list (svd_ans R)) (ms ns : list nat) {struct ms} : R :=
  match ms, ns with
  | [m], [n] => 0
  | m :: ms', n :: ns' =>
      match answers with
      | a :: as' =>
          let k' := length (select thr maxr a) in
          sum (rk a - k') (fun j => Sg a (k' + j)%nat * Sg a (k' + j)%nat) + discarded thr maxr as' ms' ns'
      | [] => 0
      end
  | _, _ => 0
  end.

(* Pythagoras for one step: orthonormal columns of U decouple the singular directions *)
Lemma step_pythagoras (rows K : nat) (Um : M R) (w : nat -> R) :
  (forall p q, (p < K)%nat -> (q < K)%nat -> sum rows (fun r => cconj R (Um r p) * Um r q) = delta p q) ->
  sum rows (fun r => sq (sum K (fun p => Um r p * w p))) = sum K (fun p => sq (w p)).
Proof.
  intros HU. unfold sq.
  transitivity (sum K (fun p => sum K (fun q => (w p * cconj R (w q)) * sum rows (fun r => cconj R (Um r q) * Um r p)))).
  - transitivity (sum rows (fun r => sum K (fun p => sum K (fun q => (w p * cconj R (w q)) * (cconj R (Um r q) * Um r p))))).
    + apply sum_ext; intros r _. rewrite sum_conj. rewrite <- sum_scal_r. apply sum_ext; intros p _.
      rewrite <- sum_scal_l. apply sum_ext; intros q _. rewrite conj_mul. ring.
    + rewrite sum_swap. apply sum_ext; intros p _. rewrite sum_swap. apply sum_ext; intros q _.
      rewrite <- sum_scal_l. reflexivity.
  - apply sum_ext; intros p Hp.
    rewrite (sum_ext K _ (fun q => if Nat.eqb q p then w p * cconj R (w q) else 0)).
    + rewrite (sum_single K p (fun q => w p * cconj R (w q))) by exact Hp. reflexivity.
    + intros q Hq. rewrite (HU q p Hq Hp). unfold delta. destruct (Nat.eqb q p); ring.
Qed.

Lemma dsum_add ms : forall ns (F G : list nat -> list nat -> R),
  dsum ms ns (fun xs ys => F xs ys + G xs ys) = dsum ms ns F + dsum ms ns G.
Proof.
  induction ms as [|m ms IH]; intros ns F G; simpl; [reflexivity|].
  destruct ns as [|n ns]; [reflexivity|].
  rewrite <- sum_add. apply sum_ext; intros x _. rewrite <- sum_add. apply sum_ext; intros y _. apply IH.
Qed.
Lemma dsum_zero ms : forall ns, dsum ms ns (fun _ _ => c0 R) = c0 R.
Proof.
  induction ms as [|m ms IH]; intros ns; simpl; [reflexivity|]. destruct ns; [reflexivity|].
  apply sum_zero'; intros. apply sum_zero'; intros. apply IH.
Qed.
Lemma dsum_ext_below ms : forall ns (F G : list nat -> list nat -> R), length ns = length ms ->
  (forall xs ys, below xs ms -> below ys ns -> F xs ys = G xs ys) -> dsum ms ns F = dsum ms ns G.
Proof.
  induction ms as [|m ms IH]; intros ns F G Hl H; destruct ns as [|n ns]; try discriminate; simpl; [apply H; exact I|].
  simpl in Hl. apply sum_ext; intros x Hx. apply sum_ext; intros y Hy. apply IH; [lia|].
  intros xs ys Hxs Hys. apply H; split; assumption.
Qed.

Theorem of_full_error_identity thr maxr : forall ms ns answers r res,
  length ns = length ms -> ms <> [] ->
  err_hyp thr maxr answers r res ms ns ->
  err2 r ms ns res (fst (of_full_aux thr maxr answers r res ms ns)) = discarded thr maxr answers ms ns.
Proof.
  induction ms as [|m ms IH]; intros ns answers r res Hl Hne HP; [congruence|].
  destruct ns as [|n ns]; [discriminate|]. simpl in Hl.
  destruct ms as [|m2 ms].
  - (* last core: exact *)
    destruct ns; [|discriminate].
    change (of_full_aux thr maxr answers r res [m] [n]) with ([mkcore r m n 1 (fun al x y _ => res al [x] [y])], @nil (nat * nat * M R)).
    unfold err2. cbn [fst discarded dsum].
    apply sum_zero'. intros a _. apply sum_zero'. intros x _. apply sum_zero'. intros y _.
    cbn [chain]. unfold mmul. cbn [rr]. simpl sum. unfold cmat, delta, sq. cbn [g]. simpl.
    replace (res a [x] [y] - (0 + res a [x] [y] * 1)) with (c0 R) by ring. ring.
  - destruct ns as [|n2 ns]; [discriminate|].
    destruct answers as [|an answers]; [simpl in HP; tauto|].
    set (ms' := m2 :: ms) in *. set (ns' := n2 :: ns) in *.
    assert (Hl' : length ns' = length ms') by (unfold ms', ns'; simpl in *; lia).
    change (err_hyp thr maxr (an :: answers) r res (m :: ms') (n :: ns')) with
      (let idx := select thr maxr an in
       (exists k', (k' <= rk an)%nat /\ idx = seq 0 k') /\
       svd_full (r * m * n)%nat (size_il ms' ns') (res_matrix m n ms' ns' res) an /\
       err_hyp thr maxr answers (length idx)
         (fun p xs ys => Sg an (nth p idx 0%nat) * V an (nth p idx 0%nat) (ravel_il ms' ns' xs ys)) ms' ns') in HP.
    cbv zeta in HP. destruct HP as ((k' & Hk' & Hidx) & (Hval & HU & HV & Hs) & HP).
    set (idx := select thr maxr an) in *.
    set (res' := fun p xs ys => Sg an (nth p idx 0%nat) * V an (nth p idx 0%nat) (ravel_il ms' ns' xs ys)) in *.
    change (fst (of_full_aux thr maxr (an :: answers) r res (m :: ms') (n :: ns'))) with
      (mkcore r m n (length idx) (fun al x y p => U an (flat m n al x y) (nth p idx 0%nat)) ::
       fst (of_full_aux thr maxr answers (length idx) res' ms' ns')).
    set (rest := fst (of_full_aux thr maxr answers (length idx) res' ms' ns')) in *.
    change (discarded thr maxr (an :: answers) (m :: ms') (n :: ns')) with
      (sum (rk an - length idx) (fun j => Sg an (length idx + j)%nat * Sg an (length idx + j)%nat) + discarded thr maxr answers ms' ns').
    rewrite <- (IH ns' answers (length idx) res' Hl' ltac:(discriminate) HP). fold rest.
    assert (Elen : length idx = k') by (rewrite Hidx, seq_length; reflexivity).
    assert (Enth : forall p, (p < k')%nat -> nth p idx 0%nat = p) by (intros p Hp; rewrite Hidx, seq_nth by exact Hp; reflexivity).
    rewrite Elen in *.
    (* the singular directions: w_p = s_p V_p - approximation of residual p (p < k'), s_p V_p beyond *)
    set (w := fun (xs ys : list nat) (p : nat) =>
                Sg an p * V an p (ravel_il ms' ns' xs ys) - (if Nat.ltb p k' then chain rest xs ys p 0%nat else 0)).
    unfold err2.
    transitivity (dsum ms' ns' (fun xs ys => sum (r * m * n) (fun rho => sq (sum (rk an) (fun p => U an rho p * w xs ys p))))).
    { cbn [dsum].
      transitivity (sum r (fun a => sum m (fun x => sum n (fun y => dsum ms' ns' (fun xs ys =>
                      sq (sum (rk an) (fun p => U an (flat m n a x y) p * w xs ys p))))))).
      - apply sum_ext; intros a Ha. apply sum_ext; intros x Hx. apply sum_ext; intros y Hy.
        apply dsum_ext_below; [exact Hl'|]. intros xs ys Hxs Hys. f_equal.
        assert (E1 : res a (x :: xs) (y :: ys) = sum (rk an) (fun p => U an (flat m n a x y) p * (Sg an p * V an p (ravel_il ms' ns' xs ys)))).
        { rewrite Hval; [| apply flat_lt; assumption | apply ravel_il_lt; assumption].
          unfold res_matrix. rewrite unravel_ravel_il by assumption. cbn [fst snd].
          destruct (unflat m n a x y Hx Hy) as (F1 & F2 & F3). rewrite F1, F2, F3. reflexivity. }
        assert (E2 : chain (mkcore r m n k' (fun al x y p => U an (flat m n al x y) (nth p idx 0%nat)) :: rest) (x :: xs) (y :: ys) a 0%nat =
                     sum (rk an) (fun p => U an (flat m n a x y) p * (if Nat.ltb p k' then chain rest xs ys p 0%nat else 0))).
        { cbn [chain]. unfold mmul. cbn [rr].
          transitivity (sum k' (fun p => U an (flat m n a x y) p * chain rest xs ys p 0%nat)).
          - apply sum_ext; intros p Hp. unfold cmat. cbn [g]. rewrite Enth by exact Hp. reflexivity.
          - rewrite <- (sum_lt_restrict (rk an) k' (fun p => U an (flat m n a x y) p * chain rest xs ys p 0%nat)) by exact Hk'.
            apply sum_ext; intros p Hp. destruct (Nat.ltb_spec p k') as [Hlt|Hge]; [reflexivity|ring]. }
        rewrite E1, E2. unfold w.
        transitivity (sum (rk an) (fun p => U an (flat m n a x y) p * (Sg an p * V an p (ravel_il ms' ns' xs ys)) +
                                           - (U an (flat m n a x y) p * (if Nat.ltb p k' then chain rest xs ys p 0%nat else 0)))).
        + rewrite sum_add, sum_opp. ring.
        + apply sum_ext; intros p _. ring.
      - rewrite <- (dsum_sum ms' ns' (r * m * n) (fun rho xs ys => sq (sum (rk an) (fun p => U an rho p * w xs ys p)))).
        rewrite sum_flat3. reflexivity. }
    (* Pythagoras in the row index, then split kept / discarded directions *)
    transitivity (dsum ms' ns' (fun xs ys => sum k' (fun p => sq (w xs ys p)) +
                                              sum (rk an - k') (fun j => sq (w xs ys (k' + j)%nat)))).
    { apply dsum_ext; intros xs ys. rewrite (step_pythagoras (r * m * n) (rk an) (U an) (w xs ys) HU).
      replace (rk an) with (k' + (rk an - k'))%nat at 1 by lia. apply sum_plus. }
    rewrite dsum_add.
    match goal with |- ?a + ?b = _ => transitivity (b + a); [ring|] end. f_equal.
    + (* discarded directions: s^2 each, rows of V being orthonormal *)
      rewrite <- (dsum_sum ms' ns' (rk an - k') (fun j xs ys => sq (w xs ys (k' + j)%nat))). apply sum_ext; intros j Hj.
      assert (Hp : (k' + j < rk an)%nat) by lia.
      transitivity (Sg an (k' + j)%nat * Sg an (k' + j)%nat *
                    dsum ms' ns' (fun xs ys => V an (k' + j)%nat (ravel_il ms' ns' xs ys) * cconj R (V an (k' + j)%nat (ravel_il ms' ns' xs ys)))).
      * rewrite <- dsum_scal_l. apply dsum_ext; intros xs ys. unfold w, sq.
        destruct (Nat.ltb_spec (k' + j) k') as [Hlt|_]; [lia|].
        replace (Sg an (k' + j)%nat * V an (k' + j)%nat (ravel_il ms' ns' xs ys) - 0)
          with (Sg an (k' + j)%nat * V an (k' + j)%nat (ravel_il ms' ns' xs ys)) by ring.
        rewrite conj_mul, (Hs (k' + j)%nat Hp). ring.
      * rewrite <- (sum_size_il ms' ns' (fun q => V an (k' + j)%nat q * cconj R (V an (k' + j)%nat q)) Hl').
        rewrite (HV (k' + j)%nat (k' + j)%nat Hp Hp). unfold delta. rewrite Nat.eqb_refl. ring.
    + (* kept directions: the error of the recursive problem *)
      unfold err2. rewrite (dsum_sum ms' ns' k' (fun a xs ys => sq (res' a xs ys - chain rest xs ys a 0%nat))).
      apply dsum_ext; intros xs ys. apply sum_ext; intros p Hp.
      unfold w, res'. rewrite Enth by exact Hp.
      destruct (Nat.ltb_spec p k') as [_|Hge]; [reflexivity|lia].
Qed.

Lemma firstn_seq' m : forall s n, firstn m (seq s n) = seq s (Nat.min m n).
Proof. induction m as [|m IH]; intros s n; [reflexivity|]. destruct n; [reflexivity|]. simpl. rewrite IH. reflexivity. Qed.
(* max_rank-only truncation keeps a prefix *)
Lemma select_maxrank_prefix (a : svd_ans R) m :
  exists k', (k' <= rk a)%nat /\ select None (Some m) a = seq 0 k'.
Proof.
  exists (Nat.min m (rk a)). split; [lia|]. unfold select. rewrite firstn_seq'. reflexivity.
Qed.
End ErrorProof.
