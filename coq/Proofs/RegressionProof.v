(* C16: algebra behind MANDy and ARR.
   - mandy_last_value: multiplying the last core by y^T contracts the snapshot index with y;
   - lsq_pythagoras: a solution of the normal equations is a least-squares minimiser (identity form);
   - arr stacks in closed form and the frame identity: the fitted values are linear in the core being updated,
     with the micro matrix as coefficient matrix. *)
From Coq Require Import ZArith List Lia Ring Arith Bool.
Import ListNotations.
Require Import Ring Sums Matrix Core Chain Sweep SweepProof Regression.

Section RP.
Context {R : cring}.
Add Ring Rr25 : (cring_th R).
Open Scope cr_scope.
Notation core := (core R).
Notation cj := (cconj R).

(* ---- MANDy ---- *)
Lemma sum1 (f : nat -> R) : sum 1 f = f 0%nat.
Proof. cbn [sum]. ring. Qed.
Lemma mandy_last_value (c : core) dout m (y : M R) i a : rr c = 1%nat ->
  chain [mandy_last c dout m y] [i] [0%nat] a 0%nat = sum m (fun j => chain [c] [j] [0%nat] a 0%nat * y i j).
Proof.
  intros Hr. cbn [chain]. unfold mmul, cmat, delta. cbn [rr mandy_last g]. rewrite Hr, sum1. cbn [Nat.eqb].
  rewrite (sum_ext m (fun j => sum 1 _ * y i j) (fun j => g c a j 0%nat 0%nat * y i j)).
  - ring.
  - intros j _. rewrite sum1. cbn [Nat.eqb]. ring.
Qed.

(* ---- least squares ---- *)
(* A : m x n (rows = snapshots), c, c0 : n, y : m.  Normal equations: A^H (A c - y) = 0. *)
Definition resid (m n : nat) (A : M R) (c y : nat -> R) : nat -> R := fun j => sum n (fun r => A j r * c r) - y j.
Definition nrm2 (m : nat) (v : nat -> R) : R := sum m (fun j => cj (v j) * v j).
Theorem lsq_pythagoras (m n : nat) (A : M R) (c c0 y : nat -> R) :
  (forall r, (r < n)%nat -> sum m (fun j => cj (A j r) * resid m n A c y j) = 0) ->
  nrm2 m (resid m n A c0 y) =
  nrm2 m (resid m n A c y) + nrm2 m (fun j => sum n (fun r => A j r * (c0 r - c r))).
Proof.
  intros HN.
  set (d := fun j => sum n (fun r => A j r * (c0 r - c r))).
  set (e := resid m n A c y). unfold nrm2.
  assert (E0 : forall j, resid m n A c0 y j = e j + d j).
  { intros j. unfold e, d, resid.
    rewrite (sum_ext n (fun r => A j r * (c0 r - c r)) (fun r => A j r * c0 r + - (A j r * c r))) by (intros; ring).
    rewrite sum_add, sum_opp. ring. }
  assert (Hcross : sum m (fun j => cj (d j) * e j) = 0).
  { unfold d. rewrite (sum_ext m _ (fun j => sum n (fun r => cj (c0 r - c r) * (cj (A j r) * e j)))).
    - rewrite sum_swap. apply sum_zero'. intros r Hr. rewrite sum_scal_l. unfold e. rewrite (HN r Hr). ring.
    - intros j _. rewrite sum_conj, <- sum_scal_r. apply sum_ext; intros r _. rewrite conj_mul. ring. }
  assert (Hcross' : sum m (fun j => cj (e j) * d j) = 0).
  { rewrite (sum_ext m _ (fun j => cj (cj (d j) * e j))).
    - rewrite <- sum_conj, Hcross. apply conj_0.
    - intros j _. rewrite conj_mul, conj_inv. ring. }
  rewrite (sum_ext m _ (fun j => cj (e j) * e j + cj (d j) * d j + (cj (d j) * e j + cj (e j) * d j))).
  - rewrite !sum_add, Hcross, Hcross'. ring.
  - intros j _. rewrite (E0 j), conj_add. ring.
Qed.

(* ---- ARR ---- *)
Definition cores_of (ps : list (M R * core)) : list core := map snd ps.
Lemma linked_ccore j : forall (ps : list (M R * core)) fin, linked (cores_of ps) fin -> linked (map (ccore j) ps) fin.
Proof.
  induction ps as [|p ps IH]; intros fin H; [exact I|].
  cbn [cores_of map linked] in *. destruct H as (H1 & H2 & H3). repeat split.
  - exact H1.
  - cbn [rr ccore]. rewrite H2. destruct ps; reflexivity.
  - apply IH. exact H3.
Qed.
Lemma rl_of_ccore j (ps : list (M R * core)) fin : rl_of (map (ccore j) ps) fin = rl_of (cores_of ps) fin.
Proof. destruct ps; reflexivity. Qed.

Lemma fit_cons j (p : M R * core) ps a b :
  fit_chain (p :: ps) j a b = sum (rr (snd p)) (fun e => sum (md (snd p)) (fun k => fst p k j * g (snd p) a k 0%nat e) * fit_chain ps j e b).
Proof. reflexivity. Qed.

(* left stack in closed form *)
Lemma lstack_closed j : forall (pre : list (M R * core)) (L0 : M R) fin l,
  linked (cores_of pre) fin -> (l < fin)%nat ->
  lstack_from L0 pre l j = sum (rl_of (cores_of pre) fin) (fun a => L0 a j * fit_chain pre j a l).
Proof.
  induction pre as [|p pre IH]; intros L0 fin l HL Hl.
  - cbn [lstack_from fold_left cores_of map rl_of]. unfold fit_chain. cbn [map length zeros repeat chain]. unfold delta.
    rewrite (sum_ext fin _ (fun a => if Nat.eqb a l then L0 a j else 0)).
    + symmetry. apply (sum_single fin l (fun a => L0 a j)). exact Hl.
    + intros a _. destruct (Nat.eqb a l); ring.
  - cbn [cores_of map linked] in HL. destruct HL as (Hp & Hlink & HL).
    change (lstack_from L0 (p :: pre)) with (lstack_from (left_next L0 (fst p) (snd p)) pre).
    rewrite (IH _ fin l HL Hl). unfold cores_of. cbn [map rl_of]. rewrite <- Hlink.
    unfold left_next.
    transitivity (sum (rr (snd p)) (fun e => sum (rl (snd p)) (fun a => L0 a j *
                   (sum (md (snd p)) (fun k => fst p k j * g (snd p) a k 0%nat e) * fit_chain pre j e l)))).
    + apply sum_ext; intros e _. rewrite <- sum_scal_r. apply sum_ext; intros a _.
      replace (L0 a j * (sum (md (snd p)) (fun k => fst p k j * g (snd p) a k 0%nat e) * fit_chain pre j e l))
        with (L0 a j * sum (md (snd p)) (fun k => fst p k j * g (snd p) a k 0%nat e) * fit_chain pre j e l) by ring.
      f_equal. rewrite <- sum_scal_l. apply sum_ext; intros k _. ring.
    + rewrite sum_swap. apply sum_ext; intros a _. rewrite fit_cons, <- sum_scal_l. reflexivity.
Qed.

(* right stack in closed form *)
Lemma rstack_closed j : forall (suf : list (M R * core)) (R0 : M R) fin i,
  linked (cores_of suf) fin -> (i < rl_of (cores_of suf) fin)%nat ->
  rstack_from R0 suf i j = sum fin (fun l => fit_chain suf j i l * R0 l j).
Proof.
  induction suf as [|p suf IH]; intros R0 fin i HL Hi.
  - cbn [cores_of map rl_of] in Hi. cbn [rstack_from]. unfold fit_chain. cbn [map length zeros repeat chain]. unfold delta.
    rewrite (sum_ext fin _ (fun l => if Nat.eqb l i then R0 l j else 0)) by (intros l _; destruct (Nat.eqb_spec i l), (Nat.eqb_spec l i); try lia; ring).
    symmetry. apply (sum_single fin i (fun l => R0 l j)). exact Hi.
  - cbn [cores_of map linked] in HL. destruct HL as (Hp & Hlink & HL). fold (cores_of suf) in Hlink, HL.
    cbn [rstack_from]. unfold right_next.
    transitivity (sum (rr (snd p)) (fun e => sum (md (snd p)) (fun k => fst p k j * g (snd p) i k 0%nat e) *
                                              sum fin (fun l => fit_chain suf j e l * R0 l j))).
    + rewrite sum_swap. apply sum_ext; intros e He. rewrite <- sum_scal_r. apply sum_ext; intros k _.
      rewrite (IH R0 fin e HL) by (rewrite <- Hlink; exact He). ring.
    + transitivity (sum fin (fun l => sum (rr (snd p)) (fun e => sum (md (snd p)) (fun k => fst p k j * g (snd p) i k 0%nat e) * fit_chain suf j e l) * R0 l j)).
      * erewrite sum_ext; [|intros e _; rewrite <- sum_scal_l; reflexivity].
        rewrite sum_swap. apply sum_ext; intros l _. rewrite <- sum_scal_r. apply sum_ext; intros e _. ring.
      * apply sum_ext; intros l _. rewrite fit_cons. reflexivity.
Qed.

(* frame identity: the fitted value on snapshot j is linear in the core at the update position, the coefficients
   being left stack x basis evaluations x right stack, i.e. the column j of the micro matrix *)
Theorem arr_frame j (pre suf : list (M R * core)) (Th : M R) (c : core) :
  let ps := pre ++ (Th, c) :: suf in
  linked (cores_of ps) 1%nat -> rl_of (cores_of ps) 1%nat = 1%nat ->
  fitted ps j =
  sum (rl c) (fun a => sum (md c) (fun k => sum (rr c) (fun b =>
     lstack_from ones2 pre a j * Th k j * rstack_from ones2 suf b j * g c a k 0%nat b))).
Proof.
  intros ps HL H1.
  assert (HLpre : linked (cores_of pre) (rl c)).
  { unfold ps, cores_of in HL. rewrite map_app in HL. apply linked_app in HL. cbn [map rl_of snd] in HL. apply HL. }
  assert (HLsuf : linked (cores_of suf) 1%nat /\ rr c = rl_of (cores_of suf) 1%nat).
  { unfold ps, cores_of in HL. rewrite map_app in HL. apply linked_app in HL. destruct HL as [_ HL].
    cbn [map linked snd] in HL. destruct HL as (_ & Hlk & HL). split; [exact HL|exact Hlk]. }
  destruct HLsuf as [HLsuf Hrr].
  assert (Hpre1 : rl_of (cores_of pre) (rl c) = 1%nat).
  { unfold ps, cores_of in H1. rewrite map_app in H1. destruct pre as [|p pre]; cbn [map app rl_of snd] in *; exact H1. }
  (* split the chain at the update position *)
  unfold fitted, fit_chain, ps. rewrite map_app, app_length. cbn [map length].
  unfold zeros. rewrite repeat_app. cbn [repeat].
  rewrite (chain_app (map (ccore j) pre) (ccore j (Th, c) :: map (ccore j) suf) _ _ (0%nat :: repeat 0%nat (length suf)) (0%nat :: repeat 0%nat (length suf)) (rl c)).
  2,3: rewrite repeat_length, map_length; reflexivity.
  2: apply linked_ccore; exact HLpre.
  2: reflexivity.
  assert (Hsuf : forall b, (b < rr c)%nat -> rstack_from ones2 suf b j = fit_chain suf j b 0%nat).
  { intros b Hb. rewrite (rstack_closed j suf ones2 1%nat b HLsuf) by (rewrite <- Hrr; exact Hb). rewrite sum1. unfold ones2. ring. }
  assert (Hprev : forall a, (a < rl c)%nat -> lstack_from ones2 pre a j = fit_chain pre j 0%nat a).
  { intros a Ha. rewrite (lstack_closed j pre ones2 (rl c) a HLpre Ha). rewrite Hpre1, sum1. unfold ones2. ring. }
  set (tail := chain (ccore j (Th, c) :: map (ccore j) suf) (0%nat :: repeat 0%nat (length suf)) (0%nat :: repeat 0%nat (length suf))).
  assert (Htail : forall a, tail a 0%nat = sum (md c) (fun k => sum (rr c) (fun b => Th k j * g c a k 0%nat b * fit_chain suf j b 0%nat))).
  { intros a. unfold tail. cbn [chain]. unfold mmul, cmat. cbn [rr ccore g snd fst].
    rewrite sum_swap. apply sum_ext; intros b _. unfold fit_chain, zeros. rewrite <- sum_scal_r. reflexivity. }
  destruct pre as [|p0 pre0].
  - cbn [map]. cbn [cores_of map rl_of] in Hpre1. rewrite Hpre1. rewrite sum1. rewrite Htail.
    apply sum_ext; intros k _. apply sum_ext; intros b Hb. rewrite (Hsuf b Hb).
    cbn [lstack_from fold_left]. unfold ones2. ring.
  - set (pre := p0 :: pre0) in *.
    change (match map (ccore j) pre with [] => _ | _ :: _ => ?X end) with X.
    unfold mmul. apply sum_ext; intros a Ha. rewrite Htail.
    rewrite <- sum_scal_l. apply sum_ext; intros k _. rewrite <- sum_scal_l. apply sum_ext; intros b Hb.
    rewrite (Hsuf b Hb), (Hprev a Ha). unfold fit_chain, zeros. ring.
Qed.
End RP.
