(* Left environments of the alternating solvers in closed form, and the frame identity:
   the micro matrix is P^H A P with P the frame spanned by the cores left and right of the position. *)
From Coq Require Import ZArith List Lia Ring Arith Bool.
Import ListNotations.
Require Import Ring Sums Matrix Core Chain TensordotProof Env EnvProof.

Section FrameProof.
Context {R : cring}.
Add Ring Rr31 : (cring_th R).
Open Scope cr_scope.
Notation core := (core R).
Notation cj := (cconj R).

(* the left stack recursion started from an arbitrary environment L0, over the cores Xs / As (left to right) *)
Fixpoint lstack_from (L0 : st3 R) (Xs As : list core) : st3 R :=
  match Xs, As with
  | X :: Xs', A :: As' => lstack_from (left_op L0 X A) Xs' As'
  | _, _ => L0
  end.
(* transfer kernel of a block of cores: (s, r, c) on the left  ->  (s', r', c') on the right *)
Definition Kernel (Xs As : list core) (s r c s' r' c' : nat) : R :=
  dsum (rows As) (cols As) (fun xs ys =>
    chain Xs ys (zeros ys) s s' * chain As xs ys r r' * cj (chain Xs xs (zeros xs) c c')).

Lemma lstack_dims (L0 : st3 R) : forall (Xs As : list core) fx fa,
  length As = length Xs -> linked Xs fx -> linked As fa ->
  a1 L0 = rl_of Xs fx -> a2 L0 = rl_of As fa -> a3 L0 = rl_of Xs fx ->
  a1 (lstack_from L0 Xs As) = fx /\ a2 (lstack_from L0 Xs As) = fa /\ a3 (lstack_from L0 Xs As) = fx.
Proof.
  intros Xs. revert L0. induction Xs as [|X Xs IH]; intros L0 As fx fa Hl LX LA H1 H2 H3.
  - destruct As; [|discriminate]. cbn in *. auto.
  - destruct As as [|A As]; [discriminate|]. cbn [lstack_from]. cbn in Hl.
    destruct LX as (PX & LkX & LX). destruct LA as (PA & LkA & LA).
    apply IH; try assumption; try lia; cbn [left_op a1 a2 a3]; assumption.
Qed.

Lemma sum3_swap_in n1 n2 n3 (F : nat -> nat -> nat -> R) :
  sum n1 (fun i => sum n2 (fun j => sum n3 (fun k => F i j k))) =
  sum n3 (fun k => sum n2 (fun j => sum n1 (fun i => F i j k))).
Proof.
  transitivity (sum n1 (fun i => sum n3 (fun k => sum n2 (fun j => F i j k)))).
  - apply sum_ext; intros i _. apply sum_swap.
  - rewrite sum_swap. apply sum_ext; intros k _. apply sum_swap.
Qed.

Lemma Kernel_cons (X A : core) (Xs As : list core) s r c s' r' c' :
  Kernel (X :: Xs) (A :: As) s r c s' r' c' =
  sum (md A) (fun x => sum (nd A) (fun y => sum (rr X) (fun s1 => sum (rr A) (fun r1 => sum (rr X) (fun c1 =>
    (g X s y 0%nat s1 * g A r x y r1 * cj (g X c x 0%nat c1)) * Kernel Xs As s1 r1 c1 s' r' c'))))).
Proof.
  unfold Kernel. cbn [rows cols map dsum]. fold (rows As) (cols As).
  apply sum_ext; intros x _. apply sum_ext; intros y _.
  transitivity (dsum (rows As) (cols As) (fun xs ys => sum (rr X) (fun s1 => sum (rr A) (fun r1 => sum (rr X) (fun c1 =>
                  (g X s y 0%nat s1 * g A r x y r1 * cj (g X c x 0%nat c1)) *
                  (chain Xs ys (zeros ys) s1 s' * chain As xs ys r1 r' * cj (chain Xs xs (zeros xs) c1 c'))))))).
  - apply dsum_ext; intros xs ys. cbn [zeros map chain]. fold (zeros ys) (zeros xs). unfold mmul, cmat.
    rewrite sum_conj.
    transitivity (sum (rr X) (fun s1 => g X s y 0%nat s1 * chain Xs ys (zeros ys) s1 s') *
                  (sum (rr A) (fun r1 => g A r x y r1 * chain As xs ys r1 r') *
                   sum (rr X) (fun c1 => cj (g X c x 0%nat c1 * chain Xs xs (zeros xs) c1 c')))); [ring|].
    rewrite sum3_prod. apply sum_ext; intros s1 _. apply sum_ext; intros r1 _.
    apply sum_ext; intros c1 _. rewrite conj_mul. ring.
  - rewrite <- dsum_sum. apply sum_ext; intros s1 _. rewrite <- dsum_sum. apply sum_ext; intros r1 _.
    rewrite <- dsum_sum. apply sum_ext; intros c1 _. rewrite <- dsum_scal_l. reflexivity.
Qed.

Lemma Kernel_nil s r c s' r' c' : Kernel [] [] s r c s' r' c' = delta s s' * delta r r' * cj (delta c c').
Proof. unfold Kernel. cbn [rows cols map dsum chain zeros]. reflexivity. Qed.
End FrameProof.
