(* Left environments of the alternating solvers in closed form, and the frame identity:
   the micro matrix is P^H A P with P the frame spanned by the cores left and right of the position. *)
From Coq Require Import ZArith List Lia Ring Arith Bool.
Import ListNotations.
Require Import Ring Sums Matrix Core Chain TensordotProof Env EnvProof.

Section FrameProof.
Context {R : cring}.
Add Ring Rr31 : (cring_th R).
Open Scope cr_scope.
Notation core := (core R).
Notation cj := (cconj R).

(* the left stack recursion started from an arbitrary environment L0, over the cores Xs / As (left to right) *)
Fixpoint lstack_from (L0 : st3 R) (Xs As : list core) : st3 R :=
  match Xs, As with
  | X :: Xs', A :: As' => lstack_from (left_op L0 X A) Xs' As'
  | _, _ => L0
  end.
(* transfer kernel of a block of cores: (s, r, c) on the left  ->  (s', r', c') on the right *)
Definition Kernel (Xs As : list core) (s r c s' r' c' : nat) : R :=
  dsum (rows As) (cols As) (fun xs ys =>
    chain Xs ys (zeros ys) s s' * chain As xs ys r r' * cj (chain Xs xs (zeros xs) c c')).

Lemma lstack_dims (L0 : st3 R) : forall (Xs As : list core) fx fa,
  length As = length Xs -> linked Xs fx -> linked As fa ->
  a1 L0 = rl_of Xs fx -> a2 L0 = rl_of As fa -> a3 L0 = rl_of Xs fx ->
  a1 (lstack_from L0 Xs As) = fx /\ a2 (lstack_from L0 Xs As) = fa /\ a3 (lstack_from L0 Xs As) = fx.
Proof.
  intros Xs. revert L0. induction Xs as [|X Xs IH]; intros L0 As fx fa Hl LX LA H1 H2 H3.
  - destruct As; [|discriminate]. cbn in *. auto.
  - destruct As as [|A As]; [discriminate|]. cbn [lstack_from]. cbn in Hl.
    destruct LX as (PX & LkX & LX). destruct LA as (PA & LkA & LA).
    apply IH; try assumption; try lia; cbn [left_op a1 a2 a3]; assumption.
Qed.

Lemma sum3_swap_in n1 n2 n3 (F : nat -> nat -> nat -> R) :
  sum n1 (fun i => sum n2 (fun j => sum n3 (fun k => F i j k))) =
  sum n3 (fun k => sum n2 (fun j => sum n1 (fun i => F i j k))).
Proof.
  transitivity (sum n1 (fun i => sum n3 (fun k => sum n2 (fun j => F i j k)))).
  - apply sum_ext; intros i _. apply sum_swap.
  - rewrite sum_swap. apply sum_ext; intros k _. apply sum_swap.
Qed.

Lemma Kernel_cons (X A : core) (Xs As : list core) s r c s' r' c' :
  Kernel (X :: Xs) (A :: As) s r c s' r' c' =
  sum (md A) (fun x => sum (nd A) (fun y => sum (rr X) (fun s1 => sum (rr A) (fun r1 => sum (rr X) (fun c1 =>
    (g X s y 0%nat s1 * g A r x y r1 * cj (g X c x 0%nat c1)) * Kernel Xs As s1 r1 c1 s' r' c'))))).
Proof.
  unfold Kernel. cbn [rows cols map dsum]. fold (rows As) (cols As).
  apply sum_ext; intros x _. apply sum_ext; intros y _.
  transitivity (dsum (rows As) (cols As) (fun xs ys => sum (rr X) (fun s1 => sum (rr A) (fun r1 => sum (rr X) (fun c1 =>
                  (g X s y 0%nat s1 * g A r x y r1 * cj (g X c x 0%nat c1)) *
                  (chain Xs ys (zeros ys) s1 s' * chain As xs ys r1 r' * cj (chain Xs xs (zeros xs) c1 c'))))))).
  - apply dsum_ext; intros xs ys. cbn [zeros map chain]. fold (zeros ys) (zeros xs). unfold mmul, cmat.
    rewrite sum_conj.
    transitivity (sum (rr X) (fun s1 => g X s y 0%nat s1 * chain Xs ys (zeros ys) s1 s') *
                  (sum (rr A) (fun r1 => g A r x y r1 * chain As xs ys r1 r') *
                   sum (rr X) (fun c1 => cj (g X c x 0%nat c1 * chain Xs xs (zeros xs) c1 c')))); [ring|].
    rewrite sum3_prod. apply sum_ext; intros s1 _. apply sum_ext; intros r1 _.
    apply sum_ext; intros c1 _. rewrite conj_mul. ring.
  - rewrite <- dsum_sum. apply sum_ext; intros s1 _. rewrite <- dsum_sum. apply sum_ext; intros r1 _.
    rewrite <- dsum_sum. apply sum_ext; intros c1 _. rewrite <- dsum_scal_l. reflexivity.
Qed.

Lemma Kernel_nil s r c s' r' c' : Kernel [] [] s r c s' r' c' = delta s s' * delta r r' * cj (delta c c').
Proof. unfold Kernel. cbn [rows cols map dsum chain zeros]. reflexivity. Qed.

Lemma block_swap_3_5 n1 n2 n3 m1 m2 m3 m4 m5 (F : nat -> nat -> nat -> nat -> nat -> nat -> nat -> nat -> R) :
  sum n1 (fun i1 => sum n2 (fun i2 => sum n3 (fun i3 =>
    sum m1 (fun j1 => sum m2 (fun j2 => sum m3 (fun j3 => sum m4 (fun j4 => sum m5 (fun j5 => F i1 i2 i3 j1 j2 j3 j4 j5)))))))) =
  sum m1 (fun j1 => sum m2 (fun j2 => sum m3 (fun j3 => sum m4 (fun j4 => sum m5 (fun j5 =>
    sum n1 (fun i1 => sum n2 (fun i2 => sum n3 (fun i3 => F i1 i2 i3 j1 j2 j3 j4 j5)))))))).
Proof.
  exact (msum_swap [n1; n2; n3] [m1; m2; m3; m4; m5]
           (fun l1 l2 => match l1, l2 with
                         | [i1; i2; i3], [j1; j2; j3; j4; j5] => F i1 i2 i3 j1 j2 j3 j4 j5
                         | _, _ => 0
                         end)).
Qed.

Theorem lstack_from_closed : forall (Xs As : list core) (L0 : st3 R) fx fa s' r' c',
  length As = length Xs -> linked Xs fx -> linked As fa ->
  a1 L0 = rl_of Xs fx -> a2 L0 = rl_of As fa -> a3 L0 = rl_of Xs fx ->
  (s' < fx)%nat -> (r' < fa)%nat -> (c' < fx)%nat ->
  f3 (lstack_from L0 Xs As) s' r' c' =
  sum (a3 L0) (fun c => sum (a2 L0) (fun r => sum (a1 L0) (fun s => f3 L0 s r c * Kernel Xs As s r c s' r' c'))).
Proof.
  induction Xs as [|X Xs IH]; intros As L0 fx fa s' r' c' Hl LX LA H1 H2 H3 Hs Hr Hc.
  - destruct As; [|discriminate]. cbn [lstack_from]. cbn [rl_of] in H1, H2, H3.
    rewrite H1, H2, H3.
    rewrite (sum_ext fx _ (fun c => if Nat.eqb c c' then sum fa (fun r => sum fx (fun s => f3 L0 s r c * (delta s s' * delta r r'))) else 0)).
    + rewrite (sum_single fx c' (fun c => sum fa (fun r => sum fx (fun s => f3 L0 s r c * (delta s s' * delta r r'))))) by exact Hc.
      rewrite (sum_ext fa _ (fun r => if Nat.eqb r r' then sum fx (fun s => f3 L0 s r c' * delta s s') else 0)).
      * rewrite (sum_single fa r' (fun r => sum fx (fun s => f3 L0 s r c' * delta s s'))) by exact Hr.
        rewrite (sum_ext fx _ (fun s => if Nat.eqb s s' then f3 L0 s r' c' else 0)).
        -- symmetry. apply (sum_single fx s' (fun s => f3 L0 s r' c')). exact Hs.
        -- intros s _. unfold delta. destruct (Nat.eqb s s'); ring.
      * intros r _. unfold delta at 2. destruct (Nat.eqb r r').
        -- apply sum_ext; intros s _. ring.
        -- apply sum_zero'; intros s _. ring.
    + intros c _. destruct (Nat.eqb_spec c c') as [E|E].
      * subst c. apply sum_ext; intros r _. apply sum_ext; intros s _. rewrite Kernel_nil. unfold delta at 3. rewrite Nat.eqb_refl, conj_1. ring.
      * apply sum_zero'; intros r _. apply sum_zero'; intros s _. rewrite Kernel_nil. unfold delta at 3.
        destruct (Nat.eqb_spec c c'); [contradiction|]. rewrite conj_0. ring.
  - destruct As as [|A As]; [discriminate|]. cbn in Hl.
    destruct LX as (PX & LkX & LX). destruct LA as (PA & LkA & LA). cbn [rl_of] in H1, H2, H3.
    cbn [lstack_from].
    rewrite (IH As (left_op L0 X A) fx fa s' r' c'); try assumption; try lia; try (cbn [left_op a1 a2 a3]; assumption).
    cbn [left_op a1 a2 a3 f3].
    set (K := Kernel Xs As).
    set (F := fun c1 r1 s1 c x r y s => f3 L0 s r c * (g X s y 0%nat s1 * g A r x y r1 * cj (g X c x 0%nat c1)) * K s1 r1 c1 s' r' c').
    transitivity (sum (rr X) (fun c1 => sum (rr A) (fun r1 => sum (rr X) (fun s1 =>
                    sum (a3 L0) (fun c => sum (md A) (fun x => sum (a2 L0) (fun r => sum (nd A) (fun y => sum (a1 L0) (fun s =>
                      F c1 r1 s1 c x r y s))))))))).
    { apply sum_ext; intros c1 _. apply sum_ext; intros r1 _. apply sum_ext; intros s1 _.
      rewrite <- sum_scal_r. apply sum_ext; intros c _.
      rewrite <- sum_scal_r. apply sum_ext; intros x _.
      rewrite <- sum_scal_r, <- sum_scal_r. apply sum_ext; intros r _.
      rewrite <- sum_scal_r, <- sum_scal_r. apply sum_ext; intros y _.
      rewrite <- sum_scal_r, <- sum_scal_r, <- sum_scal_r. apply sum_ext; intros s _. unfold F. ring. }
    rewrite block_swap_3_5.
    apply sum_ext; intros c _.
    (* (x, r, y, s) -> (r, s, x, y) *)
    transitivity (sum (a2 L0) (fun r => sum (a1 L0) (fun s => sum (md A) (fun x => sum (nd A) (fun y =>
                    sum (rr X) (fun c1 => sum (rr A) (fun r1 => sum (rr X) (fun s1 => F c1 r1 s1 c x r y s)))))))).
    { rewrite sum_swap. apply sum_ext; intros r _.
      transitivity (sum (md A) (fun x => sum (a1 L0) (fun s => sum (nd A) (fun y =>
                      sum (rr X) (fun c1 => sum (rr A) (fun r1 => sum (rr X) (fun s1 => F c1 r1 s1 c x r y s))))))).
      - apply sum_ext; intros x _. apply sum_swap.
      - apply sum_swap. }
    apply sum_ext; intros r _. apply sum_ext; intros s _.
    rewrite Kernel_cons. fold K.
    rewrite <- sum_scal_l. apply sum_ext; intros x _. rewrite <- sum_scal_l. apply sum_ext; intros y _.
    rewrite sum3_swap_in.
    rewrite <- sum_scal_l. apply sum_ext; intros s1 _. rewrite <- sum_scal_l. apply sum_ext; intros r1 _.
    rewrite <- sum_scal_l. apply sum_ext; intros c1 _. unfold F. ring.
Qed.

Lemma decode3 m r1 c x c' : (x < m)%nat -> (c' < r1)%nat ->
  (((c * m + x) * r1 + c') / (m * r1) = c /\ (((c * m + x) * r1 + c') / r1) mod m = x /\ ((c * m + x) * r1 + c') mod r1 = c')%nat.
Proof.
  intros Hx Hc'. repeat split.
  - replace ((c * m + x) * r1 + c')%nat with (c * (m * r1) + (x * r1 + c'))%nat by ring.
    apply div_mod_unique_l. nia.
  - rewrite div_mod_unique_l by exact Hc'. apply div_mod_unique_r. exact Hx.
  - apply div_mod_unique_r. exact Hc'.
Qed.

(* frame identity: the micro matrix of ALS at a position is the operator core sandwiched between the closed-form
   environments, i.e. P^H A P for the frame P spanned by the solution cores left and right of the position *)
Theorem frame_als (Xp Ap Xs As : list core) (A : core) fx c x c' s y s' :
  length Ap = length Xp -> linked Xp fx -> linked Ap (rl A) -> rl_of Xp fx = 1%nat -> rl_of Ap (rl A) = 1%nat ->
  length As = length Xs -> linked Xs 1%nat -> linked As 1%nat -> rl_of As 1%nat = rr A ->
  (c < fx)%nat -> (s < fx)%nat -> (c' < rl_of Xs 1)%nat -> (s' < rl_of Xs 1)%nat -> (x < md A)%nat -> (y < nd A)%nat ->
  snd (micro_op_als (lstack_from one3 Xp Ap) (rstack Xs As) A fx (rl_of Xs 1%nat))
      ((c * md A + x) * rl_of Xs 1%nat + c')%nat ((s * nd A + y) * rl_of Xs 1%nat + s')%nat =
  sum (rl A) (fun r => sum (rr A) (fun r' => Kernel Xp Ap 0%nat 0%nat 0%nat s r c * g A r x y r' * RightProd Xs As s' r' c')).
Proof.
  intros HlP LXp LAp H1X H1A HlS LXs LAs HrA Hc Hs Hc' Hs' Hx Hy.
  unfold micro_op_als. cbn [snd].
  destruct (decode3 (md A) (rl_of Xs 1%nat) c x c' Hx Hc') as (D1 & D2 & D3).
  destruct (decode3 (nd A) (rl_of Xs 1%nat) s y s' Hy Hs') as (E1 & E2 & E3).
  rewrite D1, D2, D3, E1, E2, E3.
  destruct (lstack_dims one3 Xp Ap fx (rl A) HlP LXp LAp) as (_ & DL & _); try (cbn [one3 a1 a2 a3]; congruence).
  rewrite DL.
  destruct (rstack_dims Xs As) as (_ & DR & _).
  assert (DR' : a2 (rstack Xs As) = rr A).
  { rewrite DR, <- HrA. destruct Xs as [|X0 Xs0]; destruct As as [|A0 As0]; cbn in *; try lia; try reflexivity; discriminate. }
  rewrite DR'.
  apply sum_ext; intros r Hr. apply sum_ext; intros r' Hr'.
  rewrite (lstack_from_closed Xp Ap one3 fx (rl A) s r c HlP LXp LAp); try (cbn [one3 a1 a2 a3]; congruence); try assumption.
  rewrite (rstack_closed Xs As s' r' c' HlS LXs LAs Hs'); try assumption; [|rewrite HrA; exact Hr'].
  cbn [one3 a1 a2 a3 f3 sum]. ring.
Qed.
End FrameProof.
