(* C02: the remaining tensordot modes (fewer contracted axes than cores of self resp. other).
   last-last  : the last k cores of self with the last k cores of other; result = self-rest ++ reversed other-rest
   first-last : the first k cores of self with the last k cores of other; result = other-rest ++ self-rest
   first-first: the first k cores of self with the first k cores of other; result = reversed other-rest ++ self-rest *)
From Coq Require Import ZArith List Lia Ring Arith Bool.
Import ListNotations.
Require Import Ring Sums Matrix Core Chain Sweep SweepProof Structure StructProof TensordotProof.

Section TensordotModes.
Context {R : cring}.
Add Ring Rr46 : (cring_th R).
Open Scope cr_scope.
Notation core := (core R).

Lemma rl_of_app_ne (cs ds : list core) f : ds <> [] -> rl_of (cs ++ ds) f = rl_of cs (rl_of ds f).
Proof. intros Hne. destruct cs; cbn [app rl_of]; [|reflexivity]. destruct ds; [congruence|reflexivity]. Qed.
Lemma rl_of_headc (ds : list core) f : ds <> [] -> rl_of ds f = rl (headc ds).
Proof. destruct ds; [congruence|reflexivity]. Qed.
Lemma lastc_rr (ds : list core) f : ds <> [] -> linked ds f -> rr (lastc ds) = f /\ (0 < f)%nat.
Proof.
  intros Hne HL. destruct (exists_last Hne) as (l' & cl & ->). unfold lastc. rewrite last_last. apply linked_last in HL. exact HL.
Qed.

Theorem tensordot_last_last_value (pre : list core) (c : core) tpart upre upart xp yp x y xq yq i j :
  let Mat := snd (sliceM LastLast tpart upart) in
  let mc := rl (headc upart) in
  tpart <> [] -> length upart = length tpart -> rows upart = rows tpart -> cols upart = cols tpart ->
  linked (pre ++ c :: tpart) 1%nat -> linked (upre ++ upart) 1%nat ->
  length xp = length pre -> length yp = length pre -> length xq = length upre -> length yq = length upre ->
  (pre = [] -> (i < rl c)%nat) -> (j < rl_of (upre ++ upart) 1%nat)%nat ->
  chain (pre ++ core_mat c mc Mat :: rank_transpose upre) (xp ++ x :: rev xq) (yp ++ y :: rev yq) i j =
  dsum (rows tpart) (cols tpart) (fun zx zy =>
     chain (pre ++ c :: tpart) (xp ++ x :: zx) (yp ++ y :: zy) i 0%nat *
     chain (upre ++ upart) (xq ++ zx) (yq ++ zy) j 0%nat).
Proof.
  intros Mat mc Hne Hl Hrw Hcl HLt HLu Hxp Hyp Hxq Hyq Hi Hj.
  assert (Hune : upart <> []) by (intros ->; destruct tpart; [congruence|discriminate]).
  apply linked_app in HLt. destruct HLt as (Lpre & Lct). cbn [rl_of] in Lpre.
  destruct Lct as (Pc & Ec & Lt).
  apply linked_app in HLu. destruct HLu as (Lupre & Lup).
  rewrite (rl_of_headc upart 1%nat Hune) in Lupre. fold mc in Lupre.
  rewrite (rl_of_app_ne upre upart 1%nat Hune), (rl_of_headc upart 1%nat Hune) in Hj. fold mc in Hj.
  destruct (lastc_rr tpart 1%nat Hne Lt) as (Hlast_t & _).
  destruct (lastc_rr upart 1%nat Hune Lup) as (Hlast_u & _).
  assert (Pmc : (0 < mc)%nat).
  { destruct upre as [|u0 upre']; [cbn [rl_of] in Hj; lia|].
    destruct (lastc_rr (u0 :: upre') mc ltac:(discriminate) Lupre) as (_ & H). exact H. }
  set (Q := fun (b' : nat) (jj : nat) => chain upre xq yq jj b').
  (* left-hand side *)
  transitivity (mmul (rl c) (chain pre xp yp) (mmul mc (mmul (rr c) (cmat c x y) Mat) Q) i j).
  { rewrite (chain_app_mm pre (core_mat c mc Mat :: rank_transpose upre) xp yp (x :: rev xq) (y :: rev yq) (rl c)); try assumption; [|reflexivity].
    apply mmul_ext; intros k Hk; [reflexivity|]. cbn [chain rr core_mat].
    apply mmul_ext; intros b' Hb'; [reflexivity|]. unfold Q.
    apply (chain_rank_transpose upre xq yq j b' mc); assumption. }
  (* right-hand side, pointwise in the contracted indices *)
  transitivity (dsum (rows tpart) (cols tpart) (fun zx zy =>
     mmul (rl c) (chain pre xp yp) (mmul (rr c) (cmat c x y) (chain tpart zx zy)) i 0%nat *
     mmul mc (chain upre xq yq) (chain upart zx zy) j 0%nat)).
  2:{ apply dsum_ext_len; [unfold rows, cols; rewrite !map_length; reflexivity|].
      intros zx zy Hzx Hzy. unfold rows in Hzx, Hzy. rewrite map_length in Hzx, Hzy. f_equal.
      - rewrite (chain_app_mm pre (c :: tpart) xp yp (x :: zx) (y :: zy) (rl c)); try assumption; reflexivity.
      - rewrite (chain_app_mm upre upart xq yq zx zy mc); try assumption; try reflexivity.
        + unfold mc. symmetry. apply rl_of_headc. exact Hune.
        + intros ->. cbn [rl_of] in Hj. exact Hj. }
  (* algebra *)
  set (P := chain pre xp yp). set (C := cmat c x y).
  transitivity (sum (rl c) (fun a => sum mc (fun b' => sum (rr c) (fun q => (P i a * C a q * Q b' j) * Mat q b')))).
  { unfold mmul. apply sum_ext; intros a _. rewrite <- sum_scal_l. apply sum_ext; intros b' _.
    rewrite <- sum_scal_r, <- sum_scal_l. apply sum_ext; intros q _. ring. }
  transitivity (sum (rl c) (fun a => sum mc (fun b' => sum (rr c) (fun q =>
       dsum (rows tpart) (cols tpart) (fun zx zy => (P i a * C a q * Q b' j) * (chain tpart zx zy q 0%nat * chain upart zx zy b' 0%nat)))))).
  { apply sum_ext; intros a _. apply sum_ext; intros b' Hb'. apply sum_ext; intros q _.
    rewrite dsum_scal_l. f_equal. unfold Mat, sliceM. cbn [snd].
    apply contractM_spec; try assumption; lia. }
  erewrite sum_ext; cycle 1.
  { intros a _. erewrite sum_ext; cycle 1.
    { intros b' _. rewrite dsum_sum. reflexivity. }
    rewrite dsum_sum. reflexivity. }
  rewrite dsum_sum. apply dsum_ext; intros zx zy.
  unfold mmul. fold P C.
  rewrite <- sum_scal_r. apply sum_ext; intros a _.
  rewrite <- sum_scal_l. apply sum_ext; intros b' _. unfold Q.
  transitivity (P i a * sum (rr c) (fun q => C a q * chain tpart zx zy q 0%nat) * (chain upre xq yq j b' * chain upart zx zy b' 0%nat)); [|ring].
  rewrite <- sum_scal_l, <- sum_scal_r. apply sum_ext; intros q _. ring.
Qed.

(* the model function [tensordot LastLast] on operands given by their segments *)
Lemma tensordot_ll_unfold (pre : list core) (c : core) tpart upre upart :
  length upart = length tpart ->
  tensordot LastLast (length tpart) (pre ++ c :: tpart) (upre ++ upart) =
  pre ++ core_mat c (rl (headc upart)) (snd (sliceM LastLast tpart upart)) :: rank_transpose upre.
Proof.
  intros Hl. unfold tensordot.
  rewrite !app_length. cbn [length].
  replace (length pre + S (length tpart) - length tpart)%nat with (S (length pre)) by lia.
  replace (length upre + length upart - length tpart)%nat with (length upre) by lia.
  assert (E1 : skipn (S (length pre)) (pre ++ c :: tpart) = tpart).
  { replace (S (length pre)) with (length (pre ++ [c])) by (rewrite app_length; simpl; lia).
    replace (pre ++ c :: tpart) with ((pre ++ [c]) ++ tpart) by (rewrite <- app_assoc; reflexivity).
    rewrite skipn_app, skipn_all, Nat.sub_diag. reflexivity. }
  assert (E2 : skipn (length upre) (upre ++ upart) = upart).
  { rewrite skipn_app, skipn_all, Nat.sub_diag. reflexivity. }
  rewrite E1, E2.
  destruct (sliceM LastLast tpart upart) as ((mr & mc) & Mat) eqn:Es.
  assert (Emc : mc = rl (headc upart)) by (unfold sliceM in Es; inversion Es; reflexivity).
  replace (length tpart =? length pre + S (length tpart))%nat with false by (symmetry; apply Nat.eqb_neq; lia).
  cbn [andb]. cbn [snd].
  replace (S (length pre) - 1)%nat with (length pre) by lia.
  rewrite firstn_app, firstn_all, Nat.sub_diag. cbn [firstn]. rewrite app_nil_r.
  rewrite app_nth2 by lia. rewrite Nat.sub_diag. cbn [nth].
  rewrite firstn_app, firstn_all, Nat.sub_diag. cbn [firstn]. rewrite app_nil_r.
  unfold rank_transpose. rewrite map_rev. subst mc. reflexivity.
Qed.

(* ---- first-last: self = tpart ++ c :: post, other = upre ++ upart ---- *)
Theorem tensordot_first_last_value (tpart : list core) (c : core) post upre upart xq yq x y xp yp j e fin :
  let Mat := snd (sliceM FirstLast tpart upart) in
  let mc := rl (headc upart) in
  tpart <> [] -> length upart = length tpart -> rows upart = rows tpart -> cols upart = cols tpart ->
  linked (tpart ++ c :: post) fin -> rl_of tpart 1%nat = 1%nat -> linked (upre ++ upart) 1%nat ->
  length xq = length upre -> length yq = length upre ->
  (j < rl_of (upre ++ upart) 1%nat)%nat ->
  chain (upre ++ matT_core mc Mat c :: post) (xq ++ x :: xp) (yq ++ y :: yp) j e =
  dsum (rows tpart) (cols tpart) (fun zx zy =>
     chain (upre ++ upart) (xq ++ zx) (yq ++ zy) j 0%nat *
     chain (tpart ++ c :: post) (zx ++ x :: xp) (zy ++ y :: yp) 0%nat e).
Proof.
  intros Mat mc Hne Hl Hrw Hcl HLt Ht0 HLu Hxq Hyq Hj.
  assert (Hune : upart <> []) by (intros ->; destruct tpart; [congruence|discriminate]).
  apply linked_app in HLt. destruct HLt as (Lt & Lc). cbn [rl_of] in Lt.
  apply linked_app in HLu. destruct HLu as (Lupre & Lup).
  rewrite (rl_of_headc upart 1%nat Hune) in Lupre. fold mc in Lupre.
  rewrite (rl_of_app_ne upre upart 1%nat Hune), (rl_of_headc upart 1%nat Hune) in Hj. fold mc in Hj.
  destruct (lastc_rr tpart (rl c) Hne Lt) as (Hlast_t & Prl).
  destruct (lastc_rr upart 1%nat Hune Lup) as (Hlast_u & _).
  set (U' := chain upre xq yq). set (C := cmat c x y). set (Pst := chain post xp yp).
  (* left-hand side *)
  transitivity (mmul mc U' (mmul (rr c) (fun a' q' => sum (rl c) (fun q => Mat q a' * C q q')) Pst) j e).
  { rewrite (chain_app_mm upre (matT_core mc Mat c :: post) xq yq (x :: xp) (y :: yp) mc); try assumption; try reflexivity.
    intros ->. cbn [rl_of] in Hj. exact Hj. }
  (* right-hand side, pointwise *)
  transitivity (dsum (rows tpart) (cols tpart) (fun zx zy =>
     mmul mc U' (chain upart zx zy) j 0%nat *
     mmul (rl c) (chain tpart zx zy) (mmul (rr c) C Pst) 0%nat e)).
  2:{ apply dsum_ext_len; [unfold rows, cols; rewrite !map_length; reflexivity|].
      intros zx zy Hzx Hzy. unfold rows in Hzx, Hzy. rewrite map_length in Hzx, Hzy. f_equal.
      - rewrite (chain_app_mm upre upart xq yq zx zy mc); try assumption; try reflexivity.
        + unfold mc. symmetry. apply rl_of_headc. exact Hune.
        + intros ->. cbn [rl_of] in Hj. exact Hj.
      - rewrite (chain_app_mm tpart (c :: post) zx zy (x :: xp) (y :: yp) (rl c)); try assumption; try reflexivity.
        intros ->. congruence. }
  (* algebra *)
  transitivity (sum mc (fun a' => sum (rr c) (fun q' => sum (rl c) (fun q => (U' j a' * C q q' * Pst q' e) * Mat q a')))).
  { unfold mmul. apply sum_ext; intros a' _. rewrite <- sum_scal_l. apply sum_ext; intros q' _.
    rewrite <- sum_scal_r, <- sum_scal_l. apply sum_ext; intros q _. ring. }
  transitivity (sum mc (fun a' => sum (rr c) (fun q' => sum (rl c) (fun q =>
       dsum (rows tpart) (cols tpart) (fun zx zy => (U' j a' * C q q' * Pst q' e) * (chain tpart zx zy 0%nat q * chain upart zx zy a' 0%nat)))))).
  { apply sum_ext; intros a' Ha'. apply sum_ext; intros q' _. apply sum_ext; intros q Hq.
    rewrite dsum_scal_l. f_equal. unfold Mat, sliceM. cbn [snd].
    apply contractM_spec; try assumption; lia. }
  erewrite sum_ext; cycle 1.
  { intros a' _. erewrite sum_ext; cycle 1.
    { intros q' _. rewrite dsum_sum. reflexivity. }
    rewrite dsum_sum. reflexivity. }
  rewrite dsum_sum. apply dsum_ext; intros zx zy.
  unfold mmul.
  rewrite <- sum_scal_r. apply sum_ext; intros a' _.
  transitivity (U' j a' * chain upart zx zy a' 0%nat *
                sum (rr c) (fun q' => sum (rl c) (fun q => chain tpart zx zy 0%nat q * (C q q' * Pst q' e)))).
  - rewrite <- sum_scal_l. apply sum_ext; intros q' _. rewrite <- sum_scal_l. apply sum_ext; intros q _. ring.
  - f_equal. rewrite sum_swap. apply sum_ext; intros q _. rewrite <- sum_scal_l. reflexivity.
Qed.

Lemma tensordot_fl_unfold (tpart : list core) (c : core) post upre upart :
  length upart = length tpart ->
  tensordot FirstLast (length tpart) (tpart ++ c :: post) (upre ++ upart) =
  upre ++ matT_core (rl (headc upart)) (snd (sliceM FirstLast tpart upart)) c :: post.
Proof.
  intros Hl. unfold tensordot.
  rewrite !app_length. cbn [length].
  replace (length upre + length upart - length tpart)%nat with (length upre) by lia.
  assert (E1 : firstn (length tpart) (tpart ++ c :: post) = tpart).
  { rewrite firstn_app, firstn_all, Nat.sub_diag. cbn [firstn]. apply app_nil_r. }
  assert (E2 : skipn (length upre) (upre ++ upart) = upart).
  { rewrite skipn_app, skipn_all, Nat.sub_diag. reflexivity. }
  rewrite E1, E2.
  destruct (sliceM FirstLast tpart upart) as ((mr & mc) & Mat) eqn:Es.
  assert (Emc : mc = rl (headc upart)) by (unfold sliceM in Es; inversion Es; reflexivity).
  replace (length tpart =? length tpart + S (length post))%nat with false by (symmetry; apply Nat.eqb_neq; lia).
  cbn [andb]. cbn [snd].
  rewrite firstn_app, firstn_all, Nat.sub_diag. cbn [firstn]. rewrite app_nil_r.
  rewrite app_nth2 by lia. rewrite Nat.sub_diag. cbn [nth].
  replace (S (length tpart)) with (length (tpart ++ [c])) by (rewrite app_length; simpl; lia).
  replace (tpart ++ c :: post) with ((tpart ++ [c]) ++ post) by (rewrite <- app_assoc; reflexivity).
  rewrite skipn_app, skipn_all, Nat.sub_diag. cbn [skipn app].
  subst mc. reflexivity.
Qed.

(* ---- first-first: self = tpart ++ c :: post, other = upart ++ upost ---- *)
Theorem tensordot_first_first_value (tpart : list core) (c : core) post upart upost xq yq x y xp yp j e fin finu :
  let Mat := snd (sliceM FirstFirst tpart upart) in
  let mc := rr (lastc upart) in
  tpart <> [] -> length upart = length tpart -> rows upart = rows tpart -> cols upart = cols tpart ->
  linked (tpart ++ c :: post) fin -> rl_of tpart 1%nat = 1%nat ->
  linked (upart ++ upost) finu -> rl_of upart 1%nat = 1%nat ->
  length xq = length upost -> length yq = length upost -> (j < finu)%nat ->
  chain (rank_transpose upost ++ matT_core mc Mat c :: post) (rev xq ++ x :: xp) (rev yq ++ y :: yp) j e =
  dsum (rows tpart) (cols tpart) (fun zx zy =>
     chain (upart ++ upost) (zx ++ xq) (zy ++ yq) 0%nat j *
     chain (tpart ++ c :: post) (zx ++ x :: xp) (zy ++ y :: yp) 0%nat e).
Proof.
  intros Mat mc Hne Hl Hrw Hcl HLt Ht0 HLu Hu0 Hxq Hyq Hj.
  assert (Hune : upart <> []) by (intros ->; destruct tpart; [congruence|discriminate]).
  apply linked_app in HLt. destruct HLt as (Lt & Lc). cbn [rl_of] in Lt.
  apply linked_app in HLu. destruct HLu as (Lup & Lupost).
  destruct (lastc_rr tpart (rl c) Hne Lt) as (Hlast_t & Prl).
  destruct (lastc_rr upart (rl_of upost finu) Hune Lup) as (Hlast_u & Pmc).
  fold mc in Hlast_u. rewrite <- Hlast_u in Lup, Pmc.
  assert (Emc : mc = rl_of upost mc) by (destruct upost; [reflexivity|cbn [rl_of] in *; exact Hlast_u]).
  destruct (linked_rev_rt upost finu mc Lupost (eq_sym Hlast_u) Pmc) as (Lrt & Brt).
  fold (rank_transpose upost) in Lrt, Brt.
  set (V := fun (b' : nat) (jj : nat) => chain upost xq yq b' jj).
  set (C := cmat c x y). set (Pst := chain post xp yp).
  (* left-hand side *)
  transitivity (mmul mc (fun jj b' => V b' jj) (mmul (rr c) (fun a' q' => sum (rl c) (fun q => Mat q a' * C q q')) Pst) j e).
  { rewrite (chain_app_mm (rank_transpose upost) (matT_core mc Mat c :: post) (rev xq) (rev yq) (x :: xp) (y :: yp) mc);
      try assumption; try reflexivity.
    - apply mmul_ext; intros b' Hb'; [|reflexivity]. unfold V.
      apply (chain_rank_transpose upost xq yq b' j finu); try assumption. rewrite <- Hlast_u. exact Hb'.
    - unfold rank_transpose. rewrite !rev_length, map_length. exact Hxq.
    - unfold rank_transpose. rewrite !rev_length, map_length. exact Hyq.
    - intros E. unfold rank_transpose in E. destruct upost as [|u0 up']; [cbn [rl_of] in Hlast_u; lia|].
      exfalso. cbn [map rev] in E. destruct (rev (map rtcore up')); discriminate. }
  (* right-hand side, pointwise *)
  transitivity (dsum (rows tpart) (cols tpart) (fun zx zy =>
     mmul mc (chain upart zx zy) (chain upost xq yq) 0%nat j *
     mmul (rl c) (chain tpart zx zy) (mmul (rr c) C Pst) 0%nat e)).
  2:{ apply dsum_ext_len; [unfold rows, cols; rewrite !map_length; reflexivity|].
      intros zx zy Hzx Hzy. unfold rows in Hzx, Hzy. rewrite map_length in Hzx, Hzy. f_equal.
      - rewrite (chain_app_mm upart upost zx zy xq yq mc); try assumption; try reflexivity; try lia.
      - rewrite (chain_app_mm tpart (c :: post) zx zy (x :: xp) (y :: yp) (rl c)); try assumption; try reflexivity.
        intros ->. congruence. }
  (* algebra *)
  transitivity (sum mc (fun b' => sum (rr c) (fun q' => sum (rl c) (fun q => (V b' j * C q q' * Pst q' e) * Mat q b')))).
  { unfold mmul. apply sum_ext; intros b' _. rewrite <- sum_scal_l. apply sum_ext; intros q' _.
    rewrite <- sum_scal_r, <- sum_scal_l. apply sum_ext; intros q _. ring. }
  transitivity (sum mc (fun b' => sum (rr c) (fun q' => sum (rl c) (fun q =>
       dsum (rows tpart) (cols tpart) (fun zx zy => (V b' j * C q q' * Pst q' e) * (chain tpart zx zy 0%nat q * chain upart zx zy 0%nat b')))))).
  { apply sum_ext; intros b' Hb'. apply sum_ext; intros q' _. apply sum_ext; intros q Hq.
    rewrite dsum_scal_l. f_equal. unfold Mat, sliceM. cbn [snd].
    apply contractM_spec; try assumption; lia. }
  erewrite sum_ext; cycle 1.
  { intros b' _. erewrite sum_ext; cycle 1.
    { intros q' _. rewrite dsum_sum. reflexivity. }
    rewrite dsum_sum. reflexivity. }
  rewrite dsum_sum. apply dsum_ext; intros zx zy.
  unfold mmul.
  rewrite <- sum_scal_r. apply sum_ext; intros b' _. unfold V.
  transitivity (chain upart zx zy 0%nat b' * chain upost xq yq b' j *
                sum (rr c) (fun q' => sum (rl c) (fun q => chain tpart zx zy 0%nat q * (C q q' * Pst q' e)))).
  - rewrite <- sum_scal_l. apply sum_ext; intros q' _. rewrite <- sum_scal_l. apply sum_ext; intros q _. ring.
  - f_equal. rewrite sum_swap. apply sum_ext; intros q _. rewrite <- sum_scal_l. reflexivity.
Qed.

Lemma tensordot_ff_unfold (tpart : list core) (c : core) post upart upost :
  length upart = length tpart ->
  tensordot FirstFirst (length tpart) (tpart ++ c :: post) (upart ++ upost) =
  rank_transpose upost ++ matT_core (rr (lastc upart)) (snd (sliceM FirstFirst tpart upart)) c :: post.
Proof.
  intros Hl. unfold tensordot.
  rewrite !app_length. cbn [length].
  assert (E1 : firstn (length tpart) (tpart ++ c :: post) = tpart).
  { rewrite firstn_app, firstn_all, Nat.sub_diag. cbn [firstn]. apply app_nil_r. }
  assert (E2 : firstn (length tpart) (upart ++ upost) = upart).
  { rewrite <- Hl. rewrite firstn_app, firstn_all, Nat.sub_diag. cbn [firstn]. apply app_nil_r. }
  rewrite E1, E2.
  destruct (sliceM FirstFirst tpart upart) as ((mr & mc) & Mat) eqn:Es.
  assert (Emc : mc = rr (lastc upart)) by (unfold sliceM in Es; inversion Es; reflexivity).
  replace (length tpart =? length tpart + S (length post))%nat with false by (symmetry; apply Nat.eqb_neq; lia).
  cbn [andb]. cbn [snd].
  rewrite app_nth2 by lia. rewrite Nat.sub_diag. cbn [nth].
  assert (E3 : skipn (length tpart) (upart ++ upost) = upost).
  { rewrite <- Hl. rewrite skipn_app, skipn_all, Nat.sub_diag. reflexivity. }
  assert (E4 : skipn (S (length tpart)) (tpart ++ c :: post) = post).
  { replace (S (length tpart)) with (length (tpart ++ [c])) by (rewrite app_length; simpl; lia).
    replace (tpart ++ c :: post) with ((tpart ++ [c]) ++ post) by (rewrite <- app_assoc; reflexivity).
    rewrite skipn_app, skipn_all, Nat.sub_diag. reflexivity. }
  rewrite E3, E4.
  unfold rank_transpose. rewrite map_rev. subst mc. reflexivity.
Qed.

(* ==== self contracted completely (num_axes = order of self), other longer ==== *)

(* last-first: self = tpart, other = upart ++ d :: post *)
Theorem tensordot_lf_full_value (tpart upart : list core) (d : core) post x y xq yq i j fin :
  let Mat := snd (sliceM LastFirst tpart upart) in
  let mr := rl (headc tpart) in
  tpart <> [] -> length upart = length tpart -> rows upart = rows tpart -> cols upart = cols tpart ->
  linked tpart 1%nat -> linked (upart ++ d :: post) fin -> rl_of upart 1%nat = 1%nat ->
  chain (mat_core mr Mat d :: post) (x :: xq) (y :: yq) i j =
  dsum (rows tpart) (cols tpart) (fun zx zy =>
     chain tpart zx zy i 0%nat * chain (upart ++ d :: post) (zx ++ x :: xq) (zy ++ y :: yq) 0%nat j).
Proof.
  intros Mat mr Hne Hl Hrw Hcl Lt HLu Hu0.
  assert (Hune : upart <> []) by (intros ->; destruct tpart; [congruence|discriminate]).
  apply linked_app in HLu. destruct HLu as (Lup & Ld). cbn [rl_of] in Lup.
  destruct (lastc_rr tpart 1%nat Hne Lt) as (Hlast_t & _).
  destruct (lastc_rr upart (rl d) Hune Lup) as (Hlast_u & Prl).
  set (C := cmat d x y). set (Pst := chain post xq yq).
  transitivity (mmul (rr d) (fun a e => sum (rl d) (fun q => Mat a q * C q e)) Pst i j).
  { cbn [chain rr mat_core]. reflexivity. }
  transitivity (dsum (rows tpart) (cols tpart) (fun zx zy =>
     chain tpart zx zy i 0%nat * mmul (rl d) (chain upart zx zy) (mmul (rr d) C Pst) 0%nat j)).
  2:{ apply dsum_ext_len; [unfold rows, cols; rewrite !map_length; reflexivity|].
      intros zx zy Hzx Hzy. unfold rows in Hzx, Hzy. rewrite map_length in Hzx, Hzy. f_equal.
      rewrite (chain_app_mm upart (d :: post) zx zy (x :: xq) (y :: yq) (rl d)); try assumption; try reflexivity; try lia. }
  transitivity (sum (rr d) (fun e => sum (rl d) (fun q =>
       dsum (rows tpart) (cols tpart) (fun zx zy => (C q e * Pst e j) * (chain tpart zx zy i 0%nat * chain upart zx zy 0%nat q))))).
  { unfold mmul. apply sum_ext; intros e _. rewrite <- sum_scal_r. apply sum_ext; intros q Hq.
    rewrite dsum_scal_l. unfold Mat, sliceM. cbn [snd].
    rewrite contractM_spec by (try assumption; lia). unfold Prod. ring. }
  erewrite sum_ext; cycle 1.
  { intros e _. rewrite dsum_sum. reflexivity. }
  rewrite dsum_sum. apply dsum_ext; intros zx zy.
  unfold mmul.
  transitivity (chain tpart zx zy i 0%nat * sum (rr d) (fun e => sum (rl d) (fun q => chain upart zx zy 0%nat q * (C q e * Pst e j)))).
  - rewrite <- sum_scal_l. apply sum_ext; intros e _. rewrite <- sum_scal_l. apply sum_ext; intros q _. ring.
  - f_equal. rewrite sum_swap. apply sum_ext; intros q _. rewrite <- sum_scal_l. reflexivity.
Qed.

(* first-first, before the rank transposition: self = tpart (completely contracted, right rank open), other = upart ++ d :: post *)
Theorem tensordot_ff_full_pre (tpart upart : list core) (d : core) post x y xq yq i j fin fint :
  let Mat := snd (sliceM FirstFirst tpart upart) in
  let mr := rr (lastc tpart) in
  tpart <> [] -> length upart = length tpart -> rows upart = rows tpart -> cols upart = cols tpart ->
  linked tpart fint -> rl_of tpart 1%nat = 1%nat -> linked (upart ++ d :: post) fin -> rl_of upart 1%nat = 1%nat -> (i < fint)%nat ->
  chain (mat_core mr Mat d :: post) (x :: xq) (y :: yq) i j =
  dsum (rows tpart) (cols tpart) (fun zx zy =>
     chain tpart zx zy 0%nat i * chain (upart ++ d :: post) (zx ++ x :: xq) (zy ++ y :: yq) 0%nat j).
Proof.
  intros Mat mr Hne Hl Hrw Hcl Lt Ht0 HLu Hu0 Hi.
  assert (Hune : upart <> []) by (intros ->; destruct tpart; [congruence|discriminate]).
  apply linked_app in HLu. destruct HLu as (Lup & Ld). cbn [rl_of] in Lup.
  destruct (lastc_rr tpart fint Hne Lt) as (Hlast_t & _).
  destruct (lastc_rr upart (rl d) Hune Lup) as (Hlast_u & Prl).
  set (C := cmat d x y). set (Pst := chain post xq yq).
  transitivity (mmul (rr d) (fun a e => sum (rl d) (fun q => Mat a q * C q e)) Pst i j).
  { cbn [chain rr mat_core]. reflexivity. }
  transitivity (dsum (rows tpart) (cols tpart) (fun zx zy =>
     chain tpart zx zy 0%nat i * mmul (rl d) (chain upart zx zy) (mmul (rr d) C Pst) 0%nat j)).
  2:{ apply dsum_ext_len; [unfold rows, cols; rewrite !map_length; reflexivity|].
      intros zx zy Hzx Hzy. unfold rows in Hzx, Hzy. rewrite map_length in Hzx, Hzy. f_equal.
      rewrite (chain_app_mm upart (d :: post) zx zy (x :: xq) (y :: yq) (rl d)); try assumption; try reflexivity; try lia. }
  transitivity (sum (rr d) (fun e => sum (rl d) (fun q =>
       dsum (rows tpart) (cols tpart) (fun zx zy => (C q e * Pst e j) * (chain tpart zx zy 0%nat i * chain upart zx zy 0%nat q))))).
  { unfold mmul. apply sum_ext; intros e _. rewrite <- sum_scal_r. apply sum_ext; intros q Hq.
    rewrite dsum_scal_l. unfold Mat, sliceM. cbn [snd].
    rewrite contractM_spec by (try assumption; try lia; rewrite Hlast_t; exact Hi). unfold Prod. ring. }
  erewrite sum_ext; cycle 1.
  { intros e _. rewrite dsum_sum. reflexivity. }
  rewrite dsum_sum. apply dsum_ext; intros zx zy.
  unfold mmul.
  transitivity (chain tpart zx zy 0%nat i * sum (rr d) (fun e => sum (rl d) (fun q => chain upart zx zy 0%nat q * (C q e * Pst e j)))).
  - rewrite <- sum_scal_l. apply sum_ext; intros e _. rewrite <- sum_scal_l. apply sum_ext; intros q _. ring.
  - f_equal. rewrite sum_swap. apply sum_ext; intros q _. rewrite <- sum_scal_l. reflexivity.
Qed.

Lemma tensordot_lf_full_unfold (tpart upart : list core) (d : core) post :
  length upart = length tpart ->
  tensordot LastFirst (length tpart) tpart (upart ++ d :: post) =
  mat_core (rl (headc tpart)) (snd (sliceM LastFirst tpart upart)) d :: post.
Proof.
  intros Hl. unfold tensordot.
  rewrite !app_length. cbn [length].
  rewrite Nat.sub_diag. rewrite skipn_O.
  assert (E2 : firstn (length tpart) (upart ++ d :: post) = upart).
  { rewrite <- Hl. rewrite firstn_app, firstn_all, Nat.sub_diag. cbn [firstn]. apply app_nil_r. }
  rewrite E2.
  destruct (sliceM LastFirst tpart upart) as ((mr & mc) & Mat) eqn:Es.
  assert (Emr : mr = rl (headc tpart)) by (unfold sliceM in Es; inversion Es; reflexivity).
  rewrite Nat.eqb_refl.
  replace (length tpart =? length upart + S (length post))%nat with false by (symmetry; apply Nat.eqb_neq; lia).
  cbn [andb snd].
  rewrite <- Hl. rewrite app_nth2 by lia. rewrite Nat.sub_diag. cbn [nth].
  replace (S (length upart)) with (length (upart ++ [d])) by (rewrite app_length; simpl; lia).
  replace (upart ++ d :: post) with ((upart ++ [d]) ++ post) by (rewrite <- app_assoc; reflexivity).
  rewrite skipn_app, skipn_all, Nat.sub_diag. cbn [skipn app].
  subst mr. reflexivity.
Qed.

(* first-last: self = tpart (completely contracted), other = upre ++ d :: upart; the open right rank of self survives *)
Theorem tensordot_fl_full_value (tpart : list core) upre (d : core) upart xq yq x y j b fint :
  let Mat := snd (sliceM FirstLast tpart upart) in
  let mr := rr (lastc tpart) in
  tpart <> [] -> length upart = length tpart -> rows upart = rows tpart -> cols upart = cols tpart ->
  linked tpart fint -> rl_of tpart 1%nat = 1%nat -> linked (upre ++ d :: upart) 1%nat ->
  length xq = length upre -> length yq = length upre ->
  (upre = [] -> (j < rl d)%nat) -> (b < fint)%nat ->
  chain (upre ++ [core_matT d mr Mat]) (xq ++ [x]) (yq ++ [y]) j b =
  dsum (rows tpart) (cols tpart) (fun zx zy =>
     chain (upre ++ d :: upart) (xq ++ x :: zx) (yq ++ y :: zy) j 0%nat * chain tpart zx zy 0%nat b).
Proof.
  intros Mat mr Hne Hl Hrw Hcl Lt Ht0 HLu Hxq Hyq Hj Hb.
  assert (Hune : upart <> []) by (intros ->; destruct tpart; [congruence|discriminate]).
  apply linked_app in HLu. destruct HLu as (Lupre & Ld). cbn [rl_of] in Lupre.
  destruct Ld as (Pd & Ed & Lup).
  destruct (lastc_rr tpart fint Hne Lt) as (Hlast_t & Pf). fold mr in Hlast_t.
  destruct (lastc_rr upart 1%nat Hune Lup) as (Hlast_u & _).
  set (U' := chain upre xq yq). set (C := cmat d x y).
  transitivity (mmul (rl d) U' (fun a bb => sum (rr d) (fun q => C a q * Mat bb q)) j b).
  { rewrite (chain_app_mm upre [core_matT d mr Mat] xq yq [x] [y] (rl d)); try assumption; try reflexivity.
    apply mmul_ext; intros a Ha; [reflexivity|]. cbn [chain rr core_matT].
    rewrite (mmul_delta_r mr (cmat (core_matT d mr Mat) x y)) by (rewrite Hlast_t; exact Hb). reflexivity. }
  transitivity (dsum (rows tpart) (cols tpart) (fun zx zy =>
     mmul (rl d) U' (mmul (rr d) C (chain upart zx zy)) j 0%nat * chain tpart zx zy 0%nat b)).
  2:{ apply dsum_ext_len; [unfold rows, cols; rewrite !map_length; reflexivity|].
      intros zx zy Hzx Hzy. f_equal.
      rewrite (chain_app_mm upre (d :: upart) xq yq (x :: zx) (y :: zy) (rl d)); try assumption; reflexivity. }
  transitivity (sum (rl d) (fun a => sum (rr d) (fun q =>
       dsum (rows tpart) (cols tpart) (fun zx zy => (U' j a * C a q) * (chain tpart zx zy 0%nat b * chain upart zx zy q 0%nat))))).
  { unfold mmul. apply sum_ext; intros a _. rewrite <- sum_scal_l. apply sum_ext; intros q Hq.
    rewrite dsum_scal_l. unfold Mat, sliceM. cbn [snd].
    rewrite contractM_spec by (try assumption; try lia; rewrite Hlast_t; exact Hb). unfold Prod. ring. }
  erewrite sum_ext; cycle 1.
  { intros a _. rewrite dsum_sum. reflexivity. }
  rewrite dsum_sum. apply dsum_ext; intros zx zy.
  unfold mmul. rewrite <- sum_scal_r. apply sum_ext; intros a _.
  transitivity (U' j a * sum (rr d) (fun q => C a q * chain upart zx zy q 0%nat) * chain tpart zx zy 0%nat b); [|ring].
  rewrite <- sum_scal_l, <- sum_scal_r. apply sum_ext; intros q _. ring.
Qed.

(* last-last, before the rank transposition: self = tpart (completely contracted, left rank i open), other = upre ++ d :: upart *)
Theorem tensordot_ll_full_pre (tpart : list core) upre (d : core) upart xq yq x y j b fint :
  let Mat := snd (sliceM LastLast tpart upart) in
  let mr := rl (headc tpart) in
  tpart <> [] -> length upart = length tpart -> rows upart = rows tpart -> cols upart = cols tpart ->
  linked tpart 1%nat -> fint = rl (headc tpart) -> linked (upre ++ d :: upart) 1%nat ->
  length xq = length upre -> length yq = length upre ->
  (upre = [] -> (j < rl d)%nat) -> (b < fint)%nat ->
  chain (upre ++ [core_matT d mr Mat]) (xq ++ [x]) (yq ++ [y]) j b =
  dsum (rows tpart) (cols tpart) (fun zx zy =>
     chain (upre ++ d :: upart) (xq ++ x :: zx) (yq ++ y :: zy) j 0%nat * chain tpart zx zy b 0%nat).
Proof.
  intros Mat mr Hne Hl Hrw Hcl Lt Ht0 HLu Hxq Hyq Hj Hb.
  assert (Hune : upart <> []) by (intros ->; destruct tpart; [congruence|discriminate]).
  apply linked_app in HLu. destruct HLu as (Lupre & Ld). cbn [rl_of] in Lupre.
  destruct Ld as (Pd & Ed & Lup).
  destruct (lastc_rr tpart 1%nat Hne Lt) as (Hlast_t & _). assert (Hmr : mr = fint) by (unfold mr; symmetry; exact Ht0).
  destruct (lastc_rr upart 1%nat Hune Lup) as (Hlast_u & _).
  set (U' := chain upre xq yq). set (C := cmat d x y).
  transitivity (mmul (rl d) U' (fun a bb => sum (rr d) (fun q => C a q * Mat bb q)) j b).
  { rewrite (chain_app_mm upre [core_matT d mr Mat] xq yq [x] [y] (rl d)); try assumption; try reflexivity.
    apply mmul_ext; intros a Ha; [reflexivity|]. cbn [chain rr core_matT].
    rewrite (mmul_delta_r mr (cmat (core_matT d mr Mat) x y)) by (rewrite Hmr; exact Hb). reflexivity. }
  transitivity (dsum (rows tpart) (cols tpart) (fun zx zy =>
     mmul (rl d) U' (mmul (rr d) C (chain upart zx zy)) j 0%nat * chain tpart zx zy b 0%nat)).
  2:{ apply dsum_ext_len; [unfold rows, cols; rewrite !map_length; reflexivity|].
      intros zx zy Hzx Hzy. f_equal.
      rewrite (chain_app_mm upre (d :: upart) xq yq (x :: zx) (y :: zy) (rl d)); try assumption; reflexivity. }
  transitivity (sum (rl d) (fun a => sum (rr d) (fun q =>
       dsum (rows tpart) (cols tpart) (fun zx zy => (U' j a * C a q) * (chain tpart zx zy b 0%nat * chain upart zx zy q 0%nat))))).
  { unfold mmul. apply sum_ext; intros a _. rewrite <- sum_scal_l. apply sum_ext; intros q Hq.
    rewrite dsum_scal_l. unfold Mat, sliceM. cbn [snd].
    rewrite contractM_spec by (try assumption; lia). unfold Prod. ring. }
  erewrite sum_ext; cycle 1.
  { intros a _. rewrite dsum_sum. reflexivity. }
  rewrite dsum_sum. apply dsum_ext; intros zx zy.
  unfold mmul. rewrite <- sum_scal_r. apply sum_ext; intros a _.
  transitivity (U' j a * sum (rr d) (fun q => C a q * chain upart zx zy q 0%nat) * chain tpart zx zy b 0%nat); [|ring].
  rewrite <- sum_scal_l, <- sum_scal_r. apply sum_ext; intros q _. ring.
Qed.

Lemma tensordot_fl_full_unfold (tpart : list core) upre (d : core) upart :
  length upart = length tpart ->
  tensordot FirstLast (length tpart) tpart (upre ++ d :: upart) =
  upre ++ [core_matT d (rr (lastc tpart)) (snd (sliceM FirstLast tpart upart))].
Proof.
  intros Hl. unfold tensordot.
  rewrite !app_length. cbn [length].
  replace (length upre + S (length upart) - length tpart)%nat with (S (length upre)) by lia.
  assert (E1 : firstn (length tpart) tpart = tpart) by apply firstn_all.
  assert (E2 : skipn (S (length upre)) (upre ++ d :: upart) = upart).
  { replace (S (length upre)) with (length (upre ++ [d])) by (rewrite app_length; simpl; lia).
    replace (upre ++ d :: upart) with ((upre ++ [d]) ++ upart) by (rewrite <- app_assoc; reflexivity).
    rewrite skipn_app, skipn_all, Nat.sub_diag. reflexivity. }
  rewrite E1, E2.
  destruct (sliceM FirstLast tpart upart) as ((mr & mc) & Mat) eqn:Es.
  assert (Emr : mr = rr (lastc tpart)) by (unfold sliceM in Es; inversion Es; reflexivity).
  rewrite Nat.eqb_refl.
  replace (length tpart =? length upre + S (length upart))%nat with false by (symmetry; apply Nat.eqb_neq; lia).
  cbn [andb snd].
  replace (S (length upre) - 1)%nat with (length upre) by lia.
  rewrite firstn_app, firstn_all, Nat.sub_diag. cbn [firstn]. rewrite app_nil_r.
  rewrite app_nth2 by lia. rewrite Nat.sub_diag. cbn [nth].
  subst mr. reflexivity.
Qed.

Theorem tensordot_ll_full_value (tpart : list core) upre (d : core) upart xq yq x y i j :
  let Mat := snd (sliceM LastLast tpart upart) in
  let mr := rl (headc tpart) in
  tpart <> [] -> length upart = length tpart -> rows upart = rows tpart -> cols upart = cols tpart ->
  linked tpart 1%nat -> linked (upre ++ d :: upart) 1%nat ->
  length xq = length upre -> length yq = length upre ->
  (j < rl_of (upre ++ [d]) 1%nat)%nat -> (i < mr)%nat ->
  chain (rank_transpose (upre ++ [core_matT d mr Mat])) (rev (xq ++ [x])) (rev (yq ++ [y])) i j =
  dsum (rows tpart) (cols tpart) (fun zx zy =>
     chain tpart zx zy i 0%nat * chain (upre ++ d :: upart) (xq ++ x :: zx) (yq ++ y :: zy) j 0%nat).
Proof.
  intros Mat mr Hne Hl Hrw Hcl Lt HLu Hxq Hyq Hj Hi. subst Mat mr.
  assert (HLu' := HLu). apply linked_app in HLu'. destruct HLu' as (Lupre & Ld). cbn [rl_of] in Lupre.
  rewrite (chain_rank_transpose (upre ++ [core_matT d (rl (headc tpart)) (snd (sliceM LastLast tpart upart))]) (xq ++ [x]) (yq ++ [y]) j i (rl (headc tpart))).
  - rewrite (tensordot_ll_full_pre tpart upre d upart xq yq x y j i (rl (headc tpart)) Hne Hl Hrw Hcl Lt eq_refl HLu Hxq Hyq).
    + apply dsum_ext; intros zx zy. ring.
    + intros ->. cbn [app rl_of] in Hj. exact Hj.
    + exact Hi.
  - rewrite !app_length. cbn [length]. lia.
  - rewrite !app_length. cbn [length]. lia.
  - apply linked_app. cbn [rl_of core_matT rl linked rr]. split; [exact Lupre|]. repeat split; lia.
  - destruct upre; cbn [app rl_of core_matT rl] in *; exact Hj.
  - exact Hi.
Qed.

Lemma tensordot_ll_full_unfold (tpart : list core) upre (d : core) upart :
  length upart = length tpart ->
  tensordot LastLast (length tpart) tpart (upre ++ d :: upart) =
  rank_transpose (upre ++ [core_matT d (rl (headc tpart)) (snd (sliceM LastLast tpart upart))]).
Proof.
  intros Hl. unfold tensordot.
  rewrite !app_length. cbn [length].
  rewrite Nat.sub_diag. rewrite skipn_O.
  replace (length upre + S (length upart) - length tpart)%nat with (S (length upre)) by lia.
  assert (E2 : skipn (S (length upre)) (upre ++ d :: upart) = upart).
  { replace (S (length upre)) with (length (upre ++ [d])) by (rewrite app_length; simpl; lia).
    replace (upre ++ d :: upart) with ((upre ++ [d]) ++ upart) by (rewrite <- app_assoc; reflexivity).
    rewrite skipn_app, skipn_all, Nat.sub_diag. reflexivity. }
  rewrite E2.
  destruct (sliceM LastLast tpart upart) as ((mr & mc) & Mat) eqn:Es.
  assert (Emr : mr = rl (headc tpart)) by (unfold sliceM in Es; inversion Es; reflexivity).
  rewrite Nat.eqb_refl.
  replace (length tpart =? length upre + S (length upart))%nat with false by (symmetry; apply Nat.eqb_neq; lia).
  cbn [andb snd].
  replace (S (length upre) - 1)%nat with (length upre) by lia.
  rewrite firstn_app, firstn_all, Nat.sub_diag. cbn [firstn]. rewrite app_nil_r.
  rewrite app_nth2 by lia. rewrite Nat.sub_diag. cbn [nth].
  unfold rank_transpose. rewrite map_app, rev_app_distr. cbn [map rev app]. rewrite map_rev. subst mr. reflexivity.
Qed.

Theorem tensordot_ff_full_value (tpart upart : list core) (d : core) upost x y xq yq b j finu fint :
  let Mat := snd (sliceM FirstFirst tpart upart) in
  let mr := rr (lastc tpart) in
  tpart <> [] -> length upart = length tpart -> rows upart = rows tpart -> cols upart = cols tpart ->
  linked tpart fint -> rl_of tpart 1%nat = 1%nat -> linked (upart ++ d :: upost) finu -> rl_of upart 1%nat = 1%nat ->
  length xq = length upost -> length yq = length upost -> (b < fint)%nat -> (j < finu)%nat ->
  chain (rank_transpose (mat_core mr Mat d :: upost)) (rev (x :: xq)) (rev (y :: yq)) j b =
  dsum (rows tpart) (cols tpart) (fun zx zy =>
     chain tpart zx zy 0%nat b * chain (upart ++ d :: upost) (zx ++ x :: xq) (zy ++ y :: yq) 0%nat j).
Proof.
  intros Mat mr Hne Hl Hrw Hcl Lt Ht0 HLu Hu0 Hxq Hyq Hb Hj. subst Mat mr.
  assert (HLu' := HLu). apply linked_app in HLu'. destruct HLu' as (Lup & Ld). cbn [rl_of] in Lup.
  destruct Ld as (Pd & Ed & Lpost).
  destruct (lastc_rr tpart fint Hne Lt) as (Hlast_t & Pf).
  rewrite (chain_rank_transpose (mat_core (rr (lastc tpart)) (snd (sliceM FirstFirst tpart upart)) d :: upost) (x :: xq) (y :: yq) b j finu).
  - exact (tensordot_ff_full_pre tpart upart d upost x y xq yq b j finu fint Hne Hl Hrw Hcl Lt Ht0 HLu Hu0 Hb).
  - cbn [length]. lia.
  - cbn [length]. lia.
  - cbn [linked rr mat_core]. repeat split; assumption.
  - cbn [rl_of rl mat_core]. rewrite Hlast_t. exact Hb.
  - exact Hj.
Qed.

Lemma tensordot_ff_full_unfold (tpart upart : list core) (d : core) upost :
  length upart = length tpart ->
  tensordot FirstFirst (length tpart) tpart (upart ++ d :: upost) =
  rank_transpose (mat_core (rr (lastc tpart)) (snd (sliceM FirstFirst tpart upart)) d :: upost).
Proof.
  intros Hl. unfold tensordot.
  rewrite !app_length. cbn [length].
  assert (E1 : firstn (length tpart) tpart = tpart) by apply firstn_all.
  assert (E2 : firstn (length tpart) (upart ++ d :: upost) = upart).
  { rewrite <- Hl. rewrite firstn_app, firstn_all, Nat.sub_diag. cbn [firstn]. apply app_nil_r. }
  rewrite E1, E2.
  destruct (sliceM FirstFirst tpart upart) as ((mr & mc) & Mat) eqn:Es.
  assert (Emr : mr = rr (lastc tpart)) by (unfold sliceM in Es; inversion Es; reflexivity).
  rewrite Nat.eqb_refl.
  replace (length tpart =? length upart + S (length upost))%nat with false by (symmetry; apply Nat.eqb_neq; lia).
  cbn [andb snd].
  assert (E3 : skipn (S (length tpart)) (upart ++ d :: upost) = upost).
  { rewrite <- Hl. replace (S (length upart)) with (length (upart ++ [d])) by (rewrite app_length; simpl; lia).
    replace (upart ++ d :: upost) with ((upart ++ [d]) ++ upost) by (rewrite <- app_assoc; reflexivity).
    rewrite skipn_app, skipn_all, Nat.sub_diag. reflexivity. }
  rewrite E3. rewrite <- Hl at 1. rewrite app_nth2 by lia. rewrite Nat.sub_diag. cbn [nth].
  unfold rank_transpose. cbn [map rev]. rewrite map_app, map_rev. cbn [map]. subst mr. reflexivity.
Qed.

End TensordotModes.
