(* C10: one stage of a splitting step, as coded (pairs of the given parity contracted, propagated, split again by an SVD;
   the unpaired last site propagated alone), applies the tensor product of the local propagators to the tensor train. *)
From Coq Require Import ZArith List Lia Ring Arith Bool.
Import ListNotations.
Require Import Ring Sums Matrix Core Chain Sweep SweepProof Splitting SplitProof.

Section StageProof.
Context {R : cring}.
Add Ring Rr34 : (cring_th R).
Open Scope cr_scope.
Notation core := (core R).
Notation svd_ans := (svd_ans R).

Definition zeros (n : nat) := repeat 0%nat n.
Definition Kat (Ks : list (M R)) (pos : nat) : M R := nth pos Ks (fun _ _ => 0).

(* the hypotheses on the SVD answers consumed by the stage: each reproduces the matrix it was given *)
Fixpoint stage_hyp (thr : option (R -> R -> bool)) (maxr : option nat) (Ks : list (M R)) (even : bool)
         (fuel pos : nat) (answers : list svd_ans) (cs : list core) : Prop :=
  match fuel with
  | O => True
  | S fuel' =>
      match cs with
      | c :: ((c1 :: rest) as tl) =>
          if parity_ok even pos then
            match answers with
            | a :: as' => svd_value (select thr maxr a) (rl c * md c) (md c1 * rr c1) (pair_matrix (Kat Ks pos) c c1) a /\
                          stage_hyp thr maxr Ks even fuel' (S (S pos)) as' rest
            | [] => False
            end
          else stage_hyp thr maxr Ks even fuel' (S pos) answers tl
      | _ => True
      end
  end.

(* the weight with which an input index tuple ys contributes to the output tuple xs *)
Fixpoint Wst (Ks : list (M R)) (even : bool) (fuel pos : nat) (dims xs ys : list nat) : R :=
  match fuel with
  | O => 0
  | S fuel' =>
      match dims, xs, ys with
      | [], [], [] => 1
      | [n], [x], [y] => if parity_ok even pos then Kat Ks pos x y else delta x y
      | n :: ((n1 :: rest) as tl), x :: ((x1 :: xs') as xtl), y :: ((y1 :: ys') as ytl) =>
          if parity_ok even pos then Kat Ks pos (x * n1 + x1)%nat (y * n1 + y1)%nat * Wst Ks even fuel' (S (S pos)) rest xs' ys'
          else delta x y * Wst Ks even fuel' (S pos) tl xtl ytl
      | _, _, _ => 0
      end
  end.

Definition stage_cores thr maxr Ks even fuel pos answers (cs : list core) : list core :=
  fst (fst (stage thr maxr Ks even fuel pos answers cs)).

Lemma stage_len thr maxr Ks even : forall fuel pos answers (cs : list core),
  stage_hyp thr maxr Ks even fuel pos answers cs -> length (stage_cores thr maxr Ks even fuel pos answers cs) = length cs.
Proof.
  unfold stage_cores. induction fuel as [|fuel IH]; intros pos answers cs H; [reflexivity|].
  cbn [stage]. destruct cs as [|c [|c1 rest]]; [reflexivity| |].
  - destruct (parity_ok even pos); reflexivity.
  - cbn [stage_hyp] in H. destruct (parity_ok even pos).
    + destruct answers as [|a as']; [contradiction|]. destruct H as [_ H].
      specialize (IH (S (S pos)) as' rest H).
      destruct (stage thr maxr Ks even fuel (S (S pos)) as' rest) as [[out rem] log]. cbn [fst length] in *. lia.
    + specialize (IH (S pos) answers (c1 :: rest) H).
      destruct (stage thr maxr Ks even fuel (S pos) answers (c1 :: rest)) as [[out rem] log]. cbn [fst length] in *. lia.
Qed.

Theorem stage_value thr maxr Ks even : forall fuel pos answers (cs : list core) xs a b fin,
  (length cs < fuel)%nat -> stage_hyp thr maxr Ks even fuel pos answers cs ->
  linked cs fin -> below xs (rows cs) -> (a < rl_of cs fin)%nat -> (b < fin)%nat ->
  chain (stage_cores thr maxr Ks even fuel pos answers cs) xs (zeros (length cs)) a b =
  msum (rows cs) (fun ys => Wst Ks even fuel pos (rows cs) xs ys * chain cs ys (zeros (length cs)) a b).
Proof.
  unfold stage_cores.
  induction fuel as [|fuel IH]; intros pos answers cs xs a b fin Hf Hh HL Hx Ha Hb; [lia|].
  destruct cs as [|c [|c1 rest]].
  - (* no core *)
    destruct xs; [|cbn in Hx; tauto]. cbn [stage fst rows map msum Wst length zeros repeat chain]. ring.
  - (* the last site alone *)
    destruct xs as [|x [|? ?]]; cbn [rows map below] in Hx; try tauto. destruct Hx as [Hx _].
    cbn [stage rows map msum length]. change (zeros 1) with [0%nat].
    destruct (parity_ok even pos) eqn:Ep; cbn [fst Wst]; rewrite Ep.
    + cbn [chain]. unfold mmul, cmat. cbn [rr last_step g]. fold (Kat Ks pos).
      transitivity (sum (md c) (fun y => sum (rr c) (fun e => Kat Ks pos x y * (g c a y 0%nat e * delta e b)))).
      * rewrite sum_swap. apply sum_ext; intros e _. rewrite <- sum_scal_r. apply sum_ext; intros y _. ring.
      * apply sum_ext; intros y _. rewrite <- sum_scal_l. reflexivity.
    + rewrite (sum_ext (md c) _ (fun y => if Nat.eqb y x then chain [c] [y] [0%nat] a b else 0)).
      * symmetry. apply (sum_single (md c) x (fun y => chain [c] [y] [0%nat] a b)). exact Hx.
      * intros y _. unfold delta. rewrite (Nat.eqb_sym x y). destruct (Nat.eqb y x); ring.
  - (* at least two sites *)
    destruct xs as [|x [|x1 xs']]; cbn [rows map below] in Hx; try tauto. destruct Hx as (Hx & Hx1 & Hxs).
    cbn [linked] in HL. destruct HL as (Hp & Hlk & Hp1 & Hlk1 & HL). cbn [rl_of] in Ha, Hlk.
    cbn [length] in Hf. cbn [stage stage_hyp] in *.
    destruct (parity_ok even pos) eqn:Ep.
    + destruct answers as [|a0 as']; [contradiction|]. destruct Hh as [Hv Hh].
      assert (HIH := fun e He => IH (S (S pos)) as' rest xs' e b fin ltac:(lia) Hh HL Hxs He Hb).
      assert (Hlen := stage_len thr maxr Ks even fuel (S (S pos)) as' rest Hh). unfold stage_cores in Hlen.
      destruct (stage thr maxr Ks even fuel (S (S pos)) as' rest) as [[out rem] log]. cbn [fst] in *.
      cbn [rows map msum length]. change (zeros (S (S (length rest)))) with (0%nat :: 0%nat :: zeros (length rest)).
      cbn [Wst]. rewrite Ep.
      set (K := Kat Ks pos) in *. set (idx := select thr maxr a0) in *.
      (* left-hand side: the two new cores multiply to the propagated pair *)
      transitivity (sum (rr c1) (fun e => applied K c c1 a (x * md c1 + x1)%nat e * chain out xs' (zeros (length rest)) e b)).
      { cbn [chain]. fold (zeros (length rest)).
        rewrite <- (mmul_assoc (length idx) (rr c1)).
        unfold mmul at 1. change (rr (snd (pair_step idx a0 c c1))) with (rr c1).
        apply sum_ext; intros e He. f_equal.
        change (rr (fst (pair_step idx a0 c c1))) with (length idx).
        apply (pair_step_value idx a0 K c c1 a x x1 e); assumption. }
      transitivity (sum (rr c1) (fun e => sum (md c) (fun y => sum (md c1) (fun y1 => msum (rows rest) (fun ys' =>
                      sum (rr c) (fun q => (K (x * md c1 + x1)%nat (y * md c1 + y1)%nat * Wst Ks even fuel (S (S pos)) (rows rest) xs' ys') *
                                           (g c a y 0%nat q * g c1 q y1 0%nat e * chain rest ys' (zeros (length rest)) e b))))))).
      { apply sum_ext; intros e He. rewrite (HIH e) by (rewrite <- Hlk1; exact He).
        rewrite applied_entries by lia. rewrite <- sum_scal_r. apply sum_ext; intros y _.
        rewrite <- sum_scal_r. apply sum_ext; intros y1 _. rewrite <- msum_scal_l. apply msum_ext; intros ys' _.
        rewrite <- sum_scal_l, <- sum_scal_r. apply sum_ext; intros q _. ring. }
      rewrite sum_swap. apply sum_ext; intros y _. rewrite sum_swap. apply sum_ext; intros y1 _.
      rewrite (msum_sum (rows rest) (rr c1)). apply msum_ext; intros ys' _.
      cbn [chain]. fold (zeros (length rest)). unfold mmul, cmat.
      rewrite <- sum_scal_l. rewrite sum_swap. apply sum_ext; intros q _.
      rewrite <- sum_scal_l, <- sum_scal_l. apply sum_ext; intros e _. fold (rows rest). ring.
    + assert (HIH := fun q Hq => IH (S pos) answers (c1 :: rest) (x1 :: xs') q b fin ltac:(cbn [length]; lia) Hh
                         (conj Hp1 (conj Hlk1 HL)) (conj Hx1 Hxs) Hq Hb).
      assert (Hlen := stage_len thr maxr Ks even fuel (S pos) answers (c1 :: rest) Hh). unfold stage_cores in Hlen.
      destruct (stage thr maxr Ks even fuel (S pos) answers (c1 :: rest)) as [[out rem] log]. cbn [fst] in *.
      cbn [rows map msum length]. fold (rows rest).
      change (zeros (S (S (length rest)))) with (0%nat :: zeros (S (length rest))).
      cbn [Wst]. rewrite Ep.
      cbn [chain]. unfold mmul at 1. unfold cmat at 1.
      transitivity (sum (rr c) (fun q => g c a x 0%nat q *
                      msum (md c1 :: rows rest) (fun ytl => Wst Ks even fuel (S pos) (md c1 :: rows rest) (x1 :: xs') ytl *
                                                          chain (c1 :: rest) ytl (zeros (S (length rest))) q b))).
      { apply sum_ext; intros q Hq. f_equal. cbn [length rows map rl_of] in HIH. apply HIH. rewrite <- Hlk. exact Hq. }
      rewrite (sum_ext (md c) _ (fun y => if Nat.eqb y x then
                 msum (md c1 :: rows rest) (fun ytl => Wst Ks even fuel (S pos) (md c1 :: rows rest) (x1 :: xs') ytl *
                        chain (c :: c1 :: rest) (y :: ytl) (0%nat :: zeros (S (length rest))) a b) else 0)).
      * rewrite (sum_single (md c) x (fun y => msum (md c1 :: rows rest) (fun ytl => Wst Ks even fuel (S pos) (md c1 :: rows rest) (x1 :: xs') ytl *
                        chain (c :: c1 :: rest) (y :: ytl) (0%nat :: zeros (S (length rest))) a b))) by exact Hx.
        symmetry.
        rewrite (msum_ext (md c1 :: rows rest) _ (fun ytl => sum (rr c) (fun q => g c a x 0%nat q *
                   (Wst Ks even fuel (S pos) (md c1 :: rows rest) (x1 :: xs') ytl * chain (c1 :: rest) ytl (zeros (S (length rest))) q b)))).
        -- rewrite <- (msum_sum (md c1 :: rows rest) (rr c) (fun q ytl => g c a x 0%nat q *
                   (Wst Ks even fuel (S pos) (md c1 :: rows rest) (x1 :: xs') ytl * chain (c1 :: rest) ytl (zeros (S (length rest))) q b))).
           apply sum_ext; intros q _. rewrite msum_scal_l. reflexivity.
        -- intros ytl _. change (chain (c :: c1 :: rest) (x :: ytl) (0%nat :: zeros (S (length rest))) a b)
             with (mmul (rr c) (cmat c x 0%nat) (chain (c1 :: rest) ytl (zeros (S (length rest)))) a b).
           unfold mmul, cmat. rewrite <- sum_scal_l. apply sum_ext; intros q _. ring.
      * intros y _. cbn [msum]. unfold delta. rewrite (Nat.eqb_sym x y). destruct (Nat.eqb y x).
        -- apply sum_ext; intros y1 _. apply msum_ext; intros ys' _.
           unfold zeros; cbn [chain repeat]; ring.
        -- apply sum_zero'; intros y1 _.
           transitivity (msum (rows rest) (fun _ => (0 : R))); [apply msum_ext; intros ys' _; ring | apply msum_zero].
Qed.
End StageProof.
