(* C13: the bundled models.  Column sums of signaling_cascade and two_step_destruction vanish for every
   size and every rate; ising equals its energy formula; exciton_chain is the cyclic SLIM pattern. *)
From Coq Require Import ZArith List Lia Ring Arith Bool.
Import ListNotations.
Require Import Ring Sums Matrix Core Chain TTOps OpsProof Sweep Slim SlimProof GeneratorProof Models.

Section MP.
Context {R : cring}.
Add Ring Rr23 : (cring_th R).
Open Scope cr_scope.
Notation site := (site R).

Lemma sum_ind_eq n k : sum n (fun x => @ind R (Nat.eqb x k)) = ind (Nat.ltb k n).
Proof.
  destruct (Nat.ltb_spec k n) as [H|H]; cbn [ind].
  - apply (sum_single n k (fun _ => 1)). exact H.
  - apply sum_zero'. intros x Hx. destruct (Nat.eqb_spec x k); [lia|reflexivity].
Qed.
Lemma sum_ind_succ n k : sum n (fun x => @ind R (Nat.eqb (x + 1) k)) = ind (Nat.leb 1 k && Nat.leb k n).
Proof.
  destruct k as [|k].
  - cbn [Nat.leb andb ind]. apply sum_zero'. intros x _. destruct (Nat.eqb_spec (x + 1) 0); [lia|reflexivity].
  - rewrite (sum_ext n _ (fun x => ind (Nat.eqb x k))).
    + rewrite sum_ind_eq. unfold Nat.ltb. cbn [Nat.leb andb]. reflexivity.
    + intros x _. destruct (Nat.eqb_spec (x + 1) (S k)), (Nat.eqb_spec x k); try lia; reflexivity.
Qed.

Lemma csum_idm n y : (y < n)%nat -> csum n (@idm R) y = 1.
Proof. intros H. unfold csum, idm. rewrite sum_ind_eq. destruct (Nat.ltb_spec y n); [reflexivity|lia]. Qed.
Lemma csum_down n y : csum n (@eye_k_down R) y = ind (Nat.ltb (y + 1) n).
Proof. unfold csum, eye_k_down. apply sum_ind_eq. Qed.
Lemma csum_up n y : (y < n)%nat -> csum n (@eye_k_up R) y = ind (Nat.leb 1 y).
Proof.
  intros H. unfold csum, eye_k_up. rewrite sum_ind_succ.
  destruct (Nat.leb_spec y n); [|lia]. rewrite andb_true_r. reflexivity.
Qed.
Lemma nr_ind y : @ind R (Nat.leb 1 y) * nr y = nr y.
Proof. destruct y; cbn [Nat.leb ind nr]; ring. Qed.
Lemma csum_up_arange n y : (y < n)%nat -> csum n (@up_arange R) y = nr y.
Proof.
  intros H. unfold csum, up_arange. rewrite sum_scal_r.
  change (sum n (fun i => eye_k_up i y)) with (csum n (@eye_k_up R) y). rewrite csum_up by exact H. apply nr_ind.
Qed.
Lemma csum_diag_arange n y : (y < n)%nat -> csum n (@diag_arange R) y = nr y.
Proof.
  intros H. unfold csum, diag_arange. rewrite sum_scal_r.
  change (sum n (fun i => idm i y)) with (csum n (@idm R) y). rewrite csum_idm by exact H. ring.
Qed.

(* ---- signaling cascade ---- *)
Section Cascade.
Variables (n : nat) (a c : R) (l : nat -> R).
Lemma csum_s_mat y : (y < n)%nat -> csum n (@s_mat R c) y = 0.
Proof.
  intros H. unfold csum, s_mat.
  rewrite (sum_ext n _ (fun x => c * nr y * eye_k_up x y + - (c * nr y) * idm x y)) by (intros; ring).
  rewrite sum_add, !sum_scal_l.
  change (sum n (fun i => eye_k_up i y)) with (csum n (@eye_k_up R) y).
  change (sum n (fun i => idm i y)) with (csum n (@idm R) y).
  rewrite csum_up, csum_idm by exact H.
  replace (c * nr y * ind (Nat.leb 1 y)) with (c * (ind (Nat.leb 1 y) * nr y)) by ring. rewrite nr_ind. ring.
Qed.
Lemma csum_m_mat y : (y < n)%nat -> csum n (@m_mat R n) y = 0.
Proof.
  intros H. unfold csum, m_mat. destruct (Nat.eqb_spec y (n - 1)) as [E|E].
  - apply sum_zero'. intros x Hx. destruct (Nat.eqb_spec x (n - 1)); cbn [andb]; [reflexivity|].
    unfold eye_k_down, idm. subst y.
    destruct (Nat.eqb_spec x (n - 1 + 1)), (Nat.eqb_spec x (n - 1)); try lia. cbn [ind]. ring.
  - rewrite (sum_ext n _ (fun x => eye_k_down x y + - idm x y)).
    + rewrite sum_add, sum_opp.
      change (sum n (fun i => eye_k_down i y)) with (csum n (@eye_k_down R) y).
      change (sum n (fun i => idm i y)) with (csum n (@idm R) y).
      rewrite csum_down, csum_idm by exact H. destruct (Nat.ltb_spec (y + 1) n); [cbn [ind]; ring | lia].
    + intros x _. rewrite andb_false_r. ring.
Qed.
Lemma csum_s_mat_0 y : (y < n)%nat -> csum n (@s_mat_0 R n a c) y = 0.
Proof.
  intros H. unfold csum, s_mat_0. destruct (Nat.eqb_spec y (n - 1)) as [E|E].
  - rewrite (sum_ext n _ (fun x => - (c * nr (n - 1)) * ind (Nat.eqb x (n - 1)) + c * nr (n - 1) * ind (Nat.eqb (x + 1) (n - 1)))).
    + rewrite sum_add, !sum_scal_l, sum_ind_eq, sum_ind_succ.
      destruct (Nat.ltb_spec (n - 1) n); [|lia]. cbn [ind].
      destruct (Nat.leb_spec (n - 1) n); [|lia]. rewrite andb_true_r.
      replace (c * nr (n - 1) * ind (Nat.leb 1 (n - 1))) with (c * (ind (Nat.leb 1 (n - 1)) * nr (n - 1))) by ring.
      rewrite nr_ind. ring.
    + intros x Hx. subst y. unfold eye_k_down, eye_k_up, idm.
      destruct (Nat.eqb_spec x (n - 1)); cbn [andb ind].
      * destruct (Nat.eqb_spec (x + 1) (n - 1)); [lia|]. cbn [ind]. ring.
      * destruct (Nat.eqb_spec x (n - 1 + 1)); [lia|]. cbn [ind]. ring.
  - rewrite (sum_ext n _ (fun x => a * eye_k_down x y + - a * idm x y + (c * nr y * eye_k_up x y + - (c * nr y) * idm x y))).
    + rewrite !sum_add, !sum_scal_l.
      change (sum n (fun i => eye_k_down i y)) with (csum n (@eye_k_down R) y).
      change (sum n (fun i => eye_k_up i y)) with (csum n (@eye_k_up R) y).
      change (sum n (fun i => idm i y)) with (csum n (@idm R) y).
      rewrite csum_down, csum_up, csum_idm by exact H.
      destruct (Nat.ltb_spec (y + 1) n); [|lia]. cbn [ind].
      replace (c * nr y * ind (Nat.leb 1 y)) with (c * (ind (Nat.leb 1 y) * nr y)) by ring. rewrite nr_ind. ring.
    + intros x _. rewrite andb_false_r. ring.
Qed.

Lemma Szero_cascade d : Szero (@cascade_sites R n a c l d).
Proof.
  unfold Szero, cascade_sites. constructor.
  - intros y Hy. apply csum_s_mat_0. exact Hy.
  - apply Forall_app. split.
    + apply Forall_forall. intros s Hs. apply repeat_spec in Hs. subst s. intros y Hy. apply csum_s_mat. exact Hy.
    + constructor; [|constructor]. intros y Hy. apply csum_s_mat. exact Hy.
Qed.
Lemma Mzero_tail k : Mzero (repeat (@casc_mid R n c l) k ++ [@casc_last R n c]).
Proof.
  induction k as [|k IH]; [exact I|].
  destruct k as [|k]; cbn [repeat app Mzero] in *.
  - split; [|exact I]. intros p y Hp Hy. apply csum_m_mat; exact Hy.
  - split; [|exact IH]. intros p y Hp Hy. apply csum_m_mat; exact Hy.
Qed.
Lemma Mzero_cascade d : Mzero (@cascade_sites R n a c l d).
Proof.
  unfold cascade_sites. pose proof (Mzero_tail (d - 2)) as HT.
  destruct (d - 2)%nat as [|k]; cbn [repeat app Mzero] in *.
  - split; [|exact I]. intros p y Hp Hy. apply csum_m_mat; exact Hy.
  - split; [|exact HT]. intros p y Hp Hy. apply csum_m_mat; exact Hy.
Qed.

Theorem cascade_generator d ys :
  below ys (dimsof (@cascade_sites R n a c l d)) ->
  msum (dimsof (@cascade_sites R n a c l d)) (fun xs => elem (@signaling_cascade R n a c l d) xs ys) = 0.
Proof.
  intros Hb. unfold signaling_cascade.
  pose proof (Szero_cascade d) as HS. pose proof (Mzero_cascade d) as HM.
  unfold cascade_sites in *. destruct (d - 2)%nat as [|k]; cbn [repeat app] in *.
  - apply slim_pattern_colsum; try assumption. intros q y Hq; lia.
  - apply slim_pattern_colsum; try assumption. intros q y Hq; lia.
Qed.
End Cascade.

(* ---- exciton chain: the cyclic pattern formula of C12 with its blocks ---- *)
Theorem exciton_value (alpha beta : R) k x y xs ys :
  length xs = S k -> length ys = S k ->
  elem (exciton_chain alpha beta (S (S k))) (x :: xs) (y :: ys) =
  Tsum (repeat (exc_site alpha beta) (S (S k))) (x :: xs) (y :: ys) +
  sum 2 (fun q => sM (exc_site alpha beta) q x y * cycL (repeat (exc_site alpha beta) (S k)) q xs ys).
Proof.
  intros Hx Hy. unfold exciton_chain. cbn [repeat].
  apply (slim_pattern_value 2 (exc_site alpha beta) (exc_site alpha beta) (repeat (exc_site alpha beta) k)); rewrite repeat_length; assumption.
Qed.

(* ---- vector pattern (ising): value = sum_i S(x_i) + sum_i L(x_i) M(x_{i+1}) ---- *)
Section Vec.
Variables (m : nat) (vS vL vM : nat -> R).
Notation mid := (vec_mid m vS vL vM).
Notation last := (vec_last m vS vM).
Definition vcol (xs : list nat) (a : nat) : R :=
  if Nat.eqb a 0 then 1 else if Nat.eqb a 1 then vM (hd 0%nat xs) else if Nat.eqb a 2 then vec_energy vS vL vM xs else 0.
Lemma sum3 (f : nat -> R) : sum 3 f = f 0%nat + f 1%nat + f 2%nat.
Proof. cbn [sum]. ring. Qed.
Lemma vec_tail_value : forall k xs a, length xs = S k -> (a < 3)%nat ->
  chain (repeat mid k ++ [last]) xs (repeat 0%nat (S k)) a 0%nat = vcol xs a.
Proof.
  induction k as [|k IH]; intros xs a Hx Ha.
  - destruct xs as [|x [|? ?]]; try discriminate. cbn [repeat app chain]. unfold mmul. cbn [rr vec_last sum].
    unfold cmat, delta, vcol. cbn [g vec_last hd vec_energy].
    destruct a as [|[|[|a]]]; try lia; cbn [Nat.eqb]; ring.
  - destruct xs as [|x xs]; [discriminate|]. cbn [length] in Hx.
    change (repeat mid (S k) ++ [last]) with (mid :: (repeat mid k ++ [last])).
    change (repeat 0%nat (S (S k))) with (0%nat :: repeat 0%nat (S k)).
    cbn [chain]. unfold mmul. cbn [rr vec_mid]. rewrite sum3.
    rewrite !IH by lia. unfold cmat, vcol. cbn [g vec_mid Nat.eqb hd].
    destruct xs as [|x' xs']; [discriminate|]. cbn [hd vec_energy].
    destruct a as [|[|[|a]]]; try lia; cbn [Nat.eqb]; ring.
Qed.
Theorem vec_pattern_value k x xs : length xs = S k ->
  elem (vec_pattern m vS vL vM (S (S k))) (x :: xs) (repeat 0%nat (S (S k))) = vec_energy vS vL vM (x :: xs).
Proof.
  intros Hx. unfold elem, vec_pattern. replace (S (S k) - 2)%nat with k by lia.
  change (repeat 0%nat (S (S k))) with (0%nat :: repeat 0%nat (S k)).
  cbn [chain]. unfold mmul. cbn [rr vec_first]. rewrite sum3.
  rewrite !vec_tail_value by (try assumption; lia).
  unfold cmat, vcol. cbn [g vec_first Nat.eqb].
  destruct xs as [|x' xs']; [discriminate|]. cbn [hd vec_energy]. ring.
Qed.
End Vec.

Fixpoint ising_energy (J h : R) (xs : list nat) : R :=
  match xs with
  | [] => 0
  | x :: xs' => - h * sigma x + match xs' with x' :: _ => - J * sigma x * sigma x' | [] => 0 end + ising_energy J h xs'
  end.
Theorem ising_value (J h : R) k x xs : length xs = S k ->
  elem (ising (S (S k)) J h) (x :: xs) (repeat 0%nat (S (S k))) = ising_energy J h (x :: xs).
Proof.
  intros Hx. unfold ising. rewrite vec_pattern_value by exact Hx.
  generalize (x :: xs). induction l as [|z zs IH]; cbn [vec_energy ising_energy]; [reflexivity|].
  rewrite IH. destruct zs; ring.
Qed.
End MP.

(* ---- two_step_destruction: column sums vanish for all rates and all cell sizes ---- *)
Section TwoStepProof.
Context {R : cring}.
Add Ring Rr24 : (cring_th R).
Open Scope cr_scope.
Variables (k1 k2 k3 : R) (n0 n1 n2 n3 : nat).

Lemma s_idm n y : (y < n)%nat -> sum n (fun x => @idm R x y) = 1.
Proof. apply csum_idm. Qed.
Lemma s_up n y : (y < n)%nat -> sum n (fun x => @up_arange R x y) = nr y.
Proof. apply csum_up_arange. Qed.
Lemma s_diag n y : (y < n)%nat -> sum n (fun x => @diag_arange R x y) = nr y.
Proof. apply csum_diag_arange. Qed.
Lemma s_kup n k y : (y < n)%nat -> sum n (fun x => k * @up_arange R x y) = k * nr y.
Proof. intros H. rewrite sum_scal_l, s_up by exact H. reflexivity. Qed.
Lemma s_kdiag n k y : (y < n)%nat -> sum n (fun x => k * @diag_arange R x y) = k * nr y.
Proof. intros H. rewrite sum_scal_l, s_diag by exact H. reflexivity. Qed.
Lemma s_zero n y : sum n (fun x => @zeroM R x y) = 0.
Proof. apply sum_zero. Qed.
Lemma s_down n y : (y < n)%nat -> sum n (fun x => @down_abs R n x y) = 1.
Proof.
  intros H. unfold down_abs. destruct (Nat.eqb_spec y (n - 1)) as [E|E].
  - rewrite (sum_ext n _ (fun x => ind (Nat.eqb x (n - 1)))).
    + rewrite sum_ind_eq. destruct (Nat.ltb_spec (n - 1) n); [reflexivity|lia].
    + intros x Hx. unfold eye_k_down. subst y. destruct (Nat.eqb_spec x (n - 1)); cbn [andb ind]; [reflexivity|].
      destruct (Nat.eqb_spec x (n - 1 + 1)); [lia|reflexivity].
  - rewrite (sum_ext n _ (fun x => eye_k_down x y)) by (intros; rewrite andb_false_r; reflexivity).
    change (sum n (fun x => eye_k_down x y)) with (csum n (@eye_k_down R) y). rewrite csum_down.
    destruct (Nat.ltb_spec (y + 1) n); [reflexivity|lia].
Qed.
Lemma s_k3 n y : (y < n)%nat -> sum n (fun x => k3 * @up_arange R x y - k3 * diag_arange x y) = 0.
Proof.
  intros H. rewrite (sum_ext n _ (fun x => k3 * up_arange x y + - (k3 * diag_arange x y))) by (intros; ring).
  rewrite sum_add, sum_opp, s_kup, s_kdiag by exact H. ring.
Qed.

Theorem two_step_generator y0 y1 y2 y3 :
  (y0 < n0)%nat -> (y1 < n1)%nat -> (y2 < n2)%nat -> (y3 < n3)%nat ->
  msum [n0; n1; n2; n3] (fun xs => elem (two_step_destruction k1 k2 k3 n0 n1 n2 n3) xs [y0; y1; y2; y3]) = 0.
Proof.
  intros H0 H1 H2 H3. unfold elem.
  change [n0; n1; n2; n3] with (rows (two_step_destruction k1 k2 k3 n0 n1 n2 n3)).
  rewrite <- chain_sumrows by reflexivity.
  unfold two_step_destruction. cbn [map length repeat chain]. unfold mmul, cmat, delta.
  cbn [rr sumrows_core ts_core0 ts_core1 ts_core2 ts_core3 blk sum g md Nat.eqb].
  rewrite ?(s_idm _ _ H0), ?(s_idm _ _ H1), ?(s_idm _ _ H2), ?(s_idm _ _ H3),
          ?(s_up _ _ H1), ?(s_up _ _ H2), ?(s_diag _ _ H1), ?(s_diag _ _ H2),
          ?(s_kup _ _ _ H0), ?(s_kup _ _ _ H1), ?(s_kdiag _ _ _ H0), ?(s_kdiag _ _ _ H1),
          ?s_zero, ?(s_down _ _ H2), ?(s_down _ _ H3), ?(s_k3 _ _ H3).
  ring.
Qed.
End TwoStepProof.
