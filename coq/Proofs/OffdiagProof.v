(* C13 (and C12): off-diagonal entries of a SLIM pattern.  If the off-diagonal entries of every single-site block and of every
   nearest-neighbour coupling  sum_p L_i[p] (x) M_{i+1}[p]  lie in an additive cone P (contains 0, closed under +), then so does
   every off-diagonal entry of the open-chain operator -- for P = "non-negative" this is the sign condition of a generator.
   Instance: signaling_cascade(d) for every d, cell size, rates and propensity table in a cone closed under products. *)
From Coq Require Import ZArith List Lia Ring Arith Bool.
Import ListNotations.
Require Import Ring Sums Matrix Core Chain Sweep Slim SlimProof Models.

Section Offdiag.
Context {R : cring}.
Add Ring Rr45 : (cring_th R).
Open Scope cr_scope.
Notation site := (site R).
Variable P : R -> Prop.
Hypothesis P0 : P 0.
Hypothesis Padd : forall a b, P a -> P b -> P (a + b).

Lemma idp_cases : forall xs ys, @idp R xs ys = 0 \/ @idp R xs ys = 1.
Proof.
  induction xs as [|x xs IH]; intros ys; cbn [idp]; [right; reflexivity|]. destruct ys as [|y ys]; [right; reflexivity|].
  unfold ind. destruct (Nat.eqb x y).
  - destruct (IH ys) as [E|E]; rewrite E; [left|right]; ring.
  - left. ring.
Qed.
Lemma idp_neq : forall xs ys, length xs = length ys -> xs <> ys -> @idp R xs ys = 0.
Proof.
  induction xs as [|x xs IH]; intros ys Hl Hne; destruct ys as [|y ys]; try discriminate; [congruence|].
  cbn [idp]. unfold ind. destruct (Nat.eqb_spec x y) as [E|E]; [|ring].
  rewrite (IH ys); [ring|simpl in Hl; lia|]. intros E2. apply Hne. congruence.
Qed.
Lemma P_times_idp t xs ys : P t -> P (t * idp xs ys).
Proof. intros Ht. destruct (idp_cases xs ys) as [E|E]; rewrite E; [replace (t * 0) with (c0 R) by ring; exact P0|replace (t * 1) with t by ring; exact Ht]. Qed.

Definition S_ok (ss : list site) : Prop := Forall (fun s : site => forall x y, x <> y -> P (sS s x y)) ss.
Fixpoint pair_ok (ss : list site) : Prop :=
  match ss with
  | s :: ((s' :: _) as rest) =>
      (forall x y x' y', (x <> y \/ x' <> y') -> P (sum (lr s) (fun p => sL s p x y * sM s' p x' y'))) /\ pair_ok rest
  | _ => True
  end.

Theorem Tsum_offdiag_cone : forall (ss : list site) xs ys,
  length xs = length ss -> length ys = length ss -> xs <> ys -> S_ok ss -> pair_ok ss -> P (Tsum ss xs ys).
Proof.
  induction ss as [|s rest IH]; intros xs ys Hx Hy Hne HS HP.
  - destruct xs; [|discriminate]. destruct ys; [|discriminate]. congruence.
  - destruct xs as [|x xs]; [discriminate|]. destruct ys as [|y ys]; [discriminate|]. cbn [length] in Hx, Hy.
    inversion HS as [|? ? HS1 HS2]; subst. cbn [Tsum].
    assert (Hlen : length xs = length ys) by lia.
    apply Padd; [apply Padd|].
    + (* single-site term *)
      destruct (Nat.eq_dec x y) as [E|E].
      * subst y. rewrite (idp_neq xs ys Hlen) by (intros E2; apply Hne; congruence).
        replace (sS s x x * 0) with (c0 R) by ring. exact P0.
      * apply P_times_idp. apply HS1. exact E.
    + (* coupling with the next site *)
      destruct rest as [|s' rest']; [exact P0|].
      destruct xs as [|x1 xs1]; [discriminate|]. destruct ys as [|y1 ys1]; [discriminate|].
      cbn [hd tl]. cbn [pair_ok] in HP. destruct HP as [HP1 _].
      destruct (Nat.eq_dec x y) as [E|E]; [destruct (Nat.eq_dec x1 y1) as [E1|E1]|].
      * subst. rewrite (idp_neq xs1 ys1) by (simpl in *; try lia; intros E2; apply Hne; congruence).
        match goal with |- P (?t * 0) => replace (t * 0) with (c0 R) by ring end. exact P0.
      * apply P_times_idp. apply HP1. right; exact E1.
      * apply P_times_idp. apply HP1. left; exact E.
    + (* the remaining sites *)
      unfold ind. destruct (Nat.eqb_spec x y) as [E|E].
      * replace (1 * Tsum rest xs ys) with (Tsum rest xs ys) by ring.
        apply IH; try lia; try assumption.
        -- intros E2. apply Hne. congruence.
        -- destruct rest as [|s' rest']; [exact I|]. cbn [pair_ok] in HP. exact (proj2 HP).
      * replace (0 * Tsum rest xs ys) with (c0 R) by ring. exact P0.
Qed.

(* ---- instance: the signalling cascade ---- *)
Hypothesis P1 : P 1.
Hypothesis Pmul : forall a b, P a -> P b -> P (a * b).

Lemma P_nr k : P (nr k).
Proof. induction k as [|k IH]; cbn [nr]; [exact P0|apply Padd; [exact IH|exact P1]]. Qed.
Lemma P_ind b : P (ind b).
Proof. destruct b; [exact P1|exact P0]. Qed.

Section CascadeOffdiag.
Variables (n : nat) (a c : R) (l : nat -> R).
Hypothesis Pa : P a.
Hypothesis Pc : P c.
Hypothesis Pl : forall y, P (l y).

Lemma idm_neq x y : x <> y -> @idm R x y = 0.
Proof. intros E. unfold idm, ind. destruct (Nat.eqb_spec x y); [congruence|reflexivity]. Qed.

Lemma s_mat_off x y : x <> y -> P (s_mat c x y).
Proof.
  intros E. unfold s_mat. rewrite (idm_neq x y E).
  replace (c * ((eye_k_up x y - 0) * nr y)) with (c * (eye_k_up x y * nr y)) by ring.
  apply Pmul; [exact Pc|]. apply Pmul; [apply P_ind|apply P_nr].
Qed.
Lemma s_mat_0_off x y : x <> y -> P (s_mat_0 n a c x y).
Proof.
  intros E. unfold s_mat_0.
  destruct (Nat.eqb_spec x (n - 1)) as [E1|E1]; destruct (Nat.eqb_spec y (n - 1)) as [E2|E2]; cbn [andb]; try (exfalso; congruence);
    rewrite (idm_neq x y E);
    replace (a * (eye_k_down x y - 0) + c * ((eye_k_up x y - 0) * nr y)) with (a * eye_k_down x y + c * (eye_k_up x y * nr y)) by ring;
    (apply Padd; [apply Pmul; [exact Pa|apply P_ind] | apply Pmul; [exact Pc|apply Pmul; [apply P_ind|apply P_nr]]]).
Qed.
Lemma m_mat_off x y : x <> y -> P (m_mat n x y).
Proof.
  intros E. unfold m_mat.
  destruct (Nat.eqb_spec x (n - 1)) as [E1|E1]; destruct (Nat.eqb_spec y (n - 1)) as [E2|E2]; cbn [andb]; try (exfalso; congruence);
    rewrite (idm_neq x y E); match goal with |- P (?t - 0) => replace (t - 0) with t by ring end; apply P_ind.
Qed.
Lemma lm_pair x y x' y' : (x <> y \/ x' <> y') -> P (sum 1 (fun _ => l_mat l x y * m_mat n x' y')).
Proof.
  intros H. cbn [sum]. replace (0 + l_mat l x y * m_mat n x' y') with (l_mat l x y * m_mat n x' y') by ring.
  unfold l_mat. destruct (Nat.eq_dec x y) as [E|E].
  - destruct H as [H|H]; [congruence|]. apply Pmul; [apply Pmul; [apply P_ind|apply Pl]|apply m_mat_off; exact H].
  - rewrite (idm_neq x y E). replace (0 * l y * m_mat n x' y') with (c0 R) by ring. exact P0.
Qed.

Lemma cascade_S_ok d : S_ok (cascade_sites n a c l d).
Proof.
  unfold cascade_sites, S_ok. constructor; [intros x y E; apply s_mat_0_off; exact E|].
  apply Forall_app. split.
  - apply Forall_forall. intros s Hs. apply repeat_spec in Hs. subst s. intros x y E. apply s_mat_off; exact E.
  - constructor; [|constructor]. intros x y E. apply s_mat_off; exact E.
Qed.
Lemma pair_ok_tail k : pair_ok (repeat (casc_mid n c l) k ++ [casc_last n c]).
Proof.
  induction k as [|k IH]; cbn [repeat app pair_ok]; [exact I|].
  destruct k as [|k']; cbn [repeat app] in *.
  - split; [|exact I]. intros x y x' y' H. apply lm_pair; exact H.
  - split; [|exact IH]. intros x y x' y' H. apply lm_pair; exact H.
Qed.
Lemma cascade_pair_ok d : pair_ok (cascade_sites n a c l d).
Proof.
  unfold cascade_sites. pose proof (pair_ok_tail (d - 2)) as HT.
  destruct (d - 2)%nat as [|k]; cbn [repeat app pair_ok] in *.
  - split; [|exact I]. intros x y x' y' H. apply lm_pair; exact H.
  - split; [|exact HT]. intros x y x' y' H. apply lm_pair; exact H.
Qed.

Theorem cascade_offdiag d xs ys :
  length xs = length (cascade_sites n a c l d) -> length ys = length (cascade_sites n a c l d) -> xs <> ys ->
  P (elem (signaling_cascade n a c l d) xs ys).
Proof.
  intros Hx Hy Hne. unfold signaling_cascade.
  pose proof (cascade_S_ok d) as HS. pose proof (cascade_pair_ok d) as HP.
  assert (HT := Tsum_offdiag_cone (cascade_sites n a c l d) xs ys Hx Hy Hne HS HP).
  unfold cascade_sites in *.
  destruct xs as [|x xs]; [cbn in Hx; lia|]. destruct ys as [|y ys]; [cbn in Hy; lia|].
  destruct (d - 2)%nat as [|k]; cbn [repeat app] in *.
  - rewrite (slim_pattern_value 0 _ _ [] x y xs ys) by (cbn in *; lia).
    cbn [sum]. match goal with |- P (?t + 0) => replace (t + 0) with t by ring end. exact HT.
  - rewrite (slim_pattern_value 0 _ _ (repeat (casc_mid n c l) k ++ [casc_last n c]) x y xs ys) by (cbn in *; lia).
    cbn [sum]. match goal with |- P (?t + 0) => replace (t + 0) with t by ring end. exact HT.
Qed.
End CascadeOffdiag.
End Offdiag.
