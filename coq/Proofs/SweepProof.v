(* Orthonormalisation sweeps: value preservation, isometry of processed cores, rank bounds,
   frame (untouched cores) and consistency, for every core list.  The SVD answers are arbitrary
   records; each theorem lists the conjuncts of the SVD specification it needs as a hypothesis on
   the answers, relative to the matrix the model actually hands to the oracle at that step. *)
From Coq Require Import ZArith List Lia Ring Arith Bool.
Import ListNotations.
Require Import Ring Sums Matrix Core Chain Sweep.

Section SweepProof.
Context {R : cring}.
Add Ring Rr7 : (cring_th R).
Open Scope cr_scope.
Notation core := (core R).
Notation svd_ans := (svd_ans R).

(* ---------- index arithmetic of reshape ---------- *)
Lemma unflat m n a x y : (x < m)%nat -> (y < n)%nat ->
  (flat m n a x y / (m * n) = a /\ (flat m n a x y / n) mod m = x /\ flat m n a x y mod n = y)%nat.
Proof.
  intros Hx Hy. unfold flat.
  assert (E1 : (((a * m + x) * n + y) / n = a * m + x)%nat).
  { rewrite Nat.div_add_l by lia. rewrite Nat.div_small by lia. lia. }
  repeat split.
  - replace (m * n)%nat with (n * m)%nat by lia. rewrite <- Nat.div_div by lia. rewrite E1.
    rewrite Nat.div_add_l by lia. rewrite Nat.div_small by lia. lia.
  - rewrite E1. rewrite Nat.add_comm, Nat.mod_add by lia. apply Nat.mod_small; lia.
  - rewrite Nat.add_comm, Nat.mod_add by lia. apply Nat.mod_small; lia.
Qed.
Lemma lt_mul_add a A b B : (a < A)%nat -> (b < B)%nat -> (a * B + b < A * B)%nat.
Proof. intros Ha Hb. assert (S a * B <= A * B)%nat by (apply Nat.mul_le_mono_r; lia). lia. Qed.
Lemma flat_lt r m n a x y : (a < r)%nat -> (x < m)%nat -> (y < n)%nat -> (flat m n a x y < r * m * n)%nat.
Proof. intros. unfold flat. apply lt_mul_add; [apply lt_mul_add|]; assumption. Qed.

Lemma sum_flat3 a m n (f : nat -> R) :
  sum (a * m * n) f = sum a (fun al => sum m (fun x => sum n (fun y => f (flat m n al x y)))).
Proof.
  rewrite sum_prod. rewrite sum_prod. apply sum_ext; intros al _. apply sum_ext; intros x _.
  apply sum_ext; intros y _. reflexivity.
Qed.

(* ---------- the conjuncts of the SVD specification, relative to the kept indices ---------- *)
Definition kept (idx : list nat) (a : svd_ans) (f : nat -> R) : nat -> R := fun p => f (nth p idx 0%nat).

(* U[:,idx] · diag(s[idx]) · V[idx,:] = A on the declared shape *)
Definition svd_value (idx : list nat) (rows cols : nat) (A : M R) (a : svd_ans) : Prop :=
  forall r b, (r < rows)%nat -> (b < cols)%nat ->
    sum (length idx) (fun p => U a r (nth p idx 0%nat) * (Sg a (nth p idx 0%nat) * V a (nth p idx 0%nat) b)) = A r b.
(* kept columns of U orthonormal *)
Definition svd_isoU (idx : list nat) (rows : nat) (a : svd_ans) : Prop :=
  forall p q, (p < length idx)%nat -> (q < length idx)%nat ->
    sum rows (fun r => cconj R (U a r (nth p idx 0%nat)) * U a r (nth q idx 0%nat)) = delta p q.
(* kept rows of V orthonormal *)
Definition svd_isoV (idx : list nat) (cols : nat) (a : svd_ans) : Prop :=
  forall p q, (p < length idx)%nat -> (q < length idx)%nat ->
    sum cols (fun b => V a (nth p idx 0%nat) b * cconj R (V a (nth q idx 0%nat) b)) = delta p q.

(* ---------- one left step ---------- *)
Lemma stepL_pair idx a (c c1 : core) x y x1 y1 i j :
  svd_value idx (rl c * md c * nd c) (rr c) (unfoldL c) a -> rl c1 = rr c ->
  (i < rl c)%nat -> (x < md c)%nat -> (y < nd c)%nat ->
  mmul (length idx) (cmat (fst (stepL idx a c c1)) x y) (cmat (snd (stepL idx a c c1)) x1 y1) i j =
  mmul (rr c) (cmat c x y) (cmat c1 x1 y1) i j.
Proof.
  intros Hv Hlk Hi Hx Hy. unfold mmul, cmat; cbn [stepL fst snd g]. rewrite Hlk.
  erewrite sum_ext; [|intros p _; rewrite <- sum_scal_l; reflexivity].
  rewrite sum_swap. apply sum_ext; intros q Hq.
  transitivity (sum (length idx) (fun p => U a (flat (md c) (nd c) i x y) (nth p idx 0%nat) *
                  (Sg a (nth p idx 0%nat) * V a (nth p idx 0%nat) q)) * g c1 q x1 y1 j).
  - rewrite <- sum_scal_r. apply sum_ext; intros; ring.
  - rewrite Hv; [| |assumption].
    + unfold unfoldL. destruct (unflat (md c) (nd c) i x y Hx Hy) as (E1 & E2 & E3).
      rewrite E1, E2, E3. reflexivity.
    + apply flat_lt; assumption.
Qed.

(* hypothesis of a whole left sweep: P holds of every (kept indices, shape, matrix, answer) *)
Fixpoint sweepL_hyp (P : list nat -> nat -> nat -> M R -> svd_ans -> Prop)
         thr (maxr : caps) (bond : nat) (answers : list svd_ans) (cs : list core) : Prop :=
  match answers, cs with
  | a :: as', c :: c1 :: rest =>
      let idx := select thr (maxr bond) a in
      P idx (rl c * md c * nd c)%nat (rr c) (unfoldL c) a /\
      sweepL_hyp P thr maxr (S bond) as' (snd (stepL idx a c c1) :: rest)
  | _, _ => True
  end.

Lemma sweepL_hyp_and P Q thr maxr : forall answers bond cs,
  sweepL_hyp P thr maxr bond answers cs -> sweepL_hyp Q thr maxr bond answers cs ->
  sweepL_hyp (fun i r c A a => P i r c A a /\ Q i r c A a) thr maxr bond answers cs.
Proof.
  induction answers as [|a answers IH]; intros bond cs HP HQ; [exact I|].
  destruct cs as [|c [|c1 rest]]; try exact I. destruct HP as (HP1 & HP2). destruct HQ as (HQ1 & HQ2).
  split; [split; assumption|]. apply IH; assumption.
Qed.
Lemma sweepL_hyp_impl (P Q : list nat -> nat -> nat -> M R -> svd_ans -> Prop) thr maxr :
  (forall i r c A a, P i r c A a -> Q i r c A a) ->
  forall answers bond cs, sweepL_hyp P thr maxr bond answers cs -> sweepL_hyp Q thr maxr bond answers cs.
Proof.
  intros H. induction answers as [|a answers IH]; intros bond cs HP; [exact I|].
  destruct cs as [|c [|c1 rest]]; try exact I. destruct HP as (HP1 & HP2). split; auto.
Qed.

Definition nonempty_idx : list nat -> nat -> nat -> M R -> svd_ans -> Prop := fun idx _ _ _ _ => idx <> [].

(* ranks stay linked (consistency of the chain of shapes) *)
Lemma sweepL_linked thr maxr : forall answers bond (cs : list core) fin,
  sweepL_hyp nonempty_idx thr maxr bond answers cs -> linked cs fin ->
  linked (sweepL thr maxr bond answers cs) fin /\
  rl_of (sweepL thr maxr bond answers cs) fin = rl_of cs fin.
Proof.
  induction answers as [|a answers IH]; intros bond cs fin HP HL; [split; [exact HL|reflexivity]|].
  destruct cs as [|c [|c1 rest]]; try (split; [exact HL|reflexivity]).
  destruct HP as (Hne & HP). destruct HL as (Pc & Lkc & Pc1 & Lkc1 & HL).
  cbn [sweepL].
  set (idx := select thr (maxr bond) a) in *.
  destruct (IH (S bond) (snd (stepL idx a c c1) :: rest) fin HP) as (L & B).
  { cbn [linked stepL snd rr]. repeat split; assumption. }
  split; [|reflexivity]. cbn [linked]. split; [|split].
  - cbn [stepL fst rr]. destruct idx; [unfold nonempty_idx in Hne; congruence|simpl; lia].
  - rewrite B. reflexivity.
  - exact L.
Qed.

Lemma sweepL_shapes thr maxr : forall answers bond (cs : list core),
  rows (sweepL thr maxr bond answers cs) = rows cs /\ cols (sweepL thr maxr bond answers cs) = cols cs /\
  length (sweepL thr maxr bond answers cs) = length cs.
Proof.
  unfold rows, cols.
  induction answers as [|a answers IH]; intros bond cs; [auto|].
  destruct cs as [|c [|c1 rest]]; auto.
  cbn [sweepL]. destruct (IH (S bond) (snd (stepL (select thr (maxr bond) a) a c c1) :: rest)) as (A & B & C).
  cbn [map length]. rewrite A, B, C. cbn [map length stepL fst snd md nd]. auto.
Qed.

(* ---------- C03.1: the left sweep preserves the tensor ---------- *)
Theorem sweepL_value thr maxr : forall answers bond (cs : list core) fin xs ys i j,
  sweepL_hyp svd_value thr maxr bond answers cs ->
  sweepL_hyp nonempty_idx thr maxr bond answers cs ->
  linked cs fin -> below xs (rows cs) -> below ys (cols cs) -> (i < rl_of cs fin)%nat ->
  chain (sweepL thr maxr bond answers cs) xs ys i j = chain cs xs ys i j.
Proof.
  induction answers as [|a answers IH]; intros bond cs fin xs ys i j HP HN HL Hxs Hys Hi; [reflexivity|].
  destruct cs as [|c [|c1 rest]]; try reflexivity.
  destruct HP as (Hv & HP). destruct HN as (Hne & HN).
  destruct xs as [|x [|x1 xs]]; try (simpl in Hxs; tauto).
  destruct ys as [|y [|y1 ys]]; try (simpl in Hys; tauto).
  destruct Hxs as (Hx & Hx1 & Hxs). destruct Hys as (Hy & Hy1 & Hys).
  pose proof HL as HL0. destruct HL as (Pc & Lkc & Pc1 & Lkc1 & HL).
  cbn [sweepL]. set (idx := select thr (maxr bond) a) in *.
  set (c' := fst (stepL idx a c c1)). set (c1' := snd (stepL idx a c c1)) in *.
  assert (HL1 : linked (c1' :: rest) fin) by (cbn [linked]; repeat split; assumption).
  cbn [chain]. unfold mmul at 1.
  erewrite sum_ext; cycle 1.
  { intros k Hk. rewrite (IH (S bond) (c1' :: rest) fin (x1 :: xs) (y1 :: ys) k j); try assumption.
    - cbn [chain]. reflexivity.
    - split; assumption.
    - split; assumption. }
  (* now: sum_k c'(i,k) * (sum_l c1'(k,l) * T(l,j)) *)
  change (mmul (rr c') (cmat c' x y) (mmul (rr c1') (cmat c1' x1 y1) (chain rest xs ys)) i j =
          mmul (rr c) (cmat c x y) (mmul (rr c1) (cmat c1 x1 y1) (chain rest xs ys)) i j).
  rewrite <- !mmul_assoc. unfold mmul at 1 3. apply sum_ext; intros l _. f_equal.
  apply stepL_pair; try assumption. simpl in Lkc. congruence.
Qed.

(* ---------- C03.2: processed cores are left-orthonormal ---------- *)
Definition left_iso (c : core) : Prop :=
  forall p q, (p < rr c)%nat -> (q < rr c)%nat ->
    sum (rl c) (fun al => sum (md c) (fun x => sum (nd c) (fun y => cconj R (g c al x y p) * g c al x y q))) = delta p q.

Lemma stepL_iso idx a (c c1 : core) :
  svd_isoU idx (rl c * md c * nd c) a -> left_iso (fst (stepL idx a c c1)).
Proof.
  intros H p q Hp Hq. cbn [stepL fst rl md nd rr g] in *.
  rewrite <- (sum_flat3 (rl c) (md c) (nd c)
     (fun r => cconj R (U a r (nth p idx 0%nat)) * U a r (nth q idx 0%nat))).
  apply H; assumption.
Qed.

Definition isoU_hyp : list nat -> nat -> nat -> M R -> svd_ans -> Prop := fun idx rows _ _ a => svd_isoU idx rows a.

Theorem sweepL_iso thr maxr : forall answers bond (cs : list core),
  sweepL_hyp isoU_hyp thr maxr bond answers cs -> (length answers < length cs)%nat ->
  Forall left_iso (firstn (length answers) (sweepL thr maxr bond answers cs)).
Proof.
  induction answers as [|a answers IH]; intros bond cs HP Hlen; [constructor|].
  destruct cs as [|c [|c1 rest]]; try (simpl in Hlen; lia).
  destruct HP as (Hi & HP). cbn [sweepL length firstn]. constructor.
  - apply stepL_iso. exact Hi.
  - apply IH; [exact HP|simpl in *; lia].
Qed.

(* ---------- C03.3: ranks never increase (thin factorisation) ---------- *)
Lemma filter_len {A} (f : A -> bool) (l : list A) : (length (filter f l) <= length l)%nat.
Proof. induction l as [|x l IH]; simpl; [lia|]. destruct (f x); simpl; lia. Qed.
Lemma select_length thr m (a : svd_ans) : (length (select thr m a) <= rk a)%nat.
Proof.
  unfold select. set (idx := match thr with None => _ | Some _ => _ end).
  assert (H : (length idx <= rk a)%nat).
  { unfold idx. destruct thr.
    - etransitivity; [apply filter_len|]. rewrite seq_length. lia.
    - rewrite seq_length. lia. }
  destruct m; [rewrite firstn_length; lia|exact H].
Qed.
Lemma select_cap thr m (a : svd_ans) : (length (select thr (Some m) a) <= m)%nat.
Proof. unfold select. rewrite firstn_length. lia. Qed.
Lemma select_none (a : svd_ans) : select None None a = seq 0 (rk a).
Proof. reflexivity. Qed.

Definition thin_hyp : list nat -> nat -> nat -> M R -> svd_ans -> Prop :=
  fun _ rows cols _ a => (rk a <= rows)%nat /\ (rk a <= cols)%nat.

Lemma Forall2_cons_r {A B} (P : A -> B -> Prop) l b m :
  Forall2 P l (b :: m) -> exists a l', l = a :: l' /\ P a b /\ Forall2 P l' m.
Proof. intros H. inversion H; subst. eauto. Qed.

Theorem sweepL_ranks thr maxr : forall answers bond (cs : list core),
  sweepL_hyp thin_hyp thr maxr bond answers cs ->
  Forall2 (fun c' c => (rr c' <= rr c)%nat) (sweepL thr maxr bond answers cs) cs.
Proof.
  induction answers as [|a answers IH]; intros bond cs HP.
  - simpl. induction cs; constructor; auto.
  - destruct cs as [|c [|c1 rest]]; try (repeat constructor; lia).
    destruct HP as ((T1 & T2) & HP). cbn [sweepL].
    set (idx := select thr (maxr bond) a) in *.
    pose proof (select_length thr (maxr bond) a) as Hs. fold idx in Hs.
    specialize (IH (S bond) (snd (stepL idx a c c1) :: rest) HP).
    destruct (Forall2_cons_r _ _ _ _ IH) as (c1'' & S' & E1 & H1 & Hrest).
    rewrite E1. constructor.
    + cbn [stepL fst rr]. lia.
    + constructor; [|exact Hrest]. cbn [stepL snd rr] in H1. lia.
Qed.

(* caps are respected by every processed bond *)
Definition capped (maxr : caps) (bond : nat) (c : core) : Prop :=
  match maxr bond with Some m => (rr c <= m)%nat | None => True end.
Fixpoint capped_from (maxr : caps) (bond : nat) (cs : list core) : Prop :=
  match cs with [] => True | c :: cs' => capped maxr bond c /\ capped_from maxr (S bond) cs' end.
Theorem sweepL_caps thr maxr : forall answers bond (cs : list core), (length answers < length cs)%nat ->
  capped_from maxr bond (firstn (length answers) (sweepL thr maxr bond answers cs)).
Proof.
  induction answers as [|a answers IH]; intros bond cs Hlen; [exact I|].
  destruct cs as [|c [|c1 rest]]; try (simpl in Hlen; lia).
  cbn [sweepL length firstn capped_from]. split.
  - unfold capped. destruct (maxr bond) as [m|] eqn:E; [|exact I].
    cbn [stepL fst rr]. apply select_cap.
  - apply IH. simpl in *; lia.
Qed.

(* ---------- C03.4: frame — cores beyond the processed range are untouched ---------- *)
Theorem sweepL_frame thr maxr : forall answers bond (cs : list core),
  skipn (S (length answers)) (sweepL thr maxr bond answers cs) = skipn (S (length answers)) cs.
Proof.
  induction answers as [|a answers IH]; intros bond cs; [reflexivity|].
  destruct cs as [|c [|c1 rest]]; try reflexivity.
  cbn [sweepL length]. change (skipn (S (S (length answers))) (c :: c1 :: rest)) with (skipn (length answers) rest).
  change (skipn (S (S (length answers))) (fst (stepL (select thr (maxr bond) a) a c c1) ::
            sweepL thr maxr (S bond) answers (snd (stepL (select thr (maxr bond) a) a c c1) :: rest)))
    with (skipn (S (length answers)) (sweepL thr maxr (S bond) answers (snd (stepL (select thr (maxr bond) a) a c c1) :: rest))).
  rewrite IH. reflexivity.
Qed.

(* ================= right sweep ================= *)
Lemma stepR_pair idx a (ci c : core) x y x1 y1 i l :
  svd_value idx (rl ci) (md ci * nd ci * rr ci) (unfoldR ci) a -> rl ci = rr c ->
  (x1 < md ci)%nat -> (y1 < nd ci)%nat -> (l < rr ci)%nat ->
  mmul (length idx) (cmat (snd (stepR idx a ci c)) x y) (cmat (fst (stepR idx a ci c)) x1 y1) i l =
  mmul (rr c) (cmat c x y) (cmat ci x1 y1) i l.
Proof.
  intros Hv Hlk Hx Hy Hl. unfold mmul, cmat; cbn [stepR fst snd g].
  erewrite sum_ext; [|intros p _; rewrite <- sum_scal_r, <- sum_scal_r; reflexivity].
  rewrite sum_swap. apply sum_ext; intros q Hq.
  transitivity (g c i x y q * sum (length idx) (fun p => U a q (nth p idx 0%nat) *
                  (Sg a (nth p idx 0%nat) * V a (nth p idx 0%nat) (flat (nd ci) (rr ci) x1 y1 l)))).
  - rewrite <- sum_scal_l. apply sum_ext; intros; ring.
  - rewrite Hv.
    + unfold unfoldR. destruct (unflat (nd ci) (rr ci) x1 y1 l Hy Hl) as (E1 & E2 & E3).
      rewrite E1, E2, E3. reflexivity.
    + rewrite Hlk. exact Hq.
    + apply flat_lt; assumption.
Qed.

Fixpoint sweepR_hyp (P : list nat -> nat -> nat -> M R -> svd_ans -> Prop)
         thr (maxr : caps) (pos : nat) (answers : list svd_ans) (cs : list core) : Prop :=
  match cs with
  | [] => True
  | c :: rest =>
      sweepR_hyp P thr maxr (S pos) answers rest /\
      let r := sweepR thr maxr (S pos) answers rest in
      match snd r, fst r with
      | a :: _, ci :: _ => P (select thr (maxr (S pos)) a) (rl ci) (md ci * nd ci * rr ci)%nat (unfoldR ci) a
      | _, _ => True
      end
  end.

Lemma sweepR_linked thr maxr : forall (cs : list core) pos answers fin,
  sweepR_hyp nonempty_idx thr maxr pos answers cs -> linked cs fin ->
  linked (fst (sweepR thr maxr pos answers cs)) fin /\
  rl_of (fst (sweepR thr maxr pos answers cs)) fin = rl_of cs fin /\
  rows (fst (sweepR thr maxr pos answers cs)) = rows cs /\
  cols (fst (sweepR thr maxr pos answers cs)) = cols cs.
Proof.
  unfold rows, cols.
  induction cs as [|c rest IH]; intros pos answers fin HP HL; [simpl; auto|].
  destruct HP as (HPr & HPs). destruct HL as (Pc & Lkc & HL).
  destruct (IH (S pos) answers fin HPr HL) as (L & B & Rw & Cl).
  cbn [sweepR]. cbv zeta in HPs.
  destruct (snd (sweepR thr maxr (S pos) answers rest)) as [|a as'] eqn:Es.
  - cbn [fst]. cbn [linked rl_of map]. rewrite B, Rw, Cl. repeat split; auto.
  - destruct (fst (sweepR thr maxr (S pos) answers rest)) as [|ci more] eqn:Ef.
    + cbn [fst]. cbn [linked rl_of map]. rewrite <- Rw, <- Cl. simpl. repeat split; auto.
      simpl in B. congruence.
    + cbn [fst]. set (idx := select thr (maxr (S pos)) a) in *.
      destruct L as (Pci & Lkci & L). cbn [linked stepR fst snd rr rl rl_of map md nd].
      simpl in Rw, Cl. rewrite <- Rw, <- Cl.
      assert (0 < length idx)%nat by (destruct idx; [unfold nonempty_idx in HPs; congruence|simpl; lia]).
      repeat split; auto.
Qed.

(* ---------- C03.6: the right sweep preserves the tensor ---------- *)
Theorem sweepR_value thr maxr : forall (cs : list core) pos answers fin xs ys i j,
  sweepR_hyp svd_value thr maxr pos answers cs ->
  sweepR_hyp nonempty_idx thr maxr pos answers cs ->
  linked cs fin -> below xs (rows cs) -> below ys (cols cs) ->
  chain (fst (sweepR thr maxr pos answers cs)) xs ys i j = chain cs xs ys i j.
Proof.
  induction cs as [|c rest IH]; intros pos answers fin xs ys i j HP HN HL Hxs Hys; [reflexivity|].
  destruct HP as (HPr & HPs). destruct HN as (HNr & HNs). pose proof HL as HL0. destruct HL as (Pc & Lkc & HL).
  destruct xs as [|x xs]; [simpl in Hxs; tauto|]. destruct ys as [|y ys]; [simpl in Hys; tauto|].
  destruct Hxs as (Hx & Hxs). destruct Hys as (Hy & Hys).
  destruct (sweepR_linked thr maxr rest (S pos) answers fin HNr HL) as (L & B & Rw & Cl).
  specialize (IH (S pos) answers fin xs ys).
  cbn [sweepR]. cbv zeta in HPs, HNs.
  destruct (snd (sweepR thr maxr (S pos) answers rest)) as [|a as'] eqn:Es.
  - cbn [fst chain]. apply mmul_ext; intros k Hk; [reflexivity|]. apply IH; assumption.
  - destruct (fst (sweepR thr maxr (S pos) answers rest)) as [|ci more] eqn:Ef.
    + cbn [fst chain]. apply mmul_ext; intros k Hk; [reflexivity|]. apply IH; assumption.
    + cbn [fst]. set (idx := select thr (maxr (S pos)) a) in *.
      (* rewrite the right-hand side with the induction hypothesis *)
      transitivity (chain (c :: ci :: more) (x :: xs) (y :: ys) i j).
      2:{ cbn [chain]. apply mmul_ext; intros k Hk; [reflexivity|]. apply IH; assumption. }
      destruct xs as [|x1 xs]; [rewrite <- Rw in Hxs; simpl in Hxs; tauto|].
      destruct ys as [|y1 ys]; [rewrite <- Cl in Hys; simpl in Hys; tauto|].
      rewrite <- Rw in Hxs. rewrite <- Cl in Hys. destruct Hxs as (Hx1 & _). destruct Hys as (Hy1 & _).
      destruct L as (Pci & Lkci & L).
      set (c' := snd (stepR idx a ci c)). set (ci' := fst (stepR idx a ci c)).
      change (mmul (rr c') (cmat c' x y) (mmul (rr ci') (cmat ci' x1 y1) (chain more xs ys)) i j =
              mmul (rr c) (cmat c x y) (mmul (rr ci) (cmat ci x1 y1) (chain more xs ys)) i j).
      rewrite <- !mmul_assoc. change (rr ci') with (rr ci).
      unfold mmul at 1 3. apply sum_ext; intros l Hl. f_equal.
      apply stepR_pair; try assumption. simpl in B. congruence.
Qed.

(* ---------- C03.7: processed cores are right-orthonormal ---------- *)
Definition right_iso (c : core) : Prop :=
  forall p q, (p < rl c)%nat -> (q < rl c)%nat ->
    sum (md c) (fun x => sum (nd c) (fun y => sum (rr c) (fun e => g c p x y e * cconj R (g c q x y e)))) = delta p q.

Lemma stepR_iso idx a (ci c : core) :
  svd_isoV idx (md ci * nd ci * rr ci) a -> right_iso (fst (stepR idx a ci c)).
Proof.
  intros H p q Hp Hq. cbn [stepR fst rl md nd rr g] in *.
  rewrite <- (sum_flat3 (md ci) (nd ci) (rr ci)
     (fun b => V a (nth p idx 0%nat) b * cconj R (V a (nth q idx 0%nat) b))).
  apply H; assumption.
Qed.

Definition isoV_hyp : list nat -> nat -> nat -> M R -> svd_ans -> Prop := fun idx _ cols _ a => svd_isoV idx cols a.

(* every core that was factorised (all but the head of the result of a step) is right-orthonormal:
   stated for the core produced by the step at each level *)
Theorem sweepR_iso_step thr maxr (c : core) rest pos answers a as' ci more :
  sweepR_hyp isoV_hyp thr maxr pos answers (c :: rest) ->
  snd (sweepR thr maxr (S pos) answers rest) = a :: as' ->
  fst (sweepR thr maxr (S pos) answers rest) = ci :: more ->
  right_iso (fst (stepR (select thr (maxr (S pos)) a) a ci c)).
Proof.
  intros (_ & HPs) Es Ef. cbv zeta in HPs. rewrite Es, Ef in HPs. apply stepR_iso. exact HPs.
Qed.

(* ---------- ranks after a right step ---------- *)
Lemma stepR_rank_le idx a (ci c : core) : (length idx <= rk a)%nat -> (rk a <= rl ci)%nat ->
  (rl (fst (stepR idx a ci c)) <= rl ci)%nat /\ (rr (snd (stepR idx a ci c)) <= rl ci)%nat.
Proof. intros; cbn [stepR fst snd rl rr]; lia. Qed.

(* ================= whole-train statements ================= *)
Lemma chain_replace_suffix (pre : list core) : forall mid mid' fin xs ys i j,
  linked (pre ++ mid) fin -> below xs (rows (pre ++ mid)) -> below ys (cols (pre ++ mid)) ->
  (pre = [] -> (i < rl_of mid fin)%nat) ->
  (forall xs2 ys2 k, (k < rl_of mid fin)%nat -> below xs2 (rows mid) -> below ys2 (cols mid) ->
      chain mid' xs2 ys2 k j = chain mid xs2 ys2 k j) ->
  chain (pre ++ mid') xs ys i j = chain (pre ++ mid) xs ys i j.
Proof.
  induction pre as [|c pre IH]; intros mid mid' fin xs ys i j HL Hxs Hys Hi Hmid.
  - simpl in *. apply Hmid; auto.
  - destruct xs as [|x xs]; [simpl in Hxs; tauto|]. destruct ys as [|y ys]; [simpl in Hys; tauto|].
    destruct Hxs as (Hx & Hxs). destruct Hys as (Hy & Hys). destruct HL as (Pc & Lkc & HL).
    cbn [app chain]. apply mmul_ext; intros k Hk; [reflexivity|].
    apply (IH mid mid' fin); try assumption.
    intros ->. simpl in Lkc. rewrite <- Lkc. exact Hk.
Qed.

Lemma linked_skipn (cs : list core) : forall n fin, linked cs fin -> linked (skipn n cs) fin.
Proof.
  induction cs as [|c cs IH]; intros n fin HL; destruct n; simpl; auto. apply IH. apply HL.
Qed.
Lemma below_skipn xs : forall n dims, below xs dims -> below (skipn n xs) (skipn n dims).
Proof.
  induction xs as [|x xs IH]; intros n dims H; destruct dims as [|d dims]; destruct n; simpl in *; auto; try tauto.
  apply IH. apply H.
Qed.

(* C03.1 for t.ortho_left(start, end): any start, any number of steps *)
Theorem ortho_left_value thr maxr start answers (cs : list core) xs ys :
  sweepL_hyp svd_value thr maxr (S start) answers (skipn start cs) ->
  sweepL_hyp nonempty_idx thr maxr (S start) answers (skipn start cs) ->
  wf cs -> below xs (rows cs) -> below ys (cols cs) ->
  elem (ortho_left thr maxr start answers cs) xs ys = elem cs xs ys.
Proof.
  intros HP HN (HL & HB) Hxs Hys. unfold elem, ortho_left.
  rewrite <- (firstn_skipn start cs) at 3.
  apply (chain_replace_suffix (firstn start cs) (skipn start cs) _ 1%nat).
  - rewrite firstn_skipn. exact HL.
  - rewrite firstn_skipn. exact Hxs.
  - rewrite firstn_skipn. exact Hys.
  - intros E. assert (skipn start cs = cs) as ->.
    { rewrite <- (firstn_skipn start cs) at 2. rewrite E. reflexivity. }
    rewrite HB. lia.
  - intros xs2 ys2 k Hk Hx2 Hy2.
    apply (sweepL_value thr maxr answers (S start) (skipn start cs) 1%nat); try assumption.
    apply linked_skipn. exact HL.
Qed.

(* consistency: the result is again a well-formed train with the same modes *)
Lemma linked_app (pre : list core) : forall mid fin,
  linked (pre ++ mid) fin <-> (linked pre (rl_of mid fin) /\ linked mid fin).
Proof.
  induction pre as [|c pre IH]; intros mid fin; simpl; [tauto|].
  rewrite IH. destruct pre; simpl; tauto.
Qed.
Theorem ortho_left_wf thr maxr start answers (cs : list core) :
  sweepL_hyp nonempty_idx thr maxr (S start) answers (skipn start cs) -> wf cs ->
  wf (ortho_left thr maxr start answers cs) /\
  rows (ortho_left thr maxr start answers cs) = rows cs /\ cols (ortho_left thr maxr start answers cs) = cols cs.
Proof.
  intros HN (HL & HB). unfold ortho_left.
  rewrite <- (firstn_skipn start cs) in HL.
  apply linked_app in HL. destruct HL as (L1 & L2).
  destruct (sweepL_linked thr maxr answers (S start) (skipn start cs) 1%nat HN L2) as (L2' & B2).
  destruct (sweepL_shapes thr maxr answers (S start) (skipn start cs)) as (Rw & Cl & _).
  split; [split|split].
  - apply linked_app. rewrite B2. split; assumption.
  - destruct (firstn start cs) as [|c0 pre] eqn:E.
    + simpl. rewrite B2. assert (skipn start cs = cs) as ->; [|exact HB].
      rewrite <- (firstn_skipn start cs) at 2. rewrite E. reflexivity.
    + simpl. rewrite <- (firstn_skipn start cs) in HB. rewrite E in HB. exact HB.
  - unfold rows in *. rewrite map_app, Rw, <- map_app, firstn_skipn. reflexivity.
  - unfold cols in *. rewrite map_app, Cl, <- map_app, firstn_skipn. reflexivity.
Qed.

(* C03.6 for t.ortho_right(start, end) *)
Theorem ortho_right_value thr maxr start answers (cs : list core) xs ys :
  sweepR_hyp svd_value thr maxr 0 answers (firstn (S start) cs) ->
  sweepR_hyp nonempty_idx thr maxr 0 answers (firstn (S start) cs) ->
  wf cs -> below xs (rows cs) -> below ys (cols cs) ->
  elem (ortho_right thr maxr start answers cs) xs ys = elem cs xs ys.
Proof.
  intros HP HN (HL & HB) Hxs Hys. unfold elem, ortho_right.
  set (pre := firstn (S start) cs). set (post := skipn (S start) cs).
  assert (Ecs : cs = pre ++ post) by (symmetry; apply firstn_skipn).
  rewrite Ecs in HL. apply linked_app in HL. destruct HL as (L1 & L2).
  destruct (sweepR_linked thr maxr pre 0 answers (rl_of post 1%nat) HN L1) as (L1' & B1 & Rw & Cl).
  fold pre in HP, HN.
  set (pre' := fst (sweepR thr maxr 0 answers pre)) in *.
  (* split the index lists *)
  assert (Hx1 : below (firstn (length pre) xs) (rows pre) /\ below (skipn (length pre) xs) (rows post)).
  { rewrite Ecs in Hxs. unfold rows in *. rewrite map_app in Hxs.
    clear - Hxs. revert xs Hxs. generalize (map md post) as dp. induction pre as [|c pre IH]; intros dp xs H.
    - simpl. split; [exact I|exact H].
    - destruct xs as [|x xs]; [simpl in H; tauto|]. destruct H as (Hx & H). simpl.
      destruct (IH dp xs H). tauto. }
  assert (Hy1 : below (firstn (length pre) ys) (cols pre) /\ below (skipn (length pre) ys) (cols post)).
  { rewrite Ecs in Hys. unfold cols in *. rewrite map_app in Hys.
    clear - Hys. revert ys Hys. generalize (map nd post) as dp. induction pre as [|c pre IH]; intros dp ys H.
    - simpl. split; [exact I|exact H].
    - destruct ys as [|y ys]; [simpl in H; tauto|]. destruct H as (Hy & H). simpl.
      destruct (IH dp ys H). tauto. }
  destruct Hx1 as (Hxa & Hxb). destruct Hy1 as (Hya & Hyb).
  assert (Lp : length pre' = length pre).
  { unfold rows in Rw. apply (f_equal (@length nat)) in Rw. rewrite !map_length in Rw. exact Rw. }
  rewrite Ecs at 1.
  rewrite <- (firstn_skipn (length pre) xs), <- (firstn_skipn (length pre) ys).
  rewrite (chain_app pre' post _ _ _ _ (rl_of post 1%nat)); try assumption.
  2:{ rewrite Lp. apply below_length in Hxa. unfold rows in Hxa. rewrite map_length in Hxa. exact Hxa. }
  2:{ rewrite Lp. apply below_length in Hya. unfold cols in Hya. rewrite map_length in Hya. exact Hya. }
  2:{ destruct post; reflexivity. }
  rewrite (chain_app pre post _ _ _ _ (rl_of post 1%nat)); try assumption.
  2:{ apply below_length in Hxa. unfold rows in Hxa. rewrite map_length in Hxa. exact Hxa. }
  2:{ apply below_length in Hya. unfold cols in Hya. rewrite map_length in Hya. exact Hya. }
  2:{ destruct post; reflexivity. }
  assert (V : forall i j, chain pre' (firstn (length pre) xs) (firstn (length pre) ys) i j =
                          chain pre (firstn (length pre) xs) (firstn (length pre) ys) i j).
  { intros i j. apply (sweepR_value thr maxr pre 0 answers (rl_of post 1%nat)); assumption. }
  destruct pre' as [|c' pre'']; destruct pre as [|c0 pre0]; try discriminate.
  - reflexivity.
  - apply mmul_ext; intros k Hk; [apply V|reflexivity].
Qed.

Theorem ortho_right_wf thr maxr start answers (cs : list core) :
  sweepR_hyp nonempty_idx thr maxr 0 answers (firstn (S start) cs) -> wf cs ->
  wf (ortho_right thr maxr start answers cs) /\
  rows (ortho_right thr maxr start answers cs) = rows cs /\ cols (ortho_right thr maxr start answers cs) = cols cs.
Proof.
  intros HN (HL & HB). unfold ortho_right.
  set (pre := firstn (S start) cs) in *. set (post := skipn (S start) cs).
  assert (Ecs : cs = pre ++ post) by (symmetry; apply firstn_skipn).
  rewrite Ecs in HL. apply linked_app in HL. destruct HL as (L1 & L2).
  destruct (sweepR_linked thr maxr pre 0 answers (rl_of post 1%nat) HN L1) as (L1' & B1 & Rw & Cl).
  split; [split|split].
  - apply linked_app. split; assumption.
  - rewrite Ecs in HB. destruct pre as [|c0 pre0].
    + simpl in *. exact HB.
    + destruct (fst (sweepR thr maxr 0 answers (c0 :: pre0))) as [|c' p'] eqn:E.
      * unfold rows in Rw. simpl in Rw. discriminate.
      * simpl in *. congruence.
  - unfold rows in *. rewrite map_app, Rw, <- map_app. fold pre post. rewrite <- Ecs. reflexivity.
  - unfold cols in *. rewrite map_app, Cl, <- map_app. fold pre post. rewrite <- Ecs. reflexivity.
Qed.

(* without truncation the kept indices are 0..rk-1 and the hypotheses read as the usual ones *)
Lemma svd_value_seq (a : svd_ans) rows cols A :
  (forall r b, (r < rows)%nat -> (b < cols)%nat -> sum (rk a) (fun p => U a r p * (Sg a p * V a p b)) = A r b) ->
  svd_value (seq 0 (rk a)) rows cols A a.
Proof.
  intros H r b Hr Hb. rewrite seq_length. rewrite <- H by assumption.
  apply sum_ext; intros p Hp. rewrite seq_nth by assumption. reflexivity.
Qed.
Lemma svd_isoU_seq (a : svd_ans) rows :
  (forall p q, (p < rk a)%nat -> (q < rk a)%nat -> sum rows (fun r => cconj R (U a r p) * U a r q) = delta p q) ->
  svd_isoU (seq 0 (rk a)) rows a.
Proof.
  intros H p q Hp Hq. rewrite seq_length in *. rewrite !seq_nth by assumption. apply H; assumption.
Qed.

(* two-sided orthonormalisation t.ortho() *)
Theorem ortho_value thr maxr ansL ansR (cs : list core) xs ys :
  let n := (length cs - 1)%nat in
  let cs1 := ortho_left thr (fun _ => None) 0 ansL cs in
  sweepL_hyp svd_value thr (fun _ => None) 1 ansL cs ->
  sweepL_hyp nonempty_idx thr (fun _ => None) 1 ansL cs ->
  sweepR_hyp svd_value thr maxr 0 ansR (firstn (S n) cs1) ->
  sweepR_hyp nonempty_idx thr maxr 0 ansR (firstn (S n) cs1) ->
  wf cs -> below xs (rows cs) -> below ys (cols cs) ->
  elem (ortho_right thr maxr n ansR cs1) xs ys = elem cs xs ys.
Proof.
  intros n cs1 H1 H2 H3 H4 W Hxs Hys.
  destruct (ortho_left_wf thr (fun _ => None) 0 ansL cs H2 W) as (W1 & Rw & Cl).
  rewrite ortho_right_value; try assumption.
  - apply ortho_left_value; assumption.
  - unfold cs1. rewrite Rw. exact Hxs.
  - unfold cs1. rewrite Cl. exact Hys.
Qed.
End SweepProof.
