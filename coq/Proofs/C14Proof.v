(* C14: the partial derivatives written in transform.py are the derivatives of the evaluation,
   for every family and every parameter value.  The definitions are REGENERATED from the source
   (Gen/BasisFunctions.v); these scripts re-check them on every run. *)
From Coq Require Import Reals Lra Lia List.
From Coquelicot Require Import Coquelicot.
Require Import SkTT.Alg.Poly SkTT.Gen.BasisFunctions.
Open Scope R_scope.

(* bring every [exp] argument in the goal to the canonical form b *)
Ltac exp_to b H :=
  repeat match goal with
         | |- context [exp ?a] =>
             lazymatch a with
             | b => fail
             | _ => replace (exp a) with (exp b) by (f_equal; field; exact H)
             end
         end.

Lemma Constant_d1 x : is_derive ConstantFunction_call x (ConstantFunction_partial x).
Proof. unfold ConstantFunction_call, ConstantFunction_partial. auto_derive; [exact I|ring]. Qed.
Lemma Constant_d2 x : is_derive ConstantFunction_partial x (ConstantFunction_partial2 x).
Proof. unfold ConstantFunction_partial2, ConstantFunction_partial. auto_derive; [exact I|ring]. Qed.

Lemma Identity_d1 x : is_derive Identity_call x (Identity_partial x).
Proof. unfold Identity_call, Identity_partial. auto_derive; [exact I|ring]. Qed.
Lemma Identity_d2 x : is_derive Identity_partial x (Identity_partial2 x).
Proof. unfold Identity_partial2, Identity_partial. auto_derive; [exact I|ring]. Qed.

Lemma Monomial_d1 n pre x : is_derive (Monomial_call n pre) x (Monomial_partial n pre x).
Proof.
  unfold Monomial_call, Monomial_partial. destruct n as [|n].
  - simpl. auto_derive; [exact I|ring].
  - change (Nat.ltb 0 (S n)) with true. cbv iota.
    replace (S n - 1)%nat with n by lia.
    auto_derive; [exact I|].
    change (match n with 0%nat => 1 | S _ => INR n + 1 end) with (INR (S n)). ring.
Qed.
Lemma Monomial_d2 n pre x : is_derive (Monomial_partial n pre) x (Monomial_partial2 n pre x).
Proof.
  unfold Monomial_partial, Monomial_partial2. destruct n as [|[|n]].
  - simpl. auto_derive; [exact I|ring].
  - simpl. auto_derive; [exact I|ring].
  - change (Nat.ltb 0 (S (S n))) with true. change (Nat.ltb 1 (S (S n))) with true. cbv iota.
    replace (S (S n) - 1)%nat with (S n) by lia. replace (S (S n) - 2)%nat with n by lia.
    auto_derive; [exact I|].
    change (match n with 0%nat => 1 | S _ => INR n + 1 end) with (INR (S n)).
    rewrite !S_INR. ring.
Qed.

Lemma Legendre_d1 D p x : D <> 0 -> is_derive (Legendre_call D p) x (Legendre_partial D p x).
Proof. intros HD. unfold Legendre_call, Legendre_partial. apply peval_scaled_derive. exact HD. Qed.
Lemma Legendre_d2 D p x : D <> 0 -> is_derive (Legendre_partial D p) x (Legendre_partial2 D p x).
Proof.
  intros HD. unfold Legendre_partial, Legendre_partial2.
  replace (1 / D ^ 2 * peval (pderiv (pderiv p)) (x / D))
    with (1 / D * (1 / D * peval (pderiv (pderiv p)) (x / D))) by (field; exact HD).
  apply (is_derive_scal (fun x => peval (pderiv p) (x / D)) x (1 / D)).
  apply peval_scaled_derive. exact HD.
Qed.

Lemma Sin_d1 a x : is_derive (Sin_call a) x (Sin_partial a x).
Proof. unfold Sin_call, Sin_partial. auto_derive; [exact I|ring]. Qed.
Lemma Sin_d2 a x : is_derive (Sin_partial a) x (Sin_partial2 a x).
Proof. unfold Sin_partial, Sin_partial2. auto_derive; [exact I|ring]. Qed.
Lemma Cos_d1 a x : is_derive (Cos_call a) x (Cos_partial a x).
Proof. unfold Cos_call, Cos_partial. auto_derive; [exact I|ring]. Qed.
Lemma Cos_d2 a x : is_derive (Cos_partial a) x (Cos_partial2 a x).
Proof. unfold Cos_partial, Cos_partial2. auto_derive; [exact I|ring]. Qed.

Lemma Gauss_d1 m v x : v <> 0 -> is_derive (GaussFunction_call m v) x (GaussFunction_partial m v x).
Proof.
  intros Hv. unfold GaussFunction_call, GaussFunction_partial.
  auto_derive; [exact I|].
  exp_to (- (1 / 2) * (x - m) ^ 2 / v) Hv.
  field; exact Hv.
Qed.
Lemma Gauss_d2 m v x : v <> 0 -> is_derive (GaussFunction_partial m v) x (GaussFunction_partial2 m v x).
Proof.
  intros Hv. unfold GaussFunction_partial2, GaussFunction_partial.
  auto_derive; [exact I|].
  exp_to (- (1 / 2) * (x - m) ^ 2 / v) Hv.
  field; exact Hv.
Qed.

Lemma PeriodicGauss_d1 m v x : v <> 0 ->
  is_derive (PeriodicGaussFunction_call m v) x (PeriodicGaussFunction_partial m v x).
Proof.
  intros Hv. unfold PeriodicGaussFunction_call, PeriodicGaussFunction_partial.
  auto_derive; [exact I|].
  replace (1 / 2 * m - 1 / 2 * x) with (- (1 / 2 * (x - m))) by field.
  replace (1 / 2 * (x + - m)) with (1 / 2 * (x - m)) by field.
  rewrite sin_neg, cos_neg.
  set (u := sin (1 / 2 * (x - m))). set (w := cos (1 / 2 * (x - m))).
  exp_to (- (1 / 2) * u ^ 2 / v) Hv.
  field; exact Hv.
Qed.

(* coordinates the function does not depend on: the code returns the constant these definitions
   record, and the derivative of x_j |-> phi(x_i) (i <> j) is 0 *)
Lemma off_coordinate_derivative (c : R) y : is_derive (fun _ : R => c) y 0.
Proof. auto_derive; [exact I|ring]. Qed.

(* ---- functions of a point t in R^n that depend on one coordinate: gradient and Hessian assembly
        (OneCoordinateFunction.gradient / .hessian and Function.partial / .partial2 conventions) ---- *)
Definition upd (t : nat -> R) (i : nat) (s : R) : nat -> R := fun k => if Nat.eqb k i then s else t k.

Lemma coordinate_derivative (call partial : R -> R) (off : R) (idx : nat) (t : nat -> R) (i : nat) :
  (forall x, is_derive call x (partial x)) -> off = 0 ->
  is_derive (fun s => call (upd t i s idx)) (t i) (if Nat.eqb i idx then partial (t idx) else off).
Proof.
  intros Hd Hoff. unfold upd. destruct (Nat.eqb i idx) eqn:E.
  - apply Nat.eqb_eq in E. subst i. rewrite Nat.eqb_refl.
    apply (is_derive_ext call); [reflexivity|]. apply Hd.
  - rewrite Nat.eqb_sym, E. subst off. apply off_coordinate_derivative.
Qed.

(* second derivatives: entry (i, j) of the Hessian is the derivative along j of the i-th partial *)
Lemma coordinate_derivative2 (partial partial2 : R -> R) (off off2 : R) (idx : nat) (t : nat -> R) (i j : nat) :
  (forall x, is_derive partial x (partial2 x)) -> off = 0 -> off2 = 0 ->
  is_derive (fun s => if Nat.eqb i idx then partial (upd t j s idx) else off) (t j)
            (if andb (Nat.eqb i idx) (Nat.eqb j idx) then partial2 (t idx) else off2).
Proof.
  intros Hd Hoff Hoff2. destruct (Nat.eqb i idx) eqn:Ei; cbn [andb].
  - apply (coordinate_derivative partial partial2 off2 idx t j Hd Hoff2).
  - subst. apply off_coordinate_derivative.
Qed.
