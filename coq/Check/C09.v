(* Correspondence runner for C09 (normalize = 0, threshold = 0): explicit Euler and HOD with SVD tape,
   implicit Euler / trapezoidal rule through the ALS driver of Check/C07.v with its tape.
   case = L [I op; L args; expected (L of core lists, one per produced state)] *)
From Coq Require Import ZArith List Bool Arith.
Import ListNotations.
Require Import Ring Sums Matrix Core Chain Data TTOps Sweep Env Ode.
Require Import SkTT.Check.C01 SkTT.Check.C03 SkTT.Check.C07.

Definition zi_of_Z (z : Z) : ZI := (z, 0%Z).
Definition tabs (cs : list zcore) : list zcore := map tab cs.

(* ortho with a tape of C03-style entries; returns (cores, log as dat list, remaining tape) *)
Definition ortho_tape (maxr : option nat) (tp : list dat) (cs : list zcore) : list zcore * list dat * list dat :=
  let n := (length cs - 1)%nat in
  let ansL := map ans_of_dat (firstn n tp) in
  let ansR := map ans_of_dat (firstn n (skipn n tp)) in
  let cp : caps := match maxr with
                   | None => fun _ => None
                   | Some m => fun bond => if Nat.eqb bond 0 || Nat.eqb bond (length cs) then Some 1%nat else Some m
                   end in
  let c1 := ortho_left None (fun _ => None) 0 ansL cs in
  let c2 := tabs (ortho_right None cp n ansR c1) in
  (c2,
   map (fun e => let '(m, k, A) := e in dat_of_mat m k A)
       (sweepL_log None (fun _ => None) 1 ansL cs ++ sweepR_log None cp 0 ansR c1),
   skipn (n + n) tp).
Definition logs_match (log : list dat) (tp : list dat) : bool :=
  forallb (fun p => dat_eqb (fst p) (dnth 0 (snd p))) (combine log tp).

(* explicit Euler: fold over the step sizes *)
Fixpoint expl_run (A : list zcore) (x : list zcore) (hs : list Z) (tp : list dat) : list (list zcore) * bool * list dat :=
  match hs with
  | [] => ([], true, tp)
  | h :: hs' =>
      let y := tabs (tmul (eye_plus (zi_of_Z h : ZIring) A) x) in
      let '(y2, log, tp') := ortho_tape (Some 50%nat) tp y in
      let '(rest, ok, tp'') := expl_run A y2 hs' tp' in
      (y2 :: rest, logs_match log tp && ok, tp'')
  end.

(* implicit Euler / trapezoidal: the operator and right-hand side handed to sle.als *)
Fixpoint impl_run (trap : bool) (A : list zcore) (x guess : list zcore) (hs : list Z) (reps : nat) (tp : list dat)
  : list (list zcore) * Z * list dat :=
  match hs with
  | [] => ([], 0%Z, tp)
  | h :: hs' =>
      let hh := if trap then Z.div h 2 else h in
      let op := tabs (implicit_op (zi_of_Z hh : ZIring) A) in
      let rhs := if trap then tabs (trapezoidal_rhs (zi_of_Z hh : ZIring) A x) else x in
      let s := run_als op rhs guess reps tp in
      let y := cores s in
      let '(rest, e, tp') := impl_run trap A y y hs' reps (tape s) in
      (y :: rest, if Z.eqb (err s) 0 then e else err s, tp')
  end.

(* HOD of order 2 with previous_value given *)
Fixpoint hod_run (op_hod : list zcore) (xprev x : list zcore) (n : nat) (tp : list dat) : list (list zcore) * bool * list dat :=
  match n with
  | O => ([], true, tp)
  | S n' =>
      let raw := tabs (hod_step_raw op_hod xprev x) in
      let '(y, log, tp') := ortho_tape (Some 50%nat) tp raw in
      let '(rest, ok, tp'') := hod_run op_hod x y n' tp' in
      (y :: rest, logs_match log tp && ok, tp'')
  end.

Definition states_dat (l : list (list zcore)) : dat := L (map dat_of_cores l).

Definition check_C09 (c : dat) : Z :=
  let op := as_Z (dnth 0 c) in
  let a := dnth 1 c in
  let A := cores_of_dat (dnth 0 a) in
  let x0 := cores_of_dat (dnth 1 a) in
  let exp := dnth 2 c in
  match op with
  | 1%Z =>
      let '(sts, ok, tp) := expl_run A x0 (as_Zs (dnth 2 a)) (as_list (dnth 3 a)) in
      if negb ok then 3%Z else if negb (Nat.eqb (length tp) 0) then 4%Z
      else if dat_eqb (states_dat sts) exp then 0%Z else 1%Z
  | 2%Z | 3%Z =>
      let '(sts, e, tp) := impl_run (Z.eqb op 3) A x0 (cores_of_dat (dnth 2 a)) (as_Zs (dnth 3 a)) (as_nat (dnth 4 a)) (as_list (dnth 5 a)) in
      if negb (Z.eqb e 0) then e else if negb (Nat.eqb (length tp) 0) then 4%Z
      else if dat_eqb (states_dat sts) exp then 0%Z else 1%Z
  | 4%Z =>
      let h := as_Z (dnth 3 a) in
      let tp0 := as_list (dnth 5 a) in
      let '(oph, log0, tp1) := ortho_tape None tp0 (tabs (smul (zi_of_Z (2 * h) : ZIring) A)) in
      let '(xp, log1, tp2) := ortho_tape (Some 50%nat) tp1 (cores_of_dat (dnth 2 a)) in
      let '(sts, ok, tp3) := hod_run oph xp x0 (as_nat (dnth 4 a)) tp2 in
      if negb (logs_match log0 tp0 && logs_match log1 tp1 && ok) then 3%Z else if negb (Nat.eqb (length tp3) 0) then 4%Z
      else if dat_eqb (states_dat sts) exp then 0%Z else 1%Z
  | _ => 9%Z
  end.
