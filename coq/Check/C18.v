(* Correspondence runner for C18: amuset_hosvd with every SVD and eig answered from a tape.
   case = L [I 1; L [I m; modes; thr; maxr; hosvd tape; L pairs; I E]; L [per pair: L [L eigenvalues; eigentensor cores]]]
   pair = L [L xidx; L yidx; svd entry [A; k; U; s; V]; eig entry [A * 2^E; L lam; W]]
   Singular values are powers of two; reciprocals are represented as 2^E / s, and the harness scales the implementation's
   reduced matrix and last eigentensor core by 2^E. *)
From Coq Require Import ZArith List Bool Arith.
Import ListNotations.
Require Import Ring Sums Matrix Core Chain Data TTOps Sweep DataTensor Tedmd.
Require Import SkTT.Check.C01 SkTT.Check.C03 SkTT.Check.C07 SkTT.Check.C15 SkTT.Check.C16.

Fixpoint insert_asc (v : Z) (i : nat) (l : list (Z * nat)) : list (Z * nat) :=
  match l with
  | [] => [(v, i)]
  | (w, j) :: l' => if Z.ltb v w then (v, i) :: l else (w, j) :: insert_asc v i l'
  end.
Definition argsort_dist1 (vals : list Z) : list nat :=
  map snd (fold_left (fun acc p => insert_asc (Z.abs (fst p - 1)) (snd p) acc) (combine vals (seq 0 (length vals))) []).
Definition nats_of_dat (d : dat) : list nat := map as_nat (as_list d).

Definition check_pair (E : Z) (cs : list zcore) (r m : nat) (C : M ZIring) (pr : dat) (exp : dat) : Z :=
  let xi := nats_of_dat (dnth 0 pr) in let yi := nats_of_dat (dnth 1 pr) in
  let se := dnth 2 pr in let ee := dnth 3 pr in
  let a := ans_of_dat se in
  let Cx := restrict C xi in let Cy := restrict C yi in
  let nx := length xi in
  let idx := @select ZIring (Some (fun (sj s0 : ZIring) => Z.ltb (fst (s0 : ZI)) (1000 * fst (sj : ZI)))) None a in
  let k := length idx in
  let recip := fun s : ZI => (Z.div (2 ^ E) (fst s), 0%Z) in
  let red : mat3 := (k, k, reduced r Cx Cy nx idx a recip) in
  let lam := map as_Z (as_list (dnth 1 ee)) in
  let '(_, _, W) := mat_of_dat (dnth 2 ee) in
  let ord := argsort_dist1 lam in
  let et := cs ++ [tab (eigen_last r idx a recip W ord)] in
  if negb (mat_eqb (r, nx, Cx) (dnth 0 se)) then 3%Z
  else if negb (mat_eqb red (dnth 0 ee)) then 5%Z
  else if negb (dat_eqb (L (map (fun i => I (nth i lam 0%Z)) ord)) (dnth 0 exp)) then 2%Z
  else if dat_eqb (dat_of_cores et) (dnth 1 exp) then 0%Z else 1%Z.

Fixpoint check_pairs (E : Z) (cs : list zcore) (r m : nat) (C : M ZIring) (prs exps : list dat) : Z :=
  match prs, exps with
  | pr :: prs', e :: exps' => let z := check_pair E cs r m C pr e in if Z.eqb z 0 then check_pairs E cs r m C prs' exps' else z
  | [], [] => 0%Z
  | _, _ => 4%Z
  end.

Definition check_C18 (c : dat) : Z :=
  let a := dnth 1 c in
  let m := as_nat (dnth 0 a) in
  let modes := map (mode_of_dat m) (as_list (dnth 1 a)) in
  let thr := thr_of_dat (dnth 2 a) in
  let maxr := maxr_int_opt (dnth 3 a) in
  let tp := as_list (dnth 4 a) in
  let '(cs, fin, log) := hosvd thr maxr m modes (map ans_of_dat tp) 1 (fun _ _ => zi1) in
  let '(r, Rs) := fin in
  let Rt := tabM r m Rs in
  if negb (dat_eqb (log_dat log) (L (map (dnth 0) tp))) then 3%Z
  else check_pairs (as_Z (dnth 6 a)) (map tab cs) r m Rt (as_list (dnth 5 a)) (as_list (dnth 2 c)).
