(* Correspondence runner for C20: quantum_computation.sampling with the uniform matrix given (dyadic numerators over 2^k).
   case = L [I 1; L [state cores; L sel; L rows-of-numerators; I k]; L [L rows; L counts]] *)
From Coq Require Import ZArith List Bool Arith.
Import ListNotations.
Require Import Ring Sums Matrix Core Chain Data TTOps Structure Sampling.
Require Import SkTT.Check.C01.

Definition dec_dyadic (k : Z) (u : Z) (p0 psum : ZIring) : bool := Z.ltb (fst (p0 : ZI) * 2 ^ k) (u * fst (psum : ZI)).

Definition check_C20 (c : dat) : Z :=
  let a := dnth 1 c in
  let state := cores_of_dat (dnth 0 a) in
  let sel := bools_of_dat (dnth 1 a) in
  let urows := map (fun r => map as_Z (as_list r)) (as_list (dnth 2 a)) in
  let k := as_Z (dnth 3 a) in
  let pt := map tab (@prob_tt ZIring sel state) in
  let rows := map (fun us => @sample_row ZIring Z (dec_dyadic k) pt (fun _ => zi1) us) urows in
  let uc := unique_counts rows in
  let exp := dnth 2 c in
  if negb (dat_eqb (L (map (fun p => dat_of_nats (fst p)) uc)) (dnth 0 exp)) then 1%Z
  else if negb (dat_eqb (dat_of_nats (map snd uc)) (dnth 1 exp)) then 2%Z else 0%Z.
