(* Correspondence runner for C12 (slim_mme with SVD tape; ulam_2d with numpy.unique as oracle). *)
From Coq Require Import ZArith List Bool Arith.
Import ListNotations.
Require Import Ring Sums Matrix Core Chain Data TTOps Sweep Slim.
Require Import SkTT.Check.C01 SkTT.Check.C03.

Definition r1_of_dat (d : dat) : @reaction1 ZIring := (as_nat (dnth 0 d), as_nat (dnth 1 d), zi_of_dat (dnth 2 d)).
Definition r2_of_dat (d : dat) : @reaction2 ZIring :=
  (as_nat (dnth 0 d), as_nat (dnth 1 d), as_nat (dnth 2 d), as_nat (dnth 3 d), zi_of_dat (dnth 4 d)).

(* per bond: (rank, L family, M family, logged matrix) *)
Definition bond := (nat * (nat -> M ZIring) * (nat -> M ZIring) * (nat * nat * M ZIring))%type.
Definition mk_bond (thr : option (ZIring -> ZIring -> bool)) (d1 d2 : nat) (rs : list (@reaction2 ZIring)) (a : svd_ans ZIring) : bond :=
  let sc := supercore rs in
  let idx := select thr None a in
  (length idx, tcr_left d1 idx a, tcr_right d2 idx a, ((d1 * d1)%nat, (d2 * d2)%nat, sc_matrix d1 d2 sc)).

Fixpoint mk_bonds thr (dims : list nat) (two : list (list (@reaction2 ZIring))) (tape : list (svd_ans ZIring)) : list bond :=
  match dims, two, tape with
  | d1 :: ((d2 :: _) as dims'), rs :: two', a :: tape' => mk_bond thr d1 d2 rs a :: mk_bonds thr dims' two' tape'
  | _, _, _ => []
  end.

Definition zeroF : nat -> M ZIring := fun _ _ _ => zi0.
Definition bond_rank (b : bond) := let '(r, _, _, _) := b in r.
Definition bond_L (b : bond) := let '(_, l, _, _) := b in l.
Definition bond_M (b : bond) := let '(_, _, m, _) := b in m.
Definition bond_log (b : bond) := let '(_, _, _, l) := b in l.
Definition dbond : bond := (0%nat, zeroF, zeroF, (0%nat, 0%nat, fun _ _ => zi0)).

Definition run_slim (a : dat) : dat :=
  let dims := as_nats (dnth 0 a) in
  let d := length dims in
  let singles := map (fun l => map r1_of_dat (as_list l)) (as_list (dnth 1 a)) in
  let twos := map (fun l => map r2_of_dat (as_list l)) (as_list (dnth 2 a)) in
  let thr := thr_of_dat (dnth 3 a) in
  let tape := map ans_of_dat (as_list (dnth 4 a)) in
  let bonds := mk_bonds thr dims twos tape in
  let cyclic := Nat.eqb (length twos) d in
  let cb := if cyclic then mk_bond thr (last dims 0%nat) (hd 0%nat dims) (last twos []) (nth (d - 1) tape (@mkans ZIring 0 (fun _ _ => zi0) (fun _ => zi0) (fun _ _ => zi0)))
            else dbond in
  let rc := bond_rank cb in
  let sites := map (fun i =>
      @mksite ZIring (nth i dims 0%nat) (smat (nth i singles []))
        (if Nat.ltb i (d - 1) then bond_rank (nth i bonds dbond) else 0%nat)
        (if Nat.ltb i (d - 1) then bond_L (nth i bonds dbond) else bond_L cb)
        (if Nat.eqb i 0 then bond_M cb else bond_M (nth (i - 1) bonds dbond))) (seq 0 d) in
  L [with_meta (slim_pattern rc sites); log_dat (map bond_log bonds ++ (if cyclic then [bond_log cb] else []))].

Definition trans_of_dat (d : dat) : trans2 := (as_nat (dnth 0 d), as_nat (dnth 1 d), as_nat (dnth 2 d), as_nat (dnth 3 d)).
Definition run_ulam2 (a : dat) : dat :=
  let s1 := as_nat (dnth 0 a) in let s2 := as_nat (dnth 1 a) in
  let ts := map trans_of_dat (as_list (dnth 2 a)) in
  let uniq := map (fun p => (as_nat (dnth 0 p), as_nat (dnth 1 p))) (as_list (dnth 3 a)) in
  let inv := as_nats (dnth 4 a) in
  (* the implementation returns the transposed operator *)
  with_meta (ttranspose false [true; true] (@ulam2_cores ZIring s1 s2 ts uniq inv)).

Definition trans3_of_dat (d : dat) : trans3 :=
  (as_nat (dnth 0 d), as_nat (dnth 1 d), as_nat (dnth 2 d), as_nat (dnth 3 d), as_nat (dnth 4 d), as_nat (dnth 5 d)).
Definition pairs_of_dat (d : dat) : list (nat * nat) := map (fun p => (as_nat (dnth 0 p), as_nat (dnth 1 p))) (as_list d).
Definition run_ulam3 (a : dat) : dat :=
  let s1 := as_nat (dnth 0 a) in let s2 := as_nat (dnth 1 a) in let s3 := as_nat (dnth 2 a) in
  let ts := map trans3_of_dat (as_list (dnth 3 a)) in
  with_meta (ttranspose false [true; true; true]
               (@ulam3_cores ZIring s1 s2 s3 ts (pairs_of_dat (dnth 4 a)) (as_nats (dnth 5 a)) (pairs_of_dat (dnth 6 a)) (as_nats (dnth 7 a)))).

Definition run_C12 (c : dat) : dat :=
  match as_Z (dnth 0 c) with
  | 1 => run_slim (dnth 1 c)
  | 2 => run_ulam2 (dnth 1 c)
  | 3 => run_ulam3 (dnth 1 c)
  | _ => L []
  end%Z.
Definition check_C12 (c : dat) : Z := if dat_eqb (run_C12 c) (dnth 2 c) then 0%Z else 1%Z.
