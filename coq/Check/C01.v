(* Correspondence runner for C01: evaluates the model on a literal case and compares with the
   implementation's recorded output.  case = L [I opcode; L args; expected] *)
From Coq Require Import ZArith List Bool Arith.
Import ListNotations.
Require Import Ring Sums Matrix Core Chain Data TTOps.

Definition zis_dat (l : list ZI) : dat := L (map dat_of_zi l).
Definition bools_of_dat (d : dat) : list bool := map (fun x => negb (Z.eqb (as_Z x) 0)) (as_list d).
Definition zmax_list (l : list ZI) : dat :=
  match l with [] => L [] | z :: l' => dat_of_zi (fold_left (fun acc w => if Z.ltb (fst acc) (fst w) then w else acc) l' z) end.

Definition with_meta (cs : list zcore) : dat :=
  L [dat_of_cores cs; dat_of_nats (rows cs); dat_of_nats (cols cs); dat_of_nats (ranks_of cs)].

Definition run_C01 (c : dat) : dat :=
  let op := as_Z (dnth 0 c) in
  let a := dnth 1 c in
  let t := cores_of_dat (dnth 0 a) in
  let u := cores_of_dat (dnth 1 a) in
  match op with
  | 1 => with_meta (tadd t u)
  | 2 => with_meta (tsub t u)
  | 3 => with_meta (smul (zi_of_dat (dnth 1 a) : ZIring) t)
  | 4 => if matmul_is_scalar t u then dat_of_zi (matmul_scalar t u) else with_meta (tmul t u)
  | 6 => with_meta (ttranspose (negb (Z.eqb (as_Z (dnth 2 a)) 0)) (bools_of_dat (dnth 1 a)) t)
  | 7 => with_meta (tconj t)
  | 8 => dat_of_zi (elem t (as_nats (dnth 1 a)) (as_nats (dnth 2 a)))
  | 9 => zis_dat (full_flat t)
  | 11 => zmax_list (colsums t)
  | 12 => with_meta (tzeros (as_nats (dnth 2 a)) (as_nats (dnth 0 a)) (as_nats (dnth 1 a)))
  | 13 => with_meta (tones (as_nats (dnth 2 a)) (as_nats (dnth 0 a)) (as_nats (dnth 1 a)))
  | 14 => with_meta (teye (as_nats (dnth 0 a)))
  | 15 => with_meta (tunit (as_nats (dnth 0 a)) (as_nats (dnth 1 a)))
  | _ => L []
  end%Z.

Definition check_C01 (c : dat) : Z :=
  if dat_eqb (run_C01 c) (dnth 2 c) then 0%Z else 1%Z.
