(* Correspondence runner for C19 (integer data; the code's 0.5 * x is exact division by two here).
   jet literal = L [value; L gradient; hessian matrix]
   op 1 generator_on_product            args [d; d2; L b; sigma; L jets]                     expected I
   op 2 generator_on_product_reversible args [d; d2; sigma; L jets; i]                       expected I
   op 3 _reduced_matrix_tgedmd (b given) args [d; d2; L snapshots; U cores; s_inv]           expected matrix
        snapshot = L [L b; sigma; L modes (L jets); I sqrt_w; L V_row]
   op 4 _reduced_matrix_tgedmd (b None)  snapshot = L [sigma; L modes; I w]                    expected matrix *)
From Coq Require Import ZArith List Bool Arith.
Import ListNotations.
Require Import Ring Sums Matrix Core Chain Data TTOps Gedmd.
Require Import SkTT.Check.C01 SkTT.Check.C07 SkTT.Check.C11 SkTT.Check.C16.

Definition zhalf (z : ZIring) : ZIring := (Z.div (fst (z : ZI)) 2, Z.div (snd (z : ZI)) 2).
Definition zvec (d : dat) : nat -> ZIring := let l := as_list d in fun i => (as_Z (nth i l (I 0)), 0%Z).
Definition zmatf (d : dat) : nat -> nat -> ZIring := let '(_, _, A) := mat_of_dat d in A.
Definition jet_of_dat (d : dat) : @fjet ZIring := @mkjet ZIring (as_Z (dnth 0 d), 0%Z) (zvec (dnth 1 d)) (zmatf (dnth 2 d)).
Definition re (z : ZIring) : Z := fst (z : ZI).

Section Snap.
Variables (d d2 : nat).
Definition contract_L (bv : nat -> ZIring) (sg : nat -> nat -> ZIring) (modes : list (list (@fjet ZIring))) (us : list zcore) : nat -> ZIring :=
  let p := length modes in
  let tabv (r : nat) (v : @cvec ZIring) : @cvec ZIring :=
      let l := flat_map (fun c => map (fun q => v c q) (seq 0 r)) (seq 0 (d2 + 2)) in fun c q => nth (c * r + q) l zi0 in
  let v0 := tabv (rr (nth 0 us zdcore)) (lstep_first zhalf d d2 bv sg (nth 0 modes []) (nth 0 us zdcore)) in
  let vm := fold_left (fun v k => tabv (rr (nth k us zdcore)) (lstep_mid zhalf d d2 bv sg v (nth k modes []) (nth k us zdcore))) (seq 1 (p - 2)) v0 in
  lstep_last zhalf d d2 bv sg vm (nth (p - 1) modes []) (nth (p - 1) us zdcore).
Definition contract_D (modes : list (list (@fjet ZIring))) (us : list zcore) : @cvec ZIring :=
  let p := length modes in
  let tabv (r : nat) (v : @cvec ZIring) : @cvec ZIring :=
      let l := flat_map (fun c => map (fun q => v c q) (seq 0 r)) (seq 0 (d + 1)) in fun c q => nth (c * r + q) l zi0 in
  let v0 := tabv (rr (nth 0 us zdcore)) (dstep_first (nth 0 modes []) (nth 0 us zdcore)) in
  let vm := fold_left (fun v k => tabv (rr (nth k us zdcore)) (dstep_mid v (nth k modes []) (nth k us zdcore))) (seq 1 (p - 2)) v0 in
  dstep_last vm (nth (p - 1) modes []) (nth (p - 1) us zdcore).
End Snap.

Definition modes_of_dat (d : dat) : list (list (@fjet ZIring)) := map (fun md => map jet_of_dat (as_list md)) (as_list d).

Definition check_C19 (c : dat) : Z :=
  let op := as_Z (dnth 0 c) in
  let a := dnth 1 c in
  let d := as_nat (dnth 0 a) in let d2 := as_nat (dnth 1 a) in
  if Z.eqb op 1 then
    let v := gen_on_product zhalf d d2 (zvec (dnth 2 a)) (zmatf (dnth 3 a)) (map jet_of_dat (as_list (dnth 4 a))) in
    if Z.eqb (re v) (as_Z (dnth 2 c)) then 0%Z else 1%Z
  else if Z.eqb op 2 then
    let v := gen_on_product_rev d (zmatf (dnth 2 a)) (map jet_of_dat (as_list (dnth 3 a))) (as_nat (dnth 4 a)) in
    if Z.eqb (re v) (as_Z (dnth 2 c)) then 0%Z else 1%Z
  else
    let snaps := as_list (dnth 2 a) in
    let us := cores_of_dat (dnth 3 a) in
    let '(rp, _, sinv) := mat_of_dat (dnth 4 a) in
    let M : M ZIring :=
      if Z.eqb op 3 then
        fold_left (fun (acc : M ZIring) sn =>
           let v := contract_L d d2 (zvec (dnth 0 sn)) (zmatf (dnth 1 sn)) (modes_of_dat (dnth 2 sn)) us in
           let vt := tabv rp v in
           let sw : ZIring := (as_Z (dnth 3 sn), 0%Z) in
           let Vr := zvec (dnth 4 sn) in
           tabM rp rp (fun i j => ziadd (acc i j) (zimul sw (zimul (Vr i) (@sum ZIring rp (fun q => zimul (vt q) (sinv q j)))))))
          snaps (fun _ _ => zi0)
      else
        fold_left (fun (acc : M ZIring) sn =>
           let sg := zmatf (dnth 0 sn) in
           let v := contract_D d (modes_of_dat (dnth 1 sn)) us in
           let w : ZIring := (as_Z (dnth 2 sn), 0%Z) in
           let vs : M ZIring := tabM d rp (fun x j => @sum ZIring rp (fun q => zimul (v x q) (sinv q j))) in
           let am := tabM d d (@amat ZIring d2 sg) in
           tabM rp rp (fun i j => ziadd (acc i j)
               (ziopp (zhalf (zimul w (@sum ZIring d (fun x => @sum ZIring d (fun y => zimul (zimul (vs x i) (am x y)) (vs y j)))))))))
          snaps (fun _ _ => zi0) in
    if mat_eqb (rp, rp, M) (dnth 2 c) then 0%Z else 1%Z.
