(* Correspondence runner for C11: ode.tdvp1site / ode.tdvp2site over the Gaussian integers; every call of
   expm_multiply, qr, rq, svd answered from the tape.  Step size h = 2*hh (hh integer) so that the scalars
   -i h/2, +i h/2, -i h are Gaussian integers.
   case = L [I op; L [A; x0; I hh; I steps; thr; maxr; tape0; tape]; expected states]   (op 1 = 1-site, 2 = 2-site)
   tape0 = C03-style svd entries of the initial ortho_right;
   tape entry = L [I kind; ...]: 1 qr [a; q; r] | 2 rq [a; q; r] | 3 svd [a; k; U; s; V] | 4 expm [A; v; answer] *)
From Coq Require Import ZArith List Bool Arith.
Import ListNotations.
Require Import Ring Sums Matrix Core Chain Data TTOps Sweep Env Tdvp.
Require Import SkTT.Check.C01 SkTT.Check.C03 SkTT.Check.C07.

Definition scale (c : ZI) (a : mat3) : mat3 := let '(m, n, A) := a in (m, n, fun i j => zimul c (A i j)).
Definition vec_eqb (n : nat) (v : nat -> ZI) (d : dat) : bool := mat_eqb (n, 1%nat, fun i _ => v i) d.
Definition tabv (n : nat) (v : nat -> ZI) : nat -> ZI := let l := map v (seq 0 n) in fun i => nth i l zi0.
Definition tabm (a : mat3) : mat3 :=
  let '(m, n, A) := a in let l := flat_map (fun i => map (fun j => A i j) (seq 0 n)) (seq 0 m) in (m, n, fun i j => nth (i * n + j) l zi0).

Section Run.
Variables (A : list zcore) (hh : Z).
Notation d := (length A).
Definition c_half : ZI := (0, - hh)%Z.      (* -i h/2 *)
Definition c_back : ZI := (0, hh)%Z.        (* +i h/2 *)
Definition c_full : ZI := (0, - 2 * hh)%Z.  (* -i h *)

Definition do_expm (s : stt) (mo : mat3) (n : nat) (v : nat -> ZI) : stt * (nat -> ZI) :=
  let e := hd_tape s in
  let s1 := flag s (Z.eqb (as_Z (dnth 0 e)) 4 && mat_eqb mo (dnth 1 e) && vec_eqb n v (dnth 2 e)) 3 in
  let '(_, _, y) := mat_of_dat (dnth 3 e) in
  (setc s1 (cores s1) (ranks s1) (tl_tape s1), fun r => y r 0%nat).
Definition corevec (c : zcore) : nat -> ZI :=
  fun idx => g c (idx / (rr c * md c))%nat ((idx / rr c) mod md c)%nat 0%nat (idx mod rr c)%nat.
Definition veccore (r1 n r2 : nat) (y : nat -> ZI) : zcore :=
  tab (@mkcore ZIring r1 n 1 r2 (fun a x _ b => y ((a * n + x) * r2 + b)%nat)).
Definition bl (s : stt) i := build_left A [] s i.
Definition br (s : stt) i := build_right A [] s i.

(* ---- one-site ---- *)
Definition upd1_fwd (s : stt) (i : nat) : stt :=
  let r1 := nth i (ranks s) 0%nat in let r2 := nth (S i) (ranks s) 0%nat in
  let Ai := nth i A zdcore in let n := md Ai in
  let micro := tabm (micro_op_als (nth3 (lop s) i) (nth3 (rop s) i) Ai r1 r2) in
  let ci := nth i (cores s) zdcore in
  if (i <? d - 1)%nat then
    let '(s, y) := do_expm s (scale c_half micro) (r1 * n * r2) (corevec ci) in
    let ymat : mat3 := ((r1 * n)%nat, r2, fun r c => y (r * r2 + c)%nat) in
    let e := hd_tape s in
    let s := flag s (Z.eqb (as_Z (dnth 0 e)) 1 && mat_eqb ymat (dnth 1 e)) 3 in
    let '(_, k, q) := mat_of_dat (dnth 2 e) in
    let '(_, _, r) := mat_of_dat (dnth 3 e) in
    let newc := tab (@mkcore ZIring r1 n 1 k (fun a x _ b => q (a * n + x)%nat b)) in
    let s := setc s (updl (cores s) i newc) (updl (ranks s) (S i) k) (tl_tape s) in
    let '(_, _, Mi) := micro in
    let micro' := tabm (proj_lead q (r1 * n) k r2 Mi) in
    let '(s, rv) := do_expm s (scale c_back micro') (k * r2) (fun idx => r (idx / r2)%nat (idx mod r2)%nat) in
    let rnew : M ZIring := fun p b => rv (p * r2 + b)%nat in
    let nxt := tab (absorb_left k r2 rnew (nth (S i) (cores s) zdcore)) in
    setc s (updl (cores s) (S i) nxt) (ranks s) (tape s)
  else
    let '(s, y) := do_expm s (scale c_full micro) (r1 * n * r2) (corevec ci) in
    setc s (updl (cores s) i (veccore r1 n r2 y)) (ranks s) (tape s).

Definition upd1_bwd (s : stt) (i : nat) : stt :=
  let r1 := nth i (ranks s) 0%nat in let r2 := nth (S i) (ranks s) 0%nat in
  let Ai := nth i A zdcore in let n := md Ai in
  let micro := tabm (micro_op_als (nth3 (lop s) i) (nth3 (rop s) i) Ai r1 r2) in
  if (0 <? i)%nat then
    let s := if (i <? d - 1)%nat then
               let '(s, y) := do_expm s (scale c_half micro) (r1 * n * r2) (corevec (nth i (cores s) zdcore)) in
               setc s (updl (cores s) i (veccore r1 n r2 y)) (ranks s) (tape s)
             else s in
    let ci := nth i (cores s) zdcore in
    let cmat : mat3 := (r1, (n * r2)%nat, fun a c => g ci a (c / r2)%nat 0%nat (c mod r2)%nat) in
    let e := hd_tape s in
    let s := flag s (Z.eqb (as_Z (dnth 0 e)) 2 && mat_eqb cmat (dnth 1 e)) 3 in
    let '(k, _, q) := mat_of_dat (dnth 2 e) in
    let '(_, _, r) := mat_of_dat (dnth 3 e) in
    let newc := tab (@mkcore ZIring k n 1 r2 (fun a x _ b => q a (x * r2 + b)%nat)) in
    let s := setc s (updl (cores s) i newc) (updl (ranks s) i k) (tl_tape s) in
    let '(_, _, Mi) := micro in
    let micro' := tabm (proj_trail q r1 (n * r2) k Mi) in
    let '(s, rv) := do_expm s (scale c_back micro') (r1 * k) (fun idx => r (idx / k)%nat (idx mod k)%nat) in
    let rnew : M ZIring := fun a p => rv (a * k + p)%nat in
    let prv := tab (absorb_right r1 k (nth (i - 1) (cores s) zdcore) rnew) in
    setc s (updl (cores s) (i - 1) prv) (ranks s) (tape s)
  else if (1 <? d)%nat then
    let '(s, y) := do_expm s (scale c_half micro) (r1 * n * r2) (corevec (nth i (cores s) zdcore)) in
    setc s (updl (cores s) i (veccore r1 n r2 y)) (ranks s) (tape s)
  else s.
Definition step1 (s : stt) : stt :=
  fold_left (fun s i => upd1_bwd (br s i) i) (rev (seq 0 d)) (fold_left (fun s i => upd1_fwd (bl s i) i) (seq 0 d) s).

(* ---- two-site ---- *)
Variables (thr : option (ZIring -> ZIring -> bool)) (maxr : option nat).
Definition upd2 (s : stt) (i : nat) (fwd : bool) : stt :=
  let ri := nth i (ranks s) 0%nat in let ri2 := nth (S (S i)) (ranks s) 0%nat in
  let A1 := nth i A zdcore in let A2 := nth (S i) A zdcore in
  let n1 := md A1 in let n2 := md A2 in
  let micro := tabm (micro_op_mals (nth3 (lop s) i) (nth3 (rop s) (S i)) A1 A2 ri ri2) in
  let '(s, y) := do_expm s (scale c_half micro) (ri * n1 * n2 * ri2)
                         (pair_vec (nth i (cores s) zdcore) (nth (S i) (cores s) zdcore)) in
  let ymat : mat3 := ((ri * n1)%nat, (n2 * ri2)%nat, fun r c => y (r * (n2 * ri2) + c)%nat) in
  let e := hd_tape s in
  let s := flag s (Z.eqb (as_Z (dnth 0 e)) 3 && mat_eqb ymat (dnth 1 e)) 3 in
  let a := ans_of_dat (L (tl (as_list e))) in
  let idx := select thr maxr a in
  let k := length idx in
  let '(_, _, Mi) := micro in
  if fwd then
    let ucore := tab (@mkcore ZIring ri n1 1 k (fun al x _ p => U a (al * n1 + x)%nat (nth p idx 0%nat))) in
    let svcore := tab (@mkcore ZIring k n2 1 ri2 (fun p x _ e' => zimul (Sg a (nth p idx 0%nat)) (V a (nth p idx 0%nat) (x * ri2 + e')%nat))) in
    let s := setc s (updl (updl (cores s) i ucore) (S i) svcore) (updl (ranks s) (S i) k) (tl_tape s) in
    if (i <? d - 2)%nat then
      let micro' := tabm (proj_lead (fun l p => U a l (nth p idx 0%nat)) (ri * n1) k (n2 * ri2) Mi) in
      let '(s, w) := do_expm s (scale c_back micro') (k * n2 * ri2) (corevec svcore) in
      setc s (updl (cores s) (S i) (veccore k n2 ri2 w)) (ranks s) (tape s)
    else s
  else
    let uscore := tab (@mkcore ZIring ri n1 1 k (fun al x _ p => zimul (U a (al * n1 + x)%nat (nth p idx 0%nat)) (Sg a (nth p idx 0%nat)))) in
    let vcore := tab (@mkcore ZIring k n2 1 ri2 (fun p x _ e' => V a (nth p idx 0%nat) (x * ri2 + e')%nat)) in
    let s := setc s (updl (updl (cores s) i uscore) (S i) vcore) (updl (ranks s) (S i) k) (tl_tape s) in
    if (0 <? i)%nat then
      let micro' := tabm (proj_trail (fun p t => V a (nth p idx 0%nat) t) (ri * n1) (n2 * ri2) k Mi) in
      let '(s, w) := do_expm s (scale c_back micro') (ri * n1 * k) (corevec uscore) in
      setc s (updl (cores s) i (veccore ri n1 k w)) (ranks s) (tape s)
    else s.
Definition step2 (s : stt) : stt :=
  fold_left (fun s i => upd2 (br s (S i)) i false) (rev (seq 0 (d - 1))) (fold_left (fun s i => upd2 (bl s i) i true) (seq 0 (d - 1)) s).

End Run.

Definition check_C11 (c : dat) : Z :=
  let op := as_Z (dnth 0 c) in
  let a := dnth 1 c in
  let Aop := cores_of_dat (dnth 0 a) in let x0 := cores_of_dat (dnth 1 a) in
  let hh := as_Z (dnth 2 a) in let steps := as_nat (dnth 3 a) in
  let tp0 := as_list (dnth 6 a) in
  let n := (length x0 - 1)%nat in
  let ans0 := map ans_of_dat tp0 in
  let x1 := map tab (ortho_right None (fun _ => None) n ans0 x0) in
  let log0 := map (fun e => let '(m, k, Mx) := e in dat_of_mat m k Mx) (sweepR_log None (fun _ => None) 0 ans0 x0) in
  if negb (dat_eqb (L log0) (L (map (dnth 0) tp0))) then 3%Z else
  let dd := length Aop in
  let s0 := init_st Aop x1 (as_list (dnth 7 a)) in
  let '(sts, s) :=
    if Z.eqb op 1 then traj cores steps (step1 Aop hh) (fold_left (fun s i => br Aop s i) (rev (seq 0 dd)) s0)
    else traj cores steps (step2 Aop hh (thr_of_dat (dnth 4 a)) (maxr_int_opt (dnth 5 a))) (fold_left (fun s i => br Aop s i) (rev (seq 1 (dd - 1))) s0) in
  if negb (Z.eqb (err s) 0) then err s
  else if negb (Nat.eqb (length (tape s)) 0) then 4%Z
  else if dat_eqb (L (map dat_of_cores (x0 :: sts))) (dnth 2 c) then 0%Z else 1%Z.
