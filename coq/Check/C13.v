(* Correspondence runner for C13: models with integer parameters, compared core by core.
   case = L [I op; L params; expected cores]
   op 1 ising [d; J; h] | 2 exciton_chain [n; alpha; beta] | 3 two_step_destruction [k1; k2; k3; n0; n1; n2; n3]
   op 4 signaling_cascade pattern with integer surrogate rates [n; d; a; c; L l-table] (used against the block-extracted
        integer re-assembly of the harness, see harness/props/c13.py) *)
From Coq Require Import ZArith List Bool Arith.
Import ListNotations.
Require Import Ring Sums Matrix Core Chain Data TTOps Sweep Slim Models.
Require Import SkTT.Check.C01.

Definition zofI (d : dat) : ZIring := (as_Z d, 0%Z).
Definition run_C13 (c : dat) : list zcore :=
  let op := as_Z (dnth 0 c) in
  let p := dnth 1 c in
  (if Z.eqb op 1 then map tab (@ising ZIring (as_nat (dnth 0 p)) (zofI (dnth 1 p)) (zofI (dnth 2 p)))
   else if Z.eqb op 2 then map tab (@exciton_chain ZIring (zofI (dnth 1 p)) (zofI (dnth 2 p)) (as_nat (dnth 0 p)))
   else if Z.eqb op 3 then map tab (@two_step_destruction ZIring (zofI (dnth 0 p)) (zofI (dnth 1 p)) (zofI (dnth 2 p))
                                      (as_nat (dnth 3 p)) (as_nat (dnth 4 p)) (as_nat (dnth 5 p)) (as_nat (dnth 6 p)))
   else if Z.eqb op 4 then
     let ltab := as_list (dnth 4 p) in
     map tab (@signaling_cascade ZIring (as_nat (dnth 0 p)) (zofI (dnth 2 p)) (zofI (dnth 3 p))
                (fun y => zofI (nth y ltab (I 0))) (as_nat (dnth 1 p)))
   else [])%Z.
Definition check_C13 (c : dat) : Z :=
  if dat_eqb (dat_of_cores (run_C13 c)) (dnth 2 c) then 0%Z else 1%Z.
