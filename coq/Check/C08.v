(* Correspondence runner for C08: evp.als over the Gaussian integers with eig/eigh/svd answered from
   the tape.  Left/right stacks and the micro matrix are the generic functions of Model/Env.v (after
   fix d348e57 the eigen-solver builds its stacks exactly like sle.py); deflation tensors use the
   two-axis stacks; this file is the glue (loop bounds, selection of eigenpairs, SVD updates,
   best-so-far bookkeeping).
   case = L [I 1; L [A; x0; prev (L [] | L [cores]); shift (p q); gevp (L [] | cores); nev; repeats; solver; sigma (p q); tape]; expected]
   tape: [4; M; Mg|[]; evals; evecs] eig | [5; M; Mg|[]; evals; evecs] eigh | [3; a; k; U; s; V] full svd *)
From Coq Require Import ZArith List Bool Arith.
Import ListNotations.
Require Import Ring Sums Matrix Core Chain Data TTOps Sweep Env.
Require Import SkTT.Check.C01 SkTT.Check.C03 SkTT.Check.C07.

Record est := mkest { ecores : list zcore; eranks : list nat;
                      elop : list zst3; erop : list zst3; eglop : list zst3; egrop : list zst3;
                      eplop : list zst2; eprop : list zst2;
                      etape : list dat; eerr : Z; evals : list ZI; evecs : M ZIring }.
Definition eflag (s : est) (ok : bool) (code : Z) : est :=
  if ok then s else if Z.eqb (eerr s) 0 then
    mkest (ecores s) (eranks s) (elop s) (erop s) (eglop s) (egrop s) (eplop s) (eprop s) (etape s) code (evals s) (evecs s) else s.

Section Run.
Variables (A : list zcore) (G : option (list zcore)) (P : option (list zcore)).
Variables (shift sig_p sig_q : Z) (shift_q : Z) (nev : nat) (use_eigh : bool).
Definition dd := length A.
Definition Gc i := match G with Some l => nth i l zdcore | None => zdcore end.
Definition Pc i := match P with Some l => nth i l zdcore | None => zdcore end.

Definition ebuild_right (s : est) (i : nat) : est :=
  let X := nth (S i) (ecores s) zdcore in
  let last := (i =? dd - 1)%nat in
  let ro := if last then @one3 ZIring else tab3 (right_op (nth3 (erop s) (S i)) X (nth (S i) A zdcore)) in
  let go := if last then @one3 ZIring else tab3 (right_op (nth3 (egrop s) (S i)) X (Gc (S i))) in
  let po := if last then @one2 ZIring else tab2 (right_rhs (nth2 (eprop s) (S i)) X (Pc (S i))) in
  mkest (ecores s) (eranks s) (elop s) (updl (erop s) i ro) (eglop s) (updl (egrop s) i go) (eplop s) (updl (eprop s) i po)
        (etape s) (eerr s) (evals s) (evecs s).
Definition ebuild_left (s : est) (i : nat) : est :=
  let X := nth (i - 1) (ecores s) zdcore in
  let first := (i =? 0)%nat in
  let lo := if first then @one3 ZIring else tab3 (left_op (nth3 (elop s) (i - 1)) X (nth (i - 1) A zdcore)) in
  let go := if first then @one3 ZIring else tab3 (left_op (nth3 (eglop s) (i - 1)) X (Gc (i - 1))) in
  let po := if first then @one2 ZIring else tab2 (left_rhs (nth2 (eplop s) (i - 1)) X (Pc (i - 1))) in
  mkest (ecores s) (eranks s) (updl (elop s) i lo) (erop s) (updl (eglop s) i go) (egrop s) (updl (eplop s) i po) (eprop s)
        (etape s) (eerr s) (evals s) (evecs s).

(* indices sorted by |q*lambda - p| (insertion sort, stable) *)
Fixpoint insert_key (k : Z) (i : nat) (l : list (Z * nat)) : list (Z * nat) :=
  match l with [] => [(k, i)] | (k', i') :: l' => if Z.ltb k k' then (k, i) :: l else (k', i') :: insert_key k i l' end.
Definition sort_by_dist (lams : list ZI) : list nat :=
  map snd (fold_left (fun acc p => insert_key (Z.abs (sig_q * fst (fst p) - sig_p)) (snd p) acc)
                     (combine lams (seq 0 (length lams))) []).

Definition eupdate (s : est) (i : nat) (fwd : bool) : est :=
  let ri := nth i (eranks s) 0%nat in let ri1 := nth (S i) (eranks s) 0%nat in
  let Ai := nth i A zdcore in
  let m := md Ai in
  let '(nr, nc, mo0) := micro_op_als (nth3 (elop s) i) (nth3 (erop s) i) Ai ri ri1 in
  let '(_, _, tmp) := micro_rhs_als (nth2 (eplop s) i) (nth2 (eprop s) i) (Pc i) ri ri1 in
  let mo : mat3 := (nr, nc, match P with
                             | Some _ => fun r c => ziadd (mo0 r c) (zimul (shift, 0%Z) (zimul (tmp r 0%nat) (ziconj (tmp c 0%nat))))
                             | None => mo0 end) in
  let mg := micro_op_als (nth3 (eglop s) i) (nth3 (egrop s) i) (Gc i) ri ri1 in
  let e := hd (L []) (etape s) in
  let kind_ok := Z.eqb (as_Z (dnth 0 e)) (if use_eigh then 5 else 4) in
  let g_ok := match G with Some _ => mat_eqb mg (dnth 2 e) | None => Nat.eqb (length (as_list (dnth 2 e))) 0 end in
  let s := eflag s (kind_ok && mat_eqb mo (dnth 1 e) && g_ok) 3 in
  let lams := pairs (flat_map as_list (as_list (dnth 3 e))) in
  let '(_, _, V) := mat_of_dat (dnth 4 e) in
  let sel := if use_eigh then rev (seq 0 nev) else firstn nev (sort_by_dist lams) in
  let lam_sel := map (fun j => (fst (nth j lams zi0), 0%Z)) sel in      (* real = True *)
  let ev : M ZIring := fun n e' => V n (nth e' sel 0%nat) in
  let tp := tl (etape s) in
  let e2 := hd (L []) tp in
  if fwd then
    let amat : mat3 := ((ri * m)%nat, (ri1 * nev)%nat, fun r c => ev (r * ri1 + c / nev)%nat (c mod nev)%nat) in
    let s := eflag s (Z.eqb (as_Z (dnth 0 e2)) 3 && mat_eqb amat (dnth 1 e2)) 3 in
    let '(ucols, _, U) := mat_of_dat (dnth 3 e2) in
    let r := Nat.min ri1 ucols in
    let newc := tab (@mkcore ZIring ri m 1 r (fun a x _ b => U (a * m + x)%nat b)) in
    mkest (updl (ecores s) i newc) (updl (eranks s) (S i) r) (elop s) (erop s) (eglop s) (egrop s) (eplop s) (eprop s)
          (tl tp) (eerr s) lam_sel ev
  else if (0 <? i)%nat then
    let amat : mat3 := ((nev * ri)%nat, (m * ri1)%nat, fun row col => ev ((row mod ri) * (m * ri1) + col)%nat (row / ri)%nat) in
    let s := eflag s (Z.eqb (as_Z (dnth 0 e2)) 3 && mat_eqb amat (dnth 1 e2)) 3 in
    let '(vrows, _, Vt) := mat_of_dat (dnth 5 e2) in
    let r := Nat.min ri vrows in
    let newc := tab (@mkcore ZIring r m 1 ri1 (fun a x _ b => Vt a (x * ri1 + b)%nat)) in
    mkest (updl (ecores s) i newc) (updl (eranks s) i r) (elop s) (erop s) (eglop s) (egrop s) (eplop s) (eprop s)
          (tl tp) (eerr s) lam_sel ev
  else
    mkest (ecores s) (eranks s) (elop s) (erop s) (eglop s) (egrop s) (eplop s) (eprop s) tp (eerr s) lam_sel ev.

Definition efwd (s : est) (i : nat) : est := let s := ebuild_left s i in if (i <? dd - 1)%nat then eupdate s i true else s.
Definition ebwd (s : est) (i : nat) : est := eupdate (ebuild_right s i) i false.
Definition esweep (s : est) : est := fold_left ebwd (rev (seq 0 dd)) (fold_left efwd (seq 0 dd) s).

(* eigentensor e' of the current state: core 0 from the last eigenvector matrix *)
Definition etensor (s : est) (e' : nat) : list zcore :=
  let r0 := nth 0 (eranks s) 0%nat in let r1 := nth 1 (eranks s) 0%nat in
  let m := md (nth 0 A zdcore) in
  tab (@mkcore ZIring r0 m 1 r1 (fun a x _ b => evecs s ((a * m + x) * r1 + b)%nat e')) :: tl (ecores s).

(* sweeps with best-so-far bookkeeping for number_ev = 1: (state, best value, best tensor) *)
Definition dist (z : ZI) : Z := Z.abs (sig_q * fst z - sig_p).
Fixpoint esweeps (n : nat) (s : est) (best : option (ZI * list zcore)) : est * option (ZI * list zcore) :=
  match n with
  | O => (s, best)
  | S n' =>
      let s1 := esweep s in
      let lam := hd zi0 (evals s1) in
      let best' := match best with
                   | None => Some (lam, etensor s1 0)
                   | Some (bl, bt) => if Z.ltb (dist lam) (dist bl) then Some (lam, etensor s1 0) else best
                   end in
      esweeps n' s1 best'
  end.
End Run.

Definition opt_cores (d : dat) : option (list zcore) := match as_list d with [] => None | _ => Some (cores_of_dat d) end.

Definition check_C08 (c : dat) : Z :=
  let a := dnth 1 c in
  let Aop := cores_of_dat (dnth 0 a) in let X := cores_of_dat (dnth 1 a) in
  let P := opt_cores (dnth 2 a) in
  let shift := as_Z (dnth 0 (dnth 3 a)) in
  let G := opt_cores (dnth 4 a) in
  let nev := as_nat (dnth 5 a) in let reps := as_nat (dnth 6 a) in
  let use_eigh := Z.eqb (as_Z (dnth 7 a)) 1 in
  let sp := as_Z (dnth 0 (dnth 8 a)) in let sq := as_Z (dnth 1 (dnth 8 a)) in
  let tp := as_list (dnth 9 a) in
  let d := length Aop in
  let s0 := mkest X (ranks_of X) (repeat (@one3 ZIring) d) (repeat (@one3 ZIring) d) (repeat (@one3 ZIring) d) (repeat (@one3 ZIring) d)
                  (repeat (@one2 ZIring) d) (repeat (@one2 ZIring) d) tp 0 [] (fun _ _ => zi0) in
  let s1 := fold_left (ebuild_right Aop G P) (rev (seq 0 d)) s0 in
  let '(s, best) := esweeps Aop G P shift sp sq nev use_eigh reps s1 None in
  let exp := dnth 2 c in
  if negb (Z.eqb (eerr s) 0) then eerr s
  else if negb (Nat.eqb (length (etape s)) 0) then 4%Z
  else if Nat.eqb nev 1 then
    match best with
    | Some (lam, t) =>
        if negb (dat_eqb (dat_of_zi lam) (dnth 0 exp)) then 5%Z
        else if negb (dat_eqb (dat_of_cores t) (dnth 1 exp)) then 1%Z else 0%Z
    | None => 6%Z
    end
  else
    if negb (dat_eqb (L (map dat_of_zi (evals s))) (dnth 0 exp)) then 5%Z
    else if negb (dat_eqb (L (map (fun e' => dat_of_cores (etensor Aop s e')) (seq 0 nev))) (dnth 1 exp)) then 1%Z else 0%Z.
