(* Correspondence runner for C02.  case = L [I opcode; L args; expected] *)
From Coq Require Import ZArith List Bool Arith.
Import ListNotations.
Require Import Ring Sums Matrix Core Chain Data TTOps Sweep Structure.
Require Import SkTT.Check.C01 SkTT.Check.C03.

Definition mode_of (z : Z) : tmode :=
  match z with 0 => LastFirst | 1 => LastLast | 2 => FirstLast | _ => FirstFirst end%Z.

Definition blocks_of_dat (d : dat) : nat -> nat -> option (M ZIring) :=
  fun i j =>
    let e := dnth j (dnth i d) in
    match as_list e with
    | [] => None
    | _ => let '(_, _, B) := mat_of_dat e in Some B
    end.

Definition run_C02 (c : dat) : dat :=
  let op := as_Z (dnth 0 c) in
  let a := dnth 1 c in
  let t := cores_of_dat (dnth 0 a) in
  match op with
  | 1 => with_meta (tensordot (mode_of (as_Z (dnth 2 a))) (as_nat (dnth 3 a)) t (cores_of_dat (dnth 1 a)))
  | 2 => let '(m, n, Mat) := mat_of_dat (dnth 1 a) in
         if Z.eqb (as_Z (dnth 2 a)) 0 then with_meta (rank_tensordot_last t n Mat)
         else with_meta (rank_tensordot_first t m Mat)
  | 3 => with_meta (concatenate t (cores_of_dat (dnth 1 a)))
  | 4 => with_meta (rank_transpose t)
  | 5 => with_meta (tdiag (bools_of_dat (dnth 1 a)) t)
  | 6 => with_meta (squeeze t)
  | 7 => with_meta (qtt2tt 0 (as_nats (dnth 1 a)) t)
  | 8 => let r := tt2qtt (thr_of_dat (dnth 3 a)) (map ans_of_dat (as_list (dnth 4 a))) t
                         (map as_nats (as_list (dnth 1 a))) (map as_nats (as_list (dnth 2 a))) in
         L [with_meta (fst r); log_dat (snd r)]
  | 9 => dat_of_core (build_core (as_nat (dnth 0 a)) (as_nat (dnth 1 a)) (as_nat (dnth 2 a)) (as_nat (dnth 3 a))
                                 (blocks_of_dat (dnth 4 a)))
  | _ => L []
  end%Z.

Definition check_C02 (c : dat) : Z :=
  if dat_eqb (run_C02 c) (dnth 2 c) then 0%Z else 1%Z.
