(* Correspondence runner for C15.  case = L [I opcode; L args; expected]
   mode literal = L [I n; L flat-table (n x m, row-major: k outer, snapshot j inner)] *)
From Coq Require Import ZArith List Bool Arith.
Import ListNotations.
Require Import Ring Sums Matrix Core Chain Data TTOps DataTensor.
Require Import SkTT.Check.C01.

Definition mode_of_dat (m : nat) (d : dat) : @mode ZIring :=
  let n := as_nat (dnth 0 d) in
  let data := pairs (as_list (dnth 1 d)) in
  (n, fun k j => nth (k * m + j) data zi0).

Definition run_C15 (c : dat) : dat :=
  let op := as_Z (dnth 0 c) in
  let a := dnth 1 c in
  let m := as_nat (dnth 0 a) in
  match op with
  | 1 => with_meta (basis_decomposition m (map (mode_of_dat m) (as_list (dnth 1 a))))
  | 2 => dat_of_core (single_core m (map (mode_of_dat m) (as_list (dnth 1 a))) (as_nat (dnth 2 a)))
  | 3 => let m2 := as_nat (dnth 1 a) in
         dat_of_mat m m2 (fun j1 j2 => gram (map (mode_of_dat m) (as_list (dnth 2 a)))
                                            (map (mode_of_dat m2) (as_list (dnth 3 a))) j1 j2)
  | _ => L []
  end%Z.
Definition check_C15 (c : dat) : Z := if dat_eqb (run_C15 c) (dnth 2 c) then 0%Z else 1%Z.
