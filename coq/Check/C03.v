(* Correspondence runner for the orthonormalisation sweeps (C03, C04).
   case = L [I opcode; L [cores; I start; thr; maxr; tape]; expected]
   thr  = L []  (threshold 0)      | L [I p; I q]   (threshold p/q)
   maxr = L []  (max_rank = inf)   | L [I k]        | L [L caps]  (per-bond list, <=0 meaning inf)
   tape entry = L [A; I k; U; L s; V]     expected = L [cores; rows; cols; ranks; log] *)
From Coq Require Import ZArith List Bool Arith.
Import ListNotations.
Require Import Ring Sums Matrix Core Chain Data TTOps Sweep.

Definition ans_of_dat (d : dat) : svd_ans ZIring :=
  let '(_, _, u) := mat_of_dat (dnth 2 d) in
  let '(_, _, v) := mat_of_dat (dnth 4 d) in
  let s := pairs (as_list (dnth 3 d)) in
  @mkans ZIring (as_nat (dnth 1 d)) u (fun j => nth j s zi0) v.

Definition thr_of_dat (d : dat) : option (ZIring -> ZIring -> bool) :=
  match as_list d with
  | [p; q] => Some (fun (sj s0 : ZI) => Z.ltb (as_Z p * fst s0) (as_Z q * fst sj))
  | _ => None
  end.
Definition caps_of_dat (order : nat) (d : dat) : caps :=
  match as_list d with
  | [I k] => fun bond => if (Nat.eqb bond 0 || Nat.eqb bond order)%bool then Some 1%nat else Some (Z.to_nat k)
  | [L l] => fun bond => let z := as_Z (nth bond l (I 0)) in if Z.leb z 0 then None else Some (Z.to_nat z)
  | _ => fun _ => None
  end.

Definition maxr_int_opt (d : dat) : option nat := match as_list d with [I k] => Some (Z.to_nat k) | _ => None end.
Definition log_dat (l : list (nat * nat * M ZIring)) : dat :=
  L (map (fun e => let '(m, n, A) := e in dat_of_mat m n A) l).

Definition sweep_out (cs : list zcore) (log : list (nat * nat * M ZIring)) : dat :=
  L [dat_of_cores cs; dat_of_nats (rows cs); dat_of_nats (cols cs); dat_of_nats (ranks_of cs); log_dat log].

Definition run_C03 (c : dat) : dat :=
  let op := as_Z (dnth 0 c) in
  let a := dnth 1 c in
  let t := cores_of_dat (dnth 0 a) in
  let start := as_nat (dnth 1 a) in
  let thr := thr_of_dat (dnth 2 a) in
  let maxr := caps_of_dat (length t) (dnth 3 a) in
  let tape := map ans_of_dat (as_list (dnth 4 a)) in
  match op with
  | 1 => sweep_out (ortho_left thr maxr start tape t)
                   (sweepL_log thr maxr (S start) tape (skipn start t))
  | 2 => sweep_out (ortho_right thr maxr start tape t)
                   (sweepR_log thr maxr 0 tape (firstn (S start) t))
  | 3 => (* ortho: left sweep without rank cap over bonds 1..d-1, then right sweep *)
      let n := (length t - 1)%nat in
      let t1 := ortho_left thr (fun _ => None) 0 (firstn n tape) t in
      let t2 := ortho_right thr maxr n (skipn n tape) t1 in
      sweep_out t2 (sweepL_log thr (fun _ => None) 1 (firstn n tape) t ++
                    sweepR_log thr maxr 0 (skipn n tape) t1)
  | _ => L []
  end%Z.

Definition check_C03 (c : dat) : Z :=
  let r := run_C03 c in
  let e := dnth 2 c in
  if negb (dat_eqb (dnth 4 r) (dnth 4 e)) then 3%Z
  else if negb (dat_eqb (dnth 0 r) (dnth 0 e)) then 1%Z
  else if negb (dat_eqb r e) then 2%Z else 0%Z.
