(* Correspondence runner for C07: the drivers sle.als / sle.mals over the Gaussian integers, with every
   LAPACK call (solve / lu, qr, rq, svd) answered from the tape.  The step functions are the generic
   ones of Model/Env.v and Model/Sweep.v (select); this file is the glue: loop bounds, stack indices,
   tape threading, tabulation for vm_compute.
   case = L [I op; L [A; x0; b; I repeats; thr; maxr; tape]; expected]   (op 1 = als, 2 = mals)
   tape entry = L [I kind; ...]: 0 solve [M; r; y] | 1 qr [a; q; r] | 2 rq [a; q; r] | 3 svd [a; k; U; s; V] *)
From Coq Require Import ZArith List Bool Arith.
Import ListNotations.
Require Import Ring Sums Matrix Core Chain Data TTOps Sweep Env.
Require Import SkTT.Check.C01 SkTT.Check.C03.

Notation zst3 := (st3 ZIring).
Notation zst2 := (st2 ZIring).
Definition tab3 (s : zst3) : zst3 :=
  let l := flat_map (fun i => flat_map (fun j => map (fun k => f3 s i j k) (seq 0 (a3 s))) (seq 0 (a2 s))) (seq 0 (a1 s)) in
  @mkst3 ZIring (a1 s) (a2 s) (a3 s) (fun i j k => nth ((i * a2 s + j) * a3 s + k) l zi0).
Definition tab2 (s : zst2) : zst2 :=
  let l := flat_map (fun i => map (fun j => f2 s i j) (seq 0 (b2 s))) (seq 0 (b1 s)) in
  @mkst2 ZIring (b1 s) (b2 s) (fun i j => nth (i * b2 s + j) l zi0).
Definition zdcore : zcore := @mkcore ZIring 0 0 0 0 (fun _ _ _ _ => zi0).
Definition updl {A} (l : list A) (i : nat) (x : A) : list A := firstn i l ++ x :: skipn (S i) l.
Definition mat3 := (nat * nat * M ZIring)%type.
Definition mat_eqb (a : mat3) (d : dat) : bool := let '(m, n, A) := a in dat_eqb (dat_of_mat m n A) d.

Record stt := mkstt { cores : list zcore; ranks : list nat; lop : list zst3; lrhs : list zst2; rop : list zst3; rrhs : list zst2;
                      tape : list dat; err : Z }.
Definition flag (s : stt) (ok : bool) (code : Z) : stt :=
  if ok then s else if Z.eqb (err s) 0 then mkstt (cores s) (ranks s) (lop s) (lrhs s) (rop s) (rrhs s) (tape s) code else s.
Definition setc (s : stt) cs rk tp := mkstt cs rk (lop s) (lrhs s) (rop s) (rrhs s) tp (err s).
Definition nth3 (l : list zst3) i := nth i l (@one3 ZIring).
Definition nth2 (l : list zst2) i := nth i l (@one2 ZIring).
Definition hd_tape (s : stt) : dat := hd (L []) (tape s).
Definition tl_tape (s : stt) : list dat := tl (tape s).

Section Run.
Variables (A B : list zcore).
Definition d := length A.
Definition build_right (s : stt) (i : nat) : stt :=
  let ro := if (i =? d - 1)%nat then @one3 ZIring else tab3 (right_op (nth3 (rop s) (S i)) (nth (S i) (cores s) zdcore) (nth (S i) A zdcore)) in
  let rr' := if (i =? d - 1)%nat then @one2 ZIring else tab2 (right_rhs (nth2 (rrhs s) (S i)) (nth (S i) (cores s) zdcore) (nth (S i) B zdcore)) in
  mkstt (cores s) (ranks s) (lop s) (lrhs s) (updl (rop s) i ro) (updl (rrhs s) i rr') (tape s) (err s).
Definition build_left (s : stt) (i : nat) : stt :=
  let lo := if (i =? 0)%nat then @one3 ZIring else tab3 (left_op (nth3 (lop s) (i - 1)) (nth (i - 1) (cores s) zdcore) (nth (i - 1) A zdcore)) in
  let lr := if (i =? 0)%nat then @one2 ZIring else tab2 (left_rhs (nth2 (lrhs s) (i - 1)) (nth (i - 1) (cores s) zdcore) (nth (i - 1) B zdcore)) in
  mkstt (cores s) (ranks s) (updl (lop s) i lo) (updl (lrhs s) i lr) (rop s) (rrhs s) (tape s) (err s).

(* consume a 'solve' entry: compare the micro system, return the answer vector *)
Definition do_solve (s : stt) (mo mr : mat3) : stt * (nat -> ZI) :=
  let e := hd_tape s in
  let s1 := flag s (Z.eqb (as_Z (dnth 0 e)) 0 && mat_eqb mo (dnth 1 e) && mat_eqb mr (dnth 2 e)) 3 in
  let '(_, _, y) := mat_of_dat (dnth 3 e) in
  (setc s1 (cores s1) (ranks s1) (tl_tape s1), fun r => y r 0%nat).

(* ---- ALS ---- *)
Definition update_als (s : stt) (i : nat) (fwd : bool) : stt :=
  let ri := nth i (ranks s) 0%nat in let ri1 := nth (S i) (ranks s) 0%nat in
  let Ai := nth i A zdcore in let Bi := nth i B zdcore in
  let m := md Bi in
  let mo := micro_op_als (nth3 (lop s) i) (nth3 (rop s) i) Ai ri ri1 in
  let mr := micro_rhs_als (nth2 (lrhs s) i) (nth2 (rrhs s) i) Bi ri ri1 in
  let '(s, y) := do_solve s mo mr in
  if fwd then
    let ymat : mat3 := ((ri * m)%nat, ri1, fun r c => y (r * ri1 + c)%nat) in
    let e := hd_tape s in
    let s := flag s (Z.eqb (as_Z (dnth 0 e)) 1 && mat_eqb ymat (dnth 1 e)) 3 in
    let '(_, qk, q) := mat_of_dat (dnth 2 e) in
    let newc := tab (@mkcore ZIring ri m 1 qk (fun a x _ b => q (a * m + x)%nat b)) in
    setc s (updl (cores s) i newc) (updl (ranks s) (S i) qk) (tl_tape s)
  else if (0 <? i)%nat then
    let ymat : mat3 := (ri, (m * ri1)%nat, fun r c => y (r * (m * ri1) + c)%nat) in
    let e := hd_tape s in
    let s := flag s (Z.eqb (as_Z (dnth 0 e)) 2 && mat_eqb ymat (dnth 1 e)) 3 in
    let '(qk, _, q) := mat_of_dat (dnth 2 e) in
    let newc := tab (@mkcore ZIring qk m 1 ri1 (fun a x _ b => q a (x * ri1 + b)%nat)) in
    setc s (updl (cores s) i newc) (updl (ranks s) i qk) (tl_tape s)
  else
    let newc := tab (@mkcore ZIring ri m 1 ri1 (fun a x _ b => y ((a * m + x) * ri1 + b)%nat)) in
    setc s (updl (cores s) i newc) (ranks s) (tape s).
Definition als_fwd (s : stt) (i : nat) : stt := let s := build_left s i in if (i <? d - 1)%nat then update_als s i true else s.
Definition als_bwd (s : stt) (i : nat) : stt := update_als (build_right s i) i false.
Definition als_sweep (s : stt) : stt := fold_left als_bwd (rev (seq 0 d)) (fold_left als_fwd (seq 0 d) s).

(* ---- MALS ---- *)
Variables (thr : option (ZIring -> ZIring -> bool)) (maxr : option nat).
Definition update_mals (s : stt) (i : nat) (fwd : bool) : stt :=
  let ri := nth i (ranks s) 0%nat in let ri2 := nth (S (S i)) (ranks s) 0%nat in
  let m1 := md (nth i B zdcore) in let m2 := md (nth (S i) B zdcore) in
  let mo := micro_op_mals (nth3 (lop s) i) (nth3 (rop s) (S i)) (nth i A zdcore) (nth (S i) A zdcore) ri ri2 in
  let mr := micro_rhs_mals (nth2 (lrhs s) i) (nth2 (rrhs s) (S i)) (nth i B zdcore) (nth (S i) B zdcore) ri ri2 in
  let '(s, y) := do_solve s mo mr in
  let ymat : mat3 := ((ri * m1)%nat, (m2 * ri2)%nat, fun r c => y (r * (m2 * ri2) + c)%nat) in
  let e := hd_tape s in
  let s := flag s (Z.eqb (as_Z (dnth 0 e)) 3 && mat_eqb ymat (dnth 1 e)) 3 in
  let a := ans_of_dat (L (tl (as_list e))) in
  let idx := select thr maxr a in
  let k := length idx in
  let ucore := tab (@mkcore ZIring ri m1 1 k (fun al x _ p => U a (al * m1 + x)%nat (nth p idx 0%nat))) in
  if fwd then
    setc s (updl (cores s) i ucore) (updl (ranks s) (S i) k) (tl_tape s)
  else
    let vcore := tab (@mkcore ZIring k m2 1 ri2 (fun p x _ e' => V a (nth p idx 0%nat) (x * ri2 + e')%nat)) in
    let cs1 := updl (cores s) (S i) vcore in
    let cs2 := if (i =? 0)%nat then
                 updl cs1 0 (tab (@mkcore ZIring ri m1 1 k (fun al x _ p => zimul (U a (al * m1 + x)%nat (nth p idx 0%nat)) (Sg a (nth p idx 0%nat)))))
               else cs1 in
    setc s cs2 (updl (ranks s) (S i) k) (tl_tape s).
Definition mals_fwd (s : stt) (i : nat) : stt := let s := build_left s i in if (i <? d - 2)%nat then update_mals s i true else s.
Definition mals_bwd (s : stt) (i : nat) : stt := update_mals (build_right s (S i)) i false.
Definition mals_sweep (s : stt) : stt := fold_left mals_bwd (rev (seq 0 (d - 1))) (fold_left mals_fwd (seq 0 (d - 1)) s).

Fixpoint iter {T} (n : nat) (f : T -> T) (x : T) : T := match n with O => x | S n' => iter n' f (f x) end.
Definition init_st (X : list zcore) (tp : list dat) : stt :=
  mkstt X (ranks_of X) (repeat (@one3 ZIring) d) (repeat (@one2 ZIring) d) (repeat (@one3 ZIring) d) (repeat (@one2 ZIring) d) tp 0.
Definition run_als (X : list zcore) (reps : nat) (tp : list dat) : stt :=
  iter reps als_sweep (fold_left build_right (rev (seq 0 d)) (init_st X tp)).
Definition run_mals (X : list zcore) (reps : nat) (tp : list dat) : stt :=
  if (d =? 1)%nat then run_als X reps tp        (* sle.mals hands systems of order one to the one-site scheme *)
  else iter reps mals_sweep (fold_left build_right (rev (seq 1 (d - 1))) (init_st X tp)).
End Run.

Definition check_C07 (c : dat) : Z :=
  let op := as_Z (dnth 0 c) in
  let a := dnth 1 c in
  let Aop := cores_of_dat (dnth 0 a) in let X := cores_of_dat (dnth 1 a) in let Bv := cores_of_dat (dnth 2 a) in
  let reps := as_nat (dnth 3 a) in
  let tp := as_list (dnth 6 a) in
  let s := if Z.eqb op 1 then run_als Aop Bv X reps tp
           else run_mals Aop Bv (thr_of_dat (dnth 4 a)) (maxr_int_opt (dnth 5 a)) X reps tp in
  if negb (Z.eqb (err s) 0) then err s
  else if negb (Nat.eqb (length (tape s)) 0) then 4%Z
  else if negb (dat_eqb (dat_of_cores (cores s)) (dnth 0 (dnth 2 c))) then 1%Z
  else if negb (dat_eqb (dat_of_nats (ranks s)) (dnth 3 (dnth 2 c))) then 2%Z else 0%Z.
