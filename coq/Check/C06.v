(* History correspondence for C06.  case = L [I 1; L events; I 0]; event = L [I code; L args; L sizes; I target]
   The model replays the history with the effect table [effect_of]; it reports
     0  the declared targets agree with the table and the final state is separated
     2  an event names a target although the table says the operation creates fresh objects (or vice versa)
     3  the model state is not separated (cannot happen for safe effects: reachable_sep) *)
From Coq Require Import ZArith List Bool Arith.
Import ListNotations.
Require Import SkTT.Model.Data SkTT.Heap.Model.

Definition ev_ok (e : dat) : bool :=
  let c := as_Z (dnth 0 e) in
  let tgt := as_Z (dnth 3 e) in
  if (in_place_code c || consume_code c)%bool then Z.eqb tgt (Z.of_nat (hd 0%nat (as_nats (dnth 1 e))))
  else Z.eqb tgt (-1).
Definition ev_effect (s : state) (e : dat) : effect :=
  let args := as_nats (dnth 1 e) in
  effect_of (as_Z (dnth 0 e)) args (as_nats (dnth 2 e)) (length (obj s (hd 0%nat args))).
Definition check_C06 (c : dat) : Z :=
  let evs := as_list (dnth 1 c) in
  if negb (forallb ev_ok evs) then 2%Z
  else let s := fold_left (fun s e => step s (ev_effect s e)) evs init in
       if sepb s then 0%Z else 3%Z.
