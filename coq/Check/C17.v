(* Correspondence runner for C17: tdmd_exact / tdmd_standard with SVD tape (unit singular values) and eig tape
   (distinct real eigenvalues +-2^e, arbitrary eigenvector matrix).
   case = L [I op; L [x cores; y cores; thr; I ol; I or; svd tape; L [A; L lam; W]]; L [L sorted lam; modes cores; log]]
   For op 1 (exact) the harness multiplies the returned last core by diag(lambda) again, so the model omits the reciprocal. *)
From Coq Require Import ZArith List Bool Arith.
Import ListNotations.
Require Import Ring Sums Matrix Core Chain Data TTOps Sweep Structure GlobalSVD Tdmd.
Require Import SkTT.Check.C01 SkTT.Check.C03 SkTT.Check.C05 SkTT.Check.C07.

Fixpoint insert_desc (v : Z) (i : nat) (l : list (Z * nat)) : list (Z * nat) :=
  match l with
  | [] => [(v, i)]
  | (w, j) :: l' => if Z.ltb w v then (v, i) :: l else (w, j) :: insert_desc v i l'
  end.
Definition argsort_desc (vals : list Z) : list nat :=
  map snd (fold_left (fun acc p => insert_desc (fst p) (snd p) acc) (combine vals (seq 0 (length vals))) []).

Definition check_C17 (c : dat) : Z :=
  let op := as_Z (dnth 0 c) in
  let a := dnth 1 c in
  let x := cores_of_dat (dnth 0 a) in let y := cores_of_dat (dnth 1 a) in
  let thr := thr_of_dat (dnth 2 a) in
  let ol := SkTT.Check.C05.flag (dnth 3 a) in let or_ := SkTT.Check.C05.flag (dnth 4 a) in
  let tape := map ans_of_dat (as_list (dnth 5 a)) in
  let order := length x in
  let index := (order - 1)%nat in
  let nL := if ol then (index - 1)%nat else 0%nat in
  let nR := if or_ then (order - index)%nat else 0%nat in
  let r := tt_svd thr None ol or_ index (firstn nL tape) (firstn nR (skipn nL tape))
                  (nth (nL + nR) tape (@mkans ZIring 0 (fun _ _ => zi0) (fun _ => zi0) (fun _ _ => zi0))) x in
  let xp := map tab (@tt_pinv ZIring (fun z => z) r) in
  let xs := firstn index xp in let xl := nth index xp zdcore in
  let ys := firstn index y in let yl := nth index y zdcore in
  let k := rl xl in
  let e := dnth 6 a in
  let red : mat3 := (k, k, reduced_matrix xs ys xl yl) in
  let lam := map as_Z (as_list (dnth 1 e)) in
  let '(_, _, W) := mat_of_dat (dnth 2 e) in
  let ind := argsort_desc lam in
  let lamf : nat -> ZI := fun i => (nth i lam 0%Z, 0%Z) in
  let modes := if Z.eqb op 1 then ys ++ [tab (exact_last xl yl W lamf (fun _ => zi1) ind)]
               else xs ++ [tab (standard_last k W ind)] in
  let exp := dnth 2 c in
  if negb (dat_eqb (log_dat (gLog r)) (dnth 2 exp)) then 3%Z
  else if negb (mat_eqb red (dnth 0 e)) then 5%Z
  else if negb (dat_eqb (L (map (fun i => I (nth i lam 0%Z)) ind)) (dnth 0 exp)) then 2%Z
  else if dat_eqb (dat_of_cores modes) (dnth 1 exp) then 0%Z else 1%Z.
