(* Correspondence runner for C10: lie_splitting / strang_splitting (normalize = 0, threshold = 0) with
   expm and SVD answered from tapes; the per-step stage sequence is the one REGENERATED from ode.py
   (Gen/SplittingCoeffs.v).
   case = L [I scheme (0 lie, 1 strang); L [x0; sites; h; nsteps; coef (ce_num ce_den co_num co_den); expm tape; svd tape; maxr]; expected states]
   site i = L [S_i (mat); I_i (mat); L_i (L [d; rk; flat]) ; M_i (L [rk; d; flat])]   (L_i/M_i unused where no bond) *)
From Coq Require Import ZArith List Bool Arith QArith.
Import ListNotations.
Require Import Ring Sums Matrix Core Chain Data TTOps Sweep Splitting.
Require Import SkTT.Gen.SplittingCoeffs.
Require Import SkTT.Check.C01 SkTT.Check.C03 SkTT.Check.C09.

Definition t3_of_dat (d : dat) : nat * nat * (nat -> nat -> nat -> ZI) :=
  let n1 := as_nat (dnth 0 d) in let n2 := as_nat (dnth 1 d) in let n3 := as_nat (dnth 2 d) in
  let data := pairs (as_list (dnth 3 d)) in
  (n1, n3, fun i j k => nth ((i * n2 + j) * n3 + k) data zi0).

Definition scaleM (z : ZI) (m n : nat) (A : M ZIring) : nat * nat * M ZIring := (m, n, fun i j => zimul z (A i j)).

(* generators of the bonds (scaled by the integer factor f_even / f_odd) in program order, then the last single-site one *)
Definition generators (sites : list dat) (fe fo : Z) : list (nat * nat * M ZIring) :=
  let d := length sites in
  map (fun i =>
    let si := nth i sites (L []) in
    let f := if Nat.even i then fe else fo in
    let '(d1, _, Smat) := mat_of_dat (dnth 0 si) in
    if (i <? d - 1)%nat then
      let sj := nth (S i) sites (L []) in
      let '(d2, _, Im) := mat_of_dat (dnth 1 sj) in
      let '(_, rk, Lm) := t3_of_dat (dnth 2 si) in
      let '(_, _, Mm) := t3_of_dat (dnth 3 sj) in
      scaleM (f, 0%Z) (d1 * d2)%nat (d1 * d2)%nat (@two_site_generator ZIring d2 rk Smat Im Lm Mm)
    else scaleM (f, 0%Z) d1 d1 Smat) (seq 0 d).

Definition mats_match (gs : list (nat * nat * M ZIring)) (tp : list dat) : bool :=
  forallb (fun p => let '(m, n, A) := fst p in dat_eqb (dat_of_mat m n A) (dnth 0 (snd p))) (combine gs tp).
Definition expm_answers (tp : list dat) : list (M ZIring) := map (fun e => let '(_, _, A) := mat_of_dat (dnth 1 e) in A) tp.

(* run the stages of one step *)
Fixpoint run_stages (Ks : list (M ZIring)) (maxr2 : option nat) (sts : list (nat * bool)) (cs : list zcore) (tp : list dat)
  : list zcore * bool * list dat :=
  match sts with
  | [] => (cs, true, tp)
  | (_, ev) :: sts' =>
      let '(out, _, log) := stage None maxr2 Ks ev (S (length cs)) 0 (map ans_of_dat tp) cs in
      let used := length log in
      let ok := logs_match (map (fun e => let '(m, n, A) := e in dat_of_mat m n A) log) tp in
      let '(res, ok', tp') := run_stages Ks maxr2 sts' (tabs out) (skipn used tp) in
      (res, ok && ok', tp')
  end.

Fixpoint run_steps (n : nat) (Ks : list (M ZIring)) (maxr : nat) (sts : list (nat * bool)) (cs : list zcore) (tp : list dat)
  : list (list zcore) * bool * list dat :=
  match n with
  | O => ([], true, tp)
  | S n' =>
      let '(c1, ok1, tp1) := run_stages Ks (Some (2 * maxr)%nat) sts cs tp in
      let '(c2, log, tp2) := ortho_tape (Some maxr) tp1 c1 in
      let '(rest, ok2, tp3) := run_steps n' Ks maxr sts c2 tp2 in
      (c2 :: rest, ok1 && logs_match log tp1 && ok2, tp3)
  end.

Definition check_C10 (c : dat) : Z :=
  let scheme := as_Z (dnth 0 c) in
  let a := dnth 1 c in
  let x0 := cores_of_dat (dnth 0 a) in
  let sites := as_list (dnth 1 a) in
  let nsteps := as_nat (dnth 3 a) in
  let fe := as_Z (dnth 0 (dnth 4 a)) in let fo := as_Z (dnth 1 (dnth 4 a)) in
  let etp := as_list (dnth 5 a) in
  let stp := as_list (dnth 6 a) in
  let maxr := as_nat (dnth 7 a) in
  let sts := if Z.eqb scheme 0 then lie_stages else strang_stages in
  if negb (mats_match (generators sites fe fo) etp) then 3%Z
  else
    let '(states, ok, tp) := run_steps nsteps (expm_answers etp) maxr sts x0 stp in
    if negb ok then 5%Z else if negb (Nat.eqb (length tp) 0) then 4%Z
    else if dat_eqb (states_dat states) (dnth 2 c) then 0%Z else 1%Z.

(* the integer factors coefficient * step_size the harness used must be the regenerated coefficients *)
Definition coef_ok (scheme : Z) (h fe fo : Z) : bool :=
  let sets := if Z.eqb scheme 0 then lie_sets else strang_sets in
  match sets with
  | (ce, co) :: _ => Qeq_bool (ce * inject_Z h) (inject_Z fe) && Qeq_bool (co * inject_Z h) (inject_Z fo)
  | [] => false
  end.
Definition check_C10_full (c : dat) : Z :=
  let a := dnth 1 c in
  if negb (coef_ok (as_Z (dnth 0 c)) (as_Z (dnth 2 a)) (as_Z (dnth 0 (dnth 4 a))) (as_Z (dnth 1 (dnth 4 a)))) then 6%Z
  else check_C10 c.
