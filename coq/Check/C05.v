(* Correspondence runner for C05 (TT.svd / TT.pinv with SVD tape). *)
From Coq Require Import ZArith List Bool Arith.
Import ListNotations.
Require Import Ring Sums Matrix Core Chain Data TTOps Sweep Structure GlobalSVD.
Require Import SkTT.Check.C01 SkTT.Check.C03.

Definition maxr_int (d : dat) : option nat := match as_list d with [I k] => Some (Z.to_nat k) | _ => None end.
Definition flag (d : dat) : bool := negb (Z.eqb (as_Z d) 0).

Definition run_C05 (c : dat) : dat :=
  let op := as_Z (dnth 0 c) in
  let a := dnth 1 c in
  let t := cores_of_dat (dnth 0 a) in
  let index := as_nat (dnth 1 a) in
  let thr := thr_of_dat (dnth 2 a) in
  let maxr := maxr_int (dnth 3 a) in
  let ol := flag (dnth 4 a) in let or_ := flag (dnth 5 a) in
  let tape := map ans_of_dat (as_list (dnth 6 a)) in
  let nL := if ol then (index - 1)%nat else 0%nat in
  let nR := if or_ then (length t - index)%nat else 0%nat in
  let r := tt_svd thr maxr ol or_ index (firstn nL tape) (firstn nR (skipn nL tape))
                  (nth (nL + nR) tape (@mkans ZIring 0 (fun _ _ => zi0) (fun _ => zi0) (fun _ _ => zi0))) t in
  match op with
  | 1 => L [with_meta (gU r); L (map dat_of_zi (gS r)); with_meta (gV r); log_dat (gLog r)]
  | 2 => L [with_meta (@tt_pinv ZIring (fun z => z) r); log_dat (gLog r)]
  | _ => L []
  end%Z.
Definition check_C05 (c : dat) : Z :=
  let r := run_C05 c in let e := dnth 2 c in
  if dat_eqb r e then 0%Z else if negb (dat_eqb (dnth (length (as_list r) - 1) r) (dnth (length (as_list e) - 1) e)) then 3%Z else 1%Z.
