(* Correspondence runner for C16: mandy_cm / mandy_fm (SVD tape, unit singular values), mandy_kb (solve / lstsq tape),
   arr (lstsq / qr / rq tape) over the Gaussian integers; basis evaluations enter as tables.
   case = L [I op; L args; expected]
   op 1 mandy:    args [m; modes; index; thr; y; tape]            expected with_meta(xi)
   op 2 arr:      args [m; modes; guess cores; y; repeats; tape]   expected L [cores of solution k ...]
   op 3 mandy_kb: args [m; modes; y; solve-entry [G; rhs; answer]] expected mat z
   arr tape entry = L [I kind; ...]: 0 lstsq [A; rhs; x] | 1 qr [a; q; r] | 2 rq [a; q; r] *)
From Coq Require Import ZArith List Bool Arith.
Import ListNotations.
Require Import Ring Sums Matrix Core Chain Data TTOps Sweep Structure GlobalSVD DataTensor Regression.
Require Import SkTT.Check.C01 SkTT.Check.C03 SkTT.Check.C05 SkTT.Check.C07 SkTT.Check.C11 SkTT.Check.C15.

Notation zM := (M ZIring).
Definition ymat (d : dat) : nat * nat * zM := mat_of_dat d.

(* ---- mandy ---- *)
Definition run_mandy (a : dat) : dat :=
  let m := as_nat (dnth 0 a) in
  let modes := map (mode_of_dat m) (as_list (dnth 1 a)) in
  let index := as_nat (dnth 2 a) in
  let thr := thr_of_dat (dnth 3 a) in
  let '(dout, _, y) := ymat (dnth 4 a) in
  let tape := map ans_of_dat (as_list (dnth 5 a)) in
  let psi := basis_decomposition m modes in
  let nL := (index - 1)%nat in
  let r := tt_svd thr None true false index (firstn nL tape) []
                  (nth nL tape (@mkans ZIring 0 (fun _ _ => zi0) (fun _ => zi0) (fun _ _ => zi0))) psi in
  let xi := @tt_pinv ZIring (fun z => z) r in
  let lastc := nth index xi zdcore in
  let xi' := firstn index xi ++ [mandy_last lastc dout m y] in
  L [with_meta (map tab xi'); log_dat (gLog r)].

(* ---- arr ---- *)
Record ast := mkast { acores : list zcore; aranks : list nat; als : list zM; ars : list zM; atape : list dat; aerr : Z }.
Definition aflag (s : ast) (ok : bool) : ast :=
  if ok then s else mkast (acores s) (aranks s) (als s) (ars s) (atape s) 3.
Definition tabM (rows cols : nat) (A : zM) : zM :=
  let l := flat_map (fun i => map (fun j => A i j) (seq 0 cols)) (seq 0 rows) in fun i j => nth (i * cols + j) l zi0.
Section Arr.
Variables (m : nat) (modes : list (@mode ZIring)) (rhs : nat -> ZI).
Notation p := (length modes).
Definition dmode : @mode ZIring := (0%nat, fun _ _ => zi0).
Definition theta i : zM := snd (nth i modes dmode).
Definition ndim i : nat := fst (nth i modes dmode).
Definition onesM : zM := fun _ _ => zi1.
Definition nthM (l : list zM) i : zM := nth i l onesM.
Definition a_build_right (s : ast) (i : nat) : ast :=
  let Rk := if (i =? p - 1)%nat then onesM
            else tabM (nth (S i) (aranks s) 0%nat) m (right_next (nth (S i) (acores s) zdcore) (theta (S i)) (nthM (ars s) (S i))) in
  mkast (acores s) (aranks s) (als s) (updl (ars s) i Rk) (atape s) (aerr s).
Definition a_build_left (s : ast) (i : nat) : ast :=
  let Lk := if (i =? 0)%nat then onesM
            else tabM (nth i (aranks s) 0%nat) m (left_next (nthM (als s) (i - 1)) (theta (i - 1)) (nth (i - 1) (acores s) zdcore)) in
  mkast (acores s) (aranks s) (updl (als s) i Lk) (ars s) (atape s) (aerr s).
Definition a_update (s : ast) (i : nat) (fwd : bool) : ast :=
  let r := nth i (aranks s) 0%nat in let r' := nth (S i) (aranks s) 0%nat in
  let n := ndim i in
  let mic := arr_micro (nthM (als s) i) (theta i) (nthM (ars s) i) n r' in
  let rows := (r * n * r')%nat in
  let e := hd (L []) (atape s) in
  let s := aflag s (Z.eqb (as_Z (dnth 0 e)) 0 && mat_eqb (m, rows, fun j row => mic row j) (dnth 1 e)
                    && mat_eqb (m, 1%nat, fun j _ => rhs j) (dnth 2 e)) in
  let '(_, _, xv) := mat_of_dat (dnth 3 e) in
  let x := fun row => xv row 0%nat in
  let tp := tl (atape s) in
  if fwd then
    let e := hd (L []) tp in
    let s := aflag s (Z.eqb (as_Z (dnth 0 e)) 1 && mat_eqb ((r * n)%nat, r', fun a b => x (a * r' + b)%nat) (dnth 1 e)) in
    let '(_, k, q) := mat_of_dat (dnth 2 e) in
    let newc := tab (@mkcore ZIring r n 1 k (fun a x' _ b => q (a * n + x')%nat b)) in
    mkast (updl (acores s) i newc) (updl (aranks s) (S i) k) (als s) (ars s) (tl tp) (aerr s)
  else if (0 <? i)%nat then
    let e := hd (L []) tp in
    let s := aflag s (Z.eqb (as_Z (dnth 0 e)) 2 && mat_eqb (r, (n * r')%nat, fun a c => x (a * (n * r') + c)%nat) (dnth 1 e)) in
    let '(k, _, q) := mat_of_dat (dnth 2 e) in
    let newc := tab (@mkcore ZIring k n 1 r' (fun a x' _ b => q a (x' * r' + b)%nat)) in
    mkast (updl (acores s) i newc) (updl (aranks s) i k) (als s) (ars s) (tl tp) (aerr s)
  else
    let newc := tab (@mkcore ZIring r n 1 r' (fun a x' _ b => x ((a * n + x') * r' + b)%nat)) in
    mkast (updl (acores s) i newc) (aranks s) (als s) (ars s) tp (aerr s).
Definition a_fwd (s : ast) (i : nat) : ast := let s := a_build_left s i in if (i <? p - 1)%nat then a_update s i true else s.
Definition a_bwd (s : ast) (i : nat) : ast := a_update (a_build_right s i) i false.
Definition a_sweep (s : ast) : ast := fold_left a_bwd (rev (seq 0 p)) (fold_left a_fwd (seq 0 p) s).
Definition a_run (guess : list zcore) (reps : nat) (tp : list dat) : ast :=
  let s0 := mkast guess (ranks_of guess) (repeat onesM p) (repeat onesM p) tp 0 in
  iter reps a_sweep (fold_left a_build_right (rev (seq 0 p)) s0).
End Arr.

Fixpoint arr_outputs (m : nat) (modes : list (@mode ZIring)) (y : zM) (guess : list zcore) (reps : nat)
         (k dout : nat) (tp : list dat) (fuel : nat) : list (list zcore) * list dat * Z :=
  match fuel with
  | O => ([], tp, 0%Z)
  | S fuel' =>
      let s := a_run m modes (fun j => y k j) guess reps tp in
      let '(rest, tp', er) := arr_outputs m modes y guess reps (S k) dout (atape s) fuel' in
      (acores s :: rest, tp', if Z.eqb (aerr s) 0 then er else aerr s)
  end.

Definition check_C16 (c : dat) : Z :=
  let op := as_Z (dnth 0 c) in
  let a := dnth 1 c in
  if Z.eqb op 1 then
    let r := run_mandy a in
    if dat_eqb r (dnth 2 c) then 0%Z else if negb (dat_eqb (dnth 1 r) (dnth 1 (dnth 2 c))) then 3%Z else 1%Z
  else if Z.eqb op 2 then
    let m := as_nat (dnth 0 a) in
    let modes := map (mode_of_dat m) (as_list (dnth 1 a)) in
    let guess := cores_of_dat (dnth 2 a) in
    let '(dout, _, y) := ymat (dnth 3 a) in
    let '(sols, tp, er) := arr_outputs m modes y guess (as_nat (dnth 4 a)) 0 dout (as_list (dnth 5 a)) dout in
    if negb (Z.eqb er 0) then er else if negb (Nat.eqb (length tp) 0) then 4%Z
    else if dat_eqb (L (map dat_of_cores sols)) (dnth 2 c) then 0%Z else 1%Z
  else if Z.eqb op 3 then
    let m := as_nat (dnth 0 a) in
    let modes := map (mode_of_dat m) (as_list (dnth 1 a)) in
    let '(dout, _, y) := ymat (dnth 2 a) in
    let e := dnth 3 a in
    if negb (mat_eqb (m, m, fun j1 j2 => gram modes modes j1 j2) (dnth 0 e) && mat_eqb (m, dout, fun j i => y i j) (dnth 1 e)) then 3%Z
    else let '(_, _, z) := mat_of_dat (dnth 2 e) in
         if mat_eqb (dout, m, fun i j => z j i) (dnth 2 c) then 0%Z else 1%Z
  else 9%Z.
