(* Correspondence runner for C04: TT(ndarray, threshold, max_rank) and utils.truncated_svd. *)
From Coq Require Import ZArith List Bool Arith.
Import ListNotations.
Require Import Ring Sums Matrix Core Chain Data TTOps Sweep OfFull.
Require Import SkTT.Check.C01 SkTT.Check.C03.

(* row-major position of (xs ++ ys) in the array of shape rows ++ cols *)
Fixpoint ravel (dims idx : list nat) : nat :=
  match dims, idx with
  | d :: ds, i :: is' => (i * fold_right Nat.mul 1%nat ds + ravel ds is')%nat
  | _, _ => 0%nat
  end.

(* thr literal: [] | [p; q] relative | [p; q; 0] absolute *)
Definition thr_of_dat2 (d : dat) : option (ZIring -> ZIring -> bool) :=
  match as_list d with
  | [p; q; _] => Some (fun (sj s0 : ZI) => Z.ltb (as_Z p) (as_Z q * fst sj))
  | _ => thr_of_dat d
  end.

Definition run_C04 (c : dat) : dat :=
  let op := as_Z (dnth 0 c) in
  let a := dnth 1 c in
  match op with
  | 1 =>
      let ms := as_nats (dnth 0 a) in let ns := as_nats (dnth 1 a) in
      let data := pairs (as_list (dnth 2 a)) in
      let X := fun xs ys => nth (ravel (ms ++ ns) (xs ++ ys)) data zi0 in
      let r := @of_full ZIring (thr_of_dat (dnth 3 a)) (maxr_int_opt (dnth 4 a)) (map ans_of_dat (as_list (dnth 5 a))) X ms ns in
      L [with_meta (fst r); log_dat (snd r)]
  | 2 =>
      let ans := ans_of_dat (dnth 0 a) in
      let '(m, n, _) := mat_of_dat (dnth 0 (dnth 0 a)) in
      let idx := select (thr_of_dat2 (dnth 1 a)) (maxr_int_opt (dnth 2 a)) ans in
      let k := length idx in
      L [dat_of_mat m k (fun i p => U ans i (nth p idx 0%nat));
         L (map (fun j => dat_of_zi (Sg ans j)) idx);
         dat_of_mat k n (fun p j => V ans (nth p idx 0%nat) j)]
  | _ => L []
  end%Z.
Definition check_C04 (c : dat) : Z := if dat_eqb (run_C04 c) (dnth 2 c) then 0%Z else 1%Z.
