(* Executable models of TT.ortho_left / ortho_right / ortho (tensor_train.py:1092-1332):
   factorise the unfolded core with an SVD oracle, keep the selected singular triplets, store the
   orthonormal factor, push diag(s)·V (resp. U·diag(s)) into the neighbour.
   The SVD is an oracle: its answers come from a tape; nothing is assumed about them here. *)
From Coq Require Import ZArith List Bool Arith.
Import ListNotations.
Require Import Ring Sums Matrix Core Chain.

Section Sweep.
Context {R : cring}.
Open Scope cr_scope.
Notation core := (core R).

Record svd_ans := mkans { rk : nat; U : M R; Sg : nat -> R; V : M R }.

Definition flat (m n a x y : nat) : nat := ((a * m + x) * n + y)%nat.
(* cores[i].reshape(r*m*n, r') and cores[i].reshape(r, m*n*r') *)
Definition unfoldL (c : core) : M R :=
  fun r b => g c (r / (md c * nd c))%nat ((r / nd c) mod md c)%nat (r mod nd c)%nat b.
Definition unfoldR (c : core) : M R :=
  fun a q => g c a (q / (nd c * rr c))%nat ((q / rr c) mod nd c)%nat (q mod rr c)%nat.

(* rank reduction: indices with s_j / s_0 > threshold (when threshold <> 0), then the first
   max_rank of them (when max_rank <> inf) *)
Definition select (thr : option (R -> R -> bool)) (maxr : option nat) (a : svd_ans) : list nat :=
  let idx := match thr with
             | None => seq 0 (rk a)
             | Some gt => filter (fun j => gt (Sg a j) (Sg a 0%nat)) (seq 0 (rk a))
             end in
  match maxr with None => idx | Some m => firstn m idx end.

(* one step of ortho_left on (cores[i], cores[i+1]) *)
Definition stepL (idx : list nat) (a : svd_ans) (c c1 : core) : core * core :=
  (mkcore (rl c) (md c) (nd c) (length idx)
          (fun al x y p => U a (flat (md c) (nd c) al x y) (nth p idx 0%nat)),
   mkcore (length idx) (md c1) (nd c1) (rr c1)
          (fun p x y e => sum (rl c1) (fun q => (Sg a (nth p idx 0%nat) * V a (nth p idx 0%nat) q) * g c1 q x y e))).

(* one step of ortho_right on (cores[i], cores[i-1]) *)
Definition stepR (idx : list nat) (a : svd_ans) (c cp : core) : core * core :=
  (mkcore (length idx) (md c) (nd c) (rr c)
          (fun p x y e => V a (nth p idx 0%nat) (flat (nd c) (rr c) x y e)),
   mkcore (rl cp) (md cp) (nd cp) (length idx)
          (fun al x y p => sum (rr cp) (fun q => g cp al x y q * U a q (nth p idx 0%nat)) * Sg a (nth p idx 0%nat))).

(* the per-bond caps max_ranks[k] as a function of the bond index *)
Definition caps := nat -> option nat.

(* left-to-right sweep over a core list, one oracle answer per step; [bond] is the index of the
   bond to the right of the head core.  Returns the new cores and the matrices handed to the
   oracle (for the correspondence check). *)
Fixpoint sweepL (thr : option (R -> R -> bool)) (maxr : caps) (bond : nat)
         (answers : list svd_ans) (cs : list core) : list core :=
  match answers, cs with
  | a :: as', c :: c1 :: rest =>
      let p := stepL (select thr (maxr bond) a) a c c1 in
      fst p :: sweepL thr maxr (S bond) as' (snd p :: rest)
  | _, _ => cs
  end.
Fixpoint sweepL_log (thr : option (R -> R -> bool)) (maxr : caps) (bond : nat)
         (answers : list svd_ans) (cs : list core) : list (nat * nat * M R) :=
  match answers, cs with
  | a :: as', c :: c1 :: rest =>
      let p := stepL (select thr (maxr bond) a) a c c1 in
      ((rl c * md c * nd c)%nat, rr c, unfoldL c) :: sweepL_log thr maxr (S bond) as' (snd p :: rest)
  | _, _ => []
  end.

(* right-to-left sweep over cs (whose head has index [pos]): the cores to the right are processed
   first (they come first in program order); then, if an oracle answer is left, the step
   between the head c (index pos) and its already processed right neighbour (index pos+1, cap
   max_ranks[pos+1]) is performed.  Returns the new cores, the unused answers and the log. *)
Fixpoint sweepR (thr : option (R -> R -> bool)) (maxr : caps) (pos : nat)
         (answers : list svd_ans) (cs : list core) : list core * list svd_ans :=
  match cs with
  | [] => ([], answers)
  | c :: rest =>
      let r := sweepR thr maxr (S pos) answers rest in
      match snd r, fst r with
      | a :: as', ci :: more =>
          let p := stepR (select thr (maxr (S pos)) a) a ci c in
          (snd p :: fst p :: more, as')
      | _, _ => (c :: fst r, snd r)
      end
  end.
Fixpoint sweepR_log (thr : option (R -> R -> bool)) (maxr : caps) (pos : nat)
         (answers : list svd_ans) (cs : list core) : list (nat * nat * M R) :=
  match cs with
  | [] => []
  | c :: rest =>
      let r := sweepR thr maxr (S pos) answers rest in
      sweepR_log thr maxr (S pos) answers rest ++
      match snd r, fst r with
      | a :: as', ci :: more => [(rl ci, (md ci * nd ci * rr ci)%nat, unfoldR ci)]
      | _, _ => []
      end
  end.

(* t.ortho_left(start, end, threshold, max_rank): steps at i = start .. end *)
Definition ortho_left (thr : option (R -> R -> bool)) (maxr : caps) (start : nat)
           (answers : list svd_ans) (cs : list core) : list core :=
  firstn start cs ++ sweepL thr maxr (S start) answers (skipn start cs).
(* t.ortho_right(start, end, threshold, max_rank): steps at i = start, start-1, .., end; the
   number of steps is the number of answers supplied *)
Definition ortho_right (thr : option (R -> R -> bool)) (maxr : caps) (start : nat)
           (answers : list svd_ans) (cs : list core) : list core :=
  fst (sweepR thr maxr 0 answers (firstn (S start) cs)) ++ skipn (S start) cs.
End Sweep.
Arguments svd_ans : clear implicits.
