(* Literal data exchanged with the Python harness, decoding to / encoding from model values.
   Execution instance: the Gaussian integers (real data has zero imaginary parts). *)
From Coq Require Import ZArith List Bool Arith.
Import ListNotations.
Require Import Ring Sums Matrix Core.

Inductive dat := I (z : Z) | L (l : list dat).

Definition as_list (d : dat) : list dat := match d with L l => l | I _ => [] end.
Definition as_Z (d : dat) : Z := match d with I z => z | L _ => 0%Z end.
Definition as_nat (d : dat) : nat := Z.to_nat (as_Z d).
Definition dnth (k : nat) (d : dat) : dat := nth k (as_list d) (I 0).
Definition as_nats (d : dat) : list nat := map as_nat (as_list d).
Definition as_Zs (d : dat) : list Z := map as_Z (as_list d).

Fixpoint dat_eqb (a b : dat) : bool :=
  match a, b with
  | I x, I y => Z.eqb x y
  | L l, L m =>
      (fix go (l m : list dat) : bool :=
         match l, m with
         | [], [] => true
         | x :: l', y :: m' => dat_eqb x y && go l' m'
         | _, _ => false
         end) l m
  | _, _ => false
  end.

(* largest absolute value anywhere in a literal *)
Fixpoint dat_maxabs (a : dat) : Z :=
  match a with
  | I x => Z.abs x
  | L l => (fix go (l : list dat) : Z := match l with [] => 0%Z | x :: l' => Z.max (dat_maxabs x) (go l') end) l
  end.

(* flat list of Gaussian integers: re, im, re, im, ... *)
Fixpoint pairs (l : list dat) : list ZI :=
  match l with
  | a :: b :: l' => (as_Z a, as_Z b) :: pairs l'
  | _ => []
  end.
Definition unpairs (l : list ZI) : list dat := flat_map (fun z => [I (fst z); I (snd z)]) l.

Notation zcore := (core ZIring).

(* core literal: L [rl; m; n; rr; L flat-data], row-major over (a, x, y, b) *)
Definition flat4 (m n r a x y b : nat) : nat := ((a * m + x) * n + y) * r + b.
Definition core_of_dat (d : dat) : zcore :=
  let a := as_nat (dnth 0 d) in let m := as_nat (dnth 1 d) in
  let n := as_nat (dnth 2 d) in let r := as_nat (dnth 3 d) in
  let data := pairs (as_list (dnth 4 d)) in
  @mkcore ZIring a m n r (fun a' x y b => nth (flat4 m n r a' x y b) data zi0).

Definition tab_data (c : zcore) : list ZI :=
  flat_map (fun a => flat_map (fun x => flat_map (fun y => map (fun b => g c a x y b)
    (seq 0 (rr c))) (seq 0 (nd c))) (seq 0 (md c))) (seq 0 (rl c)).
Definition nat_dat (n : nat) : dat := I (Z.of_nat n).
Definition dat_of_core (c : zcore) : dat :=
  L [nat_dat (rl c); nat_dat (md c); nat_dat (nd c); nat_dat (rr c); L (unpairs (tab_data c))].
(* re-tabulate a core (memoisation for vm_compute) *)
Definition tab (c : zcore) : zcore :=
  let data := tab_data c in
  @mkcore ZIring (rl c) (md c) (nd c) (rr c)
    (fun a x y b =>
       if (a <? rl c)%nat && (x <? md c)%nat && (y <? nd c)%nat && (b <? rr c)%nat
       then nth (flat4 (md c) (nd c) (rr c) a x y b) data zi0 else g c a x y b).

Definition cores_of_dat (d : dat) : list zcore := map core_of_dat (as_list d).
Definition dat_of_cores (cs : list zcore) : dat := L (map dat_of_core cs).
Definition dat_of_nats (l : list nat) : dat := L (map nat_dat l).
Definition dat_of_zi (z : ZI) : dat := L [I (fst z); I (snd z)].
Definition zi_of_dat (d : dat) : ZI := (as_Z (dnth 0 d), as_Z (dnth 1 d)).

(* matrices (rows, cols, flat data) *)
Definition mat_of_dat (d : dat) : nat * nat * M ZIring :=
  let m := as_nat (dnth 0 d) in let n := as_nat (dnth 1 d) in
  let data := pairs (as_list (dnth 2 d)) in
  (m, n, fun i j => nth (i * n + j) data zi0).
Definition dat_of_mat (m n : nat) (A : M ZIring) : dat :=
  L [nat_dat m; nat_dat n;
     L (unpairs (flat_map (fun i => map (fun j => A i j) (seq 0 n)) (seq 0 m)))].
