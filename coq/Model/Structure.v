(* Executable models of the contractions and structural rearrangements of TT (C02):
   tensordot (4 modes x 3 structural cases), rank_tensordot, concatenate, rank_transpose, diag,
   squeeze, qtt2tt, tt2qtt (SVD oracle), build_core.  Each definition mirrors the code path. *)
From Coq Require Import ZArith List Bool Arith.
Import ListNotations.
Require Import Ring Sums Matrix Core Chain Sweep.

Section Structure.
Context {R : cring}.
Open Scope cr_scope.
Notation core := (core R).

(* np.transpose(core, [3, 1, 2, 0]) *)
Definition rtcore (c : core) : core := mkcore (rr c) (md c) (nd c) (rl c) (fun a x y b => g c b x y a).
(* TT.rank_transpose: reverse the core list, rank-transpose every core *)
Definition rank_transpose (cs : list core) : list core := rev (map rtcore cs).

(* ---- tensordot ---- *)
Definition M4 := nat -> nat -> nat -> nat -> R.
(* np.tensordot(c, d, axes=([1,2],[1,2])) : indices (a, b, a', b') *)
Definition pairM (c d : core) : M4 :=
  fun a b a' b' => sum (md c) (fun x => sum (nd c) (fun y => g c a x y b * g d a' x y b')).
(* M = transpose(tensordot(M, Mnew, axes=([1,3],[0,2])), [0,2,1,3]) *)
Definition stepM (rb rb' : nat) (M Mn : M4) : M4 :=
  fun a bn a' b'n => sum rb (fun b => sum rb' (fun b' => M a b a' b' * Mn b bn b' b'n)).
Fixpoint accM (M : M4) (pc pd : core) (cs ds : list core) : M4 :=
  match cs, ds with
  | c :: cs', d :: ds' => accM (stepM (rr pc) (rr pd) M (pairM c d)) c d cs' ds'
  | _, _ => M
  end.
Definition contractM (tpart upart : list core) : M4 :=
  match tpart, upart with
  | c :: cs', d :: ds' => accM (pairM c d) c d cs' ds'
  | _, _ => fun _ _ _ _ => 0
  end.

Inductive tmode := LastFirst | LastLast | FirstLast | FirstFirst.

Definition dcore : core := mkcore 0 0 0 0 (fun _ _ _ _ => 0).
Definition lastc (l : list core) : core := last l dcore.
Definition headc (l : list core) : core := hd dcore l.

(* the 2-D slice of M and its shape *)
Definition sliceM (mode : tmode) (tpart upart : list core) : nat * nat * M R :=
  let M := contractM tpart upart in
  match mode with
  | LastFirst => (rl (headc tpart), rr (lastc upart), fun a b' => M a 0%nat 0%nat b')
  | LastLast => (rl (headc tpart), rl (headc upart), fun a a' => M a 0%nat a' 0%nat)
  | FirstLast => (rr (lastc tpart), rl (headc upart), fun b a' => M 0%nat b a' 0%nat)
  | FirstFirst => (rr (lastc tpart), rr (lastc upart), fun b b' => M 0%nat b 0%nat b')
  end.

(* np.tensordot(c, Mat, axes=([3],[0])) / axes=([3],[1]) / (Mat, c, axes=([1],[0])) / axes=([0],[0]) *)
Definition core_mat (c : core) (newr : nat) (Mat : M R) : core :=
  mkcore (rl c) (md c) (nd c) newr (fun a x y b => sum (rr c) (fun q => g c a x y q * Mat q b)).
Definition core_matT (c : core) (newr : nat) (Mat : M R) : core :=
  mkcore (rl c) (md c) (nd c) newr (fun a x y b => sum (rr c) (fun q => g c a x y q * Mat b q)).
Definition mat_core (newl : nat) (Mat : M R) (c : core) : core :=
  mkcore newl (md c) (nd c) (rr c) (fun a x y e => sum (rl c) (fun q => Mat a q * g c q x y e)).
Definition matT_core (newl : nat) (Mat : M R) (c : core) : core :=
  mkcore newl (md c) (nd c) (rr c) (fun a x y e => sum (rl c) (fun q => Mat q a * g c q x y e)).

Definition tensordot (mode : tmode) (k : nat) (ts us : list core) : list core :=
  let nt := length ts in let nu := length us in
  let tpart := match mode with LastFirst | LastLast => skipn (nt - k) ts | _ => firstn k ts end in
  let upart := match mode with LastFirst | FirstFirst => firstn k us | _ => skipn (nu - k) us end in
  let '(mr, mc, Mat) := sliceM mode tpart upart in
  let fs := (nt - k)%nat in let fo := (nu - k)%nat in
  if (k =? nt)%nat && (k =? nu)%nat then
    [mkcore mr 1 1 mc (fun a _ _ b => Mat a b)]
  else if (k =? nt)%nat then
    match mode with
    | LastFirst => mat_core mr Mat (nth k us dcore) :: skipn (S k) us
    | LastLast => map rtcore (core_matT (nth (fo - 1) us dcore) mr Mat :: rev (firstn (fo - 1) us))
    | FirstLast => firstn (fo - 1) us ++ [core_matT (nth (fo - 1) us dcore) mr Mat]
    | FirstFirst => map rtcore (rev (skipn (S k) us) ++ [mat_core mr Mat (nth k us dcore)])
    end
  else
    match mode with
    | LastFirst => firstn (fs - 1) ts ++ [core_mat (nth (fs - 1) ts dcore) mc Mat] ++ skipn k us
    | LastLast => firstn (fs - 1) ts ++ [core_mat (nth (fs - 1) ts dcore) mc Mat] ++ map rtcore (rev (firstn fo us))
    | FirstLast => firstn fo us ++ [matT_core mc Mat (nth k ts dcore)] ++ skipn (S k) ts
    | FirstFirst => map rtcore (rev (skipn k us)) ++ [matT_core mc Mat (nth k ts dcore)] ++ skipn (S k) ts
    end.

(* ---- rank_tensordot(matrix, mode) ---- *)
Definition rank_tensordot_last (cs : list core) (n : nat) (Mat : M R) : list core :=
  match rev cs with c :: rcs => rev rcs ++ [core_mat c n Mat] | [] => [] end.
Definition rank_tensordot_first (cs : list core) (m : nat) (Mat : M R) : list core :=
  match cs with c :: cs' => mat_core m Mat c :: cs' | [] => [] end.

(* ---- concatenate ---- *)
Definition concatenate (cs ds : list core) : list core := cs ++ ds.

(* ---- diag(diag_list): cores[i][k,:,:,l] = diag(cores[i][k,:,0,l]) on the selected cores ---- *)
Definition diagcore (c : core) : core :=
  mkcore (rl c) (md c) (md c) (rr c) (fun a x y b => if Nat.eqb x y then g c a x 0%nat b else 0).
Fixpoint tdiag (sel : list bool) (cs : list core) : list core :=
  match cs, sel with
  | c :: cs', s :: sel' => (if s then diagcore c else c) :: tdiag sel' cs'
  | _, _ => cs
  end.

(* ---- squeeze: cores without a mode are multiplied into a neighbour ---- *)
Definition nomode (c : core) : bool := Nat.eqb (md c) 1 && Nat.eqb (nd c) 1.
(* c @ d[:,0,0,:] *)
Definition absorb_r (c d : core) : core :=
  mkcore (rl c) (md c) (nd c) (rr d) (fun a x y b => sum (rr c) (fun q => g c a x y q * g d q 0%nat 0%nat b)).
(* row vector (1 x r) carried through the leading mode-less cores *)
Fixpoint squeeze_lead (v : option (nat * (nat -> R))) (cs : list core) : option (nat * (nat -> R)) * list core :=
  match cs with
  | c :: cs' =>
      if nomode c then
        match v with
        | None => squeeze_lead (Some (rr c, fun b => g c 0%nat 0%nat 0%nat b)) cs'
        | Some (n, w) => squeeze_lead (Some (rr c, fun b => sum n (fun q => w q * g c q 0%nat 0%nat b))) cs'
        end
      else (v, cs)
  | [] => (v, [])
  end.
Fixpoint squeeze_tail (cur : core) (cs : list core) : list core :=
  match cs with
  | c :: cs' => if nomode c then squeeze_tail (absorb_r cur c) cs' else cur :: squeeze_tail c cs'
  | [] => [cur]
  end.
Definition squeeze (cs : list core) : list core :=
  match squeeze_lead None cs with
  | (_, []) => []                                   (* no core with a mode: the code raises *)
  | (None, c :: cs') => squeeze_tail c cs'
  | (Some (n, w), c :: cs') =>
      squeeze_tail (mkcore 1 (md c) (nd c) (rr c) (fun _ x y e => sum (rl c) (fun q => w q * g c q x y e))) cs'
  end.

(* ---- qtt2tt(merge_numbers) ---- *)
Definition mergecore (c d : core) : core :=
  mkcore (rl c) (md c * md d) (nd c * nd d) (rr d)
    (fun a x y b => sum (rr c) (fun q => g c a (x / md d)%nat (y / nd d)%nat q * g d q (x mod md d)%nat (y mod nd d)%nat b)).
Fixpoint merge_n (cur : core) (n : nat) (cs : list core) : core * list core :=
  match n, cs with
  | S n', c :: cs' => merge_n (mergecore cur c) n' cs'
  | _, _ => (cur, cs)
  end.
Fixpoint qtt2tt (fuel : nat) (merges : list nat) (cs : list core) : list core :=
  match merges, cs with
  | m :: ms, c :: cs' =>
      let p := merge_n c (m - 1) cs' in fst p :: qtt2tt fuel ms (snd p)
  | _, _ => []
  end.

(* ---- tt2qtt(row_dims, col_dims, threshold): one SVD per split ---- *)
(* residual core (rank, row_dim, col_dim, rr); split off a leading factor (mj, nj) of the modes *)
Definition split_unfold (c : core) (mj nj : nat) : M R :=
  let rd := (md c / mj)%nat in let cd := (nd c / nj)%nat in
  fun r q =>
    let a := (r / (mj * nj))%nat in let xj := ((r / nj) mod mj)%nat in let yj := (r mod nj)%nat in
    let xr := (q / (cd * rr c))%nat in let yr := ((q / rr c) mod cd)%nat in let e := (q mod rr c)%nat in
    g c a (xj * rd + xr)%nat (yj * cd + yr)%nat e.
Definition split_step (idx : list nat) (a : svd_ans R) (c : core) (mj nj : nat) : core * core :=
  let rd := (md c / mj)%nat in let cd := (nd c / nj)%nat in
  (mkcore (rl c) mj nj (length idx) (fun al xj yj p => U a (flat mj nj al xj yj) (nth p idx 0%nat)),
   mkcore (length idx) rd cd (rr c)
          (fun p xr yr e => Sg a (nth p idx 0%nat) * V a (nth p idx 0%nat) (flat cd (rr c) xr yr e))).
Fixpoint split_core (thr : option (R -> R -> bool)) (answers : list (svd_ans R)) (c : core)
         (ms ns : list nat) : list core * list (svd_ans R) * list (nat * nat * M R) :=
  match ms, ns with
  | mj :: ((_ :: _) as ms'), nj :: ns' =>
      match answers with
      | a :: as' =>
          let p := split_step (select thr None a) a c mj nj in
          let '(out, rest, log) := split_core thr as' (snd p) ms' ns' in
          (fst p :: out, rest,
           ((rl c * mj * nj)%nat, ((md c / mj) * (nd c / nj) * rr c)%nat, split_unfold c mj nj) :: log)
      | [] => ([c], [], [])
      end
  | _, _ => ([c], answers, [])
  end.
Fixpoint tt2qtt (thr : option (R -> R -> bool)) (answers : list (svd_ans R)) (cs : list core)
         (mss nss : list (list nat)) : list core * list (nat * nat * M R) :=
  match cs, mss, nss with
  | c :: cs', ms :: mss', ns :: nss' =>
      let '(out, rest, log) := split_core thr answers c ms ns in
      let r := tt2qtt thr rest cs' mss' nss' in
      (out ++ fst r, log ++ snd r)
  | _, _, _ => ([], [])
  end.

(* ---- build_core(matrix_list): core[i,:,:,j] = block (i,j), zero where the list holds 0 ---- *)
Definition build_core (r1 r2 m n : nat) (blocks : nat -> nat -> option (M R)) : core :=
  mkcore r1 m n r2 (fun i x y j => match blocks i j with Some B => B x y | None => 0 end).
End Structure.
