(* Splitting integrators (solvers/ode.py: __splitting_propagators, __splitting_stage and the four
   drivers).  expm and the SVD are oracles. *)
From Coq Require Import ZArith List Bool Arith.
Import ListNotations.
Require Import Ring Sums Matrix Core Chain Sweep.

Section Splitting.
Context {R : cring}.
Open Scope cr_scope.
Notation core := (core R).

(* np.kron(S, I) + einsum('ijk,klm->iljm', L, M).reshape(d1*d2, d1*d2):  rows (a, b), columns (c, d) *)
Definition two_site_generator (d2 rk : nat) (S I : M R) (Lm : nat -> nat -> nat -> R) (Mm : nat -> nat -> nat -> R) : M R :=
  fun r q => let a := (r / d2)%nat in let b := (r mod d2)%nat in let c := (q / d2)%nat in let d := (q mod d2)%nat in
             S a c * I b d + sum rk (fun k => Lm a c k * Mm k b d).

(* contract two neighbouring cores and apply a two-site propagator K[(out), (in)] *)
Definition merged (c c1 : core) : nat -> nat -> nat -> R :=
  fun a j b => sum (rr c) (fun l => g c a (j / md c1)%nat 0%nat l * g c1 l (j mod md c1)%nat 0%nat b).
Definition applied (K : M R) (c c1 : core) : nat -> nat -> nat -> R :=
  fun a l b => sum (md c * md c1) (fun j => merged c c1 a j b * K l j).
(* the matrix handed to truncated_svd: rows (a, x1), columns (x2, b) *)
Definition pair_matrix (K : M R) (c c1 : core) : M R :=
  fun r q => applied K c c1 (r / md c)%nat ((r mod md c) * md c1 + q / rr c1)%nat (q mod rr c1)%nat.
Definition pair_step (idx : list nat) (a : svd_ans R) (c c1 : core) : core * core :=
  (mkcore (rl c) (md c) 1 (length idx) (fun al x _ p => U a (al * md c + x)%nat (nth p idx 0%nat)),
   mkcore (length idx) (md c1) 1 (rr c1) (fun p x _ b => Sg a (nth p idx 0%nat) * V a (nth p idx 0%nat) (x * rr c1 + b)%nat)).
(* single-site update of the last core: einsum('ijkl,mj->imkl') *)
Definition last_step (K : M R) (c : core) : core :=
  mkcore (rl c) (md c) (nd c) (rr c) (fun a m k b => sum (md c) (fun j => g c a j k b * K m j)).

Definition parity_ok (even : bool) (pos : nat) : bool := Bool.eqb even (Nat.even pos).

(* one stage over the bonds of the given parity *)
Fixpoint stage (thr : option (R -> R -> bool)) (maxr : option nat) (Ks : list (M R)) (even : bool)
         (fuel : nat) (pos : nat) (answers : list (svd_ans R)) (cs : list core)
  : list core * list (svd_ans R) * list (nat * nat * M R) :=
  match fuel with
  | O => (cs, answers, [])
  | S fuel' =>
      match cs with
      | [] => ([], answers, [])
      | [c] => if parity_ok even pos then ([last_step (nth pos Ks (fun _ _ => 0)) c], answers, []) else ([c], answers, [])
      | c :: ((c1 :: rest) as tl) =>
          if parity_ok even pos then
            match answers with
            | a :: as' =>
                let K := nth pos Ks (fun _ _ => 0) in
                let p := pair_step (select thr maxr a) a c c1 in
                let '(out, rem, log) := stage thr maxr Ks even fuel' (S (S pos)) as' rest in
                (fst p :: snd p :: out, rem, ((rl c * md c)%nat, (md c1 * rr c1)%nat, pair_matrix K c c1) :: log)
            | [] => (cs, [], [])
            end
          else
            let '(out, rem, log) := stage thr maxr Ks even fuel' (S pos) answers tl in (c :: out, rem, log)
      end
  end.
End Splitting.
