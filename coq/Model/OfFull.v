(* TT.__init__(ndarray, threshold, max_rank): sequential SVD of the residual (TT-SVD), and
   utils.truncated_svd.  The full tensor is a function of (row indices, column indices). *)
From Coq Require Import ZArith List Bool Arith.
Import ListNotations.
Require Import Ring Sums Matrix Core Chain Sweep.

Section OfFull.
Context {R : cring}.
Open Scope cr_scope.
Notation core := (core R).

(* C-order position in the interleaved layout (x_1, y_1, x_2, y_2, ...) *)
Fixpoint size_il (ms ns : list nat) : nat :=
  match ms, ns with m :: ms', n :: ns' => (m * n * size_il ms' ns')%nat | _, _ => 1%nat end.
Fixpoint ravel_il (ms ns xs ys : list nat) : nat :=
  match ms, ns, xs, ys with
  | m :: ms', n :: ns', x :: xs', y :: ys' => ((x * n + y) * size_il ms' ns' + ravel_il ms' ns' xs' ys')%nat
  | _, _, _, _ => 0%nat
  end.
Fixpoint unravel_il (ms ns : list nat) (q : nat) : list nat * list nat :=
  match ms, ns with
  | m :: ms', n :: ns' =>
      let sz := size_il ms' ns' in
      let r := unravel_il ms' ns' (q mod sz) in
      (((q / sz) / n)%nat :: fst r, ((q / sz) mod n)%nat :: snd r)
  | _, _ => ([], [])
  end.

(* the matrix handed to the SVD at a step: rows (a, x, y), columns the interleaved rest *)
Definition res_matrix (m n : nat) (ms ns : list nat) (res : nat -> list nat -> list nat -> R) : M R :=
  fun r q => let p := unravel_il ms ns q in
             res (r / (m * n))%nat (((r / n) mod m)%nat :: fst p) ((r mod n)%nat :: snd p).

Fixpoint of_full_aux (thr : option (R -> R -> bool)) (maxr : option nat) (answers : list (svd_ans R))
         (r : nat) (res : nat -> list nat -> list nat -> R) (ms ns : list nat) {struct ms}
  : list core * list (nat * nat * M R) :=
  match ms, ns with
  | [m], [n] => ([mkcore r m n 1 (fun al x y _ => res al [x] [y])], [])
  | m :: ms', n :: ns' =>
      match answers with
      | a :: as' =>
          let idx := select thr maxr a in
          let c := mkcore r m n (length idx) (fun al x y p => U a (flat m n al x y) (nth p idx 0%nat)) in
          let res' := fun p xs ys => Sg a (nth p idx 0%nat) * V a (nth p idx 0%nat) (ravel_il ms' ns' xs ys) in
          let rec := of_full_aux thr maxr as' (length idx) res' ms' ns' in
          (c :: fst rec, ((r * m * n)%nat, size_il ms' ns', res_matrix m n ms' ns' res) :: snd rec)
      | [] => ([], [])
      end
  | _, _ => ([], [])
  end.
Definition of_full (thr : option (R -> R -> bool)) (maxr : option nat) (answers : list (svd_ans R))
           (X : list nat -> list nat -> R) (ms ns : list nat) :=
  of_full_aux thr maxr answers 1 (fun _ xs ys => X xs ys) ms ns.
End OfFull.
