(* TT.svd(index, threshold, max_rank, ortho_l, ortho_r) and TT.pinv(index, threshold, ...)
   (tensor_train.py:1577-1717), on vector-type trains. *)
From Coq Require Import ZArith List Bool Arith.
Import ListNotations.
Require Import Ring Sums Matrix Core Chain Sweep Structure.

Section GlobalSVD.
Context {R : cring}.
Open Scope cr_scope.
Notation core := (core R).

(* max_rank given as an int: caps [1, k, .., k, 1] *)
Definition int_caps (order : nat) (k : option nat) : caps :=
  match k with
  | None => fun _ => None
  | Some m => fun bond => if Nat.eqb bond 0 || Nat.eqb bond order then Some 1%nat else Some m
  end.

(* cores[index-1].reshape(r * m, r') with column dimension 1 *)
Definition mid_unfold (c : core) : M R := fun r b => g c (r / md c)%nat (r mod md c)%nat 0%nat b.

Record gsvd := mkgsvd { gU : list core; gS : list R; gV : list core; gLog : list (nat * nat * M R) }.

Definition tt_svd (thr : option (R -> R -> bool)) (maxr : option nat) (ortho_l ortho_r : bool)
           (index : nat) (ansL ansR : list (svd_ans R)) (a : svd_ans R) (cs : list core) : gsvd :=
  let order := length cs in
  let cp := int_caps order maxr in
  let cs1 := if ortho_l then ortho_left thr cp 0 ansL cs else cs in
  let logL := if ortho_l then sweepL_log thr cp 1 ansL cs else [] in
  let cs2 := if ortho_r then ortho_right thr cp (order - 1) ansR cs1 else cs1 in
  let logR := if ortho_r then sweepR_log thr cp 0 ansR cs1 else [] in
  let c := nth (index - 1) cs2 dcore in
  let c1 := nth index cs2 dcore in
  let idx := select thr maxr a in
  let ucore := mkcore (rl c) (md c) 1 (length idx) (fun al x _ p => U a (al * md c + x)%nat (nth p idx 0%nat)) in
  let vcore := mkcore (length idx) (md c1) (nd c1) (rr c1)
                      (fun p x y e => sum (rl c1) (fun q => V a (nth p idx 0%nat) q * g c1 q x y e)) in
  mkgsvd (firstn (index - 1) cs2 ++ [ucore]) (map (fun j => Sg a j) idx) (vcore :: skipn (S index) cs2)
         (logL ++ logR ++ [((rl c * md c)%nat, rr c, mid_unfold c)]).

(* pinv: the reciprocal singular values are contracted into the first core of v; [recip] is
   np.reciprocal (an oracle: a field operation) *)
Definition tt_pinv (recip : R -> R) (r : gsvd) : list core :=
  match gV r with
  | v0 :: vrest =>
      gU r ++ mkcore (rl v0) (md v0) (nd v0) (rr v0) (fun p x y e => recip (nth p (gS r) 0) * g v0 p x y e) :: vrest
  | [] => gU r
  end.
End GlobalSVD.
