(* Transformed data tensors (transform.py: basis_decomposition, coordinate_major, function_major,
   gram).  The basis evaluations enter as tables: a mode is (n, Phi) with Phi k j the value of the
   k-th function of that mode on snapshot j. *)
From Coq Require Import ZArith List Bool Arith.
Import ListNotations.
Require Import Ring Sums Matrix Core Chain.

Section DataTensor.
Context {R : cring}.
Open Scope cr_scope.
Notation core := (core R).
Definition mode := (nat * (nat -> nat -> R))%type.

(* cores[0][0, :, 0, j] = phi[0][:](x[:, j]) *)
Definition dcore_first (m : nat) (md : mode) : core := mkcore 1 (fst md) 1 m (fun _ k _ j => snd md k j).
(* cores[i][j, :, 0, j] = phi[i][:](x[:, j]), zero off the snapshot diagonal *)
Definition dcore_mid (m : nat) (md : mode) : core :=
  mkcore m (fst md) 1 m (fun j' k _ j => if Nat.eqb j' j then snd md k j else 0).
(* np.eye(m)[:, :, None, None] *)
Definition eye_last (m : nat) : core := mkcore m m 1 1 (fun j' j _ _ => if Nat.eqb j' j then 1 else 0).

Definition basis_decomposition (m : nat) (modes : list mode) : list core :=
  match modes with
  | [] => []
  | md :: rest => dcore_first m md :: map (dcore_mid m) rest ++ [eye_last m]
  end.
(* single_core = i *)
Definition single_core (m : nat) (modes : list mode) (i : nat) : core :=
  match i with O => dcore_first m (nth 0 modes (0%nat, fun _ _ => 0)) | _ => dcore_mid m (nth i modes (0%nat, fun _ _ => 0)) end.

(* gram: Hadamard product over the modes of Theta_1^T Theta_2 *)
Fixpoint gram (modes1 modes2 : list mode) (j1 j2 : nat) : R :=
  match modes1, modes2 with
  | md1 :: r1, md2 :: r2 => sum (fst md1) (fun k => snd md1 k j1 * snd md2 k j2) * gram r1 r2 j1 j2
  | _, _ => 1
  end.
End DataTensor.
