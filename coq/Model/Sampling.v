(* Quantum sampling (quantum_computation.py: sampling), generic in the scalar ring.  The uniform variates are an input;
   [dec u p0 psum] decides  u > p0 / psum. *)
From Coq Require Import ZArith List Bool Arith.
Import ListNotations.
Require Import Ring Sums Matrix Core Chain TTOps Structure.

Section Sampling.
Context {R : cring}.
Open Scope cr_scope.
Notation core := (core R).

(* probabilities = squeeze( diag(state, measured)^H @ state ) *)
Definition prob_tt (sel : list bool) (state : list core) : list core :=
  squeeze (tmul (ttranspose true (repeat true (length state)) (tdiag sel state)) state).

(* np.eye(int(np.sqrt(r))).flatten() *)
Definition vecI (r : nat) (b : nat) : R := let s := Nat.sqrt r in if Nat.eqb (b / s) (b mod s) then 1 else 0.
(* cores_tmp[i] = cores[i][:, :, 0, :] @ vec(I) *)
Definition ctmp (c : core) (a x : nat) : R := sum (rr c) (fun b => g c a x 0%nat b * vecI (rr c) b).

Section Row.
Variables (U : Type) (dec : U -> R -> R -> bool).
Fixpoint sample_row (cs : list core) (theta : nat -> R) (us : list U) : list nat :=
  match cs, us with
  | c :: cs', u :: us' =>
      let p := fun x => sum (rl c) (fun a => theta a * ctmp c a x) in
      let bit := if dec u (p 0%nat) (sum (md c) p) then 1%nat else 0%nat in
      bit :: sample_row cs' (fun l => sum (rl c) (fun a => theta a * g c a bit 0%nat l)) us'
  | _, _ => []
  end.
End Row.
End Sampling.

(* np.unique(rows, return_counts=True, axis=0): lexicographically sorted distinct rows with multiplicities *)
Fixpoint row_ltb (a b : list nat) : bool :=
  match a, b with
  | x :: a', y :: b' => if Nat.ltb x y then true else if Nat.ltb y x then false else row_ltb a' b'
  | [], _ :: _ => true
  | _, _ => false
  end.
Fixpoint row_eqb (a b : list nat) : bool :=
  match a, b with
  | x :: a', y :: b' => Nat.eqb x y && row_eqb a' b'
  | [], [] => true
  | _, _ => false
  end.
Fixpoint uinsert (r : list nat) (l : list (list nat * nat)) : list (list nat * nat) :=
  match l with
  | [] => [(r, 1%nat)]
  | (q, k) :: l' => if row_eqb r q then (q, S k) :: l' else if row_ltb r q then (r, 1%nat) :: l else (q, k) :: uinsert r l'
  end.
Definition unique_counts (rows : list (list nat)) : list (list nat * nat) := fold_left (fun acc r => uinsert r acc) rows [].
