(* MANDy and alternating ridge regression (data_driven/regression.py), generic in the scalar ring.
   Basis evaluations enter as tables Theta k j (function k of a mode on snapshot j), as in Model/DataTensor.v. *)
From Coq Require Import ZArith List Bool Arith.
Import ListNotations.
Require Import Ring Sums Matrix Core Chain Sweep.

Section Regression.
Context {R : cring}.
Open Scope cr_scope.
Notation core := (core R).

(* mandy_cm / mandy_fm: xi.cores[p] = (xi.cores[p].reshape(r, m) . y^T).reshape(r, d, 1, 1) *)
Definition mandy_last (c : core) (dout m : nat) (y : M R) : core :=
  mkcore (rl c) dout 1 1 (fun a i _ _ => sum m (fun j => g c a j 0%nat 0%nat * y i j)).

(* ---- ARR: snapshot-indexed environments ---- *)
(* einsum('ij, kj, ikl -> lj', stack_left[i-1], Theta, cores[i-1][:, :, 0, :]) *)
Definition left_next (L Th : M R) (G : core) : M R :=
  fun l j => sum (rl G) (fun i => sum (md G) (fun k => L i j * Th k j * g G i k 0%nat l)).
(* einsum('ikl, kj, lj -> ij', cores[i+1][:, :, 0, :], Theta, stack_right[i+1]) *)
Definition right_next (G : core) (Th Rk : M R) : M R :=
  fun i j => sum (md G) (fun k => sum (rr G) (fun l => g G i k 0%nat l * Th k j * Rk l j)).
Definition ones2 : M R := fun _ _ => 1.                 (* np.array([1], ndmin=2), broadcast over the snapshots *)
Definition lstack_from (L0 : M R) (pre : list (M R * core)) : M R :=
  fold_left (fun L p => left_next L (fst p) (snd p)) pre L0.
Fixpoint rstack_from (R0 : M R) (suf : list (M R * core)) : M R :=
  match suf with [] => R0 | p :: rest => right_next (snd p) (fst p) (rstack_from R0 rest) end.
(* einsum('ij,kj,lj->iklj').reshape(r * n * r', m) *)
Definition arr_micro (L Th Rk : M R) (n r' : nat) : M R :=
  fun row j => L (row / (n * r'))%nat j * Th ((row / r') mod n)%nat j * Rk (row mod r')%nat j.

(* the value of the represented function on snapshot j: every core contracted with its basis evaluations *)
Definition ccore (j : nat) (p : M R * core) : core :=
  mkcore (rl (snd p)) 1 1 (rr (snd p)) (fun a _ _ b => sum (md (snd p)) (fun k => fst p k j * g (snd p) a k 0%nat b)).
Definition zeros (n : nat) := repeat 0%nat n.
Definition fit_chain (ps : list (M R * core)) (j : nat) : M R := chain (map (ccore j) ps) (zeros (length ps)) (zeros (length ps)).
Definition fitted (ps : list (M R * core)) (j : nat) : R := fit_chain ps j 0%nat 0%nat.
End Regression.
