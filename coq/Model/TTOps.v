(* Executable models of the value-level operations of scikit_tt.tensor_train.TT (C01).
   Definitions only; each mirrors the code path of the method named in the comment.
   (mulcore/tmul, trcore, conjcore, smul live in TT/Chain.v next to their lemmas.) *)
From Coq Require Import ZArith List Bool Arith.
Import ListNotations.
Require Import Ring Sums Matrix Core Chain.

Section Ops.
Context {R : cring}.
Open Scope cr_scope.
Notation core := (core R).

(* ---- metadata as TT.__init__(cores) computes it ---- *)
Definition ranks_of (cs : list core) : list nat :=
  map rl cs ++ [match rev cs with c :: _ => rr c | [] => 1%nat end].

(* ---- TT.__add__ (tensor_train.py:282), after the order-1 repair: the block of the second
        summand is accumulated (+=) into the zero-initialised core ---- *)
Definition in_blk (lo hi a : nat) : bool := (lo <=? a)%nat && (a <? hi)%nat.
Definition addcore (first last : bool) (c e : core) : core :=
  let R1 := if first then 1%nat else (rl c + rl e)%nat in
  let R2 := if last then 1%nat else (rr c + rr e)%nat in
  mkcore R1 (md c) (nd c) R2 (fun a x y b =>
    (if in_blk 0 (rl c) a && in_blk 0 (rr c) b then g c a x y b else 0) +
    (if in_blk (R1 - rl e) R1 a && in_blk (R2 - rr e) R2 b
     then g e (a - (R1 - rl e))%nat x y (b - (R2 - rr e))%nat else 0)).
Definition is_nil {A} (l : list A) : bool := match l with [] => true | _ => false end.
Fixpoint tadd_aux (first : bool) (cs es : list core) : list core :=
  match cs, es with
  | c :: cs', e :: es' => addcore first (is_nil cs') c e :: tadd_aux false cs' es'
  | _, _ => []
  end.
Definition tadd (cs es : list core) : list core := tadd_aux true cs es.

(* ---- TT.__sub__ : self + (-1) * other.copy() ---- *)
Definition tsub (cs es : list core) : list core := tadd cs (smul (copp R (c1 R)) es).

(* ---- TT.__matmul__ : tmul; when every mode has size 1 the result is the scalar
        element([0]*2d) ---- *)
Definition all_one (l : list nat) : bool := forallb (Nat.eqb 1) l.
Definition matmul_is_scalar (cs ds : list core) : bool := all_one (rows cs) && all_one (cols ds).
Definition matmul_scalar (cs ds : list core) : R :=
  elem (tmul cs ds) (repeat 0%nat (length cs)) (repeat 0%nat (length cs)).

(* ---- TT.transpose(cores=sel, conjugate=cj) ---- *)
Fixpoint ttranspose (cj : bool) (sel : list bool) (cs : list core) : list core :=
  match cs, sel with
  | c :: cs', s :: sel' => (if s then trcore cj c else c) :: ttranspose cj sel' cs'
  | _, _ => cs
  end.
(* ---- TT.conj ---- *)
Definition tconj (cs : list core) : list core := map conjcore cs.

(* ---- all multi-indices below dims, lexicographic (NumPy C order) ---- *)
Fixpoint all_idx (dims : list nat) : list (list nat) :=
  match dims with
  | [] => [[]]
  | n :: ns => flat_map (fun x => map (cons x) (all_idx ns)) (seq 0 n)
  end.
(* ---- TT.full().flatten() and TT.matricize().flatten(): rows outer, columns inner ---- *)
Definition full_flat (cs : list core) : list R :=
  flat_map (fun xs => map (fun ys => elem cs xs ys) (all_idx (cols cs))) (all_idx (rows cs)).

(* ---- TT.norm(p=1): core-wise sum over the row axis, then the largest entry ---- *)
Definition sumrows_core (c : core) : core :=
  mkcore (rl c) 1 (nd c) (rr c) (fun a _ y b => sum (md c) (fun x => g c a x y b)).
Definition colsums (cs : list core) : list R :=
  let cs' := if all_one (rows cs) then map (trcore false) cs else cs in
  let ss := map sumrows_core cs' in
  map (fun ys => elem ss (repeat 0%nat (length ss)) ys) (all_idx (cols ss)).

(* ---- constructors ---- *)
Definition const_core (v : R) (r1 m n r2 : nat) : core := mkcore r1 m n r2 (fun _ _ _ _ => v).
Fixpoint const_tt (v : R) (rs ms ns : list nat) : list core :=
  match rs, ms, ns with
  | r1 :: ((r2 :: _) as rs'), m :: ms', n :: ns' => const_core v r1 m n r2 :: const_tt v rs' ms' ns'
  | _, _, _ => []
  end.
Definition tzeros := const_tt 0.
Definition tones := const_tt 1.
Definition teye (dims : list nat) : list core :=
  map (fun d => mkcore 1 d d 1 (fun _ x y _ => if Nat.eqb x y then 1 else 0)) dims.
Definition tunit (dims inds : list nat) : list core :=
  map (fun p => mkcore 1 (fst p) 1 1 (fun _ x _ _ => if Nat.eqb x (snd p) then 1 else 0)) (combine dims inds).
End Ops.
