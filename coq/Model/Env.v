(* Environments ("stacks") and micro systems of the alternating solvers (solvers/sle.py), generic in
   the scalar ring.  A 3-axis stack has axes (solution, operator, conjugated solution); a 2-axis
   stack (right-hand side, conjugated solution).  Each definition mirrors one helper of sle.py. *)
From Coq Require Import ZArith List Bool Arith.
Import ListNotations.
Require Import Ring Sums Matrix Core Chain.

Section Env.
Context {R : cring}.
Open Scope cr_scope.
Notation core := (core R).
Notation cj := (cconj R).

Record st3 := mkst3 { a1 : nat; a2 : nat; a3 : nat; f3 : nat -> nat -> nat -> R }.
Record st2 := mkst2 { b1 : nat; b2 : nat; f2 : nat -> nat -> R }.
Definition one3 : st3 := mkst3 1 1 1 (fun _ _ _ => 1).      (* np.array([1], ndmin=3) *)
Definition one2 : st2 := mkst2 1 1 (fun _ _ => 1).

(* __construct_stack_left_op: L'(s', r', c') from L(s, r, c), X = solution.cores[i-1], A = operator.cores[i-1]
   tensordot(L, X[:,:,0,:], (0,0)) -> (r, c, y, s'); tensordot(., A, ([0,2],[0,2])) -> (c, s', x, r');
   tensordot(., conj X, ([0,2],[0,1])) -> (s', r', c') *)
Definition left_op (L : st3) (X A : core) : st3 :=
  mkst3 (rr X) (rr A) (rr X)
    (fun s' r' c' =>
       sum (a3 L) (fun c => sum (md A) (fun x =>
         sum (a2 L) (fun r => sum (nd A) (fun y =>
            sum (a1 L) (fun s => f3 L s r c * g X s y 0%nat s') * g A r x y r'))
         * cj (g X c x 0%nat c')))).
Definition left_rhs (L : st2) (X B : core) : st2 :=
  mkst2 (rr B) (rr X)
    (fun be' c' => sum (b1 L) (fun be => sum (b2 L) (fun c => sum (md B) (fun x =>
        f2 L be c * g B be x 0%nat be' * cj (g X c x 0%nat c'))))).
(* __construct_stack_right_op *)
Definition right_op (Rk : st3) (X A : core) : st3 :=
  mkst3 (rl X) (rl A) (rl X)
    (fun s r c =>
       sum (nd A) (fun y => sum (a1 Rk) (fun s' =>
         g X s y 0%nat s' *
         sum (md A) (fun x => sum (a2 Rk) (fun r' =>
           g A r x y r' * sum (a3 Rk) (fun c' => cj (g X c x 0%nat c') * f3 Rk s' r' c')))))).
Definition right_rhs (Rk : st2) (X B : core) : st2 :=
  mkst2 (rl B) (rl X)
    (fun be c => sum (md B) (fun x => sum (b1 Rk) (fun be' =>
        g B be x 0%nat be' * sum (b2 Rk) (fun c' => cj (g X c x 0%nat c') * f2 Rk be' c')))).

(* __construct_micro_matrix_als: rows (c, x, c'), columns (s, y, s'); ri, ri1 the cached solution ranks *)
Definition micro_op_als (L Rk : st3) (A : core) (ri ri1 : nat) : nat * nat * M R :=
  let m := md A in let n := nd A in
  ((ri * m * ri1)%nat, (ri * n * ri1)%nat,
   fun row col =>
     let c := (row / (m * ri1))%nat in let x := ((row / ri1) mod m)%nat in let c' := (row mod ri1)%nat in
     let s := (col / (n * ri1))%nat in let y := ((col / ri1) mod n)%nat in let s' := (col mod ri1)%nat in
     sum (a2 L) (fun r => sum (a2 Rk) (fun r' => f3 L s r c * g A r x y r' * f3 Rk s' r' c'))).
Definition micro_rhs_als (L Rk : st2) (B : core) (ri ri1 : nat) : nat * nat * M R :=
  let m := md B in
  ((ri * m * ri1)%nat, 1%nat,
   fun row _ =>
     let c := (row / (m * ri1))%nat in let x := ((row / ri1) mod m)%nat in let c' := (row mod ri1)%nat in
     sum (b1 L) (fun be => sum (b1 Rk) (fun be' => f2 L be c * g B be x 0%nat be' * f2 Rk be' c'))).

(* __construct_micro_matrix_mals: rows (c, x1, x2, c'), columns (s, y1, y2, s'); ri, ri2 cached ranks *)
Definition micro_op_mals (L Rk : st3) (A1 A2 : core) (ri ri2 : nat) : nat * nat * M R :=
  let m1 := md A1 in let m2 := md A2 in let n1 := nd A1 in let n2 := nd A2 in
  ((ri * m1 * m2 * ri2)%nat, (ri * n1 * n2 * ri2)%nat,
   fun row col =>
     let c := (row / (m1 * m2 * ri2))%nat in let x1 := ((row / (m2 * ri2)) mod m1)%nat in
     let x2 := ((row / ri2) mod m2)%nat in let c' := (row mod ri2)%nat in
     let s := (col / (n1 * n2 * ri2))%nat in let y1 := ((col / (n2 * ri2)) mod n1)%nat in
     let y2 := ((col / ri2) mod n2)%nat in let s' := (col mod ri2)%nat in
     sum (a2 L) (fun r => sum (rr A1) (fun rm => sum (a2 Rk) (fun r' =>
        f3 L s r c * g A1 r x1 y1 rm * g A2 rm x2 y2 r' * f3 Rk s' r' c')))).
Definition micro_rhs_mals (L Rk : st2) (B1 B2 : core) (ri ri2 : nat) : nat * nat * M R :=
  let m1 := md B1 in let m2 := md B2 in
  ((ri * m1 * m2 * ri2)%nat, 1%nat,
   fun row _ =>
     let c := (row / (m1 * m2 * ri2))%nat in let x1 := ((row / (m2 * ri2)) mod m1)%nat in
     let x2 := ((row / ri2) mod m2)%nat in let c' := (row mod ri2)%nat in
     sum (b1 L) (fun be => sum (rr B1) (fun bm => sum (b1 Rk) (fun be' =>
        f2 L be c * g B1 be x1 0%nat bm * g B2 bm x2 0%nat be' * f2 Rk be' c')))).
End Env.
Arguments st3 : clear implicits.
Arguments st2 : clear implicits.
