(* Tensor-based EDMD, AMUSEt with HOSVD (data_driven/tedmd.py), generic in the scalar ring.
   Basis evaluations enter as tables (Model/DataTensor.v); every SVD is an oracle answer. *)
From Coq Require Import ZArith List Bool Arith.
Import ListNotations.
Require Import Ring Sums Matrix Core Chain Sweep DataTensor.

Section Tedmd.
Context {R : cring}.
Open Scope cr_scope.
Notation core := (core R).

(* one step of the sequential decomposition: core_tmp[a, k, j] = residual[a, j] * Theta[k, j], unfolded (r n) x m *)
Definition hosvd_unfold (r : nat) (md : @mode R) (Rs : M R) : M R :=
  fun row j => Rs (row / fst md)%nat j * snd md (row mod fst md)%nat j.
Definition hosvd_core (r : nat) (md : @mode R) (idx : list nat) (a : svd_ans R) : core :=
  mkcore r (fst md) 1 (length idx) (fun al k _ p => U a (al * fst md + k)%nat (nth p idx 0%nat)).
Definition hosvd_residual (idx : list nat) (a : svd_ans R) : M R :=
  fun p j => Sg a (nth p idx 0%nat) * V a (nth p idx 0%nat) j.
(* returns the cores (without the last), the final residual with its row count, and the matrices handed to the SVD *)
Fixpoint hosvd (thr : option (R -> R -> bool)) (maxr : option nat) (m : nat) (modes : list (@mode R)) (answers : list (svd_ans R))
         (r : nat) (Rs : M R) : list core * (nat * M R) * list (nat * nat * M R) :=
  match modes, answers with
  | md :: modes', a :: answers' =>
      let idx := select thr maxr a in
      let '(cs, fin, log) := hosvd thr maxr m modes' answers' (length idx) (hosvd_residual idx a) in
      (hosvd_core r md idx a :: cs, fin, ((r * fst md)%nat, m, hosvd_unfold r md Rs) :: log)
  | _, _ => ([], (r, Rs), [])
  end.
Definition last_core (r m : nat) (Rs : M R) : core := mkcore r m 1 1 (fun a j _ _ => Rs a j).

(* _reduced_matrix: columns of the last core selected by the index lists *)
Definition restrict (C : M R) (ix : list nat) : M R := fun a t => C a (nth t ix 0%nat).
Definition reduced (r : nat) (Cx Cy : M R) (nx : nat) (idx : list nat) (a : svd_ans R) (recip : R -> R) : M R :=
  fun p q => sum nx (fun t => sum r (fun al => V a (nth p idx 0%nat) t * Cy al t * U a al (nth q idx 0%nat))) * recip (Sg a (nth q idx 0%nat)).
(* eigentensor last core: u . diag(1/s) . W[:, order] *)
Definition eigen_last (r : nat) (idx : list nat) (a : svd_ans R) (recip : R -> R) (W : M R) (ord : list nat) : core :=
  mkcore r (length ord) 1 1
    (fun al q _ _ => sum (length idx) (fun p => U a al (nth p idx 0%nat) * recip (Sg a (nth p idx 0%nat)) * W p (nth q ord 0%nat))).
End Tedmd.
