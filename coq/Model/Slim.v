(* SLIM decomposition of nearest-neighbour Markov generators (slim.py) and Ulam operators
   (data_driven/ulam.py).  Executable models; the SVD splitting the two-cell super-core and
   numpy.unique are oracles. *)
From Coq Require Import ZArith List Bool Arith.
Import ListNotations.
Require Import Ring Sums Matrix Core Chain Sweep.

Section Slim.
Context {R : cring}.
Open Scope cr_scope.
Notation core := (core R).

Definition ind (b : bool) : R := if b then 1 else 0.

(* (np.eye(d, k=-net) - np.eye(d)) . diag(e_reactant), summed with rates: reactions (r, p, rate) *)
Definition reaction1 := (nat * nat * R)%type.
Definition smat (rs : list reaction1) : M R :=
  fun x y => fold_right (fun (q : reaction1) acc =>
     let '(r, p, rate) := q in
     acc + rate * (ind (Nat.eqb y r && Nat.eqb x p) - ind (Nat.eqb y r && Nat.eqb x r))) 0 rs.

(* two-cell reactions (r1, p1, r2, p2, rate): super-core[x1, y1, x2, y2] *)
Definition reaction2 := (nat * nat * nat * nat * R)%type.
Definition supercore (rs : list reaction2) : nat -> nat -> nat -> nat -> R :=
  fun x1 y1 x2 y2 => fold_right (fun (q : reaction2) acc =>
     let '(r1, p1, r2, p2, rate) := q in
     acc + rate * (ind (Nat.eqb y1 r1 && Nat.eqb x1 p1) * ind (Nat.eqb y2 r2 && Nat.eqb x2 p2)
                   - ind (Nat.eqb y1 r1 && Nat.eqb x1 r1) * ind (Nat.eqb y2 r2 && Nat.eqb x2 r2))) 0 rs.

(* __slim_tcr_decomposition: the matrix handed to the SVD and the two factors *)
Definition sc_matrix (d1 d2 : nat) (sc : nat -> nat -> nat -> nat -> R) : M R :=
  fun r c => sc (r / d1)%nat (r mod d1)%nat (c / d2)%nat (c mod d2)%nat.
Definition tcr_left (d1 : nat) (idx : list nat) (a : svd_ans R) : nat -> M R :=
  fun p x y => U a (x * d1 + y)%nat (nth p idx 0%nat) * Sg a (nth p idx 0%nat).
Definition tcr_right (d2 : nat) (idx : list nat) (a : svd_ans R) : nat -> M R :=
  fun p x y => V a (nth p idx 0%nat) (x * d2 + y)%nat.

(* ---- the TT pattern ---- *)
(* a site: dimension, S, the family L towards the right bond (rank lr), the family M from the
   left bond.  For the first site M is the cyclic family (rank rc), for the last site L is. *)
Record site := mksite { sdim : nat; sS : M R; lr : nat; sL : nat -> M R; sM : nat -> M R }.

Definition idm : M R := fun x y => ind (Nat.eqb x y).

(* first core: [S, L, I, M_cyc] *)
Definition slim_first (rc : nat) (s : site) : core :=
  mkcore 1 (sdim s) (sdim s) (2 + lr s + rc)
    (fun _ x y b =>
       if Nat.eqb b 0 then sS s x y
       else if Nat.ltb b (1 + lr s) then sL s (b - 1)%nat x y
       else if Nat.eqb b (1 + lr s) then idm x y
       else if Nat.ltb b (2 + lr s + rc) then sM s (b - 2 - lr s)%nat x y else 0).
(* middle core, with rl = 2 + rprev + rc; [off] is the row offset of the pass-through identities:
   2 + rprev in the repaired code (2 + lr s on the pinned tree) *)
Definition slim_mid_gen (off : nat) (rc rprev : nat) (s : site) : core :=
  mkcore (2 + rprev + rc) (sdim s) (sdim s) (2 + lr s + rc)
    (fun a x y b =>
       if Nat.eqb a 0 then (if Nat.eqb b 0 then idm x y else 0)
       else if Nat.ltb a (1 + rprev) then (if Nat.eqb b 0 then sM s (a - 1)%nat x y else 0)
       else if Nat.eqb a (1 + rprev) then
         (if Nat.eqb b 0 then sS s x y
          else if Nat.ltb b (1 + lr s) then sL s (b - 1)%nat x y
          else if Nat.eqb b (1 + lr s) then idm x y else 0)
       else if Nat.leb off a && Nat.ltb a (off + rc) && Nat.eqb (a - off) (b - (2 + lr s)) && Nat.leb (2 + lr s) b
         then idm x y else 0).
Definition slim_mid (rc rprev : nat) (s : site) : core := slim_mid_gen (2 + rprev) rc rprev s.
(* last core: [I; M; S; L_cyc] *)
Definition slim_last (rc rprev : nat) (s : site) : core :=
  mkcore (2 + rprev + rc) (sdim s) (sdim s) 1
    (fun a x y _ =>
       if Nat.eqb a 0 then idm x y
       else if Nat.ltb a (1 + rprev) then sM s (a - 1)%nat x y
       else if Nat.eqb a (1 + rprev) then sS s x y
       else if Nat.ltb a (2 + rprev + rc) then sL s (a - 2 - rprev)%nat x y else 0).

Fixpoint slim_tail (rc rprev : nat) (ss : list site) : list core :=
  match ss with
  | [] => []
  | [s] => [slim_last rc rprev s]
  | s :: ss' => slim_mid rc rprev s :: slim_tail rc (lr s) ss'
  end.
Definition slim_pattern (rc : nat) (ss : list site) : list core :=
  match ss with
  | s :: ((_ :: _) as ss') => slim_first rc s :: slim_tail rc (lr s) ss'
  | _ => []
  end.

(* ---- Ulam ---- *)
(* ulam_2d before transposition and scaling: transitions (x1, x2, y1, y2) 0-based; [uniq] the distinct
   (x1, y1) pairs and [inv] the index of each transition's pair, as numpy.unique returns them *)
Definition trans2 := (nat * nat * nat * nat)%type.
Definition count_if (n : nat) (f : nat -> bool) : R := sum n (fun t => ind (f t)).
Definition ulam2_cores (s1 s2 : nat) (ts : list trans2) (uniq : list (nat * nat)) (inv : list nat) : list core :=
  let rank := length uniq in
  [ mkcore 1 s1 s1 rank (fun _ x y i => ind (Nat.eqb x (fst (nth i uniq (0, 0)%nat)) && Nat.eqb y (snd (nth i uniq (0, 0)%nat))));
    mkcore rank s2 s2 1 (fun i x y _ =>
      count_if (length ts) (fun t => let '(_, x2, _, y2) := nth t ts (0, 0, 0, 0)%nat in
                                     Nat.eqb (nth t inv 0%nat) i && Nat.eqb x2 x && Nat.eqb y2 y)) ].
(* ulam_3d before transposition and scaling: transitions (x1, x2, x3, y1, y2, y3) 0-based; [uniq1] / [inv1] the distinct
   (x1, y1) pairs and [uniq2] / [inv2] the distinct (x3, y3) pairs with the index of each transition, as numpy.unique
   returns them; the middle core counts the transitions per (pair index, x2, y2, pair index) *)
Definition trans3 := (nat * nat * nat * nat * nat * nat)%type.
Definition t3d : trans3 := (0, 0, 0, 0, 0, 0)%nat.
Definition ulam3_cores (s1 s2 s3 : nat) (ts : list trans3) (uniq1 : list (nat * nat)) (inv1 : list nat)
           (uniq2 : list (nat * nat)) (inv2 : list nat) : list core :=
  let r1 := length uniq1 in let r2 := length uniq2 in
  [ mkcore 1 s1 s1 r1 (fun _ x y i => ind (Nat.eqb x (fst (nth i uniq1 (0, 0)%nat)) && Nat.eqb y (snd (nth i uniq1 (0, 0)%nat))));
    mkcore r1 s2 s2 r2 (fun i x y j =>
      count_if (length ts) (fun t => let '(_, x2, _, _, y2, _) := nth t ts t3d in
                                     Nat.eqb (nth t inv1 0%nat) i && Nat.eqb x2 x && Nat.eqb y2 y && Nat.eqb (nth t inv2 0%nat) j));
    mkcore r2 s3 s3 1 (fun j x y _ => ind (Nat.eqb x (fst (nth j uniq2 (0, 0)%nat)) && Nat.eqb y (snd (nth j uniq2 (0, 0)%nat)))) ].
End Slim.
Arguments site : clear implicits.
