(* One-step ODE schemes of solvers/ode.py as compositions of the TT operations (C09): the operators
   and right-hand sides they build, the explicit step, the HOD series operator. *)
From Coq Require Import ZArith List Bool Arith.
Import ListNotations.
Require Import Ring Sums Matrix Core Chain TTOps Sweep.

Section Ode.
Context {R : cring}.
Open Scope cr_scope.
Notation core := (core R).

(* tt.eye(operator.row_dims) + c * operator *)
Definition eye_plus (c : R) (A : list core) : list core := tadd (teye (rows A)) (smul c A).

(* t.ortho(threshold, max_rank): left sweep without cap, right sweep with caps *)
Definition tt_ortho thr (maxr : option nat) (ansL ansR : list (svd_ans R)) (cs : list core) : list core :=
  let n := (length cs - 1)%nat in
  let cp : caps := match maxr with
                   | None => fun _ => None
                   | Some m => fun bond => if Nat.eqb bond 0 || Nat.eqb bond (length cs) then Some 1%nat else Some m
                   end in
  ortho_right thr cp n ansR (ortho_left thr (fun _ => None) 0 ansL cs).

(* explicit Euler step (normalize = 0): ((I + h A) @ x).ortho(threshold, max_rank) *)
Definition explicit_euler_step thr maxr ansL ansR (h : R) (A x : list core) : list core :=
  tt_ortho thr maxr ansL ansR (tmul (eye_plus h A) x).

(* implicit Euler: operator I - h A, right-hand side x_i ; trapezoidal: I - h/2 A and (I + h/2 A) x_i *)
Definition implicit_op (h : R) (A : list core) : list core := eye_plus (copp R h) A.
Definition trapezoidal_rhs (hhalf : R) (A x : list core) : list core := tmul (eye_plus hhalf A) x.

(* HOD: op_hod for order 2 is 2 h A; one step x_{i+1} = x_{i-1} + op_hod x_i (before ortho) *)
Definition hod_step_raw (op_hod xprev x : list core) : list core := tadd xprev (tmul op_hod x).
End Ode.
