(* Generator EDMD (data_driven/tgedmd.py): the Kolmogorov generator on products of basis functions, generic in the
   scalar ring.  A basis function evaluated at a snapshot is its 2-jet (value, gradient, Hessian); hlf is the code's
   multiplication by 0.5. *)
From Coq Require Import ZArith List Bool Arith.
Import ListNotations.
Require Import Ring Sums Matrix Core Chain.

Section Gedmd.
Context {R : cring}.
Open Scope cr_scope.
Record fjet := mkjet { fv : R; fg : nat -> R; fh : nat -> nat -> R }.
Variables (hlf : R -> R) (d d2 : nat) (b : nat -> R) (sg : nat -> nat -> R).     (* drift (d), diffusion (d x d2) at the snapshot *)

Definition amat : M R := fun x y => sum d2 (fun k => sg x k * sg y k).          (* sigma . sigma^T *)
Definition frob (A B : M R) : R := sum d (fun x => sum d (fun y => A x y * B x y)).   (* _frob_inner *)
Definition gen1 (f : fjet) : R := sum d (fun x => b x * fg f x) + hlf (frob amat (fh f)).   (* _generator *)
Definition sgrad (f : fjet) (k : nat) : R := sum d (fun x => fg f x * sg x k).     (* (grad psi . sigma)_k *)

(* product of the values over all positions not excluded *)
Fixpoint pex (excl : nat -> bool) (pos : nat) (js : list fjet) : R :=
  match js with [] => 1 | f :: r => (if excl pos then 1 else fv f) * pex excl (S pos) r end.
Definition dj : fjet := mkjet 0 (fun _ => 0) (fun _ _ => 0).
(* generator_on_product: js = the selected basis function of every mode *)
Definition gen_on_product (js : list fjet) : R :=
  let p := length js in
  sum p (fun j => pex (Nat.eqb j) 0 js * gen1 (nth j js dj)
                  + sum p (fun v => if Nat.ltb j v
                                    then pex (fun l => Nat.eqb l j || Nat.eqb l v) 0 js *
                                         frob amat (fun x y => fg (nth v js dj) x * fg (nth j js dj) y)
                                    else 0)).
(* generator_on_product_reversible, column i of sigma *)
Definition gen_on_product_rev (js : list fjet) (i : nat) : R :=
  sum (length js) (fun j => sum d (fun x => sg x i * fg (nth j js dj) x) * pex (Nat.eqb j) 0 js).

(* the vector carried by the contraction (without the orthonormal cores): [psi, L psi, sigma^T grad psi] *)
Definition tstate := (R * R * (nat -> R))%type.
Definition tstep (s : tstate) (f : fjet) : tstate :=
  let '(P, LP, GP) := s in
  (P * fv f,
   P * gen1 f + LP * fv f + sum d2 (fun k => GP k * sgrad f k),
   fun k => P * sgrad f k + GP k * fv f).
Definition tunit : tstate := (1, 0, fun _ => 0).
Definition tfold (js : list fjet) : tstate := fold_left tstep js tunit.

(* ---- the contraction with the orthonormal cores, as coded: _contraction_step_LPsi_u / _dPsi_u ----
   v : component c (0 = psi, 1 = L psi, 2 + k = (sigma^T grad psi)_k) x rank index *)
Definition cvec := nat -> nat -> R.
Definition comp (f : fjet) (c : nat) : R := if Nat.eqb c 0 then fv f else if Nat.eqb c 1 then gen1 f else sgrad f (c - 2).
Definition lstep_first (jets : list fjet) (u : core R) : cvec :=
  fun c r' => sum (md u) (fun ii => comp (nth ii jets dj) c * g u 0%nat ii 0%nat r').
Definition lstep_mid (v : cvec) (jets : list fjet) (u : core R) : cvec :=
  fun c' r' => sum (md u) (fun ii => let f := nth ii jets dj in sum (rl u) (fun r =>
     (if Nat.eqb c' 0 then v 0%nat r * fv f
      else if Nat.eqb c' 1 then v 0%nat r * gen1 f + v 1%nat r * fv f + sum d2 (fun jj => v (jj + 2)%nat r * sgrad f jj)
      else v 0%nat r * sgrad f (c' - 2) + v c' r * fv f) * g u r ii 0%nat r')).
Definition lstep_last (v : cvec) (jets : list fjet) (u : core R) : nat -> R := lstep_mid v jets u 1%nat.
(* reversible: components 0 = psi, 1 + x = (grad psi)_x *)
Definition dcomp (f : fjet) (c : nat) : R := if Nat.eqb c 0 then fv f else fg f (c - 1).
Definition dstep_first (jets : list fjet) (u : core R) : cvec :=
  fun c r' => sum (md u) (fun ii => dcomp (nth ii jets dj) c * g u 0%nat ii 0%nat r').
Definition dstep_mid (v : cvec) (jets : list fjet) (u : core R) : cvec :=
  fun c' r' => sum (md u) (fun ii => let f := nth ii jets dj in sum (rl u) (fun r =>
     (if Nat.eqb c' 0 then v 0%nat r * fv f else v 0%nat r * fg f (c' - 1) + v c' r * fv f) * g u r ii 0%nat r')).
Definition dstep_last (v : cvec) (jets : list fjet) (u : core R) : cvec := fun x r' => dstep_mid v jets u (x + 1)%nat r'.
End Gedmd.
