(* Tensor-based DMD (data_driven/tdmd.py): the reduced matrix and the mode cores, generic in the scalar ring. *)
From Coq Require Import ZArith List Bool Arith.
Import ListNotations.
Require Import Ring Sums Matrix Core Chain.

Section Tdmd.
Context {R : cring}.
Open Scope cr_scope.
Notation core := (core R).

(* np.tensordot(x.cores[i], y.cores[i], axes=(1,1)).transpose([0,1,3,2,4,5]).reshape(r s, r' s') *)
Definition pair_contraction (cx cy : core) : M R :=
  fun row col => let a := (row / rl cy)%nat in let b := (row mod rl cy)%nat in
                 let a' := (col / rr cy)%nat in let b' := (col mod rr cy)%nat in
                 sum (md cx) (fun k => g cx a k 0%nat a' * g cy b k 0%nat b').
(* running product over the spatial cores: a matrix indexed ((a0, b0), (a, b)); the code keeps the row (0, 0) *)
Fixpoint running (xs ys : list core) : M R :=
  match xs, ys with
  | cx :: xs', cy :: ys' => mmul (rr cx * rr cy) (pair_contraction cx cy) (running xs' ys')
  | _, _ => delta
  end.
(* reduced = reshape(row, [r, s]) . (x_last . y_last^T)^T ; xs/ys the spatial cores, xl/yl the last (snapshot) cores *)
Definition reduced_matrix (xs ys : list core) (xl yl : core) : M R :=
  fun a a' => sum (rl yl) (fun b => running xs ys 0%nat (a * rl yl + b)%nat * sum (md xl) (fun k => g xl a' k 0%nat 0%nat * g yl b k 0%nat 0%nat)).

(* exact modes, last core: y_last . x_last^T . W[:, ind] . diag(1 / lambda[ind]) ; recip is np.reciprocal *)
Definition exact_last (xl yl : core) (W : M R) (lam : nat -> R) (recip : R -> R) (ind : list nat) : core :=
  mkcore (rl yl) (length ind) 1 1
    (fun b q _ _ => sum (rl xl) (fun a => sum (md xl) (fun k => g yl b k 0%nat 0%nat * g xl a k 0%nat 0%nat) * W a (nth q ind 0%nat))
                    * recip (lam (nth q ind 0%nat))).
Definition standard_last (r : nat) (W : M R) (ind : list nat) : core :=
  mkcore r (length ind) 1 1 (fun a q _ _ => W a (nth q ind 0%nat)).
End Tdmd.
