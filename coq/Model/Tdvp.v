(* TDVP building blocks (solvers/ode.py __update_core_tdvp / __update_core_tdvp2site), generic in the scalar ring.
   After the QR / RQ / SVD split, the code conjugates the effective operator with the orthonormal factor
   padded by identities:   q~ = (q (x) I)  resp.  (I (x) q),   micro' = q~^H micro q~.
   proj_lead / proj_trail are those two conjugations written out on indices. *)
From Coq Require Import ZArith List Bool Arith.
Import ListNotations.
Require Import Ring Sums Matrix Core Chain.

Section Tdvp.
Context {R : cring}.
Open Scope cr_scope.
Notation cj := (cconj R).

(* rows/cols of micro indexed (l, t), l < lead, t < tail; Q : lead x k.  Result indexed (p, t), p < k *)
Definition proj_lead (Q : M R) (lead k tail : nat) (Mi : M R) : nat * nat * M R :=
  ((k * tail)%nat, (k * tail)%nat,
   fun row col =>
     let p := (row / tail)%nat in let t := (row mod tail)%nat in
     let p' := (col / tail)%nat in let t' := (col mod tail)%nat in
     sum lead (fun l => sum lead (fun l' => cj (Q l p) * Mi (l * tail + t)%nat (l' * tail + t')%nat * Q l' p'))).
(* rows/cols of micro indexed (h, t), h < head, t < trail; Q : k x trail.  Result indexed (h, p), p < k *)
Definition proj_trail (Q : M R) (head trail k : nat) (Mi : M R) : nat * nat * M R :=
  ((head * k)%nat, (head * k)%nat,
   fun row col =>
     let h := (row / k)%nat in let p := (row mod k)%nat in
     let h' := (col / k)%nat in let p' := (col mod k)%nat in
     sum trail (fun t => sum trail (fun t' => cj (Q p t) * Mi (h * trail + t)%nat (h' * trail + t')%nat * Q p' t'))).

(* the padded factors as the code builds them (tensordot with eye, transpose, reshape) *)
Definition pad_lead (Q : M R) (tail : nat) : M R :=       (* rows (l, t), cols (p, t') *)
  fun row col => if Nat.eqb (row mod tail) (col mod tail) then Q (row / tail)%nat (col / tail)%nat else 0.
Definition pad_trail (Q : M R) (k trail : nat) : M R :=   (* rows (h, t), cols (h', p) *)
  fun row col => if Nat.eqb (row / trail) (col / k) then Q (col mod k)%nat (row mod trail)%nat else 0.
Definition conjugate_by (n : nat) (P Mi : M R) : M R :=  (* P^H Mi P, P with n rows *)
  fun i j => sum n (fun a => sum n (fun b => cj (P a i) * Mi a b * P b j)).

(* bond matrix times next core / previous core times bond matrix *)
Definition absorb_left (k r2 : nat) (Rm : M R) (c : core R) : core R :=
  mkcore k (md c) (nd c) (rr c) (fun p x y b => sum r2 (fun b0 => Rm p b0 * g c b0 x y b)).
Definition absorb_right (r1 k : nat) (c : core R) (Rm : M R) : core R :=
  mkcore (rl c) (md c) (nd c) k (fun a x y p => sum r1 (fun a0 => g c a x y a0 * Rm a0 p)).
(* merged pair (column dimensions 1) as a vector indexed ((a, x), (y, b)) *)
Definition pair_vec (c1 c2 : core R) : nat -> R :=
  let n1 := md c1 in let n2 := md c2 in let r2 := rr c2 in
  fun idx => let b := (idx mod r2)%nat in let y := ((idx / r2) mod n2)%nat in
             let x := ((idx / (r2 * n2)) mod n1)%nat in let a := (idx / (r2 * n2 * n1))%nat in
             sum (rr c1) (fun m => g c1 a x 0%nat m * g c2 m y 0%nat b).
End Tdvp.

(* the drivers' outer loop: apply one step n times, record the state after each step *)
Fixpoint traj {S T : Type} (out : S -> T) (n : nat) (f : S -> S) (s : S) : list T * S :=
  match n with O => ([], s) | S n' => let s1 := f s in let '(l, s2) := traj out n' f s1 in (out s1 :: l, s2) end.
Fixpoint iterate {S : Type} (n : nat) (f : S -> S) (s : S) : S := match n with O => s | S n' => iterate n' f (f s) end.
