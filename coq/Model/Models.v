(* Bundled models (scikit_tt/models.py), generic in the scalar ring and in all sizes.
   signaling_cascade, exciton_chain are instances of the SLIM pattern (Model/Slim.v); ising has the same
   shape with all-ones vectors in place of identities; two_step_destruction is given core by core. *)
From Coq Require Import ZArith List Bool Arith.
Import ListNotations.
Require Import Ring Sums Matrix Core Chain Sweep Slim.

Section Models.
Context {R : cring}.
Open Scope cr_scope.
Notation core := (core R).
Notation site := (site R).

Fixpoint nr (k : nat) : R := match k with O => 0 | S k' => nr k' + 1 end.      (* np.arange *)
Definition eye_k_down : M R := fun x y => ind (Nat.eqb x (y + 1)).               (* np.eye(n, k=-1) *)
Definition eye_k_up : M R := fun x y => ind (Nat.eqb (x + 1) y).                 (* np.eye(n, k=1) *)
Definition up_arange : M R := fun x y => eye_k_up x y * nr y.                    (* np.eye(n, k=1).dot(np.diag(np.arange(n))) *)
Definition diag_arange : M R := fun x y => idm x y * nr y.

(* ---- signaling_cascade(d), cell size n (64 in the code), rates a (0.7), c (0.07), l y = y / (5 + y) ---- *)
Section Cascade.
Variables (n : nat) (a c : R) (l : nat -> R).
Definition s_mat : M R := fun x y => c * ((eye_k_up x y - idm x y) * nr y).
Definition s_mat_0 : M R := fun x y =>
  if Nat.eqb x (n - 1) && Nat.eqb y (n - 1) then - (c * nr (n - 1))            (* s_mat_0[-1, -1] = -0.07 * 63 *)
  else a * (eye_k_down x y - idm x y) + c * ((eye_k_up x y - idm x y) * nr y).
Definition l_mat : M R := fun x y => idm x y * l y.
Definition m_mat : M R := fun x y =>
  if Nat.eqb x (n - 1) && Nat.eqb y (n - 1) then 0 else eye_k_down x y - idm x y.   (* m_mat[-1, -1] = 0 *)
Definition casc_first : site := mksite n s_mat_0 1 (fun _ => l_mat) (fun _ _ _ => 0).
Definition casc_mid : site := mksite n s_mat 1 (fun _ => l_mat) (fun _ => m_mat).
Definition casc_last : site := mksite n s_mat 0 (fun _ _ _ => 0) (fun _ => m_mat).
Definition cascade_sites (d : nat) : list site := casc_first :: repeat casc_mid (d - 2) ++ [casc_last].
Definition signaling_cascade (d : nat) : list core := slim_pattern 0 (cascade_sites d).
End Cascade.

(* ---- exciton_chain(n_site, alpha, beta): cyclic pattern with two coupling channels ---- *)
Section Exciton.
Variables (alpha beta : R).
Definition raising : M R := fun x y => ind (Nat.eqb x 1 && Nat.eqb y 0).         (* np.diag([1], -1) *)
Definition lowering : M R := fun x y => ind (Nat.eqb x 0 && Nat.eqb y 1).
Definition qu_numbr : M R := fun x y => ind (Nat.eqb x 1 && Nat.eqb y 1).       (* raising @ lowering *)
Definition exc_site : site :=
  mksite 2 (fun x y => alpha * qu_numbr x y) 2
         (fun p x y => beta * (if Nat.eqb p 0 then raising x y else lowering x y))
         (fun p x y => if Nat.eqb p 0 then lowering x y else raising x y).
Definition exciton_chain (n_site : nat) : list core := slim_pattern 2 (repeat exc_site n_site).
End Exciton.

(* ---- ising(d, J, h): cores of shape (r, 2, 1, r'); sigma(0) = 1, sigma(1) = -1 ---- *)
Section VecPattern.
(* the pattern [S L I] / [[I 0 0] [M 0 0] [S L I]] / [I; M; S] with vectors S, L, M and the all-ones vector I *)
Variables (m : nat) (vS vL vM : nat -> R).
Definition vec_first : core := mkcore 1 m 1 3 (fun _ x _ b => if Nat.eqb b 0 then vS x else if Nat.eqb b 1 then vL x else if Nat.eqb b 2 then 1 else 0).
Definition vec_mid : core :=
  mkcore 3 m 1 3 (fun a x _ b =>
    if Nat.eqb a 0 then (if Nat.eqb b 0 then 1 else 0)
    else if Nat.eqb a 1 then (if Nat.eqb b 0 then vM x else 0)
    else if Nat.eqb a 2 then (if Nat.eqb b 0 then vS x else if Nat.eqb b 1 then vL x else if Nat.eqb b 2 then 1 else 0) else 0).
Definition vec_last : core := mkcore 3 m 1 1 (fun a x _ _ => if Nat.eqb a 0 then 1 else if Nat.eqb a 1 then vM x else if Nat.eqb a 2 then vS x else 0).
Definition vec_pattern (d : nat) : list core := vec_first :: repeat vec_mid (d - 2) ++ [vec_last].
(* the function it denotes: sum_i S(x_i) + sum_i L(x_i) M(x_{i+1}) *)
Fixpoint vec_energy (xs : list nat) : R :=
  match xs with
  | [] => 0
  | x :: xs' => vS x + match xs' with x' :: _ => vL x * vM x' | [] => 0 end + vec_energy xs'
  end.
End VecPattern.
Definition sigma (x : nat) : R := if Nat.eqb x 0 then 1 else - (1).
Definition ising (d : nat) (J h : R) : list core :=
  vec_pattern 2 (fun x => - h * sigma x) (fun x => - J * sigma x) sigma d.

(* ---- two_step_destruction(k1, k2, k3, m): cell sizes n0..n3 (2^m, 2^(m+1), 2^m, 2^m in the code) ---- *)
Section TwoStep.
Variables (k1 k2 k3 : R) (n0 n1 n2 n3 : nat).
Definition blk (tbl : nat -> nat -> M R) (r1 n r2 : nat) : core := mkcore r1 n n r2 (fun a x y b => tbl a b x y).
Definition zeroM : M R := fun _ _ => 0.
Definition ts_core0 : core := blk (fun a b =>
  if Nat.eqb b 0 then idm else if Nat.eqb b 1 then (fun x y => - k1 * diag_arange x y) else if Nat.eqb b 2 then (fun x y => k1 * up_arange x y) else zeroM) 1 n0 3.
Definition ts_core1 : core := blk (fun a b =>
  match a, b with
  | 0%nat, 0%nat => (fun x y => k2 * up_arange x y) | 0%nat, 1%nat => idm | 0%nat, 2%nat => (fun x y => - k2 * diag_arange x y)
  | 1%nat, 3%nat => diag_arange | 2%nat, 4%nat => up_arange | _, _ => zeroM
  end) 3 n1 5.
Definition down_abs (n : nat) : M R := fun x y => if Nat.eqb x (n - 1) && Nat.eqb y (n - 1) then 1 else eye_k_down x y.  (* eye(k=-1) with [-1,-1] = 1 *)
Definition ts_core2 : core := blk (fun a b =>
  match a, b with
  | 0%nat, 0%nat => up_arange | 1%nat, 1%nat => idm | 2%nat, 2%nat => diag_arange | 3%nat, 2%nat => idm | 4%nat, 2%nat => down_abs n2 | _, _ => zeroM
  end) 5 n2 3.
Definition ts_core3 : core := blk (fun a b =>
  match a, b with
  | 0%nat, 0%nat => down_abs n3 | 1%nat, 0%nat => (fun x y => k3 * up_arange x y - k3 * diag_arange x y) | 2%nat, 0%nat => idm | _, _ => zeroM
  end) 3 n3 1.
Definition two_step_destruction : list core := [ts_core0; ts_core1; ts_core2; ts_core3].
End TwoStep.
End Models.
