(* Pinned-tree behaviour (before fixes 79a1220, 4a08692, a7bdd48, 84e1440, bdbef8c, 6df3f9e): tensordot,
   concatenate, diag, squeeze and evp.als(number_ev>1) returned objects referencing the operands'
   buffers.  In the model that is the effect EShare; two steps later an untouched operand has changed. *)
From Coq Require Import List Arith Bool.
Import ListNotations.
Require Import SkTT.Heap.Model SkTT.Heap.Proofs.

Definition pinned_history : list effect := [EFresh [2; 1]; EShare [0; 1]; EInPlace 2 3].
Theorem tensordot_alias_refuted :
  let s1 := fold_left step [EFresh [2; 1]; EShare [0; 1]] init in
  let s2 := step s1 (EInPlace 2 3) in
  target (EInPlace 2 3) <> Some 0 /\ value s2 0 <> value s1 0.
Proof. split; [discriminate|vm_compute; discriminate]. Qed.
Print Assumptions tensordot_alias_refuted.
