(* Pinned-tree behaviour of TT.__add__ (before fix 5687496): the second summand's block is
   ASSIGNED, overwriting the first when both occupy the same rank block (order 1). *)
From Coq Require Import ZArith List Bool Arith.
Import ListNotations.
Require Import Ring Sums Matrix Core Chain TTOps.

Definition addcore_pinned {R : cring} (first last : bool) (c e : core R) : core R :=
  let R1 := if first then 1%nat else (rl c + rl e)%nat in
  let R2 := if last then 1%nat else (rr c + rr e)%nat in
  mkcore R1 (md c) (nd c) R2 (fun a x y b =>
    if in_blk (R1 - rl e) R1 a && in_blk (R2 - rr e) R2 b
    then g e (a - (R1 - rl e))%nat x y (b - (R2 - rr e))%nat
    else if in_blk 0 (rl c) a && in_blk 0 (rr c) b then g c a x y b else c0 R).
Fixpoint tadd_aux_pinned {R : cring} (first : bool) (cs es : list (core R)) : list (core R) :=
  match cs, es with
  | c :: cs', e :: es' => addcore_pinned first (is_nil cs') c e :: tadd_aux_pinned false cs' es'
  | _, _ => []
  end.
Definition tadd_pinned {R : cring} (cs es : list (core R)) := tadd_aux_pinned true cs es.

Definition vec1 (a b : Z) : core Zring := @mkcore Zring 1 2 1 1 (fun _ x _ _ => if Nat.eqb x 0 then a else b).

Theorem add_order1_refuted :
  exists (t u : list (core Zring)) xs ys, wf t /\ wf u /\ length t = 1%nat /\
    elem (tadd_pinned t u) xs ys <> (elem t xs ys + elem u xs ys)%Z.
Proof.
  exists [vec1 1 2], [vec1 10 20], [0%nat], [0%nat].
  repeat split; simpl; auto. vm_compute. discriminate.
Qed.
Print Assumptions add_order1_refuted.
