# Shared machinery of the /verif checks (see DESIGN.md sections 3 and 4).
#   * imports scikit_tt from /repo's working tree (never from site-packages)
#   * literal printer for the Coq `dat` type, sharded coqc evaluation of case files
#   * Coq build + Print Assumptions audit
#   * evidence / violation / known-finding bookkeeping
import os, sys, json, time, random, subprocess, hashlib, types, re, glob, fcntl, shutil, traceback

VERIF = os.path.dirname(os.path.dirname(os.path.abspath(__file__)))
REPO = os.environ.get('VERIF_REPO', '/repo')
COQ = os.path.join(VERIF, 'coq')
os.environ.setdefault('PYTHONHASHSEED', '0')
sys.dont_write_bytecode = True
# make sure the working tree is what gets imported
sys.path = [p for p in sys.path if 'scikit_tt' not in p]
sys.path.insert(0, REPO)
os.environ['SCIKIT_TT_VERIF'] = '1'
# matplotlib is imported by quantum_computation / utils plotting helpers: stub it (no repo change)
for _m in ('matplotlib', 'matplotlib.pyplot'):
    if _m not in sys.modules:
        try:
            __import__(_m)
        except Exception:
            sys.modules[_m] = types.ModuleType(_m)

import numpy as np

np.seterr(all='ignore')

# scipy 1.18.1 in this sandbox segfaults in scipy.linalg.solve(a, b, overwrite_a=True, ...) when `a` is F-contiguous and either
# complex or numerically singular (20 out of 20 trials; found by the C06 history fuzzer in the thorough tier: MALS micro systems).
# A crash would take the whole check down.  The overwrite flags only concern scratch arrays of the caller (never a TT core), so
# the harness forwards the call without them; results are identical.  Third-party defect, not a property of scikit_tt.
import scipy.linalg as _sl
_scipy_solve = _sl.solve


def _guarded_solve(a, b, *args, **kw):
    kw = dict(kw)
    kw['overwrite_a'] = False
    kw['overwrite_b'] = False
    return _scipy_solve(a, b, *args, **kw)


_sl.solve = _guarded_solve

# scipy 1.18's eig (called with check_finite=False by evp.als / tdmd) hands NaN / Inf matrices to LAPACK: gebal refuses them
# ("parameter number 3 had an illegal value"), and the routines that follow run with the uninitialised balancing output; after a
# few thousand such calls in one process the heap is corrupted ("corrupted size vs. prev_size", seen in the C06 thorough tier).
# The harness answers non-finite eigenproblems with LinAlgError instead (third-party limit, outside every property).
_scipy_eig = _sl.eig


def _guarded_eig(a, b=None, *args, **kw):
    import numpy as _np
    if not _np.all(_np.isfinite(_np.asarray(a))) or (b is not None and not _np.all(_np.isfinite(_np.asarray(b)))):
        raise _np.linalg.LinAlgError('harness guard: eig of a matrix with NaN / Inf entries')
    return _scipy_eig(a, b, *args, **kw)


_sl.eig = _guarded_eig


class CaseTimeout(Exception):
    """one generated case did not finish within the per-case limit (a non-terminating or diverging implementation)"""
    pass


_WD = {'active': False}


def with_watchdog(fn, limit):
    """wrap a case runner: SIGALRM after `limit` seconds raises CaseTimeout inside the case, which the caller's
    `except Exception` turns into a reported failure with the case seed as replay"""
    import signal
    import functools

    def handler(signum, frame):
        raise CaseTimeout('no result after %d s' % limit)

    @functools.wraps(fn)
    def wrapped(*a, **k):
        if _WD['active']:                      # nested call: the outer watchdog is in charge
            return fn(*a, **k)
        old = signal.signal(signal.SIGALRM, handler)
        _WD['active'] = True
        signal.alarm(limit)
        try:
            return fn(*a, **k)
        finally:
            signal.alarm(0)
            _WD['active'] = False
            signal.signal(signal.SIGALRM, old)
    wrapped._verif_watchdog = True
    return wrapped


def guard_expm(module):
    """scipy.sparse.linalg.expm_multiply does not terminate in useful time on non-finite or astronomically large input (met by the
    C06 fuzzer: krylov on a state the Lanczos recurrence breaks down on, 1/beta ~ 1e14).  Modules that imported it by name get a version that raises instead."""
    orig = module.expm_multiply
    if getattr(orig, '_verif_guard', False):
        return

    def safe(A, B, *a, **k):
        try:
            ok = bool(np.all(np.isfinite(np.asarray(A))) and np.all(np.isfinite(np.asarray(B))) and float(np.max(np.abs(np.asarray(A)), initial=0.0)) < 1e4)
        except Exception:
            ok = True
        if not ok:
            raise FloatingPointError('non-finite or huge (> 1e4) input to expm_multiply (harness guard: scipy needs about |A| steps)')
        return orig(A, B, *a, **k)
    safe._verif_guard = True
    module.expm_multiply = safe

ALLOWED_AXIOMS = {
    # declared by Coq's standard library; named in DESIGN.md section 7
    'ClassicalDedekindReals.sig_forall_dec', 'ClassicalDedekindReals.sig_not_dec',
    'FunctionalExtensionality.functional_extensionality_dep', 'Classical_Prop.classic',
}
FORBIDDEN = re.compile(r'\b(Admitted|admit|Axiom|Axioms|Parameter|Parameters|Conjecture|Abort All|bypass_check)\b|Unset\s+Guard|Unset\s+Positivity|Unset\s+Universe|type-in-type|Admit\s+Obligations')


# ------------------------------------------------------------------------------------------
# literals
# ------------------------------------------------------------------------------------------
def dat(x):
    """nested python lists / ints -> Coq `dat` literal"""
    if isinstance(x, (list, tuple)):
        return 'L[' + ';'.join(dat(y) for y in x) + ']'
    if isinstance(x, (bool, np.bool_)):
        return 'I 1' if x else 'I 0'
    xi = int(x)
    if xi != x:
        raise ValueError('non-integer in literal: %r' % (x,))
    return 'I %d' % xi if xi >= 0 else 'I(%d)' % xi


def zi(z):
    """scalar -> [re, im] exact ints"""
    z = complex(z)
    re_, im_ = z.real, z.imag
    if re_ != int(re_) or im_ != int(im_) or abs(re_) > 2 ** 50 or abs(im_) > 2 ** 50:
        raise InexactValue(z)
    return [int(re_), int(im_)]


class InexactValue(Exception):
    pass


class TieBroken(Exception):
    """the tie between model and source (translator / abstraction) no longer holds"""
    pass


def flat_zi(a):
    a = np.asarray(a)
    re_ = np.real(a).ravel()
    im_ = np.imag(a).ravel()
    if not (np.all(re_ == np.round(re_)) and np.all(im_ == np.round(im_))):
        raise InexactValue('array not integer valued')
    if a.size and max(np.max(np.abs(re_)), np.max(np.abs(im_))) > 2 ** 50:
        raise InexactValue('array too large for exact float arithmetic')
    out = []
    for r, i in zip(re_.astype(np.int64).tolist(), im_.astype(np.int64).tolist()):
        out.append(r)
        out.append(i)
    return out


def core_lit(c):
    c = np.asarray(c)
    assert c.ndim == 4, c.shape
    return [c.shape[0], c.shape[1], c.shape[2], c.shape[3], flat_zi(c)]


def cores_lit(cores):
    return [core_lit(c) for c in cores]


def mat_lit(a):
    a = np.asarray(a)
    assert a.ndim == 2
    return [a.shape[0], a.shape[1], flat_zi(a)]


def tt_out_lit(t):
    """result object: cores + the cached metadata"""
    return [cores_lit(t.cores), list(map(int, t.row_dims)), list(map(int, t.col_dims)), list(map(int, t.ranks))]


# ------------------------------------------------------------------------------------------
# random integer-valued tensor trains
# ------------------------------------------------------------------------------------------
def rint_array(rng, shape, lo=-3, hi=3, cplx=False, nonzero_im=False):
    n = int(np.prod(shape))
    re_ = np.array([rng.randint(lo, hi) for _ in range(n)], dtype=float).reshape(shape)
    if not cplx:
        return re_
    im_ = np.array([rng.randint(lo, hi) for _ in range(n)], dtype=float).reshape(shape)
    if nonzero_im and n and not np.any(im_):
        im_.flat[0] = 1.0
    return re_ + 1j * im_


def rand_shape(rng, order, op=True, maxdim=3, maxrank=3, vec_cols=False, bias_edges=True):
    def d():
        if bias_edges and rng.random() < 0.2:
            return 1
        return rng.randint(1, maxdim)
    rows = [d() for _ in range(order)]
    cols = [d() if op else 1 for _ in range(order)]
    ranks = [1] + [(1 if (bias_edges and rng.random() < 0.15) else rng.randint(1, maxrank)) for _ in range(order - 1)] + [1]
    return rows, cols, ranks


def rand_cores(rng, rows, cols, ranks, cplx=False, lo=-3, hi=3):
    return [rint_array(rng, (ranks[i], rows[i], cols[i], ranks[i + 1]), lo, hi, cplx, nonzero_im=cplx) for i in range(len(rows))]


def rand_float_cores(nrng, rows, cols, ranks, cplx=False):
    cs = []
    for i in range(len(rows)):
        a = nrng.standard_normal((ranks[i], rows[i], cols[i], ranks[i + 1]))
        if cplx:
            a = a + 1j * nrng.standard_normal(a.shape)
        cs.append(a)
    return cs


def dense(cores):
    """independent dense evaluation of a core list (einsum only; does not use the repository).
    Shape row_dims + col_dims (boundary ranks 1) or row_dims + col_dims + [r0, rd] otherwise."""
    r0 = cores[0].shape[0]
    acc = np.eye(r0, dtype=complex).reshape(1, 1, r0, r0)
    M = N = 1
    for c in cores:
        r, m, n, s = c.shape
        acc = np.einsum('MNar,rxys->MxNyas', acc, c).reshape(M * m, N * n, r0, s)
        M, N = M * m, N * n
    rows = [c.shape[1] for c in cores]
    cols = [c.shape[2] for c in cores]
    # (M, N) are row-major ravelled multi-indices
    if acc.shape[2] == 1 and acc.shape[3] == 1:
        out = acc.reshape(rows + cols)
    else:
        out = acc.reshape(rows + cols + [acc.shape[2], acc.shape[3]])
    if not any(np.iscomplexobj(c) for c in cores):
        out = np.real(out)
    return out


def consistent(t):
    """order, dims, ranks and cores of a TT object agree"""
    try:
        if t.order != len(t.cores):
            return False
        for i, c in enumerate(t.cores):
            if c.ndim != 4:
                return False
            if list(c.shape) != [t.ranks[i], t.row_dims[i], t.col_dims[i], t.ranks[i + 1]]:
                return False
        return len(t.ranks) == t.order + 1 and len(t.row_dims) == t.order and len(t.col_dims) == t.order
    except Exception:
        return False


def close(a, b, tol=1e-9):
    a = np.asarray(a)
    b = np.asarray(b)
    if a.shape != b.shape:
        return False
    if a.size == 0:
        return True
    if not (np.all(np.isfinite(a)) and np.all(np.isfinite(b))):
        return False
    scale = max(1.0, float(np.max(np.abs(b))))
    return float(np.max(np.abs(a - b))) <= tol * scale


def jsonable(x):
    if isinstance(x, np.ndarray):
        if np.iscomplexobj(x):
            return {'shape': list(x.shape), 're': np.real(x).ravel().tolist(), 'im': np.imag(x).ravel().tolist()}
        return {'shape': list(x.shape), 'data': x.ravel().tolist()}
    if isinstance(x, (np.integer,)):
        return int(x)
    if isinstance(x, (np.floating,)):
        return float(x)
    if isinstance(x, (complex, np.complexfloating)):
        return {'re': float(np.real(x)), 'im': float(np.imag(x))}
    if isinstance(x, (list, tuple)):
        return [jsonable(y) for y in x]
    if isinstance(x, dict):
        return {str(k): jsonable(v) for k, v in x.items()}
    if isinstance(x, (str, int, float, bool)) or x is None:
        return x
    return repr(x)


def from_jsonable(o):
    if isinstance(o, dict) and 'shape' in o:
        if 're' in o:
            return (np.array(o['re']) + 1j * np.array(o['im'])).reshape(o['shape'])
        return np.array(o['data'], dtype=float).reshape(o['shape'])
    if isinstance(o, dict) and set(o.keys()) == {'re', 'im'}:
        return complex(o['re'], o['im'])
    if isinstance(o, list):
        return [from_jsonable(x) for x in o]
    return o


# ------------------------------------------------------------------------------------------
# Coq
# ------------------------------------------------------------------------------------------
def _run(cmd, cwd=None, timeout=1800):
    p = subprocess.run(cmd, cwd=cwd, stdout=subprocess.PIPE, stderr=subprocess.STDOUT, timeout=timeout, text=True)
    return p.returncode, p.stdout


def coq_make(targets=None):
    """full (.vo) incremental build (of the given targets, default: everything); serialised across
    concurrent checks.  Building only the property's own closure keeps a broken obligation of one
    property from breaking the others."""
    lock = open(os.path.join(COQ, '.build.lock'), 'w')
    fcntl.flock(lock, fcntl.LOCK_EX)
    try:
        if not os.path.exists(os.path.join(COQ, 'Makefile')) or \
                os.path.getmtime(os.path.join(COQ, 'Makefile')) < os.path.getmtime(os.path.join(COQ, '_CoqProject')):
            rc, out = _run(['coq_makefile', '-f', '_CoqProject', '-o', 'Makefile'], cwd=COQ)
            if rc:
                return False, out
        cmd = ['timeout', '3000', 'make', '-j16'] + list(targets or [])
        rc, out = _run(cmd, cwd=COQ, timeout=3100)
        return rc == 0, out
    finally:
        fcntl.flock(lock, fcntl.LOCK_UN)
        lock.close()


def coq_audit(prop_files):
    """re-compile the Props files, collecting the output of every `Print Assumptions`;
    returns (obligations, discharged, details, problems)"""
    obligations = 0
    discharged = 0
    details = []
    problems = []
    for pf in prop_files:
        path = os.path.join(COQ, pf)
        src = open(path).read()
        if FORBIDDEN.search(re.sub(r'\(\*.*?\*\)', '', src, flags=re.S)):
            problems.append('%s: forbidden vernacular' % pf)
        names = re.findall(r'^\s*Print Assumptions\s+([\w\.\']+)\s*\.', src, flags=re.M)
        thms = re.findall(r'^\s*(?:Theorem|Lemma|Corollary)\s+([\w\']+)', src, flags=re.M)
        obligations += len(thms)
        missing = [t for t in thms if t not in names]
        if missing:
            problems.append('%s: no Print Assumptions for %s' % (pf, missing))
        rc, out = _run(['timeout', '900', 'coqc', '-R', '.', 'SkTT', pf], cwd=COQ, timeout=1000)
        if rc != 0:
            problems.append('%s: does not compile: %s' % (pf, out[-800:]))
            continue
        chunks = re.split(r'^(?=Closed under the global context|Axioms:)', out, flags=re.M)
        chunks = [c for c in chunks if c.startswith('Closed under') or c.startswith('Axioms:')]
        if len(chunks) != len(names):
            problems.append('%s: %d Print Assumptions outputs for %d requests' % (pf, len(chunks), len(names)))
            continue
        for nm, ch in zip(names, chunks):
            if ch.startswith('Closed under'):
                axs = []
            else:
                axs = re.findall(r'^([A-Za-z_][\w\.\']*)\s*:', ch[len('Axioms:'):], flags=re.M)
            bad = [a for a in axs if a not in ALLOWED_AXIOMS]
            details.append({'theorem': nm, 'axioms': axs})
            if bad:
                problems.append('%s: theorem %s depends on non-allowed axioms %s' % (pf, nm, bad))
            elif nm in thms:
                discharged += 1
    # whole-development scan for forbidden vernacular (models, proofs, generated files)
    for vf in glob.glob(os.path.join(COQ, '**', '*.v'), recursive=True):
        if '/Cases/' in vf:
            continue
        s = re.sub(r'\(\*.*?\*\)', '', open(vf).read(), flags=re.S)
        m = FORBIDDEN.search(s)
        if m:
            problems.append('%s: forbidden vernacular %r' % (os.path.relpath(vf, COQ), m.group(0)))
    return obligations, discharged, details, problems


def coq_eval(prop, requires, fn, cases, shard=150, jobs=16, timeout=1500):
    """cases: list of python literals (nested lists).  Evaluates `map fn cases` inside Coq with
    vm_compute and returns the list of integer codes (one per case)."""
    if not cases:
        return []
    d = os.path.join(COQ, 'Cases', prop)
    shutil.rmtree(d, ignore_errors=True)
    os.makedirs(d)
    files = []
    for k in range(0, len(cases), shard):
        fn_ = os.path.join(d, 's%04d.v' % (k // shard))
        with open(fn_, 'w') as f:
            f.write('From Coq Require Import ZArith List. Import ListNotations.\n')
            f.write('Require Import SkTT.Model.Data %s.\nOpen Scope Z_scope.\n' % ' '.join(requires))
            f.write('Definition cases : list dat := [\n' + ';\n'.join(dat(c) for c in cases[k:k + shard]) + '].\n')
            f.write('Eval vm_compute in (map %s cases).\n' % fn)
        files.append(fn_)
    procs = []
    results = {}
    pending = list(files)
    running = []
    while pending or running:
        while pending and len(running) < jobs:
            f = pending.pop(0)
            p = subprocess.Popen(['timeout', str(timeout), 'coqc', '-R', COQ, 'SkTT', '-o', f[:-2] + '.vo', f],
                                 stdout=subprocess.PIPE, stderr=subprocess.STDOUT, text=True, cwd=d)
            running.append((f, p))
        f, p = running.pop(0)
        out, _ = p.communicate()
        results[f] = (p.returncode, out)
    codes = []
    for k, f in enumerate(files):
        rc, out = results[f]
        n = len(cases[k * shard:(k + 1) * shard])
        m = re.search(r'=\s*\[(.*?)\]\s*:\s*list Z', out, flags=re.S)
        if rc != 0 or not m:
            sys.stderr.write('coq evaluation failed for %s:\n%s\n' % (f, out[-2000:]))
            codes.extend([-1] * n)
            continue
        got = [int(x) for x in re.findall(r'-?\d+', m.group(1))]
        if len(got) != n:
            codes.extend([-1] * n)
        else:
            codes.extend(got)
    shutil.rmtree(d, ignore_errors=True)
    return codes


def coq_show(prop, requires, expr_fn, case):
    """print the model's own output for one case (used for replays)"""
    d = os.path.join(COQ, 'Cases', prop + '_show')
    shutil.rmtree(d, ignore_errors=True)
    os.makedirs(d)
    f = os.path.join(d, 'show.v')
    with open(f, 'w') as fh:
        fh.write('From Coq Require Import ZArith List. Import ListNotations.\n')
        fh.write('Require Import SkTT.Model.Data %s.\nOpen Scope Z_scope.\n' % ' '.join(requires))
        fh.write('Eval vm_compute in (%s (%s)).\n' % (expr_fn, dat(case)))
    rc, out = _run(['timeout', '600', 'coqc', '-R', COQ, 'SkTT', f], cwd=d)
    shutil.rmtree(d, ignore_errors=True)
    return out[-4000:]


# ------------------------------------------------------------------------------------------
# a check run
# ------------------------------------------------------------------------------------------
class Ctx:
    def __init__(self, prop, tier, seed):
        self.prop = prop
        self.tier = tier
        self.seed = seed
        self.t0 = time.time()
        self.rng = random.Random((hash_int(prop) * 1000003 + seed) & 0xffffffff)
        self.evaluations = 0
        self.nontrivial = set()
        self.samples = []
        self.violations = []          # (replay_path, found_input)
        self.known_hits = []
        self.notes = []
        self.dist = {}
        self.obligations = 0
        self.discharged = 0
        self.theorems = []
        self.assumptions = []
        self.corr_cases = 0
        self.corr_disagree = 0
        self.side_cases = 0
        self.skipped_inexact = 0
        kf = os.path.join(VERIF, 'known_findings.json')
        self.known = json.load(open(kf)).get('findings', []) if os.path.exists(kf) else []
        self.reported_known = set()

    # --- bookkeeping
    def count(self, key, n=1):
        self.dist[key] = self.dist.get(key, 0) + n

    def sample(self, s, limit=6):
        if len(self.samples) < limit:
            self.samples.append(jsonable(s))

    def nontriv(self, key):
        self.nontrivial.add(key)

    def sub_rng(self, tag):
        return random.Random((hash_int(self.prop + ':' + tag) * 1000003 + self.seed) & 0xffffffff)

    # --- findings
    def known_match(self, tags):
        """tags: dict describing the failing case; a known finding matches when all of its
        `match` keys are equal to the case's tags"""
        for k in self.known:
            if k.get('property') != self.prop or k.get('status') != 'known':
                continue
            m = k.get('match', {})
            if m and all(tags.get(a) == b for a, b in m.items()):
                return k
        return None

    def fail(self, what, replay, tags=None, found_input=True):
        """a failing input (or a broken obligation).  Listed known finding -> KNOWN-FINDING line;
        otherwise a violation with a replay file."""
        tags = tags or {}
        k = self.known_match(tags)
        if k is not None:
            if k['id'] not in self.reported_known:
                self.reported_known.add(k['id'])
                print('KNOWN-FINDING: property=%s %s' % (self.prop, k['what']))
            return
        # at most two replays per distinct tag set (keeps the report readable)
        key = json.dumps(tags, sort_keys=True, default=str)
        self._per_tag = getattr(self, '_per_tag', {})
        self._per_tag[key] = self._per_tag.get(key, 0) + 1
        if self._per_tag[key] > 2:
            self.violations.append((None, found_input, what))
            return
        body = {'property': self.prop, 'what': what, 'tags': tags, 'found_input': found_input,
                'replay': jsonable(replay), 'seed': self.seed, 'tier': self.tier}
        h = hashlib.sha1(json.dumps(body, sort_keys=True, default=str).encode()).hexdigest()[:10]
        path = os.path.join('replays', '%s-%s.json' % (self.prop, h))
        os.makedirs(os.path.join(VERIF, 'replays'), exist_ok=True)
        with open(os.path.join(VERIF, path), 'w') as f:
            json.dump(body, f, indent=1, default=str)
        self.violations.append((path, found_input, what))

    def finish(self, level='proof', checker_cmd='', trusted=None, explanation='', extra=None):
        wall = time.time() - self.t0
        # prefer a violation with a failing input when reporting
        seen = set()
        for path, found, what in self.violations:
            if path is None or path in seen or len(seen) >= 20:
                continue
            seen.add(path)
            print('VIOLATION property=%s replay=%s%s' % (self.prop, path, '' if found else ' no-failing-input-found'))
        cov = {
            'obligations': self.obligations, 'discharged': self.discharged,
            'checker_cmd': checker_cmd,
            'trusted_base': trusted or [],
            'evaluations': max(1, self.evaluations),
            'distinct_nontrivial': len(self.nontrivial),
            'rule': explanation,
            'samples': self.samples or ['(none)'],
            'theorems': self.theorems,
            'correspondence_cases': self.corr_cases,
            'correspondence_disagreements': self.corr_disagree,
            'side_check_cases': self.side_cases,
            'skipped_inexact': self.skipped_inexact,
            'distribution': self.dist,
            'known_findings_reported': sorted(self.reported_known),
            'notes': self.notes,
        }
        if extra:
            cov.update(extra)
        self.assumptions = list(trusted or []) + self.assumptions
        for name, d in sorted(getattr(self, 'monitor', {}).items()):
            self.assumptions.append('oracle hypothesis monitored on the real LAPACK answers - %s: %d calls, %d misses' % (name, d['calls'], d['misses']))
        ev = {'property_id': self.prop, 'tier': self.tier, 'seed': self.seed, 'level': level,
              'coverage': cov, 'assumptions': self.assumptions, 'wall_s': round(wall, 2),
              'violations': len(seen)}
        os.makedirs(os.path.join(VERIF, 'evidence'), exist_ok=True)
        with open(os.path.join(VERIF, 'evidence', '%s.json' % self.prop), 'w') as f:
            json.dump(ev, f, indent=1, default=str)
        return 1 if self.violations else 0


def hash_int(s):
    return int(hashlib.sha1(s.encode()).hexdigest()[:8], 16)


# ------------------------------------------------------------------------------------------
# standard stages
# ------------------------------------------------------------------------------------------
def stage_proof(ctx, prop_files, extra_targets=()):
    targets = [f[:-2] + '.vo' for f in prop_files] + list(extra_targets)
    ok, out = coq_make(targets)
    if not ok:
        ctx.notes.append('coq build failed')
        ctx.fail('Coq development no longer builds: ' + out[-1500:], {'stage': 'build', 'log': out[-3000:]},
                 tags={'stage': 'build'}, found_input=False)
        return False
    ob, di, det, problems = coq_audit(prop_files)
    ctx.obligations += ob
    ctx.discharged += di
    ctx.theorems.extend(det)
    if ctx.tier == 'thorough':
        # independent re-check of the compiled property files and everything they depend on
        mods = ['SkTT.' + f[:-2].replace('/', '.') for f in prop_files]
        t0 = time.time()
        rc, out = _run(['timeout', '3000', 'coqchk', '-silent', '-o', '-R', '.', 'SkTT'] + mods, cwd=COQ, timeout=3100)
        m = re.search(r'\* Axioms:(.*?)\n\s*\n\* Constants', out, flags=re.S)
        axs = [a.strip() for a in (m.group(1).split('\n') if m else []) if a.strip() and a.strip() != '<none>']
        ctx.notes.append('coqchk -o %s: rc %d, %.0fs, axioms of the loaded libraries: %s' % (' '.join(mods), rc, time.time() - t0, axs or 'none'))
        if rc != 0 or 'type-in-type: <none>' not in out or 'unsafe (co)fixpoints: <none>' not in out or 'positivity is assumed: <none>' not in out:
            problems.append('coqchk rejected %s: %s' % (mods, out[-600:]))
    for p in problems:
        ctx.fail('proof obligation: ' + p, {'stage': 'audit', 'problem': p}, tags={'stage': 'audit'}, found_input=False)
    return not problems


def stage_correspondence(ctx, name, requires, fn, cases, metas, on_disagree=None, show_fn=None):
    """cases: literals; metas: parallel list of dicts (description for replay/evidence).
    on_disagree(meta) -> True if a failing input for the PROPERTY was found (and reported)."""
    t = time.time()
    codes = coq_eval(ctx.prop + '_' + name, requires, fn, cases)
    ctx.corr_cases += len(cases)
    ctx.evaluations += len(cases)
    bad = [(i, c) for i, c in enumerate(codes) if c != 0]
    ctx.count('corr:%s' % name, len(cases))
    ctx.notes.append('correspondence %s: %d cases, %d disagreements, %.1fs' % (name, len(cases), len(bad), time.time() - t))
    reported = 0
    for i, c in bad:
        ctx.corr_disagree += 1
        meta = metas[i]
        found = False
        if on_disagree is not None:
            try:
                found = bool(on_disagree(meta))
            except Exception as e:  # search crashed: report the broken tie
                ctx.notes.append('search raised %r' % (e,))
        if not found and reported < 3:
            reported += 1
            model_out = coq_show(ctx.prop, requires, show_fn, cases[i]) if (show_fn and c != -1) else ''
            ctx.fail('correspondence %s: model and implementation differ (code %d)' % (name, c),
                     {'stage': 'correspondence', 'name': name, 'code': c, 'case': meta, 'literal': cases[i] if len(str(cases[i])) < 20000 else '(large)',
                      'model_output': model_out},
                     tags=dict(meta.get('tags', {}), stage='correspondence', name=name), found_input=False)
    return bad
