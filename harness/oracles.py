# Oracle tapes: LAPACK-level routines replaced, for the duration of ONE call into scikit_tt, by
# functions that log their input and return an answer of our choosing (DESIGN.md 3.1).
#   kind 'arb'  : arbitrary integer-valued answer of an admissible shape (exercises the plumbing)
#   kind 'triv' : spec-satisfying exact answer (U=A,s=1,V=I / Q=A,R=I ...)
#   kind 'real' : the real routine; answer recorded
# The same logged (input, answer) pairs are handed to the Coq model, which must request the same
# inputs and, given the same answers, produce the same outputs.
import contextlib
import numpy as np
import scipy.linalg
import numpy.linalg

_REAL = {
    'svd': scipy.linalg.svd, 'qr': scipy.linalg.qr, 'rq': scipy.linalg.rq, 'solve': scipy.linalg.solve,
    'lu_factor': scipy.linalg.lu_factor, 'lu_solve': scipy.linalg.lu_solve, 'eig': scipy.linalg.eig, 'eigh': scipy.linalg.eigh,
    'np_solve': numpy.linalg.solve, 'np_eig': numpy.linalg.eig, 'np_svd': numpy.linalg.svd, 'np_inv': numpy.linalg.inv,
    'lstsq': scipy.linalg.lstsq, 'np_lstsq': numpy.linalg.lstsq,
}


class Tape:
    def __init__(self, rng, kind='arb', cplx=False, lo=-2, hi=2):
        self.rng = rng
        self.kind = kind
        self.cplx = cplx
        self.lo, self.hi = lo, hi
        self.calls = []       # (name, inputs(list of arrays), outputs(list of arrays))

    def _rint(self, shape):
        n = int(np.prod(shape))
        a = np.array([float(self.rng.randint(self.lo, self.hi)) for _ in range(n)]).reshape(shape)
        if self.cplx:
            a = a + 1j * np.array([float(self.rng.randint(self.lo, self.hi)) for _ in range(n)]).reshape(shape)
        return a

    # ---- svd (thin) -------------------------------------------------------------------
    def svd(self, a, full_matrices=True, compute_uv=True, **kw):
        a = np.array(a, copy=True)
        m, n = a.shape
        if full_matrices:
            # full SVD (evp.__update_core): only arbitrary answers are used
            k = min(m, n)
            u = self._rint((m, m))
            v = self._rint((n, n))
            s = np.array([float(2 ** e) for e in sorted([self.rng.randint(0, 3) for _ in range(k)], reverse=True)])
            self.calls.append(('svd', [a], [u, s, v]))
            return u.copy(), s.copy(), v.copy()
        if self.kind == 'real':
            u, s, v = _REAL['svd'](a, full_matrices=False)
        elif self.kind == 'arb':
            k = self.rng.randint(1, min(m, n))
            u = self._rint((m, k))
            v = self._rint((k, n))
            # positive powers of two; mostly decreasing, occasionally with ties/inversions
            exps = sorted([self.rng.randint(0, 4) for _ in range(k)], reverse=True)
            if self.rng.random() < 0.15:
                self.rng.shuffle(exps)
            s = np.array([float(2 ** e) for e in exps])
        else:
            k = min(m, n)
            if m >= n:
                u, v = a.copy(), np.eye(n)
            else:
                u, v = np.eye(m), a.copy()
            s = np.ones(k)
        self.calls.append(('svd', [a], [u, s, v]))
        return u.copy(), s.copy(), v.copy()

    # ---- qr / rq (economic) -----------------------------------------------------------------
    def qr(self, a, overwrite_a=False, lwork=None, mode='full', pivoting=False, check_finite=True):
        a = np.array(a, copy=True)
        m, n = a.shape
        if mode != 'economic' or pivoting:
            raise RuntimeError('tape qr: only economic, unpivoted')
        k = min(m, n)
        if self.kind == 'real':
            q, r = _REAL['qr'](a, mode='economic')
        elif self.kind == 'arb':
            q, r = self._rint((m, k)), self._rint((k, n))
        else:
            if m >= n:
                q, r = a.copy(), np.eye(n)
            else:
                q, r = np.eye(m), a.copy()
        self.calls.append(('qr', [a], [q, r]))
        return q.copy(), r.copy()

    def rq(self, a, overwrite_a=False, lwork=None, mode='full', check_finite=True):
        a = np.array(a, copy=True)
        m, n = a.shape
        if mode != 'economic':
            raise RuntimeError('tape rq: only economic')
        k = min(m, n)
        if self.kind == 'real':
            r, q = _REAL['rq'](a, mode='economic')
        elif self.kind == 'arb':
            r, q = self._rint((m, k)), self._rint((k, n))
        else:
            if m <= n:
                r, q = np.eye(m), a.copy()
            else:
                r, q = a.copy(), np.eye(n)
        self.calls.append(('rq', [a], [r, q]))
        return r.copy(), q.copy()

    # ---- eigenvalue problems (arbitrary answers: distinct real integer eigenvalues) ------------
    def _distinct(self, k, n):
        pool = list(range(-n - 2, n + 3))
        self.rng.shuffle(pool)
        return sorted(pool[:k])

    def eig(self, a, b=None, left=False, right=True, overwrite_a=False, overwrite_b=False, check_finite=True, homogeneous_eigvals=False):
        a = np.array(a, copy=True)
        n = a.shape[0]
        w = np.array(self._distinct(n, n), dtype=float)
        self.rng.shuffle(w)
        v = self._rint((n, n))
        ins = [a] + ([np.array(b, copy=True)] if b is not None else [])
        self.calls.append(('eig', ins, [w, v]))
        return w.astype(complex), v.copy()

    def eigh(self, a, b=None, subset_by_index=None, **kw):
        a = np.array(a, copy=True)
        n = a.shape[0]
        lo, hi = subset_by_index
        k = hi - lo + 1
        w = np.array(self._distinct(k, n), dtype=float)
        v = self._rint((n, k))
        ins = [a] + ([np.array(b, copy=True)] if b is not None else [])
        self.calls.append(('eigh', ins, [w, v]))
        return w.copy(), v.copy()

    # ---- linear solves -----------------------------------------------------------------------
    def _solve_answer(self, a, b):
        if self.kind == 'real':
            return _REAL['np_solve'](a, b)
        if self.kind == 'arb':
            return self._rint(b.shape)
        return a.dot(b)          # not a solution, but uses every entry of a and b exactly

    def solve(self, a, b, *args, **kw):
        a = np.array(a, copy=True)
        b = np.array(b, copy=True)
        x = self._solve_answer(a, b)
        self.calls.append(('solve', [a, b], [x]))
        return x.copy()

    def lu_factor(self, a, overwrite_a=False, check_finite=True):
        a = np.array(a, copy=True)
        return ('LU', a)

    def lu_solve(self, lu_and_piv, b, trans=0, overwrite_b=False, check_finite=True):
        tag, a = lu_and_piv
        b = np.array(b, copy=True)
        x = self._solve_answer(a, b)
        self.calls.append(('solve', [a, b], [x]))
        return x.copy()


@contextlib.contextmanager
def patched(tape, names=('svd', 'qr', 'rq', 'solve', 'lu_factor', 'lu_solve')):
    saved = {}
    try:
        for n in names:
            if n.startswith('np_'):
                saved[n] = getattr(numpy.linalg, n[3:])
                setattr(numpy.linalg, n[3:], getattr(tape, n))
            else:
                saved[n] = getattr(scipy.linalg, n)
                setattr(scipy.linalg, n, getattr(tape, n))
        if 'solve' in names:
            saved['np_solve_'] = numpy.linalg.solve
            numpy.linalg.solve = tape.solve
        yield tape
    finally:
        for n, f in saved.items():
            if n == 'np_solve_':
                numpy.linalg.solve = f
            elif n.startswith('np_'):
                setattr(numpy.linalg, n[3:], f)
            else:
                setattr(scipy.linalg, n, f)


def svd_tape_lit(calls):
    """tape of svd calls -> literal [[A], k, U, s, V] per call"""
    from harness import lib
    out = []
    for name, ins, outs in calls:
        assert name == 'svd'
        u, s, v = outs
        out.append([lib.mat_lit(ins[0]), len(s), lib.mat_lit(u), lib.flat_zi(s), lib.mat_lit(v)])
    return out


# ------------------------------------------------------------------------------------------------------------------
# Run-time monitoring of the oracle hypotheses (thorough tier): the REAL routines are wrapped, their answers are tested
# against the specifications the theorems assume, and the counts go into the evidence notes.  A miss is not a violation
# of scikit_tt; it says that on this platform the hypothesis of a theorem was not met for that call.
# ------------------------------------------------------------------------------------------------------------------
MONITOR = {}


def _note(name, ok):
    d = MONITOR.setdefault(name, {'calls': 0, 'misses': 0})
    d['calls'] += 1
    if not ok:
        d['misses'] += 1


def _nrm(x):
    x = np.asarray(x)
    return float(np.max(np.abs(x))) if x.size else 0.0


def monitor_install():
    if getattr(scipy.linalg.svd, '_verif_monitor', False):
        return
    real_svd, real_qr, real_rq, real_eigh = scipy.linalg.svd, scipy.linalg.qr, scipy.linalg.rq, scipy.linalg.eigh

    def svd(a, *args, **kw):
        a0 = np.array(a, copy=True)
        out = real_svd(a, *args, **kw)
        try:
            if kw.get('compute_uv', True) and not kw.get('full_matrices', True) and np.all(np.isfinite(a0)):
                u, s, v = out
                tol = 1e-9 * (1 + _nrm(a0))
                ok = (_nrm((u * s) @ v - a0) <= tol * max(a0.shape) and _nrm(u.conj().T @ u - np.eye(u.shape[1])) <= 1e-9
                      and _nrm(v @ v.conj().T - np.eye(v.shape[0])) <= 1e-9 and bool(np.all(np.diff(s) <= 1e-12 * (1 + s[:1].sum()))) and bool(np.all(s >= 0)))
                _note('svd: A = U S V, U^H U = I, V V^H = I, s decreasing', ok)
        except Exception:
            pass
        return out

    def qr(a, *args, **kw):
        a0 = np.array(a, copy=True)
        out = real_qr(a, *args, **kw)
        try:
            if kw.get('mode') == 'economic' and not kw.get('pivoting', False) and np.all(np.isfinite(a0)):
                q, r = out
                ok = _nrm(q @ r - a0) <= 1e-9 * (1 + _nrm(a0)) * max(a0.shape) and _nrm(q.conj().T @ q - np.eye(q.shape[1])) <= 1e-9
                _note('qr: A = Q R, Q^H Q = I', ok)
        except Exception:
            pass
        return out

    def rq(a, *args, **kw):
        a0 = np.array(a, copy=True)
        out = real_rq(a, *args, **kw)
        try:
            if kw.get('mode') == 'economic' and np.all(np.isfinite(a0)):
                r, q = out
                ok = _nrm(r @ q - a0) <= 1e-9 * (1 + _nrm(a0)) * max(a0.shape) and _nrm(q @ q.conj().T - np.eye(q.shape[0])) <= 1e-9
                _note('rq: A = R Q, Q Q^H = I', ok)
        except Exception:
            pass
        return out

    def eigh(a, b=None, *args, **kw):
        a0 = np.array(a, copy=True)
        b0 = None if b is None else np.array(b, copy=True)
        out = real_eigh(a, b, *args, **kw)
        try:
            if not kw.get('eigvals_only', False) and np.all(np.isfinite(a0)):
                w, v = out
                rhs = v * w if b0 is None else (b0 @ v) * w
                _note('eigh: A V = B V diag(w)', _nrm(a0 @ v - rhs) <= 1e-7 * (1 + _nrm(a0)) * (1 + _nrm(v)) * a0.shape[0])
        except Exception:
            pass
        return out

    for f in (svd, qr, rq, eigh):
        f._verif_monitor = True
    scipy.linalg.svd, scipy.linalg.qr, scipy.linalg.rq, scipy.linalg.eigh = svd, qr, rq, eigh
