# Fail-closed translator: coefficient pairs and stage sequences of the four splitting integrators in
# scikit_tt/solvers/ode.py  ->  coq/Gen/SplittingCoeffs.v.
# For each scheme: the list of propagator sets (coefficient pairs [even, odd] passed to
# __splitting_propagators) and the per-step sequence of stages (which set, even or odd bonds).
import ast, os, sys
from fractions import Fraction

SCHEMES = ['lie_splitting', 'strang_splitting', 'yoshida_splitting', 'kahan_li_splitting']


class TranslateError(Exception):
    pass


def is_cuberoot2(n):   # 2 ** (1 / 3)
    return (isinstance(n, ast.BinOp) and isinstance(n.op, ast.Pow) and isinstance(n.left, ast.Constant) and n.left.value == 2
            and isinstance(n.right, ast.BinOp) and isinstance(n.right.op, ast.Div)
            and isinstance(n.right.left, ast.Constant) and n.right.left.value == 1
            and isinstance(n.right.right, ast.Constant) and n.right.right.value == 3)


def coef(n, src_seg):
    """-> (coq expression over R with free variable c standing for 2^(1/3), uses_c, exact Fraction or None)"""
    if is_cuberoot2(n):
        return 'c', True, None
    if isinstance(n, ast.Constant) and isinstance(n.value, (int, float)) and not isinstance(n.value, bool):
        # exact decimal from the SOURCE TEXT (a float literal would lose digits)
        txt = ast.get_source_segment(src_seg, n)
        f = Fraction(txt)
        return ('(%d / %d)' % (f.numerator, f.denominator)) if f.denominator != 1 else str(f.numerator), False, f
    if isinstance(n, ast.UnaryOp) and isinstance(n.op, ast.USub):
        e, u, f = coef(n.operand, src_seg)
        return '(- %s)' % e, u, (None if f is None else -f)
    if isinstance(n, ast.BinOp) and type(n.op) in (ast.Add, ast.Sub, ast.Mult, ast.Div):
        a, ua, fa = coef(n.left, src_seg)
        b, ub, fb = coef(n.right, src_seg)
        op = {ast.Add: '+', ast.Sub: '-', ast.Mult: '*', ast.Div: '/'}[type(n.op)]
        f = None
        if fa is not None and fb is not None:
            f = {'+': fa + fb, '-': fa - fb, '*': fa * fb, '/': (fa / fb if fb != 0 else None)}[op]
        return '(%s %s %s)' % (a, op, b), ua or ub, f
    raise TranslateError('coefficient expression ' + ast.dump(n))


def is_prop_call(n):
    return isinstance(n, ast.Call) and isinstance(n.func, ast.Name) and n.func.id == '__splitting_propagators' and len(n.args) == 7


def target_name(t):
    if isinstance(t, ast.Name):
        return t.id
    if isinstance(t, ast.Subscript) and isinstance(t.value, ast.Name) and isinstance(t.slice, ast.Constant):
        return '%s[%d]' % (t.value.id, t.slice.value)
    raise TranslateError('assignment target ' + ast.dump(t))


def stage_call(s):
    """tmp = __splitting_stage(K.., np.arange(start, order, 2), tmp, ...) -> (set name or ('K', 'j'), start)"""
    if not (isinstance(s, ast.Assign) and len(s.targets) == 1 and isinstance(s.targets[0], ast.Name) and s.targets[0].id == 'tmp'):
        return None
    c = s.value
    if not (isinstance(c, ast.Call) and isinstance(c.func, ast.Name) and c.func.id == '__splitting_stage'):
        return None
    k, idx = c.args[0], c.args[1]
    if not (isinstance(idx, ast.Call) and isinstance(idx.func, ast.Attribute) and idx.func.attr == 'arange' and len(idx.args) == 3
            and isinstance(idx.args[0], ast.Constant) and idx.args[0].value in (0, 1)
            and isinstance(idx.args[1], ast.Name) and idx.args[1].id == 'order'
            and isinstance(idx.args[2], ast.Constant) and idx.args[2].value == 2):
        raise TranslateError('stage index set ' + ast.dump(idx))
    if isinstance(k, ast.Name):
        key = k.id
    elif isinstance(k, ast.Subscript) and isinstance(k.value, ast.Name) and isinstance(k.slice, ast.Name):
        key = (k.value.id, k.slice.id)
    else:
        raise TranslateError('propagator argument ' + ast.dump(k))
    return key, idx.args[0].value


def loop_range(n):
    """range(a) / range(a, b, -1) with constants -> list of ints"""
    if isinstance(n, ast.Call) and isinstance(n.func, ast.Name) and n.func.id == 'range':
        vals = []
        for a in n.args:
            if isinstance(a, ast.Constant):
                vals.append(a.value)
            elif isinstance(a, ast.UnaryOp) and isinstance(a.op, ast.USub) and isinstance(a.operand, ast.Constant):
                vals.append(-a.operand.value)
            else:
                return None
        return list(range(*vals))
    return None


def translate_fn(fn, src):
    sets = {}          # name -> (even expr, odd expr, uses_c, even frac, odd frac)
    stages = []        # list of (set name, start)

    def reg(name, call):
        lst = call.args[6]
        if not (isinstance(lst, ast.List) and len(lst.elts) == 2):
            raise TranslateError('coefficient list ' + ast.dump(lst))
        e, ue, fe = coef(lst.elts[0], src)
        o, uo, fo = coef(lst.elts[1], src)
        sets[name] = (e, o, ue or uo, fe, fo)

    step_loop = None
    for s in fn.body:
        if isinstance(s, ast.Assign) and is_prop_call(s.value):
            reg(target_name(s.targets[0]), s.value)
        elif isinstance(s, ast.If) and len(s.body) == 1 and isinstance(s.body[0], ast.Assign) and is_prop_call(s.body[0].value):
            reg(target_name(s.body[0].targets[0]), s.body[0].value)        # "if K is None: K = ..."
        elif isinstance(s, ast.For) and isinstance(s.iter, ast.Call) and isinstance(s.iter.func, ast.Name) and s.iter.func.id == 'range' \
                and len(s.iter.args) == 1 and isinstance(s.iter.args[0], ast.Name) and s.iter.args[0].id == 'number_of_steps':
            step_loop = s
    if step_loop is None or not sets:
        raise TranslateError('%s: no step loop / propagators found' % fn.name)
    for s in step_loop.body:
        sc = stage_call(s)
        if sc is not None:
            key, start = sc
            if isinstance(key, tuple):
                raise TranslateError('indexed propagator outside an inner loop')
            stages.append((key, start))
        elif isinstance(s, ast.For):
            rng = loop_range(s.iter)
            if rng is None or not isinstance(s.target, ast.Name):
                raise TranslateError('inner loop ' + ast.dump(s.iter))
            for j in rng:
                for t in s.body:
                    sc = stage_call(t)
                    if sc is None:
                        raise TranslateError('inner loop body ' + ast.dump(t))
                    key, start = sc
                    if not (isinstance(key, tuple) and key[1] == s.target.id):
                        raise TranslateError('inner loop propagator')
                    stages.append(('%s[%d]' % (key[0], j), start))
    for name, _ in stages:
        if name not in sets:
            raise TranslateError('%s: stage uses unknown propagator set %s' % (fn.name, name))
    return sets, stages


def translate(src):
    mod = ast.parse(src)
    out = {}
    for fn in mod.body:
        if isinstance(fn, ast.FunctionDef) and fn.name in SCHEMES:
            out[fn.name] = translate_fn(fn, src)
    missing = [s for s in SCHEMES if s not in out]
    if missing:
        raise TranslateError('schemes not found: %s' % missing)
    return out


def qlit(f):
    return '(%d # %d)' % (f.numerator, f.denominator)


def emit(tr):
    L = ['(* GENERATED by harness/translators/c10_gen.py from scikit_tt/solvers/ode.py -- do not edit *)',
         'From Coq Require Import Reals QArith List.', 'Import ListNotations.', '']
    for sch in SCHEMES:
        sets, stages = tr[sch]
        names = sorted(sets, key=lambda n: (len(n), n))
        nm = sch.replace('_splitting', '')
        uses_c = any(sets[n][2] for n in names)
        if uses_c:
            L.append('(* propagator sets as functions of c = 2^(1/3): (coefficient on even bonds, coefficient on odd bonds) *)')
            L.append('Definition %s_sets (c : R) : list (R * R) := [%s]%%R.' % (nm, '; '.join('(%s, %s)' % (sets[n][0], sets[n][1]) for n in names)))
        else:
            L.append('Definition %s_sets : list (Q * Q) := [%s].' % (nm, '; '.join('(%s, %s)' % (qlit(sets[n][3]), qlit(sets[n][4])) for n in names)))
        L.append('(* one step: (index of the propagator set, true = even bonds 0,2,.. / false = odd bonds 1,3,..) *)')
        L.append('Definition %s_stages : list (nat * bool) := [%s].' % (nm, '; '.join('(%d%%nat, %s)' % (names.index(k), 'true' if st == 0 else 'false') for k, st in stages)))
        L.append('')
    return '\n'.join(L)


def generate(repo, outpath):
    src = open(os.path.join(repo, 'scikit_tt', 'solvers', 'ode.py')).read()
    tr = translate(src)
    text = emit(tr)
    old = open(outpath).read() if os.path.exists(outpath) else None
    if old != text:
        with open(outpath, 'w') as f:
            f.write(text)
    return tr, old != text


if __name__ == '__main__':
    generate(sys.argv[1] if len(sys.argv) > 1 else '/repo', sys.argv[2] if len(sys.argv) > 2 else '/dev/stdout')
