# Fail-closed translator: the bodies of __call__/partial/partial2 of the one-coordinate basis-function
# families in scikit_tt/data_driven/transform.py  ->  Coq real functions (coq/Gen/BasisFunctions.v).
# Unknown syntax raises TranslateError (the check then reports the broken obligation).
import ast, os, sys
from fractions import Fraction

FAMS = ['ConstantFunction', 'Identity', 'Monomial', 'Legendre', 'Sin', 'Cos', 'GaussFunction', 'PeriodicGaussFunction']
NAT_PARAMS = {'exponent'}


class TranslateError(Exception):
    pass


def is_x(n):  # t[self.index]
    return (isinstance(n, ast.Subscript) and isinstance(n.value, ast.Name) and n.value.id == 't'
            and isinstance(n.slice, ast.Attribute) and isinstance(n.slice.value, ast.Name)
            and n.slice.value.id == 'self' and n.slice.attr == 'index')


def is_self_attr(n, name=None):
    return (isinstance(n, ast.Attribute) and isinstance(n.value, ast.Name) and n.value.id == 'self'
            and (name is None or n.attr == name))


def const(v):
    if isinstance(v, bool) or not isinstance(v, (int, float)):
        raise TranslateError('constant %r' % (v,))
    f = Fraction(str(v))
    if f.denominator == 1:
        return '%d' % f.numerator if f.numerator >= 0 else '(- %d)' % (-f.numerator)
    s = '(%d / %d)' % (abs(f.numerator), f.denominator)
    return s if f >= 0 else '(- %s)' % s


def is_legendre_call(n):
    return (isinstance(n, ast.Call) and isinstance(n.func, ast.Name) and n.func.id == 'legendre'
            and len(n.args) == 1 and is_self_attr(n.args[0], 'degree') and not n.keywords)


def nat_expr(n, params):
    """exponent expressions: self.exponent, self.exponent - k, literal k"""
    if isinstance(n, ast.Constant) and isinstance(n.value, int) and not isinstance(n.value, bool) and n.value >= 0:
        return '%d' % n.value
    if is_self_attr(n) and n.attr in NAT_PARAMS:
        params.add(n.attr)
        return n.attr
    if isinstance(n, ast.BinOp) and isinstance(n.op, ast.Sub) and is_self_attr(n.left) and n.left.attr in NAT_PARAMS \
            and isinstance(n.right, ast.Constant) and isinstance(n.right.value, int):
        params.add(n.left.attr)
        return '(%s - %d)' % (n.left.attr, n.right.value)
    raise TranslateError('exponent ' + ast.dump(n))


def expr(n, params):
    if is_x(n):
        return 'x'
    if isinstance(n, ast.Constant):
        return const(n.value)
    if is_self_attr(n):
        params.add(n.attr)
        if n.attr in NAT_PARAMS:
            return '(INR %s)' % n.attr
        if n.attr in ('index', 'dimension', 'degree'):
            raise TranslateError('unexpected use of self.%s' % n.attr)
        return n.attr
    if isinstance(n, ast.UnaryOp) and isinstance(n.op, ast.USub):
        return '(- %s)' % expr(n.operand, params)
    if isinstance(n, ast.BinOp):
        if isinstance(n.op, ast.Pow):
            return '(%s ^ %s)' % (expr(n.left, params), nat_expr(n.right, params))
        op = {ast.Add: '+', ast.Sub: '-', ast.Mult: '*', ast.Div: '/'}.get(type(n.op))
        if op is None:
            raise TranslateError(ast.dump(n))
        return '(%s %s %s)' % (expr(n.left, params), op, expr(n.right, params))
    if isinstance(n, ast.Call) and not n.keywords:
        f = n.func
        if isinstance(f, ast.Attribute) and isinstance(f.value, ast.Name) and f.value.id == 'np' \
                and f.attr in ('sin', 'cos', 'exp') and len(n.args) == 1:
            return '(%s %s)' % (f.attr, expr(n.args[0], params))
        # legendre(self.degree)(arg)
        if is_legendre_call(f) and len(n.args) == 1:
            params.add('p')
            return '(peval p %s)' % expr(n.args[0], params)
        # (coef * legendre(self.degree).deriv(k))(arg)
        if isinstance(f, ast.BinOp) and isinstance(f.op, ast.Mult) and isinstance(f.right, ast.Call) \
                and isinstance(f.right.func, ast.Attribute) and f.right.func.attr == 'deriv' \
                and is_legendre_call(f.right.func.value) and len(f.right.args) == 1 \
                and isinstance(f.right.args[0], ast.Constant) and isinstance(f.right.args[0].value, int) and len(n.args) == 1:
            k = f.right.args[0].value
            params.add('p')
            pd = 'p'
            for _ in range(k):
                pd = '(pderiv %s)' % pd
            return '(%s * (peval %s %s))' % (expr(f.left, params), pd, expr(n.args[0], params))
        # legval(arg, legder([0]*self.degree + [1], k)): k-th derivative of P_degree, evaluated in the Legendre basis
        # (numpy.polynomial.legendre; same mathematical object as peval (pderiv^k p), p the monomial coefficients)
        if isinstance(f, ast.Name) and f.id == 'legval' and len(n.args) == 2 and is_legder_basis(n.args[1]):
            k = n.args[1].args[1].value
            params.add('p')
            pd = 'p'
            for _ in range(k):
                pd = '(pderiv %s)' % pd
            return '(peval %s %s)' % (pd, expr(n.args[0], params))
    raise TranslateError(ast.dump(n))


def is_legder_basis(n):
    """legder([0]*self.degree + [1], k) with a literal k >= 0"""
    if not (isinstance(n, ast.Call) and isinstance(n.func, ast.Name) and n.func.id == 'legder' and len(n.args) == 2
            and not n.keywords and isinstance(n.args[1], ast.Constant) and isinstance(n.args[1].value, int)
            and not isinstance(n.args[1].value, bool) and n.args[1].value >= 0):
        return False
    c = n.args[0]
    def lit_list(x, v):
        return (isinstance(x, ast.List) and len(x.elts) == 1 and isinstance(x.elts[0], ast.Constant)
                and type(x.elts[0].value) is int and x.elts[0].value == v)
    return (isinstance(c, ast.BinOp) and isinstance(c.op, ast.Add) and lit_list(c.right, 1)
            and isinstance(c.left, ast.BinOp) and isinstance(c.left.op, ast.Mult) and lit_list(c.left.left, 0)
            and is_self_attr(c.left.right, 'degree'))


def is_check(s):
    return (isinstance(s, ast.Expr) and isinstance(s.value, ast.Call) and isinstance(s.value.func, ast.Attribute)
            and is_self_attr(s.value.func) and s.value.func.attr.startswith('check_'))


def is_dir_test(t, names):
    """direction == self.index  /  direction1 == self.index and direction2 == self.index"""
    def one(c, nm):
        return (isinstance(c, ast.Compare) and len(c.ops) == 1 and isinstance(c.ops[0], ast.Eq)
                and isinstance(c.left, ast.Name) and c.left.id == nm and is_self_attr(c.comparators[0], 'index'))
    if len(names) == 1:
        return one(t, names[0])
    return (isinstance(t, ast.BoolOp) and isinstance(t.op, ast.And) and len(t.values) == 2
            and one(t.values[0], names[0]) and one(t.values[1], names[1]))


def guard(t, params):
    """self.exponent > k"""
    if isinstance(t, ast.Compare) and len(t.ops) == 1 and isinstance(t.ops[0], ast.Gt) and is_self_attr(t.left) \
            and t.left.attr in NAT_PARAMS and isinstance(t.comparators[0], ast.Constant) and isinstance(t.comparators[0].value, int):
        params.add(t.left.attr)
        return '(Nat.ltb %d %s)' % (t.comparators[0].value, t.left.attr)
    raise TranslateError('guard ' + ast.dump(t))


def ret_value(s, params):
    if isinstance(s, ast.Return) and s.value is not None:
        return expr(s.value, params)
    raise TranslateError(ast.dump(s))


def translate_call(fn, params):
    body = [s for s in fn.body if not is_check(s) and not (isinstance(s, ast.Expr) and isinstance(s.value, ast.Constant))]
    if len(body) == 1 and isinstance(body[0], ast.Return):
        return ret_value(body[0], params)
    # ConstantFunction: scalar / array forms of the constant
    if len(body) == 1 and isinstance(body[0], ast.If):
        s = body[0]
        t = s.test
        if isinstance(t, ast.Call) and isinstance(t.func, ast.Attribute) and t.func.attr == 'isscalar' and len(s.body) == 1 \
                and isinstance(s.body[0], ast.Return) and isinstance(s.body[0].value, ast.Constant) and len(s.orelse) == 1 \
                and isinstance(s.orelse[0], ast.Return) and isinstance(s.orelse[0].value, ast.Call) \
                and isinstance(s.orelse[0].value.func, ast.Attribute) and s.orelse[0].value.func.attr == 'ones':
            if float(s.body[0].value.value) != 1.0:
                raise TranslateError('constant function: scalar branch is not np.ones-compatible')
            return const(s.body[0].value.value)
    raise TranslateError('__call__ body: ' + ast.dump(fn))


def translate_partial(fn, params, dirnames):
    """returns (on_index_expr or None if the method raises, off_index_expr)"""
    body = [s for s in fn.body if not is_check(s) and not (isinstance(s, ast.Expr) and isinstance(s.value, ast.Constant))]
    if len(body) == 1 and isinstance(body[0], ast.Raise):
        return None, None
    if len(body) == 1 and isinstance(body[0], ast.Return):
        v = ret_value(body[0], params)
        return v, v
    if len(body) == 2 and isinstance(body[0], ast.If) and isinstance(body[1], ast.Return) and not body[0].orelse \
            and is_dir_test(body[0].test, dirnames):
        off = ret_value(body[1], params)
        inner = body[0].body
        if len(inner) == 1 and isinstance(inner[0], ast.Return):
            return ret_value(inner[0], params), off
        if len(inner) == 1 and isinstance(inner[0], ast.If) and not inner[0].orelse and len(inner[0].body) == 1:
            g = guard(inner[0].test, params)
            return '(if %s then %s else %s)' % (g, ret_value(inner[0].body[0], params), off), off
    raise TranslateError('partial body: ' + ast.dump(fn))


def translate(src):
    mod = ast.parse(src)
    out = {}
    for cls in mod.body:
        if isinstance(cls, ast.ClassDef) and cls.name in FAMS:
            if not (len(cls.bases) == 1 and isinstance(cls.bases[0], ast.Name) and cls.bases[0].id == 'OneCoordinateFunction'):
                raise TranslateError('%s: unexpected base class' % cls.name)
            fns = {f.name: f for f in cls.body if isinstance(f, ast.FunctionDef)}
            params = set()
            call = translate_call(fns['__call__'], params)
            p1, p1off = translate_partial(fns['partial'], params, ['direction'])
            p2, p2off = translate_partial(fns['partial2'], params, ['direction1', 'direction2'])
            out[cls.name] = dict(params=sorted(params), call=call, partial=p1, partial_off=p1off, partial2=p2, partial2_off=p2off)
    missing = [f for f in FAMS if f not in out]
    if missing:
        raise TranslateError('families not found: %s' % missing)
    return out


def emit(tr):
    L = ['(* GENERATED by harness/translators/c14_gen.py from scikit_tt/data_driven/transform.py -- do not edit *)',
         'From Coq Require Import Reals List.', 'Require Import SkTT.Alg.Poly.', 'Open Scope R_scope.', '']
    for fam in FAMS:
        d = tr[fam]
        binder = ' '.join('(%s : %s)' % (p, 'nat' if p in NAT_PARAMS else ('list R' if p == 'p' else 'R')) for p in d['params'])
        for key in ('call', 'partial', 'partial_off', 'partial2', 'partial2_off'):
            if d[key] is None:
                continue
            L.append('Definition %s_%s %s (x : R) : R := %s.' % (fam, key, binder, d[key]))
        L.append('')
    return '\n'.join(L)


def generate(repo, outpath):
    src = open(os.path.join(repo, 'scikit_tt', 'data_driven', 'transform.py')).read()
    tr = translate(src)
    text = emit(tr)
    old = open(outpath).read() if os.path.exists(outpath) else None
    if old != text:
        with open(outpath, 'w') as f:
            f.write(text)
    return tr, old != text


if __name__ == '__main__':
    tr, changed = generate(sys.argv[1] if len(sys.argv) > 1 else '/repo', sys.argv[2] if len(sys.argv) > 2 else '/dev/stdout')
