# C15 — transformed data tensors equal the tensor of basis-function products
import numpy as np, random, itertools
from harness import lib
from harness.lib import dense, close, consistent

import scikit_tt.data_driven.transform as tdt
from scikit_tt.tensor_train import TT

PROP_FILES = ['Props/C15.v']
REQ = ['SkTT.Check.C15']


def rand_fun(rng, d, mode, indicator=False):
    """a random basis function of d coordinates; integer-exact families only in 'int' mode"""
    i = rng.randrange(d)
    if indicator and rng.random() < 0.15:       # integer-valued family (returns an int array)
        a = rng.choice([-2, -1, 0]) if mode == 'int' else rng.uniform(-1.5, 0.5)
        return tdt.IndicatorFunction(i, a, a + (rng.randint(1, 3) if mode == 'int' else rng.uniform(0.3, 2)))
    fams = ['const', 'id', 'mono'] if mode == 'int' else ['const', 'id', 'mono', 'sin', 'cos', 'gauss', 'legendre', 'pgauss']
    f = rng.choice(fams)
    if f == 'const':
        return tdt.ConstantFunction(i)
    if f == 'id':
        return tdt.Identity(i)
    if f == 'mono':
        return tdt.Monomial(i, rng.randint(0, 3), prefactor=rng.choice([1, 2, -1]) if mode == 'int' else rng.uniform(-2, 2))
    if f == 'sin':
        return tdt.Sin(i, rng.uniform(-2, 2))
    if f == 'cos':
        return tdt.Cos(i, rng.uniform(-2, 2))
    if f == 'gauss':
        return tdt.GaussFunction(i, rng.uniform(-1, 1), rng.uniform(0.3, 2))
    if f == 'legendre':
        return tdt.Legendre(i, rng.randint(0, 4), domain=rng.uniform(0.5, 2))
    return tdt.PeriodicGaussFunction(i, rng.uniform(-1, 1), rng.uniform(0.3, 2))


def rand_fun1(rng, mode):
    """a function of a scalar argument (coordinate_major / function_major call phi(x[i, j]))"""
    class Scal:
        def __init__(self, f):
            self.f = f

        def __call__(self, s):
            return self.f(np.array([s]))
    return Scal(rand_fun(rng, 1, mode))


def rand_x(rng, d, m, mode):
    if mode == 'int':
        return np.array([[float(rng.randint(-2, 2)) for _ in range(m)] for _ in range(d)])
    return np.array([[rng.uniform(-1.5, 1.5) for _ in range(m)] for _ in range(d)])


def table_lit(tab):      # tab: n x m array
    return [tab.shape[0], lib.flat_zi(tab)]


def gen_case(rng, mode):
    kind = rng.choice(['bd', 'cm', 'fm', 'gram', 'single'])
    d = rng.randint(1, 3)
    m = rng.randint(1, 4)
    x = rand_x(rng, d, m, mode)
    ityped = rng.random() < 0.2                 # integer-valued points handed over as an int64 array
    if ityped:
        xi = np.rint(x).astype(np.int64)
        x = xi.astype(float)                    # the reference tables are computed from the float copy
    if kind in ('bd', 'single', 'gram'):
        p = rng.randint(1, 4)
        phi = [[rand_fun(rng, d, mode, indicator=True) for _ in range(rng.randint(1, 3))] for _ in range(p)]
        if rng.random() < 0.15:         # a mode made of overlapping indicator functions only (integer-valued tables)
            c0 = rng.randrange(d)
            phi[rng.randrange(p)] = [tdt.IndicatorFunction(c0, -2 + k_, 1 + k_) for k_ in range(rng.randint(2, 3))]
        tabs = [np.array([[float(phi[i][k](x[:, j])) for j in range(m)] for k in range(len(phi[i]))]) for i in range(p)]
        xarg = xi if ityped else x
        if kind == 'bd':
            return dict(kind=kind, desc=dict(kind=kind, d=d, m=m, p=p, n=[len(l) for l in phi]), impl=lambda: tdt.basis_decomposition(xarg, phi), tabs=tabs, m=m,
                        lit=lambda res: [1, [m, [table_lit(t) for t in tabs]], lib.tt_out_lit(res)])
        if kind == 'single':
            i = rng.randrange(p)
            return dict(kind=kind, desc=dict(kind=kind, d=d, m=m, p=p, i=i), impl=lambda: tdt.basis_decomposition(xarg, phi, single_core=i), tabs=tabs, m=m, i=i,
                        lit=lambda res: [2, [m, [table_lit(t) for t in tabs], i], lib.core_lit(res)])
        m2 = rng.randint(1, 4)
        x2 = rand_x(rng, d, m2, mode)
        tabs2 = [np.array([[float(phi[i][k](x2[:, j])) for j in range(m2)] for k in range(len(phi[i]))]) for i in range(p)]
        return dict(kind=kind, desc=dict(kind=kind, d=d, m=m, m2=m2, p=p), impl=lambda: tdt.gram(xarg, x2, phi), tabs=tabs, tabs2=tabs2, m=m, m2=m2,
                    lit=lambda res: [3, [m, m2, [table_lit(t) for t in tabs], [table_lit(t) for t in tabs2]], lib.mat_lit(res)])
    p = rng.randint(1, 3)
    phi = [rand_fun1(rng, mode) for _ in range(p)]
    sc = rng.choice([None, None, 'x'])
    xarg = xi if ityped else x
    if kind == 'cm':
        tabs = [np.array([[float(phi[k](x[i, j])) for j in range(m)] for k in range(p)]) for i in range(d)]
        if sc is None:
            return dict(kind=kind, desc=dict(kind=kind, d=d, m=m, p=p), impl=lambda: tdt.coordinate_major(xarg, phi), tabs=tabs, m=m,
                        lit=lambda res: [1, [m, [table_lit(t) for t in tabs]], lib.tt_out_lit(res)])
        i = rng.randrange(d)
        return dict(kind='cm-single', desc=dict(kind=kind, d=d, m=m, p=p, i=i), impl=lambda: tdt.coordinate_major(xarg, phi, single_core=i), tabs=tabs, m=m, i=i,
                    lit=lambda res: [2, [m, [table_lit(t) for t in tabs], i], lib.core_lit(res)])
    add_one = rng.random() < 0.5
    tabs = []
    for i in range(p):
        rows = ([[1.0] * m] if add_one else []) + [[float(phi[i](x[k, j])) for j in range(m)] for k in range(d)]
        tabs.append(np.array(rows))
    if sc is None:
        return dict(kind='fm' + ('+1' if add_one else ''), desc=dict(kind=kind, d=d, m=m, p=p, add_one=add_one), impl=lambda: tdt.function_major(xarg, phi, add_one=add_one), tabs=tabs, m=m,
                    lit=lambda res: [1, [m, [table_lit(t) for t in tabs]], lib.tt_out_lit(res)])
    i = rng.randrange(p)
    return dict(kind='fm-single', desc=dict(kind=kind, d=d, m=m, p=p, add_one=add_one, i=i), impl=lambda: tdt.function_major(xarg, phi, add_one=add_one, single_core=i), tabs=tabs, m=m, i=i,
                lit=lambda res: [2, [m, [table_lit(t) for t in tabs], i], lib.core_lit(res)])


def judge(case):
    """independent explicit-loop oracle"""
    try:
        res = case['impl']()
    except Exception as e:
        return 'raised %r' % (e,), None
    tabs, m = case['tabs'], case['m']
    kind = case['kind']
    if kind == 'gram':
        exp = np.zeros((m, case['m2']))
        for j1 in range(m):
            for j2 in range(case['m2']):
                s = 0.0
                for ks in itertools.product(*[range(t.shape[0]) for t in tabs]):
                    s += np.prod([tabs[i][k, j1] for i, k in enumerate(ks)]) * np.prod([case['tabs2'][i][k, j2] for i, k in enumerate(ks)])
                exp[j1, j2] = s
        return (None if close(res, exp, 1e-9) else 'gram differs from the sum over multi-indices'), res
    if kind.endswith('single') or kind == 'single':
        i = case['i']
        n = tabs[i].shape[0]
        exp = np.zeros((1 if i == 0 else m, n, 1, m))
        for j in range(m):
            exp[0 if i == 0 else j, :, 0, j] = tabs[i][:, j]
        return (None if (np.asarray(res).shape == exp.shape and close(res, exp, 1e-12)) else 'single core differs'), res
    if not isinstance(res, TT) or not consistent(res):
        return 'result is not a consistent TT', res
    dims = [t.shape[0] for t in tabs] + [m]
    exp = np.zeros(dims)
    for ks in itertools.product(*[range(t.shape[0]) for t in tabs]):
        for j in range(m):
            exp[ks + (j,)] = np.prod([tabs[i][k, j] for i, k in enumerate(ks)])
    got = dense(res.cores).reshape(dims)
    return (None if close(got, exp, 1e-9) else 'entry differs from the product of basis functions: max err %.2e' % float(np.max(np.abs(got - exp)))), res


def clear_ranks(b, lo=1e-12, hi=1e-3):
    """every unfolding of the dense tensor has a clear numerical rank: each singular value is either above hi*s0 or below lo*s0
    (cross approximation inverts sub-matrices of the unfoldings: its rounding error is eps times their condition number, and a
    singular value in the gap makes 'the true rank' itself ambiguous)"""
    sh = b.shape
    for k in range(1, len(sh)):
        sv = np.linalg.svd(b.reshape(int(np.prod(sh[:k])), -1), compute_uv=False)
        if sv[0] == 0 or any(lo * sv[0] <= v <= hi * sv[0] for v in sv):
            return False
    return True


def f26_witness():
    """known finding F26, fixed input: three modes, the FIRST function of the last mode is an indicator that vanishes on five of
    six snapshots; with the two functions of that mode listed in the other order hocur is exact"""
    x = np.array([[-1.0, -0.6, -0.2, 0.2, 0.7, 1.1]])
    phi = [[tdt.Identity(0), tdt.Sin(0, 1.0), tdt.Cos(0, 1.0)], [tdt.ConstantFunction(0), tdt.Identity(0)],
           [tdt.IndicatorFunction(0, 0.5, 1.0), tdt.ConstantFunction(0)]]
    try:
        b = dense(tdt.basis_decomposition(x, phi).cores)
        a = dense(tdt.hocur(x, phi, ranks=6, repeats=2, multiplier=10, progress=False).cores)
    except Exception as e:
        return 'raised %r' % (e,)
    if a.shape != b.shape or not close(a, b, 1e-6):
        return 'hocur with ranks >= true ranks does not reproduce the tensor (first function of a later mode vanishes on snapshots)'
    return None


def hocur_case(seed, dup=False):
    rng = random.Random(seed)
    np.random.seed(seed % (2 ** 31))
    d = rng.randint(1, 3)
    m = rng.randint(2, 6)
    p = rng.randint(1, 3)
    x = rand_x(rng, d, m, 'float')
    phi = [[rand_fun(rng, d, 'float', indicator=True) for _ in range(rng.randint(1, 3))] for _ in range(p)]
    if rng.random() < 0.15:                     # integer-valued points typed int64
        x = np.rint(x).astype(np.int64)
    if dup:          # targeted stream: an exactly repeated function in one mode and one function of large magnitude
        i = rng.randrange(p)
        phi[i].insert(rng.randrange(len(phi[i]) + 1), rng.choice(phi[i]))
        j = rng.randrange(p)
        phi[j][rng.randrange(len(phi[j]))] = tdt.Legendre(rng.randrange(d), rng.randint(2, 4), domain=rng.uniform(0.4, 0.8))
    desc = dict(kind='hocur', d=d, m=m, p=p, n=[len(l) for l in phi], dup=dup)
    # F26: the initial column sets of hocur contain only the FIRST function of every mode k >= 2; if that function vanishes
    # on some snapshot (IndicatorFunction, a zero of Identity/Monomial/Sin at an integer point), rank is lost for good
    xf = np.asarray(x, dtype=float)
    desc['first_function_vanishes'] = bool(p >= 3 and any(any(float(phi[k][0](xf[:, j])) == 0.0 for j in range(m)) for k in range(2, p)))
    try:
        ref = tdt.basis_decomposition(x.astype(float), phi)
        b = dense(ref.cores)
        if not clear_ranks(b.reshape([len(l) for l in phi] + [m])):
            return None, dict(desc, skipped='ill-conditioned')
        rk = m
        if rng.random() < 0.4:          # per-bond list of maximum ranks; the caller's list must survive the call
            rk = [1] + [m + rng.randint(0, 2) for _ in range(p)] + [1]
        rk_keep = list(rk) if isinstance(rk, list) else rk
        mult = rng.choice([1, 2, 10, 10])
        if any(float(f(xf[:, j])) == 0.0 for l in phi for f in l for j in range(m)):
            mult = 10           # sparse tables (indicator functions, zeros at integer points): few candidate columns lose rank (cf. F26)
        desc['multiplier'] = mult
        t = tdt.hocur(x, phi, ranks=rk, repeats=rng.randint(1, 2), multiplier=mult, progress=False)
        if isinstance(rk, list) and rk != rk_keep:
            return 'hocur modified the list handed in as ranks: %s -> %s' % (rk_keep, rk), desc
    except Exception as e:
        return 'raised %r' % (e,), desc
    a = dense(t.cores)
    if a.shape != b.shape:
        return 'shape %s vs %s' % (a.shape, b.shape), desc
    if not close(a, b, 1e-6):
        return 'hocur with ranks >= true ranks does not reproduce the tensor: rel err %.2e' % (np.max(np.abs(a - b)) / max(1, np.max(np.abs(b)))), desc
    return None, desc


HOCUR_CORPUS = [(97303485180985, True), (238777432856892, True), (161680001258152, True), (85207489838058, True),      # F24
                (160215742132725, False), (33188307809340, False), (109722824127410, False)]                             # F25


def run(ctx):
    quick = ctx.tier == 'quick'
    lib.stage_proof(ctx, PROP_FILES, ['Check/C15.vo'])
    n = 250 if quick else 6000
    cases, metas = [], []
    for k in range(n):
        cs = ctx.rng.getrandbits(48)
        case = gen_case(random.Random(cs), 'int')
        try:
            res = case['impl']()
            lit = case['lit'](res)
        except lib.InexactValue:
            ctx.skipped_inexact += 1
            continue
        except Exception as e:
            ctx.fail('%s raised %r' % (case['kind'], e), {'gen': 'gen_case', 'case_seed': cs, 'mode': 'int', 'case': case['desc']}, tags={'op': case['kind']})
            continue
        ctx.count('op:' + case['kind'])
        ctx.nontriv((case['kind'], case['desc'].get('m') == 1, case['desc'].get('p') == 1))
        if k < 2:
            ctx.sample({'kind': case['kind'], 'literal': str(lit)[:300]})
        cases.append(lit)
        metas.append({'case_seed': cs, 'desc': {'gen': 'gen_case', 'case_seed': cs, 'mode': 'int', 'case': case['desc']}, 'tags': {'op': case['kind']}})

    def search(meta):
        case = gen_case(random.Random(meta['case_seed']), 'int')
        msg, _ = judge(case)
        if msg:
            ctx.fail('%s: %s' % (case['kind'], msg), {'gen': 'gen_case', 'case_seed': meta['case_seed'], 'mode': 'int', 'case': case['desc']}, tags={'op': case['kind']})
            return True
        return False
    bad = lib.stage_correspondence(ctx, 'data', REQ, 'check_C15', cases, metas, on_disagree=search, show_fn='run_C15')
    n_side = 200 if quick else 12000
    if bad:
        n_side *= 5
    for k in range(n_side):
        cs = ctx.rng.getrandbits(48)
        case = gen_case(random.Random(cs), 'float')
        msg, _ = judge(case)
        ctx.side_cases += 1
        ctx.evaluations += 1
        if msg:
            ctx.fail('%s: %s' % (case['kind'], msg), {'gen': 'gen_case', 'case_seed': cs, 'mode': 'float', 'case': case['desc']}, tags={'op': case['kind']})
    for k in range(40 if quick else 600):
        cs = ctx.rng.getrandbits(48)
        dup = k % 3 == 2
        if k < len(HOCUR_CORPUS):      # minimised earlier failures run first (F24)
            cs, dup = HOCUR_CORPUS[k]
        msg, desc = hocur_case(cs, dup)
        ctx.side_cases += 1
        ctx.evaluations += 1
        ctx.count('op:hocur' + ('_dup' if dup else '') + (':skipped-ill-conditioned' if desc.get('skipped') else ''))
        if msg:
            ctx.fail('hocur: ' + msg, {'gen': 'hocur_case', 'case_seed': cs, 'dup': dup, 'case': desc}, tags={'op': 'hocur', 'first_function_vanishes': desc.get('first_function_vanishes', False)})
    msg = f26_witness()
    ctx.side_cases += 1
    ctx.evaluations += 1
    if msg:
        ctx.fail('hocur: ' + msg, {'gen': 'f26_witness'}, tags={'op': 'hocur', 'first_function_vanishes': True})
    return ctx.finish(level='proof', checker_cmd='make -C coq Props/C15.vo Check/C15.vo && coqc Props/C15.v', trusted=TRUSTED, explanation=RULE)


TRUSTED = ['Coq 8.16.1 kernel + vm_compute', 'harness/props/c15.py computes the tables Phi from the real Function objects (index conventions of coordinate_major / function_major live there)',
           'hocur: side check only (pivoted QR / maxvol not modelled)', 'IEEE rounding not modelled']
RULE = ('correspondence: integer data, Constant/Identity/Monomial families (exact), all three constructions + single_core + gram, cores compared entry by entry; '
        'side check: float data, all families, explicit loops over multi-indices and snapshots; hocur with ranks = snapshot count against basis_decomposition; distinct/non-trivial = (construction, m==1, p==1) cells')


def replay(obj):
    r = obj['replay']
    if r.get('gen') == 'gen_case':
        case = gen_case(random.Random(r['case_seed']), r.get('mode', 'float'))
        msg, _ = judge(case)
        print('replay %s: %s' % (case['kind'], msg or 'OK (no failure)'))
        return 1 if msg else 0
    if r.get('gen') == 'f26_witness':
        msg = f26_witness()
        print('replay hocur witness: %s' % (msg or 'OK (no failure)'))
        return 1 if msg else 0
    if r.get('gen') == 'hocur_case':
        msg, desc = hocur_case(r['case_seed'], r.get('dup', False))
        print('replay hocur: %s' % (msg or 'OK (no failure)'))
        return 1 if msg else 0
    print('replay: see file')
    return 1
