# C01 — TT arithmetic equals dense linear algebra
import numpy as np, random, itertools
from harness import lib
from harness.lib import dense, close, consistent

import scikit_tt.tensor_train as ttm
from scikit_tt.tensor_train import TT

PROP_FILES = ['Props/C01.v']
REQ = ['SkTT.Check.C01']


def gen_entries(rng, shape, cplx, mode, nonneg=False):
    n = int(np.prod(shape))
    if mode == 'int':
        lo = 0 if nonneg else -3
        re_ = np.array([rng.randint(lo, 3) for _ in range(n)], dtype=float)
        if cplx:
            im_ = np.array([rng.randint(-3, 3) for _ in range(n)], dtype=float)
            if n and not np.any(im_):
                im_[0] = 1.0
            return (re_ + 1j * im_).reshape(shape)
        return re_.reshape(shape)
    re_ = np.array([abs(rng.gauss(0, 1)) if nonneg else rng.gauss(0, 1) for _ in range(n)])
    if cplx:
        return (re_ + 1j * np.array([rng.gauss(0, 1) for _ in range(n)])).reshape(shape)
    return re_.reshape(shape)


def gen_shape(rng, maxorder, op, maxdim=3, maxrank=3, minorder=1):
    order = rng.randint(minorder, maxorder)
    return lib.rand_shape(rng, order, op=op, maxdim=maxdim, maxrank=maxrank)


def gen_tt(rng, rows, cols, ranks, cplx, mode, nonneg=False):
    """cores of one dtype, or (40 % of the complex trains of order > 1) real and complex cores mixed"""
    n = len(rows)
    flags = [bool(cplx)] * n
    if cplx and n > 1 and rng.random() < 0.4:
        flags = [rng.random() < 0.5 for _ in range(n)]
        if not any(flags):
            flags[rng.randrange(n)] = True
    return TT([gen_entries(rng, (ranks[i], rows[i], cols[i], ranks[i + 1]), flags[i], mode, nonneg) for i in range(n)])


def rranks(rng, order, maxrank=3):
    return [1] + [rng.randint(1, maxrank) for _ in range(order - 1)] + [1]


def shape_tags(t):
    tags = []
    if t.order == 1:
        tags.append('order1')
    if any(d == 1 for d in t.row_dims) or any(d == 1 for d in t.col_dims):
        tags.append('size1mode')
    if any(r == 1 for r in t.ranks[1:-1]):
        tags.append('rank1bond')
    if any(np.iscomplexobj(c) for c in t.cores):
        tags.append('complex')
    return tags


# every op: returns dict(desc, lit_in (int mode), impl() -> result, expect() -> dense expected,
#                        kind in {'tt','scalar','array'}, opcode)
def op_add(rng, mode, sub=False):
    rows, cols, ranks = gen_shape(rng, 4, rng.random() < 0.6)
    c1, c2 = rng.random() < 0.4, rng.random() < 0.4
    t = gen_tt(rng, rows, cols, ranks, c1, mode)
    u = gen_tt(rng, rows, cols, rranks(rng, len(rows)), c2, mode)
    return dict(op='sub' if sub else 'add', opcode=2 if sub else 1, inputs=[t, u], lit_in=lambda: [lib.cores_lit(t.cores), lib.cores_lit(u.cores)],
                impl=(lambda: t - u) if sub else (lambda: t + u),
                expect=(lambda: dense(t.cores) - dense(u.cores)) if sub else (lambda: dense(t.cores) + dense(u.cores)), kind='tt')


def op_sub(rng, mode):
    return op_add(rng, mode, sub=True)


def op_smul(rng, mode):
    rows, cols, ranks = gen_shape(rng, 4, rng.random() < 0.5)
    t = gen_tt(rng, rows, cols, ranks, rng.random() < 0.4, mode)
    k = rng.randint(0, 2)
    if mode == 'int':
        s = [rng.randint(-3, 3), float(rng.randint(-3, 3)), complex(rng.randint(-3, 3), rng.randint(-3, 3))][k]
    else:
        s = [rng.randint(-3, 3), rng.gauss(0, 1), complex(rng.gauss(0, 1), rng.gauss(0, 1))][k]
    right = rng.random() < 0.5
    return dict(op='rmul' if right else 'mul', opcode=3, inputs=[t, s], lit_in=lambda: [lib.cores_lit(t.cores), lib.zi(s) if mode == 'int' else None],
                impl=(lambda: s * t) if right else (lambda: t * s), expect=lambda: s * dense(t.cores), kind='tt')


def op_matmul(rng, mode):
    order = rng.randint(1, 4)
    rows, cols, ranks = lib.rand_shape(rng, order, op=True)
    kind = rng.random()
    if kind < 0.15:       # <y, x> : scalar result
        rows = [1] * order
        cols2 = [1] * order
    elif kind < 0.5:      # operator times vector
        cols2 = [1] * order
    else:
        cols2 = [rng.randint(1, 3) for _ in range(order)]
    t = gen_tt(rng, rows, cols, ranks, rng.random() < 0.4, mode)
    u = gen_tt(rng, cols, cols2, rranks(rng, order), rng.random() < 0.4, mode)
    dot = rng.random() < 0.3

    def expect():
        a = dense(t.cores).reshape(int(np.prod(rows)), int(np.prod(cols)))
        b = dense(u.cores).reshape(int(np.prod(cols)), int(np.prod(cols2)))
        return (a @ b).reshape(list(rows) + list(cols2))
    return dict(op='dot' if dot else 'matmul', opcode=4, inputs=[t, u], lit_in=lambda: [lib.cores_lit(t.cores), lib.cores_lit(u.cores)],
                impl=(lambda: t.dot(u)) if dot else (lambda: t @ u), expect=expect, kind='tt_or_scalar')


def op_transpose(rng, mode):
    rows, cols, ranks = gen_shape(rng, 4, True)
    conj = rng.random() < 0.5
    sel_all = rng.random() < 0.4
    # conjugating a proper subset of the cores is not an operation on the dense tensor: real data there
    t = gen_tt(rng, rows, cols, ranks, rng.random() < 0.5 and (sel_all or not conj), mode)
    sel = [True] * t.order if sel_all else [rng.random() < 0.5 for _ in range(t.order)]
    cores_arg = None if sel_all else [i for i in range(t.order) if sel[i]]

    def expect():
        d = dense(t.cores)
        o = t.order
        perm = list(range(2 * o))
        for i in range(o):
            if sel[i]:
                perm[i], perm[o + i] = o + i, i
        d = np.transpose(d, perm)
        return np.conj(d) if conj else d
    return dict(op='transpose', opcode=6, inputs=[t, cores_arg, conj], lit_in=lambda: [lib.cores_lit(t.cores), [1 if s else 0 for s in sel], 1 if conj else 0],
                impl=lambda: t.transpose(cores=cores_arg, conjugate=conj), expect=expect, kind='tt')


def op_conj(rng, mode):
    rows, cols, ranks = gen_shape(rng, 4, rng.random() < 0.5)
    t = gen_tt(rng, rows, cols, ranks, rng.random() < 0.7, mode)
    return dict(op='conj', opcode=7, inputs=[t], lit_in=lambda: [lib.cores_lit(t.cores)], impl=lambda: t.conj(), expect=lambda: np.conj(dense(t.cores)), kind='tt')


def op_copy(rng, mode):
    rows, cols, ranks = gen_shape(rng, 4, rng.random() < 0.5)
    t = gen_tt(rng, rows, cols, ranks, rng.random() < 0.4, mode)
    return dict(op='copy', opcode=3, inputs=[t], lit_in=lambda: [lib.cores_lit(t.cores), [1, 0]], impl=lambda: t.copy(), expect=lambda: dense(t.cores), kind='tt')


def op_element(rng, mode):
    rows, cols, ranks = gen_shape(rng, 4, rng.random() < 0.5)
    t = gen_tt(rng, rows, cols, ranks, rng.random() < 0.4, mode)
    xs = [rng.randrange(r) for r in rows]
    ys = [rng.randrange(c) for c in cols]
    return dict(op='element', opcode=8, inputs=[t, xs + ys], lit_in=lambda: [lib.cores_lit(t.cores), xs, ys],
                impl=lambda: t.element(xs + ys), expect=lambda: dense(t.cores)[tuple(xs + ys)], kind='scalar')


def op_full(rng, mode):
    rows, cols, ranks = gen_shape(rng, 4, rng.random() < 0.5)
    t = gen_tt(rng, rows, cols, ranks, rng.random() < 0.4, mode)
    return dict(op='full', opcode=9, inputs=[t], lit_in=lambda: [lib.cores_lit(t.cores)], impl=lambda: t.full(), expect=lambda: dense(t.cores), kind='array')


def op_matricize(rng, mode):
    rows, cols, ranks = gen_shape(rng, 4, rng.random() < 0.5)
    t = gen_tt(rng, rows, cols, ranks, rng.random() < 0.4, mode)

    def expect():
        m, n = int(np.prod(rows)), int(np.prod(cols))
        return dense(t.cores).reshape(m) if n == 1 else dense(t.cores).reshape(m, n)
    return dict(op='matricize', opcode=9, inputs=[t], lit_in=lambda: [lib.cores_lit(t.cores)], impl=lambda: t.matricize(), expect=expect, kind='array')


def op_norm1(rng, mode):
    rows, cols, ranks = gen_shape(rng, 4, rng.random() < 0.5)
    if rng.random() < 0.3:      # row-vector form: exercises the transposition branch
        rows, cols = [1] * len(rows), rows
    t = gen_tt(rng, rows, cols, ranks, False, mode, nonneg=True)

    def expect():
        m, n = int(np.prod(rows)), int(np.prod(cols))
        a = dense(t.cores).reshape(m, n)
        if all(r == 1 for r in rows):
            a = a.T
        return np.max(np.sum(a, axis=0))
    return dict(op='norm1', opcode=11, inputs=[t], lit_in=lambda: [lib.cores_lit(t.cores)], impl=lambda: t.norm(p=1), expect=expect, kind='scalar')


def op_ctor(rng, mode):
    order = rng.randint(1, 4)
    rows, cols, ranks = lib.rand_shape(rng, order, op=True)
    which = rng.choice(['zeros', 'ones', 'eye', 'unit'])
    intrank = rng.random() < 0.3
    rk = rng.randint(1, 3)
    rarg = rk if intrank else ranks
    reff = ([1] + [rk] * (order - 1) + [1]) if intrank else ranks
    if which == 'zeros':
        return dict(op='zeros', opcode=12, inputs=[rows, cols, rarg], lit_in=lambda: [rows, cols, reff], impl=lambda: ttm.zeros(rows, cols, rarg),
                    expect=lambda: np.zeros(rows + cols), kind='tt')
    if which == 'ones':
        return dict(op='ones', opcode=13, inputs=[rows, cols, rarg], lit_in=lambda: [rows, cols, reff], impl=lambda: ttm.ones(rows, cols, rarg),
                    expect=lambda: np.ones(rows + cols) * float(np.prod(reff)), kind='tt')
    if which == 'eye':
        return dict(op='eye', opcode=14, inputs=[rows], lit_in=lambda: [rows], impl=lambda: ttm.eye(rows),
                    expect=lambda: np.eye(int(np.prod(rows))).reshape(rows + rows), kind='tt')
    inds = [rng.randrange(r) for r in rows]

    def expect():
        e = np.zeros(rows + [1] * order)
        e[tuple(inds + [0] * order)] = 1
        return e
    return dict(op='unit', opcode=15, inputs=[rows, inds], lit_in=lambda: [rows, inds], impl=lambda: ttm.unit(rows, inds), expect=expect, kind='tt')


# operations with no exact integer model run (sqrt / SVD inside): numerical side check only here;
# norm(p=2) and residual_error are modelled with an oracle tape under C03
def op_norm2(rng, mode):
    rows, cols, ranks = gen_shape(rng, 4, rng.random() < 0.5)
    t = gen_tt(rng, rows, cols, ranks, rng.random() < 0.4, 'float')
    return dict(op='norm2', opcode=None, inputs=[t], impl=lambda: t.norm(p=2), expect=lambda: np.linalg.norm(dense(t.cores).ravel()), kind='scalar')


def op_uniform(rng, mode):
    order = rng.randint(1, 4)
    rows = [rng.randint(1, 3) for _ in range(order)]
    ranks = rranks(rng, order)
    nrm = abs(rng.gauss(0, 1)) + 0.1
    intrank = rng.random() < 0.3
    rk = rng.randint(1, 3)
    rarg = rk if intrank else ranks

    def impl():
        u = ttm.uniform(rows, ranks=rarg, norm=nrm)
        return u

    def expect():
        return np.ones(rows + [1] * order) * nrm / np.sqrt(np.prod(rows))
    return dict(op='uniform', opcode=None, inputs=[rows, rarg, nrm], impl=impl, expect=expect, kind='tt')


def op_residual(rng, mode):
    order = rng.randint(1, 4)
    rows, cols, ranks = lib.rand_shape(rng, order, op=True, bias_edges=False)
    cplx = rng.random() < 0.4
    A = gen_tt(rng, rows, cols, ranks, cplx, 'float')
    x = gen_tt(rng, cols, [1] * order, rranks(rng, order), cplx, 'float')
    b = gen_tt(rng, rows, [1] * order, rranks(rng, order), cplx, 'float')

    def expect():
        a = dense(A.cores).reshape(int(np.prod(rows)), int(np.prod(cols)))
        return np.linalg.norm(a @ dense(x.cores).ravel() - dense(b.cores).ravel())
    return dict(op='residual_error', opcode=None, inputs=[A, x, b], impl=lambda: ttm.residual_error(A, x, b), expect=expect, kind='scalar')


OPS = [op_add, op_sub, op_smul, op_matmul, op_transpose, op_conj, op_copy, op_element, op_full, op_matricize, op_norm1, op_ctor]
SIDE_ONLY = [op_norm2, op_uniform, op_residual]
BY_NAME = {f.__name__: f for f in OPS + SIDE_ONLY}


def describe(case):
    def d(x):
        if isinstance(x, TT):
            return {'TT': [lib.jsonable(c) for c in x.cores]}
        return lib.jsonable(x)
    return {'op': case['op'], 'inputs': [d(x) for x in case['inputs']]}


def snapshot(inputs):
    return [[c.copy() for c in x.cores] + [list(x.row_dims), list(x.col_dims), list(x.ranks)] if isinstance(x, TT) else None for x in inputs]


def unchanged(inputs, snap):
    for x, s in zip(inputs, snap):
        if s is None:
            continue
        n = len(s) - 3
        if len(x.cores) != n or list(x.row_dims) != s[-3] or list(x.col_dims) != s[-2] or list(x.ranks) != s[-1]:
            return False
        for c, c0 in zip(x.cores, s[:n]):
            if c.shape != c0.shape or not np.array_equal(c, c0):
                return False
    return True


def judge(case):
    """run the implementation and compare with the dense oracle.  None = fine, else a message."""
    snap = snapshot(case['inputs'])
    try:
        res = case['impl']()
    except Exception as e:
        return 'raised %r' % (e,), None
    exp = case['expect']()
    if not unchanged(case['inputs'], snap):
        return 'an operand was modified', res
    if isinstance(res, TT):
        if not consistent(res):
            return 'result metadata inconsistent with its cores', res
        got = dense(res.cores)
    else:
        got = np.asarray(res)
    exp = np.asarray(exp)
    if got.shape != exp.shape:
        if got.size == exp.size == 1:
            got = got.reshape(exp.shape)
        else:
            return 'shape %s instead of %s' % (got.shape, exp.shape), res
    if not close(got, exp):
        return 'value differs from dense evaluation: max err %.3e' % float(np.max(np.abs(got - exp))), res
    return None, res


def out_lit(case, res):
    if isinstance(res, TT):
        return lib.tt_out_lit(res)
    a = np.asarray(res)
    if case['op'] in ('full', 'matricize'):
        f = lib.flat_zi(a)
        return [[f[2 * i], f[2 * i + 1]] for i in range(len(f) // 2)]
    return lib.zi(a.reshape(()).item() if a.ndim else a.item())


def run_case(fn, case_seed, mode):
    rng = random.Random(case_seed)
    return fn(rng, mode)


def run(ctx):
    quick = ctx.tier == 'quick'
    lib.stage_proof(ctx, PROP_FILES, ['Check/C01.vo'])

    # ---- 1. correspondence: integer-valued cases, model evaluated inside Coq
    n_corr = 40 if quick else 800
    cases, metas = [], []
    for fn in OPS:
        for k in range(n_corr):
            cs = ctx.rng.getrandbits(48)
            case = run_case(fn, cs, 'int')
            try:
                res = case['impl']()
                lit = [case['opcode'], case['lit_in'](), out_lit(case, res)]
            except lib.InexactValue:
                ctx.skipped_inexact += 1
                continue
            except Exception as e:
                msg, _ = judge(run_case(fn, cs, 'int'))
                ctx.fail('%s: %s' % (case['op'], msg), {'fn': fn.__name__, 'case_seed': cs, 'mode': 'int', 'case': describe(case)},
                         tags={'op': case['op'], 'order': len(case['inputs'][0].cores) if isinstance(case['inputs'][0], TT) else None})
                continue
            tags = [t for x in case['inputs'] if isinstance(x, TT) for t in shape_tags(x)]
            ctx.nontriv((case['op'], tuple(sorted(set(tags)))))
            ctx.count('op:' + case['op'])
            for t in set(tags):
                ctx.count('shape:' + t)
            if k == 0:
                ctx.sample({'op': case['op'], 'literal': str(lit)[:300]})
            cases.append(lit)
            metas.append({'fn': fn.__name__, 'case_seed': cs, 'op': case['op']})

    def search(meta):
        case = run_case(BY_NAME[meta['fn']], meta['case_seed'], 'int')
        msg, _ = judge(case)
        if msg:
            ctx.fail('%s: %s' % (case['op'], msg), {'fn': meta['fn'], 'case_seed': meta['case_seed'], 'mode': 'int', 'case': describe(case)},
                     tags={'op': case['op'], 'order': order_of(case)})
            return True
        return False
    bad = lib.stage_correspondence(ctx, 'ops', REQ, 'check_C01', cases,
                                   [dict(m, desc=m, tags={'op': m['op']}) for m in metas], on_disagree=search, show_fn='run_C01')

    # ---- 2. numerical side check against the dense oracle (float64 / complex128)
    n_side = 60 if quick else 4500
    if bad:
        n_side *= 5          # widened search when the tie is broken
    for fn in OPS + SIDE_ONLY:
        for k in range(n_side):
            cs = ctx.rng.getrandbits(48)
            case = run_case(fn, cs, 'float')
            msg, _ = judge(case)
            ctx.side_cases += 1
            ctx.evaluations += 1
            if msg:
                ctx.fail('%s: %s' % (case['op'], msg), {'fn': fn.__name__, 'case_seed': cs, 'mode': 'float', 'case': describe(case)},
                         tags={'op': case['op'], 'order': order_of(case)})
                break
    return ctx.finish(level='proof', checker_cmd='make -C coq (full .vo build) && coqc Props/C01.v (Print Assumptions audit)',
                      trusted=TRUSTED, explanation=RULE)


def order_of(case):
    for x in case['inputs']:
        if isinstance(x, TT):
            return x.order
    return None


TRUSTED = ['Coq 8.16.1 kernel (coqc, vm_compute for case evaluation)', 'Python harness harness/lib.py + harness/props/c01.py (generators, literal printer)',
           'NumPy einsum as dense oracle', 'IEEE rounding not modelled (integer-valued cases are exact in float64)']
RULE = ('correspondence cases: random integer-valued TTs (entries -3..3, order 1-4, dims 1-3, ranks 1-3, real/complex/mixed), one per (operation, 48-bit case seed); '
        'a case is non-trivial/distinct by its (operation, set of edge-shape tags) cell; side check: float64/complex128 random TTs against an einsum oracle')


def replay(obj):
    r = obj['replay']
    if 'fn' not in r:
        print('replay: nothing executable recorded (%s)' % obj.get('what'))
        return 1
    case = run_case(BY_NAME[r['fn']], r['case_seed'], r.get('mode', 'float'))
    msg, res = judge(case)
    print('replay %s seed=%s: %s' % (case['op'], r['case_seed'], msg or 'OK (no failure)'))
    return 1 if msg else 0
