# C20 — quantum sampling draws from the Born distribution of the measured qubits
import numpy as np, random, warnings, itertools
warnings.filterwarnings('ignore')
from harness import lib
from harness.lib import dense, consistent
from harness.props.c01 import snapshot, unchanged

import scikit_tt.tensor_train as ttm
from scikit_tt.tensor_train import TT
import scikit_tt.quantum_computation as qc          # matplotlib.pyplot is stubbed by harness.lib

PROP_FILES = ['Props/C20.v']
REQ = ['SkTT.Check.C20']
K = 4        # uniform variates n / 2^K


class FixedRand:
    """np.random.rand replaced for the duration of one call by a given matrix"""
    def __init__(self, mat):
        self.mat = np.asarray(mat, dtype=float)

    def __enter__(self):
        self.saved = np.random.rand
        mat = self.mat

        def rand(*shape):
            if tuple(shape) != mat.shape:
                raise AssertionError('sampling asked for uniforms of shape %s, harness prepared %s' % (shape, mat.shape))
            return mat.copy()
        np.random.rand = rand
        return self

    def __exit__(self, *a):
        np.random.rand = self.saved


def gint(rng, nz=False):
    while True:
        z = complex(rng.randint(-1, 1), rng.randint(-1, 1) if rng.random() < 0.5 else 0)
        if not nz or z != 0:
            return z


def ortho_core(rng, r, r2):
    """Gaussian-integer core (r, 2, 1, r2) with  sum_x G(x) G(x)^H = c I  (right-orthogonal up to a scalar)"""
    while True:
        row = [gint(rng) for _ in range(2 * r2)]
        if any(z != 0 for z in row):
            break
    rows = [row]
    if r == 2:
        second = []
        for t in range(0, 2 * r2, 2):
            a, b = row[t], row[t + 1]
            second += [-np.conj(b), np.conj(a)]
        rows.append(second)
    M = np.array(rows)                                   # r x (2 r2): columns ordered (x, b)
    return M.reshape(r, 2, r2)[:, :, None, :].astype(complex)


def gen_state(rng, n):
    ranks = [1] + [rng.randint(1, 2) for _ in range(n - 1)] + [1]
    return TT([ortho_core(rng, ranks[i], ranks[i + 1]) for i in range(n)])


def oracle(state_vec, n, measured, U):
    """inverse-CDF sampling from the exact conditional Born probabilities (unmeasured qubits traced out)"""
    P = np.abs(state_vec.reshape([2] * n)) ** 2
    other = tuple(i for i in range(n) if i not in measured)
    marg = P.sum(axis=other) if other else P                # axes = measured sites in increasing order
    rows, ties = [], False
    for s in range(U.shape[0]):
        prefix = ()
        for i in range(len(measured)):
            sub = marg[prefix]
            p0 = sub[0].sum()
            p1 = sub[1].sum()
            t = p0 / (p0 + p1)
            if abs(U[s, i] - t) < 1e-9:
                ties = True
            prefix = prefix + (int(U[s, i] > t),)
        rows.append(prefix)
    return rows, ties, marg


def unique_counts(rows):
    d = {}
    for r_ in rows:
        d[r_] = d.get(r_, 0) + 1
    keys = sorted(d)
    return keys, [d[k_] for k_ in keys]


def gen_int_case(rng):
    n = rng.randint(1, 5)
    state = gen_state(rng, n)
    k = rng.randint(1, n)
    measured = sorted(rng.sample(range(n), k))
    S = rng.randint(1, 6)
    U = np.array([[rng.randint(1, 2 ** K - 1) for _ in range(k)] for _ in range(S)], dtype=float)
    # occasionally put a variate exactly on a conditional probability (the comparison is strict)
    vec = dense(state.cores).reshape(-1)
    snap = snapshot([state])
    given = list(measured)
    if rng.random() < 0.4:
        rng.shuffle(given)          # a set of sites: the order in which they are listed must not matter
    with FixedRand(U / 2 ** K):
        samples, probs = qc.sampling(state, given, S)
    if not unchanged([state], snap):
        raise AssertionError('sampling modified the quantum state')
    counts = [int(round(p_ * S)) for p_ in probs]
    if abs(sum(probs) - 1) > 1e-12 or any(abs(c_ / S - p_) > 1e-12 for c_, p_ in zip(counts, probs)):
        raise AssertionError('relative frequencies do not sum to one / are not multiples of 1/n')
    rows = [[int(v) for v in r_] for r_ in samples]
    sel = [1 if i in measured else 0 for i in range(n)]
    lit = [1, [lib.cores_lit(state.cores), sel, [[int(v) for v in r_] for r_ in U], K], [rows, counts]]
    return lit, dict(n=n, measured=measured, given=given, S=S, ranks=[int(r_) for r_ in state.ranks])


# ---- numerical side check ---------------------------------------------------------------------------
def side_case(seed, quick=True):
    rng = random.Random(seed)
    clause = rng.choice(['exact', 'exact', 'exact', 'frequencies'])
    n = rng.randint(1, 6)
    cplx = rng.random() < 0.6
    desc = dict(which=clause, n=n, complex=cplx)
    try:
        ranks = [1] + [rng.randint(1, 3) for _ in range(n - 1)] + [1]
        ranks = [min(r_, 2 ** i, 2 ** (n - i)) for i, r_ in enumerate(ranks)]
        nrng = np.random.default_rng(rng.getrandbits(32))
        cores = []
        for i in range(n):
            c = nrng.standard_normal((ranks[i], 2, 1, ranks[i + 1]))
            if cplx:
                c = c + 1j * nrng.standard_normal(c.shape)
            cores.append(c)
        state = TT(cores).ortho_right()
        state = (1 / state.norm()) * state
        if cplx and n >= 2 and rng.random() < 0.3:
            # mixed dtypes: a real (float64) first core -- a real product qubit in front -- followed by complex cores
            v0 = nrng.standard_normal(2)
            c0 = (v0 / np.linalg.norm(v0)).reshape(1, 2, 1, 1)
            rest = TT(cores[1:])
            rest.cores[0] = rest.cores[0][:1]               # closed left boundary
            rest.ranks[0] = 1
            rest = rest.ortho_right()
            rest = (1 / rest.norm()) * rest
            state = TT([c0] + [c.copy() for c in rest.cores])
            desc['mixed_dtype'] = True
        k = rng.randint(1, n)
        measured = sorted(rng.sample(range(n), k))
        given = list(measured)
        if rng.random() < 0.4:
            rng.shuffle(given)      # listed in any order: the result is indexed by site
        desc.update(measured=measured, given=given, ranks=[int(r_) for r_ in state.ranks])
        vec = dense(state.cores).reshape(-1)
        snap = snapshot([state])
        if clause == 'exact':
            S = rng.randint(1, 40)
            U = nrng.random((S, k))
            with FixedRand(U):
                samples, probs = qc.sampling(state, list(given), S)
            if not unchanged([state], snap):
                return 'sampling modified the quantum state', desc
            rows, ties, marg = oracle(vec, n, measured, U)
            if ties:
                desc['skipped'] = 'variate on a conditional probability'
                return None, desc
            keys, counts = unique_counts(rows)
            got = [tuple(int(v) for v in r_) for r_ in np.asarray(samples).reshape(len(probs), -1)]
            if got != keys:
                return 'distinct samples %s differ from inverse-CDF sampling of the Born conditionals %s' % (got, keys), desc
            if np.max(np.abs(np.asarray(probs) - np.array(counts) / S)) > 1e-12:
                return 'relative frequencies %s differ from %s' % (list(probs), [c_ / S for c_ in counts]), desc
            if abs(float(np.sum(probs)) - 1) > 1e-12:
                return 'relative frequencies do not sum to one', desc
            return None, desc
        # frequencies: many samples, chi-square-type distance to the exact marginal (fixed seed: deterministic)
        S = 5000 if quick else 40000          # not a multiple of a power of two (whole batches and a remainder)
        np.random.seed(rng.getrandbits(32))
        samples, probs = qc.sampling(state, list(given), S)
        if not unchanged([state], snap):
            return 'sampling modified the quantum state', desc
        P = np.abs(vec.reshape([2] * n)) ** 2
        other = tuple(i for i in range(n) if i not in measured)
        marg = P.sum(axis=other) if other else P
        emp = np.zeros(marg.shape)
        for r_, p_ in zip(np.asarray(samples).reshape(len(probs), -1), probs):
            emp[tuple(int(v) for v in r_)] = p_
        if abs(float(np.sum(probs)) - 1) > 1e-12 or len({tuple(r_) for r_ in np.asarray(samples).reshape(len(probs), -1)}) != len(probs):
            return 'frequencies do not sum to one or samples are not distinct', desc
        # every cell: |emp - p| <= 6 sigma + 1/S   (sigma^2 = p (1 - p) / S)
        dev = np.abs(emp - marg)
        bound = 6 * np.sqrt(marg * (1 - marg) / S) + 2.0 / S
        if np.any(dev > bound):
            idx = np.unravel_index(int(np.argmax(dev - bound)), dev.shape)
            return 'empirical frequency %.4f of outcome %s is more than 6 sigma from the Born marginal %.4f (n = %d)' % (emp[idx], idx, marg[idx], S), desc
        return None, desc
    except Exception as e:
        return 'raised %r' % (e,), desc


def run(ctx):
    quick = ctx.tier == 'quick'
    lib.stage_proof(ctx, PROP_FILES, ['Check/C20.vo'])
    n = 150 if quick else 5000
    cases, metas = [], []
    for k in range(n):
        cs = ctx.rng.getrandbits(48)
        try:
            lit, d = gen_int_case(random.Random(cs))
        except lib.InexactValue:
            ctx.skipped_inexact += 1
            continue
        except Exception as e:
            ctx.fail('sampling raised %r on a valid input' % (e,), {'gen': 'gen_int_case', 'case_seed': cs}, tags={'which': 'int', 'symptom': 'raised'})
            continue
        ctx.count('qubits:%d' % d['n'])
        ctx.count('measured:%d' % len(d['measured']))
        ctx.nontriv(tuple(sorted((k_, str(v)) for k_, v in d.items())))
        if k < 2:
            ctx.sample({'case': d, 'literal': str(lit)[:300]})
        cases.append(lit)
        metas.append({'desc': {'gen': 'gen_int_case', 'case_seed': cs, 'case': d}, 'tags': {'which': 'sampling'}})
    bad = lib.stage_correspondence(ctx, 'sampling', REQ, 'check_C20', cases, metas)
    n_side = 250 if quick else 12000
    if bad:
        n_side *= 3
    for k in range(n_side):
        cs = ctx.rng.getrandbits(48)
        try:
            msg, desc = side_case(cs, quick)
        except Exception as e:
            msg, desc = 'side check raised %r' % (e,), {'case_seed': cs}
        ctx.side_cases += 1
        ctx.evaluations += 1
        ctx.count('side:%s' % desc.get('which'))
        if desc.get('skipped'):
            ctx.count('side_skipped:%s' % desc.get('which'))
        if msg:
            ctx.fail('%s: %s' % (desc.get('which'), msg), {'gen': 'side_case', 'case_seed': cs, 'quick': quick, 'case': desc}, tags={'which': desc.get('which')})
    return ctx.finish(level='proof', checker_cmd='make -C coq Props/C20.vo Check/C20.vo && coqc Props/C20.v', trusted=TRUSTED, explanation=RULE)


TRUSTED = ['Coq 8.16.1 kernel + vm_compute', 'harness (generators, the replaced np.random.rand, dense inverse-CDF oracle); matplotlib.pyplot stubbed',
           'numpy comparison of a real variate with a complex probability (lexicographic) is modelled on the real parts (imaginary parts are exactly zero for Gaussian-integer data)',
           'convergence of the frequencies (law of large numbers) is classical: a 6-sigma check with a fixed seed, not a theorem', 'IEEE rounding not modelled']
RULE = ('correspondence: Gaussian-integer states with right-orthogonal (up to a scalar) cores, 1-5 qubits, every kind of subset of measured sites, dyadic uniform variates k/16 supplied through a replaced np.random.rand: '
        'the sorted distinct bit strings and their counts compared with the Coq model (probability train via the C01/C02 models of diag, transpose, matmul, squeeze; identity-contracted tails; strict comparison); '
        'side check: float states (real and complex, ranks up to 3, 1-6 qubits): output for given variates against a dense inverse-CDF oracle on |amplitude|^2 with unmeasured qubits traced out, '
        'frequencies sum to one, distinct rows, state unchanged; large-sample frequencies within 6 sigma of the exact marginal')


def replay(obj):
    r = obj['replay']
    if r.get('gen') == 'side_case':
        msg, desc = side_case(r['case_seed'], r.get('quick', True))
        print('replay: %s' % (msg or 'OK (no failure)'))
        return 1 if msg else 0
    print('replay: see file')
    return 1
