# C12 — Markov operators built from reactions or transitions equal their definition
import numpy as np, random, itertools
from harness import lib, oracles
from harness.lib import dense, close, consistent
from harness.props.c03 import thr_lit

import scikit_tt.slim as slim
import scikit_tt.data_driven.ulam as ulam
from scikit_tt.tensor_train import TT

PROP_FILES = ['Props/C12.v']
REQ = ['SkTT.Check.C12']


def gen_reactions(rng, mode, order=None, hom=False):
    order = order or rng.randint(2, 4)
    if hom:
        dims = [rng.randint(2, 3)] * order
    else:
        dims = [rng.randint(1, 3) if rng.random() < 0.2 else rng.randint(2, 3) for _ in range(order)]
    cyclic = rng.random() < 0.5

    def rate():
        return float(rng.randint(1, 3)) if mode == 'int' else rng.uniform(0.1, 2.0)
    single = [[[rng.randrange(dims[i]), rng.randrange(dims[i]), rate()] for _ in range(rng.randint(0, 2))] for i in range(order)]
    nb = order if cyclic else order - 1
    two = []
    for i in range(nb):
        d1, d2 = dims[i], dims[(i + 1) % order]
        two.append([[rng.randrange(d1), rng.randrange(d1), rng.randrange(d2), rng.randrange(d2), rate()] for _ in range(rng.randint(0, 3))])
    return dims, single, two, cyclic


def dense_generator(dims, single, two, cyclic):
    """master-equation generator by state enumeration: A[y_state, x_state] += rate for x -> y, minus outflow"""
    n = int(np.prod(dims))
    A = np.zeros((n, n))
    states = list(itertools.product(*[range(d) for d in dims]))
    index = {s: k for k, s in enumerate(states)}
    for s in states:
        k = index[s]
        for i, rs in enumerate(single):
            for (r, p, rate) in rs:
                if s[i] == r:
                    t = list(s)
                    t[i] = p
                    if 0 <= p < dims[i]:
                        A[index[tuple(t)], k] += rate
                    A[k, k] -= rate
        for b, rs in enumerate(two):
            i, j = b, (b + 1) % len(dims)
            for (r1, p1, r2, p2, rate) in rs:
                if s[i] == r1 and s[j] == r2:
                    t = list(s)
                    t[i], t[j] = p1, p2
                    A[index[tuple(t)], k] += rate
                    A[k, k] -= rate
    return A


def slim_side(seed):
    rng = random.Random(seed)
    hom = rng.random() < 0.3
    dims, single, two, cyclic = gen_reactions(rng, 'float', hom=hom)
    thr = rng.choice([0, 0, 1e-12])
    desc = dict(kind='slim' + ('_hom' if hom else ''), dims=dims, single=single, two=two, cyclic=cyclic, threshold=thr)
    try:
        if hom:
            op = slim.slim_mme_hom(dims, single[0], two[0] if two else [], cyclic=cyclic, threshold=thr)
            single = [single[0]] * len(dims)
            two = [two[0] if two else []] * (len(dims) if cyclic else len(dims) - 1)
        else:
            op = slim.slim_mme(dims, single, two, threshold=thr)
    except Exception as e:
        return 'raised %r' % (e,), desc
    if not consistent(op):
        return 'inconsistent TT', desc
    n = int(np.prod(dims))
    got = dense(op.cores).reshape(n, n)
    exp = dense_generator(dims, single, two, cyclic)
    if not close(got, exp, 1e-9):
        return 'operator differs from the state-enumeration generator: max err %.2e' % float(np.max(np.abs(got - exp))), desc
    if not close(np.sum(got, axis=0), np.zeros(n), 1e-9):
        return 'column sums do not vanish', desc
    off = got - np.diag(np.diag(got))
    if np.min(off) < -1e-10:
        return 'negative off-diagonal entry', desc
    return None, desc


def ulam_side(seed):
    rng = random.Random(seed)
    three = rng.random() < 0.5
    dim = 3 if three else 2
    states = [rng.randint(1, 3) for _ in range(dim)]
    sims = rng.randint(1, 5)
    boxes = list(itertools.product(*[range(1, s + 1) for s in states]))
    cols = []
    sampled = [b for b in boxes if rng.random() < 0.8] or [boxes[0]]
    for b in sampled:
        for _ in range(sims):
            tgt = rng.choice(boxes)
            cols.append(list(b) + list(tgt))
    rng.shuffle(cols)
    tr = np.array(cols, dtype=int).T
    if rng.random() < 0.15:
        # many simulations per box stored in a narrow integer dtype (the tables shipped with the package are uint8):
        # one transition occurs more often than the dtype can count
        sims = rng.choice([260, 300])
        cols = []
        for b in sampled:
            tgts = [rng.choice(boxes) for _ in range(2)]
            for q in range(sims):
                cols.append(list(b) + list(tgts[0] if q % 50 else tgts[1]))
        tr = np.array(cols, dtype=np.uint8).T
    desc = dict(kind='ulam%dd' % dim, states=states, simulations=sims, transitions=(tr.tolist() if tr.shape[1] < 200 else 'uint8 table with %d columns' % tr.shape[1]))
    try:
        op = (ulam.ulam_3d if three else ulam.ulam_2d)(tr, states, sims)
    except Exception as e:
        return 'raised %r' % (e,), desc
    n = int(np.prod(states))
    got = dense(op.cores).reshape(n, n)
    exp = np.zeros((n, n))
    idx = {b: k for k, b in enumerate(boxes)}
    for c in cols:
        exp[idx[tuple(c[dim:])], idx[tuple(c[:dim])]] += 1.0 / sims
    if not close(got, exp, 1e-12):
        return 'entries are not transition counts / simulations', desc
    for b in sampled:
        if abs(np.sum(got[:, idx[b]]) - 1) > 1e-12:
            return 'column of a fully sampled box does not sum to one', desc
    return None, desc


def gen_slim_int(rng):
    dims, single, two, cyclic = gen_reactions(rng, 'int')
    thr = rng.choice([0, 0, 0.25, 0.5])
    tape = oracles.Tape(rng, rng.choice(['arb', 'arb', 'triv']))
    with oracles.patched(tape, names=('svd',)):
        op = slim.slim_mme(dims, single, two, threshold=thr)
    log = [lib.mat_lit(c[1][0]) for c in tape.calls]
    s_lit = [[[r, p, lib.zi(rate)] for (r, p, rate) in rs] for rs in single]
    t_lit = [[[r1, p1, r2, p2, lib.zi(rate)] for (r1, p1, r2, p2, rate) in rs] for rs in two]
    lit = [1, [dims, s_lit, t_lit, thr_lit(thr), oracles.svd_tape_lit(tape.calls)], [lib.tt_out_lit(op), log]]
    return lit, dict(dims=dims, cyclic=cyclic, thr=thr, kind=tape.kind)


def gen_ulam_int(rng):
    states = [rng.randint(1, 3), rng.randint(1, 3)]
    n = rng.randint(1, 8)
    cols = [[rng.randint(1, states[0]), rng.randint(1, states[1]), rng.randint(1, states[0]), rng.randint(1, states[1])] for _ in range(n)]
    tr = np.array(cols, dtype=int).T
    uniq, inv = np.unique(tr[[0, 2], :], axis=1, return_inverse=True)
    op = ulam.ulam_2d(tr, states, 1)
    lit = [2, [states[0], states[1], [[c[0] - 1, c[1] - 1, c[2] - 1, c[3] - 1] for c in cols],
               [[int(uniq[0, i]) - 1, int(uniq[1, i]) - 1] for i in range(uniq.shape[1])], [int(v) for v in np.ravel(inv)]], lib.tt_out_lit(op)]
    return lit, dict(states=states, n=n)


def gen_ulam3_int(rng):
    states = [rng.randint(1, 3), rng.randint(1, 3), rng.randint(1, 3)]
    n = rng.randint(1, 8)
    cols = [[rng.randint(1, states[k % 3]) for k in range(6)] for _ in range(n)]
    tr = np.array(cols, dtype=int).T
    u1, i1 = np.unique(tr[[0, 3], :], axis=1, return_inverse=True)
    u2, i2 = np.unique(tr[[2, 5], :], axis=1, return_inverse=True)
    op = ulam.ulam_3d(tr, states, 1)
    lit = [3, [states[0], states[1], states[2], [[v - 1 for v in c] for c in cols],
               [[int(u1[0, i]) - 1, int(u1[1, i]) - 1] for i in range(u1.shape[1])], [int(v) for v in np.ravel(i1)],
               [[int(u2[0, i]) - 1, int(u2[1, i]) - 1] for i in range(u2.shape[1])], [int(v) for v in np.ravel(i2)]], lib.tt_out_lit(op)]
    return lit, dict(states=states, n=n)


def run(ctx):
    quick = ctx.tier == 'quick'
    lib.stage_proof(ctx, PROP_FILES, ['Check/C12.vo'])
    n = 150 if quick else 4000
    cases, metas = [], []
    for k in range(n):
        cs = ctx.rng.getrandbits(48)
        for gen, name in ((gen_slim_int, 'slim'), (gen_ulam_int, 'ulam2d'), (gen_ulam3_int, 'ulam3d')):
            try:
                lit, d = gen(random.Random(cs))
            except lib.InexactValue:
                ctx.skipped_inexact += 1
                continue
            except Exception as e:
                ctx.fail('%s raised %r on a valid input' % (name, e), {'gen': gen.__name__, 'case_seed': cs}, tags={'op': name, 'raised': True})
                continue
            ctx.count('op:' + name)
            ctx.nontriv((name, str(d.get('cyclic')), str(d.get('kind')), len(set(d.get('dims', [0]))) > 1))
            if k == 0:
                ctx.sample({'op': name, 'literal': str(lit)[:300]})
            cases.append(lit)
            metas.append({'desc': {'gen': gen.__name__, 'case_seed': cs, 'case': d}, 'tags': {'op': name}})
    bad = lib.stage_correspondence(ctx, 'ops', REQ, 'check_C12', cases, metas, show_fn='run_C12')
    n_side = 150 if quick else 9000
    if bad:
        n_side *= 5
    for k in range(n_side):
        for fn in (slim_side, ulam_side):
            cs = ctx.rng.getrandbits(48)
            msg, desc = fn(cs)
            ctx.side_cases += 1
            ctx.evaluations += 1
            ctx.count('side:' + desc['kind'])
            if msg:
                ctx.fail('%s: %s' % (desc['kind'], msg), {'gen': fn.__name__, 'case_seed': cs, 'case': desc}, tags={'op': desc['kind']})
    return ctx.finish(level='proof', checker_cmd='make -C coq Props/C12.vo Check/C12.vo && coqc Props/C12.v', trusted=TRUSTED, explanation=RULE)


TRUSTED = ['Coq 8.16.1 kernel + vm_compute', 'harness (generators, SVD tape, literal printer)', 'SVD: value conjunct only (L.M = super-core); numpy.unique as oracle (spec: inverse index points at the pair)',
           'IEEE rounding not modelled']
RULE = ('correspondence: integer rates, random single-/two-cell reaction lists, open and cyclic chains, unequal cell sizes, threshold 0 / >0, SVD tape (arbitrary / exact answers); ulam_2d and ulam_3d with numpy.unique output as oracle; '
        'side check: dense master-equation generator by state enumeration, column sums, off-diagonals; Ulam 2-D/3-D against a direct histogram; distinct/non-trivial = (op, cyclic, oracle kind, unequal cells) cells')


def replay(obj):
    r = obj['replay']
    fn = {'slim_side': slim_side, 'ulam_side': ulam_side}.get(r.get('gen'))
    if fn:
        msg, desc = fn(r['case_seed'])
        print('replay %s: %s' % (desc['kind'], msg or 'OK (no failure)'))
        return 1 if msg else 0
    print('replay: see file')
    return 1
