# C14 — basis functions: derivatives are the derivatives of the function
import os, re, math, random
import numpy as np
from harness import lib
from harness.translators import c14_gen

import scikit_tt.data_driven.transform as tdt
from scipy.special import legendre as sp_legendre
from fractions import Fraction

PROP_FILES = ['Props/C14.v']
GEN = os.path.join(lib.COQ, 'Gen', 'BasisFunctions.v')


# ---- evaluator for the fully parenthesised Coq real expressions the translator emits ----------
TOK = re.compile(r'\s*(\(|\)|\d+|[A-Za-z_][\w\.]*|[-+*/^])')


def tokenize(s):
    out, pos = [], 0
    while pos < len(s):
        m = TOK.match(s, pos)
        if not m:
            if s[pos:].strip() == '':
                break
            raise ValueError('cannot tokenize %r' % s[pos:pos + 20])
        out.append(m.group(1))
        pos = m.end()
    return out


def peval(p, x):
    r = 0.0
    for a in reversed(p):
        r = a + x * r
    return r


def pderiv(p):
    return [k * a for k, a in enumerate(p)][1:]


class Ev:
    def __init__(self, toks, env):
        self.t, self.i, self.env = toks, 0, env

    def peek(self):
        return self.t[self.i] if self.i < len(self.t) else None

    def take(self, expect=None):
        tok = self.t[self.i]
        if expect is not None and tok != expect:
            raise ValueError('expected %r got %r' % (expect, tok))
        self.i += 1
        return tok

    def expr(self, nat=False):
        tok = self.take()
        if tok.isdigit():
            return int(tok)
        if tok != '(':
            return self.env[tok]
        nxt = self.peek()
        if nxt == '-':
            self.take()
            v = self.expr(nat)
            self.take(')')
            return -v
        if nxt == 'if':
            self.take()
            c = self.expr(nat)
            self.take('then')
            a = self.expr(nat)
            self.take('else')
            b = self.expr(nat)
            self.take(')')
            return a if c else b
        if nxt in ('sin', 'cos', 'exp', 'INR', 'peval', 'pderiv', 'Nat.ltb'):
            f = self.take()
            if f == 'Nat.ltb':
                a = self.expr(True)
                b = self.expr(True)
                self.take(')')
                return a < b
            if f == 'peval':
                p = self.expr()
                x = self.expr()
                self.take(')')
                return peval(p, x)
            if f == 'pderiv':
                p = self.expr()
                self.take(')')
                return pderiv(p)
            a = self.expr(nat or f == 'INR')
            self.take(')')
            return {'sin': np.sin, 'cos': np.cos, 'exp': np.exp, 'INR': float}[f](a)
        a = self.expr(nat)
        if self.peek() == ')':
            self.take()
            return a
        op = self.take()
        if op == '^':
            b = self.expr(True)
        else:
            b = self.expr(nat)
        self.take(')')
        if op == '+':
            return a + b
        if op == '-':
            return max(0, a - b) if nat else a - b
        if op == '*':
            return a * b
        if op == '/':
            return a / b
        if op == '^':
            return a ** b
        raise ValueError(op)


def coq_eval(s, env):
    toks = tokenize(s)
    e = Ev(toks, env)
    v = e.expr()
    if e.i != len(toks):
        raise ValueError('trailing tokens in %r' % s)
    return v


# ---- instances -------------------------------------------------------------------------------------
def make_instance(fam, rng, index, dim):
    """returns (object, env for the translated expressions)"""
    if fam == 'ConstantFunction':
        return tdt.ConstantFunction(index, dim), {}
    if fam == 'Identity':
        return tdt.Identity(index, dim), {}
    if fam == 'Monomial':
        n = rng.randint(0, 5)
        c = rng.choice([1, rng.uniform(-2, 2)])
        return tdt.Monomial(index, n, prefactor=c, dimension=dim), {'exponent': n, 'prefactor': c}
    if fam == 'Legendre':
        n = rng.randint(0, 5)
        D = rng.choice([1.0, rng.uniform(0.5, 3)])
        p = list(reversed(sp_legendre(n).coeffs.tolist()))
        return tdt.Legendre(index, n, domain=D, dimension=dim), {'domain': D, 'p': p}
    if fam == 'Sin':
        a = rng.uniform(-3, 3)
        return tdt.Sin(index, a, dim), {'alpha': a}
    if fam == 'Cos':
        a = rng.uniform(-3, 3)
        return tdt.Cos(index, a, dim), {'alpha': a}
    if fam == 'GaussFunction':
        m, v = rng.uniform(-2, 2), rng.uniform(0.2, 3)
        return tdt.GaussFunction(index, m, v, dim), {'mean': m, 'variance': v}
    if fam == 'PeriodicGaussFunction':
        m, v = rng.uniform(-2, 2), rng.uniform(0.2, 3)
        return tdt.PeriodicGaussFunction(index, m, v, dim), {'mean': m, 'variance': v}
    if fam == 'Bspline':
        n = rng.randint(2, 5)
        deg = rng.randint(1, 3)
        knots = np.sort(np.array([rng.uniform(-2, 2) for _ in range(n + 1)]))
        knots = knots + np.arange(n + 1) * 0.05
        coeff = [rng.uniform(-1, 1) for _ in range(n + deg)]
        return tdt.Bspline(index, knots, deg, coeff, dim), {'knots': knots.tolist()}
    raise KeyError(fam)


def rel_close(a, b, tol):
    a, b = np.asarray(a, dtype=float), np.asarray(b, dtype=float)
    return a.shape == b.shape and bool(np.all(np.abs(a - b) <= tol * (1 + np.abs(b))))


def validate_translation(ctx, tr, n):
    """the reader is validated: its output, evaluated independently, must agree with the methods"""
    bad = 0
    for fam in c14_gen.FAMS:
        for k in range(n):
            rng = random.Random(ctx.rng.getrandbits(48))
            dim = rng.randint(1, 3)
            index = rng.randrange(dim)
            f, env = make_instance(fam, rng, index, dim)
            t = np.array([rng.uniform(-1.5, 1.5) for _ in range(dim)])
            env = dict(env, x=float(t[index]))
            d = tr[fam]
            checks = [('call', lambda: f(t)), ('partial', lambda: f.partial(t, index)),
                      ('partial2', lambda: f.partial2(t, index, index))]
            for key, impl in checks:
                if d[key] is None:
                    continue
                got = coq_eval(d[key], env)
                exp = impl()
                ctx.evaluations += 1
                if not rel_close(got, exp, 1e-9):
                    bad += 1
                    ctx.fail('translator disagrees with %s.%s (reader broken or unsupported rewrite)' % (fam, key),
                             {'stage': 'translation-validation', 'family': fam, 'method': key, 'env': {k_: v for k_, v in env.items()}, 'translated': d[key], 'impl': float(exp), 'reader': float(got)},
                             tags={'stage': 'translation-validation', 'family': fam}, found_input=False)
                    break
            other = [j for j in range(dim) if j != index]
            if other:
                j = other[0]
                off = coq_eval(d['partial_off'], env) if d['partial_off'] is not None else None
                if off is not None and not rel_close(off, f.partial(t, j), 1e-12):
                    ctx.fail('translator disagrees with %s.partial off-coordinate' % fam, {'family': fam}, tags={'stage': 'translation-validation', 'family': fam}, found_input=False)
    return bad


# ---- numerical side check (search for failing inputs) --------------------------------------------
FAM_ALL = c14_gen.FAMS + ['Bspline']


def point_inside(f, fam, rng, dim, index):
    t = np.array([rng.uniform(-1.5, 1.5) for _ in range(dim)])
    if fam == 'Bspline':
        k = f.knots
        j = rng.randrange(len(k) - 1)
        t[index] = k[j] + (k[j + 1] - k[j]) * rng.uniform(0.2, 0.8)
    return t


def num_diff(fun, t, i, h):
    e = np.zeros_like(t)
    e[i] = h
    return (fun(t + e) - fun(t - e)) / (2 * h)


def legendre_exact(n, x):
    """(P_n(x), P_n'(x), P_n''(x)) in exact rational arithmetic, as floats"""
    P = [Fraction(1), x]
    for m in range(1, n + 1):
        P.append(((2 * m + 1) * x * P[m] - m * P[m - 1]) / (m + 1))
    out = []
    c = [Fraction(0)] * n + [Fraction(1)]
    for _ in range(3):
        out.append(float(sum(ci * P[i] for i, ci in enumerate(c))))
        m = len(c) - 1                                # derivative in the Legendre basis: P_j' = sum (2i+1) P_i, i = j-1, j-3, ...
        d = [Fraction(0)] * max(m, 1)
        for j in range(1, m + 1):
            for i in range(j - 1, -1, -2):
                d[i] += c[j] * (2 * i + 1)
        c = d
    return out


def side_case(seed):
    rng = random.Random(seed)
    fam = rng.choice(FAM_ALL)
    dim = rng.randint(1, 4)
    index = rng.randrange(dim)
    sub = rng.getrandbits(32)
    f, env = make_instance(fam, random.Random(sub), index, dim)
    t = point_inside(f, fam, rng, dim, index)
    desc = {'family': fam, 'dimension': dim, 'index': index, 'params': {k: v for k, v in env.items()}, 't': t.tolist()}
    h = 1e-5
    tol = 2e-6
    has_p2 = fam not in ('PeriodicGaussFunction', 'Bspline')
    # first partials, every direction
    for i in range(dim):
        try:
            got = f.partial(t, i)
        except Exception as e:
            return 'partial raised %r' % (e,), desc
        exp = num_diff(lambda s: float(f(s)), t, i, h)
        if not rel_close(got, exp, tol):
            return 'partial(t, %d) = %r but d/dt_%d f = %r' % (i, float(got), i, float(exp)), desc
        if i != index and float(got) != 0.0:
            return 'partial along an independent coordinate is %r, not 0' % (float(got),), desc
    # second partials
    if has_p2:
        for i in range(dim):
            for j in range(dim):
                got = f.partial2(t, i, j)
                exp = num_diff(lambda s: float(f.partial(s, i)), t, j, h)
                if not rel_close(got, exp, tol):
                    return 'partial2(t, %d, %d) = %r but numerical = %r' % (i, j, float(got), float(exp)), desc
    # gradient / Hessian assembly
    g = f.gradient(t)
    if not rel_close(g, np.array([float(f.partial(t, i)) for i in range(dim)]), 1e-12):
        return 'gradient is not the vector of partials', desc
    if has_p2:
        H = f.hessian(t)
        He = np.array([[float(f.partial2(t, i, j)) for j in range(dim)] for i in range(dim)])
        if not rel_close(H, He, 1e-12):
            return 'hessian is not the matrix of second partials', desc
    # Legendre at high degree against exact rational arithmetic (Bonnet recurrence; derivatives in the Legendre basis):
    # the derivative formulas must stay accurate where the monomial coefficients of P_n cancel catastrophically
    if fam == 'Legendre':
        n = rng.choice([12, 20, 30, 40, 50, 65, 80])
        D = rng.choice([1.0, 2.0, 0.5])
        k16 = rng.randint(-16, 16)
        fh = tdt.Legendre(index, n, domain=D, dimension=dim)
        th = t.copy()
        th[index] = D * k16 / 16.0                   # exact in binary floating point
        desc['high_degree'] = {'degree': n, 'domain': D, 'x_over_domain': '%d/16' % k16}
        ex = legendre_exact(n, Fraction(k16, 16))
        scale = [1.0, n * (n + 1) / 2.0, (n - 1) * n * (n + 1) * (n + 2) / 8.0]
        try:
            got = [float(fh(th)), float(fh.partial(th, index)) * D, float(fh.partial2(th, index, index)) * D * D]
        except Exception as e:
            return 'Legendre of degree %d raised %r' % (n, e), desc
        for name, g_, e_, sc in zip(('value', 'partial', 'partial2'), got, ex, scale):
            if not abs(g_ - e_) <= 1e-9 * max(1.0, abs(e_), sc):
                return 'Legendre degree %d at x/domain = %d/16: %s = %r, exact %r' % (n, k16, name, g_ / (D if name == 'partial' else D * D if name == 'partial2' else 1), e_ / (D if name == 'partial' else D * D if name == 'partial2' else 1)), desc
    # several objects on the same grid: a second B-spline with the same knots and degree but other coefficients (the
    # members of a spline basis) has its own derivative
    if fam == 'Bspline':
        coeff2 = [rng.uniform(-1, 1) for _ in range(f.n + f.degree)]
        try:
            f2 = tdt.Bspline(index, np.array(f.knots), f.degree, coeff2, dim)
            got = float(f2.partial(t, index))
            exp = num_diff(lambda s_: float(f2(s_)), t, index, h)
        except Exception as e:
            return 'second Bspline on the same knots raised %r' % (e,), desc
        if not rel_close(got, exp, 1e-5):
            return 'partial of a second Bspline on the same knots = %r, numerical derivative %r' % (got, exp), desc
    # the same on fresh objects built WITHOUT the dimension (it is then taken from the first point seen), gradient resp.
    # Hessian being the very first call
    for name, ref in (('gradient', g),) + ((('hessian', H),) if has_p2 else ()):
        f2, _ = make_instance(fam, random.Random(sub), index, None)
        try:
            got = getattr(f2, name)(t)
        except Exception as e:
            return '%s as first call on an object built without dimension raised %r' % (name, e), desc
        if np.shape(got) != np.shape(ref) or not rel_close(got, ref, 1e-12):
            return '%s as first call on an object built without dimension differs' % name, desc
    # integer-typed points denote the same points
    if fam != 'Bspline':
        ti = np.array([rng.randint(-2, 2) for _ in range(dim)])
        tf = ti.astype(float)
        desc['t_int'] = ti.tolist()
        for name in ('__call__', 'gradient') + (('hessian',) if has_p2 else ()):
            try:
                a, b = getattr(f, name)(ti), getattr(f, name)(tf)
            except Exception as e:
                return '%s at an integer-typed point raised %r' % (name, e), desc
            if np.shape(a) != np.shape(b) or not rel_close(np.asarray(a, dtype=float), np.asarray(b, dtype=float), 1e-12):
                return '%s at an integer-typed point differs from the value at the same point as floats' % name, desc
    # vectorised evaluation = point by point
    m = rng.randint(1, 4)
    T = np.array([point_inside(f, fam, rng, dim, index) for _ in range(m)]).T      # dim x m
    vec = np.asarray(f(T), dtype=float)
    pt = np.array([float(f(T[:, k])) for k in range(m)])
    if vec.shape != pt.shape or not rel_close(vec, pt, 1e-12):
        return 'evaluation on an array differs from point-by-point evaluation', desc
    pv = np.asarray(f.partial(T, index), dtype=float)
    pp = np.array([float(f.partial(T[:, k], index)) for k in range(m)])
    if pv.shape == pp.shape and not rel_close(pv, pp, 1e-12):
        return 'partial on an array differs from point-by-point evaluation', desc
    return None, desc


def run(ctx):
    quick = ctx.tier == 'quick'
    tr = None
    try:
        tr, changed = c14_gen.generate(lib.REPO, GEN)
        if changed:
            ctx.notes.append('Gen/BasisFunctions.v regenerated: differs from the committed version')
    except c14_gen.TranslateError as e:
        ctx.fail('translator cannot read transform.py: %s' % e, {'stage': 'translate', 'error': str(e)}, tags={'stage': 'translate'}, found_input=False)
    proof_ok = lib.stage_proof(ctx, PROP_FILES)
    if tr is not None:
        bad = validate_translation(ctx, tr, 20 if quick else 200)
        ctx.notes.append('translation validation: %d disagreements' % bad)
        ctx.sample({'family': 'GaussFunction', 'partial': tr['GaussFunction']['partial']})
        for fam in c14_gen.FAMS:
            ctx.nontriv(('translated', fam))
    n_side = 600 if quick else 60000
    if not proof_ok or tr is None:
        n_side *= 5
    for k in range(n_side):
        seed = ctx.rng.getrandbits(48)
        msg, desc = side_case(seed)
        ctx.side_cases += 1
        ctx.evaluations += 1
        ctx.nontriv(('side', desc['family'], desc['dimension'] > 1))
        ctx.count('family:' + desc['family'])
        if msg:
            ctx.fail('%s: %s' % (desc['family'], msg), {'gen': 'side_case', 'case_seed': seed, 'case': desc}, tags={'family': desc['family']})
    # restore the committed Gen file so that other checks / the working tree are not left modified
    return ctx.finish(level='proof', checker_cmd='python harness/translators/c14_gen.py (regenerate Gen/BasisFunctions.v from /repo) && make -C coq Props/C14.vo && coqc Props/C14.v',
                      trusted=TRUSTED, explanation=RULE)


TRUSTED = ['Coq 8.16.1 kernel; Coquelicot 3 (is_derive, auto_derive)', 'axioms (stdlib): sig_forall_dec, sig_not_dec, functional_extensionality_dep, classic',
           'translator harness/translators/c14_gen.py (validated on every run against the real methods)',
           'scipy.special.legendre / numpy.polynomial.legendre.legder, legval / BSpline.derivative / numpy ufuncs are oracles', 'IEEE rounding not modelled']
RULE = ('obligations = is_derive theorems over the function bodies regenerated from transform.py; translation validation = the emitted Coq expressions, evaluated by an independent evaluator, '
        'agree with __call__/partial/partial2 on random parameters/points; side check = central differences for partial/partial2 in every direction, gradient/Hessian assembly, vectorised evaluation, '
        'all 9 families incl. Bspline; distinct/non-trivial = (family, dimension>1) cells')


def replay(obj):
    r = obj['replay']
    if r.get('gen') == 'side_case':
        msg, desc = side_case(r['case_seed'])
        print('replay side_case seed=%s (%s): %s' % (r['case_seed'], desc['family'], msg or 'OK (no failure)'))
        return 1 if msg else 0
    print('replay: proof obligation / translation; see file')
    return 1
