# C04 — rank truncation is bounded in rank and in error
import numpy as np, random
from harness import lib, oracles
from harness.lib import dense, close, consistent
from harness.props.c01 import gen_tt, rranks, shape_tags
from harness.props.c03 import thr_lit, gen_sweep_case, run_int_case

import scikit_tt.utils as utl
from scikit_tt.tensor_train import TT

PROP_FILES = ['Props/C04.v']
REQ = ['SkTT.Check.C04']


def gen_of_full_int(rng):
    order = rng.randint(1, 3)
    rows = [rng.randint(1, 3) for _ in range(order)]
    op = rng.random() < 0.5
    cols = [rng.randint(1, 2) if op else 1 for _ in range(order)]
    cplx = rng.random() < 0.3
    x = lib.rint_array(rng, rows + cols, cplx=cplx, nonzero_im=cplx)
    thr = rng.choice([0, 0, 0.25, 0.5])
    maxr = rng.choice([np.inf, np.inf, 1, 2, 3])
    tape = oracles.Tape(rng, rng.choice(['arb', 'arb', 'triv']), cplx=cplx and rng.random() < 0.7)
    with oracles.patched(tape, names=('svd',)):
        t = TT(x, threshold=thr, max_rank=maxr)
    log = [lib.mat_lit(c[1][0]) for c in tape.calls]
    lit = [1, [rows, cols, lib.flat_zi(x), thr_lit(thr), [] if maxr == np.inf else [int(maxr)], oracles.svd_tape_lit(tape.calls)],
           [lib.tt_out_lit(t), log]]
    return lit, dict(order=order, rows=rows, cols=cols, thr=thr, maxr=str(maxr), kind=tape.kind)


def gen_tsvd_int(rng):
    m, n = rng.randint(1, 4), rng.randint(1, 4)
    a = lib.rint_array(rng, (m, n))
    thr = rng.choice([0, 0.25, 0.5, 2, 3])
    rel = rng.random() < 0.5 if thr < 1 else False
    maxr = rng.choice([np.inf, 1, 2])
    tape = oracles.Tape(rng, 'arb')
    with oracles.patched(tape, names=('svd',)):
        u, s, v = utl.truncated_svd(a, threshold=thr, max_rank=maxr, rel_truncation=rel)
    tl = oracles.svd_tape_lit(tape.calls)[0]
    thr_l = thr_lit(thr) if (thr == 0 or rel) else thr_lit(thr) + [0]
    sl = lib.flat_zi(s)
    lit = [2, [tl, thr_l, [] if maxr == np.inf else [int(maxr)]],
           [lib.mat_lit(u.reshape(m, -1)), [[sl[2 * i], sl[2 * i + 1]] for i in range(len(s))], lib.mat_lit(v.reshape(-1, n))]]
    return lit, dict(m=m, n=n, thr=thr, rel=rel, maxr=str(maxr))


def rand_spectrum_tensor(rng, dims, decay):
    """a dense tensor whose unfoldings have a rapidly decaying or a flat spectrum"""
    nrng = np.random.RandomState(rng.getrandbits(31))
    x = nrng.standard_normal(dims)
    if decay:
        # sum of a few rank-1 terms with geometric weights (decay 2: steep, singular values down to 1e-9 and below relative to the largest)
        q = 0.3 if decay == 1 else [0.01, 1e-5, 1e-9][nrng.randint(3)]     # small mode sizes: the k-th singular value is ~ q^k
        x = np.zeros(dims)
        for k in range(6):
            term = 1.0
            for i, d in enumerate(dims):
                v = nrng.standard_normal(d).reshape([d if j == i else 1 for j in range(len(dims))])
                term = term * v
            x = x + (q ** k) * term
    return x


def unfolding_tail(x, order, k, r):
    """best rank-r error (squared) of the k-th unfolding of x (modes interleaved row/col per core)"""
    perm = [order * j + i for i in range(order) for j in range(2)]
    y = np.transpose(x, perm)
    m = int(np.prod(y.shape[:2 * k]))
    s = np.linalg.svd(y.reshape(m, -1), compute_uv=False)
    return float(np.sum(s[r:] ** 2)), s


def side_case(seed):
    rng = random.Random(seed)
    order = rng.randint(2, 4)
    rows = [rng.randint(1, 3) for _ in range(order)]
    op = rng.random() < 0.4
    cols = [rng.randint(1, 2) if op else 1 for _ in range(order)]
    decay = rng.choice([0, 0, 1, 2])
    x = rand_spectrum_tensor(rng, rows + cols, decay)
    if rng.random() < 0.3:
        x = x + 1j * rand_spectrum_tensor(rng, rows + cols, decay)
    which = rng.choice(['init-maxrank', 'init-threshold', 'ortho-maxrank', 'ortho-listrank', 'exact', 'cores-maxrank', 'exact-int'])
    desc = dict(which=which, rows=rows, cols=cols, decay=decay, x=lib.jsonable(x))
    nrm = float(np.linalg.norm(x))
    try:
        if which == 'exact-int':
            # integer-typed arrays denote the same tensors (the decomposition must not work in the integer dtype)
            xi = np.rint(3 * np.real(x)).astype(rng.choice([np.int64, np.int32]))
            desc['x'] = lib.jsonable(xi)
            t = TT(xi)
            err = float(np.linalg.norm(dense(t.cores) - xi))
            if err > 1e-12 * max(1.0, float(np.linalg.norm(xi))):
                return 'threshold 0 / unbounded rank is not exact for an integer-typed array: err %.2e' % err, desc
            return None, desc
        if which == 'exact':
            t = TT(x)
            if rng.random() < 0.3:
                t = t.ortho()
                desc['then'] = 'ortho()'
            err = float(np.linalg.norm(dense(t.cores) - x))
            if err > 1e-12 * nrm:
                return 'threshold 0 / unbounded rank is not exact: err %.2e' % err, desc
            return None, desc
        if which == 'init-maxrank':
            r = rng.randint(1, 3)
            desc['max_rank'] = r
            t = TT(x, max_rank=r)
            caps = [r] * (order - 1)
        elif which == 'init-threshold':
            thr = rng.choice([1e-1, 1e-2, 0.3, 1e-4, 1e-9])
            desc['threshold'] = thr
            t = TT(x, threshold=thr)
            full = TT(x)
            discarded = sum(max(0, a - b) for a, b in zip(full.ranks, t.ranks))
            err = float(np.linalg.norm(dense(t.cores) - x))
            bound = thr * nrm * np.sqrt(max(discarded, 0))
            if err > bound * (1 + 1e-9) + 1e-12:
                return 'threshold bound violated: err %.3e > %.3e (threshold*norm*sqrt(#discarded))' % (err, bound), desc
            return None, desc
        elif which == 'cores-maxrank':
            # TT(list of cores, max_rank=...) truncates as well; the cap may be a Python int, a NumPy integer or a per-bond list
            t0 = TT(x)
            form = rng.choice(['int', 'npint', 'list'])
            r = rng.randint(1, 3)
            caps = [r] * (order - 1) if form != 'list' else [rng.randint(1, 3) for _ in range(order - 1)]
            arg = r if form == 'int' else (np.int64(r) if form == 'npint' else [1] + caps + [1])
            keep_arg = list(arg) if form == 'list' else arg
            desc['max_rank'] = str(arg)
            t = TT([c.copy() for c in t0.cores], max_rank=arg)
            if form == 'list' and list(arg) != keep_arg:
                return 'the per-bond list handed in as max_rank was modified: %s -> %s' % (keep_arg, arg), desc
        else:
            t = TT(x)
            if which == 'ortho-maxrank':
                r = rng.randint(1, 3)
                desc['max_rank'] = r
                t.ortho(max_rank=r)
                caps = [r] * (order - 1)
            else:
                caps = [rng.randint(1, 3) for _ in range(order - 1)]
                desc['max_rank'] = [1] + caps + [1]
                arg = [1] + caps + [1]
                t.ortho(max_rank=arg)
                if arg != [1] + caps + [1]:
                    return 'the per-bond list handed in as max_rank was modified: %s -> %s' % ([1] + caps + [1], arg), desc
    except Exception as e:
        return 'raised %r' % (e,), desc
    if not consistent(t):
        return 'inconsistent TT', desc
    if any(t.ranks[k + 1] > caps[k] for k in range(order - 1)):
        return 'a rank exceeds the requested maximum: ranks %s caps %s' % (t.ranks, caps), desc
    err2 = float(np.linalg.norm(dense(t.cores) - x)) ** 2
    bound2 = sum(unfolding_tail(x, order, k + 1, caps[k])[0] for k in range(order - 1))
    if err2 > bound2 * (1 + 1e-8) + 1e-20:
        return 'quasi-optimality bound violated: err^2 %.6e > sum of best rank-r errors^2 %.6e' % (err2, bound2), desc
    return None, desc


def run(ctx):
    quick = ctx.tier == 'quick'
    lib.stage_proof(ctx, PROP_FILES, ['Check/C04.vo', 'Check/C03.vo'])
    n = 150 if quick else 4000
    cases, metas = [], []
    for k in range(n):
        for gen, name in ((gen_of_full_int, 'of_full'), (gen_tsvd_int, 'truncated_svd')):
            cs = ctx.rng.getrandbits(48)
            try:
                lit, d = gen(random.Random(cs))
            except lib.InexactValue:
                ctx.skipped_inexact += 1
                continue
            except Exception as e:
                ctx.fail('%s raised %r on a valid input' % (name, e), {'gen': gen.__name__, 'case_seed': cs}, tags={'op': name, 'raised': True})
                continue
            ctx.count('op:' + name)
            ctx.nontriv((name, str(d.get('thr')), str(d.get('maxr')), str(d.get('kind'))))
            if k == 0:
                ctx.sample({'op': name, 'literal': str(lit)[:300]})
            cases.append(lit)
            metas.append({'desc': {'gen': gen.__name__, 'case_seed': cs, 'case': d}, 'tags': {'op': name}})
    bad = lib.stage_correspondence(ctx, 'ops', REQ, 'check_C04', cases, metas, show_fn='run_C04')
    # truncating sweeps (model shared with C03)
    cases, metas = [], []
    for k in range(n):
        cs = ctx.rng.getrandbits(48)
        case = gen_sweep_case(random.Random(cs), truncate=True)
        try:
            lit, res, calls = run_int_case(case)
        except lib.InexactValue:
            ctx.skipped_inexact += 1
            continue
        except Exception as e:
            ctx.fail('%s raised %r on a valid input' % (case['which'], e), {'gen': 'gen_sweep_case', 'case_seed': cs}, tags={'op': case['which'], 'raised': True})
            continue
        ctx.count('op:sweep-' + case['which'])
        ctx.nontriv(('sweep', case['which'], str(case['thr']), str(case['maxr'])[:12]))
        cases.append(lit)
        metas.append({'desc': {'gen': 'gen_sweep_case', 'case_seed': cs}, 'tags': {'op': 'sweep-' + case['which']}})
    bad += lib.stage_correspondence(ctx, 'sweeps', ['SkTT.Check.C03'], 'check_C03', cases, metas, show_fn='run_C03')
    n_side = 300 if quick else 18000
    if bad:
        n_side *= 5
    for k in range(n_side):
        cs = ctx.rng.getrandbits(48)
        try:
            msg, desc = side_case(cs)
        except Exception as e:
            msg, desc = 'side check raised %r' % (e,), {'which': 'exception', 'case_seed': cs}
        ctx.side_cases += 1
        ctx.evaluations += 1
        ctx.count('side:' + str(desc.get('which')))
        if msg:
            ctx.fail('truncation: ' + msg, {'gen': 'side_case', 'case_seed': cs, 'case': desc}, tags={'op': desc.get('which')})
    # known finding F14: zero tensor with a positive threshold
    for name, fn in (('TT(zeros, threshold)', lambda: TT(np.zeros((2, 2, 2, 1, 1, 1)), threshold=1e-8)),):
        try:
            t = fn()
            ok = consistent(t) and close(dense(t.cores), np.zeros((2, 2, 2, 1, 1, 1)))
            msg = None if ok else 'wrong result'
        except Exception as e:
            msg = 'raised %r' % (e,)
        if msg:
            ctx.fail('zero tensor with threshold > 0: %s' % msg, {'call': name}, tags={'zero_tensor': True, 'threshold_positive': True})
    return ctx.finish(level='proof', checker_cmd='make -C coq Props/C04.vo Check/C04.vo && coqc Props/C04.v', trusted=TRUSTED, explanation=RULE)


TRUSTED = ['Coq 8.16.1 kernel + vm_compute', 'harness (tape oracles, generators)', 'SVD oracle hypotheses as named per theorem',
           'quasi-optimality w.r.t. the ORIGINAL unfoldings and the threshold bound are tested numerically, not proved (Eckart-Young / interlacing not available)',
           'IEEE rounding not modelled']
RULE = ('correspondence: TT(ndarray, threshold, max_rank) on integer tensors with SVD tape (arbitrary/exact answers, power-of-two singular values so that threshold tests are exact), utils.truncated_svd (relative/absolute), truncating sweeps; '
        'side check: rank caps (int and per-bond list), exactness, error vs. sum of best rank-r errors of the dense unfoldings (flat and decaying spectra), threshold bound; distinct/non-trivial = (op, threshold, max_rank, oracle kind) cells')


def replay(obj):
    r = obj['replay']
    if r.get('gen') == 'side_case':
        msg, desc = side_case(r['case_seed'])
        print('replay: %s' % (msg or 'OK (no failure)'))
        return 1 if msg else 0
    print('replay: see file')
    return 1
