# C08 — ALS eigen-solver returns consistent Ritz pairs and keeps exact eigenpairs
import numpy as np, random, warnings
warnings.filterwarnings('ignore')
from harness import lib, oracles
from harness.lib import dense, close, consistent
from harness.props.c01 import gen_tt, rranks, shape_tags, snapshot, unchanged
from harness.props.c07 import feasible_ranks, nonsym_op, max_ranks

import scikit_tt.tensor_train as ttm
from scikit_tt.tensor_train import TT
import scikit_tt.solvers.evp as evp

PROP_FILES = ['Props/C08.v']
REQ = ['SkTT.Check.C08']


def tape_lit(calls):
    out = []
    for name, ins, outs in calls:
        if name in ('eig', 'eigh'):
            w, v = outs
            out.append([4 if name == 'eig' else 5, lib.mat_lit(ins[0]), lib.mat_lit(ins[1]) if len(ins) > 1 else [],
                        [lib.zi(x) for x in w], lib.mat_lit(v)])
        elif name == 'svd':
            u, s, v = outs
            out.append([3, lib.mat_lit(ins[0]), len(s), lib.mat_lit(u), lib.flat_zi(s), lib.mat_lit(v)])
        else:
            raise ValueError(name)
    return out


def gen_int_case(rng):
    order = rng.choice([1, 2, 3, 3])
    dims = [rng.randint(1, 2) for _ in range(order)] if order >= 3 else [rng.randint(1, 3) for _ in range(order)]
    if all(d == 1 for d in dims):
        dims[0] = 2
    cplx = rng.random() < 0.4
    A = nonsym_op(rng, dims, rranks(rng, order, 2), cplx)
    x = gen_tt(rng, dims, [1] * order, rranks(rng, order, 2), cplx and rng.random() < 0.8, 'int')
    use_prev = rng.random() < 0.3
    use_gevp = rng.random() < 0.3
    prev = [gen_tt(rng, dims, [1] * order, rranks(rng, order, 2), cplx and rng.random() < 0.5, 'int')] if use_prev else []
    shift = float(rng.randint(-2, 2)) if use_prev else 0
    G = nonsym_op(rng, dims, rranks(rng, order, 2), cplx and rng.random() < 0.5) if use_gevp else None
    solver = rng.choice(['eig', 'eigh'])
    nmin = min(x.ranks[i] * dims[i] * x.ranks[i + 1] for i in range(order))
    nev = 2 if (rng.random() < 0.3 and nmin >= 2) else 1
    reps = rng.randint(1, 2)
    sig = (1, 4)
    tape = oracles.Tape(rng, 'arb', cplx=cplx and rng.random() < 0.7, lo=-2, hi=2)
    snap = snapshot([A, x] + prev + ([G] if G is not None else []))
    with oracles.patched(tape, names=('svd', 'eig', 'eigh')):
        lam, vecs, it = evp.als(A, x, previous=prev, shift=shift, operator_gevp=G, number_ev=nev, repeats=reps, solver=solver, sigma=sig[0] / sig[1], conv_eps=1e-300)
    if not unchanged([A, x] + prev + ([G] if G is not None else []), snap):
        raise AssertionError('eigen-solver modified an argument')
    if it != reps:
        raise AssertionError('unexpected early stop')
    if nev == 1:
        exp = [lib.zi(lam), lib.cores_lit(vecs.cores)]
    else:
        exp = [[lib.zi(l) for l in lam], [lib.cores_lit(v.cores) for v in vecs]]
    lit = [1, [lib.cores_lit(A.cores), lib.cores_lit(x.cores), lib.cores_lit(prev[0].cores) if prev else [], [int(shift), 1],
               lib.cores_lit(G.cores) if G is not None else [], nev, reps, 1 if solver == 'eigh' else 0, list(sig), tape_lit(tape.calls)], exp]
    sens = order >= 3 and max(x.ranks) >= 2
    return lit, dict(order=order, dims=dims, solver=solver, nev=nev, prev=use_prev, gevp=use_gevp, cplx=cplx, reps=reps, sensitive=sens)


# ---- numerical side check ---------------------------------------------------------------------------
def herm_problem(rng, gevp=False, cplx=None):
    order = rng.randint(1, 3)
    dims = [rng.randint(2, 3) if rng.random() < 0.8 else 1 for _ in range(order)]
    if all(d == 1 for d in dims):
        dims[0] = 2
    cplx = (rng.random() < 0.5) if cplx is None else cplx
    B = gen_tt(rng, dims, dims, rranks(rng, order, 2), cplx, 'float')
    A = B + B.transpose(conjugate=True)
    G = None
    if gevp:
        C = gen_tt(rng, dims, dims, rranks(rng, order, 2), cplx, 'float')
        G = C @ C.transpose(conjugate=True) + 1.0 * ttm.eye(dims)
    n = int(np.prod(dims))
    Am = dense(A.cores).reshape(n, n)
    Gm = dense(G.cores).reshape(n, n) if G is not None else np.eye(n)
    return dims, cplx, A, G, Am, Gm


def side_case(seed):
    rng = random.Random(seed)
    clause = rng.choice(['ritz', 'fixed', 'fullrank', 'deflation', 'deflation2', 'monotone', 'power', 'power_gevp'])
    gevp = (rng.random() < 0.3 and clause in ('ritz', 'fullrank')) or clause == 'power_gevp'
    dims, cplx, A, G, Am, Gm = herm_problem(rng, gevp)
    order = len(dims)
    n = Am.shape[0]
    sc = 1.0
    solver = rng.choice(['eig', 'eigh'])
    if clause in ('ritz', 'fixed', 'fullrank') and rng.random() < (0.6 if (cplx and solver == 'eig') else 0.15):
        sc = 10.0 ** rng.choice([4, 6])         # operators of large norm: every tolerance below is relative to the spectrum
        A = sc * A
        Am = sc * Am
    import scipy.linalg as sl
    w, V = sl.eigh(Am, Gm)
    desc = dict(clause=clause, dims=dims, complex=cplx, gevp=gevp, solver=solver, scale=sc)
    snap = snapshot([A] + ([G] if G is not None else []))
    tol = 1e-7 * (1 + float(np.max(np.abs(w))))
    try:
        if clause == 'ritz':
            x0 = gen_tt(rng, dims, [1] * order, feasible_ranks([min(a, b) for a, b in zip(rranks(rng, order, 3), max_ranks(dims))], dims), cplx, 'float')
            lam, xt, it = evp.als(A, x0, operator_gevp=G, repeats=rng.randint(1, 3), solver=solver, sigma=float(w[-1]) + 1.0)
            xv = dense(xt.cores).reshape(n)
            rq = np.vdot(xv, Am @ xv) / np.vdot(xv, Gm @ xv)
            if not consistent(xt) or list(xt.row_dims) != dims:
                return 'eigentensor inconsistent / wrong dimensions', desc
            if abs(lam - np.real(rq)) > tol:
                return 'returned eigenvalue %.8g is not the Rayleigh quotient %.8g of the returned eigentensor' % (lam, np.real(rq)), desc
            if G is None and abs(np.linalg.norm(xv) - 1) > 1e-8:
                return 'eigentensor does not have unit norm (%.8g)' % np.linalg.norm(xv), desc
            if lam > w[-1] + tol:
                return 'eigenvalue %.8g exceeds the largest eigenvalue %.8g of the pencil' % (lam, w[-1]), desc
        elif clause == 'fixed':
            v = V[:, -1]
            x0 = TT(v.reshape(dims + [1] * order))
            lam, xt, it = evp.als(A, x0, repeats=rng.randint(1, 3), solver=solver, sigma=float(w[-1]))
            xv = dense(xt.cores).reshape(n)
            gap = (w[-1] - w[-2]) if n > 1 else 1.0
            if gap > 1e-3 and (abs(lam - w[-1]) > tol or abs(abs(np.vdot(v, xv)) - 1) > 1e-6):
                return 'exact dominant eigentensor as guess is not returned: |lambda err| %.2e, overlap %.6f' % (abs(lam - w[-1]), abs(np.vdot(v, xv))), desc
        elif clause == 'fullrank':
            x0 = gen_tt(rng, dims, [1] * order, max_ranks(dims), cplx, 'float')
            lam, xt, it = evp.als(A, x0, operator_gevp=G, repeats=2, solver='eigh' if G is None else solver, sigma=float(w[-1]))
            if abs(lam - w[-1]) > tol:
                return 'maximal-rank guess does not give the extremal eigenvalue: %.8g vs %.8g' % (lam, w[-1]), desc
        elif clause == 'deflation':
            v = V[:, -1]
            p = TT(v.reshape(dims + [1] * order))
            sh = -(abs(w[-1]) + abs(w[0]) + 1.0)
            x0 = gen_tt(rng, dims, [1] * order, max_ranks(dims), cplx, 'float')
            lam1, x1, _ = evp.als(A, x0, previous=[p], shift=sh, repeats=2, solver='eigh', sigma=float(w[-1]))
            # explicitly shifted operator A + sh * p p^H
            Ash = A + sh * (p @ p.transpose(conjugate=True)) if False else None
            w2 = np.linalg.eigvalsh(Am + sh * np.outer(v, np.conj(v)))
            if abs(lam1 - w2[-1]) > tol:
                return 'deflation with shift does not match the explicitly shifted operator: %.8g vs %.8g' % (lam1, w2[-1]), desc
        elif clause == 'deflation2':
            if n < 3:
                return None, desc
            ps = [TT(V[:, -1 - k].reshape(dims + [1] * order)) for k in range(2)]
            sh = -(abs(w[-1]) + abs(w[0]) + 1.0)
            x0 = gen_tt(rng, dims, [1] * order, max_ranks(dims), cplx, 'float')
            lam1, x1, _ = evp.als(A, x0, previous=ps, shift=sh, repeats=2, solver='eigh', sigma=float(w[-1]))
            w2 = np.linalg.eigvalsh(Am + sh * sum(np.outer(V[:, -1 - k], np.conj(V[:, -1 - k])) for k in range(2)))
            if abs(lam1 - w2[-1]) > tol:
                return 'deflating two tensors with a shift does not match the explicitly shifted operator: %.8g vs %.8g' % (lam1, w2[-1]), desc
        elif clause == 'power_gevp':
            x0 = gen_tt(rng, dims, [1] * order, max_ranks(dims), cplx, 'float')
            k = rng.randrange(n)
            sig = float(w[k]) + 0.01 * (1 if k == n - 1 else min(1.0, (w[k + 1] - w[k]) / 4))
            d2 = np.sort(abs(w - sig))
            if n > 1 and (d2[0] < 1e-6 or d2[1] / max(d2[0], 1e-12) < 3):
                return None, desc
            lam, xt = evp.power_method(A, x0, operator_gevp=G, repeats=25, sigma=sig)
            xv = dense(xt.cores).reshape(n)
            rq = np.vdot(xv, Am @ xv) / np.vdot(xv, Gm @ xv)
            if abs(lam - rq) > tol:
                return 'power_method (generalised) reports %r, the Rayleigh quotient of its eigentensor is %r' % (lam, rq), desc
            near = w[np.argmin(abs(w - sig))]
            if abs(np.real(lam) - near) > 1e-5 * (1 + abs(near)):
                return 'power_method (generalised) did not converge to the eigenvalue nearest its shift: %.8g vs %.8g' % (np.real(lam), near), desc
        elif clause == 'monotone':
            x0 = gen_tt(rng, dims, [1] * order, feasible_ranks([min(a, b) for a, b in zip(rranks(rng, order, 2), max_ranks(dims))], dims), cplx, 'float')
            sig = float(w[-1]) + 0.5
            reps = (1, 2, 3)
            if rng.random() < 0.5 and n > 2:
                # an interior target with solver 'eig': the per-sweep Ritz values oscillate, the reported one is the best so far
                sig = float(0.5 * (w[n // 2 - 1] + w[n // 2])) + 1e-3
                solver = 'eig'
                reps = (1, 2, 3, 4, 5)
                desc['interior_sigma'] = True
            vals = [evp.als(A, x0, repeats=r, solver=solver, sigma=sig, conv_eps=0)[0] for r in reps]
            desc['values'] = [float(v_) for v_ in vals]
            if any(abs(vals[i_ + 1] - sig) > abs(vals[i_] - sig) + tol for i_ in range(len(vals) - 1)):
                return 'more sweeps moved the reported eigenvalue away from the target: %s (sigma %.6g)' % (vals, sig), desc
        else:
            # inverse power iteration from a maximal-rank guess
            x0 = gen_tt(rng, dims, [1] * order, max_ranks(dims), cplx, 'float')
            k = rng.randrange(n)
            sig = float(w[k]) + 0.01 * (1 if k == n - 1 else min(1.0, (w[k + 1] - w[k]) / 4))
            if n > 1 and min(abs(w - sig)) < 1e-6:
                return None, desc
            lam, xt = evp.power_method(A, x0, repeats=25, sigma=sig)
            xv = dense(xt.cores).reshape(n)
            rq = np.vdot(xv, Am @ xv) / np.vdot(xv, xv)
            if abs(lam - rq) > tol:
                return 'power_method reports %r, the Rayleigh quotient of its eigentensor is %r' % (lam, rq), desc
            near = w[np.argmin(abs(w - sig))]
            d2 = np.sort(abs(w - sig))
            if n > 1 and d2[1] / max(d2[0], 1e-12) > 3 and abs(np.real(lam) - near) > 1e-5 * (1 + abs(near)):
                return 'power_method did not converge to the eigenvalue nearest its shift: %.8g vs %.8g' % (np.real(lam), near), desc
    except np.linalg.LinAlgError as e:
        return None, dict(desc, skipped=repr(e))
    except Exception as e:
        return 'raised %r' % (e,), desc
    if not unchanged([A] + ([G] if G is not None else []), snap):
        return 'operator modified', desc
    return None, desc


def run(ctx):
    quick = ctx.tier == 'quick'
    lib.stage_proof(ctx, PROP_FILES, ['Check/C08.vo'])
    n = 160 if quick else 5000
    cases, metas = [], []
    for k in range(n):
        cs = ctx.rng.getrandbits(48)
        try:
            lit, d = gen_int_case(random.Random(cs))
        except lib.InexactValue:
            ctx.skipped_inexact += 1
            continue
        except ValueError as e:
            # number_ev = 2 with a micro problem that shrinks to dimension 1 under the tape's arbitrary
            # rank choices: outside the admissible inputs (number_ev <= micro dimension)
            ctx.count('skipped:nev>micro-dim')
            continue
        except Exception as e:
            ctx.fail('evp.als raised %r on a valid input' % (e,), {'gen': 'gen_int_case', 'case_seed': cs}, tags={'op': 'evp', 'raised': True})
            continue
        ctx.count('solver:' + d['solver'])
        ctx.count('nev:%d' % d['nev'])
        if d['sensitive']:
            ctx.nontriv((d['order'], d['solver'], d['nev'], d['prev'], d['gevp'], d['cplx'], tuple(d['dims'])))
        if k < 2:
            ctx.sample({'case': d, 'literal': str(lit)[:300]})
        cases.append(lit)
        metas.append({'desc': {'gen': 'gen_int_case', 'case_seed': cs, 'case': d}, 'tags': {'op': 'evp.als'}})
    bad = lib.stage_correspondence(ctx, 'evp', REQ, 'check_C08', cases, metas)
    n_side = 500 if quick else 12000
    if bad:
        n_side *= 4
    for k in range(n_side):
        cs = ctx.rng.getrandbits(48)
        try:
            msg, desc = side_case(cs)
        except Exception as e:
            msg, desc = 'side check raised %r' % (e,), {'case_seed': cs}
        ctx.side_cases += 1
        ctx.evaluations += 1
        ctx.count('side:%s' % desc.get('clause'))
        if msg:
            ctx.fail('evp: ' + msg, {'gen': 'side_case', 'case_seed': cs, 'case': desc}, tags={'clause': desc.get('clause'), 'complex': desc.get('complex')})
    return ctx.finish(level='proof', checker_cmd='make -C coq Props/C08.vo Check/C08.vo && coqc Props/C08.v', trusted=TRUSTED, explanation=RULE)


TRUSTED = ['Coq 8.16.1 kernel + vm_compute', 'harness (tape oracles for eig/eigh/svd, generators)',
           'oracle hypotheses: eig/eigh return eigenpairs of the micro pencil, eigenvectors normalised; SVD value/isometry conjuncts',
           'convergence of the inverse power iteration is a side-check claim (spectral analysis not formalised)', 'IEEE rounding not modelled']
RULE = ('correspondence: integer non-symmetric operators, real/complex, orders 1-3, solvers eig/eigh, number_ev 1-2, deflation tensor with shift, generalised problems, 1-2 sweeps; every eig/eigh/svd call answered from the tape (distinct integer eigenvalues); '
        'side check: Hermitian (and HPD right-hand) operators against scipy.linalg.eigh: Rayleigh consistency, unit norm, <= lambda_max, fixed point, maximal-rank exactness, deflation = shift, best-so-far monotonicity, inverse power iteration')


def replay(obj):
    r = obj['replay']
    if r.get('gen') == 'side_case':
        msg, desc = side_case(r['case_seed'])
        print('replay: %s' % (msg or 'OK (no failure)'))
        return 1 if msg else 0
    print('replay: see file')
    return 1
