# C03 — orthonormalisation preserves the tensor and yields orthonormal cores
import numpy as np, random
from fractions import Fraction
from harness import lib, oracles
from harness.lib import dense, close, consistent
from harness.props.c01 import gen_tt, gen_entries, gen_shape, rranks, shape_tags, describe

import scikit_tt.tensor_train as ttm
from scikit_tt.tensor_train import TT

PROP_FILES = ['Props/C03.v']
REQ = ['SkTT.Check.C03']


def thr_lit(thr):
    if thr == 0:
        return []
    f = Fraction(thr).limit_denominator(1 << 20)
    assert float(f) == thr
    return [f.numerator, f.denominator]


def maxr_lit(maxr):
    if maxr is np.inf or maxr == np.inf:
        return []
    if isinstance(maxr, list):
        return [[(0 if m == np.inf else int(m)) for m in maxr]]
    return [int(maxr)]


def gen_sweep_case(rng, truncate=False):
    """integer-valued case for the correspondence: (opname, call, literal builder)"""
    order = rng.randint(1, 4)
    op = rng.random() < 0.5
    rows, cols, ranks = lib.rand_shape(rng, order, op=op, maxdim=3, maxrank=3)
    cplx = rng.random() < 0.35
    t = gen_tt(rng, rows, cols, ranks, cplx, 'int')
    which = rng.choice(['left', 'right', 'ortho'])
    thr = 0
    maxr = np.inf
    if truncate:
        if rng.random() < 0.6:
            thr = rng.choice([0.25, 0.5, 0.125, 0.3, 0.4, 0.6, 0.45])      # also between s_k/||s|| and s_k/s_0 for tied leading values
        k = rng.random()
        if k < 0.35:
            maxr = rng.randint(1, 3)
        elif k < 0.6:
            maxr = [1] + [rng.choice([1, 2, 3, np.inf]) for _ in range(order - 1)] + [1]
    kind = rng.choice(['arb', 'arb', 'triv'])
    tape = oracles.Tape(rng, kind, cplx=cplx and rng.random() < 0.7)
    if which == 'left':
        start = rng.randint(0, max(0, order - 2))
        end = rng.randint(max(start - 1, 0), order - 2) if order >= 2 else -1
        if rng.random() < 0.3 and order >= 2:
            start, end = 0, None
        call = lambda: t.ortho_left(start_index=start, end_index=end, threshold=thr, max_rank=maxr)
        opcode, s_lit = 1, start
    elif which == 'right':
        start = rng.randint(0, order - 1)
        end = rng.randint(1, start + 1) if start >= 1 else 1
        startarg = start
        if rng.random() < 0.3:
            start, startarg, end = order - 1, None, 1
        call = lambda: t.ortho_right(start_index=startarg, end_index=end, threshold=thr, max_rank=maxr)
        opcode, s_lit = 2, start
    else:
        call = lambda: t.ortho(threshold=thr, max_rank=maxr)
        opcode, s_lit = 3, 0
    return dict(t=t, which=which, call=call, opcode=opcode, start=s_lit, thr=thr, maxr=maxr, tape=tape, kind=kind, cplx=cplx)


def run_int_case(case):
    t = case['t']
    lit_in = lib.cores_lit(t.cores)
    with oracles.patched(case['tape'], names=('svd',)):
        res = case['call']()
    calls = case['tape'].calls
    log = [lib.mat_lit(c[1][0]) for c in calls]
    tape_lit = oracles.svd_tape_lit(calls)
    expected = [lib.cores_lit(res.cores), list(map(int, res.row_dims)), list(map(int, res.col_dims)), list(map(int, res.ranks)), log]
    lit = [case['opcode'], [lit_in, case['start'], thr_lit(case['thr']), maxr_lit(case['maxr']), tape_lit], expected]
    return lit, res, calls


# ---- numerical side check --------------------------------------------------------------------
def gram_left(c):
    m = c.reshape(-1, c.shape[3])
    return m.conj().T @ m


def gram_right(c):
    m = c.reshape(c.shape[0], -1)
    return m @ m.conj().T


def side_case(rng):
    order = rng.randint(1, 5)
    op = rng.random() < 0.5
    rows, cols, ranks = lib.rand_shape(rng, order, op=op, maxdim=3, maxrank=4)
    cplx = rng.random() < 0.4
    t = gen_tt(rng, rows, cols, ranks, cplx, 'float')
    if rng.random() < 0.35 and order >= 2:      # rank-deficient core: a zero / repeated slice at a random position
        i = rng.randrange(order)
        ax = rng.choice([0, 3])
        n = t.cores[i].shape[ax]
        a_, b_ = rng.randrange(n), rng.randrange(n)
        idx_a = [slice(None)] * 4
        idx_b = [slice(None)] * 4
        idx_a[ax], idx_b[ax] = a_, b_
        if a_ == b_ or rng.random() < 0.4:
            t.cores[i][tuple(idx_a)] = 0
        else:
            t.cores[i][tuple(idx_b)] = t.cores[i][tuple(idx_a)]
    which = rng.choice(['left', 'right', 'ortho'])
    before = dense(t.cores)
    ranks0 = list(t.ranks)
    cores0 = [c.copy() for c in t.cores]
    if which == 'left':
        start = rng.randint(0, max(0, order - 2))
        end = rng.randint(max(start - 1, 0), order - 2) if order >= 2 else -1
        res = t.ortho_left(start_index=start, end_index=end)
        processed = list(range(start, end + 1))
        touched = set(range(start, end + 2)) if end >= start else set()
        gram = gram_left
        desc = dict(which=which, start=start, end=end)
    elif which == 'right':
        start = rng.randint(0, order - 1)
        end = rng.randint(1, start + 1) if start >= 1 else 1
        res = t.ortho_right(start_index=start, end_index=end)
        processed = list(range(end, start + 1))
        touched = set(range(end - 1, start + 1)) if start >= end else set()
        gram = gram_right
        desc = dict(which=which, start=start, end=end)
    else:
        res = t.ortho()
        processed = list(range(1, order))
        touched = set(range(order))
        gram = gram_right
        desc = dict(which=which)
    desc['cores'] = [lib.jsonable(c) for c in cores0]
    if res is not t:
        return 'did not return self', desc
    if not consistent(t):
        return 'metadata inconsistent with cores after the sweep', desc
    if not close(dense(t.cores), before, 1e-9):
        return 'value changed: max err %.3e' % float(np.max(np.abs(dense(t.cores) - before))), desc
    if any(a > b for a, b in zip(t.ranks, ranks0)):
        return 'a rank increased: %s -> %s' % (ranks0, t.ranks), desc
    for i in processed:
        g = gram(t.cores[i])
        if not close(g, np.eye(g.shape[0]), 1e-9):
            return 'core %d is not an isometry' % i, desc
    for i in range(order):
        if i not in touched and not np.array_equal(t.cores[i], cores0[i]):
            return 'core %d outside the requested range changed' % i, desc
    return None, desc


def seq_case(rng):
    """sequences of sweeps on ONE object, with storage layouts, boundary ranks and array sharing that single calls on freshly
    generated C-ordered trains never meet"""
    order = rng.randint(1, 4)
    op = rng.random() < 0.5
    rows, cols, ranks = lib.rand_shape(rng, order, op=op, maxdim=3, maxrank=3)
    cplx = rng.random() < 0.3
    variant = rng.choice(['plain', 'fortran', 'open', 'shared'])
    if variant == 'open':                       # open boundary ranks (u and v of TT.svd are such trains)
        if rng.random() < 0.5:
            ranks[0] = rng.randint(2, 3)
        if ranks[0] == 1 or rng.random() < 0.5:
            ranks[-1] = rng.randint(2, 3)
    if variant == 'shared':                     # the same array object at several positions (all bonds of rank 1)
        n, m = rows[0], cols[0]
        c = gen_entries(rng, (1, n, m, 1), cplx, 'float')
        t = TT([c] * order)
        rows, cols, ranks = [n] * order, [m] * order, [1] * (order + 1)
    else:
        t = gen_tt(rng, rows, cols, ranks, cplx, 'float')
    if variant == 'fortran':
        for i in range(order):
            if rng.random() < 0.7:
                t.cores[i] = np.asfortranarray(t.cores[i])
    desc = dict(variant=variant, rows=rows, cols=cols, ranks=list(ranks), complex=cplx, calls=[])
    before = dense(t.cores)
    for step in range(rng.randint(1, 3)):
        which = rng.choice(['left', 'right', 'ortho'] + (['right', 'right'] if variant == 'fortran' else []))
        ranks0 = list(t.ranks)
        if which == 'left':
            start = rng.randint(0, max(0, order - 2))
            end = rng.randint(max(start - 1, 0), order - 2) if order >= 2 else -1
            desc['calls'].append(['left', start, end])
            res = t.ortho_left(start_index=start, end_index=end)
            processed, gram = list(range(start, end + 1)), gram_left
        elif which == 'right':
            start = rng.randint(0, order - 1)
            end = rng.randint(1, start + 1) if start >= 1 else 1
            desc['calls'].append(['right', start, end])
            res = t.ortho_right(start_index=start, end_index=end)
            processed, gram = list(range(end, start + 1)), gram_right
        else:
            desc['calls'].append(['ortho'])
            res = t.ortho()
            processed, gram = list(range(1, order)), gram_right
        if res is not t:
            return 'did not return self', desc
        if not consistent(t):
            return 'metadata inconsistent with cores after call %d' % (step + 1), desc
        if list(t.row_dims) != rows or list(t.col_dims) != cols or t.ranks[0] != ranks[0] or t.ranks[-1] != ranks[-1]:
            return 'dimensions or boundary ranks changed after call %d' % (step + 1), desc
        now = dense(t.cores)
        if now.shape != before.shape or not close(now, before, 1e-9):
            return 'value changed by call %d: max err %.3e' % (step + 1, float(np.max(np.abs(now - before))) if now.shape == before.shape else -1), desc
        if any(a > b for a, b in zip(t.ranks, ranks0)):
            return 'a rank increased in call %d: %s -> %s' % (step + 1, ranks0, t.ranks), desc
        for i in processed:
            g = gram(t.cores[i])
            if not close(g, np.eye(g.shape[0]), 1e-9):
                return 'core %d is not an isometry after call %d' % (i, step + 1), desc
    return None, desc


def run(ctx):
    quick = ctx.tier == 'quick'
    lib.stage_proof(ctx, PROP_FILES, ['Check/C03.vo'])
    n_corr = 250 if quick else 6000
    cases, metas = [], []
    for k in range(n_corr):
        cs = ctx.rng.getrandbits(48)
        crng = random.Random(cs)
        case = gen_sweep_case(crng, truncate=crng.random() < 0.5)
        try:
            lit, res, calls = run_int_case(case)
        except lib.InexactValue:
            ctx.skipped_inexact += 1
            continue
        except Exception as e:
            ctx.fail('%s raised %r on a valid input' % (case['which'], e),
                     {'gen': 'gen_sweep_case', 'case_seed': cs, 'which': case['which'], 'start': case['start']}, tags={'op': case['which'], 'raised': True})
            continue
        tags = tuple(sorted(set(shape_tags(case['t']) + [case['kind']])))
        ctx.nontriv((case['which'], tags, len(calls) > 0))
        ctx.count('sweep:' + case['which'])
        ctx.count('oracle:' + case['kind'])
        ctx.count('svd_calls', len(calls))
        if k < 3:
            ctx.sample({'which': case['which'], 'start': case['start'], 'oracle': case['kind'], 'literal': str(lit)[:300]})
        cases.append(lit)
        metas.append({'case_seed': cs, 'which': case['which'], 'desc': {'case_seed': cs, 'which': case['which'], 'gen': 'gen_sweep_case'}, 'tags': {'op': case['which']}})

    bad = lib.stage_correspondence(ctx, 'sweeps', REQ, 'check_C03', cases, metas, on_disagree=None, show_fn='run_C03')

    n_side = 300 if quick else 18000
    if bad:
        n_side *= 5
    for k in range(n_side):
        cs = ctx.rng.getrandbits(48)
        try:
            msg, desc = side_case(random.Random(cs))
        except Exception as e:
            msg, desc = 'raised %r' % (e,), {'which': 'exception', 'case_seed': cs}
        ctx.side_cases += 1
        ctx.evaluations += 1
        if msg:
            ctx.fail('ortho: ' + msg, {'gen': 'side_case', 'case_seed': cs, 'case': desc}, tags={'op': desc['which']})
            break
    for k in range(800 if quick else 20000):
        cs = ctx.rng.getrandbits(48)
        try:
            msg, desc = seq_case(random.Random(cs))
        except Exception as e:
            msg, desc = 'raised %r' % (e,), {'variant': 'exception', 'case_seed': cs}
        ctx.side_cases += 1
        ctx.evaluations += 1
        ctx.count('seq:' + str(desc.get('variant')))
        if msg:
            ctx.fail('ortho sequence: ' + msg, {'gen': 'seq_case', 'case_seed': cs, 'case': desc}, tags={'op': 'sequence', 'variant': desc.get('variant')})
    return ctx.finish(level='proof', checker_cmd='make -C coq (full .vo build) && coqc Props/C03.v (Print Assumptions audit)',
                      trusted=TRUSTED, explanation=RULE)


TRUSTED = ['Coq 8.16.1 kernel (coqc, vm_compute for case evaluation)', 'harness/lib.py, harness/oracles.py, harness/props/c03.py',
           'SVD is an oracle: theorems assume, per call, exactly the svd_spec conjuncts they name; LAPACK is trusted to meet them (monitored in the side check through the isometry/value tests)',
           'IEEE rounding not modelled']
RULE = ('correspondence: integer-valued TTs, scipy.linalg.svd replaced by a tape oracle (arbitrary integer answers of admissible shape / exact trivial factorisation); '
        'the model must hand the oracle the same matrices and return the same cores and cached ranks. non-trivial/distinct = (sweep kind, edge-shape tags + oracle kind, >=1 svd call) cells; '
        'side check: float/complex TTs incl. rank-deficient cores, value/isometry/rank/frame/consistency against NumPy; sequences of 1-3 sweeps on one object with Fortran-ordered cores, open boundary ranks and one array object shared by several positions')


def replay(obj):
    r = obj['replay']
    if r.get('gen') == 'side_case':
        msg, desc = side_case(random.Random(r['case_seed']))
        print('replay side_case seed=%s: %s' % (r['case_seed'], msg or 'OK (no failure)'))
        return 1 if msg else 0
    if r.get('gen') == 'seq_case':
        msg, desc = seq_case(random.Random(r['case_seed']))
        print('replay seq_case seed=%s: %s' % (r['case_seed'], msg or 'OK (no failure)'))
        return 1 if msg else 0
    print('replay: correspondence/proof obligation; see file')
    return 1
