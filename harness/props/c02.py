# C02 — contractions and structural rearrangements equal their dense definition
import numpy as np, random
from harness import lib, oracles
from harness.lib import dense, close, consistent
from harness.props.c01 import gen_tt, gen_entries, rranks, shape_tags, describe, judge, out_lit
from harness.props.c03 import thr_lit

import scikit_tt.tensor_train as ttm
from scikit_tt.tensor_train import TT

PROP_FILES = ['Props/C02.v']
REQ = ['SkTT.Check.C02']
MODES = ['last-first', 'last-last', 'first-last', 'first-first']


def interleave(d, order):
    perm = []
    for i in range(order):
        perm += [i, order + i]
    return np.transpose(d, perm)


def deinterleave(d, order):
    perm = [2 * i for i in range(order)] + [2 * i + 1 for i in range(order)]
    return np.transpose(d, perm)


def tensordot_dense(t, u, k, mode):
    nt, nu = t.order, u.order
    T = interleave(dense(t.cores), nt)
    U = interleave(dense(u.cores), nu)
    tc = list(range(nt - k, nt)) if mode.startswith('last') else list(range(k))
    uc = list(range(k)) if mode.endswith('first') else list(range(nu - k, nu))
    at = [a for i in tc for a in (2 * i, 2 * i + 1)]
    au = [a for i in uc for a in (2 * i, 2 * i + 1)]
    res = np.tensordot(T, U, axes=(at, au))
    trem = [i for i in range(nt) if i not in tc]
    urem = [i for i in range(nu) if i not in uc]
    # res axes: t remaining pairs, then u remaining pairs (each in original order)
    slots = [('t', i) for i in trem] + [('u', i) for i in urem]
    if mode == 'last-first':
        want = [('t', i) for i in trem] + [('u', i) for i in urem]
    elif mode == 'last-last':
        want = [('t', i) for i in trem] + [('u', i) for i in reversed(urem)]
    elif mode == 'first-last':
        want = [('u', i) for i in urem] + [('t', i) for i in trem]
    else:
        want = [('u', i) for i in reversed(urem)] + [('t', i) for i in trem]
    if not want:
        return res.reshape(1, 1)
    perm = []
    for s in want:
        p = slots.index(s)
        perm += [2 * p, 2 * p + 1]
    res = np.transpose(res, perm)
    return deinterleave(res, len(want))


def tensordot_dense_open(t, u, k, mode):
    """the same with free (uncontracted) outer ranks > 1: result shape rows + cols + [r0, rd]"""
    nt, nu = t.order, u.order

    def pairs_and_ranks(x, n):
        d = dense(x.cores)
        if d.ndim == 2 * n:
            d = d.reshape(list(d.shape) + [1, 1])
        perm = [a for i in range(n) for a in (i, n + i)] + [2 * n, 2 * n + 1]
        return np.transpose(d, perm)            # (m1, n1, ..., mn, nn, r0, rd)
    T, U = pairs_and_ranks(t, nt), pairs_and_ranks(u, nu)
    tlast, ufirst = mode.startswith('last'), mode.endswith('first')
    # the contracted end has rank 1: drop it, keep the free end as one extra axis
    T = T[..., 0] if tlast else T[..., 0, :]            # free: r0 of t (last-*) resp. rd of t (first-*)
    U = U[..., 0, :] if ufirst else U[..., 0]            # free: rd of u (*-first) resp. r0 of u (*-last)
    tc = list(range(nt - k, nt)) if tlast else list(range(k))
    uc = list(range(k)) if ufirst else list(range(nu - k, nu))
    at = [a for i in tc for a in (2 * i, 2 * i + 1)]
    au = [a for i in uc for a in (2 * i, 2 * i + 1)]
    res = np.tensordot(T, U, axes=(at, au))
    trem = [i for i in range(nt) if i not in tc]
    urem = [i for i in range(nu) if i not in uc]
    # res axes: t remaining pairs, ft, u remaining pairs, fu
    pos = {}
    a = 0
    for i in trem:
        pos[('t', i)] = (a, a + 1); a += 2
    ft = a; a += 1
    for i in urem:
        pos[('u', i)] = (a, a + 1); a += 2
    fu = a
    if mode == 'last-first':
        want, r0, rd = [('t', i) for i in trem] + [('u', i) for i in urem], ft, fu
    elif mode == 'last-last':
        want, r0, rd = [('t', i) for i in trem] + [('u', i) for i in reversed(urem)], ft, fu
    elif mode == 'first-last':
        want, r0, rd = [('u', i) for i in urem] + [('t', i) for i in trem], fu, ft
    else:
        want, r0, rd = [('u', i) for i in reversed(urem)] + [('t', i) for i in trem], fu, ft
    if not want:          # complete contraction: one core (free rank of self, 1, 1, free rank of other) in every mode
        return np.transpose(res, [ft, fu]).reshape(1, 1, res.shape[ft], res.shape[fu])
    perm = [pos[s_][0] for s_ in want] + [pos[s_][1] for s_ in want] + [r0, rd]
    return np.transpose(res, perm)


def op_tensordot(rng, mode_):
    nt, nu = rng.randint(1, 4), rng.randint(1, 4)
    k = rng.randint(1, min(nt, nu))
    mode = rng.choice(MODES)
    op = rng.random() < 0.5
    rt, ct, rkt = lib.rand_shape(rng, nt, op=op)
    ru, cu, rku = lib.rand_shape(rng, nu, op=op)
    tc = list(range(nt - k, nt)) if mode.startswith('last') else list(range(k))
    uc = list(range(k)) if mode.endswith('first') else list(range(nu - k, nu))
    for a, b in zip(tc, uc):
        ru[b], cu[b] = rt[a], ct[a]
    openr = rng.random() < 0.3          # free outer ranks > 1 at the uncontracted ends (the u / v parts of TT.svd are such trains)
    if openr:
        rkt[0 if mode.startswith('last') else -1] = rng.randint(1, 3)
        rku[-1 if mode.endswith('first') else 0] = rng.randint(1, 3)
    t = gen_tt(rng, rt, ct, rkt, rng.random() < 0.35, mode_)
    u = gen_tt(rng, ru, cu, rku, rng.random() < 0.35, mode_)
    if openr:
        return dict(op='tensordot:' + mode, opcode=1, inputs=[t, u, k, mode],
                    lit_in=lambda: [lib.cores_lit(t.cores), lib.cores_lit(u.cores), MODES.index(mode), k],
                    impl=lambda: t.tensordot(u, k, mode=mode), expect=lambda: tensordot_dense_open(t, u, k, mode), kind='tt_b')
    return dict(op='tensordot:' + mode, opcode=1, inputs=[t, u, k, mode],
                lit_in=lambda: [lib.cores_lit(t.cores), lib.cores_lit(u.cores), MODES.index(mode), k],
                impl=lambda: t.tensordot(u, k, mode=mode), expect=lambda: tensordot_dense(t, u, k, mode), kind='tt')


def gen_tt_b(rng, rows, cols, ranks, cplx, mode_):
    """cores of one dtype, or (40 % of the complex trains of order > 1) real and complex cores mixed"""
    n = len(rows)
    flags = [bool(cplx)] * n
    if cplx and n > 1 and rng.random() < 0.4:
        flags = [rng.random() < 0.5 for _ in range(n)]
        if not any(flags):
            flags[rng.randrange(n)] = True
    return TT([gen_entries(rng, (ranks[i], rows[i], cols[i], ranks[i + 1]), flags[i], mode_) for i in range(n)])


def gen_tt(rng, rows, cols, ranks, cplx, mode_):      # shadows c01.gen_tt: C02 also exercises trains of mixed dtype
    return gen_tt_b(rng, rows, cols, ranks, cplx, mode_)


def op_rank_tensordot(rng, mode_):
    order = rng.randint(1, 3)
    rows, cols, ranks = lib.rand_shape(rng, order, op=rng.random() < 0.5)
    last = rng.random() < 0.5
    r = rng.randint(1, 3)
    n = rng.randint(1, 3)
    if last:
        ranks[-1] = r
        mat = gen_entries(rng, (r, n), rng.random() < 0.3, mode_)
    else:
        ranks[0] = r
        mat = gen_entries(rng, (n, r), rng.random() < 0.3, mode_)
    t = gen_tt_b(rng, rows, cols, ranks, rng.random() < 0.3, mode_)

    def expect():
        d = dense(t.cores)            # rows + cols + [r0, rd]
        if d.ndim == 2 * order:
            d = d.reshape(list(d.shape) + [1, 1])
        if last:
            out = np.tensordot(d, mat, axes=([2 * order + 1], [0]))
        else:
            out = np.moveaxis(np.tensordot(mat, d, axes=([1], [2 * order])), 0, 2 * order)
        return out
    return dict(op='rank_tensordot:' + ('last' if last else 'first'), opcode=2, inputs=[t, mat, last],
                lit_in=lambda: [lib.cores_lit(t.cores), lib.mat_lit(mat), 0 if last else 1],
                impl=lambda: t.rank_tensordot(mat, mode='last' if last else 'first'), expect=expect, kind='tt_b')


def op_concatenate(rng, mode_):
    n1, n2 = rng.randint(1, 3), rng.randint(1, 3)
    op = rng.random() < 0.5
    r1, c1, k1 = lib.rand_shape(rng, n1, op=op)
    r2, c2, k2 = lib.rand_shape(rng, n2, op=op)
    r = rng.choice([1, 1, 2, 3])
    k1[-1] = r
    k2[0] = r
    t = gen_tt_b(rng, r1, c1, k1, rng.random() < 0.3, mode_)
    u = gen_tt_b(rng, r2, c2, k2, rng.random() < 0.3, mode_)
    aslist = rng.random() < 0.4
    return dict(op='concatenate:' + ('list' if aslist else 'tt'), opcode=3, inputs=[t, u, aslist],
                lit_in=lambda: [lib.cores_lit(t.cores), lib.cores_lit(u.cores)],
                impl=lambda: t.concatenate([c.copy() for c in u.cores] if aslist else u),
                expect=lambda: dense(t.cores + u.cores), kind='tt')


def op_rank_transpose(rng, mode_):
    order = rng.randint(1, 4)
    rows, cols, ranks = lib.rand_shape(rng, order, op=rng.random() < 0.5)
    t = gen_tt(rng, rows, cols, ranks, rng.random() < 0.3, mode_)

    def expect():
        d = dense(t.cores)
        perm = list(range(order - 1, -1, -1)) + list(range(2 * order - 1, order - 1, -1))
        return np.transpose(d, perm)
    return dict(op='rank_transpose', opcode=4, inputs=[t], lit_in=lambda: [lib.cores_lit(t.cores)],
                impl=lambda: t.rank_transpose(), expect=expect, kind='tt')


def op_diag(rng, mode_):
    order = rng.randint(1, 4)
    rows, cols, ranks = lib.rand_shape(rng, order, op=True)
    sel = [rng.random() < 0.5 for _ in range(order)]
    for i in range(order):
        if sel[i]:
            cols[i] = 1
    t = gen_tt(rng, rows, cols, ranks, rng.random() < 0.3, mode_)
    dl = [i for i in range(order) if sel[i]]

    def expect():
        d = interleave(dense(t.cores), order)     # (m1,n1,m2,n2,...)
        for i in dl:
            m = rows[i]
            idx = [slice(None)] * d.ndim
            idx[2 * i + 1] = 0
            v = d[tuple(idx)]                       # axis 2i+1 removed
            new = np.zeros(list(d.shape[:2 * i + 1]) + [m] + list(d.shape[2 * i + 2:]), dtype=complex)
            for x in range(m):
                ia = [slice(None)] * new.ndim
                ia[2 * i] = x
                ia[2 * i + 1] = x
                ib = [slice(None)] * v.ndim
                ib[2 * i] = x
                new[tuple(ia)] = v[tuple(ib)]
            d = new
        return deinterleave(d, order)
    return dict(op='diag', opcode=5, inputs=[t, dl], lit_in=lambda: [lib.cores_lit(t.cores), [1 if s else 0 for s in sel]],
                impl=lambda: t.diag(dl), expect=expect, kind='tt')


def op_squeeze(rng, mode_):
    order = rng.randint(1, 5)
    rows, cols, ranks = lib.rand_shape(rng, order, op=rng.random() < 0.5)
    for i in range(order):
        if rng.random() < 0.45:
            rows[i] = cols[i] = 1
    if all(r == 1 and c == 1 for r, c in zip(rows, cols)):
        i = rng.randrange(order)
        rows[i] = 2
    t = gen_tt(rng, rows, cols, ranks, rng.random() < 0.3, mode_)
    keep = [i for i in range(order) if not (rows[i] == 1 and cols[i] == 1)]

    def expect():
        return dense(t.cores).reshape([rows[i] for i in keep] + [cols[i] for i in keep])
    return dict(op='squeeze', opcode=6, inputs=[t], lit_in=lambda: [lib.cores_lit(t.cores)], impl=lambda: t.squeeze(), expect=expect, kind='tt')


def factor_shape(rng, order, op):
    rdl, cdl = [], []
    for _ in range(order):
        n = rng.randint(1, 3)
        rdl.append([rng.randint(1, 2) if rng.random() < 0.7 else 3 for _ in range(n)])
        cdl.append([(rng.randint(1, 2) if op else 1) for _ in range(n)])
    return rdl, cdl


def op_qtt2tt(rng, mode_):
    order = rng.randint(1, 3)
    rdl, cdl = factor_shape(rng, order, rng.random() < 0.5)
    rows = [m for l in rdl for m in l]
    cols = [m for l in cdl for m in l]
    t = gen_tt(rng, rows, cols, rranks(rng, len(rows), 2), rng.random() < 0.3, mode_)
    merges = [len(l) for l in rdl]

    def expect():
        return dense(t.cores).reshape([int(np.prod(l)) for l in rdl] + [int(np.prod(l)) for l in cdl])
    return dict(op='qtt2tt', opcode=7, inputs=[t, merges], lit_in=lambda: [lib.cores_lit(t.cores), merges],
                impl=lambda: t.qtt2tt(merges), expect=expect, kind='tt')


def op_tt2qtt(rng, mode_):
    # float mode only here (real SVD); the integer/tape variant is generated separately
    order = rng.randint(1, 3)
    rdl, cdl = factor_shape(rng, order, rng.random() < 0.5)
    rows = [int(np.prod(l)) for l in rdl]
    cols = [int(np.prod(l)) for l in cdl]
    t = gen_tt(rng, rows, cols, rranks(rng, order, 3), rng.random() < 0.3, 'float')
    rt = rng.random() < 0.5

    def impl():
        q = t.tt2qtt(rdl, cdl)
        if rt:
            return q.qtt2tt([len(l) for l in rdl])
        return q

    def expect():
        if rt:
            return dense(t.cores)
        return dense(t.cores).reshape([m for l in rdl for m in l] + [m for l in cdl for m in l])
    return dict(op='tt2qtt' + ('+qtt2tt' if rt else ''), opcode=None, inputs=[t, rdl, cdl], impl=impl, expect=expect, kind='tt')


def gen_blocks(rng, mode_, vector=False):
    r1, r2 = rng.randint(1, 3), (1 if vector else rng.randint(1, 3))
    m, n = rng.randint(1, 3), rng.randint(1, 3)
    cplx = rng.random() < 0.4
    blocks = [[(0 if rng.random() < 0.35 else gen_entries(rng, (m, n), cplx and rng.random() < 0.7, mode_)) for _ in range(r2)] for _ in range(r1)]
    if all(isinstance(b, int) for row in blocks for b in row):
        blocks[0][0] = gen_entries(rng, (m, n), cplx, mode_)
    return r1, r2, m, n, blocks, cplx


def op_build_core(rng, mode_):
    vector = rng.random() < 0.3
    r1, r2, m, n, blocks, cplx = gen_blocks(rng, mode_, vector)
    if r1 >= 2 and rng.random() < 0.4:
        # targeted: real blocks ahead of the first complex one (the storage switches from real to complex on the way)
        k0 = rng.randrange(1, r1)
        for i in range(r1):
            for j in range(r2):
                blocks[i][j] = gen_entries(rng, (m, n), i >= k0, mode_)
    anyc = any(np.iscomplexobj(b) for row in blocks for b in row if not isinstance(b, int))
    isc = (anyc and rng.random() < 0.4) or (rng.random() < 0.3)
    arg = [row[0] for row in blocks] if vector else blocks

    def expect():
        e = np.zeros((r1, m, n, r2), dtype=complex)
        for i in range(r1):
            for j in range(r2):
                if not isinstance(blocks[i][j], int):
                    e[i, :, :, j] = blocks[i][j]
        return e

    def lit():
        return [r1, r2, m, n, [[([] if isinstance(b, int) else lib.mat_lit(b)) for b in row] for row in blocks]]
    return dict(op='build_core' + ('_vector' if vector else ''), opcode=9, inputs=[arg, isc], lit_in=lit,
                impl=lambda: ttm.build_core(arg, iscomplex=isc), expect=expect, kind='array4')


OPS = [op_tensordot, op_rank_tensordot, op_concatenate, op_rank_transpose, op_diag, op_squeeze, op_qtt2tt, op_build_core]
SIDE_ONLY = [op_tt2qtt]
BY_NAME = {f.__name__: f for f in OPS + SIDE_ONLY}


def judge2(case):
    """like c01.judge but allowing non-trivial boundary ranks and raw 4-way arrays"""
    if case['kind'] in ('tt', 'scalar', 'array'):
        return judge(case)
    from harness.props.c01 import snapshot, unchanged
    snap = snapshot(case['inputs'])
    try:
        res = case['impl']()
    except Exception as e:
        return 'raised %r' % (e,), None
    exp = np.asarray(case['expect']())
    if not unchanged(case['inputs'], snap):
        return 'an operand was modified', res
    if case['kind'] == 'tt_b':
        if not consistent(res):
            return 'result metadata inconsistent with its cores', res
        got = dense(res.cores)
        if got.ndim == exp.ndim - 2:
            got = got.reshape(list(got.shape) + [1, 1])
    else:
        got = np.asarray(res)
    if got.shape != exp.shape:
        return 'shape %s instead of %s' % (got.shape, exp.shape), res
    if not close(got, exp):
        return 'value differs from dense evaluation: max err %.3e' % float(np.max(np.abs(got - exp))), res
    return None, res


def out_lit2(case, res):
    if case['kind'] == 'array4':
        return lib.core_lit(res)
    return lib.tt_out_lit(res)


def gen_tt2qtt_int(rng):
    order = rng.randint(1, 3)
    rdl, cdl = factor_shape(rng, order, rng.random() < 0.5)
    rows = [int(np.prod(l)) for l in rdl]
    cols = [int(np.prod(l)) for l in cdl]
    cplx = rng.random() < 0.3
    t = gen_tt(rng, rows, cols, rranks(rng, order, 3), cplx, 'int')
    thr = rng.choice([0, 0, 0.25, 0.5])
    tape = oracles.Tape(rng, rng.choice(['arb', 'arb', 'triv']), cplx=cplx)
    lit_in = lib.cores_lit(t.cores)
    with oracles.patched(tape, names=('svd',)):
        q = t.tt2qtt(rdl, cdl, threshold=thr)
    log = [lib.mat_lit(c[1][0]) for c in tape.calls]
    lit = [8, [lit_in, rdl, cdl, thr_lit(thr), oracles.svd_tape_lit(tape.calls)], [lib.tt_out_lit(q), log]]
    return lit, t, len(tape.calls)


def run(ctx):
    quick = ctx.tier == 'quick'
    lib.stage_proof(ctx, PROP_FILES, ['Check/C02.vo'])
    n_corr = 60 if quick else 1200
    cases, metas = [], []
    for fn in OPS:
        mult = 4 if fn is op_tensordot else 1
        for k in range(n_corr * mult):
            cs = ctx.rng.getrandbits(48)
            case = fn(random.Random(cs), 'int')
            try:
                res = case['impl']()
                lit = [case['opcode'], case['lit_in'](), out_lit2(case, res)]
            except lib.InexactValue:
                ctx.skipped_inexact += 1
                continue
            except Exception as e:
                msg, _ = judge2(fn(random.Random(cs), 'int'))
                ctx.fail('%s: %s' % (case['op'], msg), {'fn': fn.__name__, 'case_seed': cs, 'mode': 'int', 'case': describe(case)}, tags={'op': case['op']})
                continue
            tags = [t for x in case['inputs'] if isinstance(x, TT) for t in shape_tags(x)]
            ctx.nontriv((case['op'], tuple(sorted(set(tags)))))
            ctx.count('op:' + case['op'])
            if k == 0:
                ctx.sample({'op': case['op'], 'literal': str(lit)[:300]})
            cases.append(lit)
            metas.append({'fn': fn.__name__, 'case_seed': cs, 'op': case['op'], 'desc': {'fn': fn.__name__, 'case_seed': cs}, 'tags': {'op': case['op']}})
    for k in range(n_corr):
        cs = ctx.rng.getrandbits(48)
        try:
            lit, t, ncalls = gen_tt2qtt_int(random.Random(cs))
        except lib.InexactValue:
            ctx.skipped_inexact += 1
            continue
        ctx.count('op:tt2qtt(tape)')
        ctx.nontriv(('tt2qtt', ncalls > 0, tuple(shape_tags(t))))
        cases.append(lit)
        metas.append({'fn': 'gen_tt2qtt_int', 'case_seed': cs, 'op': 'tt2qtt', 'desc': {'fn': 'gen_tt2qtt_int', 'case_seed': cs}, 'tags': {'op': 'tt2qtt'}})

    def search(meta):
        if meta['fn'] not in BY_NAME:
            return False
        case = BY_NAME[meta['fn']](random.Random(meta['case_seed']), 'int')
        msg, _ = judge2(case)
        if msg:
            ctx.fail('%s: %s' % (case['op'], msg), {'fn': meta['fn'], 'case_seed': meta['case_seed'], 'mode': 'int', 'case': describe(case)}, tags={'op': case['op']})
            return True
        return False
    bad = lib.stage_correspondence(ctx, 'ops', REQ, 'check_C02', cases, metas, on_disagree=search, show_fn='run_C02')

    n_side = 60 if quick else 4500
    if bad:
        n_side *= 5
    for fn in OPS + SIDE_ONLY:
        mult = 4 if fn is op_tensordot else 1
        for k in range(n_side * mult):
            cs = ctx.rng.getrandbits(48)
            case = fn(random.Random(cs), 'float')
            msg, _ = judge2(case)
            ctx.side_cases += 1
            ctx.evaluations += 1
            if msg:
                ctx.fail('%s: %s' % (case['op'], msg), {'fn': fn.__name__, 'case_seed': cs, 'mode': 'float', 'case': describe(case)}, tags={'op': case['op']})
                break
    return ctx.finish(level='proof', checker_cmd='make -C coq (full .vo build) && coqc Props/C02.v (Print Assumptions audit)',
                      trusted=TRUSTED, explanation=RULE)


TRUSTED = ['Coq 8.16.1 kernel (coqc, vm_compute for case evaluation)', 'harness/lib.py, harness/oracles.py, harness/props/c02.py',
           'NumPy tensordot/einsum/reshape as dense oracle', 'SVD oracle (tt2qtt): value conjunct only', 'IEEE rounding not modelled']
RULE = ('correspondence: integer-valued operands, one case per (operation, 48-bit seed): tensordot in all 4 modes x all structural cases (num_axes = partial / complete in self / other / both), '
        'rank_tensordot, concatenate (TT / list), rank_transpose, diag, squeeze, qtt2tt, tt2qtt with SVD tape, build_core with zero blocks; distinct/non-trivial = (operation incl. mode, edge-shape tags) cells; '
        'side check: float/complex operands against numpy.tensordot/reshape on independently contracted dense tensors')


def replay(obj):
    r = obj['replay']
    if r.get('fn') in BY_NAME:
        case = BY_NAME[r['fn']](random.Random(r['case_seed']), r.get('mode', 'float'))
        msg, _ = judge2(case)
        print('replay %s seed=%s: %s' % (case['op'], r['case_seed'], msg or 'OK (no failure)'))
        return 1 if msg else 0
    print('replay: correspondence/proof obligation; see file')
    return 1
